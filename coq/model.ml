
type __ = Obj.t

(** val negb : bool -> bool **)

let negb = function
| true -> false
| false -> true

type nat =
| O
| S of nat

(** val option_map : ('a1 -> 'a2) -> 'a1 option -> 'a2 option **)

let option_map f = function
| Some a -> Some (f a)
| None -> None

(** val fst : ('a1 * 'a2) -> 'a1 **)

let fst = function
| (x, _) -> x

(** val snd : ('a1 * 'a2) -> 'a2 **)

let snd = function
| (_, y) -> y

(** val length : 'a1 list -> nat **)

let rec length = function
| [] -> O
| _ :: l' -> S (length l')

(** val app : 'a1 list -> 'a1 list -> 'a1 list **)

let rec app l m =
  match l with
  | [] -> m
  | a :: l1 -> a :: (app l1 m)

type comparison =
| Eq
| Lt
| Gt

(** val compOpp : comparison -> comparison **)

let compOpp = function
| Eq -> Eq
| Lt -> Gt
| Gt -> Lt

module Coq__1 = struct
 (** val add : nat -> nat -> nat **)
 let rec add n m =
   match n with
   | O -> m
   | S p -> S (add p m)
end
include Coq__1

(** val mul : nat -> nat -> nat **)

let rec mul n m =
  match n with
  | O -> O
  | S p -> add m (mul p m)

(** val sub : nat -> nat -> nat **)

let rec sub n m =
  match n with
  | O -> n
  | S k -> (match m with
            | O -> n
            | S l -> sub k l)

type positive =
| XI of positive
| XO of positive
| XH

type z =
| Z0
| Zpos of positive
| Zneg of positive

module Nat =
 struct
  (** val sub : nat -> nat -> nat **)

  let rec sub n m =
    match n with
    | O -> n
    | S k -> (match m with
              | O -> n
              | S l -> sub k l)

  (** val eqb : nat -> nat -> bool **)

  let rec eqb n m =
    match n with
    | O -> (match m with
            | O -> true
            | S _ -> false)
    | S n' -> (match m with
               | O -> false
               | S m' -> eqb n' m')

  (** val leb : nat -> nat -> bool **)

  let rec leb n m =
    match n with
    | O -> true
    | S n' -> (match m with
               | O -> false
               | S m' -> leb n' m')

  (** val ltb : nat -> nat -> bool **)

  let ltb n m =
    leb (S n) m

  (** val min : nat -> nat -> nat **)

  let rec min n m =
    match n with
    | O -> O
    | S n' -> (match m with
               | O -> O
               | S m' -> S (min n' m'))

  (** val divmod : nat -> nat -> nat -> nat -> nat * nat **)

  let rec divmod x y q0 u =
    match x with
    | O -> (q0, u)
    | S x' ->
      (match u with
       | O -> divmod x' y (S q0) y
       | S u' -> divmod x' y q0 u')

  (** val modulo : nat -> nat -> nat **)

  let modulo x = function
  | O -> x
  | S y' -> sub y' (snd (divmod x y' O y'))
 end

module Pos =
 struct
  type mask =
  | IsNul
  | IsPos of positive
  | IsNeg
 end

module Coq_Pos =
 struct
  (** val succ : positive -> positive **)

  let rec succ = function
  | XI p -> XO (succ p)
  | XO p -> XI p
  | XH -> XO XH

  (** val add : positive -> positive -> positive **)

  let rec add x y =
    match x with
    | XI p ->
      (match y with
       | XI q0 -> XO (add_carry p q0)
       | XO q0 -> XI (add p q0)
       | XH -> XO (succ p))
    | XO p ->
      (match y with
       | XI q0 -> XI (add p q0)
       | XO q0 -> XO (add p q0)
       | XH -> XI p)
    | XH -> (match y with
             | XI q0 -> XO (succ q0)
             | XO q0 -> XI q0
             | XH -> XO XH)

  (** val add_carry : positive -> positive -> positive **)

  and add_carry x y =
    match x with
    | XI p ->
      (match y with
       | XI q0 -> XI (add_carry p q0)
       | XO q0 -> XO (add_carry p q0)
       | XH -> XI (succ p))
    | XO p ->
      (match y with
       | XI q0 -> XO (add_carry p q0)
       | XO q0 -> XI (add p q0)
       | XH -> XO (succ p))
    | XH ->
      (match y with
       | XI q0 -> XI (succ q0)
       | XO q0 -> XO (succ q0)
       | XH -> XI XH)

  (** val pred_double : positive -> positive **)

  let rec pred_double = function
  | XI p -> XI (XO p)
  | XO p -> XI (pred_double p)
  | XH -> XH

  type mask = Pos.mask =
  | IsNul
  | IsPos of positive
  | IsNeg

  (** val succ_double_mask : mask -> mask **)

  let succ_double_mask = function
  | IsNul -> IsPos XH
  | IsPos p -> IsPos (XI p)
  | IsNeg -> IsNeg

  (** val double_mask : mask -> mask **)

  let double_mask = function
  | IsPos p -> IsPos (XO p)
  | x0 -> x0

  (** val double_pred_mask : positive -> mask **)

  let double_pred_mask = function
  | XI p -> IsPos (XO (XO p))
  | XO p -> IsPos (XO (pred_double p))
  | XH -> IsNul

  (** val sub_mask : positive -> positive -> mask **)

  let rec sub_mask x y =
    match x with
    | XI p ->
      (match y with
       | XI q0 -> double_mask (sub_mask p q0)
       | XO q0 -> succ_double_mask (sub_mask p q0)
       | XH -> IsPos (XO p))
    | XO p ->
      (match y with
       | XI q0 -> succ_double_mask (sub_mask_carry p q0)
       | XO q0 -> double_mask (sub_mask p q0)
       | XH -> IsPos (pred_double p))
    | XH -> (match y with
             | XH -> IsNul
             | _ -> IsNeg)

  (** val sub_mask_carry : positive -> positive -> mask **)

  and sub_mask_carry x y =
    match x with
    | XI p ->
      (match y with
       | XI q0 -> succ_double_mask (sub_mask_carry p q0)
       | XO q0 -> double_mask (sub_mask p q0)
       | XH -> IsPos (pred_double p))
    | XO p ->
      (match y with
       | XI q0 -> double_mask (sub_mask_carry p q0)
       | XO q0 -> succ_double_mask (sub_mask_carry p q0)
       | XH -> double_pred_mask p)
    | XH -> IsNeg

  (** val sub : positive -> positive -> positive **)

  let sub x y =
    match sub_mask x y with
    | IsPos z0 -> z0
    | _ -> XH

  (** val mul : positive -> positive -> positive **)

  let rec mul x y =
    match x with
    | XI p -> add y (XO (mul p y))
    | XO p -> XO (mul p y)
    | XH -> y

  (** val size_nat : positive -> nat **)

  let rec size_nat = function
  | XI p0 -> S (size_nat p0)
  | XO p0 -> S (size_nat p0)
  | XH -> S O

  (** val compare_cont : comparison -> positive -> positive -> comparison **)

  let rec compare_cont r x y =
    match x with
    | XI p ->
      (match y with
       | XI q0 -> compare_cont r p q0
       | XO q0 -> compare_cont Gt p q0
       | XH -> Gt)
    | XO p ->
      (match y with
       | XI q0 -> compare_cont Lt p q0
       | XO q0 -> compare_cont r p q0
       | XH -> Gt)
    | XH -> (match y with
             | XH -> r
             | _ -> Lt)

  (** val compare : positive -> positive -> comparison **)

  let compare =
    compare_cont Eq

  (** val eqb : positive -> positive -> bool **)

  let rec eqb p q0 =
    match p with
    | XI p0 -> (match q0 with
                | XI q1 -> eqb p0 q1
                | _ -> false)
    | XO p0 -> (match q0 with
                | XO q1 -> eqb p0 q1
                | _ -> false)
    | XH -> (match q0 with
             | XH -> true
             | _ -> false)

  (** val ggcdn :
      nat -> positive -> positive -> positive * (positive * positive) **)

  let rec ggcdn n a b =
    match n with
    | O -> (XH, (a, b))
    | S n0 ->
      (match a with
       | XI a' ->
         (match b with
          | XI b' ->
            (match compare a' b' with
             | Eq -> (a, (XH, XH))
             | Lt ->
               let (g, p) = ggcdn n0 (sub b' a') a in
               let (ba, aa) = p in (g, (aa, (add aa (XO ba))))
             | Gt ->
               let (g, p) = ggcdn n0 (sub a' b') b in
               let (ab, bb) = p in (g, ((add bb (XO ab)), bb)))
          | XO b0 ->
            let (g, p) = ggcdn n0 a b0 in
            let (aa, bb) = p in (g, (aa, (XO bb)))
          | XH -> (XH, (a, XH)))
       | XO a0 ->
         (match b with
          | XI _ ->
            let (g, p) = ggcdn n0 a0 b in
            let (aa, bb) = p in (g, ((XO aa), bb))
          | XO b0 -> let (g, p) = ggcdn n0 a0 b0 in ((XO g), p)
          | XH -> (XH, (a, XH)))
       | XH -> (XH, (XH, b)))

  (** val ggcd : positive -> positive -> positive * (positive * positive) **)

  let ggcd a b =
    ggcdn (Coq__1.add (size_nat a) (size_nat b)) a b

  (** val iter_op : ('a1 -> 'a1 -> 'a1) -> positive -> 'a1 -> 'a1 **)

  let rec iter_op op p a =
    match p with
    | XI p0 -> op a (iter_op op p0 (op a a))
    | XO p0 -> iter_op op p0 (op a a)
    | XH -> a

  (** val to_nat : positive -> nat **)

  let to_nat x =
    iter_op Coq__1.add x (S O)

  (** val of_succ_nat : nat -> positive **)

  let rec of_succ_nat = function
  | O -> XH
  | S x -> succ (of_succ_nat x)

  (** val eq_dec : positive -> positive -> bool **)

  let rec eq_dec p x0 =
    match p with
    | XI p0 -> (match x0 with
                | XI p1 -> eq_dec p0 p1
                | _ -> false)
    | XO p0 -> (match x0 with
                | XO p1 -> eq_dec p0 p1
                | _ -> false)
    | XH -> (match x0 with
             | XH -> true
             | _ -> false)
 end

module Z =
 struct
  (** val double : z -> z **)

  let double = function
  | Z0 -> Z0
  | Zpos p -> Zpos (XO p)
  | Zneg p -> Zneg (XO p)

  (** val succ_double : z -> z **)

  let succ_double = function
  | Z0 -> Zpos XH
  | Zpos p -> Zpos (XI p)
  | Zneg p -> Zneg (Coq_Pos.pred_double p)

  (** val pred_double : z -> z **)

  let pred_double = function
  | Z0 -> Zneg XH
  | Zpos p -> Zpos (Coq_Pos.pred_double p)
  | Zneg p -> Zneg (XI p)

  (** val pos_sub : positive -> positive -> z **)

  let rec pos_sub x y =
    match x with
    | XI p ->
      (match y with
       | XI q0 -> double (pos_sub p q0)
       | XO q0 -> succ_double (pos_sub p q0)
       | XH -> Zpos (XO p))
    | XO p ->
      (match y with
       | XI q0 -> pred_double (pos_sub p q0)
       | XO q0 -> double (pos_sub p q0)
       | XH -> Zpos (Coq_Pos.pred_double p))
    | XH ->
      (match y with
       | XI q0 -> Zneg (XO q0)
       | XO q0 -> Zneg (Coq_Pos.pred_double q0)
       | XH -> Z0)

  (** val add : z -> z -> z **)

  let add x y =
    match x with
    | Z0 -> y
    | Zpos x' ->
      (match y with
       | Z0 -> x
       | Zpos y' -> Zpos (Coq_Pos.add x' y')
       | Zneg y' -> pos_sub x' y')
    | Zneg x' ->
      (match y with
       | Z0 -> x
       | Zpos y' -> pos_sub y' x'
       | Zneg y' -> Zneg (Coq_Pos.add x' y'))

  (** val opp : z -> z **)

  let opp = function
  | Z0 -> Z0
  | Zpos x0 -> Zneg x0
  | Zneg x0 -> Zpos x0

  (** val sub : z -> z -> z **)

  let sub m n =
    add m (opp n)

  (** val mul : z -> z -> z **)

  let mul x y =
    match x with
    | Z0 -> Z0
    | Zpos x' ->
      (match y with
       | Z0 -> Z0
       | Zpos y' -> Zpos (Coq_Pos.mul x' y')
       | Zneg y' -> Zneg (Coq_Pos.mul x' y'))
    | Zneg x' ->
      (match y with
       | Z0 -> Z0
       | Zpos y' -> Zneg (Coq_Pos.mul x' y')
       | Zneg y' -> Zpos (Coq_Pos.mul x' y'))

  (** val compare : z -> z -> comparison **)

  let compare x y =
    match x with
    | Z0 -> (match y with
             | Z0 -> Eq
             | Zpos _ -> Lt
             | Zneg _ -> Gt)
    | Zpos x' -> (match y with
                  | Zpos y' -> Coq_Pos.compare x' y'
                  | _ -> Gt)
    | Zneg x' ->
      (match y with
       | Zneg y' -> compOpp (Coq_Pos.compare x' y')
       | _ -> Lt)

  (** val sgn : z -> z **)

  let sgn = function
  | Z0 -> Z0
  | Zpos _ -> Zpos XH
  | Zneg _ -> Zneg XH

  (** val leb : z -> z -> bool **)

  let leb x y =
    match compare x y with
    | Gt -> false
    | _ -> true

  (** val ltb : z -> z -> bool **)

  let ltb x y =
    match compare x y with
    | Lt -> true
    | _ -> false

  (** val geb : z -> z -> bool **)

  let geb x y =
    match compare x y with
    | Lt -> false
    | _ -> true

  (** val gtb : z -> z -> bool **)

  let gtb x y =
    match compare x y with
    | Gt -> true
    | _ -> false

  (** val eqb : z -> z -> bool **)

  let eqb x y =
    match x with
    | Z0 -> (match y with
             | Z0 -> true
             | _ -> false)
    | Zpos p -> (match y with
                 | Zpos q0 -> Coq_Pos.eqb p q0
                 | _ -> false)
    | Zneg p -> (match y with
                 | Zneg q0 -> Coq_Pos.eqb p q0
                 | _ -> false)

  (** val max : z -> z -> z **)

  let max n m =
    match compare n m with
    | Lt -> m
    | _ -> n

  (** val min : z -> z -> z **)

  let min n m =
    match compare n m with
    | Gt -> m
    | _ -> n

  (** val abs : z -> z **)

  let abs = function
  | Zneg p -> Zpos p
  | x -> x

  (** val to_nat : z -> nat **)

  let to_nat = function
  | Zpos p -> Coq_Pos.to_nat p
  | _ -> O

  (** val of_nat : nat -> z **)

  let of_nat = function
  | O -> Z0
  | S n0 -> Zpos (Coq_Pos.of_succ_nat n0)

  (** val to_pos : z -> positive **)

  let to_pos = function
  | Zpos p -> p
  | _ -> XH

  (** val pos_div_eucl : positive -> z -> z * z **)

  let rec pos_div_eucl a b =
    match a with
    | XI a' ->
      let (q0, r) = pos_div_eucl a' b in
      let r' = add (mul (Zpos (XO XH)) r) (Zpos XH) in
      if ltb r' b
      then ((mul (Zpos (XO XH)) q0), r')
      else ((add (mul (Zpos (XO XH)) q0) (Zpos XH)), (sub r' b))
    | XO a' ->
      let (q0, r) = pos_div_eucl a' b in
      let r' = mul (Zpos (XO XH)) r in
      if ltb r' b
      then ((mul (Zpos (XO XH)) q0), r')
      else ((add (mul (Zpos (XO XH)) q0) (Zpos XH)), (sub r' b))
    | XH -> if leb (Zpos (XO XH)) b then (Z0, (Zpos XH)) else ((Zpos XH), Z0)

  (** val div_eucl : z -> z -> z * z **)

  let div_eucl a b =
    match a with
    | Z0 -> (Z0, Z0)
    | Zpos a' ->
      (match b with
       | Z0 -> (Z0, a)
       | Zpos _ -> pos_div_eucl a' b
       | Zneg b' ->
         let (q0, r) = pos_div_eucl a' (Zpos b') in
         (match r with
          | Z0 -> ((opp q0), Z0)
          | _ -> ((opp (add q0 (Zpos XH))), (add b r))))
    | Zneg a' ->
      (match b with
       | Z0 -> (Z0, a)
       | Zpos _ ->
         let (q0, r) = pos_div_eucl a' b in
         (match r with
          | Z0 -> ((opp q0), Z0)
          | _ -> ((opp (add q0 (Zpos XH))), (sub b r)))
       | Zneg b' -> let (q0, r) = pos_div_eucl a' (Zpos b') in (q0, (opp r)))

  (** val div : z -> z -> z **)

  let div a b =
    let (q0, _) = div_eucl a b in q0

  (** val modulo : z -> z -> z **)

  let modulo a b =
    let (_, r) = div_eucl a b in r

  (** val even : z -> bool **)

  let even = function
  | Z0 -> true
  | Zpos p -> (match p with
               | XO _ -> true
               | _ -> false)
  | Zneg p -> (match p with
               | XO _ -> true
               | _ -> false)

  (** val odd : z -> bool **)

  let odd = function
  | Z0 -> false
  | Zpos p -> (match p with
               | XO _ -> false
               | _ -> true)
  | Zneg p -> (match p with
               | XO _ -> false
               | _ -> true)

  (** val ggcd : z -> z -> z * (z * z) **)

  let ggcd a b =
    match a with
    | Z0 -> ((abs b), (Z0, (sgn b)))
    | Zpos a0 ->
      (match b with
       | Z0 -> ((abs a), ((sgn a), Z0))
       | Zpos b0 ->
         let (g, p) = Coq_Pos.ggcd a0 b0 in
         let (aa, bb) = p in ((Zpos g), ((Zpos aa), (Zpos bb)))
       | Zneg b0 ->
         let (g, p) = Coq_Pos.ggcd a0 b0 in
         let (aa, bb) = p in ((Zpos g), ((Zpos aa), (Zneg bb))))
    | Zneg a0 ->
      (match b with
       | Z0 -> ((abs a), ((sgn a), Z0))
       | Zpos b0 ->
         let (g, p) = Coq_Pos.ggcd a0 b0 in
         let (aa, bb) = p in ((Zpos g), ((Zneg aa), (Zpos bb)))
       | Zneg b0 ->
         let (g, p) = Coq_Pos.ggcd a0 b0 in
         let (aa, bb) = p in ((Zpos g), ((Zneg aa), (Zneg bb))))

  (** val eq_dec : z -> z -> bool **)

  let eq_dec x y =
    match x with
    | Z0 -> (match y with
             | Z0 -> true
             | _ -> false)
    | Zpos p -> (match y with
                 | Zpos p0 -> Coq_Pos.eq_dec p p0
                 | _ -> false)
    | Zneg p -> (match y with
                 | Zneg p0 -> Coq_Pos.eq_dec p p0
                 | _ -> false)
 end

(** val hd : 'a1 -> 'a1 list -> 'a1 **)

let hd default = function
| [] -> default
| x :: _ -> x

(** val nth : nat -> 'a1 list -> 'a1 -> 'a1 **)

let rec nth n l default =
  match n with
  | O -> (match l with
          | [] -> default
          | x :: _ -> x)
  | S m -> (match l with
            | [] -> default
            | _ :: t -> nth m t default)

(** val last : 'a1 list -> 'a1 -> 'a1 **)

let rec last l d =
  match l with
  | [] -> d
  | a :: l0 -> (match l0 with
                | [] -> a
                | _ :: _ -> last l0 d)

(** val concat : 'a1 list list -> 'a1 list **)

let rec concat = function
| [] -> []
| x :: l0 -> app x (concat l0)

(** val map : ('a1 -> 'a2) -> 'a1 list -> 'a2 list **)

let rec map f = function
| [] -> []
| a :: t -> (f a) :: (map f t)

(** val flat_map : ('a1 -> 'a2 list) -> 'a1 list -> 'a2 list **)

let rec flat_map f = function
| [] -> []
| x :: t -> app (f x) (flat_map f t)

(** val fold_left : ('a1 -> 'a2 -> 'a1) -> 'a2 list -> 'a1 -> 'a1 **)

let rec fold_left f l a0 =
  match l with
  | [] -> a0
  | b :: t -> fold_left f t (f a0 b)

(** val fold_right : ('a2 -> 'a1 -> 'a1) -> 'a1 -> 'a2 list -> 'a1 **)

let rec fold_right f a0 = function
| [] -> a0
| b :: t -> f b (fold_right f a0 t)

(** val forallb : ('a1 -> bool) -> 'a1 list -> bool **)

let rec forallb f = function
| [] -> true
| a :: l0 -> (&&) (f a) (forallb f l0)

(** val combine : 'a1 list -> 'a2 list -> ('a1 * 'a2) list **)

let rec combine l l' =
  match l with
  | [] -> []
  | x :: tl ->
    (match l' with
     | [] -> []
     | y :: tl' -> (x, y) :: (combine tl tl'))

(** val firstn : nat -> 'a1 list -> 'a1 list **)

let rec firstn n l =
  match n with
  | O -> []
  | S n0 -> (match l with
             | [] -> []
             | a :: l0 -> a :: (firstn n0 l0))

(** val skipn : nat -> 'a1 list -> 'a1 list **)

let rec skipn n l =
  match n with
  | O -> l
  | S n0 -> (match l with
             | [] -> []
             | _ :: l0 -> skipn n0 l0)

(** val seq : nat -> nat -> nat list **)

let rec seq start = function
| O -> []
| S len0 -> start :: (seq (S start) len0)

(** val repeat : 'a1 -> nat -> 'a1 list **)

let rec repeat x = function
| O -> []
| S k -> x :: (repeat x k)

type q = { qnum : z; qden : positive }

(** val qeq_dec : q -> q -> bool **)

let qeq_dec x y =
  Z.eq_dec (Z.mul x.qnum (Zpos y.qden)) (Z.mul y.qnum (Zpos x.qden))

(** val qle_bool : q -> q -> bool **)

let qle_bool x y =
  Z.leb (Z.mul x.qnum (Zpos y.qden)) (Z.mul y.qnum (Zpos x.qden))

(** val qplus : q -> q -> q **)

let qplus x y =
  { qnum = (Z.add (Z.mul x.qnum (Zpos y.qden)) (Z.mul y.qnum (Zpos x.qden)));
    qden = (Coq_Pos.mul x.qden y.qden) }

(** val qmult : q -> q -> q **)

let qmult x y =
  { qnum = (Z.mul x.qnum y.qnum); qden = (Coq_Pos.mul x.qden y.qden) }

(** val qopp : q -> q **)

let qopp x =
  { qnum = (Z.opp x.qnum); qden = x.qden }

(** val qinv : q -> q **)

let qinv x =
  match x.qnum with
  | Z0 -> { qnum = Z0; qden = XH }
  | Zpos p -> { qnum = (Zpos x.qden); qden = p }
  | Zneg p -> { qnum = (Zneg x.qden); qden = p }

(** val qred : q -> q **)

let qred q0 =
  let { qnum = q1; qden = q2 } = q0 in
  let (r1, r2) = snd (Z.ggcd q1 (Zpos q2)) in
  { qnum = r1; qden = (Z.to_pos r2) }

type qc = q
  (* singleton inductive, whose constructor was Qcmake *)

(** val this : qc -> q **)

let this q0 =
  q0

(** val q2Qc : q -> qc **)

let q2Qc =
  qred

(** val qc_eq_dec : qc -> qc -> bool **)

let qc_eq_dec x y =
  qeq_dec (this x) (this y)

(** val qcplus : qc -> qc -> qc **)

let qcplus x y =
  q2Qc (qplus (this x) (this y))

(** val qcmult : qc -> qc -> qc **)

let qcmult x y =
  q2Qc (qmult (this x) (this y))

(** val qcopp : qc -> qc **)

let qcopp x =
  q2Qc (qopp (this x))

(** val qcminus : qc -> qc -> qc **)

let qcminus x y =
  qcplus x (qcopp y)

(** val qcinv : qc -> qc **)

let qcinv x =
  q2Qc (qinv (this x))

(** val qcdiv : qc -> qc -> qc **)

let qcdiv x y =
  qcmult x (qcinv y)

(** val qc_eq_bool : qc -> qc -> bool **)

let qc_eq_bool x y =
  if qc_eq_dec x y then true else false

type ops = { o0 : __; o1 : __; oadd : (__ -> __ -> __);
             omul : (__ -> __ -> __); osub : (__ -> __ -> __);
             oopp : (__ -> __); odiv : (__ -> __ -> __); oinv : (__ -> __);
             oeqb : (__ -> __ -> bool) }

type car = __

(** val fpos : ops -> positive -> car **)

let rec fpos k = function
| XI q0 -> k.oadd k.o1 (k.omul (k.oadd k.o1 k.o1) (fpos k q0))
| XO q0 -> k.omul (k.oadd k.o1 k.o1) (fpos k q0)
| XH -> k.o1

(** val fz : ops -> z -> car **)

let fz k = function
| Z0 -> k.o0
| Zpos p -> fpos k p
| Zneg p -> k.oopp (fpos k p)

(** val fq : ops -> q -> car **)

let fq k q0 =
  k.odiv (fz k q0.qnum) (fpos k q0.qden)

(** val fpow : ops -> car -> nat -> car **)

let rec fpow k x = function
| O -> k.o1
| S m -> k.omul x (fpow k x m)

(** val fzpow : ops -> car -> z -> car **)

let fzpow k x = function
| Z0 -> k.o1
| Zpos p -> fpow k x (Coq_Pos.to_nat p)
| Zneg p -> k.oinv (fpow k x (Coq_Pos.to_nat p))

(** val two : ops -> car **)

let two k =
  k.oadd k.o1 k.o1

(** val fsum : ops -> car list -> car **)

let rec fsum k = function
| [] -> k.o0
| x :: r -> k.oadd x (fsum k r)

(** val fprod : ops -> car list -> car **)

let rec fprod k = function
| [] -> k.o1
| x :: r -> k.omul x (fprod k r)

(** val qcOps : ops **)

let qcOps =
  { o0 = (Obj.magic q2Qc { qnum = Z0; qden = XH }); o1 =
    (Obj.magic q2Qc { qnum = (Zpos XH); qden = XH }); oadd =
    (Obj.magic qcplus); omul = (Obj.magic qcmult); osub =
    (Obj.magic qcminus); oopp = (Obj.magic qcopp); odiv = (Obj.magic qcdiv);
    oinv = (Obj.magic qcinv); oeqb = (Obj.magic qc_eq_bool) }

type 'k cx = { re : 'k; im : 'k }

(** val c0 : ops -> car cx **)

let c0 k =
  { re = k.o0; im = k.o0 }

(** val c1 : ops -> car cx **)

let c1 k =
  { re = k.o1; im = k.o0 }

(** val ci : ops -> car cx **)

let ci k =
  { re = k.o0; im = k.o1 }

(** val cadd : ops -> car cx -> car cx -> car cx **)

let cadd k a b =
  { re = (k.oadd a.re b.re); im = (k.oadd a.im b.im) }

(** val csub : ops -> car cx -> car cx -> car cx **)

let csub k a b =
  { re = (k.osub a.re b.re); im = (k.osub a.im b.im) }

(** val copp : ops -> car cx -> car cx **)

let copp k a =
  { re = (k.oopp a.re); im = (k.oopp a.im) }

(** val cmul : ops -> car cx -> car cx -> car cx **)

let cmul k a b =
  { re = (k.osub (k.omul a.re b.re) (k.omul a.im b.im)); im =
    (k.oadd (k.omul a.re b.im) (k.omul a.im b.re)) }

(** val cnorm2 : ops -> car cx -> car **)

let cnorm2 k a =
  k.oadd (k.omul a.re a.re) (k.omul a.im a.im)

(** val cinv : ops -> car cx -> car cx **)

let cinv k a =
  { re = (k.odiv a.re (cnorm2 k a)); im =
    (k.odiv (k.oopp a.im) (cnorm2 k a)) }

(** val cdiv : ops -> car cx -> car cx -> car cx **)

let cdiv k a b =
  cmul k a (cinv k b)

(** val ceqb : ops -> car cx -> car cx -> bool **)

let ceqb k a b =
  (&&) (k.oeqb a.re b.re) (k.oeqb a.im b.im)

(** val cOps : ops -> ops **)

let cOps k =
  { o0 = (Obj.magic c0 k); o1 = (Obj.magic c1 k); oadd = (Obj.magic cadd k);
    omul = (Obj.magic cmul k); osub = (Obj.magic csub k); oopp =
    (Obj.magic copp k); odiv = (Obj.magic cdiv k); oinv = (Obj.magic cinv k);
    oeqb = (Obj.magic ceqb k) }

(** val qz : q -> z **)

let qz q0 =
  q0.qnum

(** val zq : z -> q **)

let zq z0 =
  { qnum = z0; qden = XH }

(** val qn : q -> nat **)

let qn q0 =
  Z.to_nat q0.qnum

(** val nq : nat -> q **)

let nq n =
  { qnum = (Z.of_nat n); qden = XH }

(** val qb : q -> bool **)

let qb q0 =
  negb (Z.eqb q0.qnum Z0)

(** val bq : bool -> q **)

let bq = function
| true -> { qnum = (Zpos XH); qden = XH }
| false -> { qnum = Z0; qden = XH }

(** val qqc : q -> qc **)

let qqc =
  q2Qc

(** val qcq : qc -> q **)

let qcq =
  this

(** val cQ : ops **)

let cQ =
  cOps qcOps

(** val take_cx : q list -> car list **)

let rec take_cx = function
| [] -> []
| a :: l0 ->
  (match l0 with
   | [] -> []
   | b :: r -> (Obj.magic { re = (qqc a); im = (qqc b) }) :: (take_cx r))

(** val put_cx : car list -> q list **)

let rec put_cx = function
| [] -> []
| z0 :: r ->
  (qcq (Obj.magic z0).re) :: ((qcq (Obj.magic z0).im) :: (put_cx r))

(** val getq : q list -> nat -> q **)

let getq l i =
  nth i l (this (q2Qc { qnum = Z0; qden = XH }))

(** val optl : q list option -> q list **)

let optl = function
| Some l -> { qnum = (Zpos XH); qden = XH } :: l
| None -> { qnum = Z0; qden = XH } :: []

(** val cq_of_z : z -> car **)

let cq_of_z z0 =
  Obj.magic { re = (qqc (zq z0)); im = (qqc { qnum = Z0; qden = XH }) }

(** val vec : car list -> nat -> car **)

let vec l k =
  nth k l (Obj.magic c0 qcOps)

(** val chunks : nat -> nat -> 'a1 list -> 'a1 list list **)

let rec chunks n m l =
  match m with
  | O -> []
  | S m' -> (firstn n l) :: (chunks n m' (skipn n l))

(** val zs : q list -> z list **)

let zs l =
  map qz l

(** val cr : q -> car **)

let cr q0 =
  Obj.magic { re = (qqc q0); im = (qqc { qnum = Z0; qden = XH }) }

(** val crs : q list -> car list **)

let crs l =
  map cr l

(** val ciQ : car **)

let ciQ =
  Obj.magic ci qcOps

(** val qcs : q list -> car list **)

let qcs l =
  map (Obj.magic qqc) l

(** val unqcs : car list -> q list **)

let unqcs l =
  map (Obj.magic qcq) l

(** val idx_eqb : z list -> z list -> bool **)

let rec idx_eqb a b =
  match a with
  | [] -> (match b with
           | [] -> true
           | _ :: _ -> false)
  | x :: a' ->
    (match b with
     | [] -> false
     | y :: b' -> (&&) (Z.eqb x y) (idx_eqb a' b'))

(** val lookup : (z list * car) list -> z list -> car **)

let rec lookup l k =
  match l with
  | [] -> Obj.magic c0 qcOps
  | p :: r -> let (j, v) = p in if idx_eqb j k then v else lookup r k

(** val root_arg : ops -> car -> car -> car -> car -> car **)

let root_arg k ii pi j m =
  k.odiv
    (k.omul (k.omul (k.omul ii (fz k (Zpos (XO XH)))) pi)
      (k.osub j (fq k { qnum = (Zpos XH); qden = (XO XH) }))) m

(** val etdrk1_integrand_1 : ops -> car -> car -> car -> car **)

let etdrk1_integrand_1 k lr e _ =
  k.odiv (k.osub e (fz k (Zpos XH))) lr

(** val etdrk1_step :
    ops -> ('a1 -> car) -> ('a1 -> car) -> (('a1 -> car) -> 'a1 -> car) ->
    ('a1 -> car) -> 'a1 -> car **)

let etdrk1_step k e c2 nL u_hat k0 =
  k.oadd (k.omul (e k0) (u_hat k0)) (k.omul (c2 k0) (nL u_hat k0))

(** val etdrk2_integrand_1 : ops -> car -> car -> car -> car **)

let etdrk2_integrand_1 k lr e _ =
  k.odiv (k.osub e (fz k (Zpos XH))) lr

(** val etdrk2_integrand_2 : ops -> car -> car -> car -> car **)

let etdrk2_integrand_2 k lr e _ =
  k.odiv (k.osub (k.osub e (fz k (Zpos XH))) lr) (fpow k lr (S (S O)))

(** val etdrk2_step :
    ops -> ('a1 -> car) -> ('a1 -> car) -> ('a1 -> car) -> (('a1 -> car) ->
    'a1 -> car) -> ('a1 -> car) -> 'a1 -> car **)

let etdrk2_step k e c2 c3 nL u_hat =
  let u_nonlin_hat = nL u_hat in
  let u_stage_1_hat = fun k0 ->
    k.oadd (k.omul (e k0) (u_hat k0)) (k.omul (c2 k0) (u_nonlin_hat k0))
  in
  let u_stage_1_nonlin_hat = nL u_stage_1_hat in
  (fun k0 ->
  k.oadd (u_stage_1_hat k0)
    (k.omul (c3 k0) (k.osub (u_stage_1_nonlin_hat k0) (u_nonlin_hat k0))))

(** val etdrk3_integrand_1 : ops -> car -> car -> car -> car **)

let etdrk3_integrand_1 k lr _ eh =
  k.odiv (k.osub eh (fz k (Zpos XH))) lr

(** val etdrk3_integrand_2 : ops -> car -> car -> car -> car **)

let etdrk3_integrand_2 k lr e _ =
  k.odiv (k.osub e (fz k (Zpos XH))) lr

(** val etdrk3_integrand_3 : ops -> car -> car -> car -> car **)

let etdrk3_integrand_3 k lr e _ =
  k.odiv
    (k.oadd (k.osub (fz k (Zneg (XO (XO XH)))) lr)
      (k.omul e
        (k.oadd
          (k.osub (fz k (Zpos (XO (XO XH))))
            (k.omul (fz k (Zpos (XI XH))) lr)) (fpow k lr (S (S O))))))
    (fpow k lr (S (S (S O))))

(** val etdrk3_integrand_4 : ops -> car -> car -> car -> car **)

let etdrk3_integrand_4 k lr e _ =
  k.odiv
    (k.omul (fz k (Zpos (XO (XO XH))))
      (k.oadd (k.oadd (fz k (Zpos (XO XH))) lr)
        (k.omul e (k.oadd (fz k (Zneg (XO XH))) lr))))
    (fpow k lr (S (S (S O))))

(** val etdrk3_integrand_5 : ops -> car -> car -> car -> car **)

let etdrk3_integrand_5 k lr e _ =
  k.odiv
    (k.oadd
      (k.osub
        (k.osub (fz k (Zneg (XO (XO XH)))) (k.omul (fz k (Zpos (XI XH))) lr))
        (fpow k lr (S (S O))))
      (k.omul e (k.osub (fz k (Zpos (XO (XO XH)))) lr)))
    (fpow k lr (S (S (S O))))

(** val etdrk3_step :
    ops -> ('a1 -> car) -> ('a1 -> car) -> ('a1 -> car) -> ('a1 -> car) ->
    ('a1 -> car) -> ('a1 -> car) -> ('a1 -> car) -> (('a1 -> car) -> 'a1 ->
    car) -> ('a1 -> car) -> 'a1 -> car **)

let etdrk3_step k e eh c2 c3 c4 c5 c6 nL u_hat =
  let u_nonlin_hat = nL u_hat in
  let u_stage_1_hat = fun k0 ->
    k.oadd (k.omul (eh k0) (u_hat k0)) (k.omul (c2 k0) (u_nonlin_hat k0))
  in
  let u_stage_1_nonlin_hat = nL u_stage_1_hat in
  let u_stage_2_hat = fun k0 ->
    k.oadd (k.omul (e k0) (u_hat k0))
      (k.omul (c3 k0)
        (k.osub (k.omul (fz k (Zpos (XO XH))) (u_stage_1_nonlin_hat k0))
          (u_nonlin_hat k0)))
  in
  let u_stage_2_nonlin_hat = nL u_stage_2_hat in
  (fun k0 ->
  k.oadd
    (k.oadd
      (k.oadd (k.omul (e k0) (u_hat k0)) (k.omul (c4 k0) (u_nonlin_hat k0)))
      (k.omul (c5 k0) (u_stage_1_nonlin_hat k0)))
    (k.omul (c6 k0) (u_stage_2_nonlin_hat k0)))

(** val etdrk4_integrand_1 : ops -> car -> car -> car -> car **)

let etdrk4_integrand_1 k lr _ eh =
  k.odiv (k.osub eh (fz k (Zpos XH))) lr

(** val etdrk4_integrand_2 : ops -> car -> car -> car -> car **)

let etdrk4_integrand_2 k lr _ eh =
  k.odiv (k.osub eh (fz k (Zpos XH))) lr

(** val etdrk4_integrand_3 : ops -> car -> car -> car -> car **)

let etdrk4_integrand_3 k lr _ eh =
  k.odiv (k.osub eh (fz k (Zpos XH))) lr

(** val etdrk4_integrand_4 : ops -> car -> car -> car -> car **)

let etdrk4_integrand_4 k lr e _ =
  k.odiv
    (k.oadd (k.osub (fz k (Zneg (XO (XO XH)))) lr)
      (k.omul e
        (k.oadd
          (k.osub (fz k (Zpos (XO (XO XH))))
            (k.omul (fz k (Zpos (XI XH))) lr)) (fpow k lr (S (S O))))))
    (fpow k lr (S (S (S O))))

(** val etdrk4_integrand_5 : ops -> car -> car -> car -> car **)

let etdrk4_integrand_5 k lr e _ =
  k.odiv
    (k.oadd (k.oadd (fz k (Zpos (XO XH))) lr)
      (k.omul e (k.oadd (fz k (Zneg (XO XH))) lr))) (fpow k lr (S (S (S O))))

(** val etdrk4_integrand_6 : ops -> car -> car -> car -> car **)

let etdrk4_integrand_6 k lr e _ =
  k.odiv
    (k.oadd
      (k.osub
        (k.osub (fz k (Zneg (XO (XO XH)))) (k.omul (fz k (Zpos (XI XH))) lr))
        (fpow k lr (S (S O))))
      (k.omul e (k.osub (fz k (Zpos (XO (XO XH)))) lr)))
    (fpow k lr (S (S (S O))))

(** val etdrk4_step :
    ops -> ('a1 -> car) -> ('a1 -> car) -> ('a1 -> car) -> ('a1 -> car) ->
    ('a1 -> car) -> ('a1 -> car) -> ('a1 -> car) -> ('a1 -> car) -> (('a1 ->
    car) -> 'a1 -> car) -> ('a1 -> car) -> 'a1 -> car **)

let etdrk4_step k e eh c2 c3 c4 c5 c6 c7 nL u_hat =
  let u_nonlin_hat = nL u_hat in
  let u_stage_1_hat = fun k0 ->
    k.oadd (k.omul (eh k0) (u_hat k0)) (k.omul (c2 k0) (u_nonlin_hat k0))
  in
  let u_stage_1_nonlin_hat = nL u_stage_1_hat in
  let u_stage_2_hat = fun k0 ->
    k.oadd (k.omul (eh k0) (u_hat k0))
      (k.omul (c3 k0) (u_stage_1_nonlin_hat k0))
  in
  let u_stage_2_nonlin_hat = nL u_stage_2_hat in
  let u_stage_3_hat = fun k0 ->
    k.oadd (k.omul (eh k0) (u_stage_1_hat k0))
      (k.omul (c4 k0)
        (k.osub (k.omul (fz k (Zpos (XO XH))) (u_stage_2_nonlin_hat k0))
          (u_nonlin_hat k0)))
  in
  let u_stage_3_nonlin_hat = nL u_stage_3_hat in
  (fun k0 ->
  k.oadd
    (k.oadd
      (k.oadd (k.omul (e k0) (u_hat k0)) (k.omul (c5 k0) (u_nonlin_hat k0)))
      (k.omul (k.omul (c6 k0) (fz k (Zpos (XO XH))))
        (k.oadd (u_stage_1_nonlin_hat k0) (u_stage_2_nonlin_hat k0))))
    (k.omul (c7 k0) (u_stage_3_nonlin_hat k0)))

(** val etdrk0_step : ops -> ('a1 -> car) -> ('a1 -> car) -> 'a1 -> car **)

let etdrk0_step k e u_hat k0 =
  k.omul (e k0) (u_hat k0)

(** val order_dispatch : z -> nat option **)

let order_dispatch = function
| Z0 -> Some O
| Zpos p ->
  (match p with
   | XI p0 -> (match p0 with
               | XH -> Some (S (S (S O)))
               | _ -> None)
   | XO p0 ->
     (match p0 with
      | XI _ -> None
      | XO p1 -> (match p1 with
                  | XH -> Some (S (S (S (S O))))
                  | _ -> None)
      | XH -> Some (S (S O)))
   | XH -> Some (S O))
| Zneg _ -> None

(** val lift1 : ops -> (car -> car) -> car option -> car option **)

let lift1 _ f = function
| Some x -> Some (f x)
| None -> None

(** val lift2 :
    ops -> (car -> car -> car) -> car option -> car option -> car option **)

let lift2 _ f a b =
  match a with
  | Some x -> (match b with
               | Some y -> Some (f x y)
               | None -> None)
  | None -> None

(** val odiv_opt : ops -> car option -> car option -> car option **)

let odiv_opt k a b =
  match a with
  | Some x ->
    (match b with
     | Some y -> if k.oeqb y k.o0 then None else Some (k.odiv x y)
     | None -> None)
  | None -> None

(** val oinv_opt : ops -> car option -> car option **)

let oinv_opt k = function
| Some y -> if k.oeqb y k.o0 then None else Some (k.oinv y)
| None -> None

(** val oeqb_opt : ops -> car option -> car option -> bool **)

let oeqb_opt k a b =
  match a with
  | Some x -> (match b with
               | Some y -> k.oeqb x y
               | None -> false)
  | None -> (match b with
             | Some _ -> false
             | None -> true)

(** val optOps : ops -> ops **)

let optOps k =
  { o0 = (Obj.magic (Some k.o0)); o1 = (Obj.magic (Some k.o1)); oadd =
    (Obj.magic lift2 k k.oadd); omul = (Obj.magic lift2 k k.omul); osub =
    (Obj.magic lift2 k k.osub); oopp = (Obj.magic lift1 k k.oopp); odiv =
    (Obj.magic odiv_opt k); oinv = (Obj.magic oinv_opt k); oeqb =
    (Obj.magic oeqb_opt k) }

(** val num_e1 : ops -> car -> car -> car **)

let num_e1 k _ e =
  k.osub e k.o1

(** val num_e2 : ops -> car -> car -> car **)

let num_e2 k lr e =
  k.osub (k.osub e k.o1) lr

(** val num_a3 : ops -> car -> car -> car **)

let num_a3 k lr e =
  k.oadd (k.osub (fz k (Zneg (XO (XO XH)))) lr)
    (k.omul e
      (k.oadd
        (k.osub (fz k (Zpos (XO (XO XH)))) (k.omul (fz k (Zpos (XI XH))) lr))
        (k.omul lr lr)))

(** val num_b3 : ops -> car -> car -> car **)

let num_b3 k lr e =
  k.oadd (k.oadd (fz k (Zpos (XO XH))) lr)
    (k.omul e (k.oadd (fz k (Zneg (XO XH))) lr))

(** val num_c3 : ops -> car -> car -> car **)

let num_c3 k lr e =
  k.oadd
    (k.osub
      (k.osub (fz k (Zneg (XO (XO XH)))) (k.omul (fz k (Zpos (XI XH))) lr))
      (k.omul lr lr)) (k.omul e (k.osub (fz k (Zpos (XO (XO XH)))) lr))

(** val inv_pow : ops -> car -> nat -> car **)

let inv_pow k lr m =
  fpow k (k.oinv lr) m

(** val fst_a : ops -> ('a1 -> car) -> ('a1 -> car) -> 'a1 -> car **)

let fst_a k c2 f k0 =
  k.omul (c2 k0) (f k0)

(** val fst_b3 :
    ops -> ('a1 -> car) -> ('a1 -> car) -> ('a1 -> car) -> (('a1 -> car) ->
    'a1 -> car) -> 'a1 -> car **)

let fst_b3 k c2 c3 f n k0 =
  k.omul (c3 k0)
    (k.osub (k.omul (fz k (Zpos (XO XH))) (n (fst_a k c2 f) k0)) (f k0))

(** val fst_b4 :
    ops -> ('a1 -> car) -> ('a1 -> car) -> ('a1 -> car) -> (('a1 -> car) ->
    'a1 -> car) -> 'a1 -> car **)

let fst_b4 k c2 c3 f n k0 =
  k.omul (c3 k0) (n (fst_a k c2 f) k0)

(** val fst_c4 :
    ops -> ('a1 -> car) -> ('a1 -> car) -> ('a1 -> car) -> ('a1 -> car) ->
    ('a1 -> car) -> (('a1 -> car) -> 'a1 -> car) -> 'a1 -> car **)

let fst_c4 k eh c2 c3 c4 f n k0 =
  k.oadd (k.omul (eh k0) (k.omul (c2 k0) (f k0)))
    (k.omul (c4 k0)
      (k.osub (k.omul (fz k (Zpos (XO XH))) (n (fst_b4 k c2 c3 f n) k0))
        (f k0)))

(** val forced1 : ops -> ('a1 -> car) -> ('a1 -> car) -> 'a1 -> car **)

let forced1 k c2 f k0 =
  k.omul (c2 k0) (f k0)

(** val forced2 :
    ops -> ('a1 -> car) -> ('a1 -> car) -> ('a1 -> car) -> (('a1 -> car) ->
    'a1 -> car) -> 'a1 -> car **)

let forced2 k c2 c3 f n k0 =
  k.oadd (k.omul (c2 k0) (f k0))
    (k.omul (c3 k0) (k.osub (n (fst_a k c2 f) k0) (f k0)))

(** val forced3 :
    ops -> ('a1 -> car) -> ('a1 -> car) -> ('a1 -> car) -> ('a1 -> car) ->
    ('a1 -> car) -> ('a1 -> car) -> (('a1 -> car) -> 'a1 -> car) -> 'a1 -> car **)

let forced3 k c2 c3 c4 c5 c6 f n k0 =
  k.oadd
    (k.oadd (k.omul (c4 k0) (f k0)) (k.omul (c5 k0) (n (fst_a k c2 f) k0)))
    (k.omul (c6 k0) (n (fst_b3 k c2 c3 f n) k0))

(** val forced4 :
    ops -> ('a1 -> car) -> ('a1 -> car) -> ('a1 -> car) -> ('a1 -> car) ->
    ('a1 -> car) -> ('a1 -> car) -> ('a1 -> car) -> ('a1 -> car) -> (('a1 ->
    car) -> 'a1 -> car) -> 'a1 -> car **)

let forced4 k eh c2 c3 c4 c5 c6 c7 f n k0 =
  k.oadd
    (k.oadd (k.omul (c5 k0) (f k0))
      (k.omul (k.omul (c6 k0) (fz k (Zpos (XO XH))))
        (k.oadd (n (fst_a k c2 f) k0) (n (fst_b4 k c2 c3 f n) k0))))
    (k.omul (c7 k0) (n (fst_c4 k eh c2 c3 c4 f n) k0))

(** val all_integrands : ops -> (car -> car -> car -> car) list **)

let all_integrands kx =
  (etdrk1_integrand_1 kx) :: ((etdrk2_integrand_1 kx) :: ((etdrk2_integrand_2
                                                            kx) :: ((etdrk3_integrand_1
                                                                    kx) :: (
    (etdrk3_integrand_2 kx) :: ((etdrk3_integrand_3 kx) :: ((etdrk3_integrand_4
                                                              kx) :: (
    (etdrk3_integrand_5 kx) :: ((etdrk4_integrand_1 kx) :: ((etdrk4_integrand_2
                                                              kx) :: (
    (etdrk4_integrand_3 kx) :: ((etdrk4_integrand_4 kx) :: ((etdrk4_integrand_5
                                                              kx) :: (
    (etdrk4_integrand_6 kx) :: [])))))))))))))

(** val num_form : z -> z -> car -> car -> car -> car * nat **)

let num_form p j lr e eh =
  match p with
  | Zpos p0 ->
    (match p0 with
     | XI p1 ->
       (match p1 with
        | XH ->
          (match j with
           | Zpos p2 ->
             (match p2 with
              | XI p3 ->
                (match p3 with
                 | XI _ -> ((Obj.magic c0 qcOps), O)
                 | XO p4 ->
                   (match p4 with
                    | XH -> ((num_c3 cQ lr e), (S (S (S O))))
                    | _ -> ((Obj.magic c0 qcOps), O))
                 | XH -> ((num_a3 cQ lr e), (S (S (S O)))))
              | XO p3 ->
                (match p3 with
                 | XI _ -> ((Obj.magic c0 qcOps), O)
                 | XO p4 ->
                   (match p4 with
                    | XH ->
                      ((cQ.omul (cq_of_z (Zpos (XO (XO XH))))
                         (num_b3 cQ lr e)), (S (S (S O))))
                    | _ -> ((Obj.magic c0 qcOps), O))
                 | XH -> ((num_e1 cQ lr e), (S O)))
              | XH -> ((num_e1 cQ lr eh), (S O)))
           | _ -> ((Obj.magic c0 qcOps), O))
        | _ -> ((Obj.magic c0 qcOps), O))
     | XO p1 ->
       (match p1 with
        | XI _ -> ((Obj.magic c0 qcOps), O)
        | XO p2 ->
          (match p2 with
           | XH ->
             (match j with
              | Zpos p3 ->
                (match p3 with
                 | XI p4 ->
                   (match p4 with
                    | XI _ -> ((Obj.magic c0 qcOps), O)
                    | XO p5 ->
                      (match p5 with
                       | XH -> ((num_b3 cQ lr e), (S (S (S O))))
                       | _ -> ((Obj.magic c0 qcOps), O))
                    | XH -> ((num_e1 cQ lr eh), (S O)))
                 | XO p4 ->
                   (match p4 with
                    | XI p5 ->
                      (match p5 with
                       | XH -> ((num_c3 cQ lr e), (S (S (S O))))
                       | _ -> ((Obj.magic c0 qcOps), O))
                    | XO p5 ->
                      (match p5 with
                       | XH -> ((num_a3 cQ lr e), (S (S (S O))))
                       | _ -> ((Obj.magic c0 qcOps), O))
                    | XH -> ((num_e1 cQ lr eh), (S O)))
                 | XH -> ((num_e1 cQ lr eh), (S O)))
              | _ -> ((Obj.magic c0 qcOps), O))
           | _ -> ((Obj.magic c0 qcOps), O))
        | XH ->
          (match j with
           | Zpos p2 ->
             (match p2 with
              | XI _ -> ((Obj.magic c0 qcOps), O)
              | XO p3 ->
                (match p3 with
                 | XH -> ((num_e2 cQ lr e), (S (S O)))
                 | _ -> ((Obj.magic c0 qcOps), O))
              | XH -> ((num_e1 cQ lr e), (S O)))
           | _ -> ((Obj.magic c0 qcOps), O)))
     | XH ->
       (match j with
        | Zpos p1 ->
          (match p1 with
           | XH -> ((num_e1 cQ lr e), (S O))
           | _ -> ((Obj.magic c0 qcOps), O))
        | _ -> ((Obj.magic c0 qcOps), O)))
  | _ -> ((Obj.magic c0 qcOps), O)

(** val integrand_index : z -> z -> nat **)

let integrand_index p j =
  Z.to_nat
    (match p with
     | Zpos p0 ->
       (match p0 with
        | XI p1 ->
          (match p1 with
           | XH ->
             (match j with
              | Zpos p2 ->
                (match p2 with
                 | XI p3 ->
                   (match p3 with
                    | XI _ -> Zpos (XO (XI (XI XH)))
                    | XO p4 ->
                      (match p4 with
                       | XH -> Zpos (XI (XI XH))
                       | _ -> Zpos (XO (XI (XI XH))))
                    | XH -> Zpos (XI (XO XH)))
                 | XO p3 ->
                   (match p3 with
                    | XI _ -> Zpos (XO (XI (XI XH)))
                    | XO p4 ->
                      (match p4 with
                       | XH -> Zpos (XO (XI XH))
                       | _ -> Zpos (XO (XI (XI XH))))
                    | XH -> Zpos (XO (XO XH)))
                 | XH -> Zpos (XI XH))
              | _ -> Zpos (XO (XI (XI XH))))
           | _ -> Zpos (XO (XI (XI XH))))
        | XO p1 ->
          (match p1 with
           | XI _ -> Zpos (XO (XI (XI XH)))
           | XO p2 ->
             (match p2 with
              | XH ->
                (match j with
                 | Zpos p3 ->
                   (match p3 with
                    | XI p4 ->
                      (match p4 with
                       | XI _ -> Zpos (XO (XI (XI XH)))
                       | XO p5 ->
                         (match p5 with
                          | XH -> Zpos (XO (XO (XI XH)))
                          | _ -> Zpos (XO (XI (XI XH))))
                       | XH -> Zpos (XO (XI (XO XH))))
                    | XO p4 ->
                      (match p4 with
                       | XI p5 ->
                         (match p5 with
                          | XH -> Zpos (XI (XO (XI XH)))
                          | _ -> Zpos (XO (XI (XI XH))))
                       | XO p5 ->
                         (match p5 with
                          | XH -> Zpos (XI (XI (XO XH)))
                          | _ -> Zpos (XO (XI (XI XH))))
                       | XH -> Zpos (XI (XO (XO XH))))
                    | XH -> Zpos (XO (XO (XO XH))))
                 | _ -> Zpos (XO (XI (XI XH))))
              | _ -> Zpos (XO (XI (XI XH))))
           | XH ->
             (match j with
              | Zpos p2 ->
                (match p2 with
                 | XI _ -> Zpos (XO (XI (XI XH)))
                 | XO p3 ->
                   (match p3 with
                    | XH -> Zpos (XO XH)
                    | _ -> Zpos (XO (XI (XI XH))))
                 | XH -> Zpos XH)
              | _ -> Zpos (XO (XI (XI XH)))))
        | XH ->
          (match j with
           | Zpos p1 -> (match p1 with
                         | XH -> Z0
                         | _ -> Zpos (XO (XI (XI XH))))
           | _ -> Zpos (XO (XI (XI XH)))))
     | _ -> Zpos (XO (XI (XI XH))))

(** val test_nl_f : nat -> (nat -> car) -> (nat -> car) -> nat -> car **)

let test_nl_f n f u k =
  cQ.oadd (f k) (cQ.oadd (cQ.omul (u k) (u k)) (u (Nat.modulo (S k) n)))

(** val run_c19 : z -> q list -> q list **)

let run_c19 sub0 a =
  match sub0 with
  | Zpos p ->
    (match p with
     | XI p0 ->
       (match p0 with
        | XH ->
          let p1 = qz (getq a O) in
          let j = qz (getq a (S O)) in
          (match take_cx (skipn (S (S O)) a) with
           | [] -> []
           | lr :: l ->
             (match l with
              | [] -> []
              | e :: l0 ->
                (match l0 with
                 | [] -> []
                 | eh :: _ ->
                   let g =
                     nth (integrand_index p1 j)
                       (Obj.magic all_integrands (optOps cQ)) (fun _ _ _ ->
                       None)
                   in
                   (match Obj.magic g (Some lr) (Some e) (Some eh) with
                    | Some v ->
                      { qnum = (Zpos XH); qden = XH } :: (put_cx (v :: []))
                    | None -> { qnum = Z0; qden = XH } :: []))))
        | _ -> [])
     | XO p0 ->
       (match p0 with
        | XI _ -> []
        | XO p1 ->
          (match p1 with
           | XH ->
             put_cx
               ((root_arg cQ ciQ (cr (getq a (S (S O)))) (cr (getq a O))
                  (cr (getq a (S O)))) :: [])
           | _ -> [])
        | XH ->
          let p1 = qz (getq a O) in
          let n = qn (getq a (S O)) in
          let arrs =
            chunks n (S (S (S (S (S (S (S (S (S (S O))))))))))
              (take_cx (skipn (S (S O)) a))
          in
          let g = fun i -> vec (nth i arrs []) in
          let out =
            match p1 with
            | Zpos p2 ->
              (match p2 with
               | XI p3 ->
                 (match p3 with
                  | XH ->
                    let f = g (S (S (S (S (S (S (S O))))))) in
                    Obj.magic forced3 cQ (g (S (S O))) (g (S (S (S O))))
                      (g (S (S (S (S O))))) (g (S (S (S (S (S O))))))
                      (g (S (S (S (S (S (S O))))))) f (test_nl_f n f)
                  | _ -> (fun _ -> c0 qcOps))
               | XO p3 ->
                 (match p3 with
                  | XI _ -> (fun _ -> c0 qcOps)
                  | XO p4 ->
                    (match p4 with
                     | XH ->
                       let f = g (S (S (S (S (S (S (S (S O)))))))) in
                       Obj.magic forced4 cQ (g (S O)) (g (S (S O)))
                         (g (S (S (S O)))) (g (S (S (S (S O)))))
                         (g (S (S (S (S (S O))))))
                         (g (S (S (S (S (S (S O)))))))
                         (g (S (S (S (S (S (S (S O)))))))) f (test_nl_f n f)
                     | _ -> (fun _ -> c0 qcOps))
                  | XH ->
                    let f = g (S (S (S O))) in
                    Obj.magic forced2 cQ (g (S O)) (g (S (S O))) f
                      (test_nl_f n f))
               | XH -> let f = g (S (S O)) in Obj.magic forced1 cQ (g (S O)) f)
            | _ -> (fun _ -> c0 qcOps)
          in
          put_cx (map (Obj.magic out) (seq O n)))
     | XH ->
       let p0 = qz (getq a O) in
       let j = qz (getq a (S O)) in
       let dt = { re = (qqc (getq a (S (S O)))); im =
         (qqc (getq a (S (S (S O))))) }
       in
       (match take_cx (skipn (S (S (S (S O)))) a) with
        | [] -> []
        | lr :: l ->
          (match l with
           | [] -> []
           | e :: l0 ->
             (match l0 with
              | [] -> []
              | eh :: _ ->
                let nm = num_form p0 j lr e eh in
                put_cx
                  ((cQ.omul (Obj.magic dt)
                     (cQ.omul (fst nm) (inv_pow cQ lr (snd nm)))) :: [])))))
  | _ -> []

type 'k dual = { val0 : 'k; eps : 'k }

(** val dzero : ops -> car dual **)

let dzero k =
  { val0 = k.o0; eps = k.o0 }

(** val dunit : ops -> car dual **)

let dunit k =
  { val0 = k.o1; eps = k.o0 }

(** val dadd : ops -> car dual -> car dual -> car dual **)

let dadd k a b =
  { val0 = (k.oadd a.val0 b.val0); eps = (k.oadd a.eps b.eps) }

(** val dsub : ops -> car dual -> car dual -> car dual **)

let dsub k a b =
  { val0 = (k.osub a.val0 b.val0); eps = (k.osub a.eps b.eps) }

(** val dopp : ops -> car dual -> car dual **)

let dopp k a =
  { val0 = (k.oopp a.val0); eps = (k.oopp a.eps) }

(** val dmul : ops -> car dual -> car dual -> car dual **)

let dmul k a b =
  { val0 = (k.omul a.val0 b.val0); eps =
    (k.oadd (k.omul a.eps b.val0) (k.omul a.val0 b.eps)) }

(** val dinv : ops -> car dual -> car dual **)

let dinv k a =
  { val0 = (k.oinv a.val0); eps =
    (k.odiv (k.oopp a.eps) (k.omul a.val0 a.val0)) }

(** val ddiv : ops -> car dual -> car dual -> car dual **)

let ddiv k a b =
  { val0 = (k.odiv a.val0 b.val0); eps =
    (k.odiv (k.osub (k.omul a.eps b.val0) (k.omul a.val0 b.eps))
      (k.omul b.val0 b.val0)) }

(** val deqb : ops -> car dual -> car dual -> bool **)

let deqb k a b =
  k.oeqb a.val0 b.val0

(** val dualOps : ops -> ops **)

let dualOps k =
  { o0 = (Obj.magic dzero k); o1 = (Obj.magic dunit k); oadd =
    (Obj.magic dadd k); omul = (Obj.magic dmul k); osub = (Obj.magic dsub k);
    oopp = (Obj.magic dopp k); odiv = (Obj.magic ddiv k); oinv =
    (Obj.magic dinv k); oeqb = (Obj.magic deqb k) }

(** val dconst : ops -> car -> car dual **)

let dconst k x =
  { val0 = x; eps = k.o0 }

(** val map2 : ('a1 -> 'a2 -> 'a3) -> 'a1 list -> 'a2 list -> 'a3 list **)

let rec map2 f l1 l2 =
  match l1 with
  | [] -> []
  | a :: r1 -> (match l2 with
                | [] -> []
                | b :: r2 -> (f a b) :: (map2 f r1 r2))

(** val imap_from : nat -> (nat -> 'a1 -> 'a2) -> 'a1 list -> 'a2 list **)

let rec imap_from s f = function
| [] -> []
| a :: r -> (f s a) :: (imap_from (S s) f r)

(** val imap : (nat -> 'a1 -> 'a2) -> 'a1 list -> 'a2 list **)

let imap f l =
  imap_from O f l

(** val dop : ops -> car -> car -> z list -> car list **)

let dop k ii s k0 =
  map (fun kc -> k.omul ii (k.omul s (fz k kc))) k0

(** val laplace_sym : ops -> nat -> car list -> car **)

let laplace_sym k order d =
  match order with
  | O -> k.o1
  | S _ -> fsum k (map (fun x -> fpow k x order) d)

(** val gip_sym : ops -> car list -> nat -> car list -> car **)

let gip_sym k v order d =
  fsum k (map2 (fun vc dc0 -> k.omul vc (fpow k dc0 order)) v d)

(** val poly_sym : ops -> car list -> car list -> car **)

let poly_sym k a d =
  fsum k
    (imap (fun j aj -> fsum k (map (fun x -> k.omul aj (fpow k x j)) d)) a)

(** val sym_advection : ops -> car list -> car list -> car **)

let sym_advection k v d =
  k.oopp (gip_sym k v (S O) d)

(** val quad_form : ops -> car list list -> car list -> car **)

let quad_form k a d =
  fsum k
    (map2 (fun row di ->
      fsum k (map2 (fun aij dj -> k.omul aij (k.omul di dj)) row d)) a d)

(** val sym_diffusion : ops -> car list list -> car list -> car **)

let sym_diffusion =
  quad_form

(** val sym_advection_diffusion :
    ops -> car list -> car list list -> car list -> car **)

let sym_advection_diffusion k v a d =
  k.oadd (k.oopp (gip_sym k v (S O) d)) (quad_form k a d)

(** val sym_dispersion : ops -> bool -> car list -> car list -> car **)

let sym_dispersion k advect_on_diffusion xi d =
  if advect_on_diffusion
  then k.omul (gip_sym k xi (S O) d) (laplace_sym k (S (S O)) d)
  else gip_sym k xi (S (S (S O))) d

(** val sym_hyper_diffusion : ops -> bool -> car -> car list -> car **)

let sym_hyper_diffusion k diffuse_on_diffuse mu d =
  if diffuse_on_diffuse
  then k.omul (k.omul (k.oopp mu) (laplace_sym k (S (S O)) d))
         (laplace_sym k (S (S O)) d)
  else k.omul (k.oopp mu) (laplace_sym k (S (S (S (S O)))) d)

(** val sym_burgers : ops -> car -> car list -> car **)

let sym_burgers k nu d =
  k.omul nu (laplace_sym k (S (S O)) d)

(** val ones : ops -> car list -> car list **)

let ones k d =
  map (fun _ -> k.o1) d

(** val sym_kdv :
    ops -> bool -> bool -> car -> car -> car -> car list -> car **)

let sym_kdv k advect_over_diffuse diffuse_over_diffuse nu xi mu d =
  let lap0 = laplace_sym k (S (S O)) d in
  let vel = map (fun o -> k.omul xi o) (ones k d) in
  k.oadd
    (k.oadd (k.omul nu lap0)
      (if advect_over_diffuse
       then k.omul (k.oopp (gip_sym k vel (S O) d)) lap0
       else k.oopp (gip_sym k vel (S (S (S O))) d)))
    (if diffuse_over_diffuse
     then k.omul (k.omul (k.oopp mu) lap0) lap0
     else k.omul (k.oopp mu) (laplace_sym k (S (S (S (S O)))) d))

(** val sym_ks : ops -> car -> car -> car list -> car **)

let sym_ks k s2 s4 d =
  k.osub (k.omul (k.oopp s2) (laplace_sym k (S (S O)) d))
    (k.omul s4 (laplace_sym k (S (S (S (S O)))) d))

(** val sym_navier_stokes : ops -> car -> car -> car list -> car **)

let sym_navier_stokes k nu drag d =
  k.oadd (k.omul nu (laplace_sym k (S (S O)) d))
    (k.omul drag (laplace_sym k O d))

(** val sym_allen_cahn : ops -> car -> car -> car list -> car **)

let sym_allen_cahn k nu c2 d =
  k.oadd (k.omul nu (laplace_sym k (S (S O)) d)) c2

(** val sym_fisher : ops -> car -> car -> car list -> car **)

let sym_fisher k nu r d =
  k.oadd (k.omul nu (laplace_sym k (S (S O)) d)) r

(** val sym_cahn_hilliard : ops -> car -> car -> car -> car list -> car **)

let sym_cahn_hilliard k nu gamma c2 d =
  k.omul (k.omul nu (laplace_sym k (S (S O)) d))
    (k.osub c2 (k.omul gamma (laplace_sym k (S (S O)) d)))

(** val sym_gray_scott : ops -> car -> car -> nat -> car list -> car **)

let sym_gray_scott k nu1 nu2 channel d =
  k.omul (match channel with
          | O -> nu1
          | S _ -> nu2) (laplace_sym k (S (S O)) d)

(** val sym_swift_hohenberg : ops -> car -> car -> car list -> car **)

let sym_swift_hohenberg k r kc d =
  k.osub r (fpow k (k.oadd kc (laplace_sym k (S (S O)) d)) (S (S O)))

(** val fftfreq : z -> z -> z **)

let fftfreq n j =
  if Z.leb j (Z.div (Z.sub n (Zpos XH)) (Zpos (XO XH))) then j else Z.sub j n

(** val rfftfreq : z -> z -> z **)

let rfftfreq _ j =
  j

(** val mesh_axis : bool -> nat -> nat -> nat **)

let mesh_axis xy d c =
  if (&&) xy (Nat.leb (S (S O)) d)
  then (match c with
        | O -> S O
        | S n -> (match n with
                  | O -> O
                  | S _ -> c))
  else c

(** val rfft_component : bool -> nat -> nat **)

let rfft_component xy d =
  if (&&) xy (Nat.eqb d (S (S O))) then O else sub d (S O)

(** val wn_1d : bool -> nat -> z -> nat -> z -> z **)

let wn_1d xy d n c j =
  if Nat.eqb c (rfft_component xy d) then rfftfreq n j else fftfreq n j

(** val wavenumber : bool -> nat -> z -> nat -> z list -> z **)

let wavenumber xy d n c idx0 =
  wn_1d xy d n c (nth (mesh_axis xy d c) idx0 Z0)

(** val wn_axis_len : bool -> nat -> z -> nat -> z **)

let wn_axis_len xy d n a =
  if Nat.eqb (mesh_axis xy d a) (rfft_component xy d)
  then Z.add (Z.div n (Zpos (XO XH))) (Zpos XH)
  else n

(** val wavenumber_shape : nat -> z -> z list **)

let wavenumber_shape d n =
  app (repeat n (sub d (S O)))
    ((Z.add (Z.div n (Zpos (XO XH))) (Zpos XH)) :: [])

(** val wn : nat -> z -> nat -> z list -> z **)

let wn d n c idx0 =
  wavenumber false d n c idx0

(** val wnvec : nat -> z -> z list -> z list **)

let wnvec d n idx0 =
  map (fun c -> wn d n c idx0) (seq O d)

(** val low_pass_axis : nat -> z -> z -> z list -> bool **)

let low_pass_axis d n cutoff idx0 =
  forallb (fun k -> Z.leb (Z.abs k) cutoff) (wnvec d n idx0)

(** val norm2 : z list -> z **)

let norm2 k =
  fold_right (fun x a -> Z.add (Z.mul x x) a) Z0 k

(** val low_pass_radial : nat -> z -> z -> z list -> bool **)

let low_pass_radial d n cutoff idx0 =
  (&&) (Z.leb Z0 cutoff)
    (Z.leb (norm2 (wnvec d n idx0)) (Z.mul cutoff cutoff))

(** val oddball_mask : nat -> z -> z list -> bool **)

let oddball_mask d n idx0 =
  if Z.odd n
  then true
  else low_pass_axis d n
         (Z.sub (Z.sub (Z.add (Z.div n (Zpos (XO XH))) (Zpos XH)) (Zpos XH))
           (Zpos XH)) idx0

(** val axis_plain : z -> z -> bool -> bool **)

let axis_plain n k is_rfft_axis =
  (||) (Z.eqb k Z0)
    ((&&) (Z.even n)
      (if is_rfft_axis
       then Z.eqb k (Z.div n (Zpos (XO XH)))
       else Z.eqb k (Z.div (Z.opp n) (Zpos (XO XH)))))

(** val scaling_halvings : nat -> z -> z -> z -> z list -> z **)

let scaling_halvings d n dr dother idx0 =
  fold_right Z.add Z0
    (map (fun c ->
      let last0 = Nat.eqb c (sub d (S O)) in
      if axis_plain n (wn d n c idx0) last0
      then Z0
      else if Z.eqb (if last0 then dr else dother) (Zpos (XO XH))
           then Zpos XH
           else Z0) (seq O d))

(** val mode_denoms : z -> z * z **)

let mode_denoms = function
| Zpos p ->
  (match p with
   | XI p0 ->
     (match p0 with
      | XI p1 ->
        (match p1 with
         | XO p2 ->
           (match p2 with
            | XH -> ((Zpos (XO XH)), (Zpos XH))
            | _ -> ((Zpos (XO XH)), (Zpos (XO XH))))
         | _ -> ((Zpos (XO XH)), (Zpos (XO XH))))
      | _ -> ((Zpos (XO XH)), (Zpos (XO XH))))
   | XO p0 ->
     (match p0 with
      | XI p1 ->
        (match p1 with
         | XO p2 ->
           (match p2 with
            | XH -> ((Zpos XH), (Zpos XH))
            | _ -> ((Zpos (XO XH)), (Zpos (XO XH))))
         | _ -> ((Zpos (XO XH)), (Zpos (XO XH))))
      | _ -> ((Zpos (XO XH)), (Zpos (XO XH))))
   | XH -> ((Zpos (XO XH)), (Zpos (XO XH))))
| _ -> ((Zpos (XO XH)), (Zpos (XO XH)))

(** val slice_left : z -> z **)

let slice_left n =
  if Z.even n
  then Z.div n (Zpos (XO XH))
  else Z.add (Z.div n (Zpos (XO XH))) (Zpos XH)

(** val slice_right : z -> z **)

let slice_right n =
  Z.div n (Zpos (XO XH))

(** val in_left : z -> z -> z -> bool **)

let in_left n len j =
  (&&) (Z.leb Z0 j) (Z.ltb j (Z.min (slice_left n) len))

(** val in_right : z -> z -> z -> bool **)

let in_right n len j =
  (&&) (Z.leb (Z.max (Z.sub len (slice_right n)) Z0) j) (Z.ltb j len)

(** val in_last : z -> z -> z -> bool **)

let in_last n len j =
  (&&) (Z.leb Z0 j)
    (Z.ltb j (Z.min (Z.add (Z.div n (Zpos (XO XH))) (Zpos XH)) len))

(** val wrap_index : z -> z -> z **)

let wrap_index n j =
  Z.modulo j n

(** val dealias_keeps : z -> z -> z -> z -> bool **)

let dealias_keeps p q0 n k =
  Z.leb (Z.mul q0 (Z.abs k)) (Z.sub (Z.mul p (Z.div n (Zpos (XO XH)))) q0)

(** val dealias_K : z -> z -> z -> z **)

let dealias_K p q0 n =
  Z.sub (Z.div (Z.mul p (Z.div n (Zpos (XO XH)))) q0) (Zpos XH)

type idx = z list

(** val wrap1 : z -> z -> z **)

let wrap1 n x =
  fftfreq n (Z.modulo x n)

(** val wrapD : z -> idx -> idx **)

let wrapD n x =
  map (wrap1 n) x

(** val in_band : z -> idx -> bool **)

let in_band kc x =
  forallb (fun c -> Z.leb (Z.abs c) kc) x

(** val subi : idx -> idx -> idx **)

let subi a b =
  map2 Z.sub a b

(** val zrange_from : z -> nat -> z list **)

let rec zrange_from lo = function
| O -> []
| S m -> lo :: (zrange_from (Z.add lo (Zpos XH)) m)

(** val zrange : z -> z -> z list **)

let zrange lo hi =
  zrange_from lo (Z.to_nat (Z.add (Z.sub hi lo) (Zpos XH)))

(** val bandD : nat -> z -> idx list **)

let rec bandD d kc =
  match d with
  | O -> [] :: []
  | S d0 ->
    flat_map (fun c -> map (fun x -> c :: x) (bandD d0 kc))
      (zrange (Z.opp kc) kc)

(** val is_zero : idx -> bool **)

let is_zero x =
  forallb (Z.eqb Z0) x

type field = idx -> car

(** val msk : ops -> z -> field -> field **)

let msk k kc u x =
  if in_band kc x then u x else k.o0

(** val cconv2 : ops -> nat -> z -> z -> field -> field -> field **)

let cconv2 k d n kc u v k0 =
  fsum k
    (map (fun m -> k.omul (msk k kc u m) (msk k kc v (wrapD n (subi k0 m))))
      (bandD d kc))

(** val cconv3 : ops -> nat -> z -> z -> field -> field -> field -> field **)

let cconv3 k d n kc u v w k0 =
  fsum k
    (map (fun m1 ->
      fsum k
        (map (fun m2 ->
          k.omul (msk k kc u m1)
            (k.omul (msk k kc v m2)
              (msk k kc w (wrapD n (subi (subi k0 m1) m2))))) (bandD d kc)))
      (bandD d kc))

(** val nfac : ops -> nat -> z -> car **)

let nfac k d n =
  k.odiv k.o1 (fpow k (fz k n) d)

(** val prod2 : ops -> nat -> z -> z -> field -> field -> field **)

let prod2 k d n kc u v =
  msk k kc (fun k0 -> k.omul (nfac k d n) (cconv2 k d n kc u v k0))

(** val prod3 : ops -> nat -> z -> z -> field -> field -> field -> field **)

let prod3 k d n kc u v w =
  msk k kc (fun k0 ->
    k.omul (k.omul (nfac k d n) (nfac k d n)) (cconv3 k d n kc u v w k0))

(** val dc : ops -> car -> car -> nat -> field **)

let dc k ii s c k0 =
  k.omul ii (k.omul s (fz k (nth c k0 Z0)))

(** val fmulp : ops -> field -> field -> field **)

let fmulp k a b k0 =
  k.omul (a k0) (b k0)

(** val fscal : ops -> car -> field -> field **)

let fscal k x a k0 =
  k.omul x (a k0)

(** val fadd : ops -> field -> field -> field **)

let fadd k a b k0 =
  k.oadd (a k0) (b k0)

(** val fzero : ops -> field **)

let fzero k _ =
  k.o0

(** val fsumf : ops -> field list -> field **)

let fsumf k l k0 =
  fsum k (map (fun f -> f k0) l)

(** val axes : nat -> nat list **)

let axes d =
  seq O d

(** val half : ops -> car **)

let half k =
  k.odiv k.o1 (fz k (Zpos (XO XH)))

(** val lap : ops -> car -> car -> nat -> field **)

let lap k ii s d k0 =
  fsum k (map (fun c -> k.omul (dc k ii s c k0) (dc k ii s c k0)) (axes d))

(** val delta0 : ops -> field **)

let delta0 k k0 =
  if is_zero k0 then k.o1 else k.o0

(** val conv_mc_cons :
    ops -> (field -> field -> field) -> car -> car -> nat -> car -> field
    list -> field list **)

let conv_mc_cons k p2 ii s d b u =
  map (fun ui ->
    fscal k (k.oopp b)
      (fscal k (half k)
        (fsumf k
          (map2 (fun c uj -> fmulp k (dc k ii s c) (p2 ui uj)) (axes d) u))))
    u

(** val conv_mc_noncons :
    ops -> (field -> field -> field) -> car -> car -> nat -> car -> field
    list -> field list **)

let conv_mc_noncons k p2 ii s d b u =
  map (fun ui ->
    fscal k (k.oopp b)
      (fsumf k
        (map2 (fun c uj -> p2 uj (fmulp k (dc k ii s c) ui)) (axes d) u))) u

(** val conv_sc_cons :
    ops -> (field -> field -> field) -> car -> car -> nat -> car -> field ->
    field **)

let conv_sc_cons k p2 ii s d b u =
  fscal k (k.oopp b)
    (fscal k (half k) (fmulp k (fsumf k (map (dc k ii s) (axes d))) (p2 u u)))

(** val conv_sc_noncons :
    ops -> (field -> field -> field) -> car -> car -> nat -> car -> field ->
    field **)

let conv_sc_noncons k p2 ii s d b u =
  fscal k (k.oopp b)
    (fsumf k (map (fun c -> p2 u (fmulp k (dc k ii s c) u)) (axes d)))

(** val gradient_norm :
    ops -> (field -> field -> field) -> car -> car -> nat -> car -> bool ->
    field -> field **)

let gradient_norm k p2 ii s d b zero_fix u =
  let g =
    fsumf k
      (map (fun c -> p2 (fmulp k (dc k ii s c) u) (fmulp k (dc k ii s c) u))
        (axes d))
  in
  let g' =
    if zero_fix then (fun k0 -> if is_zero k0 then k.o0 else g k0) else g
  in
  fscal k (k.oopp b) (fscal k (half k) g')

(** val polynomial :
    ops -> (field -> field) -> (field -> field -> field) -> (field -> field
    -> field -> field) -> car -> car -> car -> car -> car -> field -> field **)

let polynomial k m p2 p3 nD c2 c3 c4 c5 u k0 =
  k.oadd
    (k.oadd
      (k.oadd (k.omul (k.omul c2 nD) (delta0 k k0)) (k.omul c3 (m (m u) k0)))
      (k.omul c4 (p2 u u k0))) (k.omul c5 (p3 u u u k0))

(** val general_nonlinear :
    ops -> (field -> field) -> (field -> field -> field) -> (field -> field
    -> field -> field) -> car -> car -> nat -> car -> car -> car -> car ->
    bool -> field -> field **)

let general_nonlinear k m p2 p3 ii s d nD b0 b1 b2 zero_fix u =
  fadd k
    (fadd k (polynomial k m p2 p3 nD k.o0 k.o0 b0 k.o0 u)
      (conv_sc_cons k p2 ii s d (k.oopp b1) u))
    (gradient_norm k p2 ii s d (k.oopp b2) zero_fix u)

(** val inv_lap_one : ops -> car -> car -> nat -> field **)

let inv_lap_one k ii s d k0 =
  if k.oeqb (lap k ii s d k0) k.o0
  then k.o1
  else k.odiv k.o1 (lap k ii s d k0)

(** val vorticity_conv :
    ops -> (field -> field -> field) -> car -> car -> nat -> car -> field ->
    field **)

let vorticity_conv k p2 ii s d b w =
  let psi = fmulp k (inv_lap_one k ii s d) w in
  let uh = fmulp k (dc k ii s (S O)) psi in
  let vh = fscal k (k.oopp k.o1) (fmulp k (dc k ii s O) psi) in
  fscal k (k.oopp b)
    (fadd k (p2 uh (fmulp k (dc k ii s O) w))
      (p2 vh (fmulp k (dc k ii s (S O)) w)))

(** val inv_lap_zero : ops -> car -> car -> nat -> field **)

let inv_lap_zero k ii s d k0 =
  if k.oeqb (lap k ii s d k0) k.o0
  then k.o0
  else k.odiv k.o1 (lap k ii s d k0)

(** val leray : ops -> car -> car -> nat -> field list -> field list **)

let leray k ii s d u =
  let div0 = fsumf k (map2 (fun c uc -> fmulp k (dc k ii s c) uc) (axes d) u)
  in
  let p = fscal k (k.oopp k.o1) (fmulp k (inv_lap_zero k ii s d) div0) in
  map2 (fun c uc -> fadd k uc (fmulp k (dc k ii s c) p)) (axes d) u

(** val cross :
    ops -> (field -> field -> field) -> field list -> field list -> field list **)

let cross k p a b =
  let g = fun l i -> nth i l (fzero k) in
  (fadd k (p (g a (S O)) (g b (S (S O))))
    (fscal k (k.oopp k.o1) (p (g a (S (S O))) (g b (S O))))) :: ((fadd k
                                                                   (p
                                                                    (g a (S
                                                                    (S O)))
                                                                    (g b O))
                                                                   (fscal k
                                                                    (k.oopp
                                                                    k.o1)
                                                                    (p
                                                                    (g a O)
                                                                    (g b (S
                                                                    (S O)))))) :: (
  (fadd k (p (g a O) (g b (S O)))
    (fscal k (k.oopp k.o1) (p (g a (S O)) (g b O)))) :: []))

(** val curl : ops -> car -> car -> field list -> field list **)

let curl k ii s u =
  cross k (fmulp k)
    ((dc k ii s O) :: ((dc k ii s (S O)) :: ((dc k ii s (S (S O))) :: []))) u

(** val projected_conv :
    ops -> (field -> field -> field) -> car -> car -> nat -> field list ->
    field list **)

let projected_conv k p2 ii s d u =
  leray k ii s d (cross k p2 u (curl k ii s u))

(** val cahn_hilliard :
    ops -> (field -> field -> field -> field) -> car -> car -> nat -> car ->
    field -> field **)

let cahn_hilliard k p3 ii s d sc u =
  fscal k sc (fmulp k (lap k ii s d) (p3 u u u))

(** val gray_scott :
    ops -> (field -> field) -> (field -> field -> field -> field) -> car ->
    car -> car -> field -> field -> field list **)

let gray_scott k m p3 nD f kr u0 u1 =
  (fun k0 ->
    k.osub
      (k.osub (k.omul (k.omul f nD) (delta0 k k0)) (k.omul f (m (m u0) k0)))
      (p3 u0 u1 u1 k0)) :: ((fun k0 ->
    k.oadd (k.omul (k.oopp (k.oadd f kr)) (m (m u1) k0)) (p3 u0 u1 u1 k0)) :: [])

(** val dCQ : ops **)

let dCQ =
  dualOps cQ

(** val dcr : q -> q -> car **)

let dcr q0 t =
  Obj.magic { val0 = (cr q0); eps = (cr t) }

(** val dk : car -> car **)

let dk x =
  Obj.magic dconst cQ x

(** val put_dual : car list -> q list **)

let put_dual l =
  flat_map (fun d ->
    put_cx ((Obj.magic d).val0 :: ((Obj.magic d).eps :: []))) l

(** val take_dual : car list -> car list -> car list **)

let rec take_dual v t =
  match v with
  | [] -> []
  | x :: v' ->
    (match t with
     | [] -> []
     | y :: t' -> (Obj.magic { val0 = x; eps = y }) :: (take_dual v' t'))

(** val lookupD : (z list * car) list -> z list -> car **)

let rec lookupD l k =
  match l with
  | [] -> Obj.magic dzero cQ
  | p :: r -> let (j, v) = p in if idx_eqb j k then v else lookupD r k

(** val run_dsym : q list -> q list **)

let run_dsym a =
  let cls = qz (getq a O) in
  let d = qn (getq a (S O)) in
  let s = cr (getq a (S (S O))) in
  let k = map qz (firstn d (skipn (S (S (S O))) a)) in
  let np = qn (getq a (add (S (S (S O))) d)) in
  let p = firstn np (skipn (add (S (S (S (S O)))) d) a) in
  let t = firstn np (skipn (add (add (S (S (S (S O)))) d) np) a) in
  let d0 = map dk (dop cQ ciQ s k) in
  let pd = map2 dcr p t in
  let g = fun i -> nth i (Obj.magic pd) (dzero cQ) in
  let b = fun i -> qb (getq p i) in
  let rows = fun l -> chunks d d l in
  put_dual
    ((match cls with
      | Zpos p0 ->
        (match p0 with
         | XI p1 ->
           (match p1 with
            | XI p2 ->
              (match p2 with
               | XI _ -> poly_sym dCQ pd d0
               | XO p3 ->
                 (match p3 with
                  | XH ->
                    sym_fisher dCQ (Obj.magic g O) (Obj.magic g (S O)) d0
                  | _ -> poly_sym dCQ pd d0)
               | XH ->
                 sym_kdv dCQ (b O) (b (S O)) (Obj.magic g (S (S O)))
                   (Obj.magic g (S (S (S O))))
                   (Obj.magic g (S (S (S (S O))))) d0)
            | XO p2 ->
              (match p2 with
               | XI p3 ->
                 (match p3 with
                  | XH ->
                    sym_gray_scott dCQ (Obj.magic g O) (Obj.magic g (S O))
                      (qn (getq p (S (S O)))) d0
                  | _ -> poly_sym dCQ pd d0)
               | XO p3 ->
                 (match p3 with
                  | XH ->
                    sym_navier_stokes dCQ (Obj.magic g O) (Obj.magic g (S O))
                      d0
                  | _ -> poly_sym dCQ pd d0)
               | XH -> sym_hyper_diffusion dCQ (b O) (Obj.magic g (S O)) d0)
            | XH ->
              sym_advection_diffusion dCQ (firstn d pd) (rows (skipn d pd)) d0)
         | XO p1 ->
           (match p1 with
            | XI p2 ->
              (match p2 with
               | XI p3 ->
                 (match p3 with
                  | XH ->
                    sym_swift_hohenberg dCQ (Obj.magic g O)
                      (Obj.magic g (S O)) d0
                  | _ -> poly_sym dCQ pd d0)
               | XO p3 ->
                 (match p3 with
                  | XH ->
                    sym_allen_cahn dCQ (Obj.magic g O) (Obj.magic g (S O)) d0
                  | _ -> poly_sym dCQ pd d0)
               | XH -> sym_burgers dCQ (Obj.magic g O) d0)
            | XO p2 ->
              (match p2 with
               | XI p3 ->
                 (match p3 with
                  | XH ->
                    sym_cahn_hilliard dCQ (Obj.magic g O) (Obj.magic g (S O))
                      (Obj.magic g (S (S O))) d0
                  | _ -> poly_sym dCQ pd d0)
               | XO p3 ->
                 (match p3 with
                  | XH -> sym_ks dCQ (Obj.magic g O) (Obj.magic g (S O)) d0
                  | _ -> poly_sym dCQ pd d0)
               | XH -> sym_dispersion dCQ (b O) (firstn d (skipn (S O) pd)) d0)
            | XH -> sym_diffusion dCQ (rows pd) d0)
         | XH -> sym_advection dCQ (firstn d pd) d0)
      | _ -> poly_sym dCQ pd d0) :: [])

(** val run_dterm : q list -> q list **)

let run_dterm a =
  let term = qz (getq a O) in
  let d = qn (getq a (S O)) in
  let n = qz (getq a (S (S O))) in
  let kc = qz (getq a (S (S (S O)))) in
  let s = dk (cr (getq a (S (S (S (S (S O))))))) in
  let np = qn (getq a (S (S (S (S (S (S O))))))) in
  let ps = firstn np (skipn (S (S (S (S (S (S (S O))))))) a) in
  let ts = firstn np (skipn (add (S (S (S (S (S (S (S O))))))) np) a) in
  let rest = skipn (add (add (S (S (S (S (S (S (S O))))))) np) np) a in
  let nch = qn (getq rest O) in
  let band = bandD d kc in
  let nb = length band in
  let vals = take_cx (firstn (mul (mul (S (S O)) nb) nch) (skipn (S O) rest))
  in
  let tans = take_cx (skipn (add (S O) (mul (mul (S (S O)) nb) nch)) rest) in
  let chans =
    map (fun vt -> lookupD (combine band vt))
      (chunks nb nch (take_dual vals tans))
  in
  let pd = map2 dcr ps ts in
  let g = fun i -> nth i (Obj.magic pd) (dzero cQ) in
  let ii = dk ciQ in
  let m = msk dCQ kc in
  let p2 = prod2 dCQ d n kc in
  let p3 = prod3 dCQ d n kc in
  let nD = fpow dCQ (dk (cq_of_z n)) d in
  let ch = fun i -> nth i chans (fzero dCQ) in
  let outs =
    match term with
    | Z0 -> []
    | Zpos p ->
      (match p with
       | XI p0 ->
         (match p0 with
          | XI p1 ->
            (match p1 with
             | XI _ -> []
             | XO p4 ->
               (match p4 with
                | XI _ -> []
                | XO _ -> []
                | XH ->
                  gray_scott dCQ m p3 nD (Obj.magic g O) (Obj.magic g (S O))
                    (ch O) (ch (S O)))
             | XH ->
               (general_nonlinear dCQ m p2 p3 ii s d nD (Obj.magic g O)
                 (Obj.magic g (S O)) (Obj.magic g (S (S O)))
                 (qb (getq ps (S (S (S O))))) (ch O)) :: [])
          | XO p1 ->
            (match p1 with
             | XI _ -> []
             | XO p4 ->
               (match p4 with
                | XH -> projected_conv dCQ p2 ii s d chans
                | _ -> [])
             | XH ->
               (gradient_norm dCQ p2 ii s d (Obj.magic g O)
                 (qb (getq ps (S O))) (ch O)) :: [])
          | XH -> (conv_sc_cons dCQ p2 ii s d (Obj.magic g O) (ch O)) :: [])
       | XO p0 ->
         (match p0 with
          | XI p1 ->
            (match p1 with
             | XI _ -> []
             | XO p4 ->
               (match p4 with
                | XH ->
                  (cahn_hilliard dCQ p3 ii s d (Obj.magic g O) (ch O)) :: []
                | _ -> [])
             | XH ->
               (polynomial dCQ m p2 p3 nD (Obj.magic g O) (Obj.magic g (S O))
                 (Obj.magic g (S (S O))) (Obj.magic g (S (S (S O)))) 
                 (ch O)) :: [])
          | XO p1 ->
            (match p1 with
             | XI p4 -> (match p4 with
                         | XH -> leray dCQ ii s d chans
                         | _ -> [])
             | XO p4 ->
               (match p4 with
                | XH ->
                  (vorticity_conv dCQ p2 ii s d (Obj.magic g O) (ch O)) :: []
                | _ -> [])
             | XH ->
               (conv_sc_noncons dCQ p2 ii s d (Obj.magic g O) (ch O)) :: [])
          | XH -> conv_mc_noncons dCQ p2 ii s d (Obj.magic g O) chans)
       | XH -> conv_mc_cons dCQ p2 ii s d (Obj.magic g O) chans)
    | Zneg _ -> []
  in
  put_dual (flat_map (fun f -> map f band) outs)

(** val run_c07 : z -> q list -> q list **)

let run_c07 sub0 a =
  match sub0 with
  | Zpos p ->
    (match p with
     | XI _ -> []
     | XO p0 -> (match p0 with
                 | XH -> run_dterm a
                 | _ -> [])
     | XH -> run_dsym a)
  | _ -> []

(** val scan :
    ('a1 -> 'a2 -> 'a1 * 'a3) -> 'a1 -> 'a2 list -> 'a1 * 'a3 list **)

let rec scan f c = function
| [] -> (c, [])
| x :: r ->
  let (c', y) = f c x in let (cf, ys) = scan f c' r in (cf, (y :: ys))

(** val rollout : ('a1 -> 'a1) -> nat -> bool -> 'a1 -> 'a1 list **)

let rollout f n include_init u0 =
  let scan_fn = fun u _ -> let u' = f u in (u', u') in
  let trj = snd (scan scan_fn u0 (repeat () n)) in
  if include_init then u0 :: trj else trj

(** val repeat_fn : ('a1 -> 'a1) -> nat -> 'a1 -> 'a1 **)

let repeat_fn f n u0 =
  let scan_fn = fun u _ -> let u' = f u in (u', ()) in
  fst (scan scan_fn u0 (repeat () n))

type 'x auxarg =
| AuxConst of 'x
| AuxSeq of 'x list

(** val aux_seq : nat -> bool -> 'a1 auxarg -> 'a1 list option **)

let aux_seq n constant_aux a =
  if constant_aux
  then (match a with
        | AuxConst x -> Some (repeat x n)
        | AuxSeq _ -> None)
  else (match a with
        | AuxConst _ -> None
        | AuxSeq xs -> if Nat.eqb (length xs) n then Some xs else None)

(** val rollout_aux :
    ('a1 -> 'a2 -> 'a1) -> nat -> bool -> bool -> 'a1 -> 'a2 auxarg -> 'a1
    list option **)

let rollout_aux f n include_init constant_aux u0 a =
  match aux_seq n constant_aux a with
  | Some xs ->
    let scan_fn = fun u x -> let u' = f u x in (u', u') in
    let trj = snd (scan scan_fn u0 xs) in
    Some (if include_init then u0 :: trj else trj)
  | None -> None

(** val repeat_aux :
    ('a1 -> 'a2 -> 'a1) -> nat -> bool -> 'a1 -> 'a2 auxarg -> 'a1 option **)

let repeat_aux f n constant_aux u0 a =
  match aux_seq n constant_aux a with
  | Some xs ->
    let scan_fn = fun u x -> let u' = f u x in (u', ()) in
    Some (fst (scan scan_fn u0 xs))
  | None -> None

(** val dynamic_slice : 'a1 list -> nat -> nat -> 'a1 list **)

let dynamic_slice l i len =
  firstn len (skipn (Nat.min i (sub (length l) len)) l)

(** val stack_sub : 'a1 list -> nat -> 'a1 list list option **)

let stack_sub trj sub_len =
  let t = length trj in
  if Nat.ltb t sub_len
  then None
  else Some
         (map (fun i -> dynamic_slice trj i sub_len)
           (seq O (add (sub t sub_len) (S O))))

(** val all_same : nat list -> bool **)

let all_same = function
| [] -> true
| x :: r -> forallb (Nat.eqb x) r

(** val stack_sub_tree : 'a1 list list -> nat -> 'a1 list list list option **)

let stack_sub_tree leaves sub_len =
  match leaves with
  | [] -> None
  | l0 :: _ ->
    if all_same (map length leaves)
    then if Nat.ltb (length l0) sub_len
         then None
         else Some
                (map (fun leaf ->
                  match stack_sub leaf sub_len with
                  | Some w -> w
                  | None -> []) leaves)
    else None

(** val vmap : ('a1 -> 'a2) -> 'a1 list -> 'a2 list **)

let vmap =
  map

(** val vmap2 : ('a3 -> 'a1 -> 'a2) -> 'a3 list -> 'a1 list -> 'a2 list **)

let vmap2 f ps us =
  map (fun pu -> f (fst pu) (snd pu)) (combine ps us)

(** val upd : nat -> 'a1 -> 'a1 list -> 'a1 list **)

let rec upd i x = function
| [] -> []
| u :: r -> (match i with
             | O -> x :: r
             | S j -> u :: (upd j x r))

(** val zip_cons : 'a1 list -> 'a1 list list -> 'a1 list list **)

let rec zip_cons r cols =
  match r with
  | [] -> []
  | x :: r' ->
    (match cols with
     | [] -> []
     | c :: cols' -> (x :: c) :: (zip_cons r' cols'))

(** val transpose : nat -> 'a1 list list -> 'a1 list list **)

let rec transpose w = function
| [] -> repeat [] w
| r :: rows' -> zip_cons r (transpose w rows')

(** val aff6 : z -> z -> z -> z **)

let aff6 a b u =
  Z.add (Z.mul a u) b

(** val flatz : z list list -> q list **)

let flatz m =
  map zq (concat m)

(** val run_c06 : z -> q list -> q list **)

let run_c06 sub0 a =
  let n = qn (getq a O) in
  let inc = qb (getq a (S O)) in
  let ca = qz (getq a (S (S O))) in
  let cb = qz (getq a (S (S (S O)))) in
  let b = qn (getq a (S (S (S (S O))))) in
  let rest = map qz (skipn (S (S (S (S (S O))))) a) in
  (match sub0 with
   | Zpos p ->
     (match p with
      | XI p0 ->
        (match p0 with
         | XI p1 ->
           (match p1 with
            | XH -> map zq (repeat_fn (vmap (aff6 ca cb)) n (firstn b rest))
            | _ -> [])
         | XO p1 ->
           (match p1 with
            | XH ->
              let ps = firstn b rest in
              let us = firstn b (skipn b rest) in
              flatz (rollout (vmap2 (fun p2 -> aff6 p2 cb) ps) n inc us)
            | _ -> [])
         | XH -> flatz (rollout (vmap (aff6 ca cb)) n inc (firstn b rest)))
      | XO p0 ->
        (match p0 with
         | XI p1 ->
           (match p1 with
            | XH -> map zq (vmap (repeat_fn (aff6 ca cb) n) (firstn b rest))
            | _ -> [])
         | XO p1 ->
           (match p1 with
            | XI _ -> []
            | XO p2 ->
              (match p2 with
               | XH ->
                 map zq
                   (vmap (aff6 ca cb) (upd n (nth b rest Z0) (firstn b rest)))
               | _ -> [])
            | XH ->
              let ps = firstn b rest in
              let us = firstn b (skipn b rest) in
              flatz (vmap2 (fun p2 u -> rollout (aff6 p2 cb) n inc u) ps us))
         | XH ->
           flatz
             (transpose b (rollout (vmap (aff6 ca cb)) n inc (firstn b rest))))
      | XH -> flatz (vmap (rollout (aff6 ca cb) n inc) (firstn b rest)))
   | _ -> [])

(** val flen : ops -> car list -> car **)

let flen k l =
  fz k (Z.of_nat (length l))

(** val mean : ops -> car list -> car **)

let mean k l =
  k.odiv (fsum k l) (flen k l)

(** val center : ops -> car list -> car list **)

let center k l =
  map (fun x -> k.osub x (mean k l)) l

(** val sq : ops -> car -> car **)

let sq k x =
  k.omul x x

(** val variance : ops -> car list -> car **)

let variance k l =
  mean k (map (sq k) (center k l))

(** val normalize_with :
    ops -> (car list -> car) -> (car list -> car) -> (car list -> car) ->
    bool -> bool -> bool -> car list -> car list **)

let normalize_with k fmean fstd fmaxabs zero_mean std_one max_one ic =
  let ic0 = if zero_mean then map (fun x -> k.osub x (fmean ic)) ic else ic in
  let ic1 = if std_one then map (fun x -> k.odiv x (fstd ic0)) ic0 else ic0 in
  if max_one then map (fun x -> k.odiv x (fmaxabs ic1)) ic1 else ic1

(** val fabs : ops -> (car -> car -> bool) -> car -> car **)

let fabs k leb0 x =
  if leb0 k.o0 x then x else k.oopp x

(** val fmax2 : ops -> (car -> car -> bool) -> car -> car -> car **)

let fmax2 _ leb0 a b =
  if leb0 a b then b else a

(** val fmin2 : ops -> (car -> car -> bool) -> car -> car -> car **)

let fmin2 _ leb0 a b =
  if leb0 a b then a else b

(** val lmax : ops -> (car -> car -> bool) -> car list -> car **)

let lmax k leb0 = function
| [] -> k.o0
| x :: r -> fold_left (fmax2 k leb0) r x

(** val lmin : ops -> (car -> car -> bool) -> car list -> car **)

let lmin k leb0 = function
| [] -> k.o0
| x :: r -> fold_left (fmin2 k leb0) r x

(** val maxabs : ops -> (car -> car -> bool) -> car list -> car **)

let maxabs k leb0 l =
  lmax k leb0 (map (fabs k leb0) l)

(** val std : ops -> (car -> car) -> car list -> car **)

let std k fsqrt l =
  fsqrt (variance k l)

(** val normalize_ic :
    ops -> (car -> car -> bool) -> (car -> car) -> bool -> bool -> bool ->
    car list -> car list **)

let normalize_ic k leb0 fsqrt =
  normalize_with k (mean k) (std k fsqrt) (maxabs k leb0)

(** val clamp :
    ops -> (car -> car -> bool) -> car -> car -> car list -> car list **)

let clamp k leb0 lo hi ic =
  let above = map (fun x -> k.osub x (lmin k leb0 ic)) ic in
  let unit1 = map (fun x -> k.odiv x (lmax k leb0 above)) above in
  map (fun x -> k.oadd (k.omul x (k.osub hi lo)) lo) unit1

(** val scaled : ops -> car -> car list -> car list **)

let scaled k s ic =
  map (fun x -> k.omul x s) ic

(** val gridD : nat -> nat -> nat list list **)

let rec gridD d n =
  match d with
  | O -> [] :: []
  | S d' -> flat_map (fun a -> map (fun x -> a :: x) (gridD d' n)) (seq O n)

(** val sumD : ops -> nat -> nat -> (nat list -> car) -> car **)

let sumD k d n f =
  fsum k (map f (gridD d n))

(** val npts : ops -> nat -> nat -> car **)

let npts k d n =
  fpow k (fz k (Z.of_nat n)) d

(** val chi : ops -> car -> nat list -> nat list -> car **)

let rec chi k w' j k0 =
  match j with
  | [] -> k.o1
  | a :: j' ->
    (match k0 with
     | [] -> k.o1
     | b :: k' -> k.omul (fpow k w' (mul a b)) (chi k w' j' k'))

(** val idftD :
    ops -> nat -> nat -> car -> (nat list -> car) -> nat list -> car **)

let idftD k d n w' u j =
  k.odiv (sumD k d n (fun k0 -> k.omul (u k0) (chi k w' j k0))) (npts k d n)

(** val meanD : ops -> nat -> nat -> (nat list -> car) -> car **)

let meanD k d n u =
  k.odiv (sumD k d n u) (npts k d n)

(** val tfs_dc : ops -> car -> nat -> nat -> car **)

let tfs_dc k offset d n =
  k.omul offset (npts k d n)

(** val is_zero_idx : z list -> bool **)

let is_zero_idx idx0 =
  forallb (Z.eqb Z0) idx0

(** val grf_amp_sq_even : ops -> car -> nat -> nat -> z -> z list -> car **)

let grf_amp_sq_even k s m d n idx0 =
  if is_zero_idx idx0
  then k.o1
  else k.oinv (fpow k (k.omul (k.omul s s) (fz k (norm2 (wnvec d n idx0)))) m)

(** val spatial : z -> z -> z list **)

let spatial d n =
  repeat n (Z.to_nat d)

(** val bdim : z -> z -> z option **)

let bdim a b =
  if Z.eqb a b
  then Some a
  else if Z.eqb a (Zpos XH)
       then Some b
       else if Z.eqb b (Zpos XH) then Some a else None

(** val bcast : z list -> z list -> z list option **)

let rec bcast a b =
  match a with
  | [] -> (match b with
           | [] -> Some []
           | _ :: _ -> None)
  | x :: a' ->
    (match b with
     | [] -> None
     | y :: b' ->
       (match bdim x y with
        | Some d ->
          (match bcast a' b' with
           | Some r -> Some (d :: r)
           | None -> None)
        | None -> None))

(** val slice0 : z -> z -> z list -> z list **)

let slice0 lo hi = function
| [] -> []
| d :: r -> (Z.max Z0 (Z.sub (Z.min hi d) (Z.min lo d))) :: r

(** val disc_mask_from : z list -> z list -> nat -> z list option **)

let disc_mask_from init xshape nlim =
  fold_left (fun acc i ->
    match acc with
    | Some m ->
      let s = slice0 (Z.of_nat i) (Z.add (Z.of_nat i) (Zpos XH)) xshape in
      (match bcast m s with
       | Some m1 -> bcast m1 s
       | None -> None)
    | None -> None) (seq O nlim) (Some init)

type gen =
| GBase of z * z
| GScaled of gen
| GClamp of gen
| GMulti of gen list

(** val k_DISC : z **)

let k_DISC =
  Zpos (XO (XO XH))

(** val k_BLOBS : z **)

let k_BLOBS =
  Zpos (XI (XO XH))

(** val k_SINE : z **)

let k_SINE =
  Zpos (XO (XI XH))

(** val kind_has_fun : z -> bool **)

let kind_has_fun k =
  (||) ((||) (Z.eqb k k_DISC) (Z.eqb k k_BLOBS)) (Z.eqb k k_SINE)

(** val base_ctor_raises : z -> z -> bool **)

let base_ctor_raises k d =
  (&&) (Z.eqb k k_SINE) (negb (Z.eqb d (Zpos XH)))

(** val gen_dims : gen -> z option **)

let rec gen_dims = function
| GBase (_, d) -> Some d
| GScaled g' -> gen_dims g'
| GClamp g' -> gen_dims g'
| GMulti _ -> None

(** val sh_eqb : z list -> z list -> bool **)

let rec sh_eqb a b =
  match a with
  | [] -> (match b with
           | [] -> true
           | _ :: _ -> false)
  | x :: a' ->
    (match b with
     | [] -> false
     | y :: b' -> (&&) (Z.eqb x y) (sh_eqb a' b'))

(** val cat2 : z list option -> z list option -> z list option **)

let cat2 acc o =
  match acc with
  | Some l ->
    (match l with
     | [] -> None
     | c2 :: sp1 ->
       (match o with
        | Some l0 ->
          (match l0 with
           | [] -> None
           | c3 :: sp2 ->
             if sh_eqb sp1 sp2 then Some ((Z.add c2 c3) :: sp1) else None)
        | None -> None))
  | None -> None

(** val concat0 : z list option list -> z list option **)

let concat0 = function
| [] -> None
| o :: r ->
  fold_left cat2 r
    (match o with
     | Some l0 -> (match l0 with
                   | [] -> None
                   | c :: sp -> Some (c :: sp))
     | None -> None)

(** val gen_shape : z -> gen -> z list option **)

let rec gen_shape n = function
| GBase (k, d) ->
  if base_ctor_raises k d then None else Some ((Zpos XH) :: (spatial d n))
| GScaled g' ->
  (match gen_dims g' with
   | Some _ -> gen_shape n g'
   | None -> None)
| GClamp g' ->
  (match gen_dims g' with
   | Some _ -> gen_shape n g'
   | None -> None)
| GMulti gs -> concat0 (map (gen_shape n) gs)

(** val supports_fun : gen -> bool **)

let rec supports_fun = function
| GBase (k, _) -> kind_has_fun k
| GScaled g' -> supports_fun g'
| GClamp _ -> false
| GMulti gs -> forallb supports_fun gs

(** val qc_leb : qc -> qc -> bool **)

let qc_leb x y =
  qle_bool (this x) (this y)

(** val rep : z list -> z -> z list **)

let rep l n =
  concat (repeat l (Z.to_nat n))

(** val shape_eqb : z list -> z list -> bool **)

let rec shape_eqb a b =
  match a with
  | [] -> (match b with
           | [] -> true
           | _ :: _ -> false)
  | x :: a' ->
    (match b with
     | [] -> false
     | y :: b' -> (&&) (Z.eqb x y) (shape_eqb a' b'))

(** val all_eqb : z list -> bool **)

let all_eqb = function
| [] -> false
| x :: r -> forallb (Z.eqb x) r

(** val gen_spatial_shape : z -> z -> z list **)

let gen_spatial_shape d n =
  rep (n :: []) d

(** val base_call_raises : z -> z -> z -> z list -> bool **)

let base_call_raises c d n u =
  negb (shape_eqb u (app (c :: []) (gen_spatial_shape d n)))

(** val repeated_call_raises : z -> z -> z -> z list -> bool **)

let repeated_call_raises c d n u =
  negb (shape_eqb u (app (c :: []) (gen_spatial_shape d n)))

(** val poisson_call_raises : z -> z -> z list -> bool **)

let poisson_call_raises d n f =
  negb (shape_eqb (skipn (S O) f) (gen_spatial_shape d n))

(** val laplace_order_raises : z -> bool **)

let laplace_order_raises order =
  negb (Z.eqb (Z.modulo order (Zpos (XO XH))) Z0)

(** val gip_raises : z -> z -> z list -> bool **)

let gip_raises order d velocity =
  (||) (negb (Z.eqb (Z.modulo order (Zpos (XO XH))) (Zpos XH)))
    ((&&) (negb (negb (Z.eqb (Z.modulo order (Zpos (XO XH))) (Zpos XH))))
      (negb (shape_eqb velocity (d :: []))))

(** val make_incompressible_raises : z list -> bool **)

let make_incompressible_raises field0 =
  negb (Z.eqb (nth O field0 Z0) (Z.of_nat (length (skipn (S O) field0))))

(** val ifft_raises : z -> bool -> bool -> z list -> bool **)

let ifft_raises d d_none n_none field_hat =
  (&&) n_none
    (negb
      (Z.geb
        (if d_none then Z.sub (Z.of_nat (length field_hat)) (Zpos XH) else d)
        (Zpos (XO XH))))

(** val ic_options_raise : bool -> bool -> bool -> bool **)

let ic_options_raise zero_mean std_one max_one =
  (||) ((&&) (negb zero_mean) std_one)
    ((&&) (negb ((&&) (negb zero_mean) std_one)) ((&&) std_one max_one))

(** val spatial_norm_raises : bool -> z -> bool **)

let spatial_norm_raises ref_none mode =
  (||) ((&&) ref_none (Z.eqb mode (Zpos XH)))
    ((&&) ((&&) ref_none (negb (Z.eqb mode (Zpos XH))))
      (Z.eqb mode (Zpos (XO XH))))

(** val fourier_norm_raises : bool -> z -> bool **)

let fourier_norm_raises ref_none mode =
  (&&) ref_none (Z.eqb mode (Zpos XH))

(** val general_nonlin_raises : z -> bool **)

let general_nonlin_raises scale_len =
  negb
    (Z.eqb (Z.of_nat (length (repeat Z0 (Z.to_nat scale_len)))) (Zpos (XI
      XH)))

(** val general_nonlin_stepper_raises : z -> bool **)

let general_nonlin_stepper_raises coef_len =
  negb
    (Z.eqb (Z.of_nat (length (repeat Z0 (Z.to_nat coef_len)))) (Zpos (XI XH)))

(** val vorticity_conv_raises : z -> bool **)

let vorticity_conv_raises d =
  negb (Z.eqb d (Zpos (XO XH)))

(** val projected_conv_raises : z -> bool **)

let projected_conv_raises d =
  negb (Z.eqb d (Zpos (XI XH)))

(** val ns_vorticity_raises : z -> bool **)

let ns_vorticity_raises d =
  negb (Z.eqb d (Zpos (XO XH)))

(** val kolmogorov_vorticity_raises : z -> bool **)

let kolmogorov_vorticity_raises d =
  negb (Z.eqb d (Zpos (XO XH)))

(** val ns_velocity_raises : z -> bool **)

let ns_velocity_raises d =
  negb (Z.eqb d (Zpos (XI XH)))

(** val kolmogorov_velocity_raises : z -> bool **)

let kolmogorov_velocity_raises d =
  negb (Z.eqb d (Zpos (XI XH)))

(** val general_vorticity_raises : z -> bool **)

let general_vorticity_raises d =
  negb (Z.eqb d (Zpos (XO XH)))

(** val gray_scott_raises : z list -> bool **)

let gray_scott_raises u_hat =
  negb (Z.eqb (nth O u_hat Z0) (Zpos (XO XH)))

(** val convection_cons_raises : z -> z list -> bool **)

let convection_cons_raises d u_hat =
  negb (Z.eqb (nth O u_hat Z0) d)

(** val convection_noncons_raises : z -> z list -> bool **)

let convection_noncons_raises d u_hat =
  negb (Z.eqb (nth O u_hat Z0) d)

(** val random_sine_raises : z -> bool -> bool -> bool -> bool **)

let random_sine_raises d offset_zero std_one max_one =
  (||)
    ((||) (negb (Z.eqb d (Zpos XH)))
      ((&&) (negb (negb (Z.eqb d (Zpos XH))))
        ((&&) (negb offset_zero) std_one)))
    ((&&)
      ((&&) (negb (negb (Z.eqb d (Zpos XH))))
        (negb ((&&) (negb offset_zero) std_one))) ((&&) std_one max_one))

(** val stack_sub_raises : z -> z list -> bool **)

let stack_sub_raises sub_len lens =
  (||) (negb (all_eqb lens)) (Z.gtb sub_len (hd Z0 lens))

(** val discontinuities_raises : bool -> bool -> bool -> bool **)

let discontinuities_raises zero_mean std_one max_one =
  (||) ((&&) (negb zero_mean) std_one)
    ((&&) (negb ((&&) (negb zero_mean) std_one)) ((&&) std_one max_one))

(** val random_discontinuities_raises : bool -> bool -> bool -> bool **)

let random_discontinuities_raises zero_mean std_one max_one =
  (||) ((&&) (negb zero_mean) std_one)
    ((&&) (negb ((&&) (negb zero_mean) std_one)) ((&&) std_one max_one))

(** val sine_waves_raises : bool -> bool -> bool -> z -> z -> z -> bool **)

let sine_waves_raises offset_zero std_one max_one n_amp n_wav n_pha =
  (||)
    ((||) ((&&) (negb offset_zero) std_one)
      ((&&) (negb ((&&) (negb offset_zero) std_one)) ((&&) std_one max_one)))
    ((&&)
      ((&&) (negb ((&&) (negb offset_zero) std_one))
        (negb ((&&) std_one max_one)))
      ((||)
        (negb
          (Z.eqb (Z.of_nat (length (repeat Z0 (Z.to_nat n_amp))))
            (Z.of_nat (length (repeat Z0 (Z.to_nat n_wav))))))
        (negb
          (Z.eqb (Z.of_nat (length (repeat Z0 (Z.to_nat n_wav))))
            (Z.of_nat (length (repeat Z0 (Z.to_nat n_pha))))))))

(** val sine_waves_call_raises : bool -> bool -> z list -> bool **)

let sine_waves_call_raises _ _ x =
  negb (Z.eqb (nth O x Z0) (Zpos XH))

(** val gaussian_blob_call_raises : bool -> z -> z list -> bool **)

let gaussian_blob_call_raises _ pos_len x =
  negb (Z.eqb (nth O x Z0) pos_len)

(** val tfs_raises : bool -> bool -> bool -> bool **)

let tfs_raises =
  ic_options_raise

(** val grf_raises : bool -> bool -> bool -> bool **)

let grf_raises =
  ic_options_raise

(** val diffused_noise_raises : bool -> bool -> bool -> bool **)

let diffused_noise_raises =
  ic_options_raise

(** val gen_tfs_dc : ops -> car -> car -> car **)

let gen_tfs_dc k offset size =
  k.omul offset size

(** val gen_disc_shape : z list -> nat -> z list option **)

let gen_disc_shape xshape nlim =
  disc_mask_from (slice0 Z0 (Zpos XH) xshape) xshape nlim

(** val parse_gen : nat -> z list -> (gen * z list) option **)

let rec parse_gen fuel t =
  match fuel with
  | O -> None
  | S f ->
    (match t with
     | [] -> None
     | z0 :: r ->
       (match z0 with
        | Z0 ->
          (match r with
           | [] -> None
           | k :: l ->
             (match l with
              | [] -> None
              | d :: r0 -> Some ((GBase (k, d)), r0)))
        | Zpos p ->
          (match p with
           | XI p0 ->
             (match p0 with
              | XH ->
                (match r with
                 | [] -> None
                 | n :: r0 ->
                   (match parse_gens f (Z.to_nat n) r0 with
                    | Some p1 -> let (gs, r') = p1 in Some ((GMulti gs), r')
                    | None -> None))
              | _ -> None)
           | XO p0 ->
             (match p0 with
              | XH ->
                (match parse_gen f r with
                 | Some p1 -> let (g, r') = p1 in Some ((GClamp g), r')
                 | None -> None)
              | _ -> None)
           | XH ->
             (match parse_gen f r with
              | Some p0 -> let (g, r') = p0 in Some ((GScaled g), r')
              | None -> None))
        | Zneg _ -> None))

(** val parse_gens : nat -> nat -> z list -> (gen list * z list) option **)

and parse_gens fuel n t =
  match fuel with
  | O -> None
  | S f ->
    (match n with
     | O -> Some ([], t)
     | S n' ->
       (match parse_gen f t with
        | Some p ->
          let (g, r) = p in
          (match parse_gens f n' r with
           | Some p0 -> let (gs, r') = p0 in Some ((g :: gs), r')
           | None -> None)
        | None -> None))

(** val decode_gen : z list -> gen **)

let decode_gen t =
  match parse_gen (S (length t)) t with
  | Some p -> let (g, _) = p in g
  | None -> GMulti []

(** val qid : car -> car **)

let qid x =
  x

(** val run_c18 : z -> q list -> q list **)

let run_c18 sub0 a =
  let z0 = fun i -> qz (getq a i) in
  let b = fun i -> qb (getq a i) in
  let n = fun i -> qn (getq a i) in
  let r = fun x -> (bq x) :: [] in
  (match sub0 with
   | Zpos p ->
     (match p with
      | XI p0 ->
        (match p0 with
         | XI p1 ->
           (match p1 with
            | XI _ -> []
            | XO p2 ->
              (match p2 with
               | XH ->
                 optl
                   (option_map (map zq)
                     (gen_disc_shape (zs (skipn (S O) a)) (n O)))
               | _ -> [])
            | XH ->
              let g = fun i -> qb (getq a (S i)) in
              (match z0 O with
               | Z0 -> r (ic_options_raise (g O) (g (S O)) (g (S (S O))))
               | Zpos p2 ->
                 (match p2 with
                  | XI p3 ->
                    (match p3 with
                     | XI p4 ->
                       (match p4 with
                        | XH ->
                          r
                            (sine_waves_raises (g O) (g (S O)) (g (S (S O)))
                              (z0 (S (S (S (S O)))))
                              (z0 (S (S (S (S (S O))))))
                              (z0 (S (S (S (S (S (S O))))))))
                        | _ -> [])
                     | XO p4 ->
                       (match p4 with
                        | XI _ -> []
                        | XO p5 ->
                          (match p5 with
                           | XH ->
                             r
                               (gaussian_blob_call_raises (g O)
                                 (z0 (S (S O))) (zs (skipn (S (S (S O))) a)))
                           | _ -> [])
                        | XH ->
                          r
                            (random_discontinuities_raises (g O) (g (S O))
                              (g (S (S O)))))
                     | XH ->
                       r (diffused_noise_raises (g O) (g (S O)) (g (S (S O)))))
                  | XO p3 ->
                    (match p3 with
                     | XI p4 ->
                       (match p4 with
                        | XH ->
                          r
                            (random_sine_raises (z0 (S O)) (g (S O))
                              (g (S (S O))) (g (S (S (S O)))))
                        | _ -> [])
                     | XO p4 ->
                       (match p4 with
                        | XI _ -> []
                        | XO p5 ->
                          (match p5 with
                           | XH ->
                             r
                               (sine_waves_call_raises (g O) (g (S O))
                                 (zs (skipn (S (S (S O))) a)))
                           | _ -> [])
                        | XH ->
                          r
                            (discontinuities_raises (g O) (g (S O))
                              (g (S (S O)))))
                     | XH -> r (grf_raises (g O) (g (S O)) (g (S (S O)))))
                  | XH -> r (tfs_raises (g O) (g (S O)) (g (S (S O)))))
               | Zneg _ -> []))
         | XO p1 ->
           (match p1 with
            | XI _ -> []
            | XO p2 ->
              (match p2 with
               | XH ->
                 let d = n O in
                 let nn = n (S O) in
                 let w' =
                   if Nat.eqb nn (S (S O)) then cq_of_z (Zneg XH) else ciQ
                 in
                 let g = gridD d nn in
                 let u = fun k ->
                   lookup
                     (combine (map (map Z.of_nat) g)
                       (take_cx (skipn (S (S O)) a))) (map Z.of_nat k)
                 in
                 put_cx
                   ((meanD cQ d nn (idftD cQ d nn w' u)) :: (map
                                                              (idftD cQ d nn
                                                                w' u) g))
               | _ -> [])
            | XH ->
              optl
                (option_map (map zq)
                  (gen_shape (z0 O) (decode_gen (zs (skipn (S O) a))))))
         | XH ->
           unqcs
             (clamp qcOps (Obj.magic qc_leb) (Obj.magic qqc (getq a O))
               (Obj.magic qqc (getq a (S O))) (qcs (skipn (S (S O)) a))))
      | XO p0 ->
        (match p0 with
         | XI p1 ->
           (match p1 with
            | XI _ -> []
            | XO p2 ->
              (match p2 with
               | XH ->
                 (qcq
                   (Obj.magic grf_amp_sq_even qcOps (qqc (getq a O))
                     (n (S O)) (n (S (S O))) (z0 (S (S (S O))))
                     (zs (skipn (S (S (S (S O)))) a)))) :: []
               | _ -> [])
            | XH -> r (supports_fun (decode_gen (zs a))))
         | XO p1 ->
           (match p1 with
            | XI p2 ->
              (match p2 with
               | XH ->
                 let idx0 = zs (skipn (S (S (S O))) a) in
                 (bq (low_pass_axis (n O) (z0 (S O)) (z0 (S (S O))) idx0)) :: (
                 (bq (is_zero_idx idx0)) :: [])
               | _ -> [])
            | XO p2 ->
              (match p2 with
               | XH ->
                 let dc0 =
                   tfs_dc qcOps (Obj.magic qqc (getq a O)) (n (S O))
                     (n (S (S O)))
                 in
                 unqcs
                   (dc0 :: ((qcOps.odiv dc0
                              (npts qcOps (n (S O)) (n (S (S O))))) :: (
                   (gen_tfs_dc qcOps (Obj.magic qqc (getq a O))
                     (npts qcOps (n (S O)) (n (S (S O))))) :: [])))
               | _ -> [])
            | XH ->
              unqcs
                (scaled qcOps (Obj.magic qqc (getq a O))
                  (qcs (skipn (S O) a))))
         | XH ->
           let l = qcs (skipn (S O) a) in
           let l1 = if b O then center qcOps l else l in
           unqcs ((variance qcOps l1) :: l1))
      | XH ->
        unqcs
          (normalize_ic qcOps (Obj.magic qc_leb) qid (b O) false (b (S O))
            (qcs (skipn (S (S O)) a))))
   | _ -> [])

(** val sqr : ops -> car -> car **)

let sqr k x =
  k.omul x x

(** val sumsq : ops -> car list -> car **)

let sumsq k u =
  fsum k (map (sqr k) u)

(** val vsub : ops -> car list -> car list -> car list **)

let vsub k u r =
  map (fun p -> k.osub (fst p) (snd p)) (combine u r)

(** val ssub : ops -> car cx list -> car cx list -> car cx list **)

let ssub k u r =
  map (fun p -> csub k (fst p) (snd p)) (combine u r)

(** val zrange0 : z -> z list **)

let zrange0 n =
  map Z.of_nat (seq O (Z.to_nat n))

(** val idx_grid : z list -> z list list **)

let rec idx_grid = function
| [] -> [] :: []
| n :: r -> flat_map (fun j -> map (fun x -> j :: x) (idx_grid r)) (zrange0 n)

(** val half_indices : nat -> z -> z list list **)

let half_indices d n =
  idx_grid (wavenumber_shape d n)

(** val vol : ops -> nat -> z -> car -> car **)

let vol k d n l =
  fpow k (k.odiv l (fz k n)) d

(** val spatial_agg :
    ops -> (car -> car) -> nat -> z -> car -> car list -> car **)

let spatial_agg k root d n l u =
  root (k.omul (vol k d n l) (sumsq k u))

(** val combine_spatial : ops -> z -> car -> car -> car -> car **)

let combine_spatial k mode d s r =
  if Z.eqb mode (Zpos XH)
  then k.odiv d r
  else if Z.eqb mode (Zpos (XO XH))
       then k.odiv (k.omul (two k) d) (k.oadd s r)
       else d

(** val combine_fourier : ops -> z -> car -> car -> car -> car **)

let combine_fourier k mode d _ r =
  if Z.eqb mode (Zpos XH) then k.odiv d r else d

(** val norm_gen :
    ops -> ('a1 -> car) -> ('a1 -> 'a1 -> 'a1) -> (z -> car -> car -> car ->
    car) -> bool -> z -> 'a1 list -> 'a1 list option -> car option **)

let norm_gen k agg sub0 comb raises mode u ref =
  if raises
  then None
  else (match ref with
        | Some r ->
          Some
            (fsum k
              (map (fun p ->
                comb mode (agg (sub0 (fst p) (snd p))) (agg (fst p))
                  (agg (snd p))) (combine u r)))
        | None -> Some (fsum k (map agg u)))

(** val is_none : 'a1 option -> bool **)

let is_none = function
| Some _ -> false
| None -> true

(** val spatial_norm :
    ops -> (car -> car) -> nat -> z -> car -> z -> car list list -> car list
    list option -> car option **)

let spatial_norm k root d n l mode u ref =
  norm_gen k (spatial_agg k root d n l) (vsub k) (combine_spatial k)
    (spatial_norm_raises (is_none ref) mode) mode u ref

(** val axis_scaling : ops -> z -> z -> bool -> z -> car **)

let axis_scaling k n k0 last0 den =
  if axis_plain n k0 last0 then fz k n else k.odiv (fz k n) (fz k den)

(** val scaling_recon : ops -> nat -> z -> z list -> car **)

let scaling_recon k d n idx0 =
  fprod k
    (map (fun c ->
      let last0 = Nat.eqb c (sub d (S O)) in
      axis_scaling k n (wn d n c idx0) last0
        (if last0 then Zpos (XO XH) else Zpos XH)) (seq O d))

(** val band_mask : nat -> z -> z option -> z option -> z list -> bool **)

let band_mask d n low high idx0 =
  match low with
  | Some _ ->
    let lo = match low with
             | Some l -> l
             | None -> Z0 in
    let hi =
      match high with
      | Some h -> h
      | None -> Z.add (Z.div n (Zpos (XO XH))) (Zpos XH)
    in
    (&&) (negb (low_pass_axis d n (Z.sub lo (Zpos XH)) idx0))
      (low_pass_axis d n hi idx0)
  | None ->
    (match high with
     | Some _ ->
       let lo = match low with
                | Some l -> l
                | None -> Z0 in
       let hi =
         match high with
         | Some h -> h
         | None -> Z.add (Z.div n (Zpos (XO XH))) (Zpos XH)
       in
       (&&) (negb (low_pass_axis d n (Z.sub lo (Zpos XH)) idx0))
         (low_pass_axis d n hi idx0)
     | None -> true)

(** val cpow : ops -> car cx -> nat -> car cx **)

let cpow k z0 m =
  Obj.magic fpow (cOps k) z0 m

(** val dop_axis :
    ops -> car -> car -> nat -> z -> nat -> z list -> car cx **)

let dop_axis k tau l d n d0 idx0 =
  { re = k.o0; im = (k.omul (k.odiv tau l) (fz k (wn d n d0 idx0))) }

type spectrum = (z list * car cx) list

(** val with_idx : ops -> nat -> z -> car cx list -> spectrum **)

let with_idx _ d n spec =
  combine (half_indices d n) spec

(** val apply_mask :
    ops -> nat -> z -> z option -> z option -> spectrum -> spectrum **)

let apply_mask k d n low high s =
  map (fun p -> ((fst p),
    (if band_mask d n low high (fst p) then snd p else c0 k))) s

(** val apply_deriv :
    ops -> car -> car -> nat -> z -> nat -> nat -> spectrum -> spectrum **)

let apply_deriv k tau l d n d0 m s =
  map (fun p -> ((fst p),
    (cmul k (snd p) (cpow k (dop_axis k tau l d n d0 (fst p)) m)))) s

(** val agg_channel :
    ops -> (car -> car) -> nat -> z -> car -> spectrum -> car **)

let agg_channel k root d n l s =
  root
    (k.omul (vol k d n l)
      (fsum k
        (map (fun p ->
          k.odiv (cnorm2 k (snd p)) (scaling_recon k d n (fst p))) s)))

(** val fourier_agg :
    ops -> (car -> car) -> nat -> z -> car -> car -> z option -> z option ->
    nat option -> car cx list -> car **)

let fourier_agg k root d n l tau low high dord spec =
  let s = apply_mask k d n low high (with_idx k d n spec) in
  (match dord with
   | Some m ->
     fsum k
       (map (fun d0 ->
         agg_channel k root d n l (apply_deriv k tau l d n d0 m s)) (seq O d))
   | None -> agg_channel k root d n l s)

(** val fourier_norm :
    ops -> (car -> car) -> nat -> z -> car -> car -> z option -> z option ->
    nat option -> z -> car cx list list -> car cx list list option -> car
    option **)

let fourier_norm k root d n l tau low high dord mode u ref =
  norm_gen k (fourier_agg k root d n l tau low high dord) (ssub k)
    (combine_fourier k) (fourier_norm_raises (is_none ref) mode) mode u ref

(** val oadd2 : ops -> car option -> car option -> car option **)

let oadd2 k a b =
  match a with
  | Some x -> (match b with
               | Some y -> Some (k.oadd x y)
               | None -> None)
  | None -> None

(** val h1_norm :
    ops -> (car -> car) -> nat -> z -> car -> car -> z option -> z option ->
    z -> car cx list list -> car cx list list option -> car option **)

let h1_norm k root d n l tau low high mode u ref =
  oadd2 k (fourier_norm k root d n l tau low high None mode u ref)
    (fourier_norm k root d n l tau low high (Some (S O)) mode u ref)

(** val dot : ops -> car list -> car list -> car **)

let dot k u v =
  fsum k (map (fun p -> k.omul (fst p) (snd p)) (combine u v))

(** val corr2_channel : ops -> car list -> car list -> car **)

let corr2_channel k u v =
  k.odiv (sqr k (dot k u v)) (k.omul (sumsq k u) (sumsq k v))

(** val mean_metric : ops -> car list -> car **)

let mean_metric k vals =
  k.odiv (fsum k vals) (fz k (Z.of_nat (length vals)))

(** val idK : ops -> car -> car **)

let idK _ x =
  x

(** val optq : car option -> q list **)

let optq = function
| Some x -> { qnum = (Zpos XH); qden = XH } :: ((qcq (Obj.magic x)) :: [])
| None -> { qnum = Z0; qden = XH } :: []

(** val optz : q -> q -> z option **)

let optz flag v =
  if qb flag then Some (qz v) else None

(** val run_c16 : z -> q list -> q list **)

let run_c16 sub0 a =
  let idq = idK qcOps in
  (match sub0 with
   | Zpos p ->
     (match p with
      | XI p0 ->
        (match p0 with
         | XI _ -> []
         | XO p1 ->
           (match p1 with
            | XH -> (qcq (Obj.magic mean_metric qcOps (qcs a))) :: []
            | _ -> [])
         | XH ->
           let mode = qz (getq a O) in
           let d = qn (getq a (S O)) in
           let n = qz (getq a (S (S O))) in
           let l = qqc (getq a (S (S (S O)))) in
           let tau = qqc (getq a (S (S (S (S O))))) in
           let low =
             optz (getq a (S (S (S (S (S O))))))
               (getq a (S (S (S (S (S (S O)))))))
           in
           let high =
             optz (getq a (S (S (S (S (S (S (S O))))))))
               (getq a (S (S (S (S (S (S (S (S O)))))))))
           in
           let dord =
             if qb (getq a (S (S (S (S (S (S (S (S (S O))))))))))
             then Some (qn (getq a (S (S (S (S (S (S (S (S (S (S O))))))))))))
             else None
           in
           let has_ref =
             qb (getq a (S (S (S (S (S (S (S (S (S (S (S O))))))))))))
           in
           let c =
             qn (getq a (S (S (S (S (S (S (S (S (S (S (S (S O)))))))))))))
           in
           let m =
             qn (getq a (S (S (S (S (S (S (S (S (S (S (S (S (S O))))))))))))))
           in
           let vals =
             skipn (S (S (S (S (S (S (S (S (S (S (S (S (S (S O)))))))))))))) a
           in
           let u = chunks m c (take_cx vals) in
           let r = chunks m c (take_cx (skipn (mul (mul (S (S O)) c) m) vals))
           in
           let ref = if has_ref then Some r else None in
           optq
             (if Z.eqb sub0 (Zpos (XO XH))
              then fourier_norm qcOps idq d n (Obj.magic l) (Obj.magic tau)
                     low high dord mode (Obj.magic u) (Obj.magic ref)
              else h1_norm qcOps idq d n (Obj.magic l) (Obj.magic tau) low
                     high mode (Obj.magic u) (Obj.magic ref)))
      | XO p0 ->
        (match p0 with
         | XI p1 ->
           (match p1 with
            | XH ->
              let d = qn (getq a O) in
              let n = qz (getq a (S O)) in
              let low = optz (getq a (S (S O))) (getq a (S (S (S O)))) in
              let high =
                optz (getq a (S (S (S (S O))))) (getq a (S (S (S (S (S O))))))
              in
              let idx0 = zs (skipn (S (S (S (S (S (S O)))))) a) in
              (qcq (Obj.magic scaling_recon qcOps d n idx0)) :: ((bq
                                                                   (band_mask
                                                                    d n low
                                                                    high idx0)) :: [])
            | _ -> [])
         | XO p1 ->
           (match p1 with
            | XH ->
              let p2 = qn (getq a O) in
              let u = qcs (firstn p2 (skipn (S O) a)) in
              let v = qcs (skipn (add (S O) p2) a) in
              (qcq (Obj.magic corr2_channel qcOps u v)) :: ((qcq
                                                              (Obj.magic dot
                                                                qcOps u v)) :: [])
            | _ -> [])
         | XH ->
           let mode = qz (getq a O) in
           let d = qn (getq a (S O)) in
           let n = qz (getq a (S (S O))) in
           let l = qqc (getq a (S (S (S O)))) in
           let tau = qqc (getq a (S (S (S (S O))))) in
           let low =
             optz (getq a (S (S (S (S (S O))))))
               (getq a (S (S (S (S (S (S O)))))))
           in
           let high =
             optz (getq a (S (S (S (S (S (S (S O))))))))
               (getq a (S (S (S (S (S (S (S (S O)))))))))
           in
           let dord =
             if qb (getq a (S (S (S (S (S (S (S (S (S O))))))))))
             then Some (qn (getq a (S (S (S (S (S (S (S (S (S (S O))))))))))))
             else None
           in
           let has_ref =
             qb (getq a (S (S (S (S (S (S (S (S (S (S (S O))))))))))))
           in
           let c =
             qn (getq a (S (S (S (S (S (S (S (S (S (S (S (S O)))))))))))))
           in
           let m =
             qn (getq a (S (S (S (S (S (S (S (S (S (S (S (S (S O))))))))))))))
           in
           let vals =
             skipn (S (S (S (S (S (S (S (S (S (S (S (S (S (S O)))))))))))))) a
           in
           let u = chunks m c (take_cx vals) in
           let r = chunks m c (take_cx (skipn (mul (mul (S (S O)) c) m) vals))
           in
           let ref = if has_ref then Some r else None in
           optq
             (if Z.eqb sub0 (Zpos (XO XH))
              then fourier_norm qcOps idq d n (Obj.magic l) (Obj.magic tau)
                     low high dord mode (Obj.magic u) (Obj.magic ref)
              else h1_norm qcOps idq d n (Obj.magic l) (Obj.magic tau) low
                     high mode (Obj.magic u) (Obj.magic ref)))
      | XH ->
        let mode = qz (getq a O) in
        let d = qn (getq a (S O)) in
        let n = qz (getq a (S (S O))) in
        let l = qqc (getq a (S (S (S O)))) in
        let has_ref = qb (getq a (S (S (S (S O))))) in
        let c = qn (getq a (S (S (S (S (S O)))))) in
        let p0 = qn (getq a (S (S (S (S (S (S O))))))) in
        let vals = skipn (S (S (S (S (S (S (S O))))))) a in
        let u = chunks p0 c (qcs vals) in
        let r = chunks p0 c (qcs (skipn (mul c p0) vals)) in
        optq
          (spatial_norm qcOps idq d n (Obj.magic l) mode u
            (if has_ref then Some r else None)))
   | _ -> [])

(** val set0 : ops -> car list -> car list -> car list **)

let set0 _ l xs =
  match l with
  | [] -> []
  | _ :: r -> (match xs with
               | [] -> []
               | x :: _ -> x :: r)

(** val normalize_coefficients : ops -> car -> car -> car list -> car list **)

let normalize_coefficients k l dt coefficients =
  imap (fun i c -> k.odiv (k.omul c dt) (fzpow k l (Z.of_nat i))) coefficients

(** val denormalize_coefficients :
    ops -> car -> car -> car list -> car list **)

let denormalize_coefficients k l dt normalized_coefficients =
  imap (fun i c_n -> k.omul (k.odiv c_n dt) (fzpow k l (Z.of_nat i)))
    normalized_coefficients

(** val normalize_convection_scale : ops -> car -> car -> car -> car **)

let normalize_convection_scale k l dt convection_scale =
  k.odiv (k.omul convection_scale dt) l

(** val denormalize_convection_scale : ops -> car -> car -> car -> car **)

let denormalize_convection_scale k l dt normalized_convection_scale =
  k.omul (k.odiv normalized_convection_scale dt) l

(** val normalize_gradient_norm_scale : ops -> car -> car -> car -> car **)

let normalize_gradient_norm_scale k l dt gradient_norm_scale =
  k.odiv (k.omul gradient_norm_scale dt) (fpow k l (S (S O)))

(** val denormalize_gradient_norm_scale : ops -> car -> car -> car -> car **)

let denormalize_gradient_norm_scale k l dt normalized_gradient_norm_scale =
  k.omul (k.odiv normalized_gradient_norm_scale dt) (fpow k l (S (S O)))

(** val normalize_polynomial_scales :
    ops -> car -> car -> car list -> car list **)

let normalize_polynomial_scales k _ dt polynomial_scales =
  map (fun c -> k.omul c dt) polynomial_scales

(** val denormalize_polynomial_scales :
    ops -> car -> car -> car list -> car list **)

let denormalize_polynomial_scales k _ dt normalized_polynomial_scales =
  map (fun c_n -> k.odiv c_n dt) normalized_polynomial_scales

(** val reduce_normalized_coefficients_to_difficulty :
    ops -> car -> car -> car list -> car list **)

let reduce_normalized_coefficients_to_difficulty k d n normalized_coefficients =
  set0 k
    (imap (fun j alpha ->
      k.omul
        (k.omul (k.omul alpha (fzpow k n (Z.of_nat j)))
          (fzpow k (fz k (Zpos (XO XH))) (Z.sub (Z.of_nat j) (Zpos XH)))) d)
      normalized_coefficients) normalized_coefficients

(** val extract_normalized_coefficients_from_difficulty :
    ops -> car -> car -> car list -> car list **)

let extract_normalized_coefficients_from_difficulty k d n difficulty_coefficients =
  set0 k
    (imap (fun j gamma ->
      k.odiv gamma
        (k.omul
          (k.omul (fzpow k n (Z.of_nat j))
            (fzpow k (fz k (Zpos (XO XH))) (Z.sub (Z.of_nat j) (Zpos XH)))) d))
      difficulty_coefficients) difficulty_coefficients

(** val reduce_normalized_convection_scale_to_difficulty :
    ops -> car -> car -> car -> car -> car **)

let reduce_normalized_convection_scale_to_difficulty k d n m normalized_convection_scale =
  k.omul (k.omul (k.omul normalized_convection_scale m) n) d

(** val extract_normalized_convection_scale_from_difficulty :
    ops -> car -> car -> car -> car -> car **)

let extract_normalized_convection_scale_from_difficulty k d n m difficulty_convection_scale =
  k.odiv difficulty_convection_scale (k.omul (k.omul m n) d)

(** val reduce_normalized_gradient_norm_scale_to_difficulty :
    ops -> car -> car -> car -> car -> car **)

let reduce_normalized_gradient_norm_scale_to_difficulty k d n m normalized_gradient_norm_scale =
  k.omul
    (k.omul (k.omul normalized_gradient_norm_scale m) (fpow k n (S (S O)))) d

(** val extract_normalized_gradient_norm_scale_from_difficulty :
    ops -> car -> car -> car -> car -> car **)

let extract_normalized_gradient_norm_scale_from_difficulty k d n m difficulty_gradient_norm_scale =
  k.odiv difficulty_gradient_norm_scale
    (k.omul (k.omul m (fpow k n (S (S O)))) d)

(** val reduce_normalized_nonlinear_scales_to_difficulty :
    ops -> car -> car -> car -> car list -> car list **)

let reduce_normalized_nonlinear_scales_to_difficulty k d n m normalized_nonlinear_scales =
  (nth O normalized_nonlinear_scales k.o0) :: ((reduce_normalized_convection_scale_to_difficulty
                                                 k d n m
                                                 (nth (S O)
                                                   normalized_nonlinear_scales
                                                   k.o0)) :: ((reduce_normalized_gradient_norm_scale_to_difficulty
                                                                k d n m
                                                                (nth (S (S
                                                                  O))
                                                                  normalized_nonlinear_scales
                                                                  k.o0)) :: []))

(** val extract_normalized_nonlinear_scales_from_difficulty :
    ops -> car -> car -> car -> car list -> car list **)

let extract_normalized_nonlinear_scales_from_difficulty k d n m nonlinear_difficulties =
  (nth O nonlinear_difficulties k.o0) :: ((extract_normalized_convection_scale_from_difficulty
                                            k d n m
                                            (nth (S O) nonlinear_difficulties
                                              k.o0)) :: ((extract_normalized_gradient_norm_scale_from_difficulty
                                                           k d n m
                                                           (nth (S (S O))
                                                             nonlinear_difficulties
                                                             k.o0)) :: []))

(** val wave_mode :
    ops -> car -> car -> car -> car -> car -> car -> car -> bool -> car ->
    car -> car * car **)

let wave_mode k ii s c rho dt ep em is_dc h v =
  let g = if k.oeqb rho k.o0 then k.o1 else rho in
  let w = k.omul (k.omul (k.omul ii c) g) h in
  let pos = k.omul s (k.oadd w v) in
  let neg = k.omul s (k.osub w v) in
  let pos' = k.omul ep pos in
  let neg' = k.omul em neg in
  let w' = k.omul s (k.oadd pos' neg') in
  let v' = k.omul s (k.osub pos' neg') in
  let h' = k.odiv w' (k.omul (k.omul ii c) g) in
  ((if is_dc then k.oadd h' (k.omul dt v) else h'), v')

(** val deriv_mode : ops -> nat -> car list -> car -> car list **)

let deriv_mode k order d u =
  map (fun dc0 -> k.omul (fpow k dc0 order) u) d

(** val poisson_mode : ops -> car -> car -> car **)

let poisson_mode k lam f =
  k.oopp (k.omul (if k.oeqb lam k.o0 then k.o0 else k.odiv k.o1 lam) f)

(** val divm : ops -> car list -> car list -> car **)

let divm k d u =
  fsum k (map2 (fun dc0 uc -> k.omul dc0 uc) d u)

(** val lapm : ops -> car list -> car **)

let lapm k d =
  fsum k (map (fun dc0 -> k.omul dc0 dc0) d)

(** val leray_mode : ops -> car list -> car list -> car list **)

let leray_mode k d u =
  let inv = if k.oeqb (lapm k d) k.o0 then k.o0 else k.odiv k.o1 (lapm k d) in
  let p = k.oopp (k.omul inv (divm k d u)) in
  map2 (fun dc0 uc -> k.oadd uc (k.omul dc0 p)) d u

(** val make_incompressible_mode : ops -> car list -> car list -> car list **)

let make_incompressible_mode k d u =
  let inv = if k.oeqb (lapm k d) k.o0 then k.o1 else k.odiv k.o1 (lapm k d) in
  let p = k.omul inv (divm k d u) in
  map2 (fun dc0 uc -> k.osub uc (k.omul dc0 p)) d u

(** val ax_scale : ops -> z -> z -> bool -> car **)

let ax_scale k n kc last0 =
  if axis_plain n kc last0
  then fz k n
  else k.odiv (fz k n) (fz k (Zpos (XO XH)))

(** val injection2d : ops -> car -> car -> z -> z -> z list -> car **)

let injection2d k s gamma n kinj k0 =
  if (&&) (Z.eqb (nth O k0 Z0) Z0) (Z.eqb (nth (S O) k0 Z0) kinj)
  then k.omul (k.omul (k.oopp (k.omul s (fz k (nth (S O) k0 Z0)))) gamma)
         (k.omul (ax_scale k n (nth O k0 Z0) false)
           (ax_scale k n (nth (S O) k0 Z0) true))
  else k.o0

(** val sgn0 : ops -> z -> car **)

let sgn0 k = function
| Z0 -> k.o0
| Zpos _ -> k.o1
| Zneg _ -> k.oopp k.o1

(** val injection3d : ops -> car -> car -> z -> z -> nat -> z list -> car **)

let injection3d k ii gamma n kinj channel k0 =
  match channel with
  | O ->
    if (&&)
         ((&&) (Z.eqb (nth O k0 Z0) Z0)
           (Z.eqb (Z.abs (nth (S O) k0 Z0)) kinj))
         (Z.eqb (nth (S (S O)) k0 Z0) Z0)
    then k.omul
           (k.omul (k.omul (k.oopp ii) (sgn0 k (nth (S O) k0 Z0))) gamma)
           (k.omul
             (k.omul (ax_scale k n (nth O k0 Z0) false)
               (ax_scale k n (nth (S O) k0 Z0) false))
             (ax_scale k n (nth (S (S O)) k0 Z0) true))
    else k.o0
  | S _ -> k.o0

(** val in_bin : z -> z list -> bool **)

let in_bin b k =
  let n4 = Z.mul (Zpos (XO (XO XH))) (norm2 k) in
  (&&)
    ((||) (Z.leb (Z.sub (Z.mul (Zpos (XO XH)) b) (Zpos XH)) Z0)
      (Z.leb
        (Z.mul (Z.sub (Z.mul (Zpos (XO XH)) b) (Zpos XH))
          (Z.sub (Z.mul (Zpos (XO XH)) b) (Zpos XH))) n4))
    (Z.ltb n4
      (Z.mul (Z.add (Z.mul (Zpos (XO XH)) b) (Zpos XH))
        (Z.add (Z.mul (Zpos (XO XH)) b) (Zpos XH))))

(** val recon_scale : ops -> z -> car -> z list -> car **)

let recon_scale k n nD k0 =
  if axis_plain n (last k0 Z0) true
  then nD
  else k.odiv nD (fz k (Zpos (XO XH)))

(** val amplitude_q : ops -> z -> car -> z list -> car -> car **)

let amplitude_q k n nD k0 a =
  k.odiv a (recon_scale k n nD k0)

(** val power_q : ops -> z -> car -> z list -> car -> car **)

let power_q k n nD k0 a =
  k.omul
    (k.omul (k.odiv k.o1 (fz k (Zpos (XO XH))))
      (k.odiv a (recon_scale k n nD k0))) (k.odiv a nD)

(** val bin_sum : ops -> z -> (z list * car) list -> car **)

let bin_sum k b qs =
  fsum k (map (fun p -> if in_bin b (fst p) then snd p else k.o0) qs)

(** val bin_count : ops -> z -> (z list * car) list -> z **)

let bin_count _ b qs =
  fold_right Z.add Z0
    (map (fun p -> if in_bin b (fst p) then Zpos XH else Z0) qs)

(** val lead_copied : z -> z -> bool **)

let lead_copied nmin kc =
  (||) ((&&) (Z.leb Z0 kc) (Z.ltb kc (slice_left nmin)))
    ((&&) (Z.leb (Z.opp (Z.div nmin (Zpos (XO XH)))) kc) (Z.ltb kc Z0))

(** val last_copied : z -> z -> bool **)

let last_copied nmin kc =
  (&&) (Z.leb Z0 kc) (Z.leb kc (Z.div nmin (Zpos (XO XH))))

(** val vec_copied : z -> z list -> bool **)

let rec vec_copied nmin = function
| [] -> true
| kc :: r ->
  (match r with
   | [] -> last_copied nmin kc
   | _ :: _ -> (&&) (lead_copied nmin kc) (vec_copied nmin r))

(** val odd_ok : z -> z list -> bool **)

let odd_ok n k =
  if Z.even n
  then forallb (fun kc ->
         Z.leb (Z.abs kc) (Z.sub (Z.div n (Zpos (XO XH))) (Zpos XH))) k
  else true

(** val resample_keeps : z -> z -> bool -> z list -> bool **)

let resample_keeps n m oddball k =
  (&&)
    ((&&) (vec_copied (Z.min n m) k)
      (if (&&) ((&&) (Z.ltb n m) (Z.even n)) oddball then odd_ok n k else true))
    (if (&&) ((&&) (Z.ltb m n) (Z.even m)) oddball then odd_ok m k else true)

(** val aff : z -> z -> z -> z **)

let aff a b u =
  Z.add (Z.mul a u) b

(** val affx : z -> z -> z -> z **)

let affx a u x =
  Z.add (Z.mul a u) x

(** val pairf : (z * z) -> z * z **)

let pairf uv =
  ((Z.add (fst uv) (snd uv)),
    (Z.add (Z.mul (Zpos (XO XH)) (snd uv)) (Zpos XH)))

(** val run_c14 : z -> q list -> q list **)

let run_c14 sub0 a =
  match sub0 with
  | Zpos p ->
    (match p with
     | XI p0 ->
       (match p0 with
        | XI p1 ->
          (match p1 with
           | XH ->
             let m = qn (getq a O) in
             let l1 = qn (getq a (S O)) in
             let leaf1 = map qz (firstn l1 (skipn (S (S O)) a)) in
             let leaf2 = map qz (skipn (add (S (S O)) l1) a) in
             optl
               (option_map (fun ws ->
                 flat_map (fun w -> (nq (length w)) :: (map zq (concat w))) ws)
                 (stack_sub_tree (leaf1 :: (leaf2 :: [])) m))
           | _ -> [])
        | XO p1 ->
          (match p1 with
           | XH ->
             optl
               (option_map (fun ws ->
                 (nq (length ws)) :: (map zq (concat ws)))
                 (stack_sub (map qz (skipn (S O) a)) (qn (getq a O))))
           | _ -> [])
        | XH ->
          let n = qn (getq a O) in
          let ca = qb (getq a (S (S O))) in
          let aux = map qz (skipn (S (S (S (S (S O))))) a) in
          let arg = if ca then AuxConst (hd Z0 aux) else AuxSeq aux in
          optl
            (option_map (map zq)
              (rollout_aux (affx (qz (getq a (S (S (S O)))))) n
                (qb (getq a (S O))) ca (qz (getq a (S (S (S (S O)))))) arg)))
     | XO p0 ->
       (match p0 with
        | XI p1 ->
          (match p1 with
           | XH ->
             flat_map (fun uv -> (zq (fst uv)) :: ((zq (snd uv)) :: []))
               (rollout pairf (qn (getq a O)) (qb (getq a (S O)))
                 ((qz (getq a (S (S O)))), (qz (getq a (S (S (S O)))))))
           | _ -> [])
        | XO p1 ->
          (match p1 with
           | XH ->
             let n = qn (getq a O) in
             let ca = qb (getq a (S O)) in
             let aux = map qz (skipn (S (S (S (S O)))) a) in
             let arg = if ca then AuxConst (hd Z0 aux) else AuxSeq aux in
             optl
               (option_map (fun r -> (zq r) :: [])
                 (repeat_aux (affx (qz (getq a (S (S O))))) n ca
                   (qz (getq a (S (S (S O))))) arg))
           | _ -> [])
        | XH ->
          (zq
            (repeat_fn (aff (qz (getq a (S O))) (qz (getq a (S (S O)))))
              (qn (getq a O)) (qz (getq a (S (S (S O))))))) :: [])
     | XH ->
       map zq
         (rollout (aff (qz (getq a (S (S O)))) (qz (getq a (S (S (S O))))))
           (qn (getq a O)) (qb (getq a (S O)))
           (qz (getq a (S (S (S (S O))))))))
  | _ -> []

(** val sel_integrand : z -> z -> car -> car -> car -> car **)

let sel_integrand p j =
  match p with
  | Zpos p0 ->
    (match p0 with
     | XI p1 ->
       (match p1 with
        | XH ->
          (match j with
           | Zpos p2 ->
             (match p2 with
              | XI p3 ->
                (match p3 with
                 | XI _ -> (fun _ _ _ -> Obj.magic c0 qcOps)
                 | XO p4 ->
                   (match p4 with
                    | XH -> etdrk3_integrand_5 cQ
                    | _ -> (fun _ _ _ -> Obj.magic c0 qcOps))
                 | XH -> etdrk3_integrand_3 cQ)
              | XO p3 ->
                (match p3 with
                 | XI _ -> (fun _ _ _ -> Obj.magic c0 qcOps)
                 | XO p4 ->
                   (match p4 with
                    | XH -> etdrk3_integrand_4 cQ
                    | _ -> (fun _ _ _ -> Obj.magic c0 qcOps))
                 | XH -> etdrk3_integrand_2 cQ)
              | XH -> etdrk3_integrand_1 cQ)
           | _ -> (fun _ _ _ -> Obj.magic c0 qcOps))
        | _ -> (fun _ _ _ -> Obj.magic c0 qcOps))
     | XO p1 ->
       (match p1 with
        | XI _ -> (fun _ _ _ -> Obj.magic c0 qcOps)
        | XO p2 ->
          (match p2 with
           | XH ->
             (match j with
              | Zpos p3 ->
                (match p3 with
                 | XI p4 ->
                   (match p4 with
                    | XI _ -> (fun _ _ _ -> Obj.magic c0 qcOps)
                    | XO p5 ->
                      (match p5 with
                       | XH -> etdrk4_integrand_5 cQ
                       | _ -> (fun _ _ _ -> Obj.magic c0 qcOps))
                    | XH -> etdrk4_integrand_3 cQ)
                 | XO p4 ->
                   (match p4 with
                    | XI p5 ->
                      (match p5 with
                       | XH -> etdrk4_integrand_6 cQ
                       | _ -> (fun _ _ _ -> Obj.magic c0 qcOps))
                    | XO p5 ->
                      (match p5 with
                       | XH -> etdrk4_integrand_4 cQ
                       | _ -> (fun _ _ _ -> Obj.magic c0 qcOps))
                    | XH -> etdrk4_integrand_2 cQ)
                 | XH -> etdrk4_integrand_1 cQ)
              | _ -> (fun _ _ _ -> Obj.magic c0 qcOps))
           | _ -> (fun _ _ _ -> Obj.magic c0 qcOps))
        | XH ->
          (match j with
           | Zpos p2 ->
             (match p2 with
              | XI _ -> (fun _ _ _ -> Obj.magic c0 qcOps)
              | XO p3 ->
                (match p3 with
                 | XH -> etdrk2_integrand_2 cQ
                 | _ -> (fun _ _ _ -> Obj.magic c0 qcOps))
              | XH -> etdrk2_integrand_1 cQ)
           | _ -> (fun _ _ _ -> Obj.magic c0 qcOps)))
     | XH ->
       (match j with
        | Zpos p1 ->
          (match p1 with
           | XH -> etdrk1_integrand_1 cQ
           | _ -> (fun _ _ _ -> Obj.magic c0 qcOps))
        | _ -> (fun _ _ _ -> Obj.magic c0 qcOps)))
  | _ -> (fun _ _ _ -> Obj.magic c0 qcOps)

(** val triples : car list -> ((car * car) * car) list **)

let rec triples = function
| [] -> []
| a :: l0 ->
  (match l0 with
   | [] -> []
   | b :: l1 ->
     (match l1 with
      | [] -> []
      | c :: r -> ((a, b), c) :: (triples r)))

(** val contour_coef : z -> z -> car -> ((car * car) * car) list -> car **)

let contour_coef p j dt pts =
  let f = sel_integrand p j in
  let s = fsum cQ (map (fun t -> f (fst (fst t)) (snd (fst t)) (snd t)) pts)
  in
  cQ.omul dt (cQ.odiv s (cq_of_z (Z.of_nat (length pts))))

(** val test_nl : nat -> (nat -> car) -> nat -> car **)

let test_nl n u k =
  cQ.oadd (cQ.omul (u k) (u k)) (u (Nat.modulo (S k) n))

(** val run_c02 : z -> q list -> q list **)

let run_c02 sub0 a =
  match sub0 with
  | Zpos p ->
    (match p with
     | XI p0 ->
       (match p0 with
        | XH ->
          (match order_dispatch (qz (getq a O)) with
           | Some c -> (nq c) :: []
           | None -> { qnum = (Zneg XH); qden = XH } :: [])
        | _ -> [])
     | XO p0 ->
       (match p0 with
        | XH ->
          let p1 = qz (getq a O) in
          let n = qn (getq a (S O)) in
          let arrs =
            chunks n (S (S (S (S (S (S (S (S (S (S O))))))))))
              (take_cx (skipn (S (S O)) a))
          in
          let g = fun i -> vec (nth i arrs []) in
          let out =
            match p1 with
            | Z0 -> etdrk0_step cQ (g O) (g (S O))
            | Zpos p2 ->
              (match p2 with
               | XI p3 ->
                 (match p3 with
                  | XH ->
                    etdrk3_step cQ (g O) (g (S O)) (g (S (S O)))
                      (g (S (S (S O)))) (g (S (S (S (S O)))))
                      (g (S (S (S (S (S O)))))) (g (S (S (S (S (S (S O)))))))
                      (test_nl n) (g (S (S (S (S (S (S (S O))))))))
                  | _ -> (fun _ -> Obj.magic c0 qcOps))
               | XO p3 ->
                 (match p3 with
                  | XI _ -> (fun _ -> Obj.magic c0 qcOps)
                  | XO p4 ->
                    (match p4 with
                     | XH ->
                       etdrk4_step cQ (g O) (g (S O)) (g (S (S O)))
                         (g (S (S (S O)))) (g (S (S (S (S O)))))
                         (g (S (S (S (S (S O))))))
                         (g (S (S (S (S (S (S O)))))))
                         (g (S (S (S (S (S (S (S O)))))))) (test_nl n)
                         (g (S (S (S (S (S (S (S (S O)))))))))
                     | _ -> (fun _ -> Obj.magic c0 qcOps))
                  | XH ->
                    etdrk2_step cQ (g O) (g (S O)) (g (S (S O))) (test_nl n)
                      (g (S (S (S O)))))
               | XH ->
                 etdrk1_step cQ (g O) (g (S O)) (test_nl n) (g (S (S O))))
            | Zneg _ -> (fun _ -> Obj.magic c0 qcOps)
          in
          put_cx (map out (seq O n))
        | _ -> [])
     | XH ->
       let p0 = qz (getq a O) in
       let j = qz (getq a (S O)) in
       let dt = { re = (qqc (getq a (S (S O)))); im =
         (qqc (getq a (S (S (S O))))) }
       in
       put_cx
         ((contour_coef p0 j (Obj.magic dt)
            (triples (take_cx (skipn (S (S (S (S O)))) a)))) :: []))
  | _ -> []

(** val run_c20 : z -> q list -> q list **)

let run_c20 sub0 a =
  let z0 = fun i -> qz (getq a i) in
  let b = fun i -> qb (getq a i) in
  let r = fun x -> (bq x) :: [] in
  (match sub0 with
   | Zpos p ->
     (match p with
      | XI p0 ->
        (match p0 with
         | XI p1 ->
           (match p1 with
            | XI p2 ->
              (match p2 with
               | XH ->
                 r
                   (random_sine_raises (z0 O) (b (S O)) (b (S (S O)))
                     (b (S (S (S O)))))
               | _ -> [])
            | XO p2 ->
              (match p2 with
               | XH -> r (general_nonlin_raises (z0 O))
               | _ -> [])
            | XH ->
              r
                (ifft_raises (z0 O) (b (S O)) (b (S (S O)))
                  (zs (skipn (S (S (S O))) a))))
         | XO p1 ->
           (match p1 with
            | XI p2 ->
              (match p2 with
               | XH ->
                 let d = z0 (S O) in
                 r
                   (match z0 O with
                    | Z0 -> ns_vorticity_raises d
                    | Zpos p3 ->
                      (match p3 with
                       | XI p4 ->
                         (match p4 with
                          | XI _ -> projected_conv_raises d
                          | XO p5 ->
                            (match p5 with
                             | XH -> kolmogorov_velocity_raises d
                             | _ -> projected_conv_raises d)
                          | XH -> vorticity_conv_raises d)
                       | XO p4 ->
                         (match p4 with
                          | XI _ -> projected_conv_raises d
                          | XO p5 ->
                            (match p5 with
                             | XH -> ns_velocity_raises d
                             | _ -> projected_conv_raises d)
                          | XH -> general_vorticity_raises d)
                       | XH -> kolmogorov_vorticity_raises d)
                    | Zneg _ -> projected_conv_raises d)
               | _ -> [])
            | XO p2 ->
              (match p2 with
               | XH -> r (spatial_norm_raises (b O) (z0 (S O)))
               | _ -> [])
            | XH -> r (gip_raises (z0 O) (z0 (S O)) (zs (skipn (S (S O)) a))))
         | XH ->
           r (poisson_call_raises (z0 O) (z0 (S O)) (zs (skipn (S (S O)) a))))
      | XO p0 ->
        (match p0 with
         | XI p1 ->
           (match p1 with
            | XI p2 ->
              (match p2 with
               | XH ->
                 let d = z0 (S O) in
                 let sh = zs (skipn (S (S O)) a) in
                 r
                   (match z0 O with
                    | Z0 -> convection_cons_raises d sh
                    | Zpos p3 ->
                      (match p3 with
                       | XH -> convection_noncons_raises d sh
                       | _ -> gray_scott_raises sh)
                    | Zneg _ -> gray_scott_raises sh)
               | _ -> [])
            | XO p2 ->
              (match p2 with
               | XH -> r (fourier_norm_raises (b O) (z0 (S O)))
               | _ -> [])
            | XH -> r (make_incompressible_raises (zs a)))
         | XO p1 ->
           (match p1 with
            | XI p2 ->
              (match p2 with
               | XH -> r (general_nonlin_stepper_raises (z0 O))
               | _ -> [])
            | XO p2 ->
              (match p2 with
               | XI _ -> []
               | XO p3 ->
                 (match p3 with
                  | XH -> r (stack_sub_raises (z0 O) (zs (skipn (S O) a)))
                  | _ -> [])
               | XH -> r (ic_options_raise (b O) (b (S O)) (b (S (S O)))))
            | XH -> r (laplace_order_raises (z0 O)))
         | XH ->
           r
             (repeated_call_raises (z0 O) (z0 (S O)) (z0 (S (S O)))
               (zs (skipn (S (S (S O))) a))))
      | XH ->
        r
          (base_call_raises (z0 O) (z0 (S O)) (z0 (S (S O)))
            (zs (skipn (S (S (S O))) a))))
   | _ -> [])

(** val run_sym : q list -> q list **)

let run_sym a =
  let cls = qz (getq a O) in
  let d = qn (getq a (S O)) in
  let s = cr (getq a (S (S O))) in
  let k = map qz (firstn d (skipn (S (S (S O))) a)) in
  let p = skipn (add (S (S (S O))) d) a in
  let d0 = dop cQ ciQ s k in
  let g = fun i -> cr (getq p i) in
  let b = fun i -> qb (getq p i) in
  let rows = fun l -> map crs (chunks d d l) in
  put_cx
    ((match cls with
      | Zpos p0 ->
        (match p0 with
         | XI p1 ->
           (match p1 with
            | XI p2 ->
              (match p2 with
               | XI _ -> poly_sym cQ (crs p) d0
               | XO p3 ->
                 (match p3 with
                  | XH -> sym_fisher cQ (g O) (g (S O)) d0
                  | _ -> poly_sym cQ (crs p) d0)
               | XH ->
                 sym_kdv cQ (b O) (b (S O)) (g (S (S O))) (g (S (S (S O))))
                   (g (S (S (S (S O))))) d0)
            | XO p2 ->
              (match p2 with
               | XI p3 ->
                 (match p3 with
                  | XI _ -> poly_sym cQ (crs p) d0
                  | XO p4 ->
                    (match p4 with
                     | XH ->
                       gip_sym cQ (crs (skipn (S O) p)) (qn (getq p O)) d0
                     | _ -> poly_sym cQ (crs p) d0)
                  | XH ->
                    sym_gray_scott cQ (g O) (g (S O)) (qn (getq p (S (S O))))
                      d0)
               | XO p3 ->
                 (match p3 with
                  | XH -> sym_navier_stokes cQ (g O) (g (S O)) d0
                  | _ -> poly_sym cQ (crs p) d0)
               | XH -> sym_hyper_diffusion cQ (b O) (g (S O)) d0)
            | XH ->
              sym_advection_diffusion cQ (crs (firstn d p))
                (rows (skipn d p)) d0)
         | XO p1 ->
           (match p1 with
            | XI p2 ->
              (match p2 with
               | XI p3 ->
                 (match p3 with
                  | XH -> sym_swift_hohenberg cQ (g O) (g (S O)) d0
                  | _ -> poly_sym cQ (crs p) d0)
               | XO p3 ->
                 (match p3 with
                  | XH -> sym_allen_cahn cQ (g O) (g (S O)) d0
                  | _ -> poly_sym cQ (crs p) d0)
               | XH -> sym_burgers cQ (g O) d0)
            | XO p2 ->
              (match p2 with
               | XI p3 ->
                 (match p3 with
                  | XI _ -> poly_sym cQ (crs p) d0
                  | XO p4 ->
                    (match p4 with
                     | XH -> laplace_sym cQ (qn (getq p O)) d0
                     | _ -> poly_sym cQ (crs p) d0)
                  | XH ->
                    sym_cahn_hilliard cQ (g O) (g (S O)) (g (S (S O))) d0)
               | XO p3 ->
                 (match p3 with
                  | XH -> sym_ks cQ (g O) (g (S O)) d0
                  | _ -> poly_sym cQ (crs p) d0)
               | XH ->
                 sym_dispersion cQ (b O) (crs (firstn d (skipn (S O) p))) d0)
            | XH -> sym_diffusion cQ (rows p) d0)
         | XH -> sym_advection cQ (crs (firstn d p)) d0)
      | _ -> poly_sym cQ (crs p) d0) :: [])

(** val run_wave : q list -> q list **)

let run_wave a =
  let g = fun i -> cr (getq a i) in
  let cx0 = fun i -> { re = (qqc (getq a i)); im = (qqc (getq a (S i))) } in
  let r =
    wave_mode cQ ciQ (g O) (g (S O)) (g (S (S O))) (g (S (S (S O))))
      (Obj.magic cx0 (S (S (S (S O)))))
      (Obj.magic cx0 (S (S (S (S (S (S O)))))))
      (qb (getq a (S (S (S (S (S (S (S (S O))))))))))
      (Obj.magic cx0 (S (S (S (S (S (S (S (S (S O))))))))))
      (Obj.magic cx0 (S (S (S (S (S (S (S (S (S (S (S O))))))))))))
  in
  put_cx ((fst r) :: ((snd r) :: []))

(** val run_conv : q list -> q list **)

let run_conv a =
  let fid = qz (getq a O) in
  let x = qqc (getq a (S O)) in
  let y = qqc (getq a (S (S O))) in
  let z0 = qqc (getq a (S (S (S O)))) in
  let l2 = qcs (skipn (S (S (S O))) a) in
  let l3 = qcs (skipn (S (S (S (S O)))) a) in
  let s2 = qqc (getq a (S (S (S O)))) in
  let s3 = qqc (getq a (S (S (S (S O))))) in
  (match fid with
   | Zpos p ->
     (match p with
      | XI p0 ->
        (match p0 with
         | XI p1 ->
           (match p1 with
            | XI p2 ->
              (match p2 with
               | XH ->
                 unqcs
                   (reduce_normalized_nonlinear_scales_to_difficulty qcOps
                     (Obj.magic x) (Obj.magic y) (Obj.magic z0) l3)
               | _ -> [])
            | XO p2 ->
              (match p2 with
               | XH ->
                 (qcq
                   (Obj.magic
                     reduce_normalized_convection_scale_to_difficulty qcOps x
                     y z0 s3)) :: []
               | _ -> [])
            | XH ->
              unqcs
                (normalize_polynomial_scales qcOps (Obj.magic x)
                  (Obj.magic y) l2))
         | XO p1 ->
           (match p1 with
            | XI p2 ->
              (match p2 with
               | XH ->
                 (qcq
                   (Obj.magic
                     reduce_normalized_gradient_norm_scale_to_difficulty
                     qcOps x y z0 s3)) :: []
               | _ -> [])
            | XO p2 ->
              (match p2 with
               | XH ->
                 unqcs
                   (reduce_normalized_coefficients_to_difficulty qcOps
                     (Obj.magic x) (Obj.magic y) l2)
               | _ -> [])
            | XH ->
              (qcq (Obj.magic normalize_gradient_norm_scale qcOps x y s2)) :: [])
         | XH ->
           (qcq (Obj.magic normalize_convection_scale qcOps x y s2)) :: [])
      | XO p0 ->
        (match p0 with
         | XI p1 ->
           (match p1 with
            | XI p2 ->
              (match p2 with
               | XH ->
                 (qcq
                   (Obj.magic
                     extract_normalized_gradient_norm_scale_from_difficulty
                     qcOps x y z0 s3)) :: []
               | _ -> [])
            | XO p2 ->
              (match p2 with
               | XH ->
                 unqcs
                   (extract_normalized_coefficients_from_difficulty qcOps
                     (Obj.magic x) (Obj.magic y) l2)
               | _ -> [])
            | XH ->
              (qcq (Obj.magic denormalize_gradient_norm_scale qcOps x y s2)) :: [])
         | XO p1 ->
           (match p1 with
            | XI p2 ->
              (match p2 with
               | XH ->
                 (qcq
                   (Obj.magic
                     extract_normalized_convection_scale_from_difficulty
                     qcOps x y z0 s3)) :: []
               | _ -> [])
            | XO p2 ->
              (match p2 with
               | XI _ -> []
               | XO p3 ->
                 (match p3 with
                  | XH ->
                    unqcs
                      (extract_normalized_nonlinear_scales_from_difficulty
                        qcOps (Obj.magic x) (Obj.magic y) (Obj.magic z0) l3)
                  | _ -> [])
               | XH ->
                 unqcs
                   (denormalize_polynomial_scales qcOps (Obj.magic x)
                     (Obj.magic y) l2))
            | XH ->
              (qcq (Obj.magic denormalize_convection_scale qcOps x y s2)) :: [])
         | XH ->
           unqcs
             (denormalize_coefficients qcOps (Obj.magic x) (Obj.magic y) l2))
      | XH ->
        unqcs (normalize_coefficients qcOps (Obj.magic x) (Obj.magic y) l2))
   | _ -> [])

(** val run_c04 : z -> q list -> q list **)

let run_c04 sub0 a =
  let z0 = fun i -> qz (getq a i) in
  let b = fun i -> qb (getq a i) in
  let n = fun i -> qn (getq a i) in
  (match sub0 with
   | Zpos p ->
     (match p with
      | XI p0 ->
        (match p0 with
         | XI p1 ->
           (match p1 with
            | XH -> (zq (wrap_index (z0 O) (z0 (S O)))) :: []
            | _ -> [])
         | XO p1 ->
           (match p1 with
            | XI _ -> []
            | XO p2 ->
              (match p2 with
               | XH -> map zq (wavenumber_shape (n O) (z0 (S O)))
               | _ -> [])
            | XH ->
              let dd = mode_denoms (z0 (S (S O))) in
              (zq
                (scaling_halvings (n O) (z0 (S O)) (fst dd) (snd dd)
                  (zs (skipn (S (S (S O))) a)))) :: [])
         | XH ->
           (bq
             (if b O
              then low_pass_radial (n (S O)) (z0 (S (S O)))
                     (z0 (S (S (S O)))) (zs (skipn (S (S (S (S O)))) a))
              else low_pass_axis (n (S O)) (z0 (S (S O))) (z0 (S (S (S O))))
                     (zs (skipn (S (S (S (S O)))) a)))) :: [])
      | XO p0 ->
        (match p0 with
         | XI p1 ->
           (match p1 with
            | XI _ -> []
            | XO p2 ->
              (match p2 with
               | XH ->
                 (bq
                   (resample_keeps (z0 O) (z0 (S O)) (b (S (S O)))
                     (zs (skipn (S (S (S O))) a)))) :: []
               | _ -> [])
            | XH ->
              (bq
                (match z0 (S (S O)) with
                 | Z0 -> in_left (z0 O) (z0 (S O)) (z0 (S (S (S O))))
                 | Zpos p2 ->
                   (match p2 with
                    | XH -> in_right (z0 O) (z0 (S O)) (z0 (S (S (S O))))
                    | _ -> in_last (z0 O) (z0 (S O)) (z0 (S (S (S O)))))
                 | Zneg _ -> in_last (z0 O) (z0 (S O)) (z0 (S (S (S O)))))) :: [])
         | XO p1 ->
           (match p1 with
            | XI _ -> []
            | XO p2 ->
              (match p2 with
               | XH ->
                 (bq
                   (dealias_keeps (z0 O) (z0 (S O)) (z0 (S (S O)))
                     (z0 (S (S (S O)))))) :: ((zq
                                                (dealias_K (z0 O) (z0 (S O))
                                                  (z0 (S (S O))))) :: [])
               | _ -> [])
            | XH ->
              (bq (oddball_mask (n O) (z0 (S O)) (zs (skipn (S (S O)) a)))) :: [])
         | XH ->
           (zq (wn_axis_len (b O) (n (S O)) (z0 (S (S O))) (n (S (S (S O)))))) :: [])
      | XH ->
        (zq
          (wavenumber (b O) (n (S O)) (z0 (S (S O))) (n (S (S (S O))))
            (zs (skipn (S (S (S (S O)))) a)))) :: [])
   | _ -> [])

(** val run_term : q list -> q list **)

let run_term a =
  let term = qz (getq a O) in
  let d = qn (getq a (S O)) in
  let n = qz (getq a (S (S O))) in
  let kc = qz (getq a (S (S (S O)))) in
  let s = cr (getq a (S (S (S (S (S O)))))) in
  let np = qn (getq a (S (S (S (S (S (S O))))))) in
  let ps = firstn np (skipn (S (S (S (S (S (S (S O))))))) a) in
  let rest = skipn (add (S (S (S (S (S (S (S O))))))) np) a in
  let nch = qn (getq rest O) in
  let band = bandD d kc in
  let nb = length band in
  let chans =
    map (fun vs -> lookup (combine band vs))
      (chunks nb nch (take_cx (skipn (S O) rest)))
  in
  let g = fun i -> cr (getq ps i) in
  let m = msk cQ kc in
  let p2 = prod2 cQ d n kc in
  let p3 = prod3 cQ d n kc in
  let nD = fpow cQ (cq_of_z n) d in
  let ch = fun i -> nth i chans (fzero cQ) in
  let outs =
    match term with
    | Z0 -> []
    | Zpos p ->
      (match p with
       | XI p0 ->
         (match p0 with
          | XI p1 ->
            (match p1 with
             | XI _ -> []
             | XO p4 ->
               (match p4 with
                | XI _ -> []
                | XO _ -> []
                | XH ->
                  gray_scott cQ m p3 nD (g O) (g (S O)) (ch O) (ch (S O)))
             | XH ->
               (general_nonlinear cQ m p2 p3 ciQ s d nD (g O) (g (S O))
                 (g (S (S O))) (qb (getq ps (S (S (S O))))) (ch O)) :: [])
          | XO p1 ->
            (match p1 with
             | XI _ -> []
             | XO p4 ->
               (match p4 with
                | XH -> projected_conv cQ p2 ciQ s d chans
                | _ -> [])
             | XH ->
               (gradient_norm cQ p2 ciQ s d (g O) (qb (getq ps (S O))) (ch O)) :: [])
          | XH -> (conv_sc_cons cQ p2 ciQ s d (g O) (ch O)) :: [])
       | XO p0 ->
         (match p0 with
          | XI p1 ->
            (match p1 with
             | XI _ -> []
             | XO p4 ->
               (match p4 with
                | XH -> (cahn_hilliard cQ p3 ciQ s d (g O) (ch O)) :: []
                | _ -> [])
             | XH ->
               (polynomial cQ m p2 p3 nD (g O) (g (S O)) (g (S (S O)))
                 (g (S (S (S O)))) (ch O)) :: [])
          | XO p1 ->
            (match p1 with
             | XI p4 -> (match p4 with
                         | XH -> leray cQ ciQ s d chans
                         | _ -> [])
             | XO p4 ->
               (match p4 with
                | XH -> (vorticity_conv cQ p2 ciQ s d (g O) (ch O)) :: []
                | _ -> [])
             | XH -> (conv_sc_noncons cQ p2 ciQ s d (g O) (ch O)) :: [])
          | XH -> conv_mc_noncons cQ p2 ciQ s d (g O) chans)
       | XH -> conv_mc_cons cQ p2 ciQ s d (g O) chans)
    | Zneg _ -> []
  in
  put_cx (flat_map (fun f -> map f band) outs)

(** val run_ops : z -> q list -> q list **)

let run_ops sub0 a =
  let cxa = fun i -> { re = (qqc (getq a i)); im = (qqc (getq a (S i))) } in
  (match sub0 with
   | Zpos p ->
     (match p with
      | XI p0 ->
        (match p0 with
         | XH ->
           let d = qn (getq a (S O)) in
           let d0 =
             dop cQ ciQ (cr (getq a (S (S O))))
               (map qz (firstn d (skipn (S (S (S O))) a)))
           in
           put_cx
             (deriv_mode cQ (qn (getq a O)) d0
               (Obj.magic cxa (add (S (S (S O))) d)))
         | _ -> [])
      | XO p0 ->
        (match p0 with
         | XH ->
           let d = qn (getq a (S O)) in
           let d0 =
             dop cQ ciQ (cr (getq a (S (S O))))
               (map qz (firstn d (skipn (S (S (S O))) a)))
           in
           let u = take_cx (skipn (add (S (S (S O))) d) a) in
           put_cx
             (if qb (getq a O)
              then make_incompressible_mode cQ d0 u
              else leray_mode cQ d0 u)
         | _ -> [])
      | XH ->
        put_cx
          ((poisson_mode cQ (Obj.magic cxa O) (Obj.magic cxa (S (S O)))) :: []))
   | _ -> [])

(** val run_c12 : z -> q list -> q list **)

let run_c12 sub0 a =
  match sub0 with
  | Zpos p ->
    (match p with
     | XI _ -> []
     | XO p0 ->
       (match p0 with
        | XH ->
          put_cx
            ((injection3d cQ ciQ (cr (getq a O)) (qz (getq a (S O)))
               (qz (getq a (S (S O)))) (qn (getq a (S (S (S O)))))
               (zs (skipn (S (S (S (S O)))) a))) :: [])
        | _ -> [])
     | XH ->
       put_cx
         ((injection2d cQ (cr (getq a O)) (cr (getq a (S O)))
            (qz (getq a (S (S O)))) (qz (getq a (S (S (S O)))))
            (zs (skipn (S (S (S (S O)))) a))) :: []))
  | _ -> []

(** val take_modes : nat -> nat -> q list -> (z list * car) list **)

let rec take_modes d n l =
  match n with
  | O -> []
  | S m ->
    ((map qz (firstn d l)),
      (Obj.magic qqc (nth d l { qnum = Z0; qden = XH }))) :: (take_modes d m
                                                               (skipn (S d) l))

(** val run_c17 : z -> q list -> q list **)

let run_c17 sub0 a =
  match sub0 with
  | Zpos p ->
    (match p with
     | XI _ -> []
     | XO p0 ->
       (match p0 with
        | XH -> (bq (in_bin (qz (getq a O)) (zs (skipn (S O) a)))) :: []
        | _ -> [])
     | XH ->
       let d = qn (getq a O) in
       let n = qz (getq a (S O)) in
       let power = qb (getq a (S (S O))) in
       let avg = qb (getq a (S (S (S O)))) in
       let nm = qn (getq a (S (S (S (S O))))) in
       let modes = take_modes d nm (skipn (S (S (S (S (S O))))) a) in
       let nD = fpow qcOps (Obj.magic qqc (zq n)) d in
       let qs =
         map (fun p0 -> ((fst p0),
           (if power
            then power_q qcOps n nD (fst p0) (snd p0)
            else amplitude_q qcOps n nD (fst p0) (snd p0)))) modes
       in
       if Nat.eqb d (S O)
       then map (fun p0 -> qcq (snd (Obj.magic p0))) qs
       else flat_map (fun b ->
              let c = bin_count qcOps b qs in
              (zq c) :: ((qcq
                           (if avg
                            then if Z.eqb c Z0
                                 then q2Qc { qnum = Z0; qden = XH }
                                 else qcdiv (Obj.magic bin_sum qcOps b qs)
                                        (qqc (zq c))
                            else Obj.magic bin_sum qcOps b qs)) :: []))
              (map Z.of_nat
                (seq O (add (Z.to_nat (Z.div n (Zpos (XO XH)))) (S O)))))
  | _ -> []

(** val run : z -> q list -> q list **)

let run id a =
  let (prop, sub0) = Z.div_eucl id (Zpos (XO (XO (XI (XO (XO (XI XH))))))) in
  (match prop with
   | Zpos p ->
     (match p with
      | XI p0 ->
        (match p0 with
         | XI p1 ->
           (match p1 with
            | XI _ -> []
            | XO p2 ->
              (match p2 with
               | XO p3 -> (match p3 with
                           | XH -> run_c19 sub0 a
                           | _ -> [])
               | _ -> [])
            | XH -> run_c07 sub0 a)
         | XO p1 ->
           (match p1 with
            | XI p2 ->
              (match p2 with
               | XH ->
                 (match sub0 with
                  | Zpos p3 -> (match p3 with
                                | XH -> run_conv a
                                | _ -> [])
                  | _ -> [])
               | _ -> [])
            | XO p2 ->
              (match p2 with
               | XO p3 -> (match p3 with
                           | XH -> run_c17 sub0 a
                           | _ -> [])
               | _ -> [])
            | XH -> run_ops sub0 a)
         | XH ->
           (match sub0 with
            | Zpos p1 -> (match p1 with
                          | XH -> run_term a
                          | _ -> [])
            | _ -> []))
      | XO p0 ->
        (match p0 with
         | XI p1 ->
           (match p1 with
            | XI p2 -> (match p2 with
                        | XH -> run_c14 sub0 a
                        | _ -> [])
            | XO p2 ->
              (match p2 with
               | XO p3 -> (match p3 with
                           | XH -> run_c18 sub0 a
                           | _ -> [])
               | _ -> [])
            | XH -> run_c06 sub0 a)
         | XO p1 ->
           (match p1 with
            | XI p2 ->
              (match p2 with
               | XI _ -> []
               | XO p3 -> (match p3 with
                           | XH -> run_c20 sub0 a
                           | _ -> [])
               | XH -> run_c12 sub0 a)
            | XO p2 ->
              (match p2 with
               | XO p3 -> (match p3 with
                           | XH -> run_c16 sub0 a
                           | _ -> [])
               | _ -> [])
            | XH -> run_c04 sub0 a)
         | XH -> run_c02 sub0 a)
      | XH ->
        (match sub0 with
         | Zpos p0 ->
           (match p0 with
            | XI _ -> []
            | XO p1 -> (match p1 with
                        | XH -> run_wave a
                        | _ -> [])
            | XH -> run_sym a)
         | _ -> []))
   | _ -> [])
