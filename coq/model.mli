
type __ = Obj.t

val negb : bool -> bool

type nat =
| O
| S of nat

val option_map : ('a1 -> 'a2) -> 'a1 option -> 'a2 option

val fst : ('a1 * 'a2) -> 'a1

val snd : ('a1 * 'a2) -> 'a2

val length : 'a1 list -> nat

val app : 'a1 list -> 'a1 list -> 'a1 list

type comparison =
| Eq
| Lt
| Gt

val compOpp : comparison -> comparison

val add : nat -> nat -> nat

val mul : nat -> nat -> nat

val sub : nat -> nat -> nat

type positive =
| XI of positive
| XO of positive
| XH

type z =
| Z0
| Zpos of positive
| Zneg of positive

module Nat :
 sig
  val sub : nat -> nat -> nat

  val eqb : nat -> nat -> bool

  val leb : nat -> nat -> bool

  val ltb : nat -> nat -> bool

  val min : nat -> nat -> nat

  val divmod : nat -> nat -> nat -> nat -> nat * nat

  val modulo : nat -> nat -> nat
 end

module Pos :
 sig
  type mask =
  | IsNul
  | IsPos of positive
  | IsNeg
 end

module Coq_Pos :
 sig
  val succ : positive -> positive

  val add : positive -> positive -> positive

  val add_carry : positive -> positive -> positive

  val pred_double : positive -> positive

  type mask = Pos.mask =
  | IsNul
  | IsPos of positive
  | IsNeg

  val succ_double_mask : mask -> mask

  val double_mask : mask -> mask

  val double_pred_mask : positive -> mask

  val sub_mask : positive -> positive -> mask

  val sub_mask_carry : positive -> positive -> mask

  val sub : positive -> positive -> positive

  val mul : positive -> positive -> positive

  val size_nat : positive -> nat

  val compare_cont : comparison -> positive -> positive -> comparison

  val compare : positive -> positive -> comparison

  val eqb : positive -> positive -> bool

  val ggcdn : nat -> positive -> positive -> positive * (positive * positive)

  val ggcd : positive -> positive -> positive * (positive * positive)

  val iter_op : ('a1 -> 'a1 -> 'a1) -> positive -> 'a1 -> 'a1

  val to_nat : positive -> nat

  val of_succ_nat : nat -> positive

  val eq_dec : positive -> positive -> bool
 end

module Z :
 sig
  val double : z -> z

  val succ_double : z -> z

  val pred_double : z -> z

  val pos_sub : positive -> positive -> z

  val add : z -> z -> z

  val opp : z -> z

  val sub : z -> z -> z

  val mul : z -> z -> z

  val compare : z -> z -> comparison

  val sgn : z -> z

  val leb : z -> z -> bool

  val ltb : z -> z -> bool

  val geb : z -> z -> bool

  val gtb : z -> z -> bool

  val eqb : z -> z -> bool

  val max : z -> z -> z

  val min : z -> z -> z

  val abs : z -> z

  val to_nat : z -> nat

  val of_nat : nat -> z

  val to_pos : z -> positive

  val pos_div_eucl : positive -> z -> z * z

  val div_eucl : z -> z -> z * z

  val div : z -> z -> z

  val modulo : z -> z -> z

  val even : z -> bool

  val odd : z -> bool

  val ggcd : z -> z -> z * (z * z)

  val eq_dec : z -> z -> bool
 end

val hd : 'a1 -> 'a1 list -> 'a1

val nth : nat -> 'a1 list -> 'a1 -> 'a1

val last : 'a1 list -> 'a1 -> 'a1

val concat : 'a1 list list -> 'a1 list

val map : ('a1 -> 'a2) -> 'a1 list -> 'a2 list

val flat_map : ('a1 -> 'a2 list) -> 'a1 list -> 'a2 list

val fold_left : ('a1 -> 'a2 -> 'a1) -> 'a2 list -> 'a1 -> 'a1

val fold_right : ('a2 -> 'a1 -> 'a1) -> 'a1 -> 'a2 list -> 'a1

val forallb : ('a1 -> bool) -> 'a1 list -> bool

val combine : 'a1 list -> 'a2 list -> ('a1 * 'a2) list

val firstn : nat -> 'a1 list -> 'a1 list

val skipn : nat -> 'a1 list -> 'a1 list

val seq : nat -> nat -> nat list

val repeat : 'a1 -> nat -> 'a1 list

type q = { qnum : z; qden : positive }

val qeq_dec : q -> q -> bool

val qle_bool : q -> q -> bool

val qplus : q -> q -> q

val qmult : q -> q -> q

val qopp : q -> q

val qinv : q -> q

val qred : q -> q

type qc = q
  (* singleton inductive, whose constructor was Qcmake *)

val this : qc -> q

val q2Qc : q -> qc

val qc_eq_dec : qc -> qc -> bool

val qcplus : qc -> qc -> qc

val qcmult : qc -> qc -> qc

val qcopp : qc -> qc

val qcminus : qc -> qc -> qc

val qcinv : qc -> qc

val qcdiv : qc -> qc -> qc

val qc_eq_bool : qc -> qc -> bool

type ops = { o0 : __; o1 : __; oadd : (__ -> __ -> __);
             omul : (__ -> __ -> __); osub : (__ -> __ -> __);
             oopp : (__ -> __); odiv : (__ -> __ -> __); oinv : (__ -> __);
             oeqb : (__ -> __ -> bool) }

type car = __

val fpos : ops -> positive -> car

val fz : ops -> z -> car

val fq : ops -> q -> car

val fpow : ops -> car -> nat -> car

val fzpow : ops -> car -> z -> car

val two : ops -> car

val fsum : ops -> car list -> car

val fprod : ops -> car list -> car

val qcOps : ops

type 'k cx = { re : 'k; im : 'k }

val c0 : ops -> car cx

val c1 : ops -> car cx

val ci : ops -> car cx

val cadd : ops -> car cx -> car cx -> car cx

val csub : ops -> car cx -> car cx -> car cx

val copp : ops -> car cx -> car cx

val cmul : ops -> car cx -> car cx -> car cx

val cnorm2 : ops -> car cx -> car

val cinv : ops -> car cx -> car cx

val cdiv : ops -> car cx -> car cx -> car cx

val ceqb : ops -> car cx -> car cx -> bool

val cOps : ops -> ops

val qz : q -> z

val zq : z -> q

val qn : q -> nat

val nq : nat -> q

val qb : q -> bool

val bq : bool -> q

val qqc : q -> qc

val qcq : qc -> q

val cQ : ops

val take_cx : q list -> car list

val put_cx : car list -> q list

val getq : q list -> nat -> q

val optl : q list option -> q list

val cq_of_z : z -> car

val vec : car list -> nat -> car

val chunks : nat -> nat -> 'a1 list -> 'a1 list list

val zs : q list -> z list

val cr : q -> car

val crs : q list -> car list

val ciQ : car

val qcs : q list -> car list

val unqcs : car list -> q list

val idx_eqb : z list -> z list -> bool

val lookup : (z list * car) list -> z list -> car

val root_arg : ops -> car -> car -> car -> car -> car

val etdrk1_integrand_1 : ops -> car -> car -> car -> car

val etdrk1_step :
  ops -> ('a1 -> car) -> ('a1 -> car) -> (('a1 -> car) -> 'a1 -> car) -> ('a1
  -> car) -> 'a1 -> car

val etdrk2_integrand_1 : ops -> car -> car -> car -> car

val etdrk2_integrand_2 : ops -> car -> car -> car -> car

val etdrk2_step :
  ops -> ('a1 -> car) -> ('a1 -> car) -> ('a1 -> car) -> (('a1 -> car) -> 'a1
  -> car) -> ('a1 -> car) -> 'a1 -> car

val etdrk3_integrand_1 : ops -> car -> car -> car -> car

val etdrk3_integrand_2 : ops -> car -> car -> car -> car

val etdrk3_integrand_3 : ops -> car -> car -> car -> car

val etdrk3_integrand_4 : ops -> car -> car -> car -> car

val etdrk3_integrand_5 : ops -> car -> car -> car -> car

val etdrk3_step :
  ops -> ('a1 -> car) -> ('a1 -> car) -> ('a1 -> car) -> ('a1 -> car) -> ('a1
  -> car) -> ('a1 -> car) -> ('a1 -> car) -> (('a1 -> car) -> 'a1 -> car) ->
  ('a1 -> car) -> 'a1 -> car

val etdrk4_integrand_1 : ops -> car -> car -> car -> car

val etdrk4_integrand_2 : ops -> car -> car -> car -> car

val etdrk4_integrand_3 : ops -> car -> car -> car -> car

val etdrk4_integrand_4 : ops -> car -> car -> car -> car

val etdrk4_integrand_5 : ops -> car -> car -> car -> car

val etdrk4_integrand_6 : ops -> car -> car -> car -> car

val etdrk4_step :
  ops -> ('a1 -> car) -> ('a1 -> car) -> ('a1 -> car) -> ('a1 -> car) -> ('a1
  -> car) -> ('a1 -> car) -> ('a1 -> car) -> ('a1 -> car) -> (('a1 -> car) ->
  'a1 -> car) -> ('a1 -> car) -> 'a1 -> car

val etdrk0_step : ops -> ('a1 -> car) -> ('a1 -> car) -> 'a1 -> car

val order_dispatch : z -> nat option

val lift1 : ops -> (car -> car) -> car option -> car option

val lift2 :
  ops -> (car -> car -> car) -> car option -> car option -> car option

val odiv_opt : ops -> car option -> car option -> car option

val oinv_opt : ops -> car option -> car option

val oeqb_opt : ops -> car option -> car option -> bool

val optOps : ops -> ops

val num_e1 : ops -> car -> car -> car

val num_e2 : ops -> car -> car -> car

val num_a3 : ops -> car -> car -> car

val num_b3 : ops -> car -> car -> car

val num_c3 : ops -> car -> car -> car

val inv_pow : ops -> car -> nat -> car

val fst_a : ops -> ('a1 -> car) -> ('a1 -> car) -> 'a1 -> car

val fst_b3 :
  ops -> ('a1 -> car) -> ('a1 -> car) -> ('a1 -> car) -> (('a1 -> car) -> 'a1
  -> car) -> 'a1 -> car

val fst_b4 :
  ops -> ('a1 -> car) -> ('a1 -> car) -> ('a1 -> car) -> (('a1 -> car) -> 'a1
  -> car) -> 'a1 -> car

val fst_c4 :
  ops -> ('a1 -> car) -> ('a1 -> car) -> ('a1 -> car) -> ('a1 -> car) -> ('a1
  -> car) -> (('a1 -> car) -> 'a1 -> car) -> 'a1 -> car

val forced1 : ops -> ('a1 -> car) -> ('a1 -> car) -> 'a1 -> car

val forced2 :
  ops -> ('a1 -> car) -> ('a1 -> car) -> ('a1 -> car) -> (('a1 -> car) -> 'a1
  -> car) -> 'a1 -> car

val forced3 :
  ops -> ('a1 -> car) -> ('a1 -> car) -> ('a1 -> car) -> ('a1 -> car) -> ('a1
  -> car) -> ('a1 -> car) -> (('a1 -> car) -> 'a1 -> car) -> 'a1 -> car

val forced4 :
  ops -> ('a1 -> car) -> ('a1 -> car) -> ('a1 -> car) -> ('a1 -> car) -> ('a1
  -> car) -> ('a1 -> car) -> ('a1 -> car) -> ('a1 -> car) -> (('a1 -> car) ->
  'a1 -> car) -> 'a1 -> car

val all_integrands : ops -> (car -> car -> car -> car) list

val num_form : z -> z -> car -> car -> car -> car * nat

val integrand_index : z -> z -> nat

val test_nl_f : nat -> (nat -> car) -> (nat -> car) -> nat -> car

val run_c19 : z -> q list -> q list

type 'k dual = { val0 : 'k; eps : 'k }

val dzero : ops -> car dual

val dunit : ops -> car dual

val dadd : ops -> car dual -> car dual -> car dual

val dsub : ops -> car dual -> car dual -> car dual

val dopp : ops -> car dual -> car dual

val dmul : ops -> car dual -> car dual -> car dual

val dinv : ops -> car dual -> car dual

val ddiv : ops -> car dual -> car dual -> car dual

val deqb : ops -> car dual -> car dual -> bool

val dualOps : ops -> ops

val dconst : ops -> car -> car dual

val map2 : ('a1 -> 'a2 -> 'a3) -> 'a1 list -> 'a2 list -> 'a3 list

val imap_from : nat -> (nat -> 'a1 -> 'a2) -> 'a1 list -> 'a2 list

val imap : (nat -> 'a1 -> 'a2) -> 'a1 list -> 'a2 list

val dop : ops -> car -> car -> z list -> car list

val laplace_sym : ops -> nat -> car list -> car

val gip_sym : ops -> car list -> nat -> car list -> car

val poly_sym : ops -> car list -> car list -> car

val sym_advection : ops -> car list -> car list -> car

val quad_form : ops -> car list list -> car list -> car

val sym_diffusion : ops -> car list list -> car list -> car

val sym_advection_diffusion :
  ops -> car list -> car list list -> car list -> car

val sym_dispersion : ops -> bool -> car list -> car list -> car

val sym_hyper_diffusion : ops -> bool -> car -> car list -> car

val sym_burgers : ops -> car -> car list -> car

val ones : ops -> car list -> car list

val sym_kdv : ops -> bool -> bool -> car -> car -> car -> car list -> car

val sym_ks : ops -> car -> car -> car list -> car

val sym_navier_stokes : ops -> car -> car -> car list -> car

val sym_allen_cahn : ops -> car -> car -> car list -> car

val sym_fisher : ops -> car -> car -> car list -> car

val sym_cahn_hilliard : ops -> car -> car -> car -> car list -> car

val sym_gray_scott : ops -> car -> car -> nat -> car list -> car

val sym_swift_hohenberg : ops -> car -> car -> car list -> car

val fftfreq : z -> z -> z

val rfftfreq : z -> z -> z

val mesh_axis : bool -> nat -> nat -> nat

val rfft_component : bool -> nat -> nat

val wn_1d : bool -> nat -> z -> nat -> z -> z

val wavenumber : bool -> nat -> z -> nat -> z list -> z

val wn_axis_len : bool -> nat -> z -> nat -> z

val wavenumber_shape : nat -> z -> z list

val wn : nat -> z -> nat -> z list -> z

val wnvec : nat -> z -> z list -> z list

val low_pass_axis : nat -> z -> z -> z list -> bool

val norm2 : z list -> z

val low_pass_radial : nat -> z -> z -> z list -> bool

val oddball_mask : nat -> z -> z list -> bool

val axis_plain : z -> z -> bool -> bool

val scaling_halvings : nat -> z -> z -> z -> z list -> z

val mode_denoms : z -> z * z

val slice_left : z -> z

val slice_right : z -> z

val in_left : z -> z -> z -> bool

val in_right : z -> z -> z -> bool

val in_last : z -> z -> z -> bool

val wrap_index : z -> z -> z

val dealias_keeps : z -> z -> z -> z -> bool

val dealias_K : z -> z -> z -> z

type idx = z list

val wrap1 : z -> z -> z

val wrapD : z -> idx -> idx

val in_band : z -> idx -> bool

val subi : idx -> idx -> idx

val zrange_from : z -> nat -> z list

val zrange : z -> z -> z list

val bandD : nat -> z -> idx list

val is_zero : idx -> bool

type field = idx -> car

val msk : ops -> z -> field -> field

val cconv2 : ops -> nat -> z -> z -> field -> field -> field

val cconv3 : ops -> nat -> z -> z -> field -> field -> field -> field

val nfac : ops -> nat -> z -> car

val prod2 : ops -> nat -> z -> z -> field -> field -> field

val prod3 : ops -> nat -> z -> z -> field -> field -> field -> field

val dc : ops -> car -> car -> nat -> field

val fmulp : ops -> field -> field -> field

val fscal : ops -> car -> field -> field

val fadd : ops -> field -> field -> field

val fzero : ops -> field

val fsumf : ops -> field list -> field

val axes : nat -> nat list

val half : ops -> car

val lap : ops -> car -> car -> nat -> field

val delta0 : ops -> field

val conv_mc_cons :
  ops -> (field -> field -> field) -> car -> car -> nat -> car -> field list
  -> field list

val conv_mc_noncons :
  ops -> (field -> field -> field) -> car -> car -> nat -> car -> field list
  -> field list

val conv_sc_cons :
  ops -> (field -> field -> field) -> car -> car -> nat -> car -> field ->
  field

val conv_sc_noncons :
  ops -> (field -> field -> field) -> car -> car -> nat -> car -> field ->
  field

val gradient_norm :
  ops -> (field -> field -> field) -> car -> car -> nat -> car -> bool ->
  field -> field

val polynomial :
  ops -> (field -> field) -> (field -> field -> field) -> (field -> field ->
  field -> field) -> car -> car -> car -> car -> car -> field -> field

val general_nonlinear :
  ops -> (field -> field) -> (field -> field -> field) -> (field -> field ->
  field -> field) -> car -> car -> nat -> car -> car -> car -> car -> bool ->
  field -> field

val inv_lap_one : ops -> car -> car -> nat -> field

val vorticity_conv :
  ops -> (field -> field -> field) -> car -> car -> nat -> car -> field ->
  field

val inv_lap_zero : ops -> car -> car -> nat -> field

val leray : ops -> car -> car -> nat -> field list -> field list

val cross :
  ops -> (field -> field -> field) -> field list -> field list -> field list

val curl : ops -> car -> car -> field list -> field list

val projected_conv :
  ops -> (field -> field -> field) -> car -> car -> nat -> field list ->
  field list

val cahn_hilliard :
  ops -> (field -> field -> field -> field) -> car -> car -> nat -> car ->
  field -> field

val gray_scott :
  ops -> (field -> field) -> (field -> field -> field -> field) -> car -> car
  -> car -> field -> field -> field list

val dCQ : ops

val dcr : q -> q -> car

val dk : car -> car

val put_dual : car list -> q list

val take_dual : car list -> car list -> car list

val lookupD : (z list * car) list -> z list -> car

val run_dsym : q list -> q list

val run_dterm : q list -> q list

val run_c07 : z -> q list -> q list

val scan : ('a1 -> 'a2 -> 'a1 * 'a3) -> 'a1 -> 'a2 list -> 'a1 * 'a3 list

val rollout : ('a1 -> 'a1) -> nat -> bool -> 'a1 -> 'a1 list

val repeat_fn : ('a1 -> 'a1) -> nat -> 'a1 -> 'a1

type 'x auxarg =
| AuxConst of 'x
| AuxSeq of 'x list

val aux_seq : nat -> bool -> 'a1 auxarg -> 'a1 list option

val rollout_aux :
  ('a1 -> 'a2 -> 'a1) -> nat -> bool -> bool -> 'a1 -> 'a2 auxarg -> 'a1 list
  option

val repeat_aux :
  ('a1 -> 'a2 -> 'a1) -> nat -> bool -> 'a1 -> 'a2 auxarg -> 'a1 option

val dynamic_slice : 'a1 list -> nat -> nat -> 'a1 list

val stack_sub : 'a1 list -> nat -> 'a1 list list option

val all_same : nat list -> bool

val stack_sub_tree : 'a1 list list -> nat -> 'a1 list list list option

val vmap : ('a1 -> 'a2) -> 'a1 list -> 'a2 list

val vmap2 : ('a3 -> 'a1 -> 'a2) -> 'a3 list -> 'a1 list -> 'a2 list

val upd : nat -> 'a1 -> 'a1 list -> 'a1 list

val zip_cons : 'a1 list -> 'a1 list list -> 'a1 list list

val transpose : nat -> 'a1 list list -> 'a1 list list

val aff6 : z -> z -> z -> z

val flatz : z list list -> q list

val run_c06 : z -> q list -> q list

val flen : ops -> car list -> car

val mean : ops -> car list -> car

val center : ops -> car list -> car list

val sq : ops -> car -> car

val variance : ops -> car list -> car

val normalize_with :
  ops -> (car list -> car) -> (car list -> car) -> (car list -> car) -> bool
  -> bool -> bool -> car list -> car list

val fabs : ops -> (car -> car -> bool) -> car -> car

val fmax2 : ops -> (car -> car -> bool) -> car -> car -> car

val fmin2 : ops -> (car -> car -> bool) -> car -> car -> car

val lmax : ops -> (car -> car -> bool) -> car list -> car

val lmin : ops -> (car -> car -> bool) -> car list -> car

val maxabs : ops -> (car -> car -> bool) -> car list -> car

val std : ops -> (car -> car) -> car list -> car

val normalize_ic :
  ops -> (car -> car -> bool) -> (car -> car) -> bool -> bool -> bool -> car
  list -> car list

val clamp : ops -> (car -> car -> bool) -> car -> car -> car list -> car list

val scaled : ops -> car -> car list -> car list

val gridD : nat -> nat -> nat list list

val sumD : ops -> nat -> nat -> (nat list -> car) -> car

val npts : ops -> nat -> nat -> car

val chi : ops -> car -> nat list -> nat list -> car

val idftD : ops -> nat -> nat -> car -> (nat list -> car) -> nat list -> car

val meanD : ops -> nat -> nat -> (nat list -> car) -> car

val tfs_dc : ops -> car -> nat -> nat -> car

val is_zero_idx : z list -> bool

val grf_amp_sq_even : ops -> car -> nat -> nat -> z -> z list -> car

val spatial : z -> z -> z list

val bdim : z -> z -> z option

val bcast : z list -> z list -> z list option

val slice0 : z -> z -> z list -> z list

val disc_mask_from : z list -> z list -> nat -> z list option

type gen =
| GBase of z * z
| GScaled of gen
| GClamp of gen
| GMulti of gen list

val k_DISC : z

val k_BLOBS : z

val k_SINE : z

val kind_has_fun : z -> bool

val base_ctor_raises : z -> z -> bool

val gen_dims : gen -> z option

val sh_eqb : z list -> z list -> bool

val cat2 : z list option -> z list option -> z list option

val concat0 : z list option list -> z list option

val gen_shape : z -> gen -> z list option

val supports_fun : gen -> bool

val qc_leb : qc -> qc -> bool

val rep : z list -> z -> z list

val shape_eqb : z list -> z list -> bool

val all_eqb : z list -> bool

val gen_spatial_shape : z -> z -> z list

val base_call_raises : z -> z -> z -> z list -> bool

val repeated_call_raises : z -> z -> z -> z list -> bool

val poisson_call_raises : z -> z -> z list -> bool

val laplace_order_raises : z -> bool

val gip_raises : z -> z -> z list -> bool

val make_incompressible_raises : z list -> bool

val ifft_raises : z -> bool -> bool -> z list -> bool

val ic_options_raise : bool -> bool -> bool -> bool

val spatial_norm_raises : bool -> z -> bool

val fourier_norm_raises : bool -> z -> bool

val general_nonlin_raises : z -> bool

val general_nonlin_stepper_raises : z -> bool

val vorticity_conv_raises : z -> bool

val projected_conv_raises : z -> bool

val ns_vorticity_raises : z -> bool

val kolmogorov_vorticity_raises : z -> bool

val ns_velocity_raises : z -> bool

val kolmogorov_velocity_raises : z -> bool

val general_vorticity_raises : z -> bool

val gray_scott_raises : z list -> bool

val convection_cons_raises : z -> z list -> bool

val convection_noncons_raises : z -> z list -> bool

val random_sine_raises : z -> bool -> bool -> bool -> bool

val stack_sub_raises : z -> z list -> bool

val discontinuities_raises : bool -> bool -> bool -> bool

val random_discontinuities_raises : bool -> bool -> bool -> bool

val sine_waves_raises : bool -> bool -> bool -> z -> z -> z -> bool

val sine_waves_call_raises : bool -> bool -> z list -> bool

val gaussian_blob_call_raises : bool -> z -> z list -> bool

val tfs_raises : bool -> bool -> bool -> bool

val grf_raises : bool -> bool -> bool -> bool

val diffused_noise_raises : bool -> bool -> bool -> bool

val gen_tfs_dc : ops -> car -> car -> car

val gen_disc_shape : z list -> nat -> z list option

val parse_gen : nat -> z list -> (gen * z list) option

val parse_gens : nat -> nat -> z list -> (gen list * z list) option

val decode_gen : z list -> gen

val qid : car -> car

val run_c18 : z -> q list -> q list

val sqr : ops -> car -> car

val sumsq : ops -> car list -> car

val vsub : ops -> car list -> car list -> car list

val ssub : ops -> car cx list -> car cx list -> car cx list

val zrange0 : z -> z list

val idx_grid : z list -> z list list

val half_indices : nat -> z -> z list list

val vol : ops -> nat -> z -> car -> car

val spatial_agg : ops -> (car -> car) -> nat -> z -> car -> car list -> car

val combine_spatial : ops -> z -> car -> car -> car -> car

val combine_fourier : ops -> z -> car -> car -> car -> car

val norm_gen :
  ops -> ('a1 -> car) -> ('a1 -> 'a1 -> 'a1) -> (z -> car -> car -> car ->
  car) -> bool -> z -> 'a1 list -> 'a1 list option -> car option

val is_none : 'a1 option -> bool

val spatial_norm :
  ops -> (car -> car) -> nat -> z -> car -> z -> car list list -> car list
  list option -> car option

val axis_scaling : ops -> z -> z -> bool -> z -> car

val scaling_recon : ops -> nat -> z -> z list -> car

val band_mask : nat -> z -> z option -> z option -> z list -> bool

val cpow : ops -> car cx -> nat -> car cx

val dop_axis : ops -> car -> car -> nat -> z -> nat -> z list -> car cx

type spectrum = (z list * car cx) list

val with_idx : ops -> nat -> z -> car cx list -> spectrum

val apply_mask :
  ops -> nat -> z -> z option -> z option -> spectrum -> spectrum

val apply_deriv :
  ops -> car -> car -> nat -> z -> nat -> nat -> spectrum -> spectrum

val agg_channel : ops -> (car -> car) -> nat -> z -> car -> spectrum -> car

val fourier_agg :
  ops -> (car -> car) -> nat -> z -> car -> car -> z option -> z option ->
  nat option -> car cx list -> car

val fourier_norm :
  ops -> (car -> car) -> nat -> z -> car -> car -> z option -> z option ->
  nat option -> z -> car cx list list -> car cx list list option -> car option

val oadd2 : ops -> car option -> car option -> car option

val h1_norm :
  ops -> (car -> car) -> nat -> z -> car -> car -> z option -> z option -> z
  -> car cx list list -> car cx list list option -> car option

val dot : ops -> car list -> car list -> car

val corr2_channel : ops -> car list -> car list -> car

val mean_metric : ops -> car list -> car

val idK : ops -> car -> car

val optq : car option -> q list

val optz : q -> q -> z option

val run_c16 : z -> q list -> q list

val set0 : ops -> car list -> car list -> car list

val normalize_coefficients : ops -> car -> car -> car list -> car list

val denormalize_coefficients : ops -> car -> car -> car list -> car list

val normalize_convection_scale : ops -> car -> car -> car -> car

val denormalize_convection_scale : ops -> car -> car -> car -> car

val normalize_gradient_norm_scale : ops -> car -> car -> car -> car

val denormalize_gradient_norm_scale : ops -> car -> car -> car -> car

val normalize_polynomial_scales : ops -> car -> car -> car list -> car list

val denormalize_polynomial_scales : ops -> car -> car -> car list -> car list

val reduce_normalized_coefficients_to_difficulty :
  ops -> car -> car -> car list -> car list

val extract_normalized_coefficients_from_difficulty :
  ops -> car -> car -> car list -> car list

val reduce_normalized_convection_scale_to_difficulty :
  ops -> car -> car -> car -> car -> car

val extract_normalized_convection_scale_from_difficulty :
  ops -> car -> car -> car -> car -> car

val reduce_normalized_gradient_norm_scale_to_difficulty :
  ops -> car -> car -> car -> car -> car

val extract_normalized_gradient_norm_scale_from_difficulty :
  ops -> car -> car -> car -> car -> car

val reduce_normalized_nonlinear_scales_to_difficulty :
  ops -> car -> car -> car -> car list -> car list

val extract_normalized_nonlinear_scales_from_difficulty :
  ops -> car -> car -> car -> car list -> car list

val wave_mode :
  ops -> car -> car -> car -> car -> car -> car -> car -> bool -> car -> car
  -> car * car

val deriv_mode : ops -> nat -> car list -> car -> car list

val poisson_mode : ops -> car -> car -> car

val divm : ops -> car list -> car list -> car

val lapm : ops -> car list -> car

val leray_mode : ops -> car list -> car list -> car list

val make_incompressible_mode : ops -> car list -> car list -> car list

val ax_scale : ops -> z -> z -> bool -> car

val injection2d : ops -> car -> car -> z -> z -> z list -> car

val sgn0 : ops -> z -> car

val injection3d : ops -> car -> car -> z -> z -> nat -> z list -> car

val in_bin : z -> z list -> bool

val recon_scale : ops -> z -> car -> z list -> car

val amplitude_q : ops -> z -> car -> z list -> car -> car

val power_q : ops -> z -> car -> z list -> car -> car

val bin_sum : ops -> z -> (z list * car) list -> car

val bin_count : ops -> z -> (z list * car) list -> z

val lead_copied : z -> z -> bool

val last_copied : z -> z -> bool

val vec_copied : z -> z list -> bool

val odd_ok : z -> z list -> bool

val resample_keeps : z -> z -> bool -> z list -> bool

val aff : z -> z -> z -> z

val affx : z -> z -> z -> z

val pairf : (z * z) -> z * z

val run_c14 : z -> q list -> q list

val sel_integrand : z -> z -> car -> car -> car -> car

val triples : car list -> ((car * car) * car) list

val contour_coef : z -> z -> car -> ((car * car) * car) list -> car

val test_nl : nat -> (nat -> car) -> nat -> car

val run_c02 : z -> q list -> q list

val run_c20 : z -> q list -> q list

val run_sym : q list -> q list

val run_wave : q list -> q list

val run_conv : q list -> q list

val run_c04 : z -> q list -> q list

val run_term : q list -> q list

val run_ops : z -> q list -> q list

val run_c12 : z -> q list -> q list

val take_modes : nat -> nat -> q list -> (z list * car) list

val run_c17 : z -> q list -> q list

val run : z -> q list -> q list
