
val negb : bool -> bool

type nat =
| O
| S of nat

val option_map : ('a1 -> 'a2) -> 'a1 option -> 'a2 option

val fst : ('a1 * 'a2) -> 'a1

val snd : ('a1 * 'a2) -> 'a2

val length : 'a1 list -> nat

val app : 'a1 list -> 'a1 list -> 'a1 list

type comparison =
| Eq
| Lt
| Gt

val compOpp : comparison -> comparison

val add : nat -> nat -> nat

val sub : nat -> nat -> nat

type positive =
| XI of positive
| XO of positive
| XH

type z =
| Z0
| Zpos of positive
| Zneg of positive

module Nat :
 sig
  val eqb : nat -> nat -> bool

  val leb : nat -> nat -> bool

  val ltb : nat -> nat -> bool

  val min : nat -> nat -> nat
 end

module Pos :
 sig
  type mask =
  | IsNul
  | IsPos of positive
  | IsNeg
 end

module Coq_Pos :
 sig
  val succ : positive -> positive

  val add : positive -> positive -> positive

  val add_carry : positive -> positive -> positive

  val pred_double : positive -> positive

  type mask = Pos.mask =
  | IsNul
  | IsPos of positive
  | IsNeg

  val succ_double_mask : mask -> mask

  val double_mask : mask -> mask

  val double_pred_mask : positive -> mask

  val sub_mask : positive -> positive -> mask

  val sub_mask_carry : positive -> positive -> mask

  val sub : positive -> positive -> positive

  val mul : positive -> positive -> positive

  val size_nat : positive -> nat

  val compare_cont : comparison -> positive -> positive -> comparison

  val compare : positive -> positive -> comparison

  val eqb : positive -> positive -> bool

  val ggcdn : nat -> positive -> positive -> positive * (positive * positive)

  val ggcd : positive -> positive -> positive * (positive * positive)

  val iter_op : ('a1 -> 'a1 -> 'a1) -> positive -> 'a1 -> 'a1

  val to_nat : positive -> nat

  val of_succ_nat : nat -> positive
 end

module Z :
 sig
  val double : z -> z

  val succ_double : z -> z

  val pred_double : z -> z

  val pos_sub : positive -> positive -> z

  val add : z -> z -> z

  val opp : z -> z

  val sub : z -> z -> z

  val mul : z -> z -> z

  val compare : z -> z -> comparison

  val sgn : z -> z

  val leb : z -> z -> bool

  val ltb : z -> z -> bool

  val eqb : z -> z -> bool

  val abs : z -> z

  val to_nat : z -> nat

  val of_nat : nat -> z

  val to_pos : z -> positive

  val pos_div_eucl : positive -> z -> z * z

  val div_eucl : z -> z -> z * z

  val ggcd : z -> z -> z * (z * z)
 end

val hd : 'a1 -> 'a1 list -> 'a1

val nth : nat -> 'a1 list -> 'a1 -> 'a1

val concat : 'a1 list list -> 'a1 list

val map : ('a1 -> 'a2) -> 'a1 list -> 'a2 list

val flat_map : ('a1 -> 'a2 list) -> 'a1 list -> 'a2 list

val forallb : ('a1 -> bool) -> 'a1 list -> bool

val firstn : nat -> 'a1 list -> 'a1 list

val skipn : nat -> 'a1 list -> 'a1 list

val seq : nat -> nat -> nat list

val repeat : 'a1 -> nat -> 'a1 list

type q = { qnum : z; qden : positive }

val qred : q -> q

type qc = q
  (* singleton inductive, whose constructor was Qcmake *)

val this : qc -> q

val q2Qc : q -> qc

val qz : q -> z

val zq : z -> q

val qn : q -> nat

val nq : nat -> q

val qb : q -> bool

val getq : q list -> nat -> q

val scan : ('a1 -> 'a2 -> 'a1 * 'a3) -> 'a1 -> 'a2 list -> 'a1 * 'a3 list

val rollout : ('a1 -> 'a1) -> nat -> bool -> 'a1 -> 'a1 list

val repeat_fn : ('a1 -> 'a1) -> nat -> 'a1 -> 'a1

type 'x auxarg =
| AuxConst of 'x
| AuxSeq of 'x list

val aux_seq : nat -> bool -> 'a1 auxarg -> 'a1 list option

val rollout_aux :
  ('a1 -> 'a2 -> 'a1) -> nat -> bool -> bool -> 'a1 -> 'a2 auxarg -> 'a1 list
  option

val repeat_aux :
  ('a1 -> 'a2 -> 'a1) -> nat -> bool -> 'a1 -> 'a2 auxarg -> 'a1 option

val dynamic_slice : 'a1 list -> nat -> nat -> 'a1 list

val stack_sub : 'a1 list -> nat -> 'a1 list list option

val all_same : nat list -> bool

val stack_sub_tree : 'a1 list list -> nat -> 'a1 list list list option

val aff : z -> z -> z -> z

val affx : z -> z -> z -> z

val pairf : (z * z) -> z * z

val optl : q list option -> q list

val run_c14 : z -> q list -> q list

val run : z -> q list -> q list
