(* Driver for the extracted model: one case per input line "id q1 q2 ...", rationals as p or p/q;
   prints one line of rationals per case.  Converts between Zarith and Coq's extracted Z. *)
module BZ = Z
open Model
let rec pos_of_z (n : BZ.t) : positive =
  if BZ.equal n BZ.one then XH
  else if BZ.is_even n then XO (pos_of_z (BZ.shift_right n 1))
  else XI (pos_of_z (BZ.shift_right n 1))
let coqz_of_z (n : BZ.t) : z =
  if BZ.sign n = 0 then Z0 else if BZ.sign n > 0 then Zpos (pos_of_z n) else Zneg (pos_of_z (BZ.neg n))
let rec z_of_pos (p : positive) : BZ.t = match p with
  | XH -> BZ.one | XO q -> BZ.shift_left (z_of_pos q) 1 | XI q -> BZ.succ (BZ.shift_left (z_of_pos q) 1)
let z_of_coqz (n : z) : BZ.t = match n with Z0 -> BZ.zero | Zpos p -> z_of_pos p | Zneg p -> BZ.neg (z_of_pos p)
let q_of_string (s : string) : q =
  match String.index_opt s '/' with
  | None -> { qnum = coqz_of_z (BZ.of_string s); qden = XH }
  | Some i ->
    let n = BZ.of_string (String.sub s 0 i) and d = BZ.of_string (String.sub s (i+1) (String.length s - i - 1)) in
    { qnum = coqz_of_z n; qden = pos_of_z d }
let string_of_q (x : q) : string =
  let n = z_of_coqz x.qnum and d = z_of_pos x.qden in
  let g = BZ.gcd n d in
  let n, d = if BZ.sign g = 0 then n, d else BZ.divexact n g, BZ.divexact d g in
  if BZ.equal d BZ.one then BZ.to_string n else BZ.to_string n ^ "/" ^ BZ.to_string d
let () =
  try
    while true do
      let line = input_line stdin in
      match List.filter (fun s -> s <> "") (String.split_on_char ' ' line) with
      | [] -> print_newline ()
      | id :: args ->
        let res = run (coqz_of_z (BZ.of_string id)) (List.map q_of_string args) in
        print_endline (String.concat " " (List.map string_of_q res))
    done
  with End_of_file -> ()
