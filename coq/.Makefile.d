theories/Base/Cplx.vo theories/Base/Cplx.glob theories/Base/Cplx.v.beautified theories/Base/Cplx.required_vo: theories/Base/Cplx.v theories/Base/Scalar.vo theories/Base/FieldLemmas.vo
theories/Base/Cplx.vio: theories/Base/Cplx.v theories/Base/Scalar.vio theories/Base/FieldLemmas.vio
theories/Base/Cplx.vos theories/Base/Cplx.vok theories/Base/Cplx.required_vos: theories/Base/Cplx.v theories/Base/Scalar.vos theories/Base/FieldLemmas.vos
theories/Base/FieldLemmas.vo theories/Base/FieldLemmas.glob theories/Base/FieldLemmas.v.beautified theories/Base/FieldLemmas.required_vo: theories/Base/FieldLemmas.v theories/Base/Scalar.vo
theories/Base/FieldLemmas.vio: theories/Base/FieldLemmas.v theories/Base/Scalar.vio
theories/Base/FieldLemmas.vos theories/Base/FieldLemmas.vok theories/Base/FieldLemmas.required_vos: theories/Base/FieldLemmas.v theories/Base/Scalar.vos
theories/Base/Scalar.vo theories/Base/Scalar.glob theories/Base/Scalar.v.beautified theories/Base/Scalar.required_vo: theories/Base/Scalar.v 
theories/Base/Scalar.vio: theories/Base/Scalar.v 
theories/Base/Scalar.vos theories/Base/Scalar.vok theories/Base/Scalar.required_vos: theories/Base/Scalar.v 
theories/DFT/DFT1.vo theories/DFT/DFT1.glob theories/DFT/DFT1.v.beautified theories/DFT/DFT1.required_vo: theories/DFT/DFT1.v theories/Base/Scalar.vo theories/Base/FieldLemmas.vo
theories/DFT/DFT1.vio: theories/DFT/DFT1.v theories/Base/Scalar.vio theories/Base/FieldLemmas.vio
theories/DFT/DFT1.vos theories/DFT/DFT1.vok theories/DFT/DFT1.required_vos: theories/DFT/DFT1.v theories/Base/Scalar.vos theories/Base/FieldLemmas.vos
theories/ETDRK/Order.vo theories/ETDRK/Order.glob theories/ETDRK/Order.v.beautified theories/ETDRK/Order.required_vo: theories/ETDRK/Order.v theories/Base/Scalar.vo theories/Base/FieldLemmas.vo theories/ETDRK/Phi.vo
theories/ETDRK/Order.vio: theories/ETDRK/Order.v theories/Base/Scalar.vio theories/Base/FieldLemmas.vio theories/ETDRK/Phi.vio
theories/ETDRK/Order.vos theories/ETDRK/Order.vok theories/ETDRK/Order.required_vos: theories/ETDRK/Order.v theories/Base/Scalar.vos theories/Base/FieldLemmas.vos theories/ETDRK/Phi.vos
theories/ETDRK/Phi.vo theories/ETDRK/Phi.glob theories/ETDRK/Phi.v.beautified theories/ETDRK/Phi.required_vo: theories/ETDRK/Phi.v theories/Base/Scalar.vo
theories/ETDRK/Phi.vio: theories/ETDRK/Phi.v theories/Base/Scalar.vio
theories/ETDRK/Phi.vos theories/ETDRK/Phi.vok theories/ETDRK/Phi.required_vos: theories/ETDRK/Phi.v theories/Base/Scalar.vos
theories/ETDRK/Scaling.vo theories/ETDRK/Scaling.glob theories/ETDRK/Scaling.v.beautified theories/ETDRK/Scaling.required_vo: theories/ETDRK/Scaling.v theories/Base/Scalar.vo theories/Base/FieldLemmas.vo theories/ETDRK/Phi.vo
theories/ETDRK/Scaling.vio: theories/ETDRK/Scaling.v theories/Base/Scalar.vio theories/Base/FieldLemmas.vio theories/ETDRK/Phi.vio
theories/ETDRK/Scaling.vos theories/ETDRK/Scaling.vok theories/ETDRK/Scaling.required_vos: theories/ETDRK/Scaling.v theories/Base/Scalar.vos theories/Base/FieldLemmas.vos theories/ETDRK/Phi.vos
theories/Exec/Codec.vo theories/Exec/Codec.glob theories/Exec/Codec.v.beautified theories/Exec/Codec.required_vo: theories/Exec/Codec.v theories/Base/Scalar.vo theories/Base/FieldLemmas.vo theories/Base/Cplx.vo
theories/Exec/Codec.vio: theories/Exec/Codec.v theories/Base/Scalar.vio theories/Base/FieldLemmas.vio theories/Base/Cplx.vio
theories/Exec/Codec.vos theories/Exec/Codec.vok theories/Exec/Codec.required_vos: theories/Exec/Codec.v theories/Base/Scalar.vos theories/Base/FieldLemmas.vos theories/Base/Cplx.vos
theories/Exec/Entry.vo theories/Exec/Entry.glob theories/Exec/Entry.v.beautified theories/Exec/Entry.required_vo: theories/Exec/Entry.v theories/Base/Scalar.vo theories/Base/FieldLemmas.vo theories/Base/Cplx.vo theories/Exec/Codec.vo theories/Utils/Rollout.vo theories/Gen/ETDRK.vo theories/Gen/Guards.vo theories/Spectral/Symbols.vo theories/Gen/GenericUtils.vo theories/Steppers/Linear.vo theories/Layout/Freq.vo theories/Nonlin/Conv.vo theories/Nonlin/Terms.vo
theories/Exec/Entry.vio: theories/Exec/Entry.v theories/Base/Scalar.vio theories/Base/FieldLemmas.vio theories/Base/Cplx.vio theories/Exec/Codec.vio theories/Utils/Rollout.vio theories/Gen/ETDRK.vio theories/Gen/Guards.vio theories/Spectral/Symbols.vio theories/Gen/GenericUtils.vio theories/Steppers/Linear.vio theories/Layout/Freq.vio theories/Nonlin/Conv.vio theories/Nonlin/Terms.vio
theories/Exec/Entry.vos theories/Exec/Entry.vok theories/Exec/Entry.required_vos: theories/Exec/Entry.v theories/Base/Scalar.vos theories/Base/FieldLemmas.vos theories/Base/Cplx.vos theories/Exec/Codec.vos theories/Utils/Rollout.vos theories/Gen/ETDRK.vos theories/Gen/Guards.vos theories/Spectral/Symbols.vos theories/Gen/GenericUtils.vos theories/Steppers/Linear.vos theories/Layout/Freq.vos theories/Nonlin/Conv.vos theories/Nonlin/Terms.vos
theories/Exec/Extract.vo theories/Exec/Extract.glob theories/Exec/Extract.v.beautified theories/Exec/Extract.required_vo: theories/Exec/Extract.v theories/Exec/Entry.vo
theories/Exec/Extract.vio: theories/Exec/Extract.v theories/Exec/Entry.vio
theories/Exec/Extract.vos theories/Exec/Extract.vok theories/Exec/Extract.required_vos: theories/Exec/Extract.v theories/Exec/Entry.vos
theories/Gen/ETDRK.vo theories/Gen/ETDRK.glob theories/Gen/ETDRK.v.beautified theories/Gen/ETDRK.required_vo: theories/Gen/ETDRK.v theories/Base/Scalar.vo
theories/Gen/ETDRK.vio: theories/Gen/ETDRK.v theories/Base/Scalar.vio
theories/Gen/ETDRK.vos theories/Gen/ETDRK.vok theories/Gen/ETDRK.required_vos: theories/Gen/ETDRK.v theories/Base/Scalar.vos
theories/Gen/GenericUtils.vo theories/Gen/GenericUtils.glob theories/Gen/GenericUtils.v.beautified theories/Gen/GenericUtils.required_vo: theories/Gen/GenericUtils.v theories/Base/Scalar.vo theories/Spectral/Symbols.vo
theories/Gen/GenericUtils.vio: theories/Gen/GenericUtils.v theories/Base/Scalar.vio theories/Spectral/Symbols.vio
theories/Gen/GenericUtils.vos theories/Gen/GenericUtils.vok theories/Gen/GenericUtils.required_vos: theories/Gen/GenericUtils.v theories/Base/Scalar.vos theories/Spectral/Symbols.vos
theories/Gen/Guards.vo theories/Gen/Guards.glob theories/Gen/Guards.v.beautified theories/Gen/Guards.required_vo: theories/Gen/Guards.v 
theories/Gen/Guards.vio: theories/Gen/Guards.v 
theories/Gen/Guards.vos theories/Gen/Guards.vok theories/Gen/Guards.required_vos: theories/Gen/Guards.v 
theories/Layout/Freq.vo theories/Layout/Freq.glob theories/Layout/Freq.v.beautified theories/Layout/Freq.required_vo: theories/Layout/Freq.v 
theories/Layout/Freq.vio: theories/Layout/Freq.v 
theories/Layout/Freq.vos theories/Layout/Freq.vok theories/Layout/Freq.required_vos: theories/Layout/Freq.v 
theories/Layout/FreqProofs.vo theories/Layout/FreqProofs.glob theories/Layout/FreqProofs.v.beautified theories/Layout/FreqProofs.required_vo: theories/Layout/FreqProofs.v theories/Layout/Freq.vo
theories/Layout/FreqProofs.vio: theories/Layout/FreqProofs.v theories/Layout/Freq.vio
theories/Layout/FreqProofs.vos theories/Layout/FreqProofs.vok theories/Layout/FreqProofs.required_vos: theories/Layout/FreqProofs.v theories/Layout/Freq.vos
theories/Nonlin/Conv.vo theories/Nonlin/Conv.glob theories/Nonlin/Conv.v.beautified theories/Nonlin/Conv.required_vo: theories/Nonlin/Conv.v theories/Base/Scalar.vo theories/Spectral/Symbols.vo theories/Layout/Freq.vo
theories/Nonlin/Conv.vio: theories/Nonlin/Conv.v theories/Base/Scalar.vio theories/Spectral/Symbols.vio theories/Layout/Freq.vio
theories/Nonlin/Conv.vos theories/Nonlin/Conv.vok theories/Nonlin/Conv.required_vos: theories/Nonlin/Conv.v theories/Base/Scalar.vos theories/Spectral/Symbols.vos theories/Layout/Freq.vos
theories/Nonlin/ConvProofs.vo theories/Nonlin/ConvProofs.glob theories/Nonlin/ConvProofs.v.beautified theories/Nonlin/ConvProofs.required_vo: theories/Nonlin/ConvProofs.v theories/Base/Scalar.vo theories/Base/FieldLemmas.vo theories/Spectral/Symbols.vo theories/Layout/Freq.vo theories/Nonlin/Conv.vo
theories/Nonlin/ConvProofs.vio: theories/Nonlin/ConvProofs.v theories/Base/Scalar.vio theories/Base/FieldLemmas.vio theories/Spectral/Symbols.vio theories/Layout/Freq.vio theories/Nonlin/Conv.vio
theories/Nonlin/ConvProofs.vos theories/Nonlin/ConvProofs.vok theories/Nonlin/ConvProofs.required_vos: theories/Nonlin/ConvProofs.v theories/Base/Scalar.vos theories/Base/FieldLemmas.vos theories/Spectral/Symbols.vos theories/Layout/Freq.vos theories/Nonlin/Conv.vos
theories/Nonlin/Terms.vo theories/Nonlin/Terms.glob theories/Nonlin/Terms.v.beautified theories/Nonlin/Terms.required_vo: theories/Nonlin/Terms.v theories/Base/Scalar.vo theories/Spectral/Symbols.vo theories/Layout/Freq.vo theories/Nonlin/Conv.vo
theories/Nonlin/Terms.vio: theories/Nonlin/Terms.v theories/Base/Scalar.vio theories/Spectral/Symbols.vio theories/Layout/Freq.vio theories/Nonlin/Conv.vio
theories/Nonlin/Terms.vos theories/Nonlin/Terms.vok theories/Nonlin/Terms.required_vos: theories/Nonlin/Terms.v theories/Base/Scalar.vos theories/Spectral/Symbols.vos theories/Layout/Freq.vos theories/Nonlin/Conv.vos
theories/Nonlin/TermsProofs.vo theories/Nonlin/TermsProofs.glob theories/Nonlin/TermsProofs.v.beautified theories/Nonlin/TermsProofs.required_vo: theories/Nonlin/TermsProofs.v theories/Base/Scalar.vo theories/Base/FieldLemmas.vo theories/Spectral/Symbols.vo theories/Layout/Freq.vo theories/Nonlin/Conv.vo theories/Nonlin/ConvProofs.vo theories/Nonlin/Terms.vo
theories/Nonlin/TermsProofs.vio: theories/Nonlin/TermsProofs.v theories/Base/Scalar.vio theories/Base/FieldLemmas.vio theories/Spectral/Symbols.vio theories/Layout/Freq.vio theories/Nonlin/Conv.vio theories/Nonlin/ConvProofs.vio theories/Nonlin/Terms.vio
theories/Nonlin/TermsProofs.vos theories/Nonlin/TermsProofs.vok theories/Nonlin/TermsProofs.required_vos: theories/Nonlin/TermsProofs.v theories/Base/Scalar.vos theories/Base/FieldLemmas.vos theories/Spectral/Symbols.vos theories/Layout/Freq.vos theories/Nonlin/Conv.vos theories/Nonlin/ConvProofs.vos theories/Nonlin/Terms.vos
theories/Props/C01.vo theories/Props/C01.glob theories/Props/C01.v.beautified theories/Props/C01.required_vo: theories/Props/C01.v theories/Base/Scalar.vo theories/Base/FieldLemmas.vo theories/Spectral/Symbols.vo theories/Spectral/LinOp.vo theories/Steppers/Linear.vo theories/Steppers/LinearProofs.vo theories/Gen/ETDRK.vo theories/Base/Cplx.vo
theories/Props/C01.vio: theories/Props/C01.v theories/Base/Scalar.vio theories/Base/FieldLemmas.vio theories/Spectral/Symbols.vio theories/Spectral/LinOp.vio theories/Steppers/Linear.vio theories/Steppers/LinearProofs.vio theories/Gen/ETDRK.vio theories/Base/Cplx.vio
theories/Props/C01.vos theories/Props/C01.vok theories/Props/C01.required_vos: theories/Props/C01.v theories/Base/Scalar.vos theories/Base/FieldLemmas.vos theories/Spectral/Symbols.vos theories/Spectral/LinOp.vos theories/Steppers/Linear.vos theories/Steppers/LinearProofs.vos theories/Gen/ETDRK.vos theories/Base/Cplx.vos
theories/Props/C02.vo theories/Props/C02.glob theories/Props/C02.v.beautified theories/Props/C02.required_vo: theories/Props/C02.v theories/Base/Scalar.vo theories/Base/FieldLemmas.vo theories/ETDRK/Phi.vo theories/ETDRK/Order.vo theories/Gen/ETDRK.vo theories/Tie/ETDRKTie.vo theories/Base/Cplx.vo
theories/Props/C02.vio: theories/Props/C02.v theories/Base/Scalar.vio theories/Base/FieldLemmas.vio theories/ETDRK/Phi.vio theories/ETDRK/Order.vio theories/Gen/ETDRK.vio theories/Tie/ETDRKTie.vio theories/Base/Cplx.vio
theories/Props/C02.vos theories/Props/C02.vok theories/Props/C02.required_vos: theories/Props/C02.v theories/Base/Scalar.vos theories/Base/FieldLemmas.vos theories/ETDRK/Phi.vos theories/ETDRK/Order.vos theories/Gen/ETDRK.vos theories/Tie/ETDRKTie.vos theories/Base/Cplx.vos
theories/Props/C03.vo theories/Props/C03.glob theories/Props/C03.v.beautified theories/Props/C03.required_vo: theories/Props/C03.v theories/Base/Scalar.vo theories/Base/FieldLemmas.vo theories/Layout/Freq.vo theories/Layout/FreqProofs.vo theories/DFT/DFT1.vo theories/Nonlin/Conv.vo theories/Nonlin/ConvProofs.vo theories/Nonlin/Terms.vo theories/Nonlin/TermsProofs.vo
theories/Props/C03.vio: theories/Props/C03.v theories/Base/Scalar.vio theories/Base/FieldLemmas.vio theories/Layout/Freq.vio theories/Layout/FreqProofs.vio theories/DFT/DFT1.vio theories/Nonlin/Conv.vio theories/Nonlin/ConvProofs.vio theories/Nonlin/Terms.vio theories/Nonlin/TermsProofs.vio
theories/Props/C03.vos theories/Props/C03.vok theories/Props/C03.required_vos: theories/Props/C03.v theories/Base/Scalar.vos theories/Base/FieldLemmas.vos theories/Layout/Freq.vos theories/Layout/FreqProofs.vos theories/DFT/DFT1.vos theories/Nonlin/Conv.vos theories/Nonlin/ConvProofs.vos theories/Nonlin/Terms.vos theories/Nonlin/TermsProofs.vos
theories/Props/C04.vo theories/Props/C04.glob theories/Props/C04.v.beautified theories/Props/C04.required_vo: theories/Props/C04.v theories/Base/Scalar.vo theories/Base/FieldLemmas.vo theories/Layout/Freq.vo theories/Layout/FreqProofs.vo theories/DFT/DFT1.vo theories/Base/Cplx.vo
theories/Props/C04.vio: theories/Props/C04.v theories/Base/Scalar.vio theories/Base/FieldLemmas.vio theories/Layout/Freq.vio theories/Layout/FreqProofs.vio theories/DFT/DFT1.vio theories/Base/Cplx.vio
theories/Props/C04.vos theories/Props/C04.vok theories/Props/C04.required_vos: theories/Props/C04.v theories/Base/Scalar.vos theories/Base/FieldLemmas.vos theories/Layout/Freq.vos theories/Layout/FreqProofs.vos theories/DFT/DFT1.vos theories/Base/Cplx.vos
theories/Props/C13.vo theories/Props/C13.glob theories/Props/C13.v.beautified theories/Props/C13.required_vo: theories/Props/C13.v theories/Base/Scalar.vo theories/Base/FieldLemmas.vo theories/Spectral/Symbols.vo theories/Gen/GenericUtils.vo theories/Tie/GenericUtilsTie.vo theories/Steppers/Generic.vo theories/ETDRK/Phi.vo theories/ETDRK/Scaling.vo
theories/Props/C13.vio: theories/Props/C13.v theories/Base/Scalar.vio theories/Base/FieldLemmas.vio theories/Spectral/Symbols.vio theories/Gen/GenericUtils.vio theories/Tie/GenericUtilsTie.vio theories/Steppers/Generic.vio theories/ETDRK/Phi.vio theories/ETDRK/Scaling.vio
theories/Props/C13.vos theories/Props/C13.vok theories/Props/C13.required_vos: theories/Props/C13.v theories/Base/Scalar.vos theories/Base/FieldLemmas.vos theories/Spectral/Symbols.vos theories/Gen/GenericUtils.vos theories/Tie/GenericUtilsTie.vos theories/Steppers/Generic.vos theories/ETDRK/Phi.vos theories/ETDRK/Scaling.vos
theories/Props/C14.vo theories/Props/C14.glob theories/Props/C14.v.beautified theories/Props/C14.required_vo: theories/Props/C14.v theories/Utils/Rollout.vo theories/Utils/RolloutProofs.vo
theories/Props/C14.vio: theories/Props/C14.v theories/Utils/Rollout.vio theories/Utils/RolloutProofs.vio
theories/Props/C14.vos theories/Props/C14.vok theories/Props/C14.required_vos: theories/Props/C14.v theories/Utils/Rollout.vos theories/Utils/RolloutProofs.vos
theories/Props/C20.vo theories/Props/C20.glob theories/Props/C20.v.beautified theories/Props/C20.required_vo: theories/Props/C20.v theories/Gen/Guards.vo
theories/Props/C20.vio: theories/Props/C20.v theories/Gen/Guards.vio
theories/Props/C20.vos theories/Props/C20.vok theories/Props/C20.required_vos: theories/Props/C20.v theories/Gen/Guards.vos
theories/Spectral/LinOp.vo theories/Spectral/LinOp.glob theories/Spectral/LinOp.v.beautified theories/Spectral/LinOp.required_vo: theories/Spectral/LinOp.v theories/Base/Scalar.vo theories/Base/FieldLemmas.vo theories/Spectral/Symbols.vo
theories/Spectral/LinOp.vio: theories/Spectral/LinOp.v theories/Base/Scalar.vio theories/Base/FieldLemmas.vio theories/Spectral/Symbols.vio
theories/Spectral/LinOp.vos theories/Spectral/LinOp.vok theories/Spectral/LinOp.required_vos: theories/Spectral/LinOp.v theories/Base/Scalar.vos theories/Base/FieldLemmas.vos theories/Spectral/Symbols.vos
theories/Spectral/Symbols.vo theories/Spectral/Symbols.glob theories/Spectral/Symbols.v.beautified theories/Spectral/Symbols.required_vo: theories/Spectral/Symbols.v theories/Base/Scalar.vo
theories/Spectral/Symbols.vio: theories/Spectral/Symbols.v theories/Base/Scalar.vio
theories/Spectral/Symbols.vos theories/Spectral/Symbols.vok theories/Spectral/Symbols.required_vos: theories/Spectral/Symbols.v theories/Base/Scalar.vos
theories/Steppers/Generic.vo theories/Steppers/Generic.glob theories/Steppers/Generic.v.beautified theories/Steppers/Generic.required_vo: theories/Steppers/Generic.v theories/Base/Scalar.vo theories/Base/FieldLemmas.vo theories/Spectral/Symbols.vo
theories/Steppers/Generic.vio: theories/Steppers/Generic.v theories/Base/Scalar.vio theories/Base/FieldLemmas.vio theories/Spectral/Symbols.vio
theories/Steppers/Generic.vos theories/Steppers/Generic.vok theories/Steppers/Generic.required_vos: theories/Steppers/Generic.v theories/Base/Scalar.vos theories/Base/FieldLemmas.vos theories/Spectral/Symbols.vos
theories/Steppers/Linear.vo theories/Steppers/Linear.glob theories/Steppers/Linear.v.beautified theories/Steppers/Linear.required_vo: theories/Steppers/Linear.v theories/Base/Scalar.vo theories/Spectral/Symbols.vo
theories/Steppers/Linear.vio: theories/Steppers/Linear.v theories/Base/Scalar.vio theories/Spectral/Symbols.vio
theories/Steppers/Linear.vos theories/Steppers/Linear.vok theories/Steppers/Linear.required_vos: theories/Steppers/Linear.v theories/Base/Scalar.vos theories/Spectral/Symbols.vos
theories/Steppers/LinearProofs.vo theories/Steppers/LinearProofs.glob theories/Steppers/LinearProofs.v.beautified theories/Steppers/LinearProofs.required_vo: theories/Steppers/LinearProofs.v theories/Base/Scalar.vo theories/Base/FieldLemmas.vo theories/Spectral/Symbols.vo theories/Steppers/Linear.vo
theories/Steppers/LinearProofs.vio: theories/Steppers/LinearProofs.v theories/Base/Scalar.vio theories/Base/FieldLemmas.vio theories/Spectral/Symbols.vio theories/Steppers/Linear.vio
theories/Steppers/LinearProofs.vos theories/Steppers/LinearProofs.vok theories/Steppers/LinearProofs.required_vos: theories/Steppers/LinearProofs.v theories/Base/Scalar.vos theories/Base/FieldLemmas.vos theories/Spectral/Symbols.vos theories/Steppers/Linear.vos
theories/Tie/ETDRKTie.vo theories/Tie/ETDRKTie.glob theories/Tie/ETDRKTie.v.beautified theories/Tie/ETDRKTie.required_vo: theories/Tie/ETDRKTie.v theories/Base/Scalar.vo theories/Base/FieldLemmas.vo theories/ETDRK/Phi.vo theories/Gen/ETDRK.vo
theories/Tie/ETDRKTie.vio: theories/Tie/ETDRKTie.v theories/Base/Scalar.vio theories/Base/FieldLemmas.vio theories/ETDRK/Phi.vio theories/Gen/ETDRK.vio
theories/Tie/ETDRKTie.vos theories/Tie/ETDRKTie.vok theories/Tie/ETDRKTie.required_vos: theories/Tie/ETDRKTie.v theories/Base/Scalar.vos theories/Base/FieldLemmas.vos theories/ETDRK/Phi.vos theories/Gen/ETDRK.vos
theories/Tie/GenericUtilsTie.vo theories/Tie/GenericUtilsTie.glob theories/Tie/GenericUtilsTie.v.beautified theories/Tie/GenericUtilsTie.required_vo: theories/Tie/GenericUtilsTie.v theories/Base/Scalar.vo theories/Base/FieldLemmas.vo theories/Spectral/Symbols.vo theories/Gen/GenericUtils.vo
theories/Tie/GenericUtilsTie.vio: theories/Tie/GenericUtilsTie.v theories/Base/Scalar.vio theories/Base/FieldLemmas.vio theories/Spectral/Symbols.vio theories/Gen/GenericUtils.vio
theories/Tie/GenericUtilsTie.vos theories/Tie/GenericUtilsTie.vok theories/Tie/GenericUtilsTie.required_vos: theories/Tie/GenericUtilsTie.v theories/Base/Scalar.vos theories/Base/FieldLemmas.vos theories/Spectral/Symbols.vos theories/Gen/GenericUtils.vos
theories/Utils/Rollout.vo theories/Utils/Rollout.glob theories/Utils/Rollout.v.beautified theories/Utils/Rollout.required_vo: theories/Utils/Rollout.v 
theories/Utils/Rollout.vio: theories/Utils/Rollout.v 
theories/Utils/Rollout.vos theories/Utils/Rollout.vok theories/Utils/Rollout.required_vos: theories/Utils/Rollout.v 
theories/Utils/RolloutProofs.vo theories/Utils/RolloutProofs.glob theories/Utils/RolloutProofs.v.beautified theories/Utils/RolloutProofs.required_vo: theories/Utils/RolloutProofs.v theories/Utils/Rollout.vo
theories/Utils/RolloutProofs.vio: theories/Utils/RolloutProofs.v theories/Utils/Rollout.vio
theories/Utils/RolloutProofs.vos theories/Utils/RolloutProofs.vok theories/Utils/RolloutProofs.required_vos: theories/Utils/RolloutProofs.v theories/Utils/Rollout.vos
