From Coq Require Import ZArith QArith List Bool Lia ZifyBool Field Ring.
From EXV Require Import Base.Scalar Base.FieldLemmas Layout.Freq Layout.Resample.
Import ListNotations.
Ltac Zify.zify_post_hook ::= Z.to_euclidean_division_equations.

Section Keep.
  Local Open Scope Z_scope.
  (* the mean mode is always copied and never masked *)
  Lemma vec_copied_zero nmin k : 0 < nmin -> Forall (fun c => c = 0) k -> vec_copied nmin k = true.
  Proof.
    intros Hn H. induction H as [|x l Hx Hl IH]; [reflexivity|]. subst x. cbn [vec_copied]. destruct l as [|y l].
    - unfold last_copied. lia.
    - rewrite IH. unfold lead_copied, slice_left. destruct (Z.even nmin) eqn:E; [apply Z.even_spec in E; destruct E as [c Hc]|]; lia.
  Qed.

  Lemma odd_ok_zero N k : 2 <= N -> Forall (fun c => c = 0) k -> odd_ok N k = true.
  Proof.
    intros HN H. unfold odd_ok. destruct (Z.even N); [|reflexivity]. apply forallb_forall. intros x Hx.
    rewrite Forall_forall in H. rewrite (H x Hx). lia.
  Qed.

  Theorem mean_mode_kept n m ob k : 2 <= n -> 2 <= m -> Forall (fun c => c = 0) k -> resample_keeps n m ob k = true.
  Proof.
    intros Hn Hm H. unfold resample_keeps. rewrite vec_copied_zero by (try lia; exact H).
    rewrite !odd_ok_zero by (try lia; exact H). destruct ((n <? m) && Z.even n && ob), ((m <? n) && Z.even m && ob); reflexivity.
  Qed.

  (* Nyquist-free band of a grid: |k_c| <= (n-1)/2 on every axis *)
  Definition nyq_free (n : Z) (k : list Z) : bool := forallb (fun kc => Z.abs kc <=? (n - 1) / 2) k.

  Lemma vec_copied_band n k : 0 < n -> nyq_free n k = true -> hd 0 (rev k) >= 0 -> vec_copied n k = true.
  Proof.
    intros Hn. induction k as [|x l IH]; [reflexivity|]. cbn [nyq_free forallb]. rewrite andb_true_iff. intros [Hx Hl] Hlast.
    cbn [vec_copied]. destruct l as [|y l].
    - cbn in Hlast. unfold last_copied. lia.
    - rewrite IH; [| exact Hl |].
      + unfold lead_copied, slice_left. destruct (Z.even n) eqn:E; [apply Z.even_spec in E; destruct E as [c Hc]|
          assert (Ho : Z.odd n = true) by (rewrite <- Z.negb_even, E; reflexivity); apply Z.odd_spec in Ho; destruct Ho as [c Hc]]; lia.
      + cbn [rev] in Hlast |- *. destruct (rev l ++ [y]) eqn:R; [destruct (rev l); discriminate|]. cbn in Hlast |- *. exact Hlast.
  Qed.

  Lemma odd_ok_band n k : 0 < n -> nyq_free n k = true -> odd_ok n k = true.
  Proof.
    intros Hn H. unfold odd_ok. destruct (Z.even n) eqn:E; [|reflexivity]. apply Z.even_spec in E. destruct E as [c Hc].
    apply forallb_forall. intros x Hx. unfold nyq_free in H. rewrite forallb_forall in H. specialize (H x Hx). lia.
  Qed.

  Lemma nyq_free_mono n m k : 0 < n -> n <= m -> nyq_free n k = true -> nyq_free m k = true.
  Proof.
    intros Hn Hm H. unfold nyq_free in *. rewrite forallb_forall in *. intros x Hx. specialize (H x Hx). lia.
  Qed.

  (* upsampling keeps every Nyquist-free mode of the old grid (stored half: last component >= 0) *)
  Theorem upsample_keeps_band n m ob k : 0 < n -> n < m -> nyq_free n k = true -> hd 0 (rev k) >= 0 -> resample_keeps n m ob k = true.
  Proof.
    intros Hn Hm H Hl. unfold resample_keeps. rewrite Z.min_l by lia. rewrite (vec_copied_band n k Hn H Hl).
    rewrite (odd_ok_band n k Hn H). replace (m <? n) with false by lia. cbn [andb]. destruct ((n <? m) && Z.even n && ob); reflexivity.
  Qed.

  (* downsampling to a grid that still resolves the mode keeps it *)
  Theorem downsample_keeps_band n m ob k : 0 < m -> m < n -> nyq_free m k = true -> hd 0 (rev k) >= 0 -> resample_keeps n m ob k = true.
  Proof.
    intros Hm Hn H Hl. unfold resample_keeps. rewrite Z.min_r by lia. rewrite (vec_copied_band m k Hm H Hl).
    rewrite (odd_ok_band m k Hm H). replace (n <? m) with false by lia. cbn [andb]. destruct ((m <? n) && Z.even m && ob); reflexivity.
  Qed.
End Keep.

Section Coef.
  Variable F : FieldT.
  Add Field Ff : (fth F).
  Local Open Scope fld_scope.

  Lemma fpow_div (a b : F) d : b <> 0 -> fpow (a / b) d = fpow a d / fpow b d.
  Proof.
    intros Hb. induction d as [|d IH]; cbn [fpow]; [field; apply f_1_neq_0|].
    rewrite IH. field. split; [apply fpow_neq0; exact Hb | exact Hb].
  Qed.

  (* every resolution change preserves the mean of ANY state: new(0)/m^D = old(0)/n^D *)
  Theorem mean_preserved (n m : Z) (ob : bool) (old : list Z -> F) (k : list Z) :
    (2 <= n)%Z -> (2 <= m)%Z -> Forall (fun c => c = 0%Z) k ->
    resample_coef F n m ob old k / fpow (fz m) (length k) = old k / fpow (fz n) (length k).
  Proof.
    intros Hn Hm H. unfold resample_coef. destruct (Z.eqb_spec n m) as [->|Hne]; [reflexivity|].
    rewrite mean_mode_kept by assumption.
    assert (Nn : @fz F n <> 0) by (apply fz_neq0; lia). assert (Nm : @fz F m <> 0) by (apply fz_neq0; lia).
    rewrite fpow_div by exact Nn. field. split; apply fpow_neq0; assumption.
  Qed.

  (* a band-limited Nyquist-free state keeps its trigonometric-polynomial coefficients a_k = u_hat(k)/N^D when mapped to a finer grid
     (or to a coarser grid that still resolves it): the new samples are samples of the same function *)
  Theorem coefficients_preserved (n m : Z) (ob : bool) (old : list Z -> F) (k : list Z) :
    (0 < n)%Z -> (0 < m)%Z -> nyq_free (Z.min n m) k = true -> (hd 0 (rev k) >= 0)%Z ->
    resample_coef F n m ob old k / fpow (fz m) (length k) = old k / fpow (fz n) (length k).
  Proof.
    intros Hn Hm H Hl. unfold resample_coef. destruct (Z.eqb_spec n m) as [->|Hne]; [reflexivity|].
    assert (Hk : resample_keeps n m ob k = true).
    { destruct (Z_lt_ge_dec n m) as [L|G].
      - rewrite Z.min_l in H by lia. apply upsample_keeps_band; assumption.
      - rewrite Z.min_r in H by lia. apply downsample_keeps_band; try assumption; lia. }
    rewrite Hk.
    assert (Nn : @fz F n <> 0) by (apply fz_neq0; lia). assert (Nm : @fz F m <> 0) by (apply fz_neq0; lia).
    rewrite fpow_div by exact Nn. field. split; apply fpow_neq0; assumption.
  Qed.
End Coef.
