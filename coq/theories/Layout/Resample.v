(* map_between_resolutions (exponax/_interpolation.py) in Fourier space, per signed wavenumber vector k of the NEW grid:
   the blocks of get_modes_slices(D, min(n, m)) copy exactly the coefficients whose wavenumbers are stored in the smaller grid
   (C04_mode_slices: a copied entry keeps its signed wavenumber), the norm-compensation scalings rescale by (m/n)^D, and the
   oddball masks remove the Nyquist modes of an even old grid (upsampling) / of an even new grid (downsampling) when oddball_zero. *)
From Coq Require Import ZArith QArith List Bool.
From EXV Require Import Base.Scalar Layout.Freq.
Import ListNotations.
Local Open Scope Z_scope.

Definition lead_copied (nmin kc : Z) : bool :=
  ((0 <=? kc) && (kc <? slice_left nmin)) || ((- (nmin / 2) <=? kc) && (kc <? 0)).
Definition last_copied (nmin kc : Z) : bool := (0 <=? kc) && (kc <=? nmin / 2).
Fixpoint vec_copied (nmin : Z) (k : list Z) : bool :=
  match k with [] => true | [kl] => last_copied nmin kl | kc :: r => lead_copied nmin kc && vec_copied nmin r end.
Definition odd_ok (N : Z) (k : list Z) : bool := if Z.even N then forallb (fun kc => Z.abs kc <=? N / 2 - 1) k else true.
Definition resample_keeps (n m : Z) (oddball : bool) (k : list Z) : bool :=
  vec_copied (Z.min n m) k
  && (if (n <? m) && Z.even n && oddball then odd_ok n k else true)
  && (if (m <? n) && Z.even m && oddball then odd_ok m k else true).

Section ResampleK.
  Variable K : Ops.
  Local Open Scope fld_scope.
  Definition resample_coef (n m : Z) (oddball : bool) (old : list Z -> K) (k : list Z) : K :=
    if (n =? m)%Z then old k
    else if resample_keeps n m oddball k then fpow (fz m / fz n) (length k) * old k else 0.
End ResampleK.
