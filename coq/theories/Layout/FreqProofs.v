From Coq Require Import ZArith List Bool Lia ZifyBool.
From EXV Require Import Layout.Freq.
Import ListNotations.
Local Open Scope Z_scope.
Ltac Zify.zify_post_hook ::= Z.to_euclidean_division_equations.

Lemma fftfreq_range N j : 0 < N -> 0 <= j < N -> - (N / 2) <= fftfreq N j <= (N - 1) / 2.
Proof. unfold fftfreq. intros. destruct (j <=? (N - 1) / 2) eqn:E; lia. Qed.

Lemma fftfreq_unfreq N k : 0 < N -> - (N / 2) <= k <= (N - 1) / 2 -> fftfreq N (unfreq N k) = k.
Proof.
  unfold fftfreq, unfreq. intros. destruct (0 <=? k) eqn:E.
  - destruct (k <=? (N - 1) / 2) eqn:E2; lia.
  - destruct (k + N <=? (N - 1) / 2) eqn:E2; lia.
Qed.

Lemma unfreq_fftfreq N j : 0 < N -> 0 <= j < N -> unfreq N (fftfreq N j) = j.
Proof.
  unfold fftfreq, unfreq. intros. destruct (j <=? (N - 1) / 2) eqn:E.
  - destruct (0 <=? j) eqn:E2; lia.
  - destruct (0 <=? j - N) eqn:E2; lia.
Qed.

Lemma unfreq_range N k : 0 < N -> - (N / 2) <= k <= (N - 1) / 2 -> 0 <= unfreq N k < N.
Proof. unfold unfreq. intros. destruct (0 <=? k) eqn:E; lia. Qed.

(* the stored frequency is congruent to the index: exp(2 pi i j x / N) and exp(2 pi i fftfreq(j) x / N) agree on the grid *)
Lemma fftfreq_congr N j : 0 < N -> 0 <= j < N -> (fftfreq N j - j) mod N = 0.
Proof. unfold fftfreq. intros. destruct (j <=? (N - 1) / 2) eqn:E; [replace (j - j) with 0 by lia; apply Z.mod_0_l; lia|].
  replace (j - N - j) with (-1 * N) by lia. apply Z.mod_mul. lia. Qed.

(* each signed wavenumber of the band occurs at exactly one stored index *)
Theorem fftfreq_bijection N : 0 < N ->
  (forall j, 0 <= j < N -> - (N / 2) <= fftfreq N j <= (N - 1) / 2 /\ unfreq N (fftfreq N j) = j)
  /\ (forall k, - (N / 2) <= k <= (N - 1) / 2 -> 0 <= unfreq N k < N /\ fftfreq N (unfreq N k) = k).
Proof.
  intros HN. split.
  - intros j Hj. split; [apply fftfreq_range | apply unfreq_fftfreq]; assumption.
  - intros k Hk. split; [apply unfreq_range | apply fftfreq_unfreq]; assumption.
Qed.

(* negative of a stored frequency is stored too, except for the even-N Nyquist -N/2 *)
Lemma fftfreq_neg N j : 0 < N -> 0 <= j < N -> fftfreq N j <> - (N / 2) \/ Z.odd N = true ->
  - (N / 2) <= - fftfreq N j <= (N - 1) / 2.
Proof.
  intros HN Hj H. pose proof (fftfreq_range N j HN Hj).
  destruct H as [H|H]; [lia|]. rewrite Z.odd_spec in H. destruct H as [m Hm]. lia.
Qed.

(* ---- dealiasing cutoff ---- *)
Lemma dealias_keeps_iff p q N k : 0 < q -> dealias_keeps p q N k = true <-> Z.abs k <= dealias_K p q N.
Proof. unfold dealias_keeps, dealias_K. intros. rewrite Z.leb_le. nia. Qed.

Theorem cutoff_quadratic N : 0 <= N -> 3 * dealias_K 2 3 N < N.
Proof. unfold dealias_K. intros. lia. Qed.

Theorem cutoff_cubic N : 0 <= N -> 4 * dealias_K 1 2 N < N.
Proof. unfold dealias_K. intros. lia. Qed.

(* a sum of q+1 wavenumbers from [-K, K] shifted by a non-zero multiple of N leaves [-K, K] when (q+2) K < N:
   the aliases of a product of q+1 band-limited factors never fall back into the retained band *)
Theorem alias_out_of_band N K q s m :
  0 < N -> 0 <= q -> (q + 2) * K < N -> - (q + 1) * K <= s <= (q + 1) * K -> m <> 0 -> ~ (- K <= s + m * N <= K).
Proof. intros. nia. Qed.

(* ---- masks ---- *)
Lemma oddball_odd D N idx : Z.odd N = true -> oddball_mask D N idx = true.
Proof. unfold oddball_mask. intros ->. reflexivity. Qed.

Lemma oddball_even D N idx : Z.even N = true ->
  oddball_mask D N idx = forallb (fun k => Z.abs k <=? N / 2 - 1) (wnvec D N idx).
Proof.
  unfold oddball_mask, low_pass_axis. intros H. rewrite <- Z.negb_even, H. cbn [negb].
  replace (N / 2 + 1 - 1 - 1) with (N / 2 - 1) by lia. reflexivity.
Qed.

(* ---- mode slices: left block / right block of the smaller grid n inside the larger grid m ---- *)
(* an index of the left slice keeps its position, an index of the right slice is shifted by m - n,
   and in both cases it denotes the same signed wavenumber in both grids *)
Lemma in_left_iff n len j : in_left n len j = true <-> 0 <= j < Z.min (slice_left n) len.
Proof. unfold in_left. rewrite andb_true_iff, Z.leb_le, Z.ltb_lt. tauto. Qed.
Lemma in_right_iff n len j : in_right n len j = true <-> Z.max (len - slice_right n) 0 <= j < len.
Proof. unfold in_right. rewrite andb_true_iff, Z.leb_le, Z.ltb_lt. tauto. Qed.
Lemma in_left_false n len j : in_left n len j = false <-> ~ (0 <= j < Z.min (slice_left n) len).
Proof. rewrite <- in_left_iff. destruct (in_left n len j); split; congruence. Qed.
Lemma in_right_false n len j : in_right n len j = false <-> ~ (Z.max (len - slice_right n) 0 <= j < len).
Proof. rewrite <- in_right_iff. destruct (in_right n len j); split; congruence. Qed.

(* every leading-axis index of the small grid lies in exactly one of the two slices (for even n the Nyquist row -n/2
   belongs to the right slice) *)
Theorem slices_partition n j : 0 < n -> 0 <= j < n ->
  (in_left n n j = true /\ in_right n n j = false) \/ (in_left n n j = false /\ in_right n n j = true).
Proof.
  intros Hn Hj. rewrite !in_left_iff, !in_right_iff, !in_left_false, !in_right_false.
  unfold slice_left, slice_right.
  destruct (Z.even n) eqn:En.
  - rewrite Z.even_spec in En. destruct En as [c Hc].
    assert (n / 2 = c) by lia. rewrite H.
    destruct (Z_lt_ge_dec j c); [left|right]; lia.
  - assert (Ho : Z.odd n = true) by (rewrite <- Z.negb_even, En; reflexivity).
    rewrite Z.odd_spec in Ho. destruct Ho as [c Hc].
    assert (n / 2 = c) by lia. rewrite H.
    destruct (Z_lt_ge_dec j (c + 1)); [left|right]; lia.
Qed.

Theorem slice_same_frequency n m j : 0 < n -> n <= m -> 0 <= j < n ->
  (in_left n n j = true -> in_left n m j = true /\ fftfreq m j = fftfreq n j)
  /\ (in_right n n j = true -> in_right n m (j + (m - n)) = true /\ fftfreq m (j + (m - n)) = fftfreq n j).
Proof.
  intros Hn Hm Hj. rewrite !in_left_iff, !in_right_iff. unfold slice_left, slice_right, fftfreq.
  destruct (Z.even n) eqn:En.
  - rewrite Z.even_spec in En. destruct En as [c Hc]. assert (H2 : n / 2 = c) by lia. rewrite H2.
    assert (H3 : (n - 1) / 2 = c - 1) by lia. rewrite H3.
    split; intros H.
    + destruct (j <=? c - 1) eqn:E1; destruct (j <=? (m - 1) / 2) eqn:E2; lia.
    + destruct (j <=? c - 1) eqn:E1; destruct (j + (m - n) <=? (m - 1) / 2) eqn:E3; lia.
  - assert (Ho : Z.odd n = true) by (rewrite <- Z.negb_even, En; reflexivity).
    rewrite Z.odd_spec in Ho. destruct Ho as [c Hc]. assert (H2 : n / 2 = c) by lia. rewrite H2.
    assert (H3 : (n - 1) / 2 = c) by lia. rewrite H3.
    split; intros H.
    + destruct (j <=? c) eqn:E1; destruct (j <=? (m - 1) / 2) eqn:E2; lia.
    + destruct (j <=? c) eqn:E1; destruct (j + (m - n) <=? (m - 1) / 2) eqn:E3; lia.
Qed.

(* last (rfft) axis: the block keeps indices 0..n/2 and they denote the same wavenumber in both grids *)
Theorem slice_last n m j : 0 < n -> n <= m -> 0 <= j <= n / 2 -> in_last n n j = true /\ in_last n m j = true.
Proof. unfold in_last. intros. lia. Qed.

(* ---- grid ---- *)
Theorem wrap_index_spec N j : 0 < N -> (0 <= j < N -> wrap_index N j = j) /\ wrap_index N N = 0.
Proof. unfold wrap_index. intros. split; [intros; apply Z.mod_small; lia | apply Z.mod_same; lia]. Qed.

(* ---- indexing (ij / xy) ---- *)
Lemma mesh_axis_involution xy D c : (c < D)%nat -> mesh_axis xy D (mesh_axis xy D c) = c /\ (mesh_axis xy D c < D)%nat.
Proof.
  unfold mesh_axis. intros H. destruct xy; cbn [andb]; [|split; [reflexivity | exact H]].
  destruct (Nat.leb_spec 2 D) as [H2|H2]; [|split; [reflexivity | exact H]].
  destruct c as [|[|c]]; cbn; split; try reflexivity; lia.
Qed.

(* for both indexings and D = 1, 2, 3: the array shape is wavenumber_shape (the rfft list varies along the LAST array axis) *)
Theorem indexing_shape xy D N : (1 <= D <= 3)%nat ->
  map (wn_axis_len xy D N) (seq 0 D) = wavenumber_shape D N.
Proof.
  intros HD. destruct D as [|[|[|[|D]]]]; try lia; destruct xy; reflexivity.
Qed.

(* wavenumber component c varies along the same array axis as grid component c (mesh_axis), it depends on that index only,
   and the component living on the last array axis is the rfft one *)
Theorem indexing_consistent xy D N c idx idx' : (1 <= D <= 3)%nat -> (c < D)%nat ->
  nth (mesh_axis xy D c) idx 0 = nth (mesh_axis xy D c) idx' 0 ->
  wavenumber xy D N c idx = wavenumber xy D N c idx'
  /\ (mesh_axis xy D c = (D - 1)%nat <-> c = rfft_component xy D).
Proof.
  intros HD Hc H. split.
  - unfold wavenumber. rewrite H. reflexivity.
  - destruct D as [|[|[|[|D]]]]; try lia; destruct xy; destruct c as [|[|[|c]]]; cbn; split; intros; try lia; try reflexivity; try discriminate.
Qed.
