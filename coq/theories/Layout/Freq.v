(* Integer layout of the real FFT: wavenumbers, shapes, masks, scaling arrays, mode slices, grid indices.
   Hand-written from exponax/_spectral.py (build_wavenumbers, wavenumber_shape, low_pass_filter_mask, oddball_filter_mask,
   _build_scaling_array, get_modes_slices) and _utils.py (make_grid, wrap_bc).  Everything is over Z / nat / bool;
   tied to the code by exhaustive exact correspondence (harness/props/c04.py).  No proofs in this file.
   numpy contracts: fftfreq(N, 1/N)[j] = j for j <= (N-1)/2, j - N otherwise;  rfftfreq(N, 1/N)[j] = j, j = 0..N/2;
   meshgrid(indexing="ij"): component c varies along array axis c;  "xy": the first two array axes are exchanged. *)
From Coq Require Import ZArith List Bool Lia.
Import ListNotations.
Local Open Scope Z_scope.

Definition fftfreq (N j : Z) : Z := if j <=? (N - 1) / 2 then j else j - N.
Definition rfftfreq (N j : Z) : Z := j.
Definition unfreq (N k : Z) : Z := if 0 <=? k then k else k + N.     (* stored index of a signed wavenumber *)

(* array axis along which meshgrid component c varies *)
Definition mesh_axis (xy : bool) (D c : nat) : nat :=
  if xy && (2 <=? D)%nat then match c with O => 1%nat | S O => O | _ => c end else c.

(* build_wavenumbers: the 1-D list of component c is fftfreq except for the rfft component;
   ij: the rfft list is the last component; xy and D = 2: the list is reversed (rfft list first) so that it varies along the last array axis *)
Definition rfft_component (xy : bool) (D : nat) : nat :=
  if xy && (D =? 2)%nat then O else (D - 1)%nat.
Definition wn_1d (xy : bool) (D : nat) (N : Z) (c : nat) (j : Z) : Z :=
  if (c =? rfft_component xy D)%nat then rfftfreq N j else fftfreq N j.
(* wavenumber component c at array index idx *)
Definition wavenumber (xy : bool) (D : nat) (N : Z) (c : nat) (idx : list Z) : Z :=
  wn_1d xy D N c (nth (mesh_axis xy D c) idx 0).
(* length of the array along axis a = length of the 1-D list of the component varying along a *)
Definition wn_axis_len (xy : bool) (D : nat) (N : Z) (a : nat) : Z :=
  (* mesh_axis is an involution: the component varying along axis a is mesh_axis a *)
  if (mesh_axis xy D a =? rfft_component xy D)%nat then N / 2 + 1 else N.
Definition wavenumber_shape (D : nat) (N : Z) : list Z := repeat N (D - 1) ++ [N / 2 + 1].

(* ij layout, used by everything except the indexing option *)
Definition wn (D : nat) (N : Z) (c : nat) (idx : list Z) : Z := wavenumber false D N c idx.
Definition wnvec (D : nat) (N : Z) (idx : list Z) : list Z := map (fun c => wn D N c idx) (seq 0 D).

(* masks *)
Definition low_pass_axis (D : nat) (N cutoff : Z) (idx : list Z) : bool :=
  forallb (fun k => Z.abs k <=? cutoff) (wnvec D N idx).
Definition norm2 (k : list Z) : Z := fold_right (fun x a => x * x + a) 0 k.
(* radial: ||k|| <= cutoff; for cutoff >= 0 equivalent to ||k||^2 <= cutoff^2 *)
Definition low_pass_radial (D : nat) (N cutoff : Z) (idx : list Z) : bool :=
  (0 <=? cutoff) && (norm2 (wnvec D N idx) <=? cutoff * cutoff).
Definition oddball_mask (D : nat) (N : Z) (idx : list Z) : bool :=
  if Z.odd N then true else low_pass_axis D N ((N / 2 + 1 - 1) - 1) idx.

(* scaling arrays: per-axis factor N or N/denominator; exponent of 2 in the denominator *)
Definition axis_plain (N k : Z) (is_rfft_axis : bool) : bool :=
  (k =? 0) || (Z.even N && (if is_rfft_axis then k =? N / 2 else k =? - N / 2)).
(* number of factors 1/2: rightmost denominator dr, others do (1 or 2) *)
Definition scaling_halvings (D : nat) (N : Z) (dr dother : Z) (idx : list Z) : Z :=
  fold_right Z.add 0
    (map (fun c => let last := (c =? D - 1)%nat in
                   if axis_plain N (wn D N c idx) last then 0
                   else if (if last then dr else dother) =? 2 then 1 else 0) (seq 0 D)).
Definition mode_denoms (mode : Z) : Z * Z :=        (* (rightmost, others) *)
  match mode with 10 => (1, 1) | 11 => (2, 1) | _ => (2, 2) end.

(* get_modes_slices: block b (bits of b choose left/right per leading axis) of a grid with n points.
   Python slice semantics on an axis of length len: [None:stop] = [0, min stop len), [-m:None] = [max (len-m) 0, len) *)
Definition slice_left (n : Z) : Z := if Z.even n then n / 2 else n / 2 + 1.   (* exclusive stop of the left slice *)
Definition slice_right (n : Z) : Z := n / 2.                                    (* the right slice takes the last n/2 entries *)
Definition in_left (n len j : Z) : bool := (0 <=? j) && (j <? Z.min (slice_left n) len).
Definition in_right (n len j : Z) : bool := (Z.max (len - slice_right n) 0 <=? j) && (j <? len).
Definition in_last (n len j : Z) : bool := (0 <=? j) && (j <? Z.min (n / 2 + 1) len).

(* grid *)
Definition grid_num (full : bool) (N j : Z) : Z * Z := (j, N).   (* x_j = j * L / N, j = 0..N-1 (N when full) *)
Definition grid_len (full : bool) (N : Z) : Z := if full then N + 1 else N.
Definition wrap_index (N j : Z) : Z := j mod N.                  (* wrap_bc: entry N is entry 0 *)

(* dealiasing cutoff of BaseNonlinearFun: floor-free form  cutoff = frac * (N/2) - 1 with frac = p/q;
   |k| <= cutoff  <=>  q*|k| <= p*(N/2) - q *)
Definition dealias_keeps (p q N k : Z) : bool := q * Z.abs k <=? p * (N / 2) - q.
Definition dealias_K (p q N : Z) : Z := (p * (N / 2)) / q - 1.    (* largest retained |k| (may be negative = nothing) *)
