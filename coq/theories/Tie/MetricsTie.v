(* C16 tie: the mode logic, the aggregator and the exponent tables of exponax/metrics regenerated from the source (Gen/MetricsGen.v, written
   by harness/translate/metrics.py) ARE those of the hand-written model Metrics/Metrics.v and of the translated guards Gen/Guards.v. *)
From Coq Require Import ZArith QArith List Bool Field Ring.
From EXV Require Import Base.Scalar Base.FieldLemmas Gen.Guards Metrics.Metrics Gen.MetricsGen.
Import ListNotations.

Lemma spatial_raises_tie ref_none mode : gen_spatial_norm_raises ref_none mode = spatial_norm_raises ref_none mode.
Proof. unfold gen_spatial_norm_raises, spatial_norm_raises. destruct ref_none, (mode =? 1)%Z, (mode =? 2)%Z; reflexivity. Qed.

Lemma fourier_raises_tie ref_none mode : gen_fourier_norm_raises ref_none mode = fourier_norm_raises ref_none mode.
Proof. unfold gen_fourier_norm_raises, fourier_norm_raises. destruct ref_none, (mode =? 1)%Z; reflexivity. Qed.

Section Field.
  Variable F : FieldT.
  Add Field Ffm : (fth F).
  Local Open Scope fld_scope.

  Lemma combine_spatial_tie mode (d s r : F) : gen_combine_spatial F mode d s r = combine_spatial F mode d s r.
  Proof.
    unfold gen_combine_spatial, combine_spatial. destruct (mode =? 1)%Z; [reflexivity|]. destruct (mode =? 2)%Z; [|reflexivity].
    f_equal. unfold two. cbn [fz fpos]. ring.
  Qed.

  Lemma combine_fourier_tie mode (d s r : F) : gen_combine_fourier F mode d s r = combine_fourier F mode d s r.
  Proof. reflexivity. Qed.

  (* the aggregator with inner exponent 2: for ANY real power with |x|^2 = x x, the source computes root ((L/N)^D sum x^2) with root = (.)^outer *)
  Lemma spatial_aggregator_tie (powr : F -> F -> F) (absf root : F -> F) (outer : F) D N (L : F) (u : list F) :
    (forall x, powr (absf x) (fz 2) = x * x) -> (forall y, powr y outer = root y) ->
    gen_spatial_aggregator F powr absf D N L (fz 2) outer u = spatial_agg F root D N L u.
  Proof.
    intros H2 Hr. unfold gen_spatial_aggregator, spatial_agg, vol, sumsq, sqr. cbv zeta. rewrite Hr. do 3 f_equal.
    apply map_ext. intros x. apply H2.
  Qed.
End Field.

(* the documented exponents: MAE-type (1, 1), MSE-type (2, 1), RMSE-type (2, 1/2); modes absolute / normalized / symmetric *)
Lemma tables_tie :
  gen_table_spatial = [(0%Z, (1 # 1)%Q, (1 # 1)%Q); (1%Z, (1 # 1)%Q, (1 # 1)%Q); (2%Z, (1 # 1)%Q, (1 # 1)%Q); (0%Z, (2 # 1)%Q, (1 # 1)%Q); (1%Z, (2 # 1)%Q, (1 # 1)%Q); (2%Z, (2 # 1)%Q, (1 # 1)%Q); (0%Z, (2 # 1)%Q, (1 # 2)%Q); (1%Z, (2 # 1)%Q, (1 # 2)%Q); (2%Z, (2 # 1)%Q, (1 # 2)%Q)]
  /\ gen_table_fourier = [(0%Z, (1 # 1)%Q, (1 # 1)%Q); (1%Z, (1 # 1)%Q, (1 # 1)%Q); (0%Z, (2 # 1)%Q, (1 # 1)%Q); (1%Z, (2 # 1)%Q, (1 # 1)%Q); (0%Z, (2 # 1)%Q, (1 # 2)%Q); (1%Z, (2 # 1)%Q, (1 # 2)%Q)]
  /\ gen_H1_derivative_orders = [None; Some 1%Z].
Proof. repeat split; reflexivity. Qed.
