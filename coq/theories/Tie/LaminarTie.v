(* C12 tie: on the laminar subspace the SOURCE text of the two Kolmogorov nonlinear functions (Gen/NonlinFuns.v, tied in Tie/NonlinTie.v)
   returns exactly its forcing array. *)
From Coq Require Import ZArith QArith List Bool Field Ring Lia.
From EXV Require Import Base.Scalar Base.FieldLemmas Layout.Freq Nonlin.Conv Nonlin.ConvProofs Nonlin.Terms Nonlin.TermsProofs Nonlin.Laminar3D
  Gen.NonlinFuns Tie.NonlinTie.
Import ListNotations.
Local Open Scope fld_scope.

Section Tie.
  Variable F : FieldT.
  Add Field Fflam : (fth F).

  Lemma laminar_source_terms (N Kc : Z) (ii s ND b : F) (w u0 inj : field F) (injs : list (field F)) (i : nat) (k : list Z) :
    (0 < N)%Z -> (0 <= Kc)%Z -> (2 * Kc < N)%Z -> ii <> 0 -> s <> 0 ->
    ((forall x, nth 0 x 0%Z <> 0%Z -> w x = 0) ->
       gen_vorticity_conv_kolmogorov F (msk F Kc) (prod2 F 2 N Kc) (prod3 F 2 N Kc) ii s 2 ND b inj w k = inj k)
    /\ ((forall x, nth 0 x 0%Z <> 0%Z \/ nth 2 x 0%Z <> 0%Z -> u0 x = 0) -> (i < 3)%nat -> length k = 3%nat ->
       nth i (gen_projected_conv_kolmogorov F (msk F Kc) (prod2 F 3 N Kc) (prod3 F 3 N Kc) ii s 3 ND injs [u0; fzero F; fzero F]) (fzero F) k
       = nth i injs (fzero F) k).
  Proof.
    intros HN HK H2 Hi Hs. split.
  - intros Hw.
    assert (Lext : forall a a' c c' x, (forall y, a y = a' y) -> (forall y, c y = c' y) -> prod2 F 2 N Kc a c x = prod2 F 2 N Kc a' c' x) by (intros; apply prod2_ext; assumption).
    assert (Lidem : forall a x, msk F Kc (msk F Kc a) x = msk F Kc a x) by (intros; apply msk_idem).
    assert (L2M : forall a c x, prod2 F 2 N Kc (msk F Kc a) (msk F Kc c) x = prod2 F 2 N Kc a c x) by (intros; apply prod2_msk).
    assert (L3M : forall a c e x, prod3 F 2 N Kc (msk F Kc a) (msk F Kc c) (msk F Kc e) x = prod3 F 2 N Kc a c e x) by (intros; apply prod3_msk).
    rewrite vorticity_conv_kolmogorov_tie by assumption. rewrite vorticity_conv_laminar by exact Hw. ring.
  - intros Hu Hi3 Hl. rewrite projected_conv_kolmogorov_tie by exact Hi3.
    rewrite projected_conv_laminar by assumption. ring.
Qed.
End Tie.
