(* C15 tie: what decides the result of map_between_resolutions in the source (Gen/ResampleGen.v, written by
   harness/translate/resample.py: early return, the two oddball-mask conditions, the grid whose mode blocks are copied, the scaling
   modes) IS what the hand-written model Layout/Resample.v uses -- for all grid sizes, both flag values, every wavenumber vector. *)
From Coq Require Import ZArith List Bool Zdiv Lia.
From EXV Require Import Base.Scalar Layout.Freq Layout.Resample Gen.ResampleGen.
Import ListNotations.
Local Open Scope Z_scope.

Lemma mask_old_tie n m oz : gen_mbr_mask_old n m oz = (n <? m) && Z.even n && oz.
Proof. unfold gen_mbr_mask_old. rewrite Z.gtb_ltb, Zmod_even. destruct (Z.even n); reflexivity. Qed.

Lemma mask_new_tie n m oz : gen_mbr_mask_new n m oz = (m <? n) && Z.even m && oz.
Proof. unfold gen_mbr_mask_new. rewrite Z.gtb_ltb, Zmod_even. destruct (Z.even m); reflexivity. Qed.

Theorem resample_decisions_tie n m oz k :
  resample_keeps n m oz k =
    vec_copied (gen_mbr_block_size n m) k
    && (if gen_mbr_mask_old n m oz then odd_ok n k else true)
    && (if gen_mbr_mask_new n m oz then odd_ok m k else true).
Proof. unfold resample_keeps. rewrite mask_old_tie, mask_new_tie. reflexivity. Qed.

Theorem resample_coef_tie (K : Ops) n m oz (old : list Z -> K) k :
  resample_coef K n m oz old k =
    if gen_mbr_identity n m then old k
    else if vec_copied (gen_mbr_block_size n m) k
            && (if gen_mbr_mask_old n m oz then odd_ok n k else true)
            && (if gen_mbr_mask_new n m oz then odd_ok m k else true)
         then omul (fpow (odiv (fz m) (fz n)) (length k)) (old k) else o0.
Proof. unfold resample_coef, gen_mbr_identity. rewrite resample_decisions_tie. reflexivity. Qed.

Lemma scaling_modes_tie : gen_mbr_scaling_mode_old = 10 /\ gen_mbr_scaling_mode_new = 10 /\ mode_denoms 10 = (1, 1).
Proof. repeat split; reflexivity. Qed.
