(* C13 tie: the conversion functions regenerated from exponax/stepper/generic/_utils.py are mutual inverses,
   follow the documented formulas, and leave the dynamics (dt * symbol) unchanged. *)
From Coq Require Import ZArith QArith List Bool Field Ring Lia.
From EXV Require Import Base.Scalar Base.FieldLemmas Spectral.Symbols Gen.GenericUtils.
Import ListNotations.
Local Open Scope fld_scope.

Section Tie.
  Variable F : FieldT.
  Add Field Ff : (fth F).
  Notation K := (fops F).

  Lemma fzpow_nat (x : F) (n : nat) : fzpow x (Z.of_nat n) = fpow x n.
  Proof.
    destruct n as [|n]; [reflexivity|]. cbn [Z.of_nat fzpow]. rewrite SuccNat2Pos.id_succ. reflexivity.
  Qed.

  Lemma fzpow_neq0 (x : F) (z : Z) : x <> 0 -> fzpow x z <> 0.
  Proof.
    intros Hx. destruct z; cbn [fzpow]; [apply f_1_neq_0 | apply fpow_neq0; exact Hx |].
    apply finv_neq0. apply fpow_neq0. exact Hx.
  Qed.

  Ltac nzs := repeat split; try assumption; try (apply fzpow_neq0; assumption); try (apply fpow_neq0; assumption);
              try apply f_1_neq_0.

  Lemma imap_from_ext {A B} (f g : nat -> A -> B) s l :
    (forall j a, f j a = g j a) -> imap_from s f l = imap_from s g l.
  Proof. intros H. revert s. induction l as [|a l IH]; intros s; cbn; [reflexivity|]. rewrite H, IH. reflexivity. Qed.

  Lemma imap_from_imap_from {A B C} (f : nat -> A -> B) (g : nat -> B -> C) s l :
    imap_from s g (imap_from s f l) = imap_from s (fun j a => g j (f j a)) l.
  Proof. revert s. induction l as [|a l IH]; intros s; cbn; [reflexivity|]. rewrite IH. reflexivity. Qed.

  Lemma imap_from_id {A} (f : nat -> A -> A) s l : (forall j a, f j a = a) -> imap_from s f l = l.
  Proof. intros H. revert s. induction l as [|a l IH]; intros s; cbn; [reflexivity|]. rewrite H, IH. reflexivity. Qed.

  Lemma nth_imap_from {A B} (f : nat -> A -> B) s l j da db :
    (j < length l)%nat -> nth j (imap_from s f l) db = f (s + j)%nat (nth j l da).
  Proof.
    revert s j. induction l as [|a l IH]; intros s j Hj; cbn in Hj; [lia|].
    destruct j as [|j]; cbn [imap_from nth]; [rewrite Nat.add_0_r; reflexivity|].
    rewrite (IH (S s) j) by lia. f_equal. lia.
  Qed.

  (* ---- normalize / denormalize ---- *)
  Section Normalize.
    Variables L dt : F.
    Hypothesis L_nz : L <> 0.
    Hypothesis dt_nz : dt <> 0.

    Lemma denormalize_normalize a : denormalize_coefficients F L dt (normalize_coefficients F L dt a) = a.
    Proof.
      unfold denormalize_coefficients, normalize_coefficients, imap. rewrite imap_from_imap_from.
      apply imap_from_id. intros j c. field. nzs.
    Qed.

    Lemma normalize_denormalize a : normalize_coefficients F L dt (denormalize_coefficients F L dt a) = a.
    Proof.
      unfold denormalize_coefficients, normalize_coefficients, imap. rewrite imap_from_imap_from.
      apply imap_from_id. intros j c. field. nzs.
    Qed.

    Lemma normalize_formula a j : (j < length a)%nat ->
      nth j (normalize_coefficients F L dt a) 0 = nth j a 0 * dt / fpow L j.
    Proof.
      intros Hj. unfold normalize_coefficients, imap. rewrite (nth_imap_from _ 0 a j 0 0 Hj).
      cbn [Nat.add]. rewrite fzpow_nat. reflexivity.
    Qed.

    Lemma convection_inverse b :
      denormalize_convection_scale F L dt (normalize_convection_scale F L dt b) = b
      /\ normalize_convection_scale F L dt (denormalize_convection_scale F L dt b) = b
      /\ normalize_convection_scale F L dt b = b * dt / L.
    Proof.
      unfold denormalize_convection_scale, normalize_convection_scale.
      repeat split; try reflexivity; field; nzs.
    Qed.

    Lemma gradient_norm_inverse b :
      denormalize_gradient_norm_scale F L dt (normalize_gradient_norm_scale F L dt b) = b
      /\ normalize_gradient_norm_scale F L dt (denormalize_gradient_norm_scale F L dt b) = b
      /\ normalize_gradient_norm_scale F L dt b = b * dt / (L * L).
    Proof.
      unfold denormalize_gradient_norm_scale, normalize_gradient_norm_scale. cbn [fpow].
      repeat split; field; nzs.
    Qed.

    Lemma polynomial_inverse (c : list F) :
      denormalize_polynomial_scales F L dt (normalize_polynomial_scales F L dt c) = c
      /\ normalize_polynomial_scales F L dt (denormalize_polynomial_scales F L dt c) = c.
    Proof.
      unfold denormalize_polynomial_scales, normalize_polynomial_scales. rewrite !map_map.
      split; (rewrite <- (map_id c) at 2; apply map_ext; intros x; field; exact dt_nz).
    Qed.
  End Normalize.

  (* ---- difficulty ---- *)
  Section Difficulty.
    Variables D N M : F.
    Hypothesis D_nz : D <> 0.
    Hypothesis N_nz : N <> 0.
    Hypothesis M_nz : M <> 0.
    Let two_nz : @fz F 2 <> 0. Proof. apply fz_neq0. discriminate. Qed.

    Lemma set0_imap_from (f : nat -> F -> F) l :
      set0 F (imap_from 0 f l) l = match l with [] => [] | x :: r => x :: imap_from 1 f r end.
    Proof. destruct l; reflexivity. Qed.

    Lemma extract_reduce a :
      extract_normalized_coefficients_from_difficulty F D N (reduce_normalized_coefficients_to_difficulty F D N a) = a.
    Proof.
      unfold extract_normalized_coefficients_from_difficulty, reduce_normalized_coefficients_to_difficulty, imap.
      destruct a as [|a0 r]; [reflexivity|]. cbn [imap_from set0]. f_equal.
      rewrite imap_from_imap_from. apply imap_from_id. intros j c. field.
      nzs.
    Qed.

    Lemma reduce_extract a :
      reduce_normalized_coefficients_to_difficulty F D N (extract_normalized_coefficients_from_difficulty F D N a) = a.
    Proof.
      unfold extract_normalized_coefficients_from_difficulty, reduce_normalized_coefficients_to_difficulty, imap.
      destruct a as [|a0 r]; [reflexivity|]. cbn [imap_from set0]. f_equal.
      rewrite imap_from_imap_from. apply imap_from_id. intros j c. field.
      nzs.
    Qed.

    (* documented reduction: gamma_0 = alpha_0, gamma_j = alpha_j N^j 2^(j-1) D *)
    Lemma reduce_formula a j : (j < length a)%nat ->
      nth j (reduce_normalized_coefficients_to_difficulty F D N a) 0
      = match j with O => nth 0 a 0 | S j' => nth j a 0 * fpow N j * fpow (fz 2) j' * D end.
    Proof.
      intros Hj. unfold reduce_normalized_coefficients_to_difficulty, imap.
      destruct a as [|a0 r]; [cbn in Hj; lia|]. cbn [imap_from set0].
      destruct j as [|j']; [reflexivity|]. cbn [nth]. cbn in Hj.
      rewrite (nth_imap_from _ 1 r j' 0 0) by lia. rewrite !fzpow_nat.
      replace (Z.of_nat (1 + j') - 1)%Z with (Z.of_nat j') by lia. rewrite fzpow_nat. reflexivity.
    Qed.

    Lemma convection_difficulty_inverse b :
      extract_normalized_convection_scale_from_difficulty F D N M (reduce_normalized_convection_scale_to_difficulty F D N M b) = b
      /\ reduce_normalized_convection_scale_to_difficulty F D N M (extract_normalized_convection_scale_from_difficulty F D N M b) = b
      /\ reduce_normalized_convection_scale_to_difficulty F D N M b = b * M * N * D.
    Proof.
      unfold extract_normalized_convection_scale_from_difficulty, reduce_normalized_convection_scale_to_difficulty.
      repeat split; try reflexivity; field; nzs.
    Qed.

    Lemma gradient_norm_difficulty_inverse b :
      extract_normalized_gradient_norm_scale_from_difficulty F D N M (reduce_normalized_gradient_norm_scale_to_difficulty F D N M b) = b
      /\ reduce_normalized_gradient_norm_scale_to_difficulty F D N M (extract_normalized_gradient_norm_scale_from_difficulty F D N M b) = b
      /\ reduce_normalized_gradient_norm_scale_to_difficulty F D N M b = b * M * (N * N) * D.
    Proof.
      unfold extract_normalized_gradient_norm_scale_from_difficulty, reduce_normalized_gradient_norm_scale_to_difficulty. cbn [fpow].
      repeat split; field; nzs.
    Qed.

    Lemma nonlinear_difficulty_inverse b0 b1 b2 :
      extract_normalized_nonlinear_scales_from_difficulty F D N M
        (reduce_normalized_nonlinear_scales_to_difficulty F D N M [b0; b1; b2]) = [b0; b1; b2]
      /\ reduce_normalized_nonlinear_scales_to_difficulty F D N M
        (extract_normalized_nonlinear_scales_from_difficulty F D N M [b0; b1; b2]) = [b0; b1; b2].
    Proof.
      unfold extract_normalized_nonlinear_scales_from_difficulty, reduce_normalized_nonlinear_scales_to_difficulty.
      cbn [nth].
      destruct (convection_difficulty_inverse b1) as (H1 & H2 & _).
      destruct (gradient_norm_difficulty_inverse b2) as (H3 & H4 & _).
      rewrite H1, H2, H3, H4. split; reflexivity.
    Qed.
  End Difficulty.

  (* ---- dynamics: only the non-dimensional groups matter ---- *)
  Lemma fsum_imap_from_scal {A} (c : F) (f : nat -> A -> F) s l :
    fsum (imap_from s (fun j a => c * f j a) l) = c * fsum (imap_from s f l).
  Proof. revert s. induction l as [|a l IH]; intros s; cbn [imap_from fsum]; [ring | rewrite IH; ring]. Qed.

  Lemma fsum_imap_from_ext {A} (f g : nat -> A -> F) s l :
    (forall j a, f j a = g j a) -> fsum (imap_from s f l) = fsum (imap_from s g l).
  Proof. intros H. rewrite (imap_from_ext f g s l H). reflexivity. Qed.

  (* dt * symbol_{L,a}(k) = symbol_{1,alpha}(k) with alpha = normalize a; tp stands for 2*pi *)
  Theorem normalized_symbol_eq (ii tp L dt : F) (a : list F) (k : list Z) :
    L <> 0 ->
    dt * poly_sym F a (dop F ii (tp / L) k)
    = poly_sym F (normalize_coefficients F L dt a) (dop F ii (tp / 1) k).
  Proof.
    intros HL. unfold poly_sym, normalize_coefficients, imap, dop.
    rewrite imap_from_imap_from. rewrite <- fsum_imap_from_scal.
    apply fsum_imap_from_ext. intros j c. rewrite !map_map.
    rewrite <- fsum_map_scal. apply fsum_map_ext. intros kc _.
    rewrite fzpow_nat.
    replace (ii * (tp / L * fz kc)) with ((ii * (tp / 1 * fz kc)) * oinv L) by (field; nzs).
    rewrite fpow_mul_base, fpow_inv by exact HL. field. apply fpow_neq0. exact HL.
  Qed.

  (* rescaling (L, dt, a) -> (s L, t dt, a_j s^j / t) leaves dt * symbol unchanged *)
  Theorem rescaling_invariance (L dt s t : F) (a : list F) :
    L <> 0 -> s <> 0 -> t <> 0 -> dt <> 0 ->
    normalize_coefficients F (s * L) (t * dt) (imap (fun j aj => aj * fpow s j / t) a)
    = normalize_coefficients F L dt a.
  Proof.
    intros HL Hs Ht Hdt. unfold normalize_coefficients, imap. rewrite imap_from_imap_from.
    apply imap_from_ext. intros j c. rewrite !fzpow_nat, fpow_mul_base. field.
    nzs.
  Qed.
End Tie.
