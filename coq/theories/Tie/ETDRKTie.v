(* The tie for the ETDRK family: the definitions regenerated from /repo (Gen/ETDRK.v) are the
   phi-function tableaux of ETDRK/Phi.v.  A formula edit in the Python breaks a lemma here. *)
From Coq Require Import ZArith QArith List Bool Field Ring.
From EXV Require Import Base.Scalar Base.FieldLemmas ETDRK.Phi Gen.ETDRK.
Import ListNotations.
Local Open Scope fld_scope.

Section Tie.
  Variable F : FieldT.
  Add Field Ff : (fth F).
  Notation K := (fops F).

  Lemma two_nz : @fz F 2 <> 0. Proof. apply fz_neq0. discriminate. Qed.

  Ltac nz := repeat split; try assumption; try exact (two_neq0 F); try apply two_nz.
  Ltac unf := unfold phi3, phi2, phi1, phi0, half, fq; cbn [fz fpos fpow Qnum Qden].

  (* ---- closed forms = phi-function combinations (any z <> 0, any e, eh) ---- *)
  Lemma etdrk1_c1 z e eh : z <> 0 -> etdrk1_integrand_1 F z e eh = phi1 z e.
  Proof. intros. unfold etdrk1_integrand_1. unf. field. nz. Qed.
  Lemma etdrk2_c1 z e eh : z <> 0 -> etdrk2_integrand_1 F z e eh = phi1 z e.
  Proof. intros. unfold etdrk2_integrand_1. unf. field. nz. Qed.
  Lemma etdrk2_c2 z e eh : z <> 0 -> etdrk2_integrand_2 F z e eh = phi2 z e.
  Proof. intros. unfold etdrk2_integrand_2. unf. field. nz. Qed.
  Lemma etdrk3_c1 z e eh : z <> 0 -> etdrk3_integrand_1 F z e eh = phi1 (half z) eh / fz 2.
  Proof. intros. unfold etdrk3_integrand_1. unf. field. nz. Qed.
  Lemma etdrk3_c2 z e eh : z <> 0 -> etdrk3_integrand_2 F z e eh = phi1 z e.
  Proof. intros. unfold etdrk3_integrand_2. unf. field. nz. Qed.
  Lemma etdrk3_c3 z e eh : z <> 0 ->
    etdrk3_integrand_3 F z e eh = phi1 z e - fz 3 * phi2 z e + fz 4 * phi3 z e.
  Proof. intros. unfold etdrk3_integrand_3. unf. field. nz. Qed.
  Lemma etdrk3_c4 z e eh : z <> 0 ->
    etdrk3_integrand_4 F z e eh = fz 4 * phi2 z e - fz 8 * phi3 z e.
  Proof. intros. unfold etdrk3_integrand_4. unf. field. nz. Qed.
  Lemma etdrk3_c5 z e eh : z <> 0 ->
    etdrk3_integrand_5 F z e eh = - phi2 z e + fz 4 * phi3 z e.
  Proof. intros. unfold etdrk3_integrand_5. unf. field. nz. Qed.
  Lemma etdrk4_c1 z e eh : z <> 0 -> etdrk4_integrand_1 F z e eh = phi1 (half z) eh / fz 2.
  Proof. intros. unfold etdrk4_integrand_1. unf. field. nz. Qed.
  Lemma etdrk4_c2 z e eh : etdrk4_integrand_2 F z e eh = etdrk4_integrand_1 F z e eh.
  Proof. reflexivity. Qed.
  Lemma etdrk4_c3 z e eh : etdrk4_integrand_3 F z e eh = etdrk4_integrand_1 F z e eh.
  Proof. reflexivity. Qed.
  Lemma etdrk4_c4 z e eh : z <> 0 ->
    etdrk4_integrand_4 F z e eh = phi1 z e - fz 3 * phi2 z e + fz 4 * phi3 z e.
  Proof. intros. unfold etdrk4_integrand_4. unf. field. nz. Qed.
  Lemma etdrk4_c5 z e eh : z <> 0 ->
    fz 2 * etdrk4_integrand_5 F z e eh = fz 2 * phi2 z e - fz 4 * phi3 z e.
  Proof. intros. unfold etdrk4_integrand_5. unf. field. nz. Qed.
  Lemma etdrk4_c6 z e eh : z <> 0 ->
    etdrk4_integrand_6 F z e eh = - phi2 z e + fz 4 * phi3 z e.
  Proof. intros. unfold etdrk4_integrand_6. unf. field. nz. Qed.

  (* the arguments of the exponentials and the contour points *)
  Lemma exp_args dt lam :
    base_exp_arg F dt lam = dt * lam /\ etdrk3_half_exp_arg F dt lam = half (dt * lam)
    /\ etdrk4_half_exp_arg F dt lam = half (dt * lam)
    /\ etdrk1_Ldt F dt lam = dt * lam /\ etdrk2_Ldt F dt lam = dt * lam
    /\ etdrk3_Ldt F dt lam = dt * lam /\ etdrk4_Ldt F dt lam = dt * lam.
  Proof.
    unfold base_exp_arg, etdrk3_half_exp_arg, etdrk4_half_exp_arg, etdrk1_Ldt, etdrk2_Ldt, etdrk3_Ldt, etdrk4_Ldt.
    unf. repeat split; try ring; field; nz.
  Qed.

  Lemma contour_points r w z lr :
    etdrk1_lr F r w z = z + r * w /\ etdrk2_lr F r w z = z + r * w /\ etdrk3_lr F r w z = z + r * w
    /\ etdrk4_lr F r w z = z + r * w /\ etdrk3_half_arg F lr = half lr /\ etdrk4_half_arg F lr = half lr.
  Proof.
    unfold etdrk1_lr, etdrk2_lr, etdrk3_lr, etdrk4_lr, etdrk3_half_arg, etdrk4_half_arg. unf.
    repeat split; ring.
  Qed.

  (* contour points are the half-shifted roots: exponent = i*pi*(2j-1)/M, so w_j^M = -1 *)
  Lemma root_arg_half_shift ii pi j M : M <> 0 ->
    fz 2 * M * root_arg F ii pi j M = (ii * pi) * (fz 2 * (fz 2 * j - 1)).
  Proof. intros. unfold root_arg. unf. field. nz. Qed.

  (* ---- stage programs = tableaux ---- *)
  Section Steps.
    Variable I : Type.
    Variable h : F.
    Variables z E Eh : I -> F.
    Variable N : (I -> F) -> (I -> F).
    Hypothesis N_ext : forall u v, (forall k, u k = v k) -> forall k, N u k = N v k.
    Hypothesis z_nz : forall k, z k <> 0.
    Let coef (f : F -> F -> F -> F) : I -> F := fun k => h * f (z k) (E k) (Eh k).

    Lemma step1_tableau u k :
      etdrk1_step F E (coef (etdrk1_integrand_1 F)) N u k = etd1 h z E N u k.
    Proof.
      unfold etdrk1_step, etd1, coef. rewrite etdrk1_c1 by apply z_nz. ring.
    Qed.

    (* replace the argument of one application of N by the pointwise-equal state [v];
       backtracks over the applications of N in the goal until [tac] proves the pointwise equality *)
    Ltac nrw N_ext N v H tac :=
      match goal with
      | |- context [N ?f _] =>
          lazymatch f with v => fail | _ => idtac end;
          assert (H : forall j', N f j' = N v j') by (apply N_ext; intros ?; tac);
          rewrite ?H
      end.

    Lemma step2_tableau u k :
      etdrk2_step F E (coef (etdrk2_integrand_1 F)) (coef (etdrk2_integrand_2 F)) N u k
      = etd2rk h z E N u k.
    Proof.
      unfold etdrk2_step, etd2rk, coef. cbv beta zeta.
      set (a := fun k0 : I => E k0 * u k0 + h * (phi1 (z k0) (E k0) * N u k0)).
      nrw N_ext N a Ha ltac:(unfold a; rewrite ?etdrk2_c1 by apply z_nz; ring).
      rewrite etdrk2_c1, etdrk2_c2 by apply z_nz. ring.
    Qed.

    Lemma step3_tableau u k :
      etdrk3_step F E Eh (coef (etdrk3_integrand_1 F)) (coef (etdrk3_integrand_2 F))
        (coef (etdrk3_integrand_3 F)) (coef (etdrk3_integrand_4 F)) (coef (etdrk3_integrand_5 F)) N u k
      = etd3rk h z E Eh N u k.
    Proof.
      unfold etdrk3_step, etd3rk, coef. cbv beta zeta.
      set (a := fun k0 : I => Eh k0 * u k0 + h * (phi1 (half (z k0)) (Eh k0) / fz 2 * N u k0)).
      nrw N_ext N a Ha ltac:(unfold a; rewrite ?etdrk3_c1 by apply z_nz; ring).
      set (b := fun k0 : I => E k0 * u k0 + h * (- phi1 (z k0) (E k0) * N u k0 + fz 2 * phi1 (z k0) (E k0) * N a k0)).
      nrw N_ext N b Hb ltac:(unfold b; rewrite ?Ha; rewrite ?etdrk3_c2 by apply z_nz; cbn [fz fpos]; ring).
      rewrite etdrk3_c3, etdrk3_c4, etdrk3_c5 by apply z_nz. ring.
    Qed.

    Lemma step4_tableau u k :
      etdrk4_step F E Eh (coef (etdrk4_integrand_1 F)) (coef (etdrk4_integrand_2 F))
        (coef (etdrk4_integrand_3 F)) (coef (etdrk4_integrand_4 F)) (coef (etdrk4_integrand_5 F))
        (coef (etdrk4_integrand_6 F)) N u k
      = etd4rk h z E Eh N u k.
    Proof.
      unfold etdrk4_step, etd4rk, coef. cbv beta zeta. rewrite ?etdrk4_c2, ?etdrk4_c3.
      set (a := fun k0 : I => Eh k0 * u k0 + h * (phi1 (half (z k0)) (Eh k0) / fz 2 * N u k0)).
      assert (Ha0 : forall j, Eh j * u j + h * etdrk4_integrand_1 F (z j) (E j) (Eh j) * N u j = a j).
      { intros j. unfold a. rewrite etdrk4_c1 by apply z_nz. ring. }
      nrw N_ext N a Ha ltac:(apply Ha0).
      set (b := fun k0 : I => Eh k0 * u k0 + h * (phi1 (half (z k0)) (Eh k0) / fz 2 * N a k0)).
      nrw N_ext N b Hb ltac:(unfold b; rewrite ?Ha; rewrite ?etdrk4_c1 by apply z_nz; ring).
      set (c := fun k0 : I => Eh k0 * (Eh k0 * u k0 + h * (phi1 (half (z k0)) (Eh k0) / fz 2 * N u k0))
                               + h * (phi1 (half (z k0)) (Eh k0) / fz 2 * (fz 2 * N b k0 - N u k0))).
      nrw N_ext N c Hc ltac:(unfold c; rewrite ?Ha, ?Hb; rewrite ?etdrk4_c1 by apply z_nz; cbn [fz fpos]; ring).
      rewrite etdrk4_c4, etdrk4_c6 by apply z_nz.
      assert (H5 := etdrk4_c5 (z k) (E k) (Eh k) (z_nz k)).
      transitivity (E k * u k + h * ((phi1 (z k) (E k) - fz 3 * phi2 (z k) (E k) + fz 4 * phi3 (z k) (E k)) * N u k
            + (fz 2 * etdrk4_integrand_5 F (z k) (E k) (Eh k)) * (N a k + N b k)
            + (- phi2 (z k) (E k) + fz 4 * phi3 (z k) (E k)) * N c k)).
      { ring. }
      rewrite H5. ring.
    Qed.

    Lemma step0_linear u k : etdrk0_step F E u k = E k * u k.
    Proof. reflexivity. Qed.
  End Steps.
End Tie.
