(* C04 / C05 tie: the layout functions regenerated from exponax/_spectral.py (Gen/SpectralGen.v, written by
   harness/translate/spectral.py) ARE the hand-written integer layout of Layout/Freq.v -- for every number of axes D >= 1, every
   grid size, every cutoff, both indexing conventions, every stored index.

   The generated definitions describe one array element; the NumPy contracts they rest on (fftfreq / rfftfreq, meshgrid, list
   replication / reversal, the integer form of `norm <= cutoff`) are listed in the header of the translator and of Layout/Freq.v. *)
From Coq Require Import ZArith QArith List Bool Field Ring Lia Zdiv ZifyBool.
From EXV Require Import Base.Scalar Base.FieldLemmas Layout.Freq Gen.SpectralGen.
Import ListNotations.

Section Lists.
  Context {A B : Type}.
  Lemma fold_left_andb (f : A -> bool) l b : fold_left (fun acc c => acc && f c) l b = b && forallb f l.
  Proof.
    revert b. induction l as [|x l IH]; intros b; cbn [fold_left forallb]; [now rewrite andb_true_r|].
    rewrite IH, andb_assoc. reflexivity.
  Qed.
  Lemma forallb_ext_in (f g : A -> bool) l : (forall x, In x l -> f x = g x) -> forallb f l = forallb g l.
  Proof.
    induction l as [|x l IH]; intros H; cbn [forallb]; [reflexivity|].
    rewrite (H x (or_introl eq_refl)), IH; [reflexivity|]. intros y Hy. apply H. right. exact Hy.
  Qed.
  Lemma forallb_map' (f : B -> bool) (g : A -> B) l : forallb f (map g l) = forallb (fun x => f (g x)) l.
  Proof. induction l as [|x l IH]; cbn [map forallb]; [reflexivity|]. rewrite IH. reflexivity. Qed.
End Lists.

Local Open Scope Z_scope.
Ltac Zify.zify_post_hook ::= Z.to_euclidean_division_equations.
Ltac split_ifs := repeat match goal with |- context [if ?b then _ else _] => destruct b eqn:? end.

(* ---- shapes ---- *)
Lemma wavenumber_shape_tie (K : Ops) D N : gen_wavenumber_shape D N = wavenumber_shape D N.
Proof. reflexivity. Qed.

Lemma spatial_shape_tie (K : Ops) D N : gen_spatial_shape D N = repeat N D.
Proof. reflexivity. Qed.

(* range(-D, 0): D entries, entry i = i - D (the axes -D .. -1) *)
Lemma space_indices_tie D : length (gen_space_indices D) = D /\ forall i, (i < D)%nat -> nth i (gen_space_indices D) 0 = Z.of_nat i - Z.of_nat D.
Proof.
  unfold gen_space_indices, zrange. replace (Z.to_nat (0 - - Z.of_nat D)) with D by lia. split.
  - now rewrite map_length, seq_length.
  - intros i Hi. rewrite (nth_indep _ 0 (- Z.of_nat D + Z.of_nat 0)) by (rewrite map_length, seq_length; exact Hi).
    rewrite (map_nth (fun i0 : nat => - Z.of_nat D + Z.of_nat i0)), seq_nth by exact Hi. lia.
Qed.

(* ---- build_wavenumbers, both indexing conventions ---- *)
Lemma wavenumbers_tie xy D N c idx : (c < D)%nat -> gen_build_wavenumbers xy D N c idx = wavenumber xy D N c idx.
Proof.
  intros Hc. unfold gen_build_wavenumbers, wavenumber, wn_1d, rfft_component. cbv zeta.
  destruct (xy && (D =? 2)%nat) eqn:E.
  - apply andb_true_iff in E. destruct E as [_ E]. apply Nat.eqb_eq in E. subst D.
    destruct (Nat.ltb_spec (2 - 1 - c) (2 - 1)), (Nat.eqb_spec c 0); try reflexivity; lia.
  - destruct (Nat.ltb_spec c (D - 1)), (Nat.eqb_spec c (D - 1)); try reflexivity; lia.
Qed.

(* ---- masks ---- *)
Lemma low_pass_axis_tie_xy xy D N cutoff idx :
  gen_low_pass_filter_mask_axis xy D N cutoff idx = forallb (fun c => Z.abs (wavenumber xy D N c idx) <=? cutoff) (seq 0 D).
Proof.
  unfold gen_low_pass_filter_mask_axis.
  rewrite (fold_left_andb (fun c => Z.abs (gen_build_wavenumbers xy D N c idx) <=? cutoff)). cbn [andb].
  apply forallb_ext_in. intros c Hc. apply in_seq in Hc. rewrite wavenumbers_tie by lia. reflexivity.
Qed.

Lemma low_pass_axis_tie D N cutoff idx : gen_low_pass_filter_mask_axis false D N cutoff idx = low_pass_axis D N cutoff idx.
Proof. rewrite low_pass_axis_tie_xy. unfold low_pass_axis, wnvec, wn. rewrite forallb_map'. reflexivity. Qed.

Lemma low_pass_radial_tie D N cutoff idx : gen_low_pass_filter_mask_radial false D N cutoff idx = low_pass_radial D N cutoff idx.
Proof.
  unfold gen_low_pass_filter_mask_radial, low_pass_radial, norm_le, norm2, wnvec, wn. do 3 f_equal.
  apply map_ext_in. intros c Hc. apply in_seq in Hc. apply (wavenumbers_tie false D N c idx). lia.
Qed.

Lemma oddball_tie D N idx : gen_oddball_filter_mask D N idx = oddball_mask D N idx.
Proof.
  unfold oddball_mask. rewrite <- low_pass_axis_tie. unfold gen_oddball_filter_mask, gen_low_pass_filter_mask_axis.
  rewrite Zmod_odd. destruct (Z.odd N); reflexivity.
Qed.

(* ---- get_modes_slices: the three slices, with Python's semantics of None / negative bounds on an axis of length len ---- *)
Definition py_start (len : Z) (s : option Z) : Z := match s with None => 0 | Some a => if a <? 0 then Z.max (len + a) 0 else Z.min a len end.
Definition py_stop (len : Z) (s : option Z) : Z := match s with None => len | Some a => if a <? 0 then Z.max (len + a) 0 else Z.min a len end.
Definition in_py_slice (len : Z) (s : option Z * option Z) (j : Z) : bool := (py_start len (fst s) <=? j) && (j <? py_stop len (snd s)).

Lemma modes_slice_left_tie n len j : 0 < n -> 0 <= len -> in_py_slice len (gen_modes_slice_left n) j = in_left n len j.
Proof.
  intros Hn Hl. unfold in_py_slice, gen_modes_slice_left, in_left, slice_left, py_start, py_stop, fst, snd.
  rewrite Zmod_even. destruct (Z.even n); cbn [Z.eqb]; split_ifs; lia.
Qed.

Lemma modes_slice_right_tie n len j : 2 <= n -> 0 <= len -> in_py_slice len (gen_modes_slice_right n) j = in_right n len j.
Proof.
  intros Hn Hl. unfold in_py_slice, gen_modes_slice_right, in_right, slice_right, py_start, py_stop, fst, snd.
  split_ifs; lia.
Qed.

Lemma modes_slice_last_tie n len j : 0 < n -> 0 <= len -> in_py_slice len (gen_modes_slice_last n) j = in_last n len j.
Proof.
  intros Hn Hl. unfold in_py_slice, gen_modes_slice_last, in_last, py_start, py_stop, fst, snd.
  split_ifs; lia.
Qed.

(* ---- scaled wavenumbers, derivative operator, scaling arrays: over any field of characteristic 0 ---- *)
Section Field.
  Variable F : FieldT.
  Add Field Ffs : (fth F).
  Notation K := (fops F).
  Variable pi : F.
  Local Open Scope fld_scope.

  Lemma scaled_wavenumbers_tie xy D (L : F) N c idx : (c < D)%nat ->
    gen_build_scaled_wavenumbers F pi xy D L N c idx = (fz 2 * pi / L) * fz (wavenumber xy D N c idx).
  Proof. intros Hc. unfold gen_build_scaled_wavenumbers. fold (gen_build_wavenumbers xy D N c idx). rewrite wavenumbers_tie by exact Hc. reflexivity. Qed.

  (* 1j * (2 pi / L) k: real part 0 *)
  Lemma derivative_operator_tie xy D (L : F) N c idx : (c < D)%nat ->
    gen_build_derivative_operator F pi xy D L N c idx = (0, (fz 2 * pi / L) * fz (wavenumber xy D N c idx)).
  Proof. intros Hc. unfold gen_build_derivative_operator. fold (gen_build_wavenumbers xy D N c idx). rewrite wavenumbers_tie by exact Hc. reflexivity. Qed.

  (* make_grid (exponax/_utils.py): coordinate c at grid index idx is j L / N with j the index along the array axis of component c
     (N + 1 points when full, the last one being L), shifted by L / 2 when zero_centered *)
  Lemma make_grid_tie full zero_centered xy D (L : F) N c idx :
    gen_make_grid F full zero_centered xy D L N c idx =
    (let j := nth (mesh_axis xy D c) idx 0%Z in
     let x := fz (fst (grid_num full N j)) * L / fz (snd (grid_num full N j)) in
     if zero_centered then x - L / fz 2 else x).
  Proof.
    unfold gen_make_grid, grid_num, fst, snd. cbv zeta. replace (N + 1 - 1)%Z with N by lia.
    destruct full, zero_centered; reflexivity.
  Qed.

  (* per-axis factor of the ij scaling array and its count of halvings *)
  Definition axis_halving (D : nat) (N dr dother : Z) (idx : list Z) (c : nat) : Z :=
    let last := (c =? D - 1)%nat in
    if axis_plain N (wn D N c idx) last then 0%Z else if ((if last then dr else dother) =? 2)%Z then 1%Z else 0%Z.

  Lemma two_ne : (fz 2 : F) <> 0.
  Proof. exact (fchar0 F 2). Qed.

  Lemma fz1 : (fz 1 : F) = 1.
  Proof. reflexivity. Qed.

  Definition gen_axis_factor (D : nat) (N dr dother : Z) (idx : list Z) (c : nat) : F :=
    let j := nth c idx 0%Z in
    if (c <? D - 1)%nat
    then (if Z.even N && (fftfreq N j =? - N / 2)%Z then fz N else if (fftfreq N j =? 0)%Z then fz N else fz N / fz dother)
    else (if Z.even N && (rfftfreq N j =? N / 2)%Z then fz N else if (rfftfreq N j =? 0)%Z then fz N else fz N / fz dr).

  Lemma scaling_raw_unfold D N dr dother idx :
    gen_build_scaling_array_raw F false D N dr dother idx = fold_right omul (fz 1) (map (gen_axis_factor D N dr dother idx) (seq 0 D)).
  Proof.
    unfold gen_build_scaling_array_raw. cbn [andb]. rewrite Zmod_even.
    destruct (Z.even N) eqn:E; cbn [Z.eqb]; f_equal; apply map_ext; intros c; unfold gen_axis_factor, mesh_axis;
      cbn [andb]; cbv zeta; rewrite ?E; cbn [andb]; reflexivity.
  Qed.

  Lemma fac_plain (x : F) : x * fpow (fz 2) (Z.to_nat 0) = x.
  Proof. change (Z.to_nat 0) with 0%nat. cbn [fpow]. ring. Qed.
  Lemma fac_div1 (x : F) : x / fz 1 * fpow (fz 2) (Z.to_nat 0) = x.
  Proof. change (Z.to_nat 0) with 0%nat. change (@fz F 1) with (@o1 F). cbn [fpow]. field. exact (F_1_neq_0 (fth F)). Qed.
  Lemma fac_div2 (x : F) : x / fz 2 * fpow (fz 2) (Z.to_nat 1) = x.
  Proof. change (Z.to_nat 1) with 1%nat. cbn [fpow]. field. exact two_ne. Qed.

  Lemma axis_factor_halving D N dr dother idx c : (c < D)%nat -> (dr = 1 \/ dr = 2)%Z -> (dother = 1 \/ dother = 2)%Z ->
    gen_axis_factor D N dr dother idx c * fpow (fz 2) (Z.to_nat (axis_halving D N dr dother idx c)) = fz N.
  Proof.
    intros Hc Hr Ho. unfold gen_axis_factor, axis_halving, axis_plain, wn, wavenumber, wn_1d, rfft_component, mesh_axis. cbn [andb]. cbv zeta.
    destruct (Nat.ltb_spec c (D - 1)), (Nat.eqb_spec c (D - 1)); try lia.
    - destruct (Z.even N); cbn [andb];
        destruct (fftfreq N (nth c idx 0%Z) =? - N / 2)%Z, (fftfreq N (nth c idx 0%Z) =? 0)%Z; cbn [orb andb];
        try apply fac_plain; destruct Ho as [-> | ->]; cbn [Z.eqb Pos.eqb]; first [apply fac_div1 | apply fac_div2].
    - destruct (Z.even N); cbn [andb];
        destruct (rfftfreq N (nth c idx 0%Z) =? N / 2)%Z, (rfftfreq N (nth c idx 0%Z) =? 0)%Z; cbn [orb andb];
        try apply fac_plain; destruct Hr as [-> | ->]; cbn [Z.eqb Pos.eqb]; first [apply fac_div1 | apply fac_div2].
  Qed.

  Lemma axis_halving_nonneg D N dr dother idx c : (0 <= axis_halving D N dr dother idx c)%Z.
  Proof. unfold axis_halving. cbv zeta. destruct (axis_plain _ _ _); [lia|]. destruct (_ =? 2)%Z; lia. Qed.

  Lemma fpow_add (x : F) a b : fpow x (a + b) = fpow x a * fpow x b.
  Proof. induction a as [|a IH]; cbn [Nat.add fpow]; [ring|]. rewrite IH. ring. Qed.

  Lemma halvings_sum D N dr dother idx :
    scaling_halvings D N dr dother idx = fold_right Z.add 0%Z (map (axis_halving D N dr dother idx) (seq 0 D)).
  Proof. reflexivity. Qed.

  Lemma product_of_factors D N dr dother idx (l : list nat) : (forall c, In c l -> (c < D)%nat) ->
    (dr = 1 \/ dr = 2)%Z -> (dother = 1 \/ dother = 2)%Z ->
    fold_right omul (fz 1) (map (gen_axis_factor D N dr dother idx) l)
      * fpow (fz 2) (Z.to_nat (fold_right Z.add 0%Z (map (axis_halving D N dr dother idx) l)))
    = fpow (fz N) (length l).
  Proof.
    intros Hl Hr Ho. induction l as [|c l IH]; cbn [map fold_right length fpow].
    - cbn [Z.to_nat fpow]. rewrite fz1. ring.
    - assert (Hs : (0 <= fold_right Z.add 0%Z (map (axis_halving D N dr dother idx) l))%Z).
      { clear. induction l as [|x l IHl]; cbn [map fold_right]; [lia|]. pose proof (axis_halving_nonneg D N dr dother idx x). lia. }
      rewrite Z2Nat.inj_add by (try apply axis_halving_nonneg; exact Hs). rewrite fpow_add.
      rewrite <- IH by (intros x Hx; apply Hl; right; exact Hx).
      assert (Hc : gen_axis_factor D N dr dother idx c * fpow (fz 2) (Z.to_nat (axis_halving D N dr dother idx c)) = fz N)
        by (apply axis_factor_halving; try assumption; apply Hl; left; reflexivity).
      rewrite <- Hc. ring.
  Qed.

  (* the array element times 2^(number of halvings of the model) is N^D: element = N^D / 2^halvings *)
  Theorem scaling_raw_tie D N dr dother idx : (dr = 1 \/ dr = 2)%Z -> (dother = 1 \/ dother = 2)%Z ->
    gen_build_scaling_array_raw F false D N dr dother idx * fpow (fz 2) (Z.to_nat (scaling_halvings D N dr dother idx)) = fpow (fz N) D.
  Proof.
    intros Hr Ho. rewrite scaling_raw_unfold, halvings_sum, product_of_factors; try assumption.
    - now rewrite seq_length.
    - intros c Hc. apply in_seq in Hc. lia.
  Qed.

  (* the three public modes are the raw array with the documented denominators *)
  Lemma scaling_modes_tie xy D N idx :
    gen_build_scaling_array_norm_compensation F xy D N idx = gen_build_scaling_array_raw F xy D N 1 1 idx /\
    gen_build_scaling_array_reconstruction F xy D N idx = gen_build_scaling_array_raw F xy D N 2 1 idx /\
    gen_build_scaling_array_coef_extraction F xy D N idx = gen_build_scaling_array_raw F xy D N 2 2 idx.
  Proof. repeat split; reflexivity. Qed.

  Theorem scaling_modes_halvings D N idx mode : (mode = 10 \/ mode = 11 \/ mode = 12)%Z ->
    (if (mode =? 10)%Z then gen_build_scaling_array_norm_compensation F false D N idx
     else if (mode =? 11)%Z then gen_build_scaling_array_reconstruction F false D N idx
     else gen_build_scaling_array_coef_extraction F false D N idx)
    * fpow (fz 2) (Z.to_nat (scaling_halvings D N (fst (mode_denoms mode)) (snd (mode_denoms mode)) idx)) = fpow (fz N) D.
  Proof.
    destruct (scaling_modes_tie false D N idx) as (E1 & E2 & E3).
    intros [-> | [-> | ->]]; cbn [Z.eqb Pos.eqb mode_denoms fst snd]; rewrite ?E1, ?E2, ?E3; apply scaling_raw_tie; lia.
  Qed.
End Field.
