(* C10 tie: the Leray projection of the term model (Nonlin/Terms.v, the last operation of the projected convection whose source text is
   tied by Tie/NonlinTie.v) is, mode by mode, the leray_mode of Spectral/Operators.v at d = (d_0 k, d_1 k, d_2 k); hence every output of the
   SOURCE text of ProjectedConvection3d is divergence free at every mode with non-zero Laplace symbol, for every input. *)
From Coq Require Import ZArith QArith List Bool Field Ring Lia.
From EXV Require Import Base.Scalar Base.FieldLemmas Spectral.Symbols Spectral.Operators Spectral.OperatorsProofs Nonlin.Conv Nonlin.Terms.
Import ListNotations.
Local Open Scope fld_scope.

Section Tie.
  Variable F : FieldT.
  Add Field Ffl : (fth F).
  Variables (ii s : F).

  Definition dvec (k : idx) : list F := [dc F ii s 0 k; dc F ii s 1 k; dc F ii s 2 k].

  Lemma lap_is_lapm (k : idx) : lap F ii s 3 k = lapm F (dvec k).
  Proof. reflexivity. Qed.

  Lemma leray_is_leray_mode (v0 v1 v2 : field F) (k : idx) (i : nat) :
    nth i (leray F ii s 3 [v0; v1; v2]) (fzero F) k = nth i (leray_mode F (dvec k) [v0 k; v1 k; v2 k]) 0.
  Proof.
    unfold leray, leray_mode, axes, inv_lap_zero, fmulp, fscal, fadd, fsumf, divm. cbv zeta. rewrite <- lap_is_lapm.
    cbn [seq map2 map fsum dvec]. destruct i as [|[|[|i]]]; cbn [nth]; try (destruct (oeqb (lap F ii s 3 k) 0); ring).
    destruct i; reflexivity.
  Qed.

  Theorem leray_output_divergence_free (v0 v1 v2 : field F) (k : idx) : lapm F (dvec k) <> 0 ->
    divm F (dvec k) (map (fun i => nth i (leray F ii s 3 [v0; v1; v2]) (fzero F) k) [0; 1; 2]%nat) = 0.
  Proof.
    intros Hn. cbn [map]. rewrite !leray_is_leray_mode.
    change [nth 0 (leray_mode F (dvec k) [v0 k; v1 k; v2 k]) 0; nth 1 (leray_mode F (dvec k) [v0 k; v1 k; v2 k]) 0; nth 2 (leray_mode F (dvec k) [v0 k; v1 k; v2 k]) 0]
      with (leray_mode F (dvec k) [v0 k; v1 k; v2 k]).
    apply leray_div_free; [cbn; lia | reflexivity | exact Hn].
  Qed.
End Tie.
