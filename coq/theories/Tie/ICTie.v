(* C18 tie: the formula-level parts regenerated from exponax/ic/*.py (Gen/ICGen.v, Gen/Guards.v) are the hand-written model
   of IC/Normalize.v.  An edit of the Python that changes a formula, the order of the normalisation steps, the value written
   into the DC coefficient, the mask slice of Discontinuity or an option check breaks exactly one lemma here. *)
From Coq Require Import ZArith List Bool Field Ring Lia.
From EXV Require Import Base.Scalar Base.FieldLemmas IC.Normalize Gen.ICGen Gen.Guards.
Import ListNotations.
Local Open Scope fld_scope.

Section Tie.
  Variable K : Ops.

  Lemma tie_normalize_ic fmean fstd fmaxabs zm so mo ic :
    gen_normalize_ic K fmean fstd fmaxabs zm so mo ic = normalize_with K fmean fstd fmaxabs zm so mo ic.
  Proof. reflexivity. Qed.

  (* Discontinuities.__call__ carries an inline copy of normalize_ic *)
  Lemma tie_disc_normalize fmean fstd fmaxabs zm so mo ic :
    gen_disc_normalize K fmean fstd fmaxabs zm so mo ic = normalize_with K fmean fstd fmaxabs zm so mo ic.
  Proof. reflexivity. Qed.

  (* SineWaves1d.__call__: no mean subtraction (the mean is the offset), then the same two steps *)
  Lemma tie_sine_normalize fmean fstd fmaxabs so mo ic :
    gen_sine_normalize K fmean fstd fmaxabs so mo ic = normalize_with K fmean fstd fmaxabs false so mo ic.
  Proof. reflexivity. Qed.

  Lemma tie_clamp_point x mn mxa lo hi : gen_clamp_point K x mn mxa lo hi = clamp_point K x mn mxa lo hi.
  Proof. reflexivity. Qed.

  Lemma tie_clamp leb lo hi ic :
    clamp K leb lo hi ic
    = map (fun x => gen_clamp_point K x (lmin K leb ic) (lmax K leb (map (fun y => y - lmin K leb ic) ic)) lo hi) ic.
  Proof. unfold clamp, gen_clamp_point. rewrite !map_map. reflexivity. Qed.

  Lemma tie_scaled s ic :
    scaled K s ic = map (fun u => gen_scaled_call_point K u s) ic /\ scaled K s ic = map (fun u => gen_scaled_fun_point K u s) ic.
  Proof. split; reflexivity. Qed.

  Lemma tie_tfs_dc offset D n : gen_tfs_dc K offset (npts K D n) = tfs_dc K offset D n.
  Proof. reflexivity. Qed.

  (* the DC coefficient is entry 0 of the flattened array; the mask is the axis-separate one; the field is centred iff no offset *)
  Lemma tie_tfs_options oz so mo :
    gen_tfs_dc_flat_index = 0%nat /\ gen_tfs_axis_separate = true /\ gen_tfs_norm_flags oz so mo = (oz, so, mo).
  Proof. repeat split. Qed.

  Lemma tie_grf_options zm so mo :
    gen_grf_mean_mode_flat_index = 0%nat /\ gen_grf_mean_mode_amplitude K = fz 1 /\ gen_grf_norm_flags zm so mo = (zm, so, mo)
    /\ gen_diffused_norm_flags zm so mo = (zm, so, mo).
  Proof. repeat split. Qed.

  Lemma tie_structure : gen_multi_concat_axis = 0%Z /\ gen_multi_same_key_split = true /\ gen_base_call_is_fun_on_grid = true.
  Proof. repeat split. Qed.
End Tie.

Lemma tie_disc_shape xshape nlim : gen_disc_shape xshape nlim = disc_shape xshape nlim.
Proof. reflexivity. Qed.

Section TieField.
  Variable F : FieldT.
  Add Field Fft : (fth F).
  Lemma tie_grf_exponent (alpha : F) : gen_grf_exponent F alpha = grf_exponent F alpha.
  Proof.
    unfold gen_grf_exponent, grf_exponent, two. cbn [fz fpos]. field.
    exact (two_neq0 F).
  Qed.
End TieField.

(* constructor guards: every generator validates with the same predicate; RandomTruncatedFourierSeries derives zero_mean from
   "offset_range == (0.0, 0.0)" *)
Lemma tie_guards a b c :
  tfs_raises a b c = ic_options_raise a b c /\ grf_raises a b c = ic_options_raise a b c
  /\ diffused_noise_raises a b c = ic_options_raise a b c /\ discontinuities_raises a b c = ic_options_raise a b c
  /\ random_discontinuities_raises a b c = ic_options_raise a b c.
Proof. repeat split. Qed.
