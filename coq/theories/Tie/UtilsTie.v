(* C14 / C06 tie: rollout, repeat and the wrapper steppers regenerated from the source (Gen/UtilsGen.v, written by
   harness/translate/utilsfn.py from exponax/_utils.py, _repeated_stepper.py, _forced_stepper.py) ARE the hand-written model of
   Utils/Rollout.v -- for every state type, every step function, every n, every flag value, every auxiliary argument. *)
From Coq Require Import ZArith List Arith Bool Lia.
From EXV Require Import Base.Scalar Utils.Rollout Gen.UtilsGen.
Import ListNotations.

Section Tie.
  Variables A X : Type.

  Lemma rollout_tie (f : A -> A) n include_init constant_aux u0 :
    gen_rollout f n include_init constant_aux u0 = Some (rollout f n include_init u0).
  Proof.
    unfold gen_rollout, rollout, obind, scan_none. cbv zeta.
    destruct (scan _ u0 (repeat tt n)) as [c trj]. cbn [snd]. destruct include_init; reflexivity.
  Qed.

  Lemma repeat_tie (f : A -> A) n constant_aux u0 : gen_repeat f n constant_aux u0 = Some (repeat_fn f n u0).
  Proof.
    unfold gen_repeat, repeat_fn, obind, scan_none. cbv zeta.
    destruct (scan _ u0 (repeat tt n)) as [c ys]. reflexivity.
  Qed.

  Lemma rollout_aux_tie (f : A -> X -> A) n include_init constant_aux u0 (a : auxarg X) :
    gen_rollout_aux f n include_init constant_aux u0 a = rollout_aux f n include_init constant_aux u0 a.
  Proof.
    unfold gen_rollout_aux, rollout_aux, obind, tree_repeat, scan_xs, aux_seq. cbv zeta.
    destruct constant_aux, a as [x | xs]; try reflexivity.
    - rewrite repeat_length, Nat.eqb_refl. destruct (scan _ u0 (repeat x n)) as [c trj]. cbn [snd]. destruct include_init; reflexivity.
    - destruct (Nat.eqb (length xs) n); [|reflexivity]. destruct (scan _ u0 xs) as [c trj]. cbn [snd]. destruct include_init; reflexivity.
  Qed.

  Lemma repeat_aux_tie (f : A -> X -> A) n constant_aux u0 (a : auxarg X) :
    gen_repeat_aux f n constant_aux u0 a = repeat_aux f n constant_aux u0 a.
  Proof.
    unfold gen_repeat_aux, repeat_aux, obind, tree_repeat, scan_xs, aux_seq. cbv zeta.
    destruct constant_aux, a as [x | xs]; try reflexivity.
    - rewrite repeat_length, Nat.eqb_refl. destruct (scan _ u0 (repeat x n)) as [c ys]. reflexivity.
    - destruct (Nat.eqb (length xs) n); [|reflexivity]. destruct (scan _ u0 xs) as [c ys]. reflexivity.
  Qed.
End Tie.

(* RepeatedStepper: step = ifft . repeat(step_fourier, n) . fft, never rejected; its dt is n * dt of the inner stepper *)
Lemma repeated_step_tie (S Sh : Type) (fwd : S -> Sh) (bwd : Sh -> S) (sf : Sh -> Sh) n u :
  gen_repeated_step fwd bwd sf n u = Some (repeated_step fwd bwd sf n u)
  /\ gen_repeated_step_fourier sf n (fwd u) = Some (repeat_fn sf n (fwd u)).
Proof.
  unfold gen_repeated_step, gen_repeated_step_fourier, repeated_step. cbv zeta. rewrite repeat_tie. split; reflexivity.
Qed.
