(* C14 / C06 tie: rollout, repeat and the wrapper steppers regenerated from the source (Gen/UtilsGen.v, written by
   harness/translate/utilsfn.py from exponax/_utils.py, _repeated_stepper.py, _forced_stepper.py) ARE the hand-written model of
   Utils/Rollout.v -- for every state type, every step function, every n, every flag value, every auxiliary argument. *)
From Coq Require Import ZArith List Arith Bool Lia.
From EXV Require Import Base.Scalar Utils.Rollout Gen.UtilsGen.
Import ListNotations.

Section Tie.
  Variables A X : Type.

  Lemma rollout_tie (f : A -> A) n include_init constant_aux u0 :
    gen_rollout f n include_init constant_aux u0 = Some (rollout f n include_init u0).
  Proof.
    unfold gen_rollout, rollout, obind, scan_none. cbv zeta.
    destruct (scan _ u0 (repeat tt n)) as [c trj]. cbn [snd]. destruct include_init; reflexivity.
  Qed.

  Lemma repeat_tie (f : A -> A) n constant_aux u0 : gen_repeat f n constant_aux u0 = Some (repeat_fn f n u0).
  Proof.
    unfold gen_repeat, repeat_fn, obind, scan_none. cbv zeta.
    destruct (scan _ u0 (repeat tt n)) as [c ys]. reflexivity.
  Qed.

  Lemma rollout_aux_tie (f : A -> X -> A) n include_init constant_aux u0 (a : auxarg X) :
    gen_rollout_aux f n include_init constant_aux u0 a = rollout_aux f n include_init constant_aux u0 a.
  Proof.
    unfold gen_rollout_aux, rollout_aux, obind, tree_repeat, scan_xs, aux_seq. cbv zeta.
    destruct constant_aux, a as [x | xs]; try reflexivity.
    - rewrite repeat_length, Nat.eqb_refl. destruct (scan _ u0 (repeat x n)) as [c trj]. cbn [snd]. destruct include_init; reflexivity.
    - destruct (Nat.eqb (length xs) n); [|reflexivity]. destruct (scan _ u0 xs) as [c trj]. cbn [snd]. destruct include_init; reflexivity.
  Qed.

  Lemma repeat_aux_tie (f : A -> X -> A) n constant_aux u0 (a : auxarg X) :
    gen_repeat_aux f n constant_aux u0 a = repeat_aux f n constant_aux u0 a.
  Proof.
    unfold gen_repeat_aux, repeat_aux, obind, tree_repeat, scan_xs, aux_seq. cbv zeta.
    destruct constant_aux, a as [x | xs]; try reflexivity.
    - rewrite repeat_length, Nat.eqb_refl. destruct (scan _ u0 (repeat x n)) as [c ys]. reflexivity.
    - destruct (Nat.eqb (length xs) n); [|reflexivity]. destruct (scan _ u0 xs) as [c ys]. reflexivity.
  Qed.
End Tie.

(* stack_sub_trajectories: len(set(lengths)) = 1 iff there is a leaf and all leaves have its leading length *)
Lemma distinct_count_one (l : list nat) :
  distinct_count l = 1 <-> exists x r, l = x :: r /\ forallb (Nat.eqb x) r = true.
Proof.
  unfold distinct_count. split.
  - intros H. destruct (nodup Nat.eq_dec l) as [|y [|z t]] eqn:E; cbn [length] in H; try discriminate H.
    assert (Hall : forall w, In w l -> w = y).
    { intros w Hw. apply (nodup_In Nat.eq_dec) in Hw. rewrite E in Hw. destruct Hw as [Hw | []]. symmetry. exact Hw. }
    destruct l as [|x r]; [cbn in E; discriminate E|]. exists x, r. split; [reflexivity|].
    apply forallb_forall. intros w Hw. apply Nat.eqb_eq.
    rewrite (Hall x (or_introl eq_refl)), (Hall w (or_intror Hw)). reflexivity.
  - intros (x & r & -> & H). rewrite forallb_forall in H.
    assert (Hincl : incl (nodup Nat.eq_dec (x :: r)) [x]).
    { intros w Hw. apply nodup_In in Hw. destruct Hw as [<- | Hw]; [left; reflexivity|]. left. apply Nat.eqb_eq. apply H. exact Hw. }
    pose proof (NoDup_incl_length (NoDup_nodup Nat.eq_dec (x :: r)) Hincl) as Hle. cbn [length] in Hle.
    assert (Hin : In x (nodup Nat.eq_dec (x :: r))) by (apply nodup_In; left; reflexivity).
    destruct (nodup Nat.eq_dec (x :: r)) as [|a t]; [destruct Hin|]. cbn [length] in *. lia.
Qed.

Lemma stack_sub_tie (A : Type) (leaves : list (list A)) (sub_len : nat) :
  gen_stack_sub_trajectories leaves sub_len = stack_sub_tree leaves sub_len.
Proof.
  unfold gen_stack_sub_trajectories, stack_sub_tree. cbv zeta.
  destruct leaves as [|l0 ls]; [reflexivity|].
  change (map (@length A) (l0 :: ls)) with (length l0 :: map (@length A) ls). cbn [hd all_same]. destruct (Nat.eqb (distinct_count (length l0 :: map (@length A) ls)) 1) eqn:E; cbn [negb].
  - apply Nat.eqb_eq in E. apply distinct_count_one in E. destruct E as (x & r & Hl & Hall). injection Hl as <- <-.
    rewrite Hall. destruct (Nat.ltb (length l0) sub_len) eqn:E2; [reflexivity|]. f_equal.
    apply map_ext_in. intros leaf Hin. unfold stack_sub.
    assert (Hlen : length leaf = length l0).
    { destruct Hin as [<- | Hin]; [reflexivity|]. rewrite forallb_forall in Hall. symmetry. apply Nat.eqb_eq. apply Hall.
      apply in_map. exact Hin. }
    rewrite Hlen, E2. reflexivity.
  - destruct (forallb (Nat.eqb (length l0)) (map (@length A) ls)) eqn:Hall; [|reflexivity].
    exfalso. apply Nat.eqb_neq in E. apply E. apply distinct_count_one. exists (length l0), (map (@length A) ls). split; [reflexivity | exact Hall].
Qed.

(* RepeatedStepper: step = ifft . repeat(step_fourier, n) . fft, never rejected; its dt is n * dt of the inner stepper *)
Lemma repeated_step_tie (S Sh : Type) (fwd : S -> Sh) (bwd : Sh -> S) (sf : Sh -> Sh) n u :
  gen_repeated_step fwd bwd sf n u = Some (repeated_step fwd bwd sf n u)
  /\ gen_repeated_step_fourier sf n (fwd u) = Some (repeat_fn sf n (fwd u)).
Proof.
  unfold gen_repeated_step, gen_repeated_step_fourier, repeated_step. cbv zeta. rewrite repeat_tie. split; reflexivity.
Qed.
