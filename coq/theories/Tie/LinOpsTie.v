(* C01 tie: the per-mode linear symbols regenerated from the source (Gen/LinOps.v, written by harness/translate/linops.py from
   exponax/_spectral.py and every `_build_linear_operator` under exponax/stepper) ARE the hand-written symbols of
   Spectral/Symbols.v -- for every field, every coefficient, every flag value and every derivative vector d of any length.

   Conventions.
   * A generated symbol takes the coefficients in the form in which the constructor STORES them (self.velocity is a vector,
     self.diffusivity a matrix, ...), exactly like the hand-written symbol.  The promotions of scalar / vector constructor
     arguments done in __init__ (`jnp.ones(D) * c`, `jnp.diag(jnp.ones(D)) * c`, `jnp.diag(v)`) are translated separately
     (the gen_ctor_ definitions) and tied to Symbols.const_vec / Symbols.diag_mat below.  `jnp.diag` of a vector is modelled by diag_mat.
   * Multi-channel operators (jnp.concatenate) are functions of the channel index; the tie is stated for the channels that exist.
   * BelousovZhabotinsky is defined in the tree but not exported and has no symbol in Spectral/Symbols.v; its hand-written
     symbol is given here.
   * Wave is excluded (see EXCLUDED in the translator).  *)
From Coq Require Import ZArith QArith List Bool Field Ring Lia.
From EXV Require Import Base.Scalar Base.FieldLemmas Spectral.Symbols Gen.LinOps.
Import ListNotations.
Local Open Scope fld_scope.

(* hand-written, from exponax/stepper/reaction/_belousov_zhabotinsky.py: channel c diffuses with diffusivities[c] *)
Definition sym_belousov_zhabotinsky (K : Ops) (diffusivities : list K) (channel : nat) (d : list K) : K :=
  nth channel diffusivities 0 * laplace_sym K 2 d.

Section Lists.
  Context {A B C E : Type}.
  Lemma map2_map_r (f : A -> C -> E) (g : B -> C) a b : map2 f a (map g b) = map2 (fun x y => f x (g y)) a b.
  Proof. revert b. induction a as [|x a IH]; intros [|y b]; cbn; [reflexivity ..|]. rewrite IH. reflexivity. Qed.
  Lemma map2_ext (f g : A -> B -> C) a b : (forall x y, f x y = g x y) -> map2 f a b = map2 g a b.
  Proof. intros H. revert b. induction a as [|x a IH]; intros [|y b]; cbn; [reflexivity ..|]. rewrite H, IH. reflexivity. Qed.
  Lemma imap_from_ext' (f g : nat -> A -> B) s l : (forall j a, f j a = g j a) -> imap_from s f l = imap_from s g l.
  Proof. intros H. revert s. induction l as [|a l IH]; intros s; cbn; [reflexivity|]. rewrite H, IH. reflexivity. Qed.
  Lemma map_imap_from (g : B -> C) (f : nat -> A -> B) s l : map g (imap_from s f l) = imap_from s (fun i x => g (f i x)) l.
  Proof. revert s. induction l as [|a l IH]; intros s; cbn; [reflexivity|]. rewrite IH. reflexivity. Qed.
  Lemma imap_from_map (f : nat -> B -> C) (h : A -> B) s l : imap_from s f (map h l) = imap_from s (fun i x => f i (h x)) l.
  Proof. revert s. induction l as [|a l IH]; intros s; cbn; [reflexivity|]. rewrite IH. reflexivity. Qed.
End Lists.

Section Tie.
  Variable F : FieldT.
  Add Field Ff : (fth F).
  Notation K := (fops F).

  (* ---- helpers of _spectral.py ---- *)
  Lemma laplace_tie (d : list F) (order : nat) : gen_build_laplace_operator F d order = laplace_sym F order d.
  Proof. unfold gen_build_laplace_operator, laplace_sym. destruct order; reflexivity. Qed.

  Lemma gip_tie (d v : list F) (order : nat) : gen_build_gradient_inner_product_operator F d v order = gip_sym F v order d.
  Proof.
    unfold gen_build_gradient_inner_product_operator, gip_sym. cbv zeta. revert d.
    induction v as [|a v IH]; intros [|x d]; cbn [map map2 fsum]; try ring. rewrite IH. ring.
  Qed.

  Lemma quad_tie (A : list (list F)) (d : list F) :
    fsum (map2 (fun r1 r2 => fsum (map2 (fun x y => x * y) r1 r2)) A (map (fun x1 => map (fun x2 => x1 * x2) d) d)) = quad_form F A d.
  Proof.
    unfold quad_form. rewrite map2_map_r. f_equal. apply map2_ext. intros row di. rewrite map2_map_r. reflexivity.
  Qed.

  (* the same contraction written as einsum("ij,i...,j...->...", A, d, d) *)
  Lemma quad_tie3 (A : list (list F)) (d : list F) :
    fsum (map2 (fun r di => fsum (map2 (fun a dj => a * di * dj) r d)) A d) = quad_form F A d.
  Proof. unfold quad_form. f_equal. apply map2_ext. intros row di. f_equal. apply map2_ext. intros a dj. ring. Qed.

  Ltac ties := cbv zeta; rewrite ?laplace_tie, ?gip_tie, ?quad_tie, ?quad_tie3; cbn [fpow fz fpos]; try reflexivity.

  (* ---- linear steppers ---- *)
  Lemma advection_tie v d : gen_sym_advection F v d = sym_advection F v d.
  Proof. unfold gen_sym_advection, sym_advection. ties; ring. Qed.

  Lemma diffusion_tie A d : gen_sym_diffusion F A d = sym_diffusion F A d.
  Proof. unfold gen_sym_diffusion, sym_diffusion. ties; ring. Qed.

  Lemma advection_diffusion_tie v A d : gen_sym_advection_diffusion F v A d = sym_advection_diffusion F v A d.
  Proof. unfold gen_sym_advection_diffusion, sym_advection_diffusion. ties; ring. Qed.

  Lemma dispersion_tie flag xi d : gen_sym_dispersion F flag xi d = sym_dispersion F flag xi d.
  Proof. unfold gen_sym_dispersion, sym_dispersion. destruct flag; ties; ring. Qed.

  Lemma hyper_diffusion_tie flag mu d : gen_sym_hyper_diffusion F flag mu d = sym_hyper_diffusion F flag mu d.
  Proof. unfold gen_sym_hyper_diffusion, sym_hyper_diffusion. destruct flag; ties; ring. Qed.

  (* ---- semi-linear steppers ---- *)
  Lemma burgers_tie nu d : gen_sym_burgers F nu d = sym_burgers F nu d.
  Proof. unfold gen_sym_burgers, sym_burgers. ties; ring. Qed.

  Lemma kdv_tie f1 f2 nu xi mu d : gen_sym_korteweg_de_vries F f1 f2 nu xi mu d = sym_kdv F f1 f2 nu xi mu d.
  Proof. unfold gen_sym_korteweg_de_vries, sym_kdv, ones. destruct f1, f2; ties; ring. Qed.

  Lemma ks_tie s2 s4 d : gen_sym_kuramoto_sivashinsky F s2 s4 d = sym_ks F s2 s4 d.
  Proof. unfold gen_sym_kuramoto_sivashinsky, sym_ks. ties; ring. Qed.

  Lemma ks_conservative_tie s2 s4 d : gen_sym_kuramoto_sivashinsky_conservative F s2 s4 d = sym_ks F s2 s4 d.
  Proof. unfold gen_sym_kuramoto_sivashinsky_conservative, sym_ks. ties; ring. Qed.

  Lemma navier_stokes_tie nu drag d :
    gen_sym_navier_stokes_vorticity F nu drag d = sym_navier_stokes F nu drag d
    /\ gen_sym_kolmogorov_flow_vorticity F nu drag d = sym_navier_stokes F nu drag d
    /\ gen_sym_navier_stokes_velocity F nu drag d = sym_navier_stokes F nu drag d
    /\ gen_sym_kolmogorov_flow_velocity F nu drag d = sym_navier_stokes F nu drag d.
  Proof.
    unfold gen_sym_navier_stokes_vorticity, gen_sym_kolmogorov_flow_vorticity, gen_sym_navier_stokes_velocity,
      gen_sym_kolmogorov_flow_velocity, sym_navier_stokes. ties. repeat split; ring.
  Qed.

  (* ---- generic steppers: all six build the same polynomial symbol ---- *)
  Ltac poly d := cbv zeta; unfold poly_sym, imap; f_equal; apply imap_from_ext'; intros j c;
               let x := fresh "x" in let IH := fresh "IH" in
               induction d as [|x d IH]; cbn [map fsum]; [ring | first [rewrite IH | rewrite <- IH]; ring].

  Lemma general_tie a d :
    gen_sym_general_linear F a d = poly_sym F a d
    /\ gen_sym_general_convection F a d = poly_sym F a d
    /\ gen_sym_general_gradient_norm F a d = poly_sym F a d
    /\ gen_sym_general_vorticity_convection F a d = poly_sym F a d
    /\ gen_sym_general_polynomial F a d = poly_sym F a d
    /\ gen_sym_general_nonlinear F a d = poly_sym F a d.
  Proof.
    unfold gen_sym_general_linear, gen_sym_general_convection, gen_sym_general_gradient_norm, gen_sym_general_vorticity_convection,
      gen_sym_general_polynomial, gen_sym_general_nonlinear. repeat split; poly d.
  Qed.

  (* ---- reaction-diffusion steppers ---- *)
  Lemma allen_cahn_tie nu c1 d : gen_sym_allen_cahn F nu c1 d = sym_allen_cahn F nu c1 d.
  Proof. unfold gen_sym_allen_cahn, sym_allen_cahn. ties; ring. Qed.

  Lemma fisher_tie nu r d : gen_sym_fisher_kpp F nu r d = sym_fisher F nu r d.
  Proof. unfold gen_sym_fisher_kpp, sym_fisher. ties; ring. Qed.

  Lemma cahn_hilliard_tie nu gam c1 d : gen_sym_cahn_hilliard F nu gam c1 d = sym_cahn_hilliard F nu gam c1 d.
  Proof. unfold gen_sym_cahn_hilliard, sym_cahn_hilliard. ties; ring. Qed.

  (* two channels: 0 and 1 *)
  Lemma gray_scott_tie nu1 nu2 ch d : (ch < 2)%nat -> gen_sym_gray_scott F nu1 nu2 ch d = sym_gray_scott F nu1 nu2 ch d.
  Proof.
    intros H. unfold gen_sym_gray_scott, sym_gray_scott. ties.
    destruct ch as [|[|ch]]; cbn [nth]; try lia; ring.
  Qed.

  Lemma swift_hohenberg_tie r kc d : gen_sym_swift_hohenberg F r kc d = sym_swift_hohenberg F r kc d.
  Proof. unfold gen_sym_swift_hohenberg, sym_swift_hohenberg. ties; ring. Qed.

  (* three channels: 0, 1, 2 *)
  Lemma belousov_zhabotinsky_tie nus ch d : (ch < 3)%nat ->
    gen_sym_belousov_zhabotinsky F nus ch d = sym_belousov_zhabotinsky F nus ch d.
  Proof.
    intros H. unfold gen_sym_belousov_zhabotinsky, sym_belousov_zhabotinsky. ties.
    destruct ch as [|[|[|ch]]]; cbn [nth]; try lia; ring.
  Qed.

  (* ---- constructor promotions ---- *)
  Lemma scalar_to_vector (c : F) (d : list F) : map (fun x => x * c) (map (fun _ => 1) d) = const_vec F c d.
  Proof. unfold const_vec. rewrite map_map. apply map_ext. intros _. ring. Qed.

  Lemma diag_row_scale (n i : nat) (x c : F) : map (fun y => y * c) (diag_row F n i x) = diag_row F n i (x * c).
  Proof. unfold diag_row. rewrite map_map. apply map_ext. intros j. destruct (Nat.eqb i j); ring. Qed.

  Lemma scalar_to_matrix (c : F) (d : list F) :
    map (fun r => map (fun x => x * c) r) (diag_mat F (map (fun _ => 1) d)) = diag_mat F (const_vec F c d).
  Proof.
    unfold diag_mat, const_vec, imap. rewrite map_imap_from, !imap_from_map, !map_length.
    apply imap_from_ext'. intros i _. rewrite diag_row_scale. f_equal. ring.
  Qed.

  Lemma ctor_tie (c : F) (v d : list F) :
    gen_ctor_advection_velocity_scalar F c d = const_vec F c d
    /\ gen_ctor_advection_diffusion_velocity_scalar F c d = const_vec F c d
    /\ gen_ctor_dispersion_dispersivity_scalar F c d = const_vec F c d
    /\ gen_ctor_diffusion_diffusivity_scalar F c d = diag_mat F (const_vec F c d)
    /\ gen_ctor_advection_diffusion_diffusivity_scalar F c d = diag_mat F (const_vec F c d)
    /\ gen_ctor_diffusion_diffusivity_vector F v = diag_mat F v
    /\ gen_ctor_advection_diffusion_diffusivity_vector F v = diag_mat F v.
  Proof.
    unfold gen_ctor_advection_velocity_scalar, gen_ctor_advection_diffusion_velocity_scalar, gen_ctor_dispersion_dispersivity_scalar,
      gen_ctor_diffusion_diffusivity_scalar, gen_ctor_advection_diffusion_diffusivity_scalar,
      gen_ctor_diffusion_diffusivity_vector, gen_ctor_advection_diffusion_diffusivity_vector.
    repeat split; try apply scalar_to_vector; try apply scalar_to_matrix.
  Qed.
End Tie.
