(* C05 tie: Poisson.__init__ / step_fourier regenerated from the source (Gen/OperatorsGen.v, written by harness/translate/linops.py) is the
   hand-written model of Spectral/Operators.v at every mode. *)
From Coq Require Import ZArith QArith List Bool Field Ring Lia.
From EXV Require Import Base.Scalar Base.FieldLemmas Spectral.Symbols Spectral.Operators Gen.LinOps Gen.OperatorsGen Tie.LinOpsTie.
Import ListNotations.
Local Open Scope fld_scope.

Section Tie.
  Variable F : FieldT.
  Add Field Ffo2 : (fth F).
  Lemma poisson_tie (d : list F) (order : nat) (f : F) :
    gen_poisson_step_fourier F (gen_poisson_inv_operator F d order) f = poisson_mode F (laplace_sym F order d) f.
  Proof.
    unfold gen_poisson_step_fourier, gen_poisson_inv_operator, poisson_mode. cbv zeta. rewrite laplace_tie.
    change (@fz F 1) with (@o1 F). change (@fz F 0) with (@o0 F). ring.
  Qed.

End Tie.
