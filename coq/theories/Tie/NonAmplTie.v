(* C11 tie: the symbols of the advection, dispersion and hyper-diffusion steppers AS REGENERATED FROM THE SOURCE (Gen/LinOps.v, tied to
   Spectral/Symbols.v in Tie/LinOpsTie.v), evaluated at the derivative operator i kappa of real wavenumbers over the complex numbers of a
   formally real field: purely imaginary (advection, dispersion) resp. real and non-positive (hyper-diffusion with mu >= 0). *)
From Coq Require Import ZArith QArith List Bool Field Ring Lia.
From EXV Require Import Base.Scalar Base.FieldLemmas Base.Cplx Spectral.Symbols Spectral.RealSymbols Steppers.NonAmplification Steppers.Generic
  Gen.LinOps Tie.LinOpsTie.
Import ListNotations.
Local Open Scope fld_scope.

Section Tie.
  Variable F : FieldT.
  Add Field Ffn : (fth F).
  Variable FR : FormallyReal F.
  Notation CF := (CField FR).

  Lemma code_advection_imaginary (v kap : list F) : re (gen_sym_advection CF (map cofr v) (dreal F kap)) = 0.
  Proof.
    rewrite (advection_tie CF). unfold sym_advection.
    change (re (copp (gip_sym (COps F) (map cofr v) 1 (dreal F kap))) = 0). cbn [re copp].
    rewrite (proj1 (gip_real_part F v kap)). ring.
  Qed.

  Lemma code_dispersion_imaginary (xi kap : list F) : re (gen_sym_dispersion CF false (map cofr xi) (dreal F kap)) = 0.
  Proof. rewrite (dispersion_tie CF). unfold sym_dispersion. exact (proj2 (gip_real_part F xi kap)). Qed.

  Section Order.
    Variable le : F -> F -> Prop.
    Hypothesis le_refl : forall x, le x x.
    Hypothesis le_add : forall x y z t, le x y -> le z t -> le (x + z) (y + t).
    Hypothesis le_mul_nonneg : forall x y, le 0 x -> le 0 y -> le 0 (x * y).
    Hypothesis sq_nonneg : forall x, le 0 (x * x).

    Lemma code_hyper_diffusion_nonpositive (mu : F) (kap : list F) : le 0 mu ->
      le 0 (- re (gen_sym_hyper_diffusion CF false (cofr mu) (dreal F kap))).
    Proof.
      intros Hm. rewrite (hyper_diffusion_tie CF). unfold sym_hyper_diffusion.
      change (le 0 (- re (cmul (copp (cofr mu)) (laplace_sym (COps F) 4 (dreal F kap))))).
      replace (copp (cofr mu)) with (cofr (- mu)) by (apply cx_ext; cbn; ring).
      exact (proj2 (dissipative_symbols_nonpositive F le le_refl le_add le_mul_nonneg sq_nonneg 0 mu kap (le_refl 0) Hm)).
    Qed.
    (* Diffusion(scalar nu >= 0), D <= 3: the constructor promotes nu to the diagonal matrix (source text, C01), the symbol is nu * (-|kappa|^2) *)
    Lemma code_diffusion_nonpositive (nu : F) (kap : list F) : (1 <= length kap <= 3)%nat -> le 0 nu ->
      le 0 (- re (gen_sym_diffusion CF (gen_ctor_diffusion_diffusivity_scalar CF (cofr nu) (dreal F kap)) (dreal F kap))).
    Proof.
      intros Hk Hn. rewrite (diffusion_tie CF).
      destruct (ctor_tie CF (cofr nu) [] (dreal F kap)) as (_ & _ & _ & E & _). rewrite E.
      assert (Hd : (1 <= length (dreal F kap) <= 3)%nat) by (unfold dreal; rewrite map_length; exact Hk).
      rewrite (diffusion_generic CF (dreal F kap) Hd).
      assert (P : poly_sym CF [@o0 (COps F); @o0 (COps F); cofr nu] (dreal F kap) = cmul (cofr nu) (laplace_sym (COps F) 2 (dreal F kap))).
      { clear E Hd. destruct kap as [|x [|y [|z [|w kap]]]]; cbn [length] in Hk; try lia;
          unfold poly_sym, laplace_sym, dreal, imap; cbn [imap_from map fsum fpow]; apply cx_ext; cbn; ring. }
      change (le 0 (- re (poly_sym CF [@o0 (COps F); @o0 (COps F); cofr nu] (dreal F kap)))). rewrite P.
      exact (proj1 (dissipative_symbols_nonpositive F le le_refl le_add le_mul_nonneg sq_nonneg nu 0 kap Hn (le_refl 0))).
    Qed.
  End Order.
End Tie.
