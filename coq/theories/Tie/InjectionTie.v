(* C12 tie: the forcing arrays of the Kolmogorov nonlinear functions regenerated from the source (gen_injection2d / gen_injection3d in
   Gen/InjectionGen.v: the constructors of VorticityConvection2dKolmogorov / ProjectedConvection3dKolmogorov executed by
   harness/translate/spectral.py with the derivative operator the stepper hands over) ARE the model's injection arrays of
   Nonlin/Injection.v at the signed wavenumber vector of the stored index - for every N, forcing mode, scale, extent and index. *)
From Coq Require Import ZArith QArith List Bool Field Ring Lia.
From EXV Require Import Base.Scalar Base.FieldLemmas Layout.Freq Nonlin.Injection Gen.SpectralGen Gen.InjectionGen Tie.SpectralTie.
Import ListNotations.

Section Tie.
  Variable F : FieldT.
  Add Field Ffi : (fth F).
  Variable pi : F.
  Local Open Scope fld_scope.

  (* one axis of the coef_extraction scaling array is the model's ax_scale *)
  Lemma axis_factor_ax_scale D N idx c : (c < D)%nat ->
    gen_axis_factor F D N 2 2 idx c = ax_scale F N (wn D N c idx) (c =? D - 1)%nat.
  Proof.
    intros Hc. unfold gen_axis_factor, ax_scale, axis_plain, wn, wavenumber, wn_1d, rfft_component, mesh_axis. cbn [andb]. cbv zeta.
    destruct (Nat.ltb_spec c (D - 1)), (Nat.eqb_spec c (D - 1)); try lia.
    - destruct (Z.even N), (fftfreq N (nth c idx 0%Z) =? - N / 2)%Z, (fftfreq N (nth c idx 0%Z) =? 0)%Z; reflexivity.
    - destruct (Z.even N), (rfftfreq N (nth c idx 0%Z) =? N / 2)%Z, (rfftfreq N (nth c idx 0%Z) =? 0)%Z; reflexivity.
  Qed.

  Lemma coef_extraction_unfold D N idx :
    gen_build_scaling_array_coef_extraction F false D N idx = fold_right omul (fz 1) (map (gen_axis_factor F D N 2 2 idx) (seq 0 D)).
  Proof. destruct (scaling_modes_tie F false D N idx) as (_ & _ & E). rewrite E. apply scaling_raw_unfold. Qed.

  Lemma sgn_is_Zsgn (z : Z) : sgn F z = fz (Z.sgn z).
  Proof. destruct z; reflexivity. Qed.

  (* the shape of the generated arrays in terms of the generated layout functions (definitional unfolding) *)
  Lemma injection2d_shape (L gamma : F) N kinj idx :
    gen_injection2d F pi L gamma N kinj idx =
    if ((gen_build_wavenumbers false 2 N 0 idx =? 0) && (gen_build_wavenumbers false 2 N 1 idx =? kinj))%Z
    then (- (fz 2 * pi / L * fz (gen_build_wavenumbers false 2 N 1 idx))) * gamma * gen_build_scaling_array_coef_extraction F false 2 N idx
    else fz 0.
  Proof. reflexivity. Qed.

  Theorem injection2d_tie (L gamma : F) N kinj idx :
    gen_injection2d F pi L gamma N kinj idx = injection2d F (fz 2 * pi / L) gamma N kinj (wnvec 2 N idx).
  Proof.
    rewrite injection2d_shape, coef_extraction_unfold, !wavenumbers_tie by lia.
    cbn [seq map fold_right]. rewrite !axis_factor_ax_scale by lia.
    unfold injection2d, wnvec. cbn [seq map nth Nat.eqb Nat.sub]. fold (wn 2 N 0 idx) (wn 2 N 1 idx).
    destruct ((wn 2 N 0 idx =? 0)%Z && (wn 2 N 1 idx =? kinj)%Z); [|reflexivity].
    change (@fz F 1) with (@o1 F). ring.
  Qed.

  Lemma injection3d_shape (L gamma : F) N kinj idx :
    gen_injection3d F L gamma N kinj 0 idx =
    let m := ((gen_build_wavenumbers false 3 N 0 idx =? 0) && (Z.abs (gen_build_wavenumbers false 3 N 1 idx) =? kinj)
              && (gen_build_wavenumbers false 3 N 2 idx =? 0))%Z in
    let S := gen_build_scaling_array_coef_extraction F false 3 N idx in
    (if m then fz 0 * gamma * S else fz 0,
     if m then (- fz (Z.sgn (gen_build_wavenumbers false 3 N 1 idx))) * gamma * S else fz 0).
  Proof. reflexivity. Qed.

  (* channel 0 carries -i sign(k_1) gamma scaling, the other channels nothing; (re, im) against an abstract imaginary unit ii *)
  Theorem injection3d_tie (ii L gamma : F) N kinj ch idx :
    injection3d F ii gamma N kinj ch (wnvec 3 N idx)
    = fst (gen_injection3d F L gamma N kinj ch idx) + ii * snd (gen_injection3d F L gamma N kinj ch idx).
  Proof.
    destruct ch as [|[|[|ch]]]; try (cbn [injection3d gen_injection3d fst snd]; change (@fz F 0) with (@o0 F); ring).
    rewrite injection3d_shape. cbv zeta. rewrite coef_extraction_unfold, !wavenumbers_tie by lia.
    cbn [seq map fold_right fst snd]. rewrite !axis_factor_ax_scale by lia.
    unfold injection3d, wnvec. cbn [seq map nth Nat.eqb Nat.sub]. fold (wn 3 N 0 idx) (wn 3 N 1 idx) (wn 3 N 2 idx).
    rewrite sgn_is_Zsgn.
    destruct ((wn 3 N 0 idx =? 0)%Z && (Z.abs (wn 3 N 1 idx) =? kinj)%Z && (wn 3 N 2 idx =? 0)%Z);
      change (@fz F 1) with (@o1 F); change (@fz F 0) with (@o0 F); ring.
  Qed.
End Tie.
