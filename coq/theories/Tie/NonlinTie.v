(* C03 tie: the nonlinear functions regenerated from the source (Gen/NonlinFuns.v, written by harness/translate/nonlin.py from
   every __call__ under exponax/nonlin_fun and the private nonlinear functions of exponax/stepper/reaction) ARE the hand-written terms
   of Nonlin/Terms.v -- for every coefficient, every flag value, every state and every mode k.

   Conventions.
   * Both sides are written over the same abstract operators: M (dealiasing mask), P2 / P3 (pseudo-spectral products), dc c.
     The generated terms apply the mask where the CODE applies it (e.g. self.ifft(self.dealias(u_hat)) masks twice), they keep the
     order of the factors of every product and the association of every sum.  The equalities therefore need a few laws of the
     operators (Section Tie: extensionality, M idempotent, M keeps the mean mode, masked arguments of a product may be unmasked,
     P2 commutative at the mode considered).  Section Concrete proves every one of them for the operators of the model, msk / prod2 / prod3 of
     Nonlin/Conv.v, so that Props/C03.v states the tie without hypotheses on the operators.
   * A generated definition takes the constructor arguments of its class (scale, flags, coefficient tuples) and either one channel
     (functions that act on every channel separately, or on a one-channel state) or the list of channels u_hat.
   * The single-channel helpers of ConvectionNonlinearFun are translated for a one-channel state (its only channel is nth 0 u_hat).
   * PolynomialNonlinearFun loops over a tuple of any length: the loop is unrolled for 2, 3 and 4 coefficients (degree <= 3, the
     degrees the model has); a shorter tuple is the longer one with zero coefficients.
   * The Kolmogorov variants add the stored array self.injection (an argument here; its construction is modelled in Nonlin/Injection.v).
   * BelousovZhabotinskyNonlinearFun is defined in the tree but not exported and has no term in Nonlin/Terms.v; its hand-written
     term is given here. *)
From Coq Require Import ZArith QArith List Bool Field Ring Lia Permutation.
From EXV Require Import Base.Scalar Base.FieldLemmas Spectral.Symbols Layout.Freq Nonlin.Conv Nonlin.ConvProofs Nonlin.Terms Nonlin.MeanFree Gen.NonlinFuns.
Import ListNotations.
Local Open Scope fld_scope.

(* hand-written, from exponax/stepper/reaction/_belousov_zhabotinsky.py:
   N = (u0 + u1 - u0 u1 - u0^2,  u2 - u1 - u0 u1,  u0 - u2), evaluated pseudo-spectrally on the dealiased state *)
Definition belousov_zhabotinsky (K : Ops) (M : field K -> field K) (P2 : field K -> field K -> field K) (u0 u1 u2 : field K) : list (field K) :=
  [ fun k => M (M u0) k + M (M u1) k - P2 u0 u1 k - P2 u0 u0 k;
    fun k => M (M u2) k - M (M u1) k - P2 u0 u1 k;
    fun k => M (M u0) k - M (M u2) k ].

Section Tie.
  Variable F : FieldT.
  Add Field Ffnt : (fth F).
  Notation fld := (field F).
  Variable M : fld -> fld.
  Variable P2 : fld -> fld -> fld.
  Variable P3 : fld -> fld -> fld -> fld.
  Variables (ii s : F) (D : nat) (ND : F).

  (* laws of the operators (all proved for msk / prod2 / prod3 in Section Concrete) *)
  Hypothesis P2_ext : forall a a' b b' k, (forall x, a x = a' x) -> (forall x, b x = b' x) -> P2 a b k = P2 a' b' k.
  Hypothesis M_idem : forall a k, M (M a) k = M a k.
  Hypothesis M_mean : forall c k, M (gen_const_hat F M P2 P3 ii s D ND c) k = gen_const_hat F M P2 P3 ii s D ND c k.
  Hypothesis P2_M : forall a b k, P2 (M a) (M b) k = P2 a b k.
  Hypothesis P3_M : forall a b c k, P3 (M a) (M b) (M c) k = P3 a b c k.

  Notation Z0f := (fzero F).

  (* ---- lists of fields, compared entry by entry at one mode ---- *)
  Lemma nth_map_ptw {A} (f g : A -> fld) (l : list A) i k :
    (forall a, f a k = g a k) -> nth i (map f l) Z0f k = nth i (map g l) Z0f k.
  Proof. intros H. revert i. induction l as [|a l IH]; intros [|i]; cbn [map nth]; try reflexivity; [apply H | apply IH]. Qed.

  Lemma nth_map2_ptw {A B} (f g : A -> B -> fld) (l1 : list A) (l2 : list B) i k :
    (forall a b, f a b k = g a b k) -> nth i (map2 f l1 l2) Z0f k = nth i (map2 g l1 l2) Z0f k.
  Proof.
    intros H. revert l2 i. induction l1 as [|a l1 IH]; intros [|b l2] [|i]; cbn [map2 nth]; try reflexivity; [apply H | apply IH].
  Qed.

  Lemma fsumf_map_ptw {A} (f g : A -> fld) (l : list A) k : (forall a, f a k = g a k) -> fsumf F (map f l) k = fsumf F (map g l) k.
  Proof. intros H. unfold fsumf. f_equal. rewrite !map_map. apply map_ext. exact H. Qed.

  Lemma fsumf_map2_ptw {A B} (f g : A -> B -> fld) (l1 : list A) (l2 : list B) k :
    (forall a b, f a b k = g a b k) -> fsumf F (map2 f l1 l2) k = fsumf F (map2 g l1 l2) k.
  Proof.
    intros H. unfold fsumf. f_equal. revert l2. induction l1 as [|a l1 IH]; intros [|b l2]; cbn [map2 map]; try reflexivity.
    rewrite H, IH. reflexivity.
  Qed.

  Lemma nth_nil i k : nth i (@nil fld) Z0f k = Z0f k.
  Proof. destruct i; reflexivity. Qed.

  (* jnp.sum(derivative_operator ** 2, axis=0) is the Laplace symbol of the model *)
  Lemma lap_tie k : fsumf F (map (fun c => fmulp F (dc F ii s c) (dc F ii s c)) (axes D)) k = lap F ii s D k.
  Proof. unfold fsumf, lap, fmulp. rewrite map_map. reflexivity. Qed.

  Ltac num := unfold fq; cbn [fz fpos Qnum Qden].

  (* ---- ZeroNonlinearFun ---- *)
  Lemma zero_tie u k : gen_zero F M P2 P3 ii s D ND u k = Z0f k.
  Proof. reflexivity. Qed.

  (* ---- PolynomialNonlinearFun: 4, 3, 2 coefficients ---- *)
  Lemma polynomial_tie c0 c1 c2 c3 u k :
    gen_polynomial_4 F M P2 P3 ii s D ND c0 c1 c2 c3 u k = polynomial F M P2 P3 ND c0 c1 c2 c3 u k
    /\ gen_polynomial_3 F M P2 P3 ii s D ND c0 c1 c2 u k = polynomial F M P2 P3 ND c0 c1 c2 0 u k
    /\ gen_polynomial_2 F M P2 P3 ii s D ND c0 c1 u k = polynomial F M P2 P3 ND c0 c1 0 0 u k.
  Proof.
    unfold gen_polynomial_4, gen_polynomial_3, gen_polynomial_2, polynomial, fadd, fscal.
    rewrite !M_mean. unfold gen_const_hat. num. repeat split; ring.
  Qed.

  (* ---- ConvectionNonlinearFun: the four variants selected by the two flags ---- *)
  Lemma convection_sc_cons_tie b us k :
    nth 0 (gen_convection F M P2 P3 ii s D ND b true true us) Z0f k = conv_sc_cons F P2 ii s D b (nth 0 us Z0f) k.
  Proof. unfold gen_convection, conv_sc_cons. cbn [nth]. unfold fscal, fmulp, half, fsumf. rewrite !map_map. num. ring. Qed.

  Lemma convection_sc_noncons_tie b us k :
    nth 0 (gen_convection F M P2 P3 ii s D ND b true false us) Z0f k = conv_sc_noncons F P2 ii s D b (nth 0 us Z0f) k.
  Proof. unfold gen_convection, conv_sc_noncons. cbn [nth]. unfold fscal. ring. Qed.

  (* the outer product u[None, :] * u[:, None] has the factors in the other order than the model: P2 commutes (at this mode) *)
  Lemma convection_mc_cons_tie b us i k : (forall a c, P2 a c k = P2 c a k) ->
    nth i (gen_convection F M P2 P3 ii s D ND b false true us) Z0f k = nth i (conv_mc_cons F P2 ii s D b us) Z0f k.
  Proof.
    intros P2_comm. unfold gen_convection, conv_mc_cons. cbv iota. apply nth_map_ptw. intros ui.
    unfold fscal, half. num.
    try match goal with |- ?L = _ => match L with context [fsumf _ (map2 ?f (axes D) us) k] =>
      rewrite (fsumf_map2_ptw f (fun c uj => fmulp F (dc F ii s c) (P2 ui uj)) (axes D) us k)
        by (intros c uj; unfold fmulp; first [reflexivity | rewrite P2_comm; reflexivity]) end end.
    ring.
  Qed.

  Lemma convection_mc_noncons_tie b us i k :
    nth i (gen_convection F M P2 P3 ii s D ND b false false us) Z0f k = nth i (conv_mc_noncons F P2 ii s D b us) Z0f k.
  Proof. unfold gen_convection, conv_mc_noncons. cbv iota. apply nth_map_ptw. intros ui. unfold fscal. ring. Qed.

  (* ---- GradientNormNonlinearFun ---- *)
  Lemma gradient_norm_tie b zf u k : gen_gradient_norm F M P2 P3 ii s D ND b zf u k = gradient_norm F P2 ii s D b zf u k.
  Proof. unfold gen_gradient_norm, gradient_norm, gen_drop_mean, fscal, half. cbv zeta. num. destruct zf; [destruct (is_zero k)|]; ring. Qed.

  (* ---- GeneralNonlinearFun (one channel): scale_list = (b0, b1, b2) ---- *)
  Lemma general_nonlinear_tie b0 b1 b2 zf u k :
    nth 0 (gen_general_nonlinear F M P2 P3 ii s D ND [b0; b1; b2] zf [u]) Z0f k = general_nonlinear F M P2 P3 ii s D ND b0 b1 b2 zf u k.
  Proof.
    unfold gen_general_nonlinear.
    change (gen_convection F M P2 P3 ii s D ND (- nth 1 [b0; b1; b2] 0) true true [u])
      with [nth 0 (gen_convection F M P2 P3 ii s D ND (- b1) true true [u]) Z0f].
    cbn [map map2 nth]. num. unfold general_nonlinear, fadd.
    rewrite convection_sc_cons_tie, gradient_norm_tie. destruct (polynomial_tie 0 0 b0 0 u k) as (_ & -> & _). num. reflexivity.
  Qed.

  (* ---- VorticityConvection2d (+ Kolmogorov injection) ---- *)
  Lemma vorticity_conv_tie b w k : gen_vorticity_conv F M P2 P3 ii s D ND b w k = vorticity_conv F P2 ii s D b w k.
  Proof.
    unfold gen_vorticity_conv, vorticity_conv. cbv zeta.
    set (psi := fmulp F (inv_lap_one F ii s D) w).
    set (uh := fmulp F (dc F ii s 1) psi). set (vh := fscal F (- (1)) (fmulp F (dc F ii s 0) psi)).
    set (wx := fmulp F (dc F ii s 0) w). set (wy := fmulp F (dc F ii s 1) w).
    (* every product of the generated term is one of the two products of the model (arguments equal mode by mode) *)
    assert (T : forall a c, ((forall x, a x = uh x) /\ (forall x, c x = wx x)) \/ ((forall x, a x = vh x) /\ (forall x, c x = wy x)) ->
                P2 a c k = P2 uh wx k \/ P2 a c k = P2 vh wy k).
    { intros a c [[Ha Hc]|[Ha Hc]]; [left | right]; apply P2_ext; assumption. }
    unfold fscal at 1, fadd at 1.
    repeat match goal with |- context [P2 ?a ?c k] =>
      lazymatch a with uh => fail | vh => fail | _ => idtac end;
      first [ rewrite (P2_ext a uh c wx k) by (intros x; subst uh vh wx wy psi; unfold fmulp, fscal, inv_lap_one; rewrite ?lap_tie; num; ring)
            | rewrite (P2_ext a vh c wy k) by (intros x; subst uh vh wx wy psi; unfold fmulp, fscal, inv_lap_one; rewrite ?lap_tie; num; ring) ] end.
    clear T. unfold fscal, fadd. ring.
  Qed.

  Lemma vorticity_conv_kolmogorov_tie b inj w k :
    gen_vorticity_conv_kolmogorov F M P2 P3 ii s D ND b inj w k = vorticity_conv F P2 ii s D b w k + inj k.
  Proof. unfold gen_vorticity_conv_kolmogorov, fadd. rewrite vorticity_conv_tie. reflexivity. Qed.

  (* ---- Leray ---- *)
  Lemma leray_tie us i k : nth i (gen_leray F M P2 P3 ii s D ND us) Z0f k = nth i (leray F ii s D us) Z0f k.
  Proof.
    unfold gen_leray, leray. cbv zeta. apply nth_map2_ptw. intros c uc. unfold fadd, fmulp, fscal, inv_lap_zero.
    rewrite lap_tie. num. destruct (oeqb (lap F ii s D k) 0); cbn [negb]; ring.
  Qed.

  (* ---- ProjectedConvection3d (+ Kolmogorov injection): the generated argument of the projection is cross P2 u (curl u) itself ---- *)
  Lemma projected_conv_tie us i k : nth i (gen_projected_conv F M P2 P3 ii s D ND us) Z0f k = nth i (projected_conv F P2 ii s D us) Z0f k.
  Proof. unfold gen_projected_conv, projected_conv. rewrite leray_tie. reflexivity. Qed.

  Lemma projected_conv_kolmogorov_tie inj us i k : (i < 3)%nat ->
    nth i (gen_projected_conv_kolmogorov F M P2 P3 ii s D ND inj us) Z0f k = nth i (projected_conv F P2 ii s D us) Z0f k + nth i inj Z0f k.
  Proof.
    intros Hi. unfold gen_projected_conv_kolmogorov. destruct i as [|[|[|i]]]; [| | |exfalso; clear - Hi; lia]; cbn [nth]; unfold fadd; rewrite projected_conv_tie; reflexivity.
  Qed.

  (* ---- reaction terms ---- *)
  Lemma cahn_hilliard_tie sc us k :
    nth 0 (gen_cahn_hilliard F M P2 P3 ii s D ND sc us) Z0f k = cahn_hilliard F P3 ii s D sc (nth 0 us Z0f) k.
  Proof. unfold gen_cahn_hilliard, cahn_hilliard. cbn [nth]. unfold fscal, fmulp. rewrite lap_tie, ?P3_M. ring. Qed.

  Lemma gray_scott_tie f kr us i k :
    nth i (gen_gray_scott F M P2 P3 ii s D ND f kr us) Z0f k = nth i (gray_scott F M P3 ND f kr (nth 0 us Z0f) (nth 1 us Z0f)) Z0f k.
  Proof.
    unfold gen_gray_scott, gray_scott. destruct i as [|[|i]]; cbn [nth]; [| |reflexivity];
      unfold fadd, fscal; rewrite ?M_mean, ?P3_M, !(M_idem (M _)); unfold gen_const_hat; num; ring.
  Qed.

  Lemma belousov_zhabotinsky_tie us i k :
    nth i (gen_belousov_zhabotinsky F M P2 P3 ii s D ND us) Z0f k
    = nth i (belousov_zhabotinsky F M P2 (nth 0 us Z0f) (nth 1 us Z0f) (nth 2 us Z0f)) Z0f k.
  Proof.
    unfold gen_belousov_zhabotinsky, belousov_zhabotinsky. destruct i as [|[|[|i]]]; cbn [nth]; [| | |reflexivity];
      unfold fadd, fscal; rewrite ?P2_M, !(M_idem (M _)); ring.
  Qed.
End Tie.

(* ---- the laws hold for the operators of the model: msk, prod2, prod3 of Nonlin/Conv.v ---- *)
Section Concrete.
  Variable F : FieldT.
  Add Field Ffnc : (fth F).
  Variables (D : nat) (N Kc : Z).
  Local Open Scope Z_scope.

  Lemma msk_ptw (f g : field F) k : f k = g k -> msk F Kc f k = msk F Kc g k.
  Proof. unfold msk. intros ->. reflexivity. Qed.

  Lemma msk_idem (a : field F) k : msk F Kc (msk F Kc a) k = msk F Kc a k.
  Proof. unfold msk. destruct (in_band Kc k); reflexivity. Qed.

  Lemma is_zero_in_band k : 0 <= Kc -> is_zero k = true -> in_band Kc k = true.
  Proof.
    intros HK. unfold is_zero, in_band. induction k as [|c k IH]; cbn [forallb]; [reflexivity|].
    intros H. apply andb_true_iff in H. destruct H as [H1 H2]. apply andb_true_iff. split; [lia | apply IH; exact H2].
  Qed.

  (* the mask keeps the mean mode (K >= 0) *)
  Lemma msk_mean M' P2' P3' (ii s : F) D' (ND c : F) k : 0 <= Kc ->
    msk F Kc (gen_const_hat F M' P2' P3' ii s D' ND c) k = gen_const_hat F M' P2' P3' ii s D' ND c k.
  Proof.
    intros HK. unfold msk, gen_const_hat, delta0. destruct (in_band Kc k) eqn:E; [reflexivity|].
    destruct (is_zero k) eqn:Z; [rewrite (is_zero_in_band k HK Z) in E; discriminate | ring].
  Qed.

  Lemma prod2_ext (a a' b b' : field F) k : (forall x, a x = a' x) -> (forall x, b x = b' x) -> prod2 F D N Kc a b k = prod2 F D N Kc a' b' k.
  Proof.
    intros HU HV. unfold prod2. apply msk_ptw. f_equal. unfold cconv2. apply fsum_map_ext. intros m _. unfold msk. rewrite HU, HV. reflexivity.
  Qed.

  (* the products mask their inputs themselves *)
  Lemma prod2_msk (a b : field F) k : prod2 F D N Kc (msk F Kc a) (msk F Kc b) k = prod2 F D N Kc a b k.
  Proof.
    unfold prod2. apply msk_ptw. f_equal. unfold cconv2. apply fsum_map_ext. intros m _. rewrite !msk_idem. reflexivity.
  Qed.

  Lemma prod3_msk (a b c : field F) k : prod3 F D N Kc (msk F Kc a) (msk F Kc b) (msk F Kc c) k = prod3 F D N Kc a b c k.
  Proof.
    unfold prod3. apply msk_ptw. f_equal. unfold cconv3. apply fsum_map_ext. intros m1 _. apply fsum_map_ext. intros m2 _.
    rewrite !msk_idem. reflexivity.
  Qed.

  (* ---- prod2 is commutative: re-index the band sum by m -> wrap (k - m), an involution of the retained band ---- *)
  Hypothesis N_pos : 0 < N.
  Hypothesis K_nonneg : 0 <= Kc.
  Hypothesis K_small : 2 * Kc < N.

  Lemma wrap1_congr a b : a mod N = b mod N -> wrap1 N a = wrap1 N b.
  Proof. unfold wrap1. intros ->. reflexivity. Qed.

  Lemma wrap1_mod x : (wrap1 N x) mod N = x mod N.
  Proof.
    unfold wrap1, fftfreq. destruct (x mod N <=? (N - 1) / 2); [apply Z.mod_mod; lia|].
    rewrite <- (Z.mod_add _ 1 N) by lia. replace (x mod N - N + 1 * N) with (x mod N) by lia. apply Z.mod_mod. lia.
  Qed.

  Lemma wrap1_invol kc mc : Z.abs mc <= Kc -> wrap1 N (kc - wrap1 N (kc - mc)) = mc.
  Proof.
    intros H. rewrite (wrap1_congr (kc - wrap1 N (kc - mc)) mc); [apply wrap1_small; lia|].
    rewrite Zminus_mod, wrap1_mod, <- Zminus_mod. f_equal. lia.
  Qed.

  Definition sig (k m : idx) : idx := wrapD N (subi k m).

  Lemma sig_invol k m : length k = length m -> in_band Kc m = true -> sig k (sig k m) = m.
  Proof.
    unfold sig, wrapD, subi. revert m. induction k as [|kc k IH]; intros [|mc m] Hl Hb; cbn [length] in Hl; try discriminate; [reflexivity|].
    cbn [in_band forallb] in Hb. apply andb_true_iff in Hb. destruct Hb as [H1 H2]. cbn [map2 map]. f_equal; [apply wrap1_invol; lia|].
    apply IH; [lia | exact H2].
  Qed.

  Lemma sig_length k m : length k = length m -> length (sig k m) = length m.
  Proof.
    unfold sig, wrapD, subi. rewrite map_length. revert m. induction k as [|kc k IH]; intros [|mc m] Hl; cbn [length] in Hl; try discriminate; [reflexivity|].
    cbn [map2 length]. f_equal. apply IH. lia.
  Qed.

  Local Open Scope fld_scope.
  Lemma fsum_filter {A} (p : A -> bool) (f : A -> F) (l : list A) : (forall a, p a = false -> f a = 0) -> fsum (map f l) = fsum (map f (filter p l)).
  Proof.
    intros H. induction l as [|a l IH]; cbn [filter map fsum]; [reflexivity|]. destruct (p a) eqn:E; cbn [map fsum]; rewrite IH; [reflexivity|].
    rewrite (H a E). ring.
  Qed.

  Lemma NoDup_map_inj_in {A B} (f : A -> B) (l : list A) : (forall x y, In x l -> In y l -> f x = f y -> x = y) -> NoDup l -> NoDup (map f l).
  Proof.
    intros Hinj Hnd. induction Hnd as [|a l Ha Hnd IH]; cbn [map]; constructor.
    - intros Hin. apply in_map_iff in Hin. destruct Hin as (b & E & Hb). apply Ha. rewrite (Hinj a b); [exact Hb | left; reflexivity | right; exact Hb | symmetry; exact E].
    - apply IH. intros x y Hx Hy. apply Hinj; right; assumption.
  Qed.

  Lemma cconv2_comm (U V : field F) k : length k = D -> cconv2 F D N Kc U V k = cconv2 F D N Kc V U k.
  Proof.
    intros Hk. unfold cconv2.
    change (fsum (map (fun m => msk F Kc U m * msk F Kc V (sig k m)) (bandD D Kc))
            = fsum (map (fun m => msk F Kc V m * msk F Kc U (sig k m)) (bandD D Kc))).
    set (p := fun m => in_band Kc (sig k m)). set (B := bandD D Kc). set (S := filter p B).
    assert (HB : forall m, In m S -> length m = D /\ in_band Kc m = true /\ in_band Kc (sig k m) = true).
    { intros m Hm. apply filter_In in Hm. destruct Hm as [Hm Hp]. apply (in_bandD D Kc m K_nonneg) in Hm. destruct Hm as [Hl Hb]. auto. }
    assert (Hinv : forall m, In m S -> sig k (sig k m) = m).
    { intros m Hm. destruct (HB m Hm) as (Hl & Hb & _). apply sig_invol; [lia | exact Hb]. }
    assert (Hclosed : forall m, In m S -> In (sig k m) S).
    { intros m Hm. destruct (HB m Hm) as (Hl & Hb & Hs). apply filter_In. split.
      - apply (in_bandD D Kc _ K_nonneg). split; [rewrite sig_length; lia | exact Hs].
      - unfold p. rewrite (Hinv m Hm). exact Hb. }
    assert (Hperm : Permutation (map (sig k) S) S).
    { apply NoDup_Permutation.
      - apply NoDup_map_inj_in; [|apply NoDup_filter; apply NoDup_bandD].
        intros x y Hx Hy E. rewrite <- (Hinv x Hx), <- (Hinv y Hy), E. reflexivity.
      - apply NoDup_filter. apply NoDup_bandD.
      - intros x. split.
        + intros Hx. apply in_map_iff in Hx. destruct Hx as (m & <- & Hm). apply Hclosed. exact Hm.
        + intros Hx. apply in_map_iff. exists (sig k x). split; [apply Hinv; exact Hx | apply Hclosed; exact Hx]. }
    rewrite (fsum_filter p (fun m => msk F Kc U m * msk F Kc V (sig k m)) B).
    2:{ intros m Hm. unfold p in Hm. unfold msk at 2. rewrite Hm. ring. }
    rewrite (fsum_filter p (fun m => msk F Kc V m * msk F Kc U (sig k m)) B).
    2:{ intros m Hm. unfold p in Hm. unfold msk at 2. rewrite Hm. ring. }
    fold S. rewrite <- (fsum_perm F (fun m => msk F Kc V m * msk F Kc U (sig k m)) _ _ Hperm). rewrite map_map.
    apply fsum_map_ext. intros m Hm. rewrite (Hinv m Hm). ring.
  Qed.

  Lemma prod2_comm (a b : field F) k : length k = D -> prod2 F D N Kc a b k = prod2 F D N Kc b a k.
  Proof. intros Hk. unfold prod2. apply msk_ptw. rewrite (cconv2_comm a b k Hk). reflexivity. Qed.
End Concrete.
