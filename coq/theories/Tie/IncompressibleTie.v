(* C10 tie: the per-mode arithmetic of make_incompressible regenerated from the source (Gen/OperatorsGen.v, written by harness/translate/linops.py) is the
   hand-written model of Spectral/Operators.v at every mode. *)
From Coq Require Import ZArith QArith List Bool Field Ring Lia.
From EXV Require Import Base.Scalar Base.FieldLemmas Spectral.Symbols Spectral.Operators Gen.LinOps Gen.OperatorsGen Tie.LinOpsTie.
Import ListNotations.
Local Open Scope fld_scope.

Section Tie.
  Variable F : FieldT.
  Add Field Ffo1 : (fth F).
  Lemma lap2_is_lapm (d : list F) : laplace_sym F 2 d = lapm F d.
  Proof. unfold laplace_sym, lapm. f_equal. apply map_ext. intros x. cbn [fpow]. ring. Qed.

  Lemma map2_swap_map {A B C E : Type} (f : A -> C -> E) (g : B -> C) (u : list A) (d : list B) :
    map2 f u (map g d) = map2 (fun dc uc => f uc (g dc)) d u.
  Proof. revert d. induction u as [|x u IH]; intros [|y d]; cbn [map map2]; [reflexivity ..|]. rewrite IH. reflexivity. Qed.

  Lemma make_incompressible_tie (d u : list F) : gen_make_incompressible F d u = make_incompressible_mode F d u.
  Proof.
    unfold gen_make_incompressible, make_incompressible_mode. cbv zeta. rewrite laplace_tie, lap2_is_lapm, map2_swap_map.
    change (@fz F 1) with (@o1 F). reflexivity.
  Qed.

End Tie.
