(* Lemmas about the generator-specific parts of IC/Normalize.v: the mean of the D-dimensional inverse DFT, the spectrum of
   RandomTruncatedFourierSeries, the amplitude of GaussianRandomField, shapes, function form vs sampled form. *)
From Coq Require Import ZArith QArith List Bool Field Ring Lia Arith.
From EXV Require Import Base.Scalar Base.FieldLemmas DFT.DFT1 Layout.Freq IC.Normalize.
Import ListNotations.
Local Open Scope fld_scope.

Section OffsetProofs.
  Variable F : FieldT.
  Add Field Ffg : (fth F).
  Notation K := (fops F).

  Variable n : nat.
  Variable w' : K.
  Hypothesis n_pos : (0 < n)%nat.
  Hypothesis w'_n : fpow w' n = 1.
  Hypothesis w'_prim : forall m, (0 < m < n)%nat -> fpow w' m <> 1.

  Lemma fsum_flat_map {A B} (g : A -> list B) (f : B -> K) (l : list A) :
    fsum (map f (flat_map g l)) = fsum (map (fun a => fsum (map f (g a))) l).
  Proof.
    induction l as [|a l IH]; cbn [flat_map map fsum]; [reflexivity|].
    rewrite map_app, fsum_app, IH. reflexivity.
  Qed.

  Lemma sumD_0 f : sumD K 0 n f = f [].
  Proof. unfold sumD. cbn. ring. Qed.

  Lemma sumD_S D f : sumD K (S D) n f = bsum n (fun a => sumD K D n (fun r => f (a :: r))).
  Proof.
    unfold sumD, bsum. cbn [gridD]. rewrite fsum_flat_map. apply fsum_map_ext. intros a _.
    rewrite map_map. reflexivity.
  Qed.

  Lemma in_gridD D k : In k (gridD D n) -> length k = D /\ Forall (fun b => (b < n)%nat) k.
  Proof.
    revert k. induction D as [|D IH]; intros k; cbn [gridD].
    - intros [<-|[]]. split; [reflexivity | constructor].
    - rewrite in_flat_map. intros [a [Ha Hk]]. apply in_map_iff in Hk. destruct Hk as [r [<- Hr]].
      apply in_seq in Ha. destruct (IH r Hr) as [H1 H2]. split; [cbn; lia | constructor; [lia | exact H2]].
  Qed.

  Lemma sumD_ext D f g : (forall k, In k (gridD D n) -> f k = g k) -> sumD K D n f = sumD K D n g.
  Proof. intros H. unfold sumD. apply fsum_map_ext. exact H. Qed.

  Lemma sumD_scal D c f : sumD K D n (fun k => c * f k) = c * sumD K D n f.
  Proof. unfold sumD. apply fsum_map_scal. Qed.

  Lemma sumD_zero D : sumD K D n (fun _ => 0) = 0.
  Proof. unfold sumD. apply fsum_map_zero. Qed.

  Lemma sumD_swap D (f : list nat -> list nat -> K) :
    sumD K D n (fun j => sumD K D n (fun k => f j k)) = sumD K D n (fun k => sumD K D n (fun j => f j k)).
  Proof. unfold sumD. apply fsum_map_swap. Qed.

  Lemma npts_nz D : npts K D n <> 0.
  Proof. unfold npts. apply fpow_neq0. apply fz_neq0. lia. Qed.

  Lemma is_dc_zero_idx D : is_dc (zero_idx D) = true.
  Proof. induction D as [|D IH]; [reflexivity|]. cbn. exact IH. Qed.

  (* orthogonality in D dimensions *)
  Lemma sumD_chi D k : length k = D -> Forall (fun b => (b < n)%nat) k ->
    sumD K D n (fun j => chi K w' j k) = if is_dc k then npts K D n else 0.
  Proof.
    revert k. induction D as [|D IH]; intros k Hl Hk.
    - destruct k; [|discriminate]. rewrite sumD_0. cbn. reflexivity.
    - destruct k as [|b k]; [discriminate|]. inversion Hk as [|? ? Hb Hk']; subst.
      rewrite sumD_S.
      rewrite (bsum_ext F n _ (fun a => sumD K D n (fun r => chi K w' r k) * fpow w' (a * b))).
      2:{ intros a Ha. cbn [chi]. rewrite sumD_scal. ring. }
      rewrite bsum_scal, IH by (cbn in Hl; try lia; assumption).
      rewrite (orthogonality F n w' n_pos w'_n w'_prim b).
      rewrite Nat.mod_small by exact Hb. cbn [is_dc forallb]. fold (is_dc k).
      destruct b as [|b]; cbn [Nat.eqb andb].
      + destruct (is_dc k); unfold npts; cbn [fpow]; ring.
      + destruct (is_dc k); ring.
  Qed.

  (* only the DC term of a sum survives when all other terms vanish *)
  Lemma sumD_dc D f : (forall k, In k (gridD D n) -> is_dc k = false -> f k = 0) -> sumD K D n f = f (zero_idx D).
  Proof.
    revert f. induction D as [|D IH]; intros f H; [apply sumD_0|].
    rewrite sumD_S. rewrite (bsum_single F n 0); [| exact n_pos |].
    - apply (IH (fun r => f (0%nat :: r))). intros r Hr Hdc. apply H; [|exact Hdc].
      cbn [gridD]. apply in_flat_map. exists 0%nat. split; [apply in_seq; lia | apply in_map; exact Hr].
    - intros a Ha Hne. rewrite (sumD_ext D _ (fun _ => 0)); [apply sumD_zero|].
      intros r Hr. apply H.
      + cbn [gridD]. apply in_flat_map. exists a. split; [apply in_seq; lia | apply in_map; exact Hr].
      + cbn [is_dc forallb]. destruct a; [congruence | reflexivity].
  Qed.

  (* mean of the inverse transform = DC coefficient / N^D *)
  Lemma mean_idftD D (U : list nat -> K) : meanD K D n (idftD K D n w' U) = U (zero_idx D) / npts K D n.
  Proof.
    unfold meanD. f_equal. unfold idftD.
    transitivity (sumD K D n (fun j => oinv (npts K D n) * sumD K D n (fun k => U k * chi K w' j k))).
    { apply sumD_ext. intros j _. rewrite fdiv_def. ring. }
    rewrite sumD_scal, sumD_swap.
    rewrite (sumD_ext D _ (fun k => U k * (if is_dc k then npts K D n else (0 : K)))).
    2:{ intros k Hk. destruct (in_gridD D k Hk) as [H1 H2]. rewrite <- (sumD_chi D k H1 H2). rewrite <- sumD_scal. reflexivity. }
    rewrite sumD_dc.
    - rewrite is_dc_zero_idx. field. apply npts_nz.
    - intros k _ Hk. rewrite Hk. ring.
  Qed.

  (* in one dimension idftD is the inverse transform of DFT/DFT1.v *)
  Lemma idftD_1 (U : list nat -> K) j : idftD K 1 n w' U [j] = idft n w' (fun k => U [k]) j.
  Proof.
    unfold idftD, idft, npts. rewrite sumD_S. cbn [fpow].
    rewrite (bsum_ext F n _ (fun k => U [k] * fpow w' (j * k))).
    - rewrite !fdiv_def. f_equal. f_equal. ring.
    - intros a _. rewrite sumD_0. cbn [chi]. ring.
  Qed.

  (* RandomTruncatedFourierSeries *)
  Lemma tfs_mean noise_hat keep offset D : meanD K D n (idftD K D n w' (tfs_spectrum K noise_hat keep offset D n)) = offset.
  Proof.
    rewrite mean_idftD. unfold tfs_spectrum. rewrite is_dc_zero_idx. unfold tfs_dc. field. apply npts_nz.
  Qed.

  Lemma tfs_mean_defect (noise_hat : list nat -> K) (keep : list nat -> bool) (offset : K) D :
    meanD K D n (idftD K D n w' (fun k => if is_dc k then tfs_dc_defect K offset D n else if keep k then noise_hat k else 0))
    = offset / npts K D n.
  Proof. rewrite mean_idftD. rewrite is_dc_zero_idx. reflexivity. Qed.

  Lemma tfs_band noise_hat keep offset D k : is_dc k = false -> keep k = false -> tfs_spectrum K noise_hat keep offset D n k = 0.
  Proof. intros H1 H2. unfold tfs_spectrum. rewrite H1, H2. reflexivity. Qed.

  Lemma tfs_inside noise_hat keep offset D k : is_dc k = false -> keep k = true -> tfs_spectrum K noise_hat keep offset D n k = noise_hat k.
  Proof. intros H1 H2. unfold tfs_spectrum. rewrite H1, H2. reflexivity. Qed.
End OffsetProofs.

Lemma low_pass_axis_spec D N cutoff idx :
  low_pass_axis D N cutoff idx = true <-> forall k, In k (wnvec D N idx) -> (Z.abs k <= cutoff)%Z.
Proof.
  unfold low_pass_axis. rewrite forallb_forall. split; intros H k Hk; specialize (H k Hk).
  - apply Z.leb_le. exact H.
  - apply Z.leb_le. exact H.
Qed.

(* ------------------------------------------------------------------------------------------- *)
Section GRFProofs.
  Variable F : FieldT.
  Add Field Ffgrf : (fth F).
  Notation K := (fops F).
  Variable powf : K -> K -> K.
  Variable nrm : list Z -> K.

  Lemma grf_mean_mode D N alpha idx : is_zero_idx idx = true -> grf_amplitude K powf nrm D N alpha idx = 1.
  Proof. intros H. unfold grf_amplitude. rewrite H. reflexivity. Qed.

  Lemma grf_other_modes D N alpha idx : is_zero_idx idx = false ->
    grf_amplitude K powf nrm D N alpha idx = powf (nrm (wnvec D N idx)) (- alpha / two).
  Proof. intros H. unfold grf_amplitude, grf_exponent. rewrite H. reflexivity. Qed.

  Lemma is_zero_idx_false idx c : nth c idx 0%Z <> 0%Z -> is_zero_idx idx = false.
  Proof.
    unfold is_zero_idx. revert c. induction idx as [|a idx IH]; intros c H.
    - destruct c; cbn in H; congruence.
    - cbn [forallb]. destruct c as [|c]; cbn [nth] in H.
      + destruct (Z.eqb_spec 0 a); [congruence | reflexivity].
      + rewrite (IH c H). apply andb_false_r.
  Qed.

  (* the power spectrum follows the power law: amplitude^2 = |k|^(-alpha)  (premise: the law of exponents at this point) *)
  Lemma grf_power_spectrum D N alpha idx :
    (let x := nrm (wnvec D N idx) in let e := - alpha / two in powf x e * powf x e = powf x (e + e)) ->
    is_zero_idx idx = false ->
    grf_amplitude K powf nrm D N alpha idx * grf_amplitude K powf nrm D N alpha idx = powf (nrm (wnvec D N idx)) (- alpha).
  Proof.
    cbv zeta. intros Hp H. rewrite grf_other_modes by exact H. rewrite Hp. f_equal. unfold two. field.
    exact (two_neq0 F).
  Qed.

  (* link to the executable rational form for alpha = 2 m *)
  Lemma grf_amp_sq_even_ok (s : K) D N (m : nat) idx :
    let x := nrm (wnvec D N idx) in let alpha := fz (Z.of_nat (2 * m)) in
    (let e := - alpha / two in powf x e * powf x e = powf x (e + e)) ->
    x * x = s * s * fz (norm2 (wnvec D N idx)) ->
    powf x (- alpha) = oinv (fpow (x * x) m) ->
    grf_amplitude K powf nrm D N alpha idx * grf_amplitude K powf nrm D N alpha idx = grf_amp_sq_even K s m D N idx.
  Proof.
    cbv zeta. intros H1 H2 H3. unfold grf_amp_sq_even. destruct (is_zero_idx idx) eqn:E.
    - rewrite grf_mean_mode by exact E. ring.
    - rewrite grf_power_spectrum by assumption. rewrite H3, H2. reflexivity.
  Qed.
End GRFProofs.

(* ------------------------------------------------------------------------------------------- *)
(* shapes *)
Local Open Scope Z_scope.

Lemma sh_eqb_refl a : sh_eqb a a = true.
Proof. induction a as [|x a IH]; [reflexivity|]. cbn. rewrite Z.eqb_refl, IH. reflexivity. Qed.

Lemma sh_eqb_eq a b : sh_eqb a b = true <-> a = b.
Proof.
  revert b. induction a as [|x a IH]; intros [|y b]; cbn; split; intros H; try congruence; try discriminate.
  - apply andb_true_iff in H. destruct H as [H1 H2]. apply Z.eqb_eq in H1. apply IH in H2. congruence.
  - inversion H; subst. rewrite Z.eqb_refl. cbn. apply IH. reflexivity.
Qed.

Lemma bcast_same a : bcast a a = Some a.
Proof. induction a as [|x a IH]; [reflexivity|]. cbn. unfold bdim. rewrite Z.eqb_refl, IH. reflexivity. Qed.

Lemma bcast_lead1 d a : bcast (d :: a) (1 :: a) = Some (d :: a).
Proof.
  cbn. rewrite bcast_same. unfold bdim. destruct (Z.eqb_spec d 1) as [->|H]; [reflexivity|].
  destruct (Z.eqb_spec d 1); [congruence|]. reflexivity.
Qed.

Lemma slice0_unit D sp i : 0 <= i < D -> slice0 i (i + 1) (D :: sp) = 1 :: sp.
Proof. intros H. unfold slice0. f_equal. lia. Qed.

Lemma disc_mask_from_stable init D sp nlim :
  (Z.of_nat nlim <= D) -> bcast init (1 :: sp) = Some init -> disc_mask_from init (D :: sp) nlim = Some init.
Proof.
  intros Hn Hb. unfold disc_mask_from.
  assert (G : forall l, (forall i, In i l -> 0 <= Z.of_nat i < D) ->
              fold_left (fun acc i => match acc with
                          | None => None
                          | Some m => let s := slice0 (Z.of_nat i) (Z.of_nat i + 1) (D :: sp) in
                                      match bcast m s with None => None | Some m1 => bcast m1 s end
                          end) l (Some init) = Some init).
  { induction l as [|i l IH]; intros Hl; [reflexivity|]. cbn [fold_left].
    rewrite slice0_unit by (apply Hl; left; reflexivity). cbn zeta. rewrite Hb, Hb. apply IH.
    intros j Hj. apply Hl. right. exact Hj. }
  apply G. intros i Hi. apply in_seq in Hi. lia.
Qed.

(* one channel in every dimension *)
Lemma disc_shape_one_channel D sp nlim : 1 <= D -> Z.of_nat nlim <= D -> disc_shape (D :: sp) nlim = Some (1 :: sp).
Proof.
  intros HD Hn. unfold disc_shape. rewrite slice0_unit by lia. apply disc_mask_from_stable; [exact Hn | apply bcast_same].
Qed.

(* the defective initial mask gives D channels *)
Lemma disc_shape_defect_D_channels D sp nlim : 1 <= D -> Z.of_nat nlim <= D -> disc_shape_defect (D :: sp) nlim = Some (D :: sp).
Proof. intros HD Hn. unfold disc_shape_defect. apply disc_mask_from_stable; [exact Hn | apply bcast_lead1]. Qed.

(* generators *)
Lemma single_dims g : single g = true -> exists D, gen_dims g = Some D.
Proof.
  induction g as [k D|g IH|g IH|gs]; cbn; intros H; try discriminate; eauto.
Qed.

Fixpoint ctor_ok (g : gen) : bool :=       (* every base generator inside can be constructed *)
  match g with
  | GBase k D => negb (base_ctor_raises k D)
  | GScaled g' | GClamp g' => ctor_ok g'
  | GMulti gs => forallb ctor_ok gs
  end.

Lemma single_shape N g : single g = true -> ctor_ok g = true ->
  exists D, gen_dims g = Some D /\ gen_shape N g = Some (1 :: spatial D N).
Proof.
  induction g as [k D|g IH|g IH|gs]; cbn [single ctor_ok gen_dims gen_shape]; intros H C; try discriminate.
  - exists D. split; [reflexivity|]. apply negb_true_iff in C. rewrite C. reflexivity.
  - destruct (IH H C) as [D [H1 H2]]. exists D. rewrite H1. split; [reflexivity | exact H2].
  - destruct (IH H C) as [D [H1 H2]]. exists D. rewrite H1. split; [reflexivity | exact H2].
Qed.

Lemma fold_cat2_same sp (l : list (option (list Z))) c :
  Forall (fun o => o = Some (1 :: sp)) l -> fold_left cat2 l (Some (c :: sp)) = Some (c + Z.of_nat (length l) :: sp).
Proof.
  revert c. induction l as [|o l IH]; intros c H; cbn [fold_left length].
  - f_equal. f_equal. cbn. lia.
  - inversion H as [|? ? Ho Hl]; subst. cbn [cat2]. rewrite sh_eqb_refl. rewrite IH by exact Hl.
    f_equal. f_equal. lia.
Qed.

(* multi-channel wrapper around n >= 1 single-field generators of the same dimension: n channels *)
Lemma multi_shape N D gs : gs <> [] ->
  Forall (fun g => single g = true /\ ctor_ok g = true /\ gen_dims g = Some D) gs ->
  gen_shape N (GMulti gs) = Some (Z.of_nat (length gs) :: spatial D N).
Proof.
  intros Hne H. cbn [gen_shape].
  assert (A : Forall (fun o => o = Some (1 :: spatial D N)) (map (gen_shape N) gs)).
  { apply Forall_forall. intros o Ho. apply in_map_iff in Ho. destruct Ho as [g [<- Hg]].
    rewrite Forall_forall in H. destruct (H g Hg) as [H1 [H2 H3]].
    destruct (single_shape N g H1 H2) as [D' [E1 E2]]. rewrite E1 in H3. inversion H3; subst. exact E2. }
  destruct gs as [|g gs]; [congruence|]. cbn [map concat0]. inversion A as [|? ? A1 A2]; subst.
  rewrite A1. rewrite fold_cat2_same by exact A2. rewrite map_length. cbn [length].
  f_equal. f_equal. lia.
Qed.

(* a wrapper needs the num_spatial_dims attribute of what it wraps *)
Lemma wrapper_of_multi_rejected N gs : gen_shape N (GScaled (GMulti gs)) = None /\ gen_shape N (GClamp (GMulti gs)) = None.
Proof. split; reflexivity. Qed.

(* ------------------------------------------------------------------------------------------- *)
Section FunFormProofs.
  Variables (Key Grid Field : Type).
  Variable mk_grid : Z -> Grid.
  Variable scale_field : Field -> Field.
  Variable split : Key -> nat -> list Key.
  Variable cat : list Field -> Field.

  Definition agrees (s : sampler Key Field) (f : funform Key Grid Field) : Prop := forall N key, s N key = f key (mk_grid N).

  Lemma base_agrees f : agrees (base_call Key Grid Field mk_grid f) f.
  Proof. intros N key. reflexivity. Qed.

  Lemma scaled_agrees s f : agrees s f -> agrees (scaled_call Key Field scale_field s) (scaled_fun Key Grid Field scale_field f).
  Proof. intros H N key. unfold scaled_call, scaled_fun. rewrite H. reflexivity. Qed.

  Lemma multi_agrees (sf : list (sampler Key Field * funform Key Grid Field)) :
    Forall (fun p => agrees (fst p) (snd p)) sf ->
    agrees (multi_call Key Field split cat (map fst sf)) (multi_fun Key Grid Field split cat (map snd sf)).
  Proof.
    intros H N key. unfold multi_call, multi_fun. rewrite !map_length. f_equal.
    generalize (split key (length sf)). induction H as [|[s f] sf Hp Hsf IH]; intros ks; [reflexivity|].
    destruct ks as [|k ks]; [reflexivity|]. cbn [map combine fst snd] in *. rewrite (Hp N k). f_equal. apply IH.
  Qed.
End FunFormProofs.
