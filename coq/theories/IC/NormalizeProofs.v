(* Lemmas about IC/Normalize.v: normalisation, clamping, scaling (abstract field of characteristic 0, ordered where needed). *)
From Coq Require Import ZArith QArith Qcanon List Bool Field Ring Lia.
From EXV Require Import Base.Scalar Base.FieldLemmas IC.Normalize.
Import ListNotations.
Local Open Scope fld_scope.

(* the laws of [leb] used below (premises of the theorems; satisfied by Qc, see Props/C18.v) *)
Record OrderedF (F : FieldT) (leb : F -> F -> bool) : Prop := mkOrderedF {
  leb_total : forall a b : F, leb a b = true \/ leb b a = true;
  leb_trans : forall a b c : F, leb a b = true -> leb b c = true -> leb a c = true;
  leb_antisym : forall a b : F, leb a b = true -> leb b a = true -> a = b;
  leb_add : forall a b c : F, leb a b = true -> leb (a + c) (b + c) = true;
  leb_mul : forall a b c : F, leb 0 c = true -> leb a b = true -> leb (a * c) (b * c) = true }.

Section MeanVar.
  Variable F : FieldT.
  Add Field Ff : (fth F).
  Notation K := (fops F).
  Implicit Types l : list K.

  Lemma flen_nz l : l <> [] -> flen K l <> 0.
  Proof. intros H. unfold flen. apply fz_neq0. destruct l; [congruence | cbn [length]; lia]. Qed.

  Lemma flen_map {A} (f : A -> K) (g : A -> K) (l : list A) : flen K (map f l) = flen K (map g l).
  Proof. unfold flen. rewrite !map_length. reflexivity. Qed.

  Lemma fsum_sub_const l c : fsum (map (fun x => x - c) l) = fsum l - flen K l * c.
  Proof.
    unfold flen. induction l as [|a l IH]; cbn [map fsum length]; [cbn; ring|].
    rewrite IH, Nat2Z.inj_succ. unfold Z.succ. rewrite fz_add. cbn [fz fpos]. ring.
  Qed.

  Lemma fsum_div_const l c : fsum (map (fun x => x / c) l) = fsum l / c.
  Proof.
    induction l as [|a l IH]; cbn [map fsum]; [rewrite fdiv_def; ring|].
    rewrite IH, !fdiv_def. ring.
  Qed.

  Lemma fsum_mul_const l c : fsum (map (fun x => x * c) l) = fsum l * c.
  Proof. induction l as [|a l IH]; cbn [map fsum]; [ring | rewrite IH; ring]. Qed.

  (* zero_mean *)
  Lemma center_sum l : l <> [] -> fsum (center K l) = 0.
  Proof.
    intros H. unfold center. rewrite fsum_sub_const. unfold mean. field. apply flen_nz. exact H.
  Qed.

  Lemma center_mean l : l <> [] -> mean K (center K l) = 0.
  Proof.
    intros H. unfold mean at 1. rewrite center_sum by exact H.
    unfold center. rewrite fdiv_def. ring.
  Qed.

  Lemma center_length l : length (center K l) = length l.
  Proof. unfold center. apply map_length. Qed.

  (* dividing by a constant *)
  Lemma mean_div l c : mean K (div_all K l c) = mean K l / c.
  Proof.
    unfold mean, div_all. rewrite fsum_div_const. unfold flen. rewrite map_length.
    rewrite !fdiv_def. ring.
  Qed.

  Lemma center_div l c : center K (div_all K l c) = div_all K (center K l) c.
  Proof.
    unfold center. rewrite mean_div. unfold div_all. rewrite !map_map.
    apply map_ext. intros a. rewrite !fdiv_def. ring.
  Qed.

  Lemma variance_div l c : c <> 0 -> variance K (div_all K l c) = variance K l / (c * c).
  Proof.
    intros Hc. unfold variance. rewrite center_div. unfold div_all. rewrite map_map.
    replace (map (fun x => sq K (x / c)) (center K l)) with (div_all K (map (sq K) (center K l)) (c * c)).
    - apply mean_div.
    - unfold div_all. rewrite map_map. apply map_ext. intros a. unfold sq. field. exact Hc.
  Qed.

  (* std_one: if s*s is the (non-zero) variance, dividing by s gives variance 1 *)
  Lemma std_one_variance l s : s * s = variance K l -> variance K l <> 0 -> variance K (div_all K l s) = 1.
  Proof.
    intros Hs Hv. assert (Hs0 : s <> 0) by (intro E; apply Hv; rewrite <- Hs, E; ring).
    rewrite variance_div by exact Hs0. rewrite Hs. field. exact Hv.
  Qed.

  Lemma div_mean_zero l c : mean K l = 0 -> mean K (div_all K l c) = 0.
  Proof. intros H. rewrite mean_div, H, fdiv_def. ring. Qed.

  Lemma variance_nil : variance K [] = 0.
  Proof. unfold variance, mean. cbn. rewrite fdiv_def. ring. Qed.

  (* scaling *)
  Lemma scaled_nth s l i d : nth i (scaled K s l) (d * s) = nth i l d * s.
  Proof. unfold scaled. rewrite (map_nth (fun x => x * s)). reflexivity. Qed.

  Lemma scaled_mean s l : mean K (scaled K s l) = mean K l * s.
  Proof.
    unfold mean, scaled. rewrite fsum_mul_const. unfold flen. rewrite map_length. rewrite !fdiv_def. ring.
  Qed.
End MeanVar.

(* ------------------------------------------------------------------------------------------- *)
Section Ordered.
  Variable F : FieldT.
  Add Field Ffo : (fth F).
  Notation K := (fops F).
  Variable leb : K -> K -> bool.
  Hypothesis OF : OrderedF F leb.
  Implicit Types l : list K.
  Implicit Types a b c x y : K.

  Let tot := @leb_total _ _ OF.
  Let tra := @leb_trans _ _ OF.
  Let asy := @leb_antisym _ _ OF.
  Let ladd := @leb_add _ _ OF.
  Let lmul := @leb_mul _ _ OF.

  Lemma leb_refl a : leb a a = true.
  Proof. destruct (tot a a); assumption. Qed.

  Lemma leb_false a b : leb a b = false -> leb b a = true.
  Proof. intros H. destruct (tot a b) as [E|E]; [congruence | exact E]. Qed.

  Lemma leb_0_1 : leb 0 1 = true.
  Proof.
    destruct (tot 0 1) as [H|H]; [exact H|].
    (* 1 <= 0 -> 0 <= -1 -> 0 <= (-1)(-1) = 1 *)
    set (m1 := oopp (1 : K)).
    assert (H1 : leb 0 m1 = true).
    { pose proof (ladd _ _ m1 H) as E. replace (1 + m1) with (0 : K) in E by (unfold m1; ring).
      replace (0 + m1) with m1 in E by ring. exact E. }
    pose proof (lmul 0 m1 m1 H1 H1) as E.
    replace (0 * m1) with (0 : K) in E by ring. replace (m1 * m1) with (1 : K) in E by (unfold m1; ring). exact E.
  Qed.

  Lemma leb_opp a b : leb a b = true -> leb (- b) (- a) = true.
  Proof.
    intros H. pose proof (ladd _ _ (- a - b) H) as E.
    replace (a + (- a - b)) with (- b) in E by ring. replace (b + (- a - b)) with (- a) in E by ring. exact E.
  Qed.

  Lemma leb_sub_const a b c : leb a b = true -> leb (a - c) (b - c) = true.
  Proof.
    intros H. pose proof (ladd _ _ (- c) H) as E.
    replace (a + - c) with (a - c) in E by ring. replace (b + - c) with (b - c) in E by ring. exact E.
  Qed.

  Lemma inv_nonneg c : leb 0 c = true -> c <> 0 -> leb 0 (oinv c) = true.
  Proof.
    intros Hc Hn. destruct (tot 0 (oinv c)) as [H|H]; [exact H|]. exfalso.
    pose proof (lmul _ _ c Hc H) as E. replace (oinv c * c) with (1 : K) in E by (field; exact Hn).
    replace (0 * c) with (0 : K) in E by ring.
    apply (f_1_neq_0 F). apply asy; [exact E | apply leb_0_1].
  Qed.

  Lemma leb_div c a b : leb 0 c = true -> c <> 0 -> leb a b = true -> leb (a / c) (b / c) = true.
  Proof. intros Hc Hn H. rewrite !fdiv_def. apply lmul; [apply inv_nonneg; assumption | exact H]. Qed.

  (* ---- monotone maps commute with max / min ---- *)
  Definition mono (f : K -> K) : Prop := forall a b, leb a b = true -> leb (f a) (f b) = true.

  Lemma fmax2_mono f a b : mono f -> f (fmax2 K leb a b) = fmax2 K leb (f a) (f b).
  Proof.
    intros Hf. unfold fmax2. destruct (leb a b) eqn:E.
    - rewrite (Hf _ _ E). reflexivity.
    - apply leb_false in E. pose proof (Hf _ _ E) as E'. destruct (leb (f a) (f b)) eqn:E2; [|reflexivity].
      apply asy; assumption.
  Qed.

  Lemma fmin2_mono f a b : mono f -> f (fmin2 K leb a b) = fmin2 K leb (f a) (f b).
  Proof.
    intros Hf. unfold fmin2. destruct (leb a b) eqn:E.
    - rewrite (Hf _ _ E). reflexivity.
    - apply leb_false in E. pose proof (Hf _ _ E) as E'. destruct (leb (f a) (f b)) eqn:E2; [|reflexivity].
      apply asy; assumption.
  Qed.

  Lemma fold_max_mono f l a : mono f -> f (fold_left (fmax2 K leb) l a) = fold_left (fmax2 K leb) (map f l) (f a).
  Proof.
    intros Hf. revert a. induction l as [|x l IH]; intros a; cbn [fold_left map]; [reflexivity|].
    rewrite IH, fmax2_mono by exact Hf. reflexivity.
  Qed.

  Lemma fold_min_mono f l a : mono f -> f (fold_left (fmin2 K leb) l a) = fold_left (fmin2 K leb) (map f l) (f a).
  Proof.
    intros Hf. revert a. induction l as [|x l IH]; intros a; cbn [fold_left map]; [reflexivity|].
    rewrite IH, fmin2_mono by exact Hf. reflexivity.
  Qed.

  Lemma lmax_mono f l : mono f -> l <> [] -> lmax K leb (map f l) = f (lmax K leb l).
  Proof. intros Hf Hl. destruct l as [|x l]; [congruence|]. cbn [lmax map]. symmetry. apply fold_max_mono. exact Hf. Qed.

  Lemma lmin_mono f l : mono f -> l <> [] -> lmin K leb (map f l) = f (lmin K leb l).
  Proof. intros Hf Hl. destruct l as [|x l]; [congruence|]. cbn [lmin map]. symmetry. apply fold_min_mono. exact Hf. Qed.

  (* ---- lmax / lmin are the greatest / least element ---- *)
  Lemma fmax2_ge_l a b : leb a (fmax2 K leb a b) = true.
  Proof. unfold fmax2. destruct (leb a b) eqn:E; [exact E | apply leb_refl]. Qed.
  Lemma fmax2_ge_r a b : leb b (fmax2 K leb a b) = true.
  Proof. unfold fmax2. destruct (leb a b) eqn:E; [apply leb_refl | apply leb_false; exact E]. Qed.
  Lemma fmin2_le_l a b : leb (fmin2 K leb a b) a = true.
  Proof. unfold fmin2. destruct (leb a b) eqn:E; [apply leb_refl | apply leb_false; exact E]. Qed.
  Lemma fmin2_le_r a b : leb (fmin2 K leb a b) b = true.
  Proof. unfold fmin2. destruct (leb a b) eqn:E; [exact E | apply leb_refl]. Qed.

  Lemma fold_max_ge l a : leb a (fold_left (fmax2 K leb) l a) = true /\ forall x, In x l -> leb x (fold_left (fmax2 K leb) l a) = true.
  Proof.
    revert a. induction l as [|y l IH]; intros a; cbn [fold_left]; [split; [apply leb_refl | intros x []]|].
    destruct (IH (fmax2 K leb a y)) as [H1 H2]. split.
    - eapply tra; [apply fmax2_ge_l | exact H1].
    - intros x [->|Hx]; [eapply tra; [apply fmax2_ge_r | exact H1] | apply H2; exact Hx].
  Qed.

  Lemma fold_min_le l a : leb (fold_left (fmin2 K leb) l a) a = true /\ forall x, In x l -> leb (fold_left (fmin2 K leb) l a) x = true.
  Proof.
    revert a. induction l as [|y l IH]; intros a; cbn [fold_left]; [split; [apply leb_refl | intros x []]|].
    destruct (IH (fmin2 K leb a y)) as [H1 H2]. split.
    - eapply tra; [exact H1 | apply fmin2_le_l].
    - intros x [->|Hx]; [eapply tra; [exact H1 | apply fmin2_le_r] | apply H2; exact Hx].
  Qed.

  Lemma fold_max_in l a : fold_left (fmax2 K leb) l a = a \/ In (fold_left (fmax2 K leb) l a) l.
  Proof.
    revert a. induction l as [|y l IH]; intros a; cbn [fold_left]; [left; reflexivity|].
    destruct (IH (fmax2 K leb a y)) as [H|H].
    - rewrite H. unfold fmax2. destruct (leb a y); [right; left; reflexivity | left; reflexivity].
    - right. right. exact H.
  Qed.

  Lemma fold_min_in l a : fold_left (fmin2 K leb) l a = a \/ In (fold_left (fmin2 K leb) l a) l.
  Proof.
    revert a. induction l as [|y l IH]; intros a; cbn [fold_left]; [left; reflexivity|].
    destruct (IH (fmin2 K leb a y)) as [H|H].
    - rewrite H. unfold fmin2. destruct (leb a y); [left; reflexivity | right; left; reflexivity].
    - right. right. exact H.
  Qed.

  Lemma lmax_ge l x : In x l -> leb x (lmax K leb l) = true.
  Proof.
    destruct l as [|a l]; [intros []|]. cbn [lmax]. destruct (fold_max_ge l a) as [H1 H2].
    intros [<-|H]; [exact H1 | apply H2; exact H].
  Qed.
  Lemma lmin_le l x : In x l -> leb (lmin K leb l) x = true.
  Proof.
    destruct l as [|a l]; [intros []|]. cbn [lmin]. destruct (fold_min_le l a) as [H1 H2].
    intros [<-|H]; [exact H1 | apply H2; exact H].
  Qed.
  Lemma lmax_in l : l <> [] -> In (lmax K leb l) l.
  Proof.
    destruct l as [|a l]; [congruence|]. intros _. cbn [lmax].
    destruct (fold_max_in l a) as [H|H]; [rewrite H; left; reflexivity | right; exact H].
  Qed.
  Lemma lmin_in l : l <> [] -> In (lmin K leb l) l.
  Proof.
    destruct l as [|a l]; [congruence|]. intros _. cbn [lmin].
    destruct (fold_min_in l a) as [H|H]; [rewrite H; left; reflexivity | right; exact H].
  Qed.
  Lemma lmin_le_lmax l : l <> [] -> leb (lmin K leb l) (lmax K leb l) = true.
  Proof. intros H. apply lmax_ge. apply lmin_in. exact H. Qed.

  (* ---- absolute value ---- *)
  Lemma fabs_nonneg x : leb 0 (fabs K leb x) = true.
  Proof.
    unfold fabs. destruct (leb 0 x) eqn:E; [exact E|]. apply leb_false in E. apply leb_opp in E.
    replace (- (0 : K)) with (0 : K) in E by ring. exact E.
  Qed.

  Lemma fabs_div x c : leb 0 c = true -> c <> 0 -> fabs K leb (x / c) = fabs K leb x / c.
  Proof.
    intros Hc Hn. unfold fabs. destruct (leb 0 x) eqn:E.
    - pose proof (leb_div c 0 x Hc Hn E) as E'. replace (0 / c) with (0 : K) in E' by (field; exact Hn). rewrite E'. reflexivity.
    - destruct (leb 0 (x / c)) eqn:E2.
      + (* then 0 <= x, contradiction unless x = 0 *)
        pose proof (lmul _ _ c Hc E2) as E3. replace (0 * c) with (0 : K) in E3 by ring.
        replace (x / c * c) with x in E3 by (field; exact Hn). congruence.
      + field. exact Hn.
  Qed.

  Lemma fabs_mul x s : fabs K leb (x * s) = fabs K leb x * fabs K leb s.
  Proof.
    assert (P : forall a b, leb 0 a = true -> leb 0 b = true -> leb 0 (a * b) = true).
    { intros a b Ha Hb. pose proof (lmul _ _ b Hb Ha) as E. replace (0 * b) with (0 : K) in E by ring. exact E. }
    assert (Z0 : forall a, leb 0 a = true -> leb 0 (- a) = true -> a = 0).
    { intros a Ha Hn. apply asy; [|exact Ha]. apply leb_opp in Hn.
      replace (- - a) with a in Hn by ring. replace (- (0 : K)) with (0 : K) in Hn by ring. exact Hn. }
    assert (N : forall a, leb 0 a = false -> leb 0 (- a) = true).
    { intros a Ha. apply leb_false in Ha. apply leb_opp in Ha. replace (- (0 : K)) with (0 : K) in Ha by ring. exact Ha. }
    unfold fabs. destruct (leb 0 x) eqn:Ex, (leb 0 s) eqn:Es.
    - rewrite (P _ _ Ex Es). reflexivity.
    - pose proof (P _ _ Ex (N _ Es)) as E. replace (x * - s) with (- (x * s)) in E by ring.
      destruct (leb 0 (x * s)) eqn:E2; [|ring]. rewrite (Z0 _ E2 E) at 1. rewrite <- (Z0 _ E2 E). ring_simplify.
      transitivity (- (x * s)); [rewrite (Z0 _ E2 E); ring | ring].
    - pose proof (P _ _ (N _ Ex) Es) as E. replace (- x * s) with (- (x * s)) in E by ring.
      destruct (leb 0 (x * s)) eqn:E2; [|ring].
      transitivity (- (x * s)); [rewrite (Z0 _ E2 E); ring | ring].
    - pose proof (P _ _ (N _ Ex) (N _ Es)) as E. replace (- x * - s) with (x * s) in E by ring. rewrite E. ring.
  Qed.

  Lemma maxabs_nonneg l : leb 0 (maxabs K leb l) = true.
  Proof.
    unfold maxabs. destruct l as [|a l]; [apply leb_refl|].
    eapply tra; [apply (fabs_nonneg a) | apply lmax_ge; left; reflexivity].
  Qed.

  (* max_one *)
  Lemma maxabs_div l c : leb 0 c = true -> c <> 0 -> maxabs K leb (div_all K l c) = maxabs K leb l / c.
  Proof.
    intros Hc Hn. unfold maxabs, div_all. rewrite map_map.
    rewrite (map_ext (fun x => fabs K leb (x / c)) (fun x => fabs K leb x / c)) by (intros; apply fabs_div; assumption).
    rewrite <- (map_map (fabs K leb) (fun y => y / c)).
    destruct l as [|a l]; [cbn; field; exact Hn|].
    apply lmax_mono; [|discriminate]. intros u v Huv. apply leb_div; assumption.
  Qed.

  Lemma max_one_spec l : maxabs K leb l <> 0 -> maxabs K leb (div_all K l (maxabs K leb l)) = 1.
  Proof. intros H. rewrite maxabs_div; [field; exact H | apply maxabs_nonneg | exact H]. Qed.

  (* ... which means: every |entry| <= 1 and some |entry| = 1 *)
  Lemma maxabs_bound l x : In x l -> leb (fabs K leb x) (maxabs K leb l) = true.
  Proof. intros H. unfold maxabs. apply lmax_ge. apply in_map. exact H. Qed.
  Lemma maxabs_attained l : l <> [] -> exists x, In x l /\ fabs K leb x = maxabs K leb l.
  Proof.
    intros H. unfold maxabs. assert (Hm : map (fabs K leb) l <> []) by (destruct l; [congruence | discriminate]).
    pose proof (lmax_in _ Hm) as Hin. apply in_map_iff in Hin. destruct Hin as [x [E Hx]]. exists x. split; [exact Hx | exact E].
  Qed.

  Lemma maxabs_scaled s l : maxabs K leb (scaled K s l) = maxabs K leb l * fabs K leb s.
  Proof.
    unfold maxabs, scaled. rewrite map_map.
    rewrite (map_ext (fun x => fabs K leb (x * s)) (fun x => fabs K leb x * fabs K leb s)) by (intros; apply fabs_mul).
    rewrite <- (map_map (fabs K leb) (fun y => y * fabs K leb s)).
    destruct l as [|a l]; [cbn; ring|].
    apply lmax_mono; [|discriminate]. intros u v Huv. apply lmul; [apply fabs_nonneg | exact Huv].
  Qed.

  Lemma maxabs_scaled_unit s l : maxabs K leb l = 1 -> maxabs K leb (scaled K s l) = fabs K leb s.
  Proof. intros H. rewrite maxabs_scaled, H. ring. Qed.

  (* ---- clamping ---- *)
  Lemma lmax_sub_const l c : l <> [] -> lmax K leb (map (fun x => x - c) l) = lmax K leb l - c.
  Proof. intros H. apply (lmax_mono (fun x => x - c)); [|exact H]. intros a b Hab. apply leb_sub_const. exact Hab. Qed.

  Lemma clamp_formula lo hi l : l <> [] ->
    clamp K leb lo hi l = map (fun x => clamp_point K x (lmin K leb l) (lmax K leb l - lmin K leb l) lo hi) l.
  Proof.
    intros H. unfold clamp, clamp_point. rewrite lmax_sub_const by exact H. rewrite !map_map. reflexivity.
  Qed.

  Lemma clamp_point_min mn d lo hi : d <> 0 -> clamp_point K mn mn d lo hi = lo.
  Proof. intros Hd. unfold clamp_point. field. exact Hd. Qed.
  Lemma clamp_point_max mn mx lo hi : mx - mn <> 0 -> clamp_point K mx mn (mx - mn) lo hi = hi.
  Proof. intros Hd. unfold clamp_point. field. exact Hd. Qed.

  Lemma clamp_point_mono mn d lo hi : leb 0 d = true -> d <> 0 -> leb lo hi = true ->
    mono (fun x => clamp_point K x mn d lo hi).
  Proof.
    intros Hd Hn Hlh a b Hab. unfold clamp_point.
    apply ladd. apply lmul.
    - pose proof (leb_sub_const _ _ lo Hlh) as E. replace (lo - lo) with (0 : K) in E by ring. exact E.
    - apply leb_div; [exact Hd | exact Hn |]. apply leb_sub_const. exact Hab.
  Qed.

  Lemma range_nonneg l : l <> [] -> leb 0 (lmax K leb l - lmin K leb l) = true.
  Proof.
    intros H. pose proof (leb_sub_const _ _ (lmin K leb l) (lmin_le_lmax l H)) as E.
    replace (lmin K leb l - lmin K leb l) with (0 : K) in E by ring. exact E.
  Qed.

  Lemma clamp_min lo hi l : lmax K leb l <> lmin K leb l -> leb lo hi = true -> lmin K leb (clamp K leb lo hi l) = lo.
  Proof.
    intros Hne Hlh. assert (Hl : l <> []) by (intro E; subst; apply Hne; reflexivity).
    assert (Hd : lmax K leb l - lmin K leb l <> 0) by (intro E; apply Hne; apply (fsub_eq0 F); exact E).
    rewrite clamp_formula by exact Hl.
    rewrite (lmin_mono (fun x => clamp_point K x (lmin K leb l) (lmax K leb l - lmin K leb l) lo hi)).
    - apply clamp_point_min. exact Hd.
    - apply clamp_point_mono; [apply range_nonneg; exact Hl | exact Hd | exact Hlh].
    - exact Hl.
  Qed.

  Lemma clamp_max lo hi l : lmax K leb l <> lmin K leb l -> leb lo hi = true -> lmax K leb (clamp K leb lo hi l) = hi.
  Proof.
    intros Hne Hlh. assert (Hl : l <> []) by (intro E; subst; apply Hne; reflexivity).
    assert (Hd : lmax K leb l - lmin K leb l <> 0) by (intro E; apply Hne; apply (fsub_eq0 F); exact E).
    rewrite clamp_formula by exact Hl.
    rewrite (lmax_mono (fun x => clamp_point K x (lmin K leb l) (lmax K leb l - lmin K leb l) lo hi)).
    - apply clamp_point_max. exact Hd.
    - apply clamp_point_mono; [apply range_nonneg; exact Hl | exact Hd | exact Hlh].
    - exact Hl.
  Qed.

  Lemma clamp_length lo hi l : length (clamp K leb lo hi l) = length l.
  Proof. unfold clamp. rewrite !map_length. reflexivity. Qed.
End Ordered.

(* ------------------------------------------------------------------------------------------- *)
(* Qc is an ordered field for Qcle *)
Definition Qc_leb (x y : Qc) : bool := Qle_bool (this x) (this y).

Lemma Qc_leb_iff x y : Qc_leb x y = true <-> (x <= y)%Qc.
Proof. unfold Qc_leb, Qcle. apply Qle_bool_iff. Qed.

Lemma Qc_ordered : OrderedF QcField Qc_leb.
Proof.
  constructor; cbn; intros.
  - rewrite !Qc_leb_iff. destruct (Qclt_le_dec a b) as [H|H]; [left; apply Qclt_le_weak; exact H | right; exact H].
  - rewrite Qc_leb_iff in *. eapply Qcle_trans; eassumption.
  - rewrite Qc_leb_iff in *. apply Qcle_antisym; assumption.
  - rewrite Qc_leb_iff in *. apply Qcplus_le_compat; [assumption | apply Qcle_refl].
  - rewrite Qc_leb_iff in *. apply Qcmult_le_compat_r; assumption.
Qed.
