(* Initial-condition generators (exponax/ic/*.py): the algebra they apply to a drawn field, and their shapes.
   Hand-written from
     _base_ic.py     normalize_ic (if zero_mean: ic - mean(ic); if std_one: ic / std(ic); if max_one: ic / max(abs(ic)))
     _clamping.py    ClampingICGenerator.__call__  ((ic - min) / max(ic - min) * (hi - lo) + lo)
     _scaled.py      ScaledIC / ScaledICGenerator  (ic * scale)
     _truncated_fourier_series.py   DC coefficient := offset * noise.size, low-pass mask (axis_separate=True)
     _gaussian_random_field.py      amplitude = power(norm(k), -alpha / 2), flatten()[0] := 1
     _discontinuities.py            Discontinuity.__call__ mask = ones_like(x[0:1]) & (x[i:i+1] > lb) & (x[i:i+1] < ub)
     _multi_channel.py              concatenate(..., axis=0)
     _base_ic.py                    BaseRandomICGenerator.__call__ = gen_ic_fun(key)(make_grid(...))
   A field is the flat list of its values (all reductions are over the whole array, as jnp.mean/std/min/max without axis).
   Contracts of JAX primitives assumed (exercised by the correspondence of harness/props/c18.py):
     jnp.mean = sum / size;  jnp.std = sqrt(mean((x - mean x)^2)) (ddof = 0);  jnp.max/min/abs = the order of the scalars
     ([leb] below; an oracle, like [fsqrt] and [powf]);  flatten()[0] = the entry at multi-index (0,...,0);
     x[a:b] keeps max 0 (min b d - min a d) entries of axis 0;  & and where broadcast (equal ranks: 1 stretches);
     jnp.concatenate(axis=0) adds the leading extents and requires equal trailing extents;
     irfftn(norm="backward") = inverse DFT (1/N^D sum_k U_k prod_d w'^(j_d k_d)) of the Hermitian extension, whose k = 0
     entry is the stored entry (0,...,0).
   No proofs in this file. *)
From Coq Require Import ZArith List Bool.
From EXV Require Import Base.Scalar Layout.Freq.
Import ListNotations.
Local Open Scope fld_scope.

(* ------------------------------------------------------------------------------------------- *)
Section Normalize.
  Variable K : Ops.

  Definition flen (l : list K) : K := fz (Z.of_nat (length l)).
  Definition mean (l : list K) : K := fsum l / flen l.
  Definition center (l : list K) : list K := map (fun x => x - mean l) l.
  Definition sq (x : K) : K := x * x.
  Definition variance (l : list K) : K := mean (map sq (center l)).      (* jnp.std(l)^2 *)
  Definition div_all (l : list K) (c : K) : list K := map (fun x => x / c) l.

  (* the program of normalize_ic over abstract reductions (this is the shape the translator regenerates) *)
  Definition normalize_with (fmean fstd fmaxabs : list K -> K) (zero_mean std_one max_one : bool) (ic : list K) : list K :=
    let ic := if zero_mean then map (fun x => x - fmean ic) ic else ic in
    let ic := if std_one then map (fun x => x / fstd ic) ic else ic in
    let ic := if max_one then map (fun x => x / fmaxabs ic) ic else ic in
    ic.

  Variable leb : K -> K -> bool.        (* x <= y on the scalars *)
  Definition fabs (x : K) : K := if leb 0 x then x else - x.
  Definition fmax2 (a b : K) : K := if leb a b then b else a.
  Definition fmin2 (a b : K) : K := if leb a b then a else b.
  Definition lmax (l : list K) : K := match l with [] => 0 | x :: r => fold_left fmax2 r x end.
  Definition lmin (l : list K) : K := match l with [] => 0 | x :: r => fold_left fmin2 r x end.
  Definition maxabs (l : list K) : K := lmax (map fabs l).

  Variable fsqrt : K -> K.
  Definition std (l : list K) : K := fsqrt (variance l).

  Definition normalize_ic : bool -> bool -> bool -> list K -> list K := normalize_with mean std maxabs.

  (* ClampingICGenerator *)
  Definition clamp_point (x mn mx_above lo hi : K) : K := (x - mn) / mx_above * (hi - lo) + lo.
  Definition clamp (lo hi : K) (ic : list K) : list K :=
    let above := map (fun x => x - lmin ic) ic in
    let unit := map (fun x => x / lmax above) above in
    map (fun x => x * (hi - lo) + lo) unit.

  (* ScaledIC / ScaledICGenerator *)
  Definition scaled (s : K) (ic : list K) : list K := map (fun x => x * s) ic.
End Normalize.

(* ------------------------------------------------------------------------------------------- *)
(* RandomTruncatedFourierSeries: spectrum of the field before the inverse transform; D-dimensional inverse DFT and mean *)
Section Offset.
  Variable K : Ops.

  (* all index vectors of a D-dimensional array with n entries per axis, row-major *)
  Fixpoint gridD (D n : nat) : list (list nat) :=
    match D with
    | O => [[]]
    | S D' => flat_map (fun a => map (cons a) (gridD D' n)) (seq 0 n)
    end.
  Definition sumD (D n : nat) (f : list nat -> K) : K := fsum (map f (gridD D n)).
  Definition npts (D n : nat) : K := fpow (fz (Z.of_nat n)) D.                 (* noise.size = N^D *)
  Fixpoint chi (w' : K) (j k : list nat) : K :=                                (* prod_d w'^(j_d k_d) *)
    match j, k with
    | a :: j', b :: k' => fpow w' (a * b) * chi w' j' k'
    | _, _ => 1
    end.
  Definition idftD (D n : nat) (w' : K) (U : list nat -> K) (j : list nat) : K :=
    sumD D n (fun k => U k * chi w' j k) / npts D n.
  Definition meanD (D n : nat) (u : list nat -> K) : K := sumD D n u / npts D n.
  Definition is_dc (k : list nat) : bool := forallb (Nat.eqb 0) k.
  Definition zero_idx (D : nat) : list nat := repeat O D.

  Definition tfs_dc (offset : K) (D n : nat) : K := offset * npts D n.
  Definition tfs_spectrum (noise_hat : list nat -> K) (keep : list nat -> bool) (offset : K) (D n : nat) (k : list nat) : K :=
    if is_dc k then tfs_dc offset D n else if keep k then noise_hat k else 0.
  (* the mask used by the generator: low_pass_filter_mask(D, N, cutoff=cutoff, axis_separate=True) *)
  Definition tfs_keep (D n : nat) (cutoff : Z) (k : list nat) : bool := low_pass_axis D (Z.of_nat n) cutoff (map Z.of_nat k).
  (* the defect repaired in /repo 06b7e6b wrote the offset itself into the DC coefficient *)
  Definition tfs_dc_defect (offset : K) (D n : nat) : K := offset.
End Offset.

(* ------------------------------------------------------------------------------------------- *)
(* GaussianRandomField: amplitude multiplying the white-noise spectrum at the stored index idx *)
Section GRF.
  Variable K : Ops.
  Variable powf : K -> K -> K.          (* jnp.power *)
  Variable nrm : list Z -> K.           (* jnp.linalg.norm of the scaled wavenumber vector *)
  Definition is_zero_idx (idx : list Z) : bool := forallb (Z.eqb 0) idx.
  Definition grf_exponent (alpha : K) : K := (- alpha) / two.
  Definition grf_amplitude (D : nat) (N : Z) (alpha : K) (idx : list Z) : K :=
    if is_zero_idx idx then 1 else powf (nrm (wnvec D N idx)) (grf_exponent alpha).
  Definition grf_hat (D : nat) (N : Z) (alpha : K) (noise_hat : list Z -> K) (idx : list Z) : K :=
    noise_hat idx * grf_amplitude D N alpha idx.
  (* squared amplitude for an even integer exponent alpha = 2 m and scaled wavenumbers s * k: rational, executable *)
  Definition grf_amp_sq_even (s : K) (m : nat) (D : nat) (N : Z) (idx : list Z) : K :=
    if is_zero_idx idx then 1 else oinv (fpow (s * s * fz (norm2 (wnvec D N idx))) m).
End GRF.

(* ------------------------------------------------------------------------------------------- *)
(* Shapes.  A shape is a list of extents (channel axis first). *)
Local Open Scope Z_scope.

Definition spatial (D N : Z) : list Z := repeat N (Z.to_nat D).

Definition bdim (a b : Z) : option Z :=
  if a =? b then Some a else if a =? 1 then Some b else if b =? 1 then Some a else None.
Fixpoint bcast (a b : list Z) : option (list Z) :=         (* operands of equal rank *)
  match a, b with
  | [], [] => Some []
  | x :: a', y :: b' => match bdim x y, bcast a' b' with Some d, Some r => Some (d :: r) | _, _ => None end
  | _, _ => None
  end.
Definition slice0 (lo hi : Z) (sh : list Z) : list Z :=     (* x[lo:hi], 0 <= lo <= hi *)
  match sh with [] => [] | d :: r => Z.max 0 (Z.min hi d - Z.min lo d) :: r end.

(* Discontinuity.__call__: shape of the mask (= shape of the result of jnp.where(mask, value, 0.0)) for a grid of shape xshape
   and nlim (lower, upper) pairs; [init] is the shape of the initial all-true mask *)
Definition disc_mask_from (init : list Z) (xshape : list Z) (nlim : nat) : option (list Z) :=
  fold_left (fun acc i => match acc with
                          | None => None
                          | Some m => let s := slice0 (Z.of_nat i) (Z.of_nat i + 1) xshape in
                                      match bcast m s with None => None | Some m1 => bcast m1 s end
                          end) (seq 0 nlim) (Some init).
Definition disc_shape (xshape : list Z) (nlim : nat) : option (list Z) := disc_mask_from (slice0 0 1 xshape) xshape nlim.
(* before /repo f3c3edf the initial mask was ones_like(x) *)
Definition disc_shape_defect (xshape : list Z) (nlim : nat) : option (list Z) := disc_mask_from xshape xshape nlim.

(* generator terms: base classes by code, wrappers by constructor *)
Inductive gen : Type :=
| GBase (kind : Z) (D : Z)
| GScaled (g : gen)
| GClamp (g : gen)
| GMulti (gs : list gen).

(* base kinds *)
Definition K_TFS := 1.   Definition K_GRF := 2.   Definition K_DIFFUSED := 3.  Definition K_DISC := 4.
Definition K_BLOBS := 5. Definition K_SINE := 6.  Definition K_WHITE := 7.

(* which base generators define gen_ic_fun *)
Definition kind_has_fun (k : Z) : bool := (k =? K_DISC) || (k =? K_BLOBS) || (k =? K_SINE).
(* constructor rejection of a base generator with default options: RandomSineWaves1d only works in 1d *)
Definition base_ctor_raises (k D : Z) : bool := (k =? K_SINE) && negb (D =? 1).

(* the num_spatial_dims attribute (the multi-channel wrapper is a plain eqx.Module without it) *)
Fixpoint gen_dims (g : gen) : option Z :=
  match g with
  | GBase _ D => Some D
  | GScaled g' | GClamp g' => gen_dims g'
  | GMulti _ => None
  end.

Fixpoint sh_eqb (a b : list Z) : bool :=
  match a, b with [], [] => true | x :: a', y :: b' => (x =? y) && sh_eqb a' b' | _, _ => false end.

(* jnp.concatenate(axis=0) of shapes; None = raises *)
Definition cat2 (acc : option (list Z)) (o : option (list Z)) : option (list Z) :=
  match acc, o with
  | Some (c1 :: sp1), Some (c2 :: sp2) => if sh_eqb sp1 sp2 then Some (c1 + c2 :: sp1) else None
  | _, _ => None
  end.
Definition concat0 (l : list (option (list Z))) : option (list Z) :=
  match l with
  | [] => None                                   (* jnp.concatenate of an empty sequence raises *)
  | o :: r => fold_left cat2 r (match o with Some (c :: sp) => Some (c :: sp) | _ => None end)
  end.

(* shape of gen(N, key=key); None = construction or the call raises *)
Fixpoint gen_shape (N : Z) (g : gen) : option (list Z) :=
  match g with
  | GBase k D => if base_ctor_raises k D then None else Some (1 :: spatial D N)
  | GScaled g' | GClamp g' => match gen_dims g' with None => None | Some _ => gen_shape N g' end
  | GMulti gs => concat0 (map (gen_shape N) gs)
  end.

(* does gen.gen_ic_fun(key) exist (otherwise NotImplementedError) *)
Fixpoint supports_fun (g : gen) : bool :=
  match g with
  | GBase k _ => kind_has_fun k
  | GScaled g' => supports_fun g'
  | GClamp _ => false
  | GMulti gs => forallb supports_fun gs
  end.

(* only single-field generators and wrappers of them *)
Fixpoint single (g : gen) : bool :=
  match g with GBase _ _ => true | GScaled g' | GClamp g' => single g' | GMulti _ => false end.

(* ------------------------------------------------------------------------------------------- *)
(* function form vs sampled form.  A generator is (sample, fun form); keys are abstract. *)
Section FunForm.
  Variables (Key Grid Field : Type).
  Variable mk_grid : Z -> Grid.                         (* make_grid(D, L, N, indexing) *)
  Definition sampler := Z -> Key -> Field.              (* gen(N, key=key) *)
  Definition funform := Key -> Grid -> Field.           (* gen.gen_ic_fun(key=key)(grid) *)
  (* BaseRandomICGenerator.__call__ *)
  Definition base_call (f : funform) : sampler := fun N key => f key (mk_grid N).
  (* ScaledICGenerator: both forms are overridden *)
  Variable scale_field : Field -> Field.
  Definition scaled_call (s : sampler) : sampler := fun N key => scale_field (s N key).
  Definition scaled_fun (f : funform) : funform := fun key x => scale_field (f key x).
  (* RandomMultiChannelICGenerator: sub-generator i gets split(key, n)[i] in both forms *)
  Variable split : Key -> nat -> list Key.
  Variable cat : list Field -> Field.
  Definition multi_call (ss : list sampler) : sampler :=
    fun N key => cat (map (fun sk => fst sk N (snd sk)) (combine ss (split key (length ss)))).
  Definition multi_fun (fs : list funform) : funform :=
    fun key x => cat (map (fun fk => fst fk (snd fk) x) (combine fs (split key (length fs)))).
End FunForm.
