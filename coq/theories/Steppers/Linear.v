(* Linear steppers: ETDRK0 multiplies every Fourier mode by exp(dt * lambda_k); the wave stepper diagonalises
   (h, v) into travelling waves.  Models hand-written from etdrk/_etdrk_0.py, _base_etdrk.py, stepper/_wave.py.
   No proofs in this file.  [cexp] is the complex exponential (modelled by its functional equation). *)
From Coq Require Import ZArith QArith List Bool.
From EXV Require Import Base.Scalar Spectral.Symbols.
Import ListNotations.
Local Open Scope fld_scope.

Section LinearStep.
  Variable K : Ops.
  Variable cexp : K -> K.
  Variable I : Type.
  (* BaseETDRK: _exp_term = exp(dt * linear_operator);  ETDRK0.step_fourier = _exp_term * u_hat *)
  Definition exp_term (dt : K) (lam : I -> K) : I -> K := fun k => cexp (dt * lam k).
  Definition linear_step (dt : K) (lam : I -> K) (u : I -> K) : I -> K := fun k => exp_term dt lam k * u k.
  Fixpoint iter_step (n : nat) (f : (I -> K) -> (I -> K)) (u : I -> K) : I -> K :=
    match n with O => u | S m => f (iter_step m f u) end.
End LinearStep.

Section WaveStep.
  Variable K : Ops.
  (* one Fourier mode of Wave.step_fourier.  ii: imaginary unit, s: 1/sqrt 2, c: speed of sound,
     rho: |kappa| (norm of the scaled wavenumber vector), Ep/Em: exp(+-i c rho dt), is_dc: the mean mode *)
  Definition wave_mode (ii s c rho dt Ep Em : K) (is_dc : bool) (h v : K) : K * K :=
    let g := if oeqb rho 0 then 1 else rho in        (* k_guard *)
    let w := ii * c * g * h in
    let pos := s * (w + v) in
    let neg := s * (w - v) in
    let pos' := Ep * pos in                            (* linear operator (+i c rho, -i c rho) *)
    let neg' := Em * neg in
    let w' := s * (pos' + neg') in
    let v' := s * (pos' - neg') in
    let h' := w' / (ii * c * g) in
    ((if is_dc then h' + dt * v else h'), v').
  Definition wave_symbol (ii c rho : K) (channel : nat) : K :=
    match channel with O => ii * c * rho | _ => - (ii * c * rho) end.
End WaveStep.
