(* C10: the ETDRK steps of the 3D velocity steppers map divergence-free states to divergence-free states.
   States are functions of (channel, mode); the linear propagators and coefficients are the same for all channels
   (the linear operator has shape (1, ...) and is broadcast), the nonlinear term is divergence free for every input
   (it ends with the Leray projection; the Kolmogorov forcing is divergence free). Subject: Gen/ETDRK.v (translated from the source). *)
From Coq Require Import ZArith QArith List Bool Field Ring.
From EXV Require Import Base.Scalar Base.FieldLemmas Gen.ETDRK.
Local Open Scope fld_scope.

Section DivFree.
  Variable F : FieldT.
  Add Field Ff : (fth F).
  Variable M : Type.                               (* modes *)
  Notation I := (nat * M)%type.
  Variable d : nat -> M -> F.                      (* derivative operator, channel/axis c at mode k *)
  Definition div3 (w : I -> F) (k : M) : F := d 0 k * w (0%nat, k) + d 1 k * w (1%nat, k) + d 2 k * w (2%nat, k).

  Variable N : (I -> F) -> (I -> F).
  Hypothesis N_div_free : forall v k, div3 (N v) k = 0.
  (* channel-independent coefficient arrays *)
  Variables E Eh c1 c2 c3 c4 c5 c6 : I -> F.
  Variables E0 Eh0 g1 g2 g3 g4 g5 g6 : M -> F.
  Hypothesis HE : forall c k, E (c, k) = E0 k.
  Hypothesis HEh : forall c k, Eh (c, k) = Eh0 k.
  Hypothesis H1 : forall c k, c1 (c, k) = g1 k.
  Hypothesis H2 : forall c k, c2 (c, k) = g2 k.
  Hypothesis H3 : forall c k, c3 (c, k) = g3 k.
  Hypothesis H4 : forall c k, c4 (c, k) = g4 k.
  Hypothesis H5 : forall c k, c5 (c, k) = g5 k.
  Hypothesis H6 : forall c k, c6 (c, k) = g6 k.

  Ltac hyps := rewrite ?HE, ?HEh, ?H1, ?H2, ?H3, ?H4, ?H5, ?H6.

  (* a combination a*x + b*y with channel-independent a, b of divergence-free fields is divergence free *)
  Lemma div3_lin (a b : M -> F) (x y : I -> F) k :
    div3 (fun i => a (snd i) * x i + b (snd i) * y i) k = a k * div3 x k + b k * div3 y k.
  Proof. unfold div3. cbn [snd]. ring. Qed.

  Variable u : I -> F.
  Hypothesis u_div_free : forall k, div3 u k = 0.

  Theorem etdrk0_preserves k : div3 (etdrk0_step F E u) k = 0.
  Proof.
    unfold etdrk0_step, div3. hyps. transitivity (E0 k * div3 u k); [unfold div3; ring | rewrite u_div_free; ring].
  Qed.

  Theorem etdrk1_preserves k : div3 (etdrk1_step F E c1 N u) k = 0.
  Proof.
    unfold etdrk1_step, div3. hyps.
    transitivity (E0 k * div3 u k + g1 k * div3 (N u) k); [unfold div3; ring | rewrite u_div_free, N_div_free; ring].
  Qed.

  Theorem etdrk2_preserves k : div3 (etdrk2_step F E c1 c2 N u) k = 0.
  Proof.
    unfold etdrk2_step, div3. cbv beta zeta.
    set (a := fun k0 : I => E k0 * u k0 + c1 k0 * N u k0). hyps.
    transitivity (E0 k * div3 u k + g1 k * div3 (N u) k + g2 k * (div3 (N a) k - div3 (N u) k));
      [unfold div3; ring | rewrite u_div_free, !N_div_free; ring].
  Qed.

  Theorem etdrk3_preserves k : div3 (etdrk3_step F E Eh c1 c2 c3 c4 c5 N u) k = 0.
  Proof.
    unfold etdrk3_step, div3. cbv beta zeta.
    set (a := fun k0 : I => Eh k0 * u k0 + c1 k0 * N u k0).
    set (b := fun k0 : I => E k0 * u k0 + c2 k0 * (fz 2 * N a k0 - N u k0)). hyps.
    transitivity (E0 k * div3 u k + g3 k * div3 (N u) k + g4 k * div3 (N a) k + g5 k * div3 (N b) k);
      [unfold div3; ring | rewrite u_div_free, !N_div_free; ring].
  Qed.

  Theorem etdrk4_preserves k : div3 (etdrk4_step F E Eh c1 c2 c3 c4 c5 c6 N u) k = 0.
  Proof.
    unfold etdrk4_step, div3. cbv beta zeta.
    set (a := fun k0 : I => Eh k0 * u k0 + c1 k0 * N u k0).
    set (b := fun k0 : I => Eh k0 * u k0 + c2 k0 * N a k0).
    set (c := fun k0 : I => Eh k0 * (Eh k0 * u k0 + c1 k0 * N u k0) + c3 k0 * (fz 2 * N b k0 - N u k0)). hyps.
    transitivity (E0 k * div3 u k + g4 k * div3 (N u) k + g5 k * fz 2 * (div3 (N a) k + div3 (N b) k) + g6 k * div3 (N c) k);
      [unfold div3; ring | rewrite u_div_free, !N_div_free; ring].
  Qed.
End DivFree.
