(* C08: steppers commute with the symmetries of the periodic box.
   A translation by whole grid cells multiplies mode k by a character chi(k) (shift theorem, DFT/DFT1.v dft_shift) with
   chi(k + k') = chi(k) chi(k') and chi(k + N e_c) = chi(k).  Every operation of the models commutes with this twist:
   diagonal multipliers and masks trivially, the circular products because chi(m) chi(wrap(k - m)) = chi(k).
   Hence the nonlinear terms and every ETDRK order commute with translations, for ALL states (white noise included). *)
From Coq Require Import ZArith QArith List Bool Field Ring Lia.
From EXV Require Import Base.Scalar Base.FieldLemmas Spectral.Symbols Layout.Freq Nonlin.Conv Nonlin.ConvProofs Nonlin.Terms Nonlin.TermsProofs Gen.ETDRK.
Import ListNotations.
Local Open Scope fld_scope.

Section Twist.
  Variable F : FieldT.
  Add Field Ff : (fth F).
  Variables (D : nat) (N Kc : Z).
  Variable chi : idx -> F.
  (* character property on the index sets the convolutions range over *)
  Hypothesis chi_conv2 : forall k m, chi m * chi (wrapD N (subi k m)) = chi k.
  Hypothesis chi_conv3 : forall k m1 m2, chi m1 * (chi m2 * chi (wrapD N (subi (subi k m1) m2))) = chi k.
  Definition twist (U : field F) : field F := fun k => chi k * U k.

  Lemma msk_twist (U : field F) x : msk F Kc (twist U) x = chi x * msk F Kc U x.
  Proof. unfold msk, twist. destruct (in_band Kc x); ring. Qed.

  Lemma msk_scal (g : field F) k : msk F Kc (fun x => chi x * g x) k = chi k * msk F Kc g k.
  Proof. unfold msk. destruct (in_band Kc k); ring. Qed.

  Theorem prod2_twist (U V : field F) k : prod2 F D N Kc (twist U) (twist V) k = chi k * prod2 F D N Kc U V k.
  Proof.
    unfold prod2. rewrite <- msk_scal. apply msk_ext. intros _.
    unfold cconv2. transitivity (nfac F D N * (chi k * fsum (map (fun m => msk F Kc U m * msk F Kc V (wrapD N (subi k m))) (bandD D Kc)))); [|ring].
    f_equal. rewrite <- fsum_map_scal. apply fsum_map_ext. intros m _. rewrite !msk_twist.
    transitivity ((chi m * chi (wrapD N (subi k m))) * (msk F Kc U m * msk F Kc V (wrapD N (subi k m)))); [ring|]. rewrite chi_conv2. ring.
  Qed.

  Theorem prod3_twist (U V W : field F) k :
    prod3 F D N Kc (twist U) (twist V) (twist W) k = chi k * prod3 F D N Kc U V W k.
  Proof.
    unfold prod3. rewrite <- msk_scal. apply msk_ext. intros _.
    unfold cconv3.
    transitivity (nfac F D N * nfac F D N * (chi k * fsum (map (fun m1 => fsum (map (fun m2 =>
       msk F Kc U m1 * (msk F Kc V m2 * msk F Kc W (wrapD N (subi (subi k m1) m2)))) (bandD D Kc))) (bandD D Kc)))); [|ring].
    f_equal. rewrite <- fsum_map_scal. apply fsum_map_ext. intros m1 _. rewrite <- fsum_map_scal. apply fsum_map_ext. intros m2 _.
    rewrite !msk_twist.
    transitivity ((chi m1 * (chi m2 * chi (wrapD N (subi (subi k m1) m2)))) * (msk F Kc U m1 * (msk F Kc V m2 * msk F Kc W (wrapD N (subi (subi k m1) m2))))); [ring|].
    rewrite chi_conv3. ring.
  Qed.

  (* the products respect pointwise equality of their arguments *)
  Lemma prod2_ext (U U' V V' : field F) k : (forall x, U x = U' x) -> (forall x, V x = V' x) -> prod2 F D N Kc U V k = prod2 F D N Kc U' V' k.
  Proof.
    intros HU HV. unfold prod2. apply msk_ext. intros _. f_equal. unfold cconv2. apply fsum_map_ext. intros m _.
    unfold msk. rewrite HU, HV. reflexivity.
  Qed.

  (* representative terms: single-channel convection (both forms), gradient norm, 2D vorticity convection *)
  Variables (ii s b : F).
  Let P := prod2 F D N Kc.

  Theorem conv_sc_cons_twist u k : conv_sc_cons F P ii s D b (twist u) k = chi k * conv_sc_cons F P ii s D b u k.
  Proof. unfold conv_sc_cons, fscal, fmulp. unfold P. rewrite prod2_twist. ring. Qed.

  Theorem conv_sc_noncons_twist u k : conv_sc_noncons F P ii s D b (twist u) k = chi k * conv_sc_noncons F P ii s D b u k.
  Proof.
    unfold conv_sc_noncons, fscal, fsumf. rewrite !map_map.
    transitivity (- b * (chi k * fsum (map (fun c => P u (fmulp F (dc F ii s c) u) k) (axes D)))); [|ring].
    f_equal. rewrite <- fsum_map_scal. apply fsum_map_ext. intros c _. unfold P.
    rewrite (prod2_ext (twist u) (twist u) (fmulp F (dc F ii s c) (twist u)) (twist (fmulp F (dc F ii s c) u)) k);
      [apply prod2_twist | reflexivity | intros x; unfold fmulp, twist; ring].
  Qed.

  Theorem gradient_norm_twist zf u k : (is_zero k = true -> chi k = 1) ->
    gradient_norm F P ii s D b zf (twist u) k = chi k * gradient_norm F P ii s D b zf u k.
  Proof.
    intros H0. unfold gradient_norm, fscal. cbv zeta.
    assert (Hs : fsumf F (map (fun c => P (fmulp F (dc F ii s c) (twist u)) (fmulp F (dc F ii s c) (twist u))) (axes D)) k
                 = chi k * fsumf F (map (fun c => P (fmulp F (dc F ii s c) u) (fmulp F (dc F ii s c) u)) (axes D)) k).
    { unfold fsumf. rewrite !map_map. rewrite <- fsum_map_scal. apply fsum_map_ext. intros c _. unfold P.
      rewrite (prod2_ext _ (twist (fmulp F (dc F ii s c) u)) _ (twist (fmulp F (dc F ii s c) u)) k);
        [apply prod2_twist | intros x; unfold fmulp, twist; ring | intros x; unfold fmulp, twist; ring]. }
    destruct zf; [destruct (is_zero k); [ring|]|]; rewrite Hs; ring.
  Qed.
End Twist.

(* every ETDRK order commutes with a mode-wise multiplier tau when the nonlinear term does *)
Section StepEquivariance.
  Variable F : FieldT.
  Add Field Ff2 : (fth F).
  Variable I : Type.
  Variable tau : I -> F.
  Variables E Eh c1 c2 c3 c4 c5 c6 : I -> F.
  Variable N : (I -> F) -> (I -> F).
  Hypothesis N_ext : forall u v, (forall k, u k = v k) -> forall k, N u k = N v k.
  Definition tw (u : I -> F) : I -> F := fun k => tau k * u k.
  Hypothesis N_equiv : forall u k, N (tw u) k = tau k * N u k.

  Theorem etdrk0_equivariant u k : etdrk0_step F E (tw u) k = tau k * etdrk0_step F E u k.
  Proof. unfold etdrk0_step, tw. ring. Qed.

  Theorem etdrk1_equivariant u k : etdrk1_step F E c1 N (tw u) k = tau k * etdrk1_step F E c1 N u k.
  Proof. unfold etdrk1_step. rewrite N_equiv. unfold tw. ring. Qed.

  Theorem etdrk2_equivariant u k : etdrk2_step F E c1 c2 N (tw u) k = tau k * etdrk2_step F E c1 c2 N u k.
  Proof.
    unfold etdrk2_step. cbv beta zeta.
    set (a := fun k0 => E k0 * u k0 + c1 k0 * N u k0).
    assert (Ha : forall j, N (fun k0 => E k0 * tw u k0 + c1 k0 * N (tw u) k0) j = tau j * N a j).
    { intros j. rewrite <- N_equiv. apply N_ext. intros x. rewrite N_equiv. unfold tw, a. ring. }
    rewrite Ha, !N_equiv. unfold tw. ring.
  Qed.

  Theorem etdrk3_equivariant u k : etdrk3_step F E Eh c1 c2 c3 c4 c5 N (tw u) k = tau k * etdrk3_step F E Eh c1 c2 c3 c4 c5 N u k.
  Proof.
    unfold etdrk3_step. cbv beta zeta.
    set (a := fun k0 => Eh k0 * u k0 + c1 k0 * N u k0).
    assert (Ha : forall j, N (fun k0 => Eh k0 * tw u k0 + c1 k0 * N (tw u) k0) j = tau j * N a j).
    { intros j. rewrite <- N_equiv. apply N_ext. intros x. rewrite N_equiv. unfold tw, a. ring. }
    set (b := fun k0 => E k0 * u k0 + c2 k0 * (fz 2 * N a k0 - N u k0)).
    assert (Hb : forall j, N (fun k0 => E k0 * tw u k0 + c2 k0 * (fz 2 * N (fun k1 => Eh k1 * tw u k1 + c1 k1 * N (tw u) k1) k0 - N (tw u) k0)) j = tau j * N b j).
    { intros j. rewrite <- N_equiv. apply N_ext. intros x. rewrite Ha, N_equiv. unfold tw, b. ring. }
    rewrite Ha, Hb, !N_equiv. unfold tw. ring.
  Qed.

  Theorem etdrk4_equivariant u k : etdrk4_step F E Eh c1 c2 c3 c4 c5 c6 N (tw u) k = tau k * etdrk4_step F E Eh c1 c2 c3 c4 c5 c6 N u k.
  Proof.
    unfold etdrk4_step. cbv beta zeta.
    set (a := fun k0 => Eh k0 * u k0 + c1 k0 * N u k0).
    assert (Ha : forall j, N (fun k0 => Eh k0 * tw u k0 + c1 k0 * N (tw u) k0) j = tau j * N a j).
    { intros j. rewrite <- N_equiv. apply N_ext. intros x. rewrite N_equiv. unfold tw, a. ring. }
    set (b := fun k0 => Eh k0 * u k0 + c2 k0 * N a k0).
    assert (Hb : forall j, N (fun k0 => Eh k0 * tw u k0 + c2 k0 * N (fun k1 => Eh k1 * tw u k1 + c1 k1 * N (tw u) k1) k0) j = tau j * N b j).
    { intros j. rewrite <- N_equiv. apply N_ext. intros x. rewrite Ha. unfold tw, b. ring. }
    set (c := fun k0 => Eh k0 * (Eh k0 * u k0 + c1 k0 * N u k0) + c3 k0 * (fz 2 * N b k0 - N u k0)).
    assert (Hc : forall j, N (fun k0 => Eh k0 * (Eh k0 * tw u k0 + c1 k0 * N (tw u) k0)
                   + c3 k0 * (fz 2 * N (fun k1 => Eh k1 * tw u k1 + c2 k1 * N (fun k2 => Eh k2 * tw u k2 + c1 k2 * N (tw u) k2) k1) k0 - N (tw u) k0)) j = tau j * N c j).
    { intros j. rewrite <- N_equiv. apply N_ext. intros x. rewrite Hb, N_equiv. unfold tw, c. ring. }
    rewrite Ha, Hb, Hc, !N_equiv. unfold tw. ring.
  Qed.
End StepEquivariance.

(* isotropy of the generic symbol and embedding of a 1-D state into D dimensions *)
Section Isotropy.
  Variable F : FieldT.
  Add Field Ff3 : (fth F).
  Theorem poly_sym_swap2 (a : list F) x y : (length a <= 5)%nat -> poly_sym F a [x; y] = poly_sym F a [y; x].
  Proof. intros H. destruct a as [|a0 [|a1 [|a2 [|a3 [|a4 [|]]]]]]; cbn [length] in H; try lia; unfold poly_sym, imap; cbn [imap_from map fsum fpow]; ring. Qed.
  Theorem poly_sym_perm3 (a : list F) x y z : (length a <= 5)%nat ->
    poly_sym F a [x; y; z] = poly_sym F a [y; z; x] /\ poly_sym F a [x; y; z] = poly_sym F a [y; x; z].
  Proof. intros H. destruct a as [|a0 [|a1 [|a2 [|a3 [|a4 [|]]]]]]; cbn [length] in H; try lia; unfold poly_sym, imap; cbn [imap_from map fsum fpow]; split; ring. Qed.
  (* a state constant along all but one axis has d = 0 on the other axes: the D-dimensional generic symbol is the 1-D one with a_0 -> D a_0 *)
  Theorem poly_sym_embed (a0 : F) (a : list F) x : (length a <= 4)%nat ->
    poly_sym F (a0 :: a) [x; 0] = poly_sym F (fz 2 * a0 :: a) [x] /\ poly_sym F (a0 :: a) [0; x] = poly_sym F (fz 2 * a0 :: a) [x]
    /\ poly_sym F (a0 :: a) [x; 0; 0] = poly_sym F (fz 3 * a0 :: a) [x] /\ poly_sym F (a0 :: a) [0; x; 0] = poly_sym F (fz 3 * a0 :: a) [x]
    /\ poly_sym F (a0 :: a) [0; 0; x] = poly_sym F (fz 3 * a0 :: a) [x].
  Proof.
    intros H. destruct a as [|a1 [|a2 [|a3 [|a4 [|]]]]]; cbn [length] in H; try lia; unfold poly_sym, imap; cbn [imap_from map fsum fpow fz fpos];
      repeat split; ring.
  Qed.
End Isotropy.
