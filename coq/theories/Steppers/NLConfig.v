(* The nonlinear function a stepper builds in `_build_nonlinear_fun`: one constructor per nonlinear-function class, arguments =
   the keyword arguments of that class's __init__ in ALPHABETICAL order (num_spatial_dims, num_points and derivative_operator are
   always the stepper's own and are checked by the translator harness/translate/buildnl.py, not recorded).  Hand-written; the
   `__call__` of each class is translated by harness/translate/nonlin.py and tied to Nonlin/Terms.v in Tie/NonlinTie.v. *)
From Coq Require Import ZArith List Bool.
Set Implicit Arguments.

Inductive nlconfig (K : Type) : Type :=
| NL_ZeroNonlinearFun
| NL_PolynomialNonlinearFun (coefficients : list K) (dealiasing_fraction : K)
| NL_ConvectionNonlinearFun (conservative : bool) (dealiasing_fraction : K) (scale : K) (single_channel : bool)
| NL_GradientNormNonlinearFun (dealiasing_fraction : K) (scale : K) (zero_mode_fix : bool)
| NL_GeneralNonlinearFun (dealiasing_fraction : K) (scale_list : list K) (zero_mode_fix : bool)
| NL_VorticityConvection2d (convection_scale : K) (dealiasing_fraction : K)
| NL_VorticityConvection2dKolmogorov (convection_scale : K) (dealiasing_fraction : K) (injection_mode : Z) (injection_scale : K)
| NL_ProjectedConvection3d (dealiasing_fraction : K)
| NL_ProjectedConvection3dKolmogorov (dealiasing_fraction : K) (injection_mode : Z) (injection_scale : K)
| NL_CahnHilliardNonlinearFun (dealiasing_fraction : K) (scale : K)
| NL_GrayScottNonlinearFun (dealiasing_fraction : K) (feed_rate : K) (kill_rate : K)
| NL_BelousovZhabotinskyNonlinearFun (dealiasing_fraction : K).
Arguments NL_ZeroNonlinearFun K : clear implicits.
