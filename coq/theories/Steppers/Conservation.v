(* C09: conserved mean and constant equilibria.
   (a) every ETDRK order (stage programs translated from the source, Gen/ETDRK.v) leaves a mode k0 unchanged when the
       propagator is 1 there (lambda(k0) = 0) and the nonlinear term vanishes there for every input (conservation form);
   (b) the mean mode of the conservation-form nonlinear terms vanishes (Nonlin/Terms.v) and the conservation-form symbols
       vanish at the mean mode (Spectral/Symbols.v);
   (c) a state with lambda*u + N(u) = 0 mode by mode (a constant equilibrium) is a fixed point of every ETD tableau. *)
From Coq Require Import ZArith QArith List Bool Field Ring Lia.
From EXV Require Import Base.Scalar Base.FieldLemmas Spectral.Symbols Layout.Freq Nonlin.Conv Nonlin.Terms ETDRK.Phi Gen.ETDRK.
Import ListNotations.
Local Open Scope fld_scope.

Section MeanPreserved.
  Variable F : FieldT.
  Add Field Ff : (fth F).
  Variable I : Type.
  Variable k0 : I.
  Variables E Eh c1 c2 c3 c4 c5 c6 : I -> F.
  Variable N : (I -> F) -> (I -> F).
  Hypothesis E_one : E k0 = 1.
  Hypothesis N_zero : forall v, N v k0 = 0.

  Theorem mean_preserved (u : I -> F) :
    etdrk0_step F E u k0 = u k0
    /\ etdrk1_step F E c1 N u k0 = u k0
    /\ etdrk2_step F E c1 c2 N u k0 = u k0
    /\ etdrk3_step F E Eh c1 c2 c3 c4 c5 N u k0 = u k0
    /\ etdrk4_step F E Eh c1 c2 c3 c4 c5 c6 N u k0 = u k0.
  Proof.
    unfold etdrk0_step, etdrk1_step, etdrk2_step, etdrk3_step, etdrk4_step. cbv beta zeta.
    rewrite !N_zero, E_one. repeat split; ring.
  Qed.
End MeanPreserved.

Section DCTerms.
  Variable F : FieldT.
  Add Field Ff2 : (fth F).
  Variable M : field F -> field F.
  Variable P2 : field F -> field F -> field F.
  Variable P3 : field F -> field F -> field F -> field F.
  Variables (ii s : F) (D : nat).
  Variable k0 : idx.
  Hypothesis k0_zero : Forall (fun c => c = 0%Z) k0.

  Lemma nth_all_zero (l : list Z) c : Forall (fun x => x = 0%Z) l -> nth c l 0%Z = 0%Z.
  Proof. intros H. revert c. induction H as [|x l Hx Hl IH]; intros [|c]; cbn; try reflexivity; [exact Hx | apply IH]. Qed.

  Lemma dc_zero c : dc F ii s c k0 = 0.
  Proof. unfold dc. rewrite (nth_all_zero k0 c k0_zero). cbn [fz]. ring. Qed.

  Lemma fsumf_map_zero {A} (g : A -> field F) (l : list A) (k : idx) : (forall a, g a k = 0) -> fsumf F (map g l) k = 0.
  Proof. intros H. unfold fsumf. induction l as [|a l IH]; cbn [map fsum]; [reflexivity | rewrite H, IH; ring]. Qed.

  Lemma fsumf_map2_zero (g : nat -> field F -> field F) ax (us : list (field F)) (k : idx) :
    (forall c u, g c u k = 0) -> fsumf F (map2 g ax us) k = 0.
  Proof.
    intros H. unfold fsumf. revert us. induction ax as [|c ax IH]; intros [|u us]; cbn [map2 map fsum]; try reflexivity.
    rewrite H, IH. ring.
  Qed.

  Lemma nth_map_zero {A} (g : A -> field F) (l : list A) i (k : idx) : (forall a, g a k = 0) -> nth i (map g l) (fzero F) k = 0.
  Proof. intros H. revert i. induction l as [|a l IH]; intros [|i]; cbn [map nth]; try reflexivity; [apply H | apply IH]. Qed.

  (* conservative convection: the derivative stands in front, so the mean-mode coefficient of every channel vanishes *)
  Theorem conv_sc_cons_dc b u : conv_sc_cons F P2 ii s D b u k0 = 0.
  Proof.
    unfold conv_sc_cons, fscal, fmulp. rewrite fsumf_map_zero by (intros c; apply dc_zero). ring.
  Qed.

  Theorem conv_mc_cons_dc b us i : nth i (conv_mc_cons F P2 ii s D b us) (fzero F) k0 = 0.
  Proof.
    unfold conv_mc_cons. apply nth_map_zero. intros ui. unfold fscal.
    rewrite fsumf_map2_zero; [ring|]. intros c u. unfold fmulp. rewrite dc_zero. ring.
  Qed.

  (* gradient norm with the mean fix, Cahn-Hilliard (Laplacian in front) *)
  Theorem gradient_norm_dc b u : is_zero k0 = true -> gradient_norm F P2 ii s D b true u k0 = 0.
  Proof. intros H. unfold gradient_norm, fscal. cbv zeta. rewrite H. ring. Qed.

  Theorem cahn_hilliard_dc sc u : cahn_hilliard F P3 ii s D sc u k0 = 0.
  Proof.
    unfold cahn_hilliard, fscal, fmulp, lap.
    assert (H : fsum (map (fun c => dc F ii s c k0 * dc F ii s c k0) (axes D)) = 0).
    { induction (axes D) as [|c l IH]; cbn [map fsum]; [reflexivity | rewrite dc_zero, IH; ring]. }
    rewrite H. ring.
  Qed.
End DCTerms.

(* conservation-form linear symbols vanish at the mean mode (d = 0 on every axis), any dimension *)
Section DCSymbols.
  Variable F : FieldT.
  Add Field Ff3 : (fth F).

  Lemma laplace_dc n (d : list F) : Forall (fun x => x = 0) d -> laplace_sym F (S n) d = 0.
  Proof.
    intros H. unfold laplace_sym. induction H as [|x l Hx Hl IH]; cbn [map fsum]; [reflexivity|].
    rewrite IH, Hx. cbn [fpow]. ring.
  Qed.

  Lemma gip_dc v n (d : list F) : Forall (fun x => x = 0) d -> gip_sym F v (S n) d = 0.
  Proof.
    intros H. unfold gip_sym. revert v. induction H as [|x l Hx Hl IH]; intros [|vc v]; cbn [map2 fsum]; try reflexivity.
    rewrite IH, Hx. cbn [fpow]. ring.
  Qed.

  Lemma quad_row_dc (row d : list F) (di : F) : Forall (fun x => x = 0) d -> fsum (map2 (fun aij dj => aij * (di * dj)) row d) = 0.
  Proof.
    intros H. revert row. induction H as [|x l Hx Hl IH]; intros [|a row]; cbn [map2 fsum]; try reflexivity.
    rewrite IH, Hx. ring.
  Qed.

  Lemma quad_form_dc_gen A (d0 dd : list F) : Forall (fun x => x = 0) dd ->
    fsum (map2 (fun row di => fsum (map2 (fun aij dj => aij * (di * dj)) row dd)) A d0) = 0.
  Proof.
    intros H. revert d0. induction A as [|row A IH]; intros d0; destruct d0 as [|x0 d0]; cbn [map2 fsum]; try reflexivity.
    rewrite (quad_row_dc row dd x0 H), IH. ring.
  Qed.

  Lemma quad_form_dc A (d : list F) : Forall (fun x => x = 0) d -> quad_form F A d = 0.
  Proof. intros H. unfold quad_form. apply quad_form_dc_gen. exact H. Qed.

  Theorem dc_symbols_zero (d : list F) (v xi : list F) (A : list (list F)) (nu mu s2 s4 gam c1 x1 : F) (f1 f2 : bool) :
    Forall (fun x => x = 0) d ->
    sym_advection F v d = 0 /\ sym_diffusion F A d = 0 /\ sym_advection_diffusion F v A d = 0
    /\ sym_dispersion F f1 xi d = 0 /\ sym_hyper_diffusion F f2 mu d = 0 /\ sym_burgers F nu d = 0
    /\ sym_kdv F f1 f2 nu x1 mu d = 0 /\ sym_ks F s2 s4 d = 0 /\ sym_cahn_hilliard F nu gam c1 d = 0
    /\ sym_navier_stokes F nu 0 d = 0.
  Proof.
    intros H.
    unfold sym_advection, sym_diffusion, sym_advection_diffusion, sym_dispersion, sym_hyper_diffusion, sym_burgers, sym_kdv, sym_ks,
      sym_cahn_hilliard, sym_navier_stokes.
    repeat split; try destruct f1; try destruct f2; rewrite ?(laplace_dc _ d H), ?(gip_dc _ _ d H), ?(quad_form_dc _ d H); ring.
  Qed.
End DCSymbols.

(* constant equilibria are fixed points of the ETD tableaux *)
Section FixedPoints.
  Variable F : FieldT.
  Add Field Ff4 : (fth F).
  Variable I : Type.
  Variable h : F.
  Variables lam E Eh : I -> F.
  Variable N : (I -> F) -> (I -> F).
  Hypothesis N_ext : forall u v, (forall k, u k = v k) -> forall k, N u k = N v k.
  Let z := fun k => h * lam k.
  Variable ustar : I -> F.
  (* equilibrium, mode by mode *)
  Hypothesis equilibrium : forall k, lam k * ustar k + N ustar k = 0.
  (* where the symbol vanishes the propagators are 1 (exp 0 = 1) *)
  Hypothesis E_at_zero : forall k, z k = 0 -> E k = 1 /\ Eh k = 1.
  Let two_nz : @fz F 2 <> 0. Proof. apply fz_neq0. discriminate. Qed.

  Lemma N_star k : N ustar k = - lam k * ustar k.
  Proof. transitivity (lam k * ustar k + N ustar k - lam k * ustar k); [ring | rewrite equilibrium; ring]. Qed.

  Lemma lam_zero k : z k = 0 -> N ustar k = 0 \/ h = 0.
  Proof.
    intros Hz. unfold z in Hz. apply (fmul_eq0 F) in Hz. destruct Hz as [Hh|Hl]; [right; exact Hh|].
    left. rewrite N_star, Hl. ring.
  Qed.

  (* first-stage identities: E us + h phi1(z) N(us) = us,  Eh us + h phi1(z/2)/2 N(us) = us   (us = the equilibrium) *)
  Lemma stage_full k : E k * ustar k + h * (phi1 (z k) (E k) * N ustar k) = ustar k.
  Proof.
    destruct (feq_dec F (z k) 0) as [Hz|Hz].
    - destruct (E_at_zero k Hz) as [HE _]. rewrite HE. destruct (lam_zero k Hz) as [HN|Hh]; [rewrite HN | rewrite Hh]; ring.
    - rewrite N_star. unfold phi1, phi0. unfold z in *. field. split; intro E0; apply Hz; rewrite E0; ring.
  Qed.

  Lemma stage_half k : Eh k * ustar k + h * (phi1 (half (z k)) (Eh k) / fz 2 * N ustar k) = ustar k.
  Proof.
    destruct (feq_dec F (z k) 0) as [Hz|Hz].
    - destruct (E_at_zero k Hz) as [_ HE]. rewrite HE. destruct (lam_zero k Hz) as [HN|Hh]; [rewrite HN | rewrite Hh]; ring.
    - rewrite N_star. unfold phi1, phi0, half. unfold z in *. cbn [fz fpos]. field.
      repeat split; try exact (two_neq0 F); intro E0; apply Hz; rewrite E0; ring.
  Qed.

  Theorem etd1_fixed_point k : etd1 h z E N ustar k = ustar k.
  Proof. unfold etd1. apply stage_full. Qed.

  Theorem etd2rk_fixed_point k : etd2rk h z E N ustar k = ustar k.
  Proof.
    unfold etd2rk. cbv zeta.
    assert (Ha : forall j, N (fun k0 => E k0 * ustar k0 + h * (phi1 (z k0) (E k0) * N ustar k0)) j = N ustar j)
      by (apply N_ext; intros j; apply stage_full).
    rewrite Ha.
    transitivity (E k * ustar k + h * (phi1 (z k) (E k) * N ustar k)); [ring | apply stage_full].
  Qed.

  Theorem etd3rk_fixed_point k : etd3rk h z E Eh N ustar k = ustar k.
  Proof.
    unfold etd3rk. cbv zeta.
    assert (Ha : forall j, N (fun k0 => Eh k0 * ustar k0 + h * (phi1 (half (z k0)) (Eh k0) / fz 2 * N ustar k0)) j = N ustar j)
      by (apply N_ext; intros j; apply stage_half).
    assert (Hb : forall j, N (fun k0 => E k0 * ustar k0 + h * (- phi1 (z k0) (E k0) * N ustar k0
                  + fz 2 * phi1 (z k0) (E k0) * N (fun k1 => Eh k1 * ustar k1 + h * (phi1 (half (z k1)) (Eh k1) / fz 2 * N ustar k1)) k0)) j = N ustar j).
    { apply N_ext. intros j. rewrite Ha. transitivity (E j * ustar j + h * (phi1 (z j) (E j) * N ustar j)); [cbn [fz fpos]; ring | apply stage_full]. }
    rewrite Ha, Hb.
    transitivity (E k * ustar k + h * (phi1 (z k) (E k) * N ustar k)); [cbn [fz fpos]; ring | apply stage_full].
  Qed.

  Theorem etd4rk_fixed_point k : etd4rk h z E Eh N ustar k = ustar k.
  Proof.
    unfold etd4rk. cbv zeta.
    assert (Ha : forall j, N (fun k0 => Eh k0 * ustar k0 + h * (phi1 (half (z k0)) (Eh k0) / fz 2 * N ustar k0)) j = N ustar j)
      by (apply N_ext; intros j; apply stage_half).
    assert (Hb : forall j, N (fun k0 => Eh k0 * ustar k0 + h * (phi1 (half (z k0)) (Eh k0) / fz 2
                  * N (fun k1 => Eh k1 * ustar k1 + h * (phi1 (half (z k1)) (Eh k1) / fz 2 * N ustar k1)) k0)) j = N ustar j).
    { apply N_ext. intros j. rewrite Ha. apply stage_half. }
    assert (Hc : forall j, N (fun k0 => Eh k0 * (Eh k0 * ustar k0 + h * (phi1 (half (z k0)) (Eh k0) / fz 2 * N ustar k0))
                  + h * (phi1 (half (z k0)) (Eh k0) / fz 2 * (fz 2 * N (fun k1 => Eh k1 * ustar k1 + h * (phi1 (half (z k1)) (Eh k1) / fz 2
                  * N (fun k2 => Eh k2 * ustar k2 + h * (phi1 (half (z k2)) (Eh k2) / fz 2 * N ustar k2)) k1)) k0 - N ustar k0))) j = N ustar j).
    { apply N_ext. intros j. rewrite Hb. rewrite stage_half.
      transitivity (Eh j * ustar j + h * (phi1 (half (z j)) (Eh j) / fz 2 * N ustar j)); [cbn [fz fpos]; ring | apply stage_half]. }
    rewrite Ha, Hb, Hc.
    transitivity (E k * ustar k + h * (phi1 (z k) (E k) * N ustar k)); [cbn [fz fpos]; ring | apply stage_full].
  Qed.
End FixedPoints.
