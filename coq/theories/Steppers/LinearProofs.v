From Coq Require Import ZArith QArith List Bool Field Ring Lia.
From EXV Require Import Base.Scalar Base.FieldLemmas Spectral.Symbols Steppers.Linear.
Import ListNotations.
Local Open Scope fld_scope.

Section LinearStepProofs.
  Variable F : FieldT.
  Add Field Ff : (fth F).
  Variable cexp : F -> F.
  Hypothesis cexp_add : forall a b, cexp (a + b) = cexp a * cexp b.
  Hypothesis cexp_0 : cexp 0 = 1.
  Variable I : Type.
  Variable lam : I -> F.

  Lemma cexp_nmul (n : nat) x : cexp (fz (Z.of_nat n) * x) = fpow (cexp x) n.
  Proof.
    induction n as [|n IH].
    - cbn [Z.of_nat fz fpow]. replace (0 * x) with (0 : F) by ring. exact cexp_0.
    - rewrite Nat2Z.inj_succ. unfold Z.succ. rewrite fz_add. cbn [fpow].
      replace ((fz (Z.of_nat n) + fz 1) * x) with (x + fz (Z.of_nat n) * x) by (cbn [fz fpos]; ring).
      rewrite cexp_add, IH. reflexivity.
  Qed.

  (* n steps with dt = one step with n*dt, at every mode, for every state *)
  Theorem semigroup (dt : F) (n : nat) (u : I -> F) (k : I) :
    iter_step F I n (linear_step F cexp I dt lam) u k = linear_step F cexp I (fz (Z.of_nat n) * dt) lam u k.
  Proof.
    revert k. induction n as [|n IH]; intros k.
    - cbn [iter_step]. unfold linear_step, exp_term. cbn [Z.of_nat fz].
      replace (0 * dt * lam k) with (0 : F) by ring. rewrite cexp_0. ring.
    - cbn [iter_step]. unfold linear_step at 1. rewrite IH. unfold linear_step, exp_term.
      rewrite Nat2Z.inj_succ. unfold Z.succ. rewrite fz_add.
      replace ((fz (Z.of_nat n) + fz 1) * dt * lam k) with (dt * lam k + fz (Z.of_nat n) * dt * lam k) by (cbn [fz fpos]; ring).
      rewrite cexp_add. ring.
  Qed.

  (* a step with -dt undoes a step with dt (every linear stepper, every state: in exact arithmetic also the dissipative ones) *)
  Theorem inverse_step (dt : F) (u : I -> F) (k : I) :
    linear_step F cexp I (- dt) lam (linear_step F cexp I dt lam u) k = u k.
  Proof.
    unfold linear_step, exp_term.
    replace (cexp (- dt * lam k) * (cexp (dt * lam k) * u k)) with (cexp (- dt * lam k + dt * lam k) * u k) by (rewrite cexp_add; ring).
    replace (- dt * lam k + dt * lam k) with (0 : F) by ring. rewrite cexp_0. ring.
  Qed.

  (* the propagator of a sum of commuting symbols is the product (used for advection-diffusion etc.) *)
  Theorem propagator_sum (dt a b : F) : cexp (dt * (a + b)) = cexp (dt * a) * cexp (dt * b).
  Proof. rewrite <- cexp_add. f_equal. ring. Qed.

  Lemma cexp_nz x : cexp x <> 0.
  Proof.
    intro H. apply (f_1_neq_0 F). rewrite <- cexp_0. replace (0 : F) with (x + - x) by ring.
    rewrite cexp_add, H. ring.
  Qed.
End LinearStepProofs.

Section WaveProofs.
  Variable F : FieldT.
  Add Field Ff2 : (fth F).
  Variables ii s c rho dt Ep Em : F.
  Hypothesis ii_sq : ii * ii = - (1).
  Hypothesis s_sq : fz 2 * (s * s) = 1.
  Hypothesis c_nz : c <> 0.
  Let two_nz : @fz F 2 <> 0. Proof. apply fz_neq0. discriminate. Qed.
  Let ii_nz : ii <> 0.
  Proof. intro H. apply (f_1_neq_0 F). transitivity (- (ii * ii)); [rewrite ii_sq; ring | rewrite H; ring]. Qed.
  Let s_nz : s <> 0.
  Proof. intro H. apply (f_1_neq_0 F). rewrite <- s_sq, H. ring. Qed.

  (* cos(theta) = (e^{i theta} + e^{-i theta})/2, sin(theta) = (e^{i theta} - e^{-i theta})/(2i), theta = c rho dt *)
  Definition Ccos : F := (Ep + Em) / fz 2.
  Definition Csin : F := (Ep - Em) / (fz 2 * ii).

  (* every non-mean mode: the exact solution of h'' = -(c rho)^2 h, independent of the normalisation s *)
  Theorem wave_exact (h v : F) : rho <> 0 ->
    wave_mode F ii s c rho dt Ep Em false h v
    = (Ccos * h + Csin / (c * rho) * v, - (c * rho) * Csin * h + Ccos * v).
  Proof.
    intros Hr. unfold wave_mode, Ccos, Csin.
    rewrite (proj2 (feqb_false F rho 0) Hr). cbv zeta.
    assert (Hs : s * s = 1 / fz 2) by (apply (fmul_cancel_l F (fz 2)); [exact two_nz | rewrite s_sq; field; exact two_nz]).
    assert (Hi : oinv ii = - ii).
    { apply (fmul_cancel_l F ii); [exact ii_nz|]. transitivity (1 : F); [field; exact ii_nz|]. transitivity (- (ii * ii)); [rewrite ii_sq; ring | ring]. }
    f_equal.
    - transitivity ((s * s) * ((Ep + Em) * h + (Ep - Em) * oinv ii * v / (c * rho))).
      { field. repeat split; assumption. }
      rewrite Hs, Hi. transitivity ((Ep + Em) / fz 2 * h + (Ep - Em) * oinv ii / fz 2 / (c * rho) * v).
      { rewrite Hi. field. repeat split; assumption. }
      field. repeat split; assumption.
    - transitivity ((s * s) * ((Ep - Em) * (ii * c * rho * h) + (Ep + Em) * v)).
      { ring. }
      rewrite Hs. transitivity (- (c * rho) * ((Ep - Em) * (- ii) / fz 2) * h + (Ep + Em) / fz 2 * v).
      { field. exact two_nz. }
      rewrite <- Hi. field. repeat split; assumption.
  Qed.

  (* the mean mode: h drifts linearly with the (constant) mean velocity -- exact solution of h' = v, v' = 0 *)
  Theorem wave_exact_dc (h v : F) : rho = 0 -> Ep = 1 -> Em = 1 ->
    wave_mode F ii s c rho dt Ep Em true h v = (h + dt * v, v).
  Proof.
    intros Hr H1 H2. unfold wave_mode. rewrite Hr, H1, H2. rewrite (feqb_refl F 0). cbv zeta.
    assert (Hs : s * s * fz 2 = 1) by (rewrite <- s_sq; ring).
    f_equal.
    - transitivity ((s * s * fz 2) * h + dt * v).
      { clear Hs Hr H1 H2 s_sq ii_sq. cbn [fz fpos]. field. repeat split; try assumption; try apply f_1_neq_0. }
      rewrite Hs. ring.
    - transitivity ((s * s * fz 2) * v); [clear Hs Hr H1 H2 s_sq ii_sq; cbn [fz fpos]; ring|]. rewrite Hs. ring.
  Qed.
End WaveProofs.
