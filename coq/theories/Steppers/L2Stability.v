(* C11 end to end: if a step multiplies every stored mode of a REAL field by a factor of modulus <= 1 and returns a real field, the discrete
   L2 norm does not grow - in every dimension, for every state.  Mode-wise non-amplification (Steppers/NonAmplification.v) + Parseval on the
   stored half spectrum (Metrics/ParsevalRealD.v).  The order laws are premises (satisfiable over Q, Props/C11.v). *)
From Coq Require Import ZArith QArith List Bool Field Ring Lia Arith.
From EXV Require Import Base.Scalar Base.FieldLemmas Base.Cplx DFT.DFT1 IC.Normalize IC.GeneratorsProofs DFT.DFTD Metrics.Metrics Metrics.MetricsProofs
  Metrics.ParsevalRealD Steppers.NonAmplification.
Import ListNotations.
Local Open Scope fld_scope.

Section L2.
  Variable F : FieldT.
  Hypothesis FR : FormallyReal F.
  Add Field Ffl2 : (fth F).
  Variable le : F -> F -> Prop.
  Infix "<=" := le.
  Hypothesis le_refl : forall x, x <= x.
  Hypothesis le_add : forall x y z t, x <= y -> z <= t -> x + z <= y + t.
  Hypothesis le_mul_nonneg : forall x y, 0 <= x -> 0 <= y -> 0 <= x * y.
  Hypothesis sq_nonneg : forall x, 0 <= x * x.
  Variable n : nat.
  Variable w : cx F.
  Hypothesis n_pos : (0 < n)%nat.
  Hypothesis w_n : @fpow (CField FR) w n = c1 F.
  Hypothesis w_prim : forall m, (0 < m < n)%nat -> @fpow (CField FR) w m <> c1 F.
  Hypothesis w_unit : cmul w (cconj w) = c1 F.

  Lemma fsum_le {A} (f g : A -> F) (l : list A) : (forall x, In x l -> f x <= g x) -> fsum (map f l) <= fsum (map g l).
  Proof.
    induction l as [|a l IH]; intros H; cbn [map fsum]; [apply le_refl|].
    apply le_add; [apply H; left; reflexivity | apply IH; intros x Hx; apply H; right; exact Hx].
  Qed.

  Lemma half_mult_nonneg b : 0 <= half_mult F n b.
  Proof.
    unfold half_mult. destruct (_ || _).
    - replace (1 : F) with ((1 : F) * 1) by ring. apply sq_nonneg.
    - unfold two. replace (0 : F) with ((0 : F) + 0) by ring. apply le_add; replace (1 : F) with ((1 : F) * 1) by ring; apply sq_nonneg.
  Qed.

  Lemma mul_le_mono_nonneg c a b : 0 <= c -> 0 <= b - a -> c * a <= c * b.
  Proof.
    intros Hc Hd. replace (c * a) with (c * a + 0) by ring. replace (c * b) with (c * a + c * (b - a)) by ring.
    apply le_add; [apply le_refl | apply le_mul_nonneg; assumption].
  Qed.

  (* every stored mode of v is E(k) times the stored mode of u, |E(k)|^2 <= 1: the energy of v does not exceed the energy of u *)
  Theorem l2_norm_not_amplified D (u v : list nat -> F) (E : list nat -> cx F) :
    (forall lead b, In lead (gridD D n) -> (b < n / 2 + 1)%nat ->
       rdftD F n w (S D) v (lead ++ [b]) = cmul (E (lead ++ [b])) (rdftD F n w (S D) u (lead ++ [b]))) ->
    (forall k, 0 <= 1 - cnorm2 (E k)) ->
    npts F (S D) n * sumD F (S D) n (fun j => v j * v j) <= npts F (S D) n * sumD F (S D) n (fun j => u j * u j).
  Proof.
    intros Hv HE.
    rewrite <- (parseval_half_spectrum_D F FR n w n_pos w_n w_prim w_unit D v), <- (parseval_half_spectrum_D F FR n w n_pos w_n w_prim w_unit D u).
    unfold sumD. apply fsum_le. intros lead Hl. unfold bsum. apply fsum_le. intros b Hb. apply in_seq in Hb.
    rewrite (Hv lead b Hl ltac:(lia)).
    apply mul_le_mono_nonneg; [apply half_mult_nonneg|].
    rewrite (cnorm2_mul F). set (a := cnorm2 (rdftD F n w (S D) u (lead ++ [b]))).
    replace (a - cnorm2 (E (lead ++ [b])) * a) with (a * (1 - cnorm2 (E (lead ++ [b])))) by ring.
    apply le_mul_nonneg; [apply (cnorm2_nonneg F le le_add sq_nonneg) | apply HE].
  Qed.

  (* ... with equality when every factor has modulus one (advection, dispersion on odd grids / Nyquist-free states) *)
  Theorem l2_norm_preserved D (u v : list nat -> F) (E : list nat -> cx F) :
    (forall lead b, In lead (gridD D n) -> (b < n / 2 + 1)%nat ->
       rdftD F n w (S D) v (lead ++ [b]) = cmul (E (lead ++ [b])) (rdftD F n w (S D) u (lead ++ [b]))) ->
    (forall k, cnorm2 (E k) = 1) ->
    npts F (S D) n * sumD F (S D) n (fun j => v j * v j) = npts F (S D) n * sumD F (S D) n (fun j => u j * u j).
  Proof.
    intros Hv HE.
    rewrite <- (parseval_half_spectrum_D F FR n w n_pos w_n w_prim w_unit D v), <- (parseval_half_spectrum_D F FR n w n_pos w_n w_prim w_unit D u).
    unfold sumD. apply fsum_map_ext. intros lead Hl. unfold bsum. apply fsum_map_ext. intros b Hb. apply in_seq in Hb.
    rewrite (Hv lead b Hl ltac:(lia)), (cnorm2_mul F), HE. ring.
  Qed.
End L2.
