(* Specific steppers versus the generic stepper with the equivalent coefficient list (C13) and
   basic facts about the symbols (DC value, conjugation-free algebra) used by C01/C09. *)
From Coq Require Import ZArith QArith List Bool Field Ring Lia.
From EXV Require Import Base.Scalar Base.FieldLemmas Spectral.Symbols.
Import ListNotations.
Local Open Scope fld_scope.

Section Pairs.
  Variable F : FieldT.
  Add Field Ff : (fth F).

  (* D in {1,2,3}: the list d of derivative-operator values has 1 to 3 entries *)
  Ltac dims d H := destruct d as [|?x [|?y [|?z [|]]]]; cbn [length] in H; try lia; clear H.
  Ltac crunch := unfold poly_sym, sym_advection, sym_diffusion, sym_advection_diffusion, sym_dispersion, sym_hyper_diffusion,
                   sym_burgers, sym_kdv, sym_ks, sym_navier_stokes, sym_allen_cahn, sym_fisher, sym_swift_hohenberg, sym_cahn_hilliard,
                   quad_form, gip_sym, laplace_sym, diag_mat, diag_row, const_vec, ones, imap;
                 cbn [imap_from map map2 fsum fpow length seq Nat.eqb fz fpos]; try ring.

  Variable d : list F.
  Hypothesis Hd : (1 <= length d <= 3)%nat.

  Lemma advection_generic c : sym_advection F (const_vec F c d) d = poly_sym F [0; - c] d.
  Proof. dims d Hd; crunch. Qed.
  Lemma diffusion_generic nu : sym_diffusion F (diag_mat F (const_vec F nu d)) d = poly_sym F [0; 0; nu] d.
  Proof. dims d Hd; crunch. Qed.
  Lemma advection_diffusion_generic c nu :
    sym_advection_diffusion F (const_vec F c d) (diag_mat F (const_vec F nu d)) d = poly_sym F [0; - c; nu] d.
  Proof. dims d Hd; crunch. Qed.
  Lemma dispersion_generic xi : sym_dispersion F false (const_vec F xi d) d = poly_sym F [0; 0; 0; xi] d.
  Proof. dims d Hd; crunch. Qed.
  Lemma hyper_diffusion_generic mu : sym_hyper_diffusion F false mu d = poly_sym F [0; 0; 0; 0; - mu] d.
  Proof. dims d Hd; crunch. Qed.
  Lemma burgers_generic nu : sym_burgers F nu d = poly_sym F [0; 0; nu] d.
  Proof. dims d Hd; crunch. Qed.
  Lemma kdv_generic nu xi mu : sym_kdv F false false nu xi mu d = poly_sym F [0; 0; nu; - xi; - mu] d.
  Proof. dims d Hd; crunch. Qed.
  Lemma ks_generic s2 s4 : sym_ks F s2 s4 d = poly_sym F [0; 0; - s2; 0; - s4] d.
  Proof. dims d Hd; crunch. Qed.
  (* zeroth-order terms: the generic symbol counts a_0 once per axis, so a_0 = c_0 / D *)
  Lemma navier_stokes_generic nu drag a0 :
    fz (Z.of_nat (length d)) * a0 = drag -> sym_navier_stokes F nu drag d = poly_sym F [a0; 0; nu] d.
  Proof. intros H. dims d Hd; cbn [length Z.of_nat Pos.of_succ_nat Pos.succ fz fpos] in H; rewrite <- H; crunch. Qed.
  Lemma fisher_generic nu r a0 :
    fz (Z.of_nat (length d)) * a0 = r -> sym_fisher F nu r d = poly_sym F [a0; 0; nu] d.
  Proof. intros H. dims d Hd; cbn [length Z.of_nat Pos.of_succ_nat Pos.succ fz fpos] in H; rewrite <- H; crunch. Qed.
  Lemma allen_cahn_generic nu c1 a0 :
    fz (Z.of_nat (length d)) * a0 = c1 -> sym_allen_cahn F nu c1 d = poly_sym F [a0; 0; nu] d.
  Proof. intros H. dims d Hd; cbn [length Z.of_nat Pos.of_succ_nat Pos.succ fz fpos] in H; rewrite <- H; crunch. Qed.
  (* Swift-Hohenberg has (k_c + Laplace)^2: generic (sum of pure 4th derivatives) only in 1D *)
  Lemma swift_hohenberg_generic_1d r kc x :
    sym_swift_hohenberg F r kc [x] = poly_sym F [r - kc * kc; 0; - (fz 2 * kc); 0; - (1 : F)] [x].
  Proof. crunch. Qed.

  (* mixing flags: both variants agree in 1D, and differ by the documented mixed terms otherwise *)
  Lemma dispersion_flags_1d xi x : sym_dispersion F true [xi] [x] = sym_dispersion F false [xi] [x].
  Proof. crunch. Qed.
  Lemma hyper_diffusion_flags_1d mu x : sym_hyper_diffusion F true mu [x] = sym_hyper_diffusion F false mu [x].
  Proof. crunch. Qed.
  Lemma hyper_diffusion_flags_2d mu x y :
    sym_hyper_diffusion F true mu [x; y] = sym_hyper_diffusion F false mu [x; y] - fz 2 * mu * (x * x) * (y * y).
  Proof. crunch. Qed.
End Pairs.

Section DC.
  Variable F : FieldT.
  Add Field Ff2 : (fth F).
  (* at the mean mode every derivative-operator value is 0 *)
  Lemma dop_dc ii s n : dop F ii s (repeat 0%Z n) = repeat 0 n.
  Proof. induction n as [|n IH]; cbn [repeat dop map]; [reflexivity|]. unfold dop in IH. rewrite IH. f_equal. cbn [fz]. ring. Qed.
End DC.
