(* C11: dissipative and dispersive linear steppers never amplify.
   Real parts of the symbols for real coefficients and real wavenumbers (complex numbers over a field F);
   the norm is multiplicative, so a mode multiplied by E with |E|^2 <= 1 does not grow; weighted sums are monotone;
   the real inverse transform replaces c by Re c at self-conjugate modes, which does not increase |c|^2;
   the wave stepper conserves the wave energy |v|^2 + (c rho)^2 |h|^2 mode by mode.
   The order is given by section hypotheses (an ordered field), discharged as premises of the theorems. *)
From Coq Require Import ZArith QArith List Bool Field Ring Lia.
From EXV Require Import Base.Scalar Base.FieldLemmas Base.Cplx Spectral.Symbols Spectral.Operators Spectral.RealSymbols.
Import ListNotations.
Local Open Scope fld_scope.

Section RealParts.
  Variable F : FieldT.
  Add Field Ff : (fth F).
  Notation C := (COps F).
  Definition creal (x : F) : cx F := cofr x.

  Lemma re_fsum (l : list (cx F)) : re (@fsum C l) = fsum (map re l).
  Proof. induction l as [|z l IH]; cbn [fsum map]; [reflexivity | rewrite <- IH; reflexivity]. Qed.
  Lemma im_fsum (l : list (cx F)) : im (@fsum C l) = fsum (map im l).
  Proof. induction l as [|z l IH]; cbn [fsum map]; [reflexivity | rewrite <- IH; reflexivity]. Qed.

  (* powers of i*x *)
  Lemma ipow1 (x : F) : @fpow C (cmul ci (cofr x)) 1 = mkcx 0 x.
  Proof. apply cx_ext; cbn; ring. Qed.
  Lemma ipow2 (x : F) : @fpow C (cmul ci (cofr x)) 2 = mkcx (- (x * x)) 0.
  Proof. apply cx_ext; cbn; ring. Qed.
  Lemma ipow3 (x : F) : @fpow C (cmul ci (cofr x)) 3 = mkcx 0 (- (x * x * x)).
  Proof. apply cx_ext; cbn; ring. Qed.
  Lemma ipow4 (x : F) : @fpow C (cmul ci (cofr x)) 4 = mkcx (x * x * x * x) 0.
  Proof. apply cx_ext; cbn; ring. Qed.

  (* advection / dispersion (order 1 and 3): purely imaginary symbols, |exp| = 1 *)
  Theorem gip_real_part (v kap : list F) :
    re (gip_sym C (map cofr v) 1 (dreal F kap)) = 0 /\ re (gip_sym C (map cofr v) 3 (dreal F kap)) = 0.
  Proof.
    unfold gip_sym, dreal. split; revert kap; induction v as [|vc v IH]; intros [|x kap]; cbn [map map2 fsum]; try reflexivity.
    - change (re (cadd (cmul (cofr vc) (@fpow C (cmul ci (cofr x)) 1)) (@fsum C (map2 (fun vc0 dc => cmul vc0 (@fpow C dc 1)) (map cofr v) (map (fun x0 => cmul ci (cofr x0)) kap)))) = 0).
      rewrite ipow1. cbn [re cadd cmul cofr im]. rewrite IH. ring.
    - change (re (cadd (cmul (cofr vc) (@fpow C (cmul ci (cofr x)) 3)) (@fsum C (map2 (fun vc0 dc => cmul vc0 (@fpow C dc 3)) (map cofr v) (map (fun x0 => cmul ci (cofr x0)) kap)))) = 0).
      rewrite ipow3. cbn [re cadd cmul cofr im]. rewrite IH. ring.
  Qed.

  (* Laplace-type symbols: order 2 gives -sum kappa^2, order 4 gives +sum kappa^4 (real) *)
  Theorem laplace_real (kap : list F) :
    laplace_sym C 2 (dreal F kap) = cofr (- fsum (map (fun x => x * x) kap))
    /\ laplace_sym C 4 (dreal F kap) = cofr (fsum (map (fun x => x * x * x * x) kap)).
  Proof.
    unfold laplace_sym, dreal. split; induction kap as [|x kap IH]; cbn [map fsum]; try (apply cx_ext; cbn; ring).
    - change (cadd (@fpow C (cmul ci (cofr x)) 2) (@fsum C (map (fun x0 => @fpow C x0 2) (map (fun x0 => cmul ci (cofr x0)) kap))) = cofr (- (x * x + fsum (map (fun x0 => x0 * x0) kap)))).
      rewrite IH, ipow2. apply cx_ext; cbn; ring.
    - change (cadd (@fpow C (cmul ci (cofr x)) 4) (@fsum C (map (fun x0 => @fpow C x0 4) (map (fun x0 => cmul ci (cofr x0)) kap))) = cofr (x * x * x * x + fsum (map (fun x0 => x0 * x0 * x0 * x0) kap))).
      rewrite IH, ipow4. apply cx_ext; cbn; ring.
  Qed.
End RealParts.

Section Order.
  Variable F : FieldT.
  Add Field Ff2 : (fth F).
  (* ordered field structure, as premises *)
  Variable le : F -> F -> Prop.
  Infix "<=" := le.
  Hypothesis le_refl : forall x, x <= x.
  Hypothesis le_trans : forall x y z, x <= y -> y <= z -> x <= z.
  Hypothesis le_add : forall x y z t, x <= y -> z <= t -> x + z <= y + t.
  Hypothesis le_mul_nonneg : forall x y, 0 <= x -> 0 <= y -> 0 <= x * y.
  Hypothesis sq_nonneg : forall x, 0 <= x * x.

  Lemma le_mul_mono (a x : F) : 0 <= a -> x <= 1 -> 0 <= 1 - x -> a * x <= a.
  Proof.
    intros Ha _ H1. assert (H : 0 <= a * (1 - x)) by (apply le_mul_nonneg; assumption).
    replace (a * x) with (a * x + 0) by ring. replace a with (a * x + a * (1 - x)) at 2 by ring.
    apply le_add; [apply le_refl | exact H].
  Qed.

  Lemma cnorm2_nonneg (z : cx F) : 0 <= cnorm2 z.
  Proof. unfold cnorm2. replace (0 : F) with ((0 : F) + 0) by ring. apply le_add; apply sq_nonneg. Qed.

  (* the modulus is multiplicative *)
  Lemma cnorm2_mul (a b : cx F) : cnorm2 (cmul a b) = cnorm2 a * cnorm2 b.
  Proof. unfold cnorm2, cmul. cbn. ring. Qed.

  (* one mode: multiplication by a propagator of modulus <= 1 does not increase the modulus *)
  Theorem mode_not_amplified (E u : cx F) : 0 <= 1 - cnorm2 E -> cnorm2 (cmul E u) <= cnorm2 u.
  Proof.
    intros H. rewrite cnorm2_mul. replace (cnorm2 E * cnorm2 u) with (cnorm2 u * cnorm2 E) by ring.
    apply le_mul_mono; [apply cnorm2_nonneg | | exact H].
    replace (cnorm2 E) with (cnorm2 E + 0) by ring. replace (1 : F) with (cnorm2 E + (1 - cnorm2 E)) by ring.
    apply le_add; [apply le_refl | exact H].
  Qed.

  (* ... with equality when |E|^2 = 1 (advection, dispersion, waves) *)
  Theorem mode_norm_preserved (E u : cx F) : cnorm2 E = 1 -> cnorm2 (cmul E u) = cnorm2 u.
  Proof. intros H. rewrite cnorm2_mul, H. ring. Qed.

  (* weighted sums over modes (Parseval weights w_k >= 0) are monotone: the L2 norm does not grow *)
  Theorem weighted_sum_not_amplified (w : list F) (E u : list (cx F)) :
    Forall (fun x => 0 <= x) w -> Forall (fun e => 0 <= 1 - cnorm2 e) E ->
    fsum (map2 (fun wk p => wk * cnorm2 (cmul (fst p) (snd p))) w (combine E u))
    <= fsum (map2 (fun wk p => wk * cnorm2 (snd p)) w (combine E u)).
  Proof.
    intros Hw. revert E u. induction Hw as [|wk w Hk Hw IH]; intros E u HE; cbn [map2 fsum]; [apply le_refl|].
    destruct E as [|e E]; cbn [combine map2 fsum]; [apply le_refl|]. destruct u as [|uk u]; cbn [combine map2 fsum]; [apply le_refl|].
    inversion HE as [|? ? He HE']; subst. apply le_add; [|apply IH; exact HE']. cbn [fst snd].
    assert (Hm := mode_not_amplified e uk He).
    (* wk * a <= wk * b from a <= b, wk >= 0:  wk*b - wk*a = wk*(b - a) >= 0 *)
    assert (Hd : 0 <= cnorm2 uk - cnorm2 (cmul e uk)).
    { rewrite cnorm2_mul. replace (cnorm2 uk - cnorm2 e * cnorm2 uk) with (cnorm2 uk * (1 - cnorm2 e)) by ring.
      apply le_mul_nonneg; [apply cnorm2_nonneg | exact He]. }
    replace (wk * cnorm2 (cmul e uk)) with (wk * cnorm2 (cmul e uk) + 0) by ring.
    replace (wk * cnorm2 uk) with (wk * cnorm2 (cmul e uk) + wk * (cnorm2 uk - cnorm2 (cmul e uk))) by ring.
    apply le_add; [apply le_refl | apply le_mul_nonneg; assumption].
  Qed.

  (* the c2r transform keeps only the real part of a self-conjugate mode: |Re c|^2 <= |c|^2 *)
  Theorem real_part_contracts (c : cx F) : cnorm2 (cofr (re c)) <= cnorm2 c.
  Proof.
    unfold cnorm2, cofr. cbn [re im]. replace (re c * re c + 0 * 0) with (re c * re c + 0) by ring.
    apply le_add; [apply le_refl | apply sq_nonneg].
  Qed.

  Lemma sum_sq_nonneg (l : list F) : 0 <= fsum (map (fun x => x * x) l).
  Proof. induction l as [|x l IH]; cbn [map fsum]; [apply le_refl|]. replace (0 : F) with ((0 : F) + 0) by ring. apply le_add; [apply sq_nonneg | exact IH]. Qed.
  Lemma sum_q4_nonneg (l : list F) : 0 <= fsum (map (fun x => x * x * x * x) l).
  Proof.
    induction l as [|x l IH]; cbn [map fsum]; [apply le_refl|]. replace (0 : F) with ((0 : F) + 0) by ring. apply le_add; [|exact IH].
    replace (x * x * x * x) with ((x * x) * (x * x)) by ring. apply sq_nonneg.
  Qed.

  (* diffusion: Re lambda = -sum kappa^2 * nu <= 0 for nu >= 0 (and hyper-diffusion -mu sum kappa^4 <= 0) *)
  Theorem dissipative_symbols_nonpositive (nu mu : F) (kap : list F) : 0 <= nu -> 0 <= mu ->
    0 <= - re (@omul (COps F) (cofr nu) (laplace_sym (COps F) 2 (dreal F kap)))
    /\ 0 <= - re (@omul (COps F) (cofr (- mu)) (laplace_sym (COps F) 4 (dreal F kap))).
  Proof.
    intros Hn Hm. destruct (laplace_real F kap) as [H2 H4]. rewrite H2, H4. cbn [omul COps cmul cofr re im].
    pose proof (sum_sq_nonneg kap) as S2. pose proof (sum_q4_nonneg kap) as S4.
    split.
    - replace (- (nu * - fsum (map (fun x => x * x) kap) - 0 * 0)) with (nu * fsum (map (fun x => x * x) kap)) by ring. apply le_mul_nonneg; assumption.
    - replace (- (- mu * fsum (map (fun x => x * x * x * x) kap) - 0 * 0)) with (mu * fsum (map (fun x => x * x * x * x) kap)) by ring. apply le_mul_nonneg; assumption.
  Qed.
End Order.

Section WaveEnergy.
  Variable F : FieldT.
  Add Field Ff3 : (fth F).
  (* one mode of the wave stepper in real form (C01_wave_exact): h' = C h + (S/cr) v, v' = -cr S h + C v with real C = cos, S = sin,
     cr = c*rho; h, v complex *)
  Theorem wave_energy_conserved (Cc Ss cr : F) (h v : cx F) : Cc * Cc + Ss * Ss = 1 -> cr <> 0 ->
    let h' := cadd (cscal Cc h) (cscal (Ss / cr) v) in
    let v' := cadd (cscal (- (cr * Ss)) h) (cscal Cc v) in
    cnorm2 v' + cr * cr * cnorm2 h' = cnorm2 v + cr * cr * cnorm2 h.
  Proof.
    intros H1 Hc. cbv zeta. unfold cnorm2, cadd, cscal. cbn [re im].
    transitivity ((Cc * Cc + Ss * Ss) * (im v * im v + re v * re v + cr * cr * (re h * re h + im h * im h))).
    - field. exact Hc.
    - rewrite H1. ring.
  Qed.
End WaveEnergy.
