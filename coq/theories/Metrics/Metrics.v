(* Error metrics: the p = 2 quantities of exponax/metrics and their aggregation structure.
   Hand-written from
     exponax/metrics/_spatial.py     spatial_aggregator, spatial_norm (MSE, nMSE, sMSE; RMSE, nRMSE, sRMSE through [root])
     exponax/metrics/_fourier.py     fourier_aggregator, fourier_norm (fourier_MSE, fourier_nMSE; fourier_RMSE, fourier_nRMSE through [root])
     exponax/metrics/_derivative.py  H1_MSE, H1_nMSE (H1_RMSE, H1_nRMSE through [root])
     exponax/metrics/_correlation.py _correlation, correlation
     exponax/metrics/_utils.py       mean_metric
   and, for the arrays the Fourier aggregator multiplies with, from exponax/_spectral.py (low_pass_filter_mask,
   build_scaling_array(mode="reconstruction"), build_derivative_operator); their integer layout is Layout/Freq.v (tied by C04).

   Scalars are an [Ops] record K (the reals of the implementation); complex coefficients are [cx K].
   [root] is the outer exponent `(...) ** outer_exponent`: the identity for q = 1 (MSE-type, what the exact correspondence runs)
   and a square root for q = 1/2 (RMSE-type; its laws are hypotheses of the theorems that use them).
   inner_exponent is fixed to 2: |x| ** 2 is x * x (reals) resp. re^2 + im^2 (complex).  The p = 1 (MAE) family is not modelled.

   A state without channel axis is the list of its N^D grid values (any order; the spatial sums do not depend on it);
   a spectrum without channel axis is the list of its N^(D-1) * (N/2+1) rfftn coefficients in C (row-major) order = the order of
   [half_indices D N]; a state with channels is the list of its channels.

   Contracts of JAX primitives assumed (exercised by the correspondence on every run):
     jnp.sum = finite sum;  jax.vmap over the channel axis followed by jnp.sum = sum over the list of channels;
     complex * bool mask = the coefficient where the mask is True and 0 elsewhere;  jnp.abs(z) ** 2.0 = re^2 + im^2;
     z ** m for a Python int m = m-fold product;  jnp.linalg.norm of an array without `ord` = sqrt of the sum of squares;
     jnp.mean = sum / count;  rfftn is linear (fft (u - r) = fft u - fft r), so the model takes the spectra of state and reference.
   [tau] stands for 2 pi (Ops has no pi): build_derivative_operator is i * (2 pi / L) * k; the correspondence passes float(2 pi).

   MODELLING GAP (stated in DESIGN.md and in harness/props/c16.py): fourier_aggregator replaces every coefficient with
   |u_hat| < 1e-5 (absolute, on the un-normalised rfftn output) by 0 before anything else.  The model has no such floor; it agrees with
   the code on spectra whose coefficients are exactly 0 or clearly above the floor (the correspondence generates inputs with
   coefficients that are 0 or >= 1e-3 in modulus, and the witness uses O(1) amplitudes).
   No proofs in this file. *)
From Coq Require Import ZArith List Bool Lia.
From EXV Require Import Base.Scalar Base.Cplx Layout.Freq Gen.Guards.
Import ListNotations.
Local Open Scope fld_scope.

Section MetricsModel.
  Variable K : Ops.
  Variable root : K -> K.

  Definition sqr (x : K) : K := x * x.
  Definition sumsq (u : list K) : K := fsum (map sqr u).
  Definition vsub (u r : list K) : list K := map (fun p => fst p - snd p) (combine u r).
  Definition ssub (U R : list (cx K)) : list (cx K) := map (fun p => csub (fst p) (snd p)) (combine U R).

  (* ---- index set of the stored half spectrum, C order ---- *)
  Definition zrange0 (n : Z) : list Z := map Z.of_nat (seq 0 (Z.to_nat n)).
  Fixpoint idx_grid (lens : list Z) : list (list Z) :=
    match lens with
    | [] => [[]]
    | n :: r => flat_map (fun j => map (cons j) (idx_grid r)) (zrange0 n)
    end.
  Definition half_indices (D : nat) (N : Z) : list (list Z) := idx_grid (wavenumber_shape D N).

  (* ---- _spatial.py: spatial_aggregator (inner_exponent 2): ((L/N)^D * sum |u|^2) ** q ---- *)
  Definition vol (D : nat) (N : Z) (L : K) : K := fpow (L / fz N) D.
  Definition spatial_agg (D : nat) (N : Z) (L : K) (u : list K) : K := root (vol D N L * sumsq u).

  (* ---- spatial_norm / fourier_norm: per-channel aggregation, combination by mode, sum over channels.
     mode: 0 absolute, 1 normalized, 2 symmetric (the encoding of Gen/Guards.v) ---- *)
  Definition combine_spatial (mode : Z) (d s r : K) : K :=
    if (mode =? 1)%Z then d / r else if (mode =? 2)%Z then (two * d) / (s + r) else d.
  (* fourier_norm only tests mode == "normalized"; everything else is the absolute branch *)
  Definition combine_fourier (mode : Z) (d s r : K) : K :=
    if (mode =? 1)%Z then d / r else d.

  Section Norm.
    Variable X : Type.
    Variable agg : X -> K.
    Variable sub : X -> X -> X.
    Variable comb : Z -> K -> K -> K -> K.
    (* None = the call raises ValueError *)
    Definition norm_gen (raises : bool) (mode : Z) (u : list X) (ref : option (list X)) : option K :=
      if raises then None else
      match ref with
      | None => Some (fsum (map agg u))                                   (* diff = state *)
      | Some r => Some (fsum (map (fun p => comb mode (agg (sub (fst p) (snd p))) (agg (fst p)) (agg (snd p))) (combine u r)))
      end.
  End Norm.
  Arguments norm_gen {X} agg sub comb raises mode u ref.

  Definition is_none {A} (o : option A) : bool := match o with None => true | Some _ => false end.

  Definition spatial_norm (D : nat) (N : Z) (L : K) (mode : Z) (u : list (list K)) (ref : option (list (list K))) : option K :=
    norm_gen (spatial_agg D N L) vsub combine_spatial (spatial_norm_raises (is_none ref) mode) mode u ref.

  (* ---- _fourier.py: fourier_aggregator ---- *)
  (* build_scaling_array(mode="reconstruction"): product over the axes of N (mean mode; Nyquist mode when N is even) or
     N / denominator with denominator 2 on the right-most (rfft) axis and 1 on the others *)
  Definition axis_scaling (N k : Z) (last : bool) (den : Z) : K :=
    if axis_plain N k last then fz N else fz N / fz den.
  Definition scaling_recon (D : nat) (N : Z) (idx : list Z) : K :=
    fprod (map (fun c => let last := (c =? D - 1)%nat in
                         axis_scaling N (wn D N c idx) last (if last then 2 else 1)%Z) (seq 0 D)).

  (* the band mask: ~ low_pass(cutoff = low - 1) & low_pass(cutoff = high), only built when low or high is given *)
  Definition band_mask (D : nat) (N : Z) (low high : option Z) (idx : list Z) : bool :=
    match low, high with
    | None, None => true
    | _, _ =>
        let lo := match low with Some l => l | None => 0%Z end in
        let hi := match high with Some h => h | None => (N / 2 + 1)%Z end in
        negb (low_pass_axis D N (lo - 1) idx) && low_pass_axis D N hi idx
    end.

  Definition cpow (z : cx K) (m : nat) : cx K := @fpow (COps K) z m.
  (* build_derivative_operator: 1j * (2 pi / L) * k_d *)
  Definition dop_axis (tau L : K) (D : nat) (N : Z) (d : nat) (idx : list Z) : cx K :=
    mkcx 0 ((tau / L) * fz (wn D N d idx)).

  Definition spectrum := list (list Z * cx K).          (* (stored index, coefficient) *)
  Definition with_idx (D : nat) (N : Z) (spec : list (cx K)) : spectrum := combine (half_indices D N) spec.
  Definition apply_mask (D : nat) (N : Z) (low high : option Z) (s : spectrum) : spectrum :=
    map (fun p => (fst p, if band_mask D N low high (fst p) then snd p else c0 K)) s.
  Definition apply_deriv (tau L : K) (D : nat) (N : Z) (d m : nat) (s : spectrum) : spectrum :=
    map (fun p => (fst p, cmul (snd p) (cpow (dop_axis tau L D N d (fst p)) m))) s.
  (* `aggregate`: (scale * sum |s|^2 / scaling_array_recon) ** q *)
  Definition agg_channel (D : nat) (N : Z) (L : K) (s : spectrum) : K :=
    root (vol D N L * fsum (map (fun p => cnorm2 (snd p) / scaling_recon D N (fst p)) s)).

  Definition fourier_agg (D : nat) (N : Z) (L tau : K) (low high : option Z) (dord : option nat) (spec : list (cx K)) : K :=
    let s := apply_mask D N low high (with_idx D N spec) in
    match dord with
    | None => agg_channel D N L s
    | Some m => fsum (map (fun d => agg_channel D N L (apply_deriv tau L D N d m s)) (seq 0 D))
    end.

  Definition fourier_norm (D : nat) (N : Z) (L tau : K) (low high : option Z) (dord : option nat) (mode : Z)
             (U : list (list (cx K))) (ref : option (list (list (cx K)))) : option K :=
    norm_gen (fourier_agg D N L tau low high dord) ssub combine_fourier (fourier_norm_raises (is_none ref) mode) mode U ref.

  (* ---- _derivative.py: H1_* = the plain Fourier metric + the one with derivative_order = 1 ---- *)
  Definition oadd2 (a b : option K) : option K :=
    match a, b with Some x, Some y => Some (x + y) | _, _ => None end.
  Definition H1_norm (D : nat) (N : Z) (L tau : K) (low high : option Z) (mode : Z)
             (U : list (list (cx K))) (ref : option (list (list (cx K)))) : option K :=
    oadd2 (fourier_norm D N L tau low high None mode U ref) (fourier_norm D N L tau low high (Some 1%nat) mode U ref).

  (* ---- _correlation.py ---- *)
  Definition dot (u v : list K) : K := fsum (map (fun p => fst p * snd p) (combine u v)).
  Definition corr_channel (u v : list K) : K :=
    let nu := root (sumsq u) in let nv := root (sumsq v) in
    dot (map (fun x => x / nu) u) (map (fun x => x / nv) v).
  Definition correlation (u v : list (list K)) : K :=
    fsum (map (fun p => corr_channel (fst p) (snd p)) (combine u v)) / fz (Z.of_nat (length u)).
  (* square of the per-channel correlation, root-free *)
  Definition corr2_channel (u v : list K) : K := sqr (dot u v) / (sumsq u * sumsq v).

  (* ---- _utils.py: mean_metric = mean over the batch of the per-sample metric ---- *)
  Definition mean_metric (vals : list K) : K := fsum vals / fz (Z.of_nat (length vals)).
End MetricsModel.
Arguments norm_gen K {X} agg sub comb raises mode u ref.

(* the named metrics *)
Definition idK (K : Ops) : K -> K := fun x => x.
Definition MSE (K : Ops) D N L u ref := spatial_norm K (idK K) D N L 0 u ref.
Definition nMSE (K : Ops) D N L u ref := spatial_norm K (idK K) D N L 1 u (Some ref).
Definition sMSE (K : Ops) D N L u ref := spatial_norm K (idK K) D N L 2 u (Some ref).
Definition fourier_MSE (K : Ops) D N L tau low high dord U ref := fourier_norm K (idK K) D N L tau low high dord 0 U ref.
Definition fourier_nMSE (K : Ops) D N L tau low high dord U ref := fourier_norm K (idK K) D N L tau low high dord 1 U (Some ref).
Definition H1_MSE (K : Ops) D N L tau low high U ref := H1_norm K (idK K) D N L tau low high 0 U ref.
Definition H1_nMSE (K : Ops) D N L tau low high U ref := H1_norm K (idK K) D N L tau low high 1 U (Some ref).
