(* Lemmas about the metrics model (Metrics/Metrics.v).  See Props/C16.v for the statements that are counted. *)
From Coq Require Import ZArith QArith Qcanon List Bool Field Ring Lia Arith.
From EXV Require Import Base.Scalar Base.FieldLemmas Base.Cplx Layout.Freq Layout.FreqProofs Gen.Guards DFT.DFT1 Metrics.Metrics.
Import ListNotations.
Local Open Scope fld_scope.

(* ================================================================================================ *)
(* 1. Integer facts: the band mask is the box  low <= max_i |k_i| <= high;  consecutive bands partition the modes *)
Section Bands.
  Local Open Scope Z_scope.

  Definition kinf (k : list Z) : Z := fold_right Z.max 0 (map Z.abs k).

  Lemma kinf_nonneg k : 0 <= kinf k.
  Proof. induction k as [|a k IH]; cbn; lia. Qed.

  Lemma forallb_kinf (ks : list Z) (c : Z) : ks <> [] ->
    (forallb (fun k => Z.abs k <=? c) ks = true <-> kinf ks <= c).
  Proof.
    induction ks as [|a ks IH]; intros Hne; [congruence|].
    cbn [forallb kinf map fold_right]. fold (kinf ks). rewrite andb_true_iff, Z.leb_le.
    destruct ks as [|b ks'].
    - cbn. split; [intros [H _]; lia | intros H; split; [lia | reflexivity]].
    - rewrite IH by congruence. pose proof (kinf_nonneg (b :: ks')). lia.
  Qed.

  Lemma wnvec_nonempty D N idx : (1 <= D)%nat -> wnvec D N idx <> [].
  Proof. intros HD. unfold wnvec. destruct D; [lia|]. cbn. congruence. Qed.

  Lemma low_pass_iff D N c idx : (1 <= D)%nat ->
    (low_pass_axis D N c idx = true <-> kinf (wnvec D N idx) <= c).
  Proof. intros HD. unfold low_pass_axis. apply forallb_kinf. apply wnvec_nonempty; exact HD. Qed.

  (* explicit bounds of the band selected by the options (None, None) -> no mask *)
  Definition band_lo (low : option Z) : Z := match low with Some l => l | None => 0 end.
  Definition band_hi (N : Z) (high : option Z) : Z := match high with Some h => h | None => N / 2 + 1 end.

  Lemma band_mask_box D N low high idx : (1 <= D)%nat -> (low <> None \/ high <> None) ->
    (band_mask D N low high idx = true <-> band_lo low <= kinf (wnvec D N idx) <= band_hi N high).
  Proof.
    intros HD Hopt.
    assert (E : band_mask D N low high idx
                = negb (low_pass_axis D N (band_lo low - 1) idx) && low_pass_axis D N (band_hi N high) idx).
    { destruct low, high; cbn; try reflexivity. destruct Hopt; congruence. }
    rewrite E, andb_true_iff, negb_true_iff. rewrite (low_pass_iff D N (band_hi N high) idx HD).
    destruct (low_pass_axis D N (band_lo low - 1) idx) eqn:El.
    - apply (low_pass_iff D N _ idx HD) in El. split; [intros [H _]; discriminate | lia].
    - assert (~ kinf (wnvec D N idx) <= band_lo low - 1).
      { intro H. apply (low_pass_iff D N _ idx HD) in H. congruence. }
      split; [intros [_ H2]; lia | intros; split; [reflexivity | lia]].
  Qed.

  Lemma band_mask_box_bool D N lo hi idx : (1 <= D)%nat ->
    band_mask D N (Some lo) (Some hi) idx = (lo <=? kinf (wnvec D N idx)) && (kinf (wnvec D N idx) <=? hi).
  Proof.
    intros HD. apply eq_true_iff_eq. rewrite band_mask_box by (auto; left; congruence).
    cbn [band_lo band_hi]. rewrite andb_true_iff, !Z.leb_le. reflexivity.
  Qed.

  (* two consecutive bands are disjoint and their union is the enclosing band *)
  Lemma band_split D N lo mid hi idx : (1 <= D)%nat -> lo <= mid + 1 -> mid <= hi ->
    let a := band_mask D N (Some lo) (Some mid) idx in
    let b := band_mask D N (Some (mid + 1)) (Some hi) idx in
    band_mask D N (Some lo) (Some hi) idx = a || b /\ a && b = false.
  Proof.
    intros HD H1 H2. cbn zeta. rewrite !band_mask_box_bool by exact HD.
    set (k := kinf (wnvec D N idx)).
    destruct (Z.leb_spec lo k), (Z.leb_spec k mid), (Z.leb_spec (mid + 1) k), (Z.leb_spec k hi); cbn; split; try reflexivity; lia.
  Qed.
End Bands.

(* every stored index has max-norm wavenumber at most N/2: a band [lo, hi] with lo <= 0 and N/2 <= hi selects everything *)
Section StoredIndices.
  Local Open Scope Z_scope.

  Lemma in_zrange0 j n : In j (zrange0 n) <-> 0 <= j < n.
  Proof.
    unfold zrange0. rewrite in_map_iff. split.
    - intros [i [<- Hi]]. apply in_seq in Hi. lia.
    - intros H. exists (Z.to_nat j). split; [lia | apply in_seq; lia].
  Qed.

  Lemma in_idx_grid lens idx : In idx (idx_grid lens) ->
    length idx = length lens /\ forall c, (c < length lens)%nat -> 0 <= nth c idx 0 < nth c lens 0.
  Proof.
    revert idx. induction lens as [|n r IH]; intros idx H; cbn [idx_grid] in H.
    - destruct H as [<-|[]]. split; [reflexivity | cbn; lia].
    - apply in_flat_map in H. destruct H as [j [Hj H]]. apply in_map_iff in H. destruct H as [t [<- Ht]].
      apply in_zrange0 in Hj. destruct (IH t Ht) as [Hl Hr]. split; [cbn; lia|].
      intros [|c] Hc; cbn [nth]; [lia | apply Hr; cbn in Hc; lia].
  Qed.

  Lemma kinf_le ks B : 0 <= B -> (forall k, In k ks -> Z.abs k <= B) -> kinf ks <= B.
  Proof.
    intros HB. induction ks as [|a ks IH]; intros H; cbn; [lia|]. fold (kinf ks).
    assert (Z.abs a <= B) by (apply H; left; reflexivity).
    assert (kinf ks <= B) by (apply IH; intros k Hk; apply H; right; exact Hk). lia.
  Qed.

  Lemma nth_repeat_lt (a d : Z) m c : (c < m)%nat -> nth c (repeat a m) d = a.
  Proof. revert c. induction m as [|m IH]; intros c Hc; [lia|]. destruct c; cbn; [reflexivity | apply IH; lia]. Qed.

  Lemma stored_kinf D N idx : (1 <= D)%nat -> 0 < N -> In idx (half_indices D N) -> kinf (wnvec D N idx) <= N / 2.
  Proof.
    intros HD HN Hin. apply in_idx_grid in Hin. destruct Hin as [_ Hr].
    assert (Hlen : length (wavenumber_shape D N) = D).
    { unfold wavenumber_shape. rewrite app_length, repeat_length. cbn. lia. }
    rewrite Hlen in Hr.
    assert (HN2 : 0 <= N / 2) by (apply Z.div_pos; lia).
    apply kinf_le; [exact HN2|]. intros k Hk. unfold wnvec in Hk. apply in_map_iff in Hk.
    destruct Hk as [c [<- Hc]]. apply in_seq in Hc. specialize (Hr c ltac:(lia)).
    unfold wn, wavenumber, mesh_axis, wn_1d, rfft_component. cbn [andb].
    unfold wavenumber_shape in Hr.
    destruct (Nat.eqb_spec c (D - 1)) as [E|E].
    - subst c. rewrite app_nth2 in Hr by (rewrite repeat_length; lia). rewrite repeat_length, Nat.sub_diag in Hr. cbn [nth] in Hr.
      unfold rfftfreq. lia.
    - rewrite app_nth1 in Hr by (rewrite repeat_length; lia).
      rewrite nth_repeat_lt in Hr by lia.
      pose proof (fftfreq_range N (nth c idx 0) HN Hr). pose proof (Z.div_le_mono (N - 1) N 2 ltac:(lia) ltac:(lia)). lia.
  Qed.

  Lemma full_band_all D N lo hi idx : (1 <= D)%nat -> 0 < N -> lo <= 0 -> N / 2 <= hi ->
    In idx (half_indices D N) -> band_mask D N (Some lo) (Some hi) idx = true.
  Proof.
    intros HD HN Hlo Hhi Hin. apply band_mask_box; [exact HD | left; congruence|].
    cbn [band_lo band_hi]. pose proof (stored_kinf D N idx HD HN Hin). pose proof (kinf_nonneg (wnvec D N idx)). lia.
  Qed.
End StoredIndices.

(* ================================================================================================ *)
(* 2. The Fourier aggregator as a masked weighted sum; band additivity *)
Section FourierSums.
  Variable F : FieldT.
  Add Field Ffm : (fth F).
  Variable root : F -> F.
  Implicit Types s : spectrum F.

  Lemma cnorm2_c0 : cnorm2 (c0 F) = 0.
  Proof. unfold cnorm2, c0. cbn. ring. Qed.
  Lemma cmul_c0_l (z : cx F) : cmul (c0 F) z = c0 F.
  Proof. apply cx_ext; cbn; ring. Qed.
  Lemma cnorm2_cmul (a b : cx F) : cnorm2 (cmul a b) = cnorm2 a * cnorm2 b.
  Proof. unfold cnorm2, cmul. cbn. ring. Qed.
  Lemma cnorm2_cpow (z : cx F) m : cnorm2 (cpow F z m) = fpow (cnorm2 z) m.
  Proof.
    unfold cpow. induction m as [|m IH]; cbn [fpow].
    - unfold cnorm2. cbn. ring.
    - change (@omul (COps F) z (@fpow (COps F) z m)) with (cmul z (@fpow (COps F) z m)).
      rewrite cnorm2_cmul, IH. reflexivity.
  Qed.
  Lemma fdiv0 (x : F) : 0 / x = 0.
  Proof. rewrite fdiv_def. ring. Qed.

  (* per-mode term of one (derivative) channel: |c * z(idx)|^2 / scaling(idx); z = 1 without derivative *)
  Definition mult_of (tau L : F) (D : nat) (N : Z) (dm : option (nat * nat)) (idx : list Z) : cx F :=
    match dm with None => c1 F | Some (d, m) => cpow F (dop_axis F tau L D N d idx) m end.
  Definition term (tau L : F) (D : nat) (N : Z) (dm : option (nat * nat)) (p : list Z * cx F) : F :=
    cnorm2 (cmul (snd p) (mult_of tau L D N dm (fst p))) / scaling_recon F D N (fst p).
  (* the masked weighted sum before the volume factor and the outer exponent *)
  Definition msum (tau L : F) (D : nat) (N : Z) (low high : option Z) (dm : option (nat * nat)) s : F :=
    fsum (map (fun p => if band_mask D N low high (fst p) then term tau L D N dm p else 0) s).

  Lemma cmul_c1_r (z : cx F) : cmul z (c1 F) = z.
  Proof. apply cx_ext; cbn; ring. Qed.

  Lemma agg_plain D N L tau low high s :
    agg_channel F root D N L (apply_mask F D N low high s) = root (vol F D N L * msum tau L D N low high None s).
  Proof.
    unfold agg_channel, apply_mask, msum. rewrite map_map. f_equal. f_equal. apply fsum_map_ext. intros p _. cbn [fst snd].
    unfold term, mult_of. rewrite cmul_c1_r. destruct (band_mask D N low high (fst p)); [reflexivity|].
    rewrite cnorm2_c0. apply fdiv0.
  Qed.

  Lemma agg_deriv D N L tau low high d m s :
    agg_channel F root D N L (apply_deriv F tau L D N d m (apply_mask F D N low high s))
    = root (vol F D N L * msum tau L D N low high (Some (d, m)) s).
  Proof.
    unfold agg_channel, apply_deriv, apply_mask, msum. rewrite !map_map. f_equal. f_equal. apply fsum_map_ext. intros p _. cbn [fst snd].
    unfold term, mult_of. destruct (band_mask D N low high (fst p)); [reflexivity|].
    rewrite cmul_c0_l, cnorm2_c0. apply fdiv0.
  Qed.

  Lemma fourier_agg_unfold D N L tau low high dord spec :
    fourier_agg F root D N L tau low high dord spec
    = match dord with
      | None => root (vol F D N L * msum tau L D N low high None (with_idx F D N spec))
      | Some m => fsum (map (fun d => root (vol F D N L * msum tau L D N low high (Some (d, m)) (with_idx F D N spec))) (seq 0 D))
      end.
  Proof.
    unfold fourier_agg. destruct dord as [m|]; [|apply agg_plain].
    apply fsum_map_ext. intros d _. apply agg_deriv.
  Qed.

  (* the weighted sum is additive over two consecutive bands ... *)
  Lemma msum_band_split tau L D N lo mid hi dm s : (1 <= D)%nat -> (lo <= mid + 1)%Z -> (mid <= hi)%Z ->
    msum tau L D N (Some lo) (Some hi) dm s
    = msum tau L D N (Some lo) (Some mid) dm s + msum tau L D N (Some (mid + 1)%Z) (Some hi) dm s.
  Proof.
    intros HD H1 H2. unfold msum. rewrite <- fsum_map_add. apply fsum_map_ext. intros p _.
    destruct (band_split D N lo mid hi (fst p) HD H1 H2) as [E1 E2]. rewrite E1.
    destruct (band_mask D N (Some lo) (Some mid) (fst p)), (band_mask D N (Some (mid + 1)%Z) (Some hi) (fst p));
      cbn in *; try discriminate; ring.
  Qed.

  (* ... and a band containing [0, N/2] selects every stored mode *)
  Lemma msum_full_band tau L D N lo hi dm spec : (1 <= D)%nat -> (0 < N)%Z -> (lo <= 0)%Z -> (N / 2 <= hi)%Z ->
    msum tau L D N (Some lo) (Some hi) dm (with_idx F D N spec) = msum tau L D N None None dm (with_idx F D N spec).
  Proof.
    intros HD HN Hlo Hhi. unfold msum. apply fsum_map_ext. intros p Hp.
    assert (Hin : In (fst p) (half_indices D N)).
    { destruct p as [i c]. unfold with_idx in Hp. apply in_combine_l in Hp. exact Hp. }
    rewrite (full_band_all D N lo hi (fst p) HD HN Hlo Hhi Hin). reflexivity.
  Qed.
End FourierSums.

Section BandAdditivity.
  Variable F : FieldT.
  Add Field Ffb : (fth F).
  Notation idF := (idK F).

  Lemma fourier_agg_band_split D N L tau lo mid hi dord spec : (1 <= D)%nat -> (lo <= mid + 1)%Z -> (mid <= hi)%Z ->
    fourier_agg F idF D N L tau (Some lo) (Some hi) dord spec
    = fourier_agg F idF D N L tau (Some lo) (Some mid) dord spec + fourier_agg F idF D N L tau (Some (mid + 1)%Z) (Some hi) dord spec.
  Proof.
    intros HD H1 H2. rewrite !fourier_agg_unfold. unfold idK. destruct dord as [m|].
    - rewrite <- fsum_map_add. apply fsum_map_ext. intros d _.
      rewrite (msum_band_split F tau L D N lo mid hi _ _ HD H1 H2). ring.
    - rewrite (msum_band_split F tau L D N lo mid hi _ _ HD H1 H2). ring.
  Qed.

  (* consecutive bands [lo, h1], [h1+1, h2], ... *)
  Fixpoint consecutive (lo : Z) (hs : list Z) : list (Z * Z) :=
    match hs with [] => [] | h :: r => (lo, h) :: consecutive (h + 1)%Z r end.
  Fixpoint chain (lo : Z) (hs : list Z) : Prop :=
    match hs with [] => True | h :: r => (lo <= h + 1)%Z /\ chain (h + 1)%Z r end.

  Lemma last_cons {A} (a d : A) l : last (a :: l) d = last l a.
  Proof.
    revert a d. induction l as [|b l IH]; intros a d; [reflexivity|].
    change (last (a :: b :: l) d) with (last (b :: l) d). rewrite (IH b d), (IH b a). reflexivity.
  Qed.
  Lemma chain_last hs : forall h, chain (h + 1)%Z hs -> (h <= last hs h)%Z.
  Proof.
    induction hs as [|a r IH]; intros h Hc; [cbn; lia|].
    cbn [chain] in Hc. destruct Hc as [Ha Hc]. rewrite last_cons. specialize (IH a Hc). lia.
  Qed.

  Lemma fourier_agg_band_partition D N L tau dord spec : (1 <= D)%nat ->
    forall hs lo h0, chain lo (h0 :: hs) ->
    fsum (map (fun b => fourier_agg F idF D N L tau (Some (fst b)) (Some (snd b)) dord spec) (consecutive lo (h0 :: hs)))
    = fourier_agg F idF D N L tau (Some lo) (Some (last hs h0)) dord spec.
  Proof.
    intros HD hs. induction hs as [|h1 hs IH]; intros lo h0 Hc.
    - cbn [consecutive map fsum last fst snd]. ring.
    - cbn [chain] in Hc. destruct Hc as [H0 [H1 Hc]].
      change (consecutive lo (h0 :: h1 :: hs)) with ((lo, h0) :: consecutive (h0 + 1)%Z (h1 :: hs)).
      cbn [map fsum fst snd]. rewrite (IH (h0 + 1)%Z h1) by (cbn [chain]; split; assumption).
      rewrite last_cons.
      assert (Hmono : (h0 <= last hs h1)%Z) by (pose proof (chain_last hs h1 Hc); lia).
      symmetry. apply fourier_agg_band_split; [exact HD | exact H0 | exact Hmono].
  Qed.

  Lemma fourier_agg_full_band D N L tau lo hi dord spec : (1 <= D)%nat -> (0 < N)%Z -> (lo <= 0)%Z -> (N / 2 <= hi)%Z ->
    fourier_agg F idF D N L tau (Some lo) (Some hi) dord spec = fourier_agg F idF D N L tau None None dord spec.
  Proof.
    intros HD HN Hlo Hhi. rewrite !fourier_agg_unfold. destruct dord as [m|].
    - apply fsum_map_ext. intros d _. rewrite (msum_full_band F tau L D N lo hi _ spec HD HN Hlo Hhi). reflexivity.
    - rewrite (msum_full_band F tau L D N lo hi _ spec HD HN Hlo Hhi). reflexivity.
  Qed.
End BandAdditivity.

(* ================================================================================================ *)
(* 3. The norm level: channel additivity, zero for identical inputs, symmetry, homogeneity (generic in the aggregator) *)
Section ListHelpers.
  Context {A B : Type}.
  Lemma combine_app_eq (l1 l2 : list A) (r1 r2 : list B) : length l1 = length r1 ->
    combine (l1 ++ l2) (r1 ++ r2) = combine l1 r1 ++ combine l2 r2.
  Proof.
    revert r1. induction l1 as [|a l1 IH]; intros [|b r1] H; cbn in *; try discriminate; [reflexivity|].
    f_equal. apply IH. lia.
  Qed.
  Lemma combine_swap (l : list A) (r : list B) : combine r l = map (fun p => (snd p, fst p)) (combine l r).
  Proof. revert r. induction l as [|a l IH]; intros [|b r]; cbn; try reflexivity. f_equal. apply IH. Qed.
  Lemma combine_map_both {A' B'} (f : A -> A') (g : B -> B') (l : list A) (r : list B) :
    combine (map f l) (map g r) = map (fun p => (f (fst p), g (snd p))) (combine l r).
  Proof. revert r. induction l as [|a l IH]; intros [|b r]; cbn; try reflexivity. f_equal. apply IH. Qed.
  Lemma combine_map_r {B'} (g : B -> B') (l : list A) (r : list B) :
    combine l (map g r) = map (fun p => (fst p, g (snd p))) (combine l r).
  Proof. revert r. induction l as [|a l IH]; intros [|b r]; cbn; try reflexivity. f_equal. apply IH. Qed.
  (* re-attaching the indices to a list computed from the indexed list *)
  Lemma combine_recombine {C} (f : A * B -> C) (l : list A) (r : list B) :
    combine l (map f (combine l r)) = map (fun p => (fst p, f p)) (combine l r).
  Proof. revert r. induction l as [|a l IH]; intros [|b r]; cbn; try reflexivity. f_equal. apply IH. Qed.
End ListHelpers.

Section NormGeneric.
  Variable F : FieldT.
  Add Field Ffn : (fth F).
  Variable X : Type.
  Variable agg : X -> F.
  Variable sub : X -> X -> X.

  Definition oplus (a b : option F) : option F := oadd2 F a b.

  (* channel additivity: the metric of concatenated channel lists is the sum of the metrics of the parts *)
  Lemma norm_gen_app comb raises mode (u1 u2 r1 r2 : list X) : length u1 = length r1 ->
    norm_gen F agg sub comb raises mode (u1 ++ u2) (Some (r1 ++ r2))
    = oplus (norm_gen F agg sub comb raises mode u1 (Some r1)) (norm_gen F agg sub comb raises mode u2 (Some r2)).
  Proof.
    intros Hl. unfold norm_gen, oplus, oadd2. destruct raises; [reflexivity|].
    rewrite (combine_app_eq _ _ _ _ Hl), map_app, fsum_app. reflexivity.
  Qed.
  Lemma norm_gen_app_noref comb raises mode (u1 u2 : list X) :
    norm_gen F agg sub comb raises mode (u1 ++ u2) None
    = oplus (norm_gen F agg sub comb raises mode u1 None) (norm_gen F agg sub comb raises mode u2 None).
  Proof. unfold norm_gen, oplus, oadd2. destruct raises; [reflexivity|]. rewrite map_app, fsum_app. reflexivity. Qed.

  (* zero for identical inputs, in every mode *)
  Lemma comb_spatial_zero mode s r : combine_spatial F mode 0 s r = 0.
  Proof. unfold combine_spatial. destruct (mode =? 1)%Z; [apply fdiv0|]. destruct (mode =? 2)%Z; [|reflexivity].
    replace (two * 0) with (0 : F) by (unfold two; ring). apply fdiv0. Qed.
  Lemma comb_fourier_zero mode s r : combine_fourier F mode 0 s r = 0.
  Proof. unfold combine_fourier. destruct (mode =? 1)%Z; [apply fdiv0 | reflexivity]. Qed.

  Lemma norm_gen_identical comb mode (u : list X) :
    (forall x, agg (sub x x) = 0) -> (forall s r, comb mode 0 s r = 0) ->
    norm_gen F agg sub comb false mode u (Some u) = Some 0.
  Proof.
    intros Hz Hc. unfold norm_gen. f_equal.
    rewrite (fsum_map_ext F _ _ (fun _ => 0)); [apply fsum_map_zero|].
    intros p Hp. assert (fst p = snd p) as ->.
    { clear - Hp. revert Hp. induction u as [|a l IH]; cbn; [tauto|]. intros [<-|H]; [reflexivity | apply IH; exact H]. }
    rewrite Hz. apply Hc.
  Qed.

  (* symmetry under exchanging state and reference: absolute and symmetric modes *)
  Lemma norm_gen_symmetric comb mode (u r : list X) :
    (forall x y, agg (sub x y) = agg (sub y x)) -> (forall d s t, comb mode d s t = comb mode d t s) ->
    norm_gen F agg sub comb false mode u (Some r) = norm_gen F agg sub comb false mode r (Some u).
  Proof.
    intros Hs Hc. unfold norm_gen. f_equal. rewrite (combine_swap u r), map_map. apply fsum_map_ext. intros p _. cbn [fst snd].
    rewrite Hs, Hc. reflexivity.
  Qed.
  Lemma comb_spatial_swap mode d s t : (mode =? 1)%Z = false -> combine_spatial F mode d s t = combine_spatial F mode d t s.
  Proof. intros H. unfold combine_spatial. rewrite H. destruct (mode =? 2)%Z; [|reflexivity]. f_equal. ring. Qed.

  (* homogeneity: if scaling a state multiplies its aggregate by k (k = c^2 for the un-rooted p = 2 quantities, |c| for the rooted ones) *)
  Variable scal : X -> X.
  Variable k : F.
  Hypothesis agg_scal : forall x, agg (scal x) = k * agg x.
  Hypothesis sub_scal : forall x y, sub (scal x) (scal y) = scal (sub x y).

  Lemma norm_gen_scal_absolute comb mode (u r : list X) :
    (forall d s t, comb mode (k * d) (k * s) (k * t) = k * comb mode d s t) ->
    norm_gen F agg sub comb false mode (map scal u) (Some (map scal r))
    = option_map (omul k) (norm_gen F agg sub comb false mode u (Some r)).
  Proof.
    intros Hc. unfold norm_gen. cbn [option_map]. f_equal.
    rewrite combine_map_both, map_map, <- fsum_map_scal. apply fsum_map_ext. intros p _. cbn [fst snd].
    rewrite sub_scal, !agg_scal. apply Hc.
  Qed.
  Lemma norm_gen_scal_noref comb mode (u : list X) :
    norm_gen F agg sub comb false mode (map scal u) None = option_map (omul k) (norm_gen F agg sub comb false mode u None).
  Proof.
    unfold norm_gen. cbn [option_map]. f_equal. rewrite map_map, <- fsum_map_scal. apply fsum_map_ext. intros x _. apply agg_scal.
  Qed.
  (* scale-free modes: every term is unchanged provided the denominators do not vanish *)
  Lemma norm_gen_scal_invariant comb mode (u r : list X) :
    (forall p, In p (combine u r) ->
       comb mode (k * agg (sub (fst p) (snd p))) (k * agg (fst p)) (k * agg (snd p)) = comb mode (agg (sub (fst p) (snd p))) (agg (fst p)) (agg (snd p))) ->
    norm_gen F agg sub comb false mode (map scal u) (Some (map scal r)) = norm_gen F agg sub comb false mode u (Some r).
  Proof.
    intros Hc. unfold norm_gen. f_equal. rewrite combine_map_both, map_map. apply fsum_map_ext. intros p Hp. cbn [fst snd].
    rewrite sub_scal, !agg_scal. apply Hc. exact Hp.
  Qed.
End NormGeneric.

Section CombLaws.
  Variable F : FieldT.
  Add Field Ffc : (fth F).
  Lemma comb_spatial_abs (k d s t : F) : combine_spatial F 0 (k * d) (k * s) (k * t) = k * combine_spatial F 0 d s t.
  Proof. reflexivity. Qed.
  Lemma comb_fourier_abs mode (k d s t : F) : (mode =? 1)%Z = false -> combine_fourier F mode (k * d) (k * s) (k * t) = k * combine_fourier F mode d s t.
  Proof. intros H. unfold combine_fourier. rewrite H. reflexivity. Qed.
  Lemma comb_normalized (k d s t : F) : k <> 0 -> t <> 0 -> combine_spatial F 1 (k * d) (k * s) (k * t) = combine_spatial F 1 d s t.
  Proof. intros Hk Ht. unfold combine_spatial. cbn. field. split; assumption. Qed.
  Lemma comb_symmetric (k d s t : F) : k <> 0 -> s + t <> 0 -> combine_spatial F 2 (k * d) (k * s) (k * t) = combine_spatial F 2 d s t.
  Proof.
    intros Hk Ht. unfold combine_spatial. cbn. field. split; [exact Ht|].
    replace (k * s + k * t) with (k * (s + t)) by ring. apply (fmul_neq0 F); assumption.
  Qed.
  Lemma comb_fourier_normalized (k d s t : F) : k <> 0 -> t <> 0 -> combine_fourier F 1 (k * d) (k * s) (k * t) = combine_fourier F 1 d s t.
  Proof. intros Hk Ht. unfold combine_fourier. cbn. field. split; assumption. Qed.
End CombLaws.

(* ================================================================================================ *)
(* 4. The two aggregators: scaling of the states, exchange, identical inputs, scaling of L, spectral derivative *)
Section Aggregators.
  Variable F : FieldT.
  Add Field Ffa : (fth F).
  Variable root : F -> F.
  Notation scalv c := (map (omul c)).
  Notation scals c := (map (cscal c)).

  (* ---- spatial ---- *)
  Lemma sumsq_scal (c : F) u : sumsq F (scalv c u) = c * c * sumsq F u.
  Proof. unfold sumsq. rewrite map_map, <- fsum_map_scal. apply fsum_map_ext. intros x _. unfold sqr. ring. Qed.
  Lemma vsub_scal (c : F) u r : vsub F (scalv c u) (scalv c r) = scalv c (vsub F u r).
  Proof. unfold vsub. rewrite combine_map_both, !map_map. apply map_ext. intros p. cbn. ring. Qed.
  Lemma sumsq_vsub_sym u r : sumsq F (vsub F u r) = sumsq F (vsub F r u).
  Proof.
    unfold sumsq, vsub. rewrite (combine_swap u r), !map_map. apply fsum_map_ext. intros p _. cbn. unfold sqr. ring.
  Qed.
  Lemma sumsq_vsub_self u : sumsq F (vsub F u u) = 0.
  Proof.
    unfold sumsq, vsub. rewrite map_map. rewrite (fsum_map_ext F _ _ (fun _ => 0)); [apply fsum_map_zero|].
    intros p Hp. assert (fst p = snd p) as ->.
    { clear - Hp. revert Hp. induction u as [|a l IH]; cbn; [tauto|]. intros [<-|H]; [reflexivity | apply IH; exact H]. }
    unfold sqr. ring.
  Qed.

  Lemma spatial_agg_scal D N L (c a : F) u : (forall x, root (c * c * x) = a * root x) ->
    spatial_agg F root D N L (scalv c u) = a * spatial_agg F root D N L u.
  Proof.
    intros Hr. unfold spatial_agg. rewrite sumsq_scal, <- Hr. f_equal. ring.
  Qed.
  Lemma spatial_agg_sym D N L u r : spatial_agg F root D N L (vsub F u r) = spatial_agg F root D N L (vsub F r u).
  Proof. unfold spatial_agg. rewrite sumsq_vsub_sym. reflexivity. Qed.
  Lemma spatial_agg_self D N L u : root 0 = 0 -> spatial_agg F root D N L (vsub F u u) = 0.
  Proof. intros H0. unfold spatial_agg. rewrite sumsq_vsub_self. replace (vol F D N L * 0) with (0 : F) by ring. exact H0. Qed.

  Lemma vol_scaling D N (L L' : F) : L' <> 0 -> @fz F N <> 0 -> vol F D N L = fpow (L / L') D * vol F D N L'.
  Proof.
    intros HL HN. unfold vol. rewrite <- fpow_mul_base. f_equal. field. split; assumption.
  Qed.
  Lemma spatial_agg_L_scaling D N (L L' : F) u : L' <> 0 -> @fz F N <> 0 ->
    spatial_agg F (idK F) D N L u = fpow (L / L') D * spatial_agg F (idK F) D N L' u.
  Proof. intros HL HN. unfold spatial_agg, idK. rewrite (vol_scaling D N L L' HL HN). ring. Qed.

  (* ---- Fourier ---- *)
  Lemma with_idx_map (g : cx F -> cx F) D N spec :
    with_idx F D N (map g spec) = map (fun p => (fst p, g (snd p))) (with_idx F D N spec).
  Proof. unfold with_idx. apply combine_map_r. Qed.

  Lemma term_scal tau L D N dm (c : F) idx z :
    term F tau L D N dm (idx, cscal c z) = c * c * term F tau L D N dm (idx, z).
  Proof.
    unfold term. cbn [fst snd]. rewrite !cnorm2_cmul. rewrite fdiv_def, (fdiv_def F (cnorm2 z * _)).
    unfold cnorm2 at 1, cscal. cbn [re im]. unfold cnorm2 at 2. ring.
  Qed.
  Lemma msum_scal tau L D N low high dm (c : F) spec :
    msum F tau L D N low high dm (with_idx F D N (scals c spec)) = c * c * msum F tau L D N low high dm (with_idx F D N spec).
  Proof.
    unfold msum. rewrite with_idx_map, map_map, <- fsum_map_scal. apply fsum_map_ext. intros [idx z] _. cbn [fst snd].
    destruct (band_mask D N low high idx); [apply term_scal | ring].
  Qed.
  Lemma fourier_agg_scal D N L tau low high dord (c a : F) spec : (forall x, root (c * c * x) = a * root x) ->
    fourier_agg F root D N L tau low high dord (scals c spec) = a * fourier_agg F root D N L tau low high dord spec.
  Proof.
    intros Hr. rewrite !fourier_agg_unfold. destruct dord as [m|].
    - rewrite <- fsum_map_scal. apply fsum_map_ext. intros d _. rewrite msum_scal, <- Hr. f_equal. ring.
    - rewrite msum_scal, <- Hr. f_equal. ring.
  Qed.
  Lemma ssub_scal (c : F) U R : ssub F (scals c U) (scals c R) = scals c (ssub F U R).
  Proof. unfold ssub. rewrite combine_map_both, !map_map. apply map_ext. intros p. apply cx_ext; cbn; ring. Qed.

  Lemma term_neg tau L D N dm idx (a b : cx F) :
    term F tau L D N dm (idx, csub a b) = term F tau L D N dm (idx, csub b a).
  Proof. unfold term. cbn [fst snd]. rewrite !cnorm2_cmul. f_equal. f_equal. unfold cnorm2, csub. cbn. ring. Qed.
  Lemma msum_sym tau L D N low high dm U R :
    msum F tau L D N low high dm (with_idx F D N (ssub F U R)) = msum F tau L D N low high dm (with_idx F D N (ssub F R U)).
  Proof.
    unfold msum, ssub, with_idx. rewrite (combine_swap U R), map_map.
    assert (E : forall (f g : cx F * cx F -> cx F) l,
              (forall p idx, term F tau L D N dm (idx, f p) = term F tau L D N dm (idx, g p)) ->
              fsum (map (fun p => if band_mask D N low high (fst p) then term F tau L D N dm p else 0) (combine (half_indices D N) (map f l)))
              = fsum (map (fun p => if band_mask D N low high (fst p) then term F tau L D N dm p else 0) (combine (half_indices D N) (map g l)))).
    { intros f g l H. generalize (half_indices D N) as I. induction l as [|x l IH]; intros [|i I]; cbn [map combine fsum]; try reflexivity.
      cbn [fst]. rewrite (IH I). destruct (band_mask D N low high i); [rewrite H|]; reflexivity. }
    apply E. intros p idx. cbn [fst snd]. apply term_neg.
  Qed.
  Lemma fourier_agg_sym D N L tau low high dord U R :
    fourier_agg F root D N L tau low high dord (ssub F U R) = fourier_agg F root D N L tau low high dord (ssub F R U).
  Proof.
    rewrite !fourier_agg_unfold. destruct dord as [m|].
    - apply fsum_map_ext. intros d _. rewrite msum_sym. reflexivity.
    - rewrite msum_sym. reflexivity.
  Qed.

  Lemma msum_self tau L D N low high dm U : msum F tau L D N low high dm (with_idx F D N (ssub F U U)) = 0.
  Proof.
    unfold msum, with_idx, ssub. generalize (half_indices D N) as I.
    induction U as [|z U IH]; intros [|i I]; cbn [map combine fsum]; try reflexivity. cbn [fst snd]. rewrite IH.
    destruct (band_mask D N low high i); [|ring].
    unfold term. cbn [fst snd]. rewrite cnorm2_cmul. replace (cnorm2 (csub z z)) with (0 : F) by (unfold cnorm2, csub; cbn; ring).
    rewrite fdiv_def. ring.
  Qed.
  Lemma fourier_agg_self D N L tau low high dord U : root 0 = 0 -> fourier_agg F root D N L tau low high dord (ssub F U U) = 0.
  Proof.
    intros H0. rewrite fourier_agg_unfold. destruct dord as [m|].
    - rewrite (fsum_map_ext F _ _ (fun _ => 0)); [apply fsum_map_zero|]. intros d _. rewrite msum_self.
      replace (vol F D N L * 0) with (0 : F) by ring. exact H0.
    - rewrite msum_self. replace (vol F D N L * 0) with (0 : F) by ring. exact H0.
  Qed.

  (* ---- dependence on L ---- *)
  Lemma cnorm2_dop tau L D N d idx : cnorm2 (dop_axis F tau L D N d idx) = sqr F ((tau / L) * fz (wn D N d idx)).
  Proof. unfold dop_axis, cnorm2, sqr. cbn. ring. Qed.

  Lemma term_L_scaling tau (L L' : F) D N d m p : L <> 0 -> L' <> 0 ->
    term F tau L D N (Some (d, m)) p = fpow (L' / L) (2 * m) * term F tau L' D N (Some (d, m)) p.
  Proof.
    intros HL HL'. unfold term, mult_of. rewrite !cnorm2_cmul, !cnorm2_cpow, !cnorm2_dop.
    assert (E : sqr F (tau / L * fz (wn D N d (fst p))) = sqr F (L' / L) * sqr F (tau / L' * fz (wn D N d (fst p)))).
    { unfold sqr. field. split; assumption. }
    rewrite E, fpow_mul_base. rewrite (fpow_mul F (L' / L) 2 m). cbn [fpow]. unfold sqr.
    replace (L' / L * (L' / L * 1)) with (L' / L * (L' / L)) by ring. rewrite !fdiv_def. ring.
  Qed.
  Lemma msum_L_scaling tau (L L' : F) D N low high d m s : L <> 0 -> L' <> 0 ->
    msum F tau L D N low high (Some (d, m)) s = fpow (L' / L) (2 * m) * msum F tau L' D N low high (Some (d, m)) s.
  Proof.
    intros HL HL'. unfold msum. rewrite <- fsum_map_scal. apply fsum_map_ext. intros p _.
    destruct (band_mask D N low high (fst p)); [apply term_L_scaling; assumption | ring].
  Qed.
  Lemma msum_L_indep tau (L L' : F) D N low high s : msum F tau L D N low high None s = msum F tau L' D N low high None s.
  Proof. reflexivity. Qed.

  Lemma fourier_agg_L_scaling D N (L L' : F) tau low high dord spec : L <> 0 -> L' <> 0 -> @fz F N <> 0 ->
    fourier_agg F (idK F) D N L tau low high dord spec
    = fpow (L / L') D * fpow (L' / L) (2 * match dord with None => 0 | Some m => m end) * fourier_agg F (idK F) D N L' tau low high dord spec.
  Proof.
    intros HL HL' HN. rewrite !fourier_agg_unfold. unfold idK. destruct dord as [m|].
    - rewrite <- fsum_map_scal. apply fsum_map_ext. intros d _.
      rewrite (msum_L_scaling tau L L' D N low high d m _ HL HL'), (vol_scaling D N L L' HL' HN). ring.
    - rewrite Nat.mul_0_r. cbn [fpow]. rewrite (vol_scaling D N L L' HL' HN), (msum_L_indep tau L L'). ring.
  Qed.

  (* ---- Sobolev: the derivative_order = 1 aggregate is the sum over the axes of the plain aggregates of the spectral derivative ---- *)
  Definition deriv_spec (tau L : F) (D : nat) (N : Z) (d : nat) (spec : list (cx F)) : list (cx F) :=
    map (fun p => cmul (snd p) (dop_axis F tau L D N d (fst p))) (with_idx F D N spec).

  Lemma msum_deriv_spec tau L D N low high d spec :
    msum F tau L D N low high None (with_idx F D N (deriv_spec tau L D N d spec))
    = msum F tau L D N low high (Some (d, 1%nat)) (with_idx F D N spec).
  Proof.
    unfold msum, deriv_spec, with_idx. rewrite combine_recombine, map_map.
    apply fsum_map_ext. intros p _. cbn [fst snd].
    destruct (band_mask D N low high (fst p)); [|reflexivity].
    unfold term, mult_of. cbn [fst snd]. f_equal. f_equal. unfold cpow. cbn [fpow].
    change (@omul (COps F) ?a ?b) with (cmul a b). change (@o1 (COps F)) with (c1 F). apply cx_ext; cbn; ring.
  Qed.

  Lemma fourier_agg_sobolev D N L tau low high spec :
    fourier_agg F root D N L tau low high (Some 1%nat) spec
    = fsum (map (fun d => fourier_agg F root D N L tau low high None (deriv_spec tau L D N d spec)) (seq 0 D)).
  Proof.
    rewrite fourier_agg_unfold. apply fsum_map_ext. intros d _. rewrite fourier_agg_unfold, msum_deriv_spec. reflexivity.
  Qed.

  (* closed form of the un-rooted H1 aggregate: weights (1 + sum_d (2 pi k_d / L)^2) *)
  Definition kappa2 (tau L : F) (D : nat) (N : Z) (idx : list Z) : F :=
    fsum (map (fun d => sqr F ((tau / L) * fz (wn D N d idx))) (seq 0 D)).

  Lemma term_deriv1 tau L D N d p :
    term F tau L D N (Some (d, 1%nat)) p = sqr F ((tau / L) * fz (wn D N d (fst p))) * term F tau L D N None p.
  Proof.
    unfold term, mult_of. rewrite !cnorm2_cmul, cnorm2_cpow, cnorm2_dop. cbn [fpow].
    replace (cnorm2 (c1 F)) with (1 : F) by (unfold cnorm2, c1; cbn; ring). rewrite !fdiv_def. ring.
  Qed.

  Lemma H1_closed_form D N L tau low high spec :
    fourier_agg F (idK F) D N L tau low high None spec + fourier_agg F (idK F) D N L tau low high (Some 1%nat) spec
    = vol F D N L * fsum (map (fun p => if band_mask D N low high (fst p)
                                        then (1 + kappa2 tau L D N (fst p)) * term F tau L D N None p else 0) (with_idx F D N spec)).
  Proof.
    rewrite !fourier_agg_unfold. unfold idK, msum.
    rewrite (fsum_map_ext F (seq 0 D) _ (fun d => vol F D N L * fsum (map (fun p => if band_mask D N low high (fst p)
                 then sqr F ((tau / L) * fz (wn D N d (fst p))) * term F tau L D N None p else 0) (with_idx F D N spec)))).
    2:{ intros d _. f_equal. apply fsum_map_ext. intros p _. destruct (band_mask D N low high (fst p)); [apply term_deriv1 | reflexivity]. }
    rewrite fsum_map_scal, fsum_map_swap.
    transitivity (vol F D N L * (fsum (map (fun p => if band_mask D N low high (fst p) then term F tau L D N None p else 0) (with_idx F D N spec))
                                 + fsum (map (fun p => fsum (map (fun d => if band_mask D N low high (fst p)
                                       then sqr F ((tau / L) * fz (wn D N d (fst p))) * term F tau L D N None p else 0) (seq 0 D))) (with_idx F D N spec)))); [ring|].
    f_equal. rewrite <- fsum_map_add. apply fsum_map_ext. intros p _.
    destruct (band_mask D N low high (fst p)).
    - unfold kappa2. rewrite (fsum_map_ext F (seq 0 D) _ (fun d => term F tau L D N None p * sqr F (tau / L * fz (wn D N d (fst p))))) by (intros; ring).
      rewrite fsum_map_scal. ring.
    - rewrite fsum_map_zero. ring.
  Qed.
End Aggregators.

(* ================================================================================================ *)
(* 5. Parseval.  (a) conjugation-free form in any field with a primitive n-th root of unity;
      (b) for real sequences in the complexification: sum_k |U_k|^2 = n sum_j u_j^2;
      (c) the half-spectrum sum with the reconstruction weights equals the full sum (Hermitian symmetry);
      (d) the 1-D Fourier aggregator of the model equals the spatial aggregator. *)
Section ParsevalBilinear.
  Variable F : FieldT.
  Add Field Ffp : (fth F).
  Variable n : nat.
  Variables w w' : F.
  Hypothesis n_pos : (0 < n)%nat.
  Hypothesis w_n : fpow w n = 1.
  Hypothesis w_prim : forall m, (0 < m < n)%nat -> fpow w m <> 1.
  Hypothesis w_inv : w * w' = 1.

  Lemma char_orth j l : (j < n)%nat -> (l < n)%nat ->
    bsum n (fun k => fpow w (j * k) * fpow w' (l * k)) = if (j =? l)%nat then fz (Z.of_nat n) else 0.
  Proof.
    intros Hj Hl. pose proof (dft_single_mode F n w w' n_pos w_n w_prim w_inv 1 l j Hl Hj) as H.
    unfold dft in H. rewrite <- (bsum_ext F n (fun k => 1 * fpow w' (k * l) * fpow w (k * j))).
    - rewrite H. destruct (j =? l)%nat; ring.
    - intros k _. rewrite (Nat.mul_comm k l), (Nat.mul_comm k j). ring.
  Qed.

  (* Parseval without conjugation: the second transform uses the inverse root *)
  Theorem parseval_bilinear (u v : nat -> F) :
    bsum n (fun k => dft n w u k * dft n w' v k) = fz (Z.of_nat n) * bsum n (fun j => u j * v j).
  Proof.
    rewrite (bsum_ext F n _ (fun k => bsum n (fun j => bsum n (fun l => u j * v l * (fpow w (j * k) * fpow w' (l * k)))))).
    2:{ intros k _. unfold dft. rewrite <- bsum_scal_r. apply bsum_ext. intros j _. rewrite <- bsum_scal. apply bsum_ext. intros l _. ring. }
    rewrite bsum_swap.
    rewrite (bsum_ext F n _ (fun j => fz (Z.of_nat n) * (u j * v j))); [apply bsum_scal|].
    intros j Hj. rewrite bsum_swap.
    rewrite (bsum_ext F n _ (fun l => u j * v l * (if (j =? l)%nat then fz (Z.of_nat n) else 0))).
    2:{ intros l Hl. rewrite bsum_scal, (char_orth j l Hj Hl). reflexivity. }
    rewrite (bsum_single F n j _ Hj).
    - rewrite Nat.eqb_refl. ring.
    - intros l _ Hne. destruct (Nat.eqb_spec j l); [congruence | ring].
  Qed.

  (* mode n - k is mode k of the transform with the inverse root *)
  Lemma dft_reflect (u : nat -> F) k : (k <= n)%nat -> dft n w u (n - k) = dft n w' u k.
  Proof.
    intros Hk. unfold dft. apply bsum_ext. intros j _. f_equal.
    apply (fmul_cancel_l F (fpow w (j * k))).
    - apply fpow_neq0. intro H. apply (f_1_neq_0 F). rewrite <- w_inv, H. ring.
    - rewrite (w_w' F w w' w_inv). rewrite <- fpow_add. replace (j * k + j * (n - k))%nat with (n * j)%nat by nia.
      rewrite (fpow_mul F w n j), w_n. apply fpow_1.
  Qed.
End ParsevalBilinear.

(* sums that are symmetric under k -> n - k fold onto the half range with the multiplicities 1 (k = 0, and k = n/2 when n is even) and 2 *)
Section Folding.
  Variable F : FieldT.
  Add Field Fff : (fth F).

  Definition half_mult (n k : nat) : F := if (k =? 0)%nat || (Nat.even n && (k =? n / 2)%nat) then 1 else two.

  Lemma bsum_split n a (g : nat -> F) : (a <= n)%nat -> bsum n g = bsum a g + bsum (n - a) (fun i => g (a + i)%nat).
  Proof.
    intros Ha. unfold bsum. replace n with (a + (n - a))%nat at 1 by lia. rewrite seq_app, map_app, fsum_app. f_equal.
    cbn [Nat.add]. rewrite <- (seq_shift_add (n - a) a), map_map. apply fsum_map_ext. intros i _. f_equal. lia.
  Qed.
  Lemma bsum_S_first n (g : nat -> F) : bsum (S n) g = g 0%nat + bsum n (fun i => g (S i)).
  Proof. rewrite (bsum_split (S n) 1 g) by lia. unfold bsum at 1. cbn [seq map fsum]. replace (S n - 1)%nat with n by lia. cbn [Nat.add]. ring. Qed.
  Lemma bsum_rev n (g : nat -> F) : bsum n g = bsum n (fun i => g (n - 1 - i)%nat).
  Proof.
    induction n as [|n IH]; [reflexivity|].
    rewrite bsum_S, bsum_S_first, IH. replace (S n - 1 - 0)%nat with n by lia.
    rewrite (bsum_ext F n (fun i => g (S n - 1 - S i)%nat) (fun i => g (n - 1 - i)%nat)) by (intros; f_equal; lia). ring.
  Qed.

  Lemma bsum_fold n (g : nat -> F) : (0 < n)%nat -> (forall k, (0 < k < n)%nat -> g (n - k)%nat = g k) ->
    bsum n g = bsum (n / 2 + 1) (fun k => half_mult n k * g k).
  Proof.
    intros Hn Hsym. set (h := (n / 2)%nat).
    assert (Hh : ((n = 2 * h /\ Nat.even n = true /\ 0 < h) \/ (n = 2 * h + 1 /\ Nat.even n = false))%nat).
    { destruct (Nat.Even_or_Odd n) as [[q Hq]|[q Hq]].
      - left. assert (h = q) by (unfold h; subst n; rewrite Nat.mul_comm, Nat.div_mul; lia). subst q.
        repeat split; [lia | apply Nat.even_spec; exists h; lia | lia].
      - right. assert (h = q) by (unfold h; subst n; symmetry; apply (Nat.div_unique _ 2 q 1); lia). subst q.
        split; [lia|]. destruct (Nat.even n) eqn:E; [|reflexivity]. apply Nat.even_spec in E. destruct E as [p Hp]. lia. }
    (* the upper part, reflected *)
    rewrite (bsum_split n (h + 1) g) by (destruct Hh as [[? [? ?]]|[? ?]]; lia).
    rewrite (bsum_rev (n - (h + 1))).
    rewrite (bsum_ext F (n - (h + 1)) _ (fun i => g (S i))).
    2:{ intros i Hi. replace (h + 1 + (n - (h + 1) - 1 - i))%nat with (n - S i)%nat by lia. apply Hsym. lia. }
    replace (h + 1)%nat with (S h) by lia. rewrite !bsum_S_first.
    assert (E0 : half_mult n 0 = 1) by reflexivity. rewrite E0.
    destruct Hh as [[Hn2 [Hev Hpos]]|[Hn2 Hev]].
    - (* n = 2h *)
      replace (n - S h)%nat with (h - 1)%nat by lia.
      replace h with (S (h - 1)) at 1 3 by lia. rewrite !bsum_S.
      replace (S (h - 1)) with h by lia.
      rewrite (bsum_ext F (h - 1) (fun i => half_mult n (S i) * g (S i)) (fun i => two * g (S i))).
      2:{ intros i Hi. unfold half_mult. rewrite Hev. fold h. cbn [orb andb]. destruct (Nat.eqb_spec (S i) h); [lia | reflexivity]. }
      rewrite bsum_scal. unfold half_mult. rewrite Hev. fold h. cbn [orb andb]. rewrite Nat.eqb_refl, orb_true_r. unfold two. ring.
    - (* n = 2h + 1 *)
      replace (n - S h)%nat with h by lia.
      rewrite (bsum_ext F h (fun i => half_mult n (S i) * g (S i)) (fun i => two * g (S i))).
      2:{ intros i Hi. unfold half_mult. rewrite Hev. reflexivity. }
      rewrite bsum_scal. unfold two. ring.
  Qed.
End Folding.

Section ParsevalReal.
  Variable F : FieldT.
  Hypothesis FR : FormallyReal F.
  Add Field Ffr : (fth F).
  Let CF : FieldT := CField FR.
  Variable n : nat.
  Variable w : cx F.
  Hypothesis n_pos : (0 < n)%nat.
  Hypothesis w_n : @fpow CF w n = c1 F.
  Hypothesis w_prim : forall m, (0 < m < n)%nat -> @fpow CF w m <> c1 F.
  Hypothesis w_unit : cmul w (cconj w) = c1 F.           (* |w| = 1: the inverse root is the conjugate *)

  Lemma cconj_fsum (l : list (cx F)) : cconj (@fsum (COps F) l) = @fsum (COps F) (map cconj l).
  Proof. induction l as [|a l IH]; cbn [fsum map]; [apply cx_ext; cbn; ring|]. rewrite <- IH. apply cx_ext; cbn; ring. Qed.
  Lemma cconj_mul (a b : cx F) : cconj (cmul a b) = cmul (cconj a) (cconj b).
  Proof. apply cx_ext; cbn; ring. Qed.
  Lemma cconj_fpow (z : cx F) m : cconj (@fpow (COps F) z m) = @fpow (COps F) (cconj z) m.
  Proof.
    induction m as [|m IH]; cbn [fpow]; [apply cx_ext; cbn; ring|].
    change (@omul (COps F) ?a ?b) with (cmul a b). rewrite cconj_mul, IH. reflexivity.
  Qed.
  Lemma re_fsum (l : list (cx F)) : re (@fsum (COps F) l) = fsum (map re l).
  Proof. induction l as [|a l IH]; cbn [fsum map]; [reflexivity|]. rewrite <- IH. reflexivity. Qed.
  Lemma C_fz (z : Z) : @fz (COps F) z = cofr (@fz F z).
  Proof. destruct z; cbn [fz]; [reflexivity | apply C_fpos | rewrite C_fpos; apply cx_ext; cbn; ring]. Qed.
  Lemma mul_conj (z : cx F) : cmul z (cconj z) = cofr (cnorm2 z).
  Proof. apply cx_ext; unfold cnorm2; cbn; ring. Qed.
  Lemma cnorm2_conj (z : cx F) : cnorm2 (cconj z) = cnorm2 z.
  Proof. unfold cnorm2; cbn; ring. Qed.

  Definition rdft (u : nat -> F) (k : nat) : cx F := @dft (COps F) n w (fun j => cofr (u j)) k.

  Lemma dft_conj (u : nat -> F) k : @dft (COps F) n (cconj w) (fun j => cofr (u j)) k = cconj (rdft u k).
  Proof.
    unfold rdft, dft, bsum. rewrite cconj_fsum, map_map. f_equal. apply map_ext. intros j.
    change (@omul (COps F) ?a ?b) with (cmul a b). rewrite cconj_mul, cconj_fpow. f_equal. apply cx_ext; cbn; ring.
  Qed.

  (* Parseval for a real sequence: sum over the full spectrum of |U_k|^2 = n * sum of squares *)
  Theorem parseval_real (u : nat -> F) :
    bsum n (fun k => cnorm2 (rdft u k)) = fz (Z.of_nat n) * bsum n (fun j => u j * u j).
  Proof.
    pose proof (parseval_bilinear CF n w (cconj w) n_pos w_n w_prim w_unit (fun j => cofr (u j)) (fun j => cofr (u j))) as H.
    apply (f_equal re) in H. unfold bsum in H.
    change (@fsum CF) with (@fsum (COps F)) in H. rewrite re_fsum, map_map in H.
    unfold bsum. rewrite (fsum_map_ext F _ _ (fun k => re (@omul CF (@dft CF n w (fun j => cofr (u j)) k) (@dft CF n (cconj w) (fun j => cofr (u j)) k)))).
    2:{ intros k _. change (@dft CF) with (@dft (COps F)). rewrite dft_conj. change (@omul CF ?a ?b) with (cmul a b).
        fold (rdft u k). rewrite mul_conj. reflexivity. }
    rewrite H. change (@fz CF) with (@fz (COps F)). rewrite C_fz.
    change (@omul CF ?a ?b) with (cmul a b). cbn [re cmul cofr im].
    change (@fsum CF) with (@fsum (COps F)). rewrite re_fsum, map_map.
    assert (E : forall l : list (cx F), im (@fsum (COps F) l) = fsum (map im l)).
    { induction l as [|a l IH]; cbn [fsum map]; [reflexivity|]. rewrite <- IH. reflexivity. }
    rewrite E, map_map.
    rewrite (fsum_map_ext F (seq 0 n) (fun x => im _) (fun _ => 0)) by (intros; cbn; ring). rewrite fsum_map_zero.
    rewrite (fsum_map_ext F (seq 0 n) (fun x => re _) (fun j => u j * u j)) by (intros; cbn; ring). ring.
  Qed.

  (* Hermitian symmetry of the spectrum of a real sequence *)
  Lemma rdft_reflect (u : nat -> F) k : (k <= n)%nat -> cnorm2 (rdft u (n - k)) = cnorm2 (rdft u k).
  Proof.
    intros Hk. unfold rdft.
    pose proof (dft_reflect CF n w (cconj w) n_pos w_n w_prim w_unit (fun j => cofr (u j)) k Hk) as H.
    change (@dft CF) with (@dft (COps F)) in H. rewrite H, dft_conj. apply cnorm2_conj.
  Qed.

  (* the half-spectrum sum with the multiplicities 1 / 2 is the full-spectrum sum *)
  Theorem parseval_half_spectrum (u : nat -> F) :
    bsum (n / 2 + 1) (fun k => half_mult F n k * cnorm2 (rdft u k)) = fz (Z.of_nat n) * bsum n (fun j => u j * u j).
  Proof.
    rewrite <- parseval_real. symmetry. apply bsum_fold; [exact n_pos|].
    intros k Hk. apply rdft_reflect. lia.
  Qed.
  (* ---- the model: in one dimension the Fourier aggregator of the rfft spectrum equals the spatial aggregator ---- *)
  Lemma flat_map_singleton {A B} (f : A -> B) (l : list A) : flat_map (fun j => [f j]) l = map f l.
  Proof. induction l as [|a l IH]; cbn; [reflexivity | rewrite IH; reflexivity]. Qed.
  Lemma combine_diag {A} (l : list A) : combine l l = map (fun x => (x, x)) l.
  Proof. induction l as [|a l IH]; cbn; [reflexivity | rewrite IH; reflexivity]. Qed.

  Lemma half_indices_1d : half_indices 1 (Z.of_nat n) = map (fun k => [Z.of_nat k]) (seq 0 (n / 2 + 1)).
  Proof.
    unfold half_indices, wavenumber_shape. cbn [Nat.sub repeat app idx_grid map].
    rewrite (flat_map_singleton (fun j => [j])). unfold zrange0. rewrite map_map.
    replace (Z.to_nat (Z.of_nat n / 2 + 1)) with (n / 2 + 1)%nat; [reflexivity|].
    change 2%Z with (Z.of_nat 2). rewrite <- Nat2Z.inj_div. lia.
  Qed.

  Lemma Zeven_of_nat m : Z.even (Z.of_nat m) = Nat.even m.
  Proof.
    apply eq_true_iff_eq. rewrite Z.even_spec, Nat.even_spec. split.
    - intros [q Hq]. exists (Z.to_nat q). lia.
    - intros [q Hq]. exists (Z.of_nat q). lia.
  Qed.

  Lemma axis_plain_nat k : axis_plain (Z.of_nat n) (Z.of_nat k) true = (k =? 0)%nat || (Nat.even n && (k =? n / 2)%nat).
  Proof.
    unfold axis_plain. rewrite Zeven_of_nat. f_equal; [|f_equal].
    - destruct (Z.eqb_spec (Z.of_nat k) 0), (Nat.eqb_spec k 0); try reflexivity; lia.
    - change 2%Z with (Z.of_nat 2). rewrite <- Nat2Z.inj_div.
      destruct (Z.eqb_spec (Z.of_nat k) (Z.of_nat (n / 2))), (Nat.eqb_spec k (n / 2)); try reflexivity; lia.
  Qed.

  Lemma n_neq0 : @fz F (Z.of_nat n) <> 0.
  Proof. apply fz_neq0. lia. Qed.

  Lemma term_1d tau L (u : nat -> F) k :
    term F tau L 1 (Z.of_nat n) None ([Z.of_nat k], rdft u k) = half_mult F n k * cnorm2 (rdft u k) / fz (Z.of_nat n).
  Proof.
    unfold term, mult_of. cbn [fst snd]. rewrite cmul_c1_r.
    assert (E : scaling_recon F 1 (Z.of_nat n) [Z.of_nat k]
                = if axis_plain (Z.of_nat n) (Z.of_nat k) true then fz (Z.of_nat n) else fz (Z.of_nat n) / fz 2).
    { unfold scaling_recon. cbn [seq map fprod Nat.sub Nat.eqb]. unfold axis_scaling.
      change (wn 1 (Z.of_nat n) 0 [Z.of_nat k]) with (Z.of_nat k).
      destruct (axis_plain (Z.of_nat n) (Z.of_nat k) true); ring. }
    rewrite E, axis_plain_nat. unfold half_mult.
    pose proof n_neq0 as Hn.
    assert (H2 : 1 + 1 <> (0 : F)) by exact (two_neq0 F).
    assert (H2' : (1 + 1) * 1 <> (0 : F)) by (intro H; apply H2; rewrite <- H; ring).
    destruct ((k =? 0)%nat || (Nat.even n && (k =? n / 2)%nat)); cbn [fz fpos]; unfold two; field; repeat split; assumption.
  Qed.

  Theorem parseval_metric_1d (root : F -> F) (L tau : F) (u : nat -> F) :
    fourier_agg F root 1 (Z.of_nat n) L tau None None None (map (rdft u) (seq 0 (n / 2 + 1)))
    = spatial_agg F root 1 (Z.of_nat n) L (map u (seq 0 n)).
  Proof.
    rewrite fourier_agg_unfold. unfold spatial_agg. f_equal. f_equal.
    unfold msum, with_idx. rewrite half_indices_1d, combine_map_both, combine_diag, !map_map. cbn [band_mask fst snd].
    rewrite (fsum_map_ext F _ _ (fun k => oinv (fz (Z.of_nat n)) * (half_mult F n k * cnorm2 (rdft u k)))).
    2:{ intros k _. rewrite term_1d, fdiv_def. ring. }
    rewrite fsum_map_scal. fold (bsum (n / 2 + 1) (fun k => half_mult F n k * cnorm2 (rdft u k))).
    rewrite parseval_half_spectrum. unfold sumsq, bsum. rewrite map_map. unfold sqr. field. exact n_neq0.
  Qed.
End ParsevalReal.

(* ================================================================================================ *)
(* 6. Ordered fields: Cauchy-Schwarz for finite sums, correlation in [-1, 1], positivity *)
Record OrderedField (F : FieldT) (le : F -> F -> Prop) : Prop := mkOrderedField {
  ole_refl : forall x, le x x;
  ole_trans : forall x y z, le x y -> le y z -> le x z;
  ole_antisym : forall x y, le x y -> le y x -> x = y;
  ole_total : forall x y, le x y \/ le y x;
  ole_add : forall x y z, le x y -> le (x + z) (y + z);
  ole_mul : forall x y, le 0 x -> le 0 y -> le 0 (x * y) }.
Arguments ole_refl {F le} _. Arguments ole_trans {F le} _. Arguments ole_antisym {F le} _.
Arguments ole_total {F le} _. Arguments ole_add {F le} _. Arguments ole_mul {F le} _.

Section Ordered.
  Variable F : FieldT.
  Variable le : F -> F -> Prop.
  Hypothesis OF : OrderedField F le.
  Add Field Ffo : (fth F).
  Infix "<=" := le : fld_scope.

  Lemma le_sub x y : x <= y <-> 0 <= y - x.
  Proof.
    split; intros H.
    - replace 0 with (x + - x) by ring. replace (y - x) with (y + - x) by ring. apply (ole_add OF). exact H.
    - replace x with (0 + x) by ring. replace y with (y - x + x) by ring. apply (ole_add OF). exact H.
  Qed.
  Lemma le_sub_1 x y : x <= y -> 0 <= y - x.
  Proof. apply le_sub. Qed.
  Lemma le_sub_2 x y : 0 <= y - x -> x <= y.
  Proof. apply le_sub. Qed.
  Lemma opp_nonneg x : x <= 0 -> 0 <= - x.
  Proof. intros H. apply le_sub_1 in H. replace (- x) with (0 - x) by ring. exact H. Qed.
  Lemma sq_nonneg x : 0 <= x * x.
  Proof.
    destruct (ole_total OF 0 x) as [H|H]; [apply (ole_mul OF); exact H|].
    replace (x * x) with (- x * - x) by ring. apply (ole_mul OF); apply opp_nonneg; exact H.
  Qed.
  Lemma one_nonneg : 0 <= (1 : F).
  Proof. replace (1 : F) with (1 * 1 : F) by ring. apply sq_nonneg. Qed.
  Lemma add_nonneg a b : 0 <= a -> 0 <= b -> 0 <= a + b.
  Proof.
    intros Ha Hb. apply (ole_trans OF _ b); [exact Hb|].
    replace b with (0 + b) at 1 by ring. apply (ole_add OF). exact Ha.
  Qed.
  Lemma fsum_nonneg (l : list F) : Forall (fun x => 0 <= x) l -> 0 <= fsum l.
  Proof. induction 1; cbn [fsum]; [apply (ole_refl OF) | apply add_nonneg; assumption]. Qed.
  Lemma fsum_map_nonneg {A} (f : A -> F) (l : list A) : (forall a, 0 <= f a) -> 0 <= fsum (map f l).
  Proof. intros H. apply fsum_nonneg. apply Forall_forall. intros x Hx. apply in_map_iff in Hx. destruct Hx as [a [<- _]]. apply H. Qed.
  Lemma sumsq_nonneg u : 0 <= sumsq F u.
  Proof. apply fsum_map_nonneg. intros a. apply sq_nonneg. Qed.
  Lemma nonneg_sum_zero a b : 0 <= a -> 0 <= b -> a + b = 0 -> a = 0 /\ b = 0.
  Proof.
    intros Ha Hb H.
    assert (Ha0 : a <= 0). { rewrite <- H. replace a with (a + 0) at 1 by ring. rewrite (ARadd_comm (Rth_ARth (Eqsth F) (Eq_ext _ _ _) (F_R (fth F))) a 0), (ARadd_comm (Rth_ARth (Eqsth F) (Eq_ext _ _ _) (F_R (fth F))) a b). apply (ole_add OF). exact Hb. }
    assert (a = 0) by (apply (ole_antisym OF); assumption). split; [assumption|]. subst a. rewrite <- H. ring.
  Qed.
  Lemma sumsq_zero u : sumsq F u = 0 -> Forall (fun x => x = 0) u.
  Proof.
    induction u as [|a u IH]; intros H; [constructor|]. unfold sumsq in H. cbn [map fsum] in H.
    destruct (nonneg_sum_zero _ _ (sq_nonneg a) (sumsq_nonneg u) H) as [H1 H2].
    constructor; [|apply IH; exact H2]. unfold sqr in H1. destruct (fmul_eq0 F _ _ H1); assumption.
  Qed.
  Lemma halve_nonneg x : 0 <= x + x -> 0 <= x.
  Proof.
    intros H. destruct (ole_total OF 0 x) as [H0|H0]; [exact H0|].
    assert (Hxx : x + x <= 0).
    { apply (ole_trans OF _ (0 + x)); [apply (ole_add OF); exact H0 | replace (0 + x) with x by ring; exact H0]. }
    assert (E : x + x = 0) by (apply (ole_antisym OF); assumption).
    assert (x = 0).
    { replace (x + x) with (two * x) in E by (unfold two; ring). destruct (fmul_eq0 F _ _ E) as [E2|E2]; [|exact E2].
      exfalso. exact (two_neq0 F E2). }
    subst x. apply (ole_refl OF).
  Qed.

  (* ---- Cauchy-Schwarz via the Lagrange identity ---- *)
  Definition pA (l : list (F * F)) : F := fsum (map (fun p => fst p * fst p) l).
  Definition pB (l : list (F * F)) : F := fsum (map (fun p => snd p * snd p) l).
  Definition pS (l : list (F * F)) : F := fsum (map (fun p => fst p * snd p) l).

  Lemma lagrange_inner a b l :
    fsum (map (fun q => (a * snd q - fst q * b) * (a * snd q - fst q * b)) l) = a * a * pB l + b * b * pA l - (a * b + a * b) * pS l.
  Proof. unfold pA, pB, pS. induction l as [|q l IH]; cbn [map fsum]; [ring | rewrite IH; ring]. Qed.
  Lemma lagrange_outer l X Y Z :
    fsum (map (fun p => fst p * fst p * X + snd p * snd p * Y - (fst p * snd p + fst p * snd p) * Z) l)
    = pA l * X + pB l * Y - (pS l + pS l) * Z.
  Proof. unfold pA, pB, pS. induction l as [|q l IH]; cbn [map fsum]; [ring | rewrite IH; ring]. Qed.

  Theorem cauchy_schwarz_pairs l : pS l * pS l <= pA l * pB l.
  Proof.
    apply le_sub_2. apply halve_nonneg.
    replace (pA l * pB l - pS l * pS l + (pA l * pB l - pS l * pS l))
      with (fsum (map (fun p => fsum (map (fun q => (fst p * snd q - fst q * snd p) * (fst p * snd q - fst q * snd p)) l)) l)).
    - apply fsum_map_nonneg. intros p. apply fsum_map_nonneg. intros q. apply sq_nonneg.
    - rewrite (fsum_map_ext F l _ (fun p => fst p * fst p * pB l + snd p * snd p * pA l - (fst p * snd p + fst p * snd p) * pS l))
        by (intros p _; apply lagrange_inner).
      rewrite lagrange_outer. ring.
  Qed.

  Lemma combine_fst u v : length u = length v -> sumsq F u = pA (combine u v).
  Proof. revert v. unfold sumsq, pA. induction u as [|a u IH]; intros [|b v] H; cbn in *; try discriminate; [reflexivity|]. rewrite (IH v) by lia. reflexivity. Qed.
  Lemma combine_snd u v : length u = length v -> sumsq F v = pB (combine u v).
  Proof. revert v. unfold sumsq, pB. induction u as [|a u IH]; intros [|b v] H; cbn in *; try discriminate; [reflexivity|]. rewrite (IH v) by lia. reflexivity. Qed.

  Theorem cauchy_schwarz u v : length u = length v -> sqr F (dot F u v) <= sumsq F u * sumsq F v.
  Proof.
    intros H. rewrite (combine_fst u v H), (combine_snd u v H). unfold sqr, dot. apply cauchy_schwarz_pairs.
  Qed.

  (* equality for proportional fields *)
  Lemma dot_scal (al : F) u : dot F u (map (omul al) u) = al * sumsq F u.
  Proof. unfold dot, sumsq, sqr. induction u as [|a u IH]; cbn [map combine fsum fst snd]; [ring | rewrite IH; ring]. Qed.
  Theorem cauchy_schwarz_equality (al : F) u :
    sqr F (dot F u (map (omul al) u)) = sumsq F u * sumsq F (map (omul al) u).
  Proof. rewrite dot_scal, (sumsq_scal F al u). unfold sqr. ring. Qed.

  (* ---- correlation ---- *)
  Lemma inv_nonneg x : 0 <= x -> x <> 0 -> 0 <= oinv x.
  Proof.
    intros Hx Hn. destruct (ole_total OF 0 (oinv x)) as [H|H]; [exact H|].
    exfalso. assert (H1 : 0 <= x * - oinv x) by (apply (ole_mul OF); [exact Hx | apply opp_nonneg; exact H]).
    replace (x * - oinv x) with (- (1) : F) in H1 by (field; exact Hn).
    assert (H2 : (1 : F) <= 0) by (apply le_sub_2; replace (0 - 1) with (- (1) : F) by ring; exact H1).
    apply (f_1_neq_0 F). apply (ole_antisym OF); [exact H2 | apply one_nonneg].
  Qed.

  Theorem corr2_le_1 u v : length u = length v -> sumsq F u * sumsq F v <> 0 -> corr2_channel F u v <= 1.
  Proof.
    intros Hl Hn. unfold corr2_channel. apply le_sub_2.
    assert (Ha : sumsq F u <> 0) by (intro E; apply Hn; rewrite E; ring).
    assert (Hb : sumsq F v <> 0) by (intro E; apply Hn; rewrite E; ring).
    assert (E : 1 - sqr F (dot F u v) / (sumsq F u * sumsq F v)
                = (sumsq F u * sumsq F v - sqr F (dot F u v)) * oinv (sumsq F u * sumsq F v)) by (field; split; assumption).
    rewrite E.
    apply (ole_mul OF).
    - apply le_sub_1. apply cauchy_schwarz. exact Hl.
    - apply inv_nonneg; [|exact Hn]. apply (ole_mul OF); apply sumsq_nonneg.
  Qed.
  Theorem corr2_proportional (al : F) u : al <> 0 -> sumsq F u <> 0 -> corr2_channel F u (map (omul al) u) = 1.
  Proof.
    intros Ha Hu. unfold corr2_channel. rewrite cauchy_schwarz_equality. field.
    rewrite (sumsq_scal F al u). split; [|exact Hu]. repeat apply (fmul_neq0 F); assumption.
  Qed.

  Lemma sq_le_1 c : c * c <= 1 -> - (1) <= c /\ c <= 1.
  Proof.
    intros H.
    assert (Hpos : forall d, d * d <= 1 -> d <= 1).
    { intros d Hd. destruct (ole_total OF d 1) as [H1|H1]; [exact H1|].
      apply (ole_trans OF _ (d * d)); [|exact Hd]. apply le_sub_2.
      replace (d * d - d) with (d * (d - 1)) by ring. apply (ole_mul OF).
      - apply (ole_trans OF _ 1); [apply one_nonneg | exact H1].
      - apply le_sub_1 in H1. exact H1. }
    split; [|apply Hpos; exact H].
    assert (Hm : - c <= 1) by (apply Hpos; replace (- c * - c) with (c * c) by ring; exact H).
    apply le_sub_2. apply le_sub_1 in Hm. replace (c - - (1)) with (1 - - c) by ring. exact Hm.
  Qed.

  (* the correlation of the implementation divides by the norms: its square is corr2 when [root] is a square root of the two sums *)
  Variable root : F -> F.
  Lemma corr_channel_eq u v : corr_channel F root u v = dot F u v * oinv (root (sumsq F u)) * oinv (root (sumsq F v)).
  Proof.
    unfold corr_channel, dot. set (nu := root (sumsq F u)). set (nv := root (sumsq F v)).
    rewrite combine_map_both, map_map.
    transitivity (fsum (map (fun p => oinv nu * oinv nv * (fst p * snd p)) (combine u v))).
    - apply fsum_map_ext. intros p _. cbn [fst snd]. rewrite !fdiv_def. ring.
    - rewrite fsum_map_scal. ring.
  Qed.
  Theorem corr_channel_sq u v :
    let nu := root (sumsq F u) in let nv := root (sumsq F v) in
    nu * nu = sumsq F u -> nv * nv = sumsq F v -> nu <> 0 -> nv <> 0 ->
    sqr F (corr_channel F root u v) = corr2_channel F u v.
  Proof.
    intros nu nv H1 H2 Hn1 Hn2. rewrite corr_channel_eq. fold nu nv. clearbody nu nv.
    unfold corr2_channel. rewrite <- H1, <- H2. unfold sqr. field. split; assumption.
  Qed.
  Theorem corr_channel_bounds u v : length u = length v ->
    let nu := root (sumsq F u) in let nv := root (sumsq F v) in
    nu * nu = sumsq F u -> nv * nv = sumsq F v -> nu <> 0 -> nv <> 0 ->
    - (1) <= corr_channel F root u v /\ corr_channel F root u v <= 1.
  Proof.
    cbn zeta. intros Hl H1 H2 Hn1 Hn2. apply sq_le_1.
    change (corr_channel F root u v * corr_channel F root u v) with (sqr F (corr_channel F root u v)).
    rewrite (corr_channel_sq u v H1 H2 Hn1 Hn2). apply corr2_le_1; [exact Hl|].
    rewrite <- H1, <- H2. repeat apply (fmul_neq0 F); assumption.
  Qed.

  Lemma sq_inj_nonneg a b : 0 <= a -> 0 <= b -> a * a = b * b -> a = b.
  Proof.
    intros Ha Hb H. assert (E : (a - b) * (a + b) = 0) by (transitivity (a * a - b * b); [ring | rewrite H; ring]).
    destruct (fmul_eq0 F _ _ E) as [E1|E1]; [apply (fsub_eq0 F); exact E1|].
    destruct (nonneg_sum_zero a b Ha Hb E1) as [-> ->]. reflexivity.
  Qed.

  (* = +1 / -1 for positively / negatively proportional fields, when [root] is the non-negative square root *)
  Theorem corr_channel_proportional (al : F) u :
    (forall x, 0 <= x -> 0 <= root x /\ root x * root x = x) -> sumsq F u <> 0 ->
    (0 <= al -> al <> 0 -> corr_channel F root u (map (omul al) u) = 1) /\
    (al <= 0 -> al <> 0 -> corr_channel F root u (map (omul al) u) = - (1)).
  Proof.
    intros Hroot Hu. set (A := sumsq F u). set (nu := root A).
    destruct (Hroot A (sumsq_nonneg u)) as [Hnu0 Hnu]. fold nu in Hnu0, Hnu.
    assert (Hnun : nu <> 0) by (intro E; apply Hu; fold A; rewrite <- Hnu, E; ring).
    assert (HB : sumsq F (map (omul al) u) = al * al * A) by apply (sumsq_scal F al u).
    assert (HB0 : 0 <= al * al * A) by (apply (ole_mul OF); [apply sq_nonneg | apply sumsq_nonneg]).
    destruct (Hroot (al * al * A) HB0) as [Hnv0 Hnv]. set (nv := root (al * al * A)) in *.
    rewrite corr_channel_eq, dot_scal, HB. fold A nu nv.
    split; intros Hs Hne.
    - assert (E : nv = al * nu).
      { apply sq_inj_nonneg; [exact Hnv0 | apply (ole_mul OF); assumption|]. rewrite Hnv, <- Hnu. ring. }
      rewrite E, <- Hnu. field. split; assumption.
    - assert (E : nv = - al * nu).
      { apply sq_inj_nonneg; [exact Hnv0 | apply (ole_mul OF); [apply opp_nonneg; exact Hs | exact Hnu0]|]. rewrite Hnv, <- Hnu. ring. }
      rewrite E, <- Hnu. field. split; [assumption|]. intro X. apply Hne. apply (fopp_eq0 F). exact X.
  Qed.

  (* ---- positivity of the spatial mean-square metric ---- *)
  Lemma fpow_nonneg x m : 0 <= x -> 0 <= fpow x m.
  Proof. intros H. induction m as [|m IH]; cbn [fpow]; [apply one_nonneg | apply (ole_mul OF); assumption]. Qed.
  Lemma vsub_zero u r : length u = length r -> Forall (fun x => x = 0) (vsub F u r) -> u = r.
  Proof.
    revert r. induction u as [|a u IH]; intros [|b r] Hl H; cbn in *; try discriminate; [reflexivity|].
    inversion H as [|x l H1 H2]; subst. f_equal; [apply (fsub_eq0 F); exact H1 | apply IH; [lia | exact H2]].
  Qed.
  Theorem spatial_agg_positive D N (L : F) u r : 0 <= L / fz N -> L / fz N <> 0 -> length u = length r -> u <> r ->
    0 <= spatial_agg F (idK F) D N L (vsub F u r) /\ spatial_agg F (idK F) D N L (vsub F u r) <> 0.
  Proof.
    intros Hv Hvn Hl Hne. unfold spatial_agg, idK, vol. split.
    - apply (ole_mul OF); [apply fpow_nonneg; exact Hv | apply sumsq_nonneg].
    - intro E. destruct (fmul_eq0 F _ _ E) as [E1|E1]; [exact (fpow_neq0 F _ D Hvn E1)|].
      apply Hne. apply vsub_zero; [exact Hl | apply sumsq_zero; exact E1].
  Qed.
End Ordered.

(* the hypotheses are satisfiable: the rationals with their order *)
Lemma Qc_ordered : OrderedField QcField Qcle.
Proof.
  constructor.
  - apply Qcle_refl.
  - apply Qcle_trans.
  - apply Qcle_antisym.
  - intros x y. destruct (Qclt_le_dec x y) as [H|H]; [left; apply Qclt_le_weak; exact H | right; exact H].
  - intros x y z H. apply Qcplus_le_compat; [exact H | apply Qcle_refl].
  - intros x y Hx Hy. change (0 <= x)%Qc in Hx. change (0 <= y)%Qc in Hy. change (0 <= x * y)%Qc.
    replace 0%Qc with (0 * y)%Qc by ring. apply Qcmult_le_compat_r; assumption.
Qed.
