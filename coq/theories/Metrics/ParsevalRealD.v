(* Parseval for REAL fields in every dimension, on the stored half spectrum.
   u real on the n^D grid, U = D-fold iterated transform (complex numbers over a formally real field, |w| = 1).  Then
     (1) Hermitian symmetry  U(-k) = conj U(k)                                  (negD k = component-wise (n - k_c) mod n)
     (2) sum over the full spectrum |U(k)|^2 = n^D sum u^2
     (3) the stored half - last-axis index 0..n/2, multiplicity 1 on the self-conjugate last-axis wavenumbers (0, and n/2 for even n) and 2
         otherwise, ALL leading-axis indices - carries the same sum.  This is the weighting N^D / scaling_recon of the metrics and spectra
         (C16, C17, C11). *)
From Coq Require Import ZArith QArith List Bool Field Ring Lia Arith Permutation.
From EXV Require Import Base.Scalar Base.FieldLemmas Base.Cplx DFT.DFT1 Layout.Freq IC.Normalize IC.GeneratorsProofs DFT.DFTD DFT.ParsevalD
  DFT.BandLink Nonlin.MeanFree Nonlin.Energy Metrics.Metrics Metrics.MetricsProofs.
Import ListNotations.
Local Open Scope fld_scope.

Section ParsevalRealD.
  Variable F : FieldT.
  Hypothesis FR : FormallyReal F.
  Add Field Ffrd : (fth F).
  Let CF : FieldT := CField FR.
  Variable n : nat.
  Variable w : cx F.
  Hypothesis n_pos : (0 < n)%nat.
  Hypothesis w_n : @fpow CF w n = c1 F.
  Hypothesis w_prim : forall m, (0 < m < n)%nat -> @fpow CF w m <> c1 F.
  Hypothesis w_unit : cmul w (cconj w) = c1 F.

  Definition rdftD (D : nat) (u : list nat -> F) (k : list nat) : cx F := @dftD (COps F) n D w (fun j => cofr (u j)) k.
  Definition negD (k : list nat) : list nat := map (fun b => ((n - b) mod n)%nat) k.

  (* conjugating the root and the data conjugates the 1-D transform *)
  Lemma dft_cconj (G : nat -> cx F) b : @dft (COps F) n (cconj w) (fun a => cconj (G a)) b = cconj (@dft (COps F) n w G b).
  Proof.
    unfold dft, bsum. rewrite (cconj_fsum F), map_map. f_equal. apply map_ext. intros j.
    change (@omul (COps F) ?a ?b) with (cmul a b). rewrite (cconj_mul F), (cconj_fpow F). reflexivity.
  Qed.

  Lemma dftD_cconj D (u : list nat -> F) k : @dftD (COps F) n D (cconj w) (fun j => cofr (u j)) k = cconj (rdftD D u k).
  Proof.
    unfold rdftD. revert u k. induction D as [|D IH]; intros u k; cbn [dftD].
    - apply cx_ext; cbn; ring.
    - destruct k as [|b k]; [apply cx_ext; cbn; ring|].
      rewrite <- dft_cconj. unfold dft. apply (bsum_ext CF). intros a _. f_equal. apply IH.
  Qed.

  (* (1) Hermitian symmetry *)
  Lemma rdftD_reflect D (u : list nat -> F) k : Forall (fun b => (b < n)%nat) k -> rdftD D u (negD k) = cconj (rdftD D u k).
  Proof.
    unfold rdftD. revert u k. induction D as [|D IH]; intros u k Hk; cbn [dftD].
    - destruct k; apply cx_ext; cbn; ring.
    - destruct k as [|b k]; cbn [negD map]; [apply cx_ext; cbn; ring|]. inversion Hk as [|? ? Hb Hk']; subst.
      fold (negD k).
      rewrite (dft_ext_all CF n w _ (fun a => cconj (@dftD (COps F) n D w (fun r => cofr (u (a :: r))) k))) by (intros a; apply IH; exact Hk').
      rewrite <- (dft_mod CF n w n_pos w_n).
      rewrite (dft_reflect CF n w (cconj w) n_pos w_n w_prim w_unit _ b) by lia.
      apply dft_cconj.
  Qed.

  Lemma cnorm2_reflect D (u : list nat -> F) k : Forall (fun b => (b < n)%nat) k -> cnorm2 (rdftD D u (negD k)) = cnorm2 (rdftD D u k).
  Proof. intros Hk. rewrite rdftD_reflect by exact Hk. apply (cnorm2_conj F). Qed.

  (* sums over CF of real-embedded terms *)
  Lemma sumD_cofr D (g : list nat -> F) : sumD (COps F) D n (fun k => cofr (g k)) = cofr (sumD F D n g).
  Proof.
    unfold sumD. induction (gridD D n) as [|k l IH]; cbn [map fsum]; [reflexivity|]. rewrite IH. apply cx_ext; cbn; ring.
  Qed.
  Lemma npts_cofr D : npts (COps F) D n = cofr (npts F D n).
  Proof.
    unfold npts. rewrite (C_fz F). induction D as [|D IH]; cbn [fpow]; [reflexivity|]. rewrite IH. apply cx_ext; cbn; ring.
  Qed.

  (* (2) full-spectrum Parseval for a real field *)
  Theorem parseval_real_D D (u : list nat -> F) :
    sumD F D n (fun k => cnorm2 (rdftD D u k)) = npts F D n * sumD F D n (fun j => u j * u j).
  Proof.
    pose proof (parseval_bilinear_D CF n w (cconj w) n_pos w_n w_prim w_unit D (fun j => cofr (u j)) (fun j => cofr (u j))) as H.
    rewrite (sumD_ext CF n D _ (fun k => cofr (cnorm2 (rdftD D u k)))) in H.
    2:{ intros k _. change (@dftD CF) with (@dftD (COps F)). rewrite dftD_cconj. change (@omul CF ?a ?b) with (cmul a b).
        fold (rdftD D u k). apply (mul_conj F). }
    rewrite (sumD_ext CF n D (fun j => @omul CF (cofr (u j)) (cofr (u j))) (fun j => cofr (u j * u j))) in H.
    2:{ intros j _. apply cx_ext; cbn; ring. }
    change (sumD CF) with (sumD (COps F)) in H. change (npts CF) with (npts (COps F)) in H.
    rewrite !sumD_cofr, npts_cofr in H. apply (f_equal re) in H. cbn [re cofr] in H. rewrite H.
    change (@omul CF ?a ?b) with (cmul a b). cbn [re cmul cofr im]. ring.
  Qed.

  (* ---- (3) folding onto the stored half along the LAST axis ---- *)
  Lemma sumD_snoc D (f : list nat -> F) : sumD F (S D) n f = sumD F D n (fun lead => bsum n (fun b => f (lead ++ [b]))).
  Proof.
    revert f. induction D as [|D IH]; intros f.
    - rewrite (sumD_S F n), !(sumD_0 F n). apply (bsum_ext F). intros a _. rewrite (sumD_0 F n). reflexivity.
    - rewrite (sumD_S F n). rewrite (bsum_ext F n _ (fun a => sumD F D n (fun lead => bsum n (fun b => f (a :: lead ++ [b]))))).
      2:{ intros a _. rewrite IH. reflexivity. }
      rewrite (sumD_S F n). reflexivity.
  Qed.

  Lemma negD_invol k : Forall (fun b => (b < n)%nat) k -> negD (negD k) = k.
  Proof.
    induction 1 as [|b k Hb Hk IH]; cbn [negD map]; [reflexivity|]. fold (negD k). fold (negD (negD k)). rewrite IH. f_equal.
    destruct b as [|b]; [rewrite Nat.sub_0_r, Nat.mod_same, Nat.sub_0_r, Nat.mod_same by lia; reflexivity|].
    rewrite (Nat.mod_small (n - S b)) by lia. replace (n - (n - S b))%nat with (S b) by lia. apply Nat.mod_small. lia.
  Qed.
  Lemma negD_grid k : Forall (fun b => (b < n)%nat) (negD k).
  Proof. unfold negD. apply Forall_forall. intros x Hx. apply in_map_iff in Hx. destruct Hx as (b & <- & _). apply Nat.mod_upper_bound. lia. Qed.

  Lemma grid_negated D : Permutation (map negD (gridD D n)) (gridD D n).
  Proof.
    apply NoDup_Permutation_bis.
    - apply NoDup_map_in; [|apply (NoDup_gridD n)]. intros x y Hx Hy E. apply (in_gridD_iff n n_pos) in Hx, Hy.
      rewrite <- (negD_invol x), <- (negD_invol y), E by tauto. reflexivity.
    - rewrite map_length. lia.
    - intros x Hx. apply in_map_iff in Hx. destruct Hx as (k & <- & Hk). apply (in_gridD_iff n n_pos) in Hk.
      apply (in_gridD_iff n n_pos). split; [unfold negD; rewrite map_length; tauto | apply negD_grid].
  Qed.

  Lemma sumD_negD D (h : list nat -> F) : sumD F D n (fun k => h (negD k)) = sumD F D n h.
  Proof. unfold sumD. rewrite <- (fsum_perm F h _ _ (grid_negated D)). rewrite map_map. reflexivity. Qed.

  Lemma negD_snoc lead b : negD (lead ++ [b]) = negD lead ++ [((n - b) mod n)%nat].
  Proof. unfold negD. rewrite map_app. reflexivity. Qed.

  (* the stored half spectrum (every leading index, last-axis index 0..n/2) with the multiplicities half_mult carries the full sum *)
  Theorem parseval_half_spectrum_D D (u : list nat -> F) :
    sumD F D n (fun lead => bsum (n / 2 + 1) (fun b => half_mult F n b * cnorm2 (rdftD (S D) u (lead ++ [b]))))
    = npts F (S D) n * sumD F (S D) n (fun j => u j * u j).
  Proof.
    rewrite <- parseval_real_D, sumD_snoc.
    set (g := fun k => cnorm2 (rdftD (S D) u k)).
    set (G := fun b => sumD F D n (fun lead => g (lead ++ [b]))).
    transitivity (bsum (n / 2 + 1) (fun b => half_mult F n b * G b)).
    { unfold sumD, bsum, G. rewrite fsum_map_swap. apply fsum_map_ext. intros b _. unfold sumD. rewrite <- fsum_map_scal. reflexivity. }
    transitivity (bsum n G).
    2:{ unfold sumD, bsum, G. rewrite fsum_map_swap. reflexivity. }
    symmetry. apply (bsum_fold F); [exact n_pos|].
    intros k Hk. unfold G. rewrite <- (sumD_negD D (fun lead => g (lead ++ [k]))).
    apply (sumD_ext F n D). intros lead Hl. apply (in_gridD_iff n n_pos) in Hl. destruct Hl as [_ Hl].
    unfold g. rewrite <- (cnorm2_reflect (S D) u (negD lead ++ [k])).
    - rewrite negD_snoc, (negD_invol lead Hl). rewrite Nat.mod_small by lia. reflexivity.
    - apply Forall_app. split; [apply negD_grid | constructor; [lia | constructor]].
  Qed.
End ParsevalRealD.
