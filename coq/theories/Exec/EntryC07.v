(* C07 executable entry points: the SAME model functions (Spectral/Symbols.v, Nonlin/Terms.v with Nonlin/Conv.v) run on dual
   numbers over the Gaussian rationals, [DualOps CQ]: the eps-part is the exact derivative, compared by harness/props/c07.py
   with jax.jvp of the real code.
     701: linear symbol at one mode, differentiated with respect to the coefficients (direction = tangent coefficient list)
     702: nonlinear term on a band-limited spectrum, differentiated with respect to the state and the scale parameters *)
From Coq Require Import ZArith QArith Qcanon List Bool.
From EXV Require Import Base.Scalar Base.FieldLemmas Base.Cplx Base.Dual Exec.Codec.
From EXV Require Import Spectral.Symbols Layout.Freq Nonlin.Conv Nonlin.Terms.
Import ListNotations.
Local Open Scope Z_scope.

Definition DCQ : Ops := DualOps CQ.
Definition dcr (q t : Q) : DCQ := mkdual (cr q) (cr t).              (* real value, real tangent *)
Definition dk (x : CQ) : DCQ := dconst x.                            (* constant *)
Definition put_dual (l : list DCQ) : list Q := flat_map (fun d => put_cx [val d; eps d]) l.
Fixpoint take_dual (v t : list CQ) : list DCQ :=
  match v, t with x :: v', y :: t' => mkdual x y :: take_dual v' t' | _, _ => [] end.
Fixpoint lookupD (l : list (list Z * DCQ)) (k : list Z) : DCQ :=
  match l with [] => dzero CQ | (j, v) :: r => if idx_eqb j k then v else lookupD r k end.

(* args: cls D s k_1..k_D np p_1..p_np t_1..t_np   (parameters as in run_sym of Exec/Entry.v; t = tangent of each parameter,
   0 for flags / channel selectors).  Output: value (re, im), derivative (re, im). *)
Definition run_dsym (a : list Q) : list Q :=
  let cls := qz (getq a 0) in let D := qn (getq a 1) in
  let s := cr (getq a 2) in
  let k := map qz (firstn D (skipn 3 a)) in
  let np := qn (getq a (3 + D)) in
  let p := firstn np (skipn (4 + D) a) in
  let t := firstn np (skipn (4 + D + np) a) in
  let d : list DCQ := map dk (dop CQ ciQ s k) in
  let pd : list DCQ := map2 dcr p t in
  let g i : DCQ := nth i pd (dzero CQ) in
  let b i := qb (getq p i) in
  let rows (l : list DCQ) := chunks D D l in
  put_dual [
    match cls with
    | 1 => sym_advection DCQ (firstn D pd) d
    | 2 => sym_diffusion DCQ (rows pd) d
    | 3 => sym_advection_diffusion DCQ (firstn D pd) (rows (skipn D pd)) d
    | 4 => sym_dispersion DCQ (b 0%nat) (firstn D (skipn 1 pd)) d
    | 5 => sym_hyper_diffusion DCQ (b 0%nat) (g 1%nat) d
    | 6 => sym_burgers DCQ (g 0%nat) d
    | 7 => sym_kdv DCQ (b 0%nat) (b 1%nat) (g 2%nat) (g 3%nat) (g 4%nat) d
    | 8 => sym_ks DCQ (g 0%nat) (g 1%nat) d
    | 9 => sym_navier_stokes DCQ (g 0%nat) (g 1%nat) d
    | 10 => sym_allen_cahn DCQ (g 0%nat) (g 1%nat) d
    | 11 => sym_fisher DCQ (g 0%nat) (g 1%nat) d
    | 12 => sym_cahn_hilliard DCQ (g 0%nat) (g 1%nat) (g 2%nat) d
    | 13 => sym_gray_scott DCQ (g 0%nat) (g 1%nat) (qn (getq p 2)) d
    | 14 => sym_swift_hohenberg DCQ (g 0%nat) (g 1%nat) d
    | _ => poly_sym DCQ pd d
    end ].

(* args: term D N Kc unused s np params.. tparams.. nchan values.. tvalues..
   (values / tvalues: per channel, one (re, im) per band index in bandD order; as run_term of Exec/Entry.v plus tangents).
   Output: per output channel and band index: value (re, im), derivative (re, im). *)
Definition run_dterm (a : list Q) : list Q :=
  let term := qz (getq a 0) in let D := qn (getq a 1) in let N := qz (getq a 2) in
  let Kc := qz (getq a 3) in
  let s := dk (cr (getq a 5)) in
  let np := qn (getq a 6) in
  let ps := firstn np (skipn 7 a) in
  let ts := firstn np (skipn (7 + np) a) in
  let rest := skipn (7 + np + np) a in
  let nch := qn (getq rest 0) in
  let band := bandD D Kc in
  let nb := length band in
  let vals := take_cx (firstn (2 * nb * nch) (skipn 1 rest)) in
  let tans := take_cx (skipn (1 + 2 * nb * nch) rest) in
  let chans : list (field DCQ) :=
    map (fun vt => lookupD (combine band vt)) (chunks nb nch (take_dual vals tans)) in
  let pd : list DCQ := map2 dcr ps ts in
  let g i : DCQ := nth i pd (dzero CQ) in
  let ii := dk ciQ in
  let M := msk DCQ Kc in
  let P2 := prod2 DCQ D N Kc in
  let P3 := prod3 DCQ D N Kc in
  let ND := @fpow DCQ (dk (cq_of_z N)) D in
  let ch i := nth i chans (fzero DCQ) in
  let outs : list (field DCQ) :=
    match term with
    | 1 => conv_mc_cons DCQ P2 ii s D (g 0%nat) chans
    | 2 => conv_mc_noncons DCQ P2 ii s D (g 0%nat) chans
    | 3 => [conv_sc_cons DCQ P2 ii s D (g 0%nat) (ch 0%nat)]
    | 4 => [conv_sc_noncons DCQ P2 ii s D (g 0%nat) (ch 0%nat)]
    | 5 => [gradient_norm DCQ P2 ii s D (g 0%nat) (qb (getq ps 1)) (ch 0%nat)]
    | 6 => [polynomial DCQ M P2 P3 ND (g 0%nat) (g 1%nat) (g 2%nat) (g 3%nat) (ch 0%nat)]
    | 7 => [general_nonlinear DCQ M P2 P3 ii s D ND (g 0%nat) (g 1%nat) (g 2%nat) (qb (getq ps 3)) (ch 0%nat)]
    | 8 => [vorticity_conv DCQ P2 ii s D (g 0%nat) (ch 0%nat)]
    | 9 => projected_conv DCQ P2 ii s D chans
    | 10 => [cahn_hilliard DCQ P3 ii s D (g 0%nat) (ch 0%nat)]
    | 11 => gray_scott DCQ M P3 ND (g 0%nat) (g 1%nat) (ch 0%nat) (ch 1%nat)
    | 12 => leray DCQ ii s D chans
    | _ => []
    end in
  put_dual (flat_map (fun f => map f band) outs).

Definition run_c07 (sub : Z) (a : list Q) : list Q :=
  match sub with
  | 1 => run_dsym a
  | 2 => run_dterm a
  | _ => []
  end.
