(* Encoding helpers for the executable entry points (lists of rationals in, lists out). *)
From Coq Require Import ZArith QArith Qcanon List Bool.
From EXV Require Import Base.Scalar Base.FieldLemmas Base.Cplx.
Import ListNotations.

Definition qz (q : Q) : Z := Qnum q.                (* integers are sent as n/1 *)
Definition zq (z : Z) : Q := z # 1.
Definition qn (q : Q) : nat := Z.to_nat (Qnum q).
Definition nq (n : nat) : Q := Z.of_nat n # 1.
Definition qb (q : Q) : bool := negb (Z.eqb (Qnum q) 0).
Definition bq (b : bool) : Q := if b then 1 else 0.
Definition qqc (q : Q) : Qc := Q2Qc q.
Definition qcq (q : Qc) : Q := this q.

Definition CQ : Ops := COps QcOps.
Fixpoint take_cx (l : list Q) : list CQ :=
  match l with
  | a :: b :: r => mkcx (qqc a) (qqc b) :: take_cx r
  | _ => []
  end.
Fixpoint put_cx (l : list CQ) : list Q :=
  match l with
  | [] => []
  | z :: r => qcq (re z) :: qcq (im z) :: put_cx r
  end.
Definition getq (l : list Q) (i : nat) : Q := nth i l 0.
