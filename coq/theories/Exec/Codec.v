(* Encoding helpers for the executable entry points (lists of rationals in, lists out). *)
From Coq Require Import ZArith QArith Qcanon List Bool.
From EXV Require Import Base.Scalar Base.FieldLemmas Base.Cplx.
Import ListNotations.

Definition qz (q : Q) : Z := Qnum q.                (* integers are sent as n/1 *)
Definition zq (z : Z) : Q := z # 1.
Definition qn (q : Q) : nat := Z.to_nat (Qnum q).
Definition nq (n : nat) : Q := Z.of_nat n # 1.
Definition qb (q : Q) : bool := negb (Z.eqb (Qnum q) 0).
Definition bq (b : bool) : Q := if b then 1 else 0.
Definition qqc (q : Q) : Qc := Q2Qc q.
Definition qcq (q : Qc) : Q := this q.

Definition CQ : Ops := COps QcOps.
Fixpoint take_cx (l : list Q) : list CQ :=
  match l with
  | a :: b :: r => mkcx (qqc a) (qqc b) :: take_cx r
  | _ => []
  end.
Fixpoint put_cx (l : list CQ) : list Q :=
  match l with
  | [] => []
  | z :: r => qcq (re z) :: qcq (im z) :: put_cx r
  end.
Definition getq (l : list Q) (i : nat) : Q := nth i l 0.

(* ---- helpers shared by the per-property entry points ---- *)
Definition optl (o : option (list Q)) : list Q := match o with None => [0%Q] | Some l => 1%Q :: l end.

Definition cq_of_z (z : Z) : CQ := mkcx (qqc (zq z)) (qqc 0).

Definition vec (l : list CQ) : nat -> CQ := fun k => nth k l (c0 QcOps).

Fixpoint chunks {A} (n : nat) (m : nat) (l : list A) : list (list A) :=
  match m with O => [] | S m' => firstn n l :: chunks n m' (skipn n l) end.

Definition zs (l : list Q) : list Z := map qz l.

Definition cr (q : Q) : CQ := mkcx (qqc q) (qqc 0).          (* real number as a complex *)
Definition crs (l : list Q) : list CQ := map cr l.
Definition ciQ : CQ := @ci QcOps.

Definition qcs (l : list Q) : list QcOps := map qqc l.
Definition unqcs (l : list QcOps) : list Q := map qcq l.

Fixpoint idx_eqb (a b : list Z) : bool :=
  match a, b with [], [] => true | x :: a', y :: b' => Z.eqb x y && idx_eqb a' b' | _, _ => false end.
Fixpoint lookup (l : list (list Z * CQ)) (k : list Z) : CQ :=
  match l with [] => c0 QcOps | (j, v) :: r => if idx_eqb j k then v else lookup r k end.

