(* Executable entry points of C19 (ids 1901..1904); exact Gaussian rationals. *)
From Coq Require Import ZArith QArith Qcanon List Bool.
From EXV Require Import Base.Scalar Base.FieldLemmas Base.Cplx Exec.Codec ETDRK.Contour Gen.ETDRK.
Import ListNotations.
Local Open Scope Z_scope.

(* numerator form of the closed forms (ETDRK/Contour.v): (numerator, m) of coefficient j of order p *)
Definition num_form (p j : Z) (lr e eh : CQ) : CQ * nat :=
  match p, j with
  | 1, 1 => (num_e1 CQ lr e, 1%nat)
  | 2, 1 => (num_e1 CQ lr e, 1%nat) | 2, 2 => (num_e2 CQ lr e, 2%nat)
  | 3, 1 => (num_e1 CQ lr eh, 1%nat) | 3, 2 => (num_e1 CQ lr e, 1%nat) | 3, 3 => (num_a3 CQ lr e, 3%nat)
  | 3, 4 => (@omul CQ (cq_of_z 4) (num_b3 CQ lr e), 3%nat) | 3, 5 => (num_c3 CQ lr e, 3%nat)
  | 4, 1 => (num_e1 CQ lr eh, 1%nat) | 4, 2 => (num_e1 CQ lr eh, 1%nat) | 4, 3 => (num_e1 CQ lr eh, 1%nat)
  | 4, 4 => (num_a3 CQ lr e, 3%nat) | 4, 5 => (num_b3 CQ lr e, 3%nat) | 4, 6 => (num_c3 CQ lr e, 3%nat)
  | _, _ => (c0 QcOps, 0%nat)
  end.

(* position of coefficient (p, j) in [all_integrands] *)
Definition integrand_index (p j : Z) : nat :=
  Z.to_nat (match p, j with
  | 1, 1 => 0 | 2, 1 => 1 | 2, 2 => 2 | 3, 1 => 3 | 3, 2 => 4 | 3, 3 => 5 | 3, 4 => 6 | 3, 5 => 7
  | 4, 1 => 8 | 4, 2 => 9 | 4, 3 => 10 | 4, 4 => 11 | 4, 5 => 12 | 4, 6 => 13 | _, _ => 14
  end).

(* forced test nonlinearity on vectors of length n: N(u)_k = f_k + u_k^2 + u_{(k+1) mod n} *)
Definition test_nl_f (n : nat) (f : nat -> CQ) (u : nat -> CQ) : nat -> CQ :=
  fun k => @oadd CQ (f k) (@oadd CQ (@omul CQ (u k) (u k)) (u (Nat.modulo (S k) n))).

Definition run_c19 (sub : Z) (a : list Q) : list Q :=
  match sub with
  | 1 => (* p j dt_re dt_im lr e eh : dt * numerator * (1/lr)^m *)
      let p := qz (getq a 0) in let j := qz (getq a 1) in
      let dt := mkcx (qqc (getq a 2)) (qqc (getq a 3)) in
      match take_cx (skipn 4 a) with
      | lr :: e :: eh :: _ =>
          let nm := num_form p j lr e eh in
          put_cx [@omul CQ dt (@omul CQ (fst nm) (inv_pow CQ lr (snd nm)))]
      | _ => []
      end
  | 2 => (* zero state with forcing: p n arrays(E, Eh, c1..c6 as far as the order has them, then f) *)
      let p := qz (getq a 0) in let n := qn (getq a 1) in
      let arrs := chunks n 10 (take_cx (skipn 2 a)) in
      let g i := vec (nth i arrs []) in
      let out :=
        match p with
        | 1 => let f := g 2%nat in forced1 CQ (g 1%nat) f
        | 2 => let f := g 3%nat in forced2 CQ (g 1%nat) (g 2%nat) f (test_nl_f n f)
        | 3 => let f := g 7%nat in forced3 CQ (g 2%nat) (g 3%nat) (g 4%nat) (g 5%nat) (g 6%nat) f (test_nl_f n f)
        | 4 => let f := g 8%nat in
               forced4 CQ (g 1%nat) (g 2%nat) (g 3%nat) (g 4%nat) (g 5%nat) (g 6%nat) (g 7%nat) f (test_nl_f n f)
        | _ => fun _ => c0 QcOps
        end in
      put_cx (map out (seq 0 n))
  | 3 => (* p j lr e eh : the generated integrand run with partial division; [defined; re; im] *)
      let p := qz (getq a 0) in let j := qz (getq a 1) in
      match take_cx (skipn 2 a) with
      | lr :: e :: eh :: _ =>
          let g := nth (integrand_index p j) (all_integrands (OptOps CQ)) (fun _ _ _ => None) in
          match g (Some lr) (Some e) (Some eh) with
          | Some v => 1%Q :: put_cx [v]
          | None => [0%Q]
          end
      | _ => []
      end
  | 4 => (* j M pi : the exponent of the j-th contour point, root_arg i pi j M *)
      put_cx [root_arg CQ ciQ (cr (getq a 2)) (cr (getq a 0)) (cr (getq a 1))]
  | _ => []
  end.
