(* Single executable entry point: [run id args].  The correspondence harness sends the same
   inputs to this function (extracted to OCaml) and to the JAX implementation. *)
From Coq Require Import ZArith QArith Qcanon List Bool.
From EXV Require Import Base.Scalar Base.FieldLemmas Base.Cplx Exec.Codec.
From EXV Require Import Exec.EntryC19.
From EXV Require Import Exec.EntryC07.
From EXV Require Import Exec.EntryC06.
From EXV Require Import Exec.EntryC18.
From EXV Require Import Exec.EntryC16.
From EXV Require Import Utils.Rollout Gen.ETDRK Gen.Guards Spectral.Symbols Gen.GenericUtils Steppers.Linear Layout.Freq Nonlin.Conv Nonlin.Terms Spectral.Operators Nonlin.Injection Spectral.Spectrum Layout.Resample.
Import ListNotations.
Local Open Scope Z_scope.

(* ---- C14: bookkeeping steppers over Z ---- *)
Definition aff (a b : Z) (u : Z) : Z := a * u + b.
Definition affx (a : Z) (u x : Z) : Z := a * u + x.
Definition pairf (uv : Z * Z) : Z * Z := (fst uv + snd uv, 2 * snd uv + 1).

Definition run_c14 (sub : Z) (a : list Q) : list Q :=
  match sub with
  | 1 => (* rollout: n include_init a b u0 *)
      map zq (rollout (aff (qz (getq a 2)) (qz (getq a 3))) (qn (getq a 0)) (qb (getq a 1)) (qz (getq a 4)))
  | 2 => (* repeat: n a b u0 *)
      [zq (repeat_fn (aff (qz (getq a 1)) (qz (getq a 2))) (qn (getq a 0)) (qz (getq a 3)))]
  | 3 => (* rollout_aux: n include_init constant_aux a u0 aux... *)
      let n := qn (getq a 0) in let ca := qb (getq a 2) in
      let aux := map qz (skipn 5 a) in
      let arg := if ca then AuxConst (hd 0 aux) else AuxSeq aux in
      optl (option_map (map zq)
              (rollout_aux (affx (qz (getq a 3))) n (qb (getq a 1)) ca (qz (getq a 4)) arg))
  | 4 => (* repeat_aux: n constant_aux a u0 aux... *)
      let n := qn (getq a 0) in let ca := qb (getq a 1) in
      let aux := map qz (skipn 4 a) in
      let arg := if ca then AuxConst (hd 0 aux) else AuxSeq aux in
      optl (option_map (fun r => [zq r]) (repeat_aux (affx (qz (getq a 2))) n ca (qz (getq a 3)) arg))
  | 5 => (* stack_sub: sub_len trj... *)
      optl (option_map (fun ws => nq (length ws) :: map zq (concat ws))
              (stack_sub (map qz (skipn 1 a)) (qn (getq a 0))))
  | 6 => (* rollout on a pair-valued (pytree) state: n include_init u0 v0 *)
      flat_map (fun uv => [zq (fst uv); zq (snd uv)])
        (rollout pairf (qn (getq a 0)) (qb (getq a 1)) (qz (getq a 2), qz (getq a 3)))
  | 7 => (* stack_sub_tree with two leaves: sub_len len1 leaf1... leaf2... *)
      let m := qn (getq a 0) in let l1 := qn (getq a 1) in
      let leaf1 := map qz (firstn l1 (skipn 2 a)) in let leaf2 := map qz (skipn (2 + l1) a) in
      optl (option_map (fun ws => flat_map (fun w => nq (length w) :: map zq (concat w)) ws)
              (stack_sub_tree [leaf1; leaf2] m))
  | _ => []
  end.

(* ---- C02: ETDRK coefficients and stage programs over the Gaussian rationals ---- *)
Definition sel_integrand (p j : Z) : CQ -> CQ -> CQ -> CQ :=
  match p, j with
  | 1, 1 => etdrk1_integrand_1 CQ
  | 2, 1 => etdrk2_integrand_1 CQ | 2, 2 => etdrk2_integrand_2 CQ
  | 3, 1 => etdrk3_integrand_1 CQ | 3, 2 => etdrk3_integrand_2 CQ | 3, 3 => etdrk3_integrand_3 CQ
  | 3, 4 => etdrk3_integrand_4 CQ | 3, 5 => etdrk3_integrand_5 CQ
  | 4, 1 => etdrk4_integrand_1 CQ | 4, 2 => etdrk4_integrand_2 CQ | 4, 3 => etdrk4_integrand_3 CQ
  | 4, 4 => etdrk4_integrand_4 CQ | 4, 5 => etdrk4_integrand_5 CQ | 4, 6 => etdrk4_integrand_6 CQ
  | _, _ => fun _ _ _ => c0 QcOps
  end.

Fixpoint triples (l : list CQ) : list (CQ * CQ * CQ) :=
  match l with
  | a :: b :: c :: r => (a, b, c) :: triples r
  | _ => []
  end.


(* dt * (1/M) * sum_j integrand (lr_j, e_j, eh_j) *)
Definition contour_coef (p j : Z) (dt : CQ) (pts : list (CQ * CQ * CQ)) : CQ :=
  let f := sel_integrand p j in
  let s := @fsum CQ (map (fun t => f (fst (fst t)) (snd (fst t)) (snd t)) pts) in
  @omul CQ dt (@odiv CQ s (cq_of_z (Z.of_nat (length pts)))).

(* test nonlinearity on vectors of length n: N(u)_k = u_k^2 + u_{(k+1) mod n} *)
Definition test_nl (n : nat) (u : nat -> CQ) : nat -> CQ :=
  fun k => @oadd CQ (@omul CQ (u k) (u k)) (u (Nat.modulo (S k) n)).


Definition run_c02 (sub : Z) (a : list Q) : list Q :=
  match sub with
  | 1 => (* p j dt_re dt_im pts... *)
      let p := qz (getq a 0) in let j := qz (getq a 1) in
      let dt := mkcx (qqc (getq a 2)) (qqc (getq a 3)) in
      put_cx [contour_coef p j dt (triples (take_cx (skipn 4 a)))]
  | 2 => (* p n arrays... *)
      let p := qz (getq a 0) in let n := qn (getq a 1) in
      let arrs := chunks n 10 (take_cx (skipn 2 a)) in
      let g i := vec (nth i arrs []) in
      let out :=
        match p with
        | 0 => etdrk0_step CQ (g 0%nat) (g 1%nat)
        | 1 => etdrk1_step CQ (g 0%nat) (g 1%nat) (test_nl n) (g 2%nat)
        | 2 => etdrk2_step CQ (g 0%nat) (g 1%nat) (g 2%nat) (test_nl n) (g 3%nat)
        | 3 => etdrk3_step CQ (g 0%nat) (g 1%nat) (g 2%nat) (g 3%nat) (g 4%nat) (g 5%nat) (g 6%nat) (test_nl n) (g 7%nat)
        | 4 => etdrk4_step CQ (g 0%nat) (g 1%nat) (g 2%nat) (g 3%nat) (g 4%nat) (g 5%nat) (g 6%nat) (g 7%nat) (test_nl n) (g 8%nat)
        | _ => fun _ => c0 QcOps
        end in
      put_cx (map out (seq 0 n))
  | 3 => (* order dispatch *)
      match order_dispatch (qz (getq a 0)) with None => [(-1)%Q] | Some c => [nq c] end
  | _ => []
  end.

(* ---- C20: rejection guards (Gen/Guards.v) ---- *)
Definition run_c20 (sub : Z) (a : list Q) : list Q :=
  let z i := qz (getq a i) in let b i := qb (getq a i) in
  let r (x : bool) := [bq x] in
  match sub with
  | 1 => r (base_call_raises (z 0%nat) (z 1%nat) (z 2%nat) (zs (skipn 3 a)))
  | 2 => r (repeated_call_raises (z 0%nat) (z 1%nat) (z 2%nat) (zs (skipn 3 a)))
  | 3 => r (poisson_call_raises (z 0%nat) (z 1%nat) (zs (skipn 2 a)))
  | 4 => r (laplace_order_raises (z 0%nat))
  | 5 => r (gip_raises (z 0%nat) (z 1%nat) (zs (skipn 2 a)))
  | 6 => r (make_incompressible_raises (zs a))
  | 7 => r (ifft_raises (z 0%nat) (b 1%nat) (b 2%nat) (zs (skipn 3 a)))
  | 8 => r (ic_options_raise (b 0%nat) (b 1%nat) (b 2%nat))
  | 9 => r (spatial_norm_raises (b 0%nat) (z 1%nat))
  | 10 => r (fourier_norm_raises (b 0%nat) (z 1%nat))
  | 11 => r (general_nonlin_raises (z 0%nat))
  | 12 => r (general_nonlin_stepper_raises (z 0%nat))
  | 13 => let D := z 1%nat in
          r (match z 0%nat with
             | 0 => ns_vorticity_raises D | 1 => kolmogorov_vorticity_raises D | 2 => general_vorticity_raises D
             | 3 => vorticity_conv_raises D | 4 => ns_velocity_raises D | 5 => kolmogorov_velocity_raises D
             | _ => projected_conv_raises D end)
  | 14 => let D := z 1%nat in let sh := zs (skipn 2 a) in
          r (match z 0%nat with
             | 0 => convection_cons_raises D sh | 1 => convection_noncons_raises D sh | _ => gray_scott_raises sh end)
  | 15 => r (random_sine_raises (z 0%nat) (b 1%nat) (b 2%nat) (b 3%nat))
  | 16 => r (stack_sub_raises (z 0%nat) (zs (skipn 1 a)))
  | _ => []
  end.

(* ---- C01/C13: linear symbols at one mode, conversion functions ---- *)
(* args: cls D s k_1..k_D params... *)
Definition run_sym (a : list Q) : list Q :=
  let cls := qz (getq a 0) in let D := qn (getq a 1) in
  let s := cr (getq a 2) in
  let k := map qz (firstn D (skipn 3 a)) in
  let p := skipn (3 + D) a in
  let d := dop CQ ciQ s k in
  let g i := cr (getq p i) in
  let b i := qb (getq p i) in
  let rows (l : list Q) := map crs (chunks D D l) in
  put_cx [
    match cls with
    | 1 => sym_advection CQ (crs (firstn D p)) d
    | 2 => sym_diffusion CQ (rows p) d
    | 3 => sym_advection_diffusion CQ (crs (firstn D p)) (rows (skipn D p)) d
    | 4 => sym_dispersion CQ (b 0%nat) (crs (firstn D (skipn 1 p))) d
    | 5 => sym_hyper_diffusion CQ (b 0%nat) (g 1%nat) d
    | 6 => sym_burgers CQ (g 0%nat) d
    | 7 => sym_kdv CQ (b 0%nat) (b 1%nat) (g 2%nat) (g 3%nat) (g 4%nat) d
    | 8 => sym_ks CQ (g 0%nat) (g 1%nat) d
    | 9 => sym_navier_stokes CQ (g 0%nat) (g 1%nat) d
    | 10 => sym_allen_cahn CQ (g 0%nat) (g 1%nat) d
    | 11 => sym_fisher CQ (g 0%nat) (g 1%nat) d
    | 12 => sym_cahn_hilliard CQ (g 0%nat) (g 1%nat) (g 2%nat) d
    | 13 => sym_gray_scott CQ (g 0%nat) (g 1%nat) (qn (getq p 2)) d
    | 14 => sym_swift_hohenberg CQ (g 0%nat) (g 1%nat) d
    | 20 => laplace_sym CQ (qn (getq p 0)) d
    | 21 => gip_sym CQ (crs (skipn 1 p)) (qn (getq p 0)) d
    | _ => poly_sym CQ (crs p) d
    end ].

(* wave mode: s c rho dt Ep(re,im) Em(re,im) is_dc h(re,im) v(re,im) *)
Definition run_wave (a : list Q) : list Q :=
  let g i := cr (getq a i) in
  let cx i := mkcx (qqc (getq a i)) (qqc (getq a (S i))) : CQ in
  let r := wave_mode CQ ciQ (g 0%nat) (g 1%nat) (g 2%nat) (g 3%nat) (cx 4%nat) (cx 6%nat) (qb (getq a 8)) (cx 9%nat) (cx 11%nat) in
  put_cx [fst r; snd r].

(* args: fid x y [z] payload...  (scalars first: L dt  or  D N [M]) *)
Definition run_conv (a : list Q) : list Q :=
  let fid := qz (getq a 0) in
  let x := qqc (getq a 1) in let y := qqc (getq a 2) in let z := qqc (getq a 3) in
  let l2 := qcs (skipn 3 a) in let l3 := qcs (skipn 4 a) in
  let s2 := qqc (getq a 3) in let s3 := qqc (getq a 4) in
  match fid with
  | 1 => unqcs (normalize_coefficients QcOps x y l2)
  | 2 => unqcs (denormalize_coefficients QcOps x y l2)
  | 3 => [qcq (normalize_convection_scale QcOps x y s2)]
  | 4 => [qcq (denormalize_convection_scale QcOps x y s2)]
  | 5 => [qcq (normalize_gradient_norm_scale QcOps x y s2)]
  | 6 => [qcq (denormalize_gradient_norm_scale QcOps x y s2)]
  | 7 => unqcs (normalize_polynomial_scales QcOps x y l2)
  | 8 => unqcs (denormalize_polynomial_scales QcOps x y l2)
  | 9 => unqcs (reduce_normalized_coefficients_to_difficulty QcOps x y l2)
  | 10 => unqcs (extract_normalized_coefficients_from_difficulty QcOps x y l2)
  | 11 => [qcq (reduce_normalized_convection_scale_to_difficulty QcOps x y z s3)]
  | 12 => [qcq (extract_normalized_convection_scale_from_difficulty QcOps x y z s3)]
  | 13 => [qcq (reduce_normalized_gradient_norm_scale_to_difficulty QcOps x y z s3)]
  | 14 => [qcq (extract_normalized_gradient_norm_scale_from_difficulty QcOps x y z s3)]
  | 15 => unqcs (reduce_normalized_nonlinear_scales_to_difficulty QcOps x y z l3)
  | 16 => unqcs (extract_normalized_nonlinear_scales_from_difficulty QcOps x y z l3)
  | _ => []
  end.

(* ---- C04: integer layout ---- *)
Definition run_c04 (sub : Z) (a : list Q) : list Q :=
  let z i := qz (getq a i) in let b i := qb (getq a i) in let n i := qn (getq a i) in
  match sub with
  | 1 => [zq (wavenumber (b 0%nat) (n 1%nat) (z 2%nat) (n 3%nat) (zs (skipn 4 a)))]
  | 2 => [zq (wn_axis_len (b 0%nat) (n 1%nat) (z 2%nat) (n 3%nat))]
  | 3 => [bq ((if b 0%nat then low_pass_radial else low_pass_axis) (n 1%nat) (z 2%nat) (z 3%nat) (zs (skipn 4 a)))]
  | 4 => [bq (oddball_mask (n 0%nat) (z 1%nat) (zs (skipn 2 a)))]
  | 5 => let dd := mode_denoms (z 2%nat) in [zq (scaling_halvings (n 0%nat) (z 1%nat) (fst dd) (snd dd) (zs (skipn 3 a)))]
  | 6 => [bq (match z 2%nat with 0 => in_left (z 0%nat) (z 1%nat) (z 3%nat) | 1 => in_right (z 0%nat) (z 1%nat) (z 3%nat)
               | _ => in_last (z 0%nat) (z 1%nat) (z 3%nat) end)]
  | 7 => [zq (wrap_index (z 0%nat) (z 1%nat))]
  | 8 => [bq (dealias_keeps (z 0%nat) (z 1%nat) (z 2%nat) (z 3%nat)); zq (dealias_K (z 0%nat) (z 1%nat) (z 2%nat))]
  | 9 => map zq (wavenumber_shape (n 0%nat) (z 1%nat))
  | 10 => [bq (resample_keeps (z 0%nat) (z 1%nat) (b 2%nat) (zs (skipn 3 a)))]
  | _ => []
  end.

(* ---- C03: nonlinear terms on sparse band-limited spectra over the Gaussian rationals ---- *)
(* args: term D N Kc unused s nparams params... nchan values...   (values: per channel, one (re, im) per band index in bandD order);
   Kc is the retained band of the implementation's mask; the harness checks Kc <= dealias_K p q N (premise of the alias-free theorems) *)
Definition run_term (a : list Q) : list Q :=
  let term := qz (getq a 0) in let D := qn (getq a 1) in let N := qz (getq a 2) in
  let Kc := qz (getq a 3) in
  let s := cr (getq a 5) in
  let np := qn (getq a 6) in
  let ps := firstn np (skipn 7 a) in
  let rest := skipn (7 + np) a in
  let nch := qn (getq rest 0) in
  let band := bandD D Kc in
  let nb := length band in
  let chans := map (fun vs => lookup (combine band vs)) (chunks nb nch (take_cx (skipn 1 rest))) in
  let g i := cr (getq ps i) in
  let M := msk CQ Kc in
  let P2 := prod2 CQ D N Kc in
  let P3 := prod3 CQ D N Kc in
  let ND := @fpow CQ (cq_of_z N) D in
  let ch i := nth i chans (fzero CQ) in
  let outs : list (field CQ) :=
    match term with
    | 1 => conv_mc_cons CQ P2 ciQ s D (g 0%nat) chans
    | 2 => conv_mc_noncons CQ P2 ciQ s D (g 0%nat) chans
    | 3 => [conv_sc_cons CQ P2 ciQ s D (g 0%nat) (ch 0%nat)]
    | 4 => [conv_sc_noncons CQ P2 ciQ s D (g 0%nat) (ch 0%nat)]
    | 5 => [gradient_norm CQ P2 ciQ s D (g 0%nat) (qb (getq ps 1)) (ch 0%nat)]
    | 6 => [polynomial CQ M P2 P3 ND (g 0%nat) (g 1%nat) (g 2%nat) (g 3%nat) (ch 0%nat)]
    | 7 => [general_nonlinear CQ M P2 P3 ciQ s D ND (g 0%nat) (g 1%nat) (g 2%nat) (qb (getq ps 3)) (ch 0%nat)]
    | 8 => [vorticity_conv CQ P2 ciQ s D (g 0%nat) (ch 0%nat)]
    | 9 => projected_conv CQ P2 ciQ s D chans
    | 10 => [cahn_hilliard CQ P3 ciQ s D (g 0%nat) (ch 0%nat)]
    | 11 => gray_scott CQ M P3 ND (g 0%nat) (g 1%nat) (ch 0%nat) (ch 1%nat)
    | 12 => leray CQ ciQ s D chans
    | _ => []
    end in
  put_cx (flat_map (fun f => map f band) outs).

(* ---- C05 / C10: Poisson, derivative, Leray and make_incompressible at one mode ---- *)
Definition run_ops (sub : Z) (a : list Q) : list Q :=
  let cxa i := mkcx (qqc (getq a i)) (qqc (getq a (S i))) : CQ in
  match sub with
  | 1 => put_cx [poisson_mode CQ (cxa 0%nat) (cxa 2%nat)]
  | 2 => (* which D s k... u(re,im)... *)
      let D := qn (getq a 1) in
      let d := dop CQ ciQ (cr (getq a 2)) (map qz (firstn D (skipn 3 a))) in
      let u := take_cx (skipn (3 + D) a) in
      put_cx (if qb (getq a 0) then make_incompressible_mode CQ d u else leray_mode CQ d u)
  | 3 => (* derivative: order D s k... u(re,im) *)
      let D := qn (getq a 1) in
      let d := dop CQ ciQ (cr (getq a 2)) (map qz (firstn D (skipn 3 a))) in
      put_cx (deriv_mode CQ (qn (getq a 0)) d (cxa (3 + D)%nat))
  | _ => []
  end.

(* ---- C12: Kolmogorov injection arrays ---- *)
Definition run_c12 (sub : Z) (a : list Q) : list Q :=
  match sub with
  | 1 => (* s gamma N kinj k0 k1 *)
      put_cx [injection2d CQ (cr (getq a 0)) (cr (getq a 1)) (qz (getq a 2)) (qz (getq a 3)) (zs (skipn 4 a))]
  | 2 => (* gamma N kinj channel k0 k1 k2 *)
      put_cx [injection3d CQ ciQ (cr (getq a 0)) (qz (getq a 1)) (qz (getq a 2)) (qn (getq a 3)) (zs (skipn 4 a))]
  | _ => []
  end.

(* ---- C17: radial spectrum.  args: D N power average nmodes then per stored mode: k_1..k_D |u_hat| ---- *)
Fixpoint take_modes (D : nat) (n : nat) (l : list Q) : list (list Z * QcOps) :=
  match n with
  | O => []
  | S m => (map qz (firstn D l), qqc (nth D l 0%Q)) :: take_modes D m (skipn (S D) l)
  end.
Definition run_c17 (sub : Z) (a : list Q) : list Q :=
  match sub with
  | 1 =>
      let D := qn (getq a 0) in let N := qz (getq a 1) in
      let power := qb (getq a 2) in let avg := qb (getq a 3) in let nm := qn (getq a 4) in
      let modes := take_modes D nm (skipn 5 a) in
      let ND := @fpow QcOps (qqc (zq N)) D in
      let qs := map (fun p => (fst p, (if power then power_q QcOps N ND (fst p) (snd p) else amplitude_q QcOps N ND (fst p) (snd p)))) modes in
      if (D =? 1)%nat then map (fun p => qcq (snd p)) qs
      else flat_map (fun b => let c := bin_count QcOps b qs in
                               [zq c; qcq (if avg then (if (c =? 0)%Z then 0%Qc else Qcdiv (bin_sum QcOps b qs) (qqc (zq c))) else bin_sum QcOps b qs)])
                    (map Z.of_nat (seq 0 (Z.to_nat (N / 2) + 1)))
  | 2 => [bq (in_bin (qz (getq a 0)) (zs (skipn 1 a)))]
  | _ => []
  end.

Definition run (id : Z) (a : list Q) : list Q :=
  let '(prop, sub) := Z.div_eucl id 100 in
  match prop with
  | 14 => run_c14 sub a
  | 2 => run_c02 sub a
  | 20 => run_c20 sub a
  | 4 => run_c04 sub a
  | 3 => match sub with 1 => run_term a | _ => [] end
  | 5 => run_ops sub a
  | 12 => run_c12 sub a
  | 17 => run_c17 sub a
  | 19 => run_c19 sub a
  | 7 => run_c07 sub a
  | 6 => run_c06 sub a
  | 18 => run_c18 sub a
  | 16 => run_c16 sub a
  | 1 => match sub with 1 => run_sym a | 2 => run_wave a | _ => [] end
  | 13 => match sub with 1 => run_conv a | _ => [] end
  | _ => []
  end.
