(* Single executable entry point: [run id args].  The correspondence harness sends the same
   inputs to this function (extracted to OCaml) and to the JAX implementation. *)
From Coq Require Import ZArith QArith Qcanon List Bool.
From EXV Require Import Base.Scalar Base.FieldLemmas Base.Cplx Exec.Codec.
From EXV Require Import Utils.Rollout.
Import ListNotations.
Local Open Scope Z_scope.

(* ---- C14: bookkeeping steppers over Z ---- *)
Definition aff (a b : Z) (u : Z) : Z := a * u + b.
Definition affx (a : Z) (u x : Z) : Z := a * u + x.
Definition pairf (uv : Z * Z) : Z * Z := (fst uv + snd uv, 2 * snd uv + 1).
Definition optl (o : option (list Q)) : list Q := match o with None => [0%Q] | Some l => 1%Q :: l end.

Definition run_c14 (sub : Z) (a : list Q) : list Q :=
  match sub with
  | 1 => (* rollout: n include_init a b u0 *)
      map zq (rollout (aff (qz (getq a 2)) (qz (getq a 3))) (qn (getq a 0)) (qb (getq a 1)) (qz (getq a 4)))
  | 2 => (* repeat: n a b u0 *)
      [zq (repeat_fn (aff (qz (getq a 1)) (qz (getq a 2))) (qn (getq a 0)) (qz (getq a 3)))]
  | 3 => (* rollout_aux: n include_init constant_aux a u0 aux... *)
      let n := qn (getq a 0) in let ca := qb (getq a 2) in
      let aux := map qz (skipn 5 a) in
      let arg := if ca then AuxConst (hd 0 aux) else AuxSeq aux in
      optl (option_map (map zq)
              (rollout_aux (affx (qz (getq a 3))) n (qb (getq a 1)) ca (qz (getq a 4)) arg))
  | 4 => (* repeat_aux: n constant_aux a u0 aux... *)
      let n := qn (getq a 0) in let ca := qb (getq a 1) in
      let aux := map qz (skipn 4 a) in
      let arg := if ca then AuxConst (hd 0 aux) else AuxSeq aux in
      optl (option_map (fun r => [zq r]) (repeat_aux (affx (qz (getq a 2))) n ca (qz (getq a 3)) arg))
  | 5 => (* stack_sub: sub_len trj... *)
      optl (option_map (fun ws => nq (length ws) :: map zq (concat ws))
              (stack_sub (map qz (skipn 1 a)) (qn (getq a 0))))
  | 6 => (* rollout on a pair-valued (pytree) state: n include_init u0 v0 *)
      flat_map (fun uv => [zq (fst uv); zq (snd uv)])
        (rollout pairf (qn (getq a 0)) (qb (getq a 1)) (qz (getq a 2), qz (getq a 3)))
  | 7 => (* stack_sub_tree with two leaves: sub_len len1 leaf1... leaf2... *)
      let m := qn (getq a 0) in let l1 := qn (getq a 1) in
      let leaf1 := map qz (firstn l1 (skipn 2 a)) in let leaf2 := map qz (skipn (2 + l1) a) in
      optl (option_map (fun ws => flat_map (fun w => nq (length w) :: map zq (concat w)) ws)
              (stack_sub_tree [leaf1; leaf2] m))
  | _ => []
  end.

Definition run (id : Z) (a : list Q) : list Q :=
  let '(prop, sub) := Z.div_eucl id 100 in
  match prop with
  | 14 => run_c14 sub a
  | _ => []
  end.
