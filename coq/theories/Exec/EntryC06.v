(* Executable entry points for C06: the combinators of Utils/Combinators.v on integer bookkeeping steppers
   f u = a*u + b (and the family f_p u = p*u + b), so that the extracted model and jax.vmap / jax.jit / exponax.rollout /
   exponax.repeat can be compared exactly. *)
From Coq Require Import ZArith QArith List Bool.
From EXV Require Import Exec.Codec Utils.Rollout Utils.Combinators.
Import ListNotations.
Local Open Scope Z_scope.

Definition aff6 (a b : Z) (u : Z) : Z := a * u + b.
Definition flatz (m : list (list Z)) : list Q := map zq (concat m).

Definition run_c06 (sub : Z) (a : list Q) : list Q :=
  let n := qn (getq a 0) in let inc := qb (getq a 1) in
  let ca := qz (getq a 2) in let cb := qz (getq a 3) in
  let B := qn (getq a 4) in
  let rest := map qz (skipn 5 a) in
  match sub with
  | 1 => (* n inc a b B us...: vmap (rollout f n inc), batch-major *)
      flatz (vmap (rollout (aff6 ca cb) n inc) (firstn B rest))
  | 2 => (* the same through rollout (vmap f), transposed *)
      flatz (transpose B (rollout (vmap (aff6 ca cb)) n inc (firstn B rest)))
  | 3 => (* rollout (vmap f), time-major *)
      flatz (rollout (vmap (aff6 ca cb)) n inc (firstn B rest))
  | 4 => (* n inc _ b B ps... us...: family, batch-major *)
      let ps := firstn B rest in let us := firstn B (skipn B rest) in
      flatz (vmap2 (fun p u => rollout (aff6 p cb) n inc u) ps us)
  | 5 => (* family rolled out as one batched stepper, time-major *)
      let ps := firstn B rest in let us := firstn B (skipn B rest) in
      flatz (rollout (vmap2 (fun p => aff6 p cb) ps) n inc us)
  | 6 => map zq (vmap (repeat_fn (aff6 ca cb) n) (firstn B rest))
  | 7 => map zq (repeat_fn (vmap (aff6 ca cb)) n (firstn B rest))
  | 8 => (* n=index inc=unused a b B us... x : vmap f (upd i x us) *)
      map zq (vmap (aff6 ca cb) (upd n (nth B rest 0) (firstn B rest)))
  | _ => []
  end.
