(* Executable entry points of C18 (ids 1800 + sub): the model of IC/Normalize.v over Qc (Gaussian rationals for the inverse DFT)
   and the shape / guard predicates.  Rationals in, rationals out. *)
From Coq Require Import ZArith QArith Qcanon List Bool.
From EXV Require Import Base.Scalar Base.FieldLemmas Base.Cplx Exec.Codec Layout.Freq IC.Normalize IC.NormalizeProofs Gen.Guards Gen.ICGen.
Import ListNotations.
Local Open Scope Z_scope.

(* generator terms in prefix form: 0 kind D | 1 g | 2 g | 3 n g1 .. gn *)
Fixpoint parse_gen (fuel : nat) (t : list Z) : option (gen * list Z) :=
  match fuel with
  | O => None
  | S f =>
      match t with
      | 0 :: k :: D :: r => Some (GBase k D, r)
      | 1 :: r => match parse_gen f r with Some (g, r') => Some (GScaled g, r') | None => None end
      | 2 :: r => match parse_gen f r with Some (g, r') => Some (GClamp g, r') | None => None end
      | 3 :: n :: r => match parse_gens f (Z.to_nat n) r with Some (gs, r') => Some (GMulti gs, r') | None => None end
      | _ => None
      end
  end
with parse_gens (fuel : nat) (n : nat) (t : list Z) : option (list gen * list Z) :=
  match fuel with
  | O => None
  | S f =>
      match n with
      | O => Some ([], t)
      | S n' => match parse_gen f t with
                | Some (g, r) => match parse_gens f n' r with Some (gs, r') => Some (g :: gs, r') | None => None end
                | None => None
                end
      end
  end.
Definition decode_gen (t : list Z) : gen :=
  match parse_gen (S (length t)) t with Some (g, _) => g | None => GMulti [] end.

Definition qid (x : QcOps) : QcOps := x.

Definition run_c18 (sub : Z) (a : list Q) : list Q :=
  let z i := qz (getq a i) in let b i := qb (getq a i) in let n i := qn (getq a i) in
  let r (x : bool) := [bq x] in
  match sub with
  | 1 => (* zero_mean max_one values...: normalize_ic without the square-root step *)
      unqcs (normalize_ic QcOps Qc_leb qid (b 0%nat) false (b 1%nat) (qcs (skipn 2 a)))
  | 2 => (* zero_mean values...: the un-rooted pieces of std_one: variance of the (centred) field, then the field *)
      let l := qcs (skipn 1 a) in
      let l1 := if b 0%nat then center QcOps l else l in
      unqcs (variance QcOps l1 :: l1)
  | 3 => (* lo hi values... *)
      unqcs (clamp QcOps Qc_leb (qqc (getq a 0)) (qqc (getq a 1)) (qcs (skipn 2 a)))
  | 4 => (* s values... *)
      unqcs (scaled QcOps (qqc (getq a 0)) (qcs (skipn 1 a)))
  | 5 => (* N tokens...: shape of gen(N, key) or rejection *)
      optl (option_map (map zq) (gen_shape (z 0%nat) (decode_gen (zs (skipn 1 a)))))
  | 6 => r (supports_fun (decode_gen (zs a)))
  | 7 => (* which args...: option / call guards *)
      let g i := qb (getq a (S i)) in
      match z 0%nat with
      | 0 => r (ic_options_raise (g 0%nat) (g 1%nat) (g 2%nat))
      | 1 => r (tfs_raises (g 0%nat) (g 1%nat) (g 2%nat))
      | 2 => r (grf_raises (g 0%nat) (g 1%nat) (g 2%nat))
      | 3 => r (diffused_noise_raises (g 0%nat) (g 1%nat) (g 2%nat))
      | 4 => r (discontinuities_raises (g 0%nat) (g 1%nat) (g 2%nat))
      | 5 => r (random_discontinuities_raises (g 0%nat) (g 1%nat) (g 2%nat))
      | 6 => r (random_sine_raises (z 1%nat) (g 1%nat) (g 2%nat) (g 3%nat))
      | 7 => r (sine_waves_raises (g 0%nat) (g 1%nat) (g 2%nat) (z 4%nat) (z 5%nat) (z 6%nat))
      | 8 => r (sine_waves_call_raises (g 0%nat) (g 1%nat) (zs (skipn 3 a)))
      | 9 => r (gaussian_blob_call_raises (g 0%nat) (z 2%nat) (zs (skipn 3 a)))
      | _ => []
      end
  | 8 => (* offset D n: DC coefficient written by RandomTruncatedFourierSeries and the resulting mean DC / N^D *)
      let dc := tfs_dc QcOps (qqc (getq a 0)) (n 1%nat) (n 2%nat) in
      unqcs [dc; @odiv QcOps dc (npts QcOps (n 1%nat) (n 2%nat)); gen_tfs_dc QcOps (qqc (getq a 0)) (npts QcOps (n 1%nat) (n 2%nat))]
  | 9 => (* D n(2 or 4) spectrum(re, im)... in row-major order: the inverse DFT of the model and its mean *)
      let D := n 0%nat in let nn := n 1%nat in
      let w' : CQ := if (nn =? 2)%nat then cq_of_z (-1) else ciQ in
      let g := gridD D nn in
      let U := fun k : list nat => lookup (combine (map (map Z.of_nat) g) (take_cx (skipn 2 a))) (map Z.of_nat k) in
      put_cx (meanD CQ D nn (idftD CQ D nn w' U) :: map (idftD CQ D nn w' U) g)
  | 10 => (* s m D N idx...: squared GaussianRandomField amplitude for the exponent alpha = 2 m *)
      [qcq (grf_amp_sq_even QcOps (qqc (getq a 0)) (n 1%nat) (n 2%nat) (z 3%nat) (zs (skipn 4 a)))]
  | 11 => (* nlim xshape...: shape of a Discontinuity evaluated on a grid of shape xshape (regenerated from the source) *)
      optl (option_map (map zq) (gen_disc_shape (zs (skipn 1 a)) (n 0%nat)))
  | 12 => (* D N cutoff idx...: is the stored mode kept by RandomTruncatedFourierSeries (mask or mean mode) *)
      let idx := zs (skipn 3 a) in
      [bq (low_pass_axis (n 0%nat) (z 1%nat) (z 2%nat) idx); bq (is_zero_idx idx)]
  | _ => []
  end.
