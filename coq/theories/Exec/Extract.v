(* Extraction of the executable model.  ExtrOcamlBasic only: nat, Z, positive, Q, Qc stay
   extracted datatypes (no OCaml int, no Extract Constant of our own). *)
From Coq Require Extraction.
From Coq Require Import ExtrOcamlBasic.
From EXV Require Import Exec.Entry.
Extraction "model.ml" run.
