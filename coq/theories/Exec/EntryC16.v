(* Executable entry points of C16 (error metrics), exact rationals.  Case ids 1600 + sub.
   1  spatial_norm  : mode D N L has_ref C P  u (C*P values)  ref (C*P values)                 -> [0] (raises) | [1; value]
   2  fourier_norm  : mode D N L tau lowflag low highflag high dflag dord has_ref C M  U (C*M (re,im))  R (C*M (re,im))
   3  H1_norm       : same argument layout as 2 (dflag, dord ignored)
   4  correlation^2 of one channel: P  u (P values)  v (P values)                               -> [corr2; dot]
   5  mean_metric   : values                                                                    -> [mean]
   6  reconstruction scaling array and band mask at one index: D N lowflag low highflag high idx... -> [scaling; mask]
   [root] is the identity (outer exponent 1: the MSE-type quantities). *)
From Coq Require Import ZArith QArith Qcanon List Bool.
From EXV Require Import Base.Scalar Base.FieldLemmas Base.Cplx Exec.Codec Metrics.Metrics.
Import ListNotations.
Local Open Scope Z_scope.

Definition optq (o : option QcOps) : list Q := match o with None => [0%Q] | Some x => [1%Q; qcq x] end.
Definition optz (flag : Q) (v : Q) : option Z := if qb flag then Some (qz v) else None.

Definition run_c16 (sub : Z) (a : list Q) : list Q :=
  let idq := idK QcOps in
  match sub with
  | 1 =>
      let mode := qz (getq a 0) in let D := qn (getq a 1) in let N := qz (getq a 2) in let L := qqc (getq a 3) in
      let has_ref := qb (getq a 4) in let C := qn (getq a 5) in let P := qn (getq a 6) in
      let vals := skipn 7 a in
      let u := chunks P C (qcs vals) in
      let r := chunks P C (qcs (skipn (C * P) vals)) in
      optq (spatial_norm QcOps idq D N L mode u (if has_ref then Some r else None))
  | 2 | 3 =>
      let mode := qz (getq a 0) in let D := qn (getq a 1) in let N := qz (getq a 2) in let L := qqc (getq a 3) in
      let tau := qqc (getq a 4) in
      let low := optz (getq a 5) (getq a 6) in let high := optz (getq a 7) (getq a 8) in
      let dord := if qb (getq a 9) then Some (qn (getq a 10)) else None in
      let has_ref := qb (getq a 11) in let C := qn (getq a 12) in let M := qn (getq a 13) in
      let vals := skipn 14 a in
      let U := chunks M C (take_cx vals) in
      let R := chunks M C (take_cx (skipn (2 * C * M) vals)) in
      let ref := if has_ref then Some R else None in
      optq (if sub =? 2 then fourier_norm QcOps idq D N L tau low high dord mode U ref
            else H1_norm QcOps idq D N L tau low high mode U ref)
  | 4 =>
      let P := qn (getq a 0) in
      let u := qcs (firstn P (skipn 1 a)) in let v := qcs (skipn (1 + P) a) in
      [qcq (corr2_channel QcOps u v); qcq (dot QcOps u v)]
  | 5 => [qcq (mean_metric QcOps (qcs a))]
  | 6 =>
      let D := qn (getq a 0) in let N := qz (getq a 1) in
      let low := optz (getq a 2) (getq a 3) in let high := optz (getq a 4) (getq a 5) in
      let idx := zs (skipn 6 a) in
      [qcq (scaling_recon QcOps D N idx); bq (band_mask D N low high idx)]
  | _ => []
  end.
