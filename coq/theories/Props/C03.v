(* C03 — nonlinear terms equal the alias-free projection of the documented operator.
   Model: Nonlin/Conv.v, Nonlin/Terms.v (hand-written from exponax/nonlin_fun/*.py and the two reaction nonlinearities;
   tied to the code by the exact-rational correspondence over every term, D, N covering all residues mod 12, both fractions, and by
   C03_code_terms_are_model_terms: the terms are re-translated from the source on every run (harness/translate/nonlin.py -> Gen/NonlinFuns.v)
   and proved equal to the hand-written ones).
   Pseudo-spectral products on the N-grid are circular convolutions (convolution theorem, C03_convolution_theorem, per axis);
   the documented products of band-limited fields are linear convolutions.  All theorems are for every D, every N, every state. *)
From Coq Require Import ZArith QArith List Bool Lia.
From EXV Require Import Base.Scalar Base.FieldLemmas Layout.Freq Layout.FreqProofs DFT.DFT1 Nonlin.Conv Nonlin.ConvProofs Nonlin.Terms Nonlin.TermsProofs IC.Normalize DFT.DFTD DFT.BandLink Gen.NonlinFuns Tie.NonlinTie.
Import ListNotations.
Local Open Scope fld_scope.
Ltac splits := repeat match goal with |- _ /\ _ => split end.

(* the mask keeps |k| <= K(N) = floor(frac*(N/2)) - 1 and the default cutoffs resolve the aliases: 3K < N (2/3 rule), 4K < N (1/2 rule) *)
Theorem C03_cutoffs : forall N k : Z, (0 <= N)%Z ->
  (dealias_keeps 2 3 N k = true <-> (Z.abs k <= dealias_K 2 3 N)%Z)
  /\ (dealias_keeps 1 2 N k = true <-> (Z.abs k <= dealias_K 1 2 N)%Z)
  /\ (3 * dealias_K 2 3 N < N)%Z /\ (4 * dealias_K 1 2 N < N)%Z.
Proof.
  intros N k HN. splits.
  - apply dealias_keeps_iff. lia.
  - apply dealias_keeps_iff. lia.
  - apply cutoff_quadratic. exact HN.
  - apply cutoff_cubic. exact HN.
Qed.
Print Assumptions C03_cutoffs.

(* the cutoff of the dealiasing mask in the source (BaseNonlinearFun.__init__, re-translated on every run by harness/translate/dealias.py:
   floor(frac * ((N // 2 + 1) - 1)) - 1 with frac = p / q) IS the model's cutoff; the mask is the axis-separate low-pass mask (whose source is
   tied by C04_code_layout_is_model_layout), so mode k is kept iff |k_c| <= dealias_K on every axis *)
From EXV Require Import Gen.DealiasGen.
Theorem C03_code_cutoff_is_model_cutoff : forall p q N k : Z, (0 < q)%Z ->
  gen_dealias_cutoff p q N = dealias_K p q N
  /\ gen_dealias_mask_axis_separate = true
  /\ (dealias_keeps p q N k = true <-> (Z.abs k <= gen_dealias_cutoff p q N)%Z).
Proof.
  intros p q N k Hq.
  assert (E : gen_dealias_cutoff p q N = dealias_K p q N) by (unfold gen_dealias_cutoff, dealias_K; replace (N / 2 + 1 - 1)%Z with (N / 2)%Z by lia; reflexivity).
  splits; [exact E | reflexivity |]. rewrite E. apply dealias_keeps_iff. exact Hq.
Qed.
Print Assumptions C03_code_cutoff_is_model_cutoff.

(* physical-space multiplication on an n-point grid IS the circular convolution of the spectra (per axis) *)
Theorem C03_convolution_theorem : forall (F : FieldT) (n : nat) (w w' : F),
  (0 < n)%nat -> fpow w n = 1 -> (forall m, (0 < m < n)%nat -> fpow w m <> 1) -> w * w' = 1 ->
  forall (u v : nat -> F) (k : nat), (k < n)%nat ->
  dft n w (fun j => u j * v j) k = cconv n (dft n w u) (dft n w v) k / fz (Z.of_nat n).
Proof. intros F n w w' Hn H1 H2 H3 u v k Hk. apply (dft_convolution F n w w'); assumption. Qed.
Print Assumptions C03_convolution_theorem.

(* ... and in every dimension D: for the D-fold iterate of the 1-D transform (what rfftn / irfftn compute), the transform of a pointwise
   product on the n^D grid is n^-D times the D-dimensional circular convolution of the transforms - the contract behind prod2 / prod3 *)
Theorem C03_convolution_theorem_any_dimension : forall (F : FieldT) (n : nat) (w w' : F),
  (0 < n)%nat -> fpow w n = 1 -> (forall m, (0 < m < n)%nat -> fpow w m <> 1) -> w * w' = 1 ->
  forall (D : nat) (u v : list nat -> F) (k : list nat), length k = D -> Forall (fun b => (b < n)%nat) k ->
  dftD n D w (fun j => u j * v j) k = cconvD n D (dftD n D w u) (dftD n D w v) k / npts F D n.
Proof. intros F n w w' Hn H1 H2 H3 D u v k Hl Hk. apply (dftD_convolution F n w w'); try assumption. split; assumption. Qed.
Print Assumptions C03_convolution_theorem_any_dimension.

(* the chain from the FFT contract to the product model: for band-masked spectra U, V on signed wavenumbers, u = irfftn U, v = irfftn V
   (D-fold inverse transform on the n^D grid), the band-restricted transform of the pointwise product u v at stored index k is the
   model's prod2 U V at the signed wavenumber of k - every D, every n = N with a primitive root, every cutoff with 2K < N *)
Theorem C03_fft_product_is_the_model_product : forall (F : FieldT) (n : nat) (Kc : Z) (w w' : F),
  (0 < n)%nat -> (0 <= Kc)%Z -> (2 * Kc < Z.of_nat n)%Z ->
  fpow w n = 1 -> (forall m, (0 < m < n)%nat -> fpow w m <> 1) -> w * w' = 1 ->
  forall (D : nat) (U V : field F) (k : list nat), length k = D -> Forall (fun b => (b < n)%nat) k ->
  let u := idftI n D w' (on_grid F n Kc U) in
  let v := idftI n D w' (on_grid F n Kc V) in
  (if in_band Kc (sgn n k) then dftD n D w (fun j => u j * v j) k else 0) = prod2 F D (Z.of_nat n) Kc U V (sgn n k).
Proof. intros F n Kc w w' Hn HK H2K H1 H2 H3 D U V k Hl Hk. apply (fft_product_is_prod2 F n Hn Kc HK H2K w w' H1 H2 H3). split; assumption. Qed.
Print Assumptions C03_fft_product_is_the_model_product.

(* with the cutoff of the code, the pseudo-spectral product equals the alias-free product on the retained band
   and vanishes outside it: quadratic with 3K < N, cubic with 4K < N *)
Theorem C03_products_alias_free : forall (F : FieldT) (D : nat) (N Kc : Z) (U V W : field F) (k : idx),
  (0 < N)%Z -> (0 <= Kc)%Z ->
  ((3 * Kc < N)%Z -> prod2 F D N Kc U V k = prod2L F D N Kc U V k)
  /\ ((4 * Kc < N)%Z -> prod3 F D N Kc U V W k = prod3L F D N Kc U V W k)
  /\ (in_band Kc k = false -> prod2 F D N Kc U V k = 0 /\ prod3 F D N Kc U V W k = 0).
Proof.
  intros F D N Kc U V W k HN HK. splits.
  - intros H. apply prod2_alias_free; assumption.
  - intros H. apply prod3_alias_free; assumption.
  - intros H. apply (prod_out_of_band F D N Kc U V W k H).
Qed.
Print Assumptions C03_products_alias_free.

(* every built-in term evaluated by the code (circular products) equals the documented operator (alias-free products of the
   band-truncated state), coefficient by coefficient, for every state; quadratic terms need 3K < N, cubic ones 4K < N *)
Theorem C03_quadratic_terms_are_documented : forall (F : FieldT) (D : nat) (N Kc : Z) (ii s b : F),
  (0 < N)%Z -> (0 <= Kc)%Z -> (3 * Kc < N)%Z ->
  let P := prod2 F D N Kc in let PL := prod2L F D N Kc in
  forall (u : field F) (us : list (field F)) (zf : bool) (i : nat) (k : idx),
    nth i (conv_mc_cons F P ii s D b us) (fzero F) k = nth i (conv_mc_cons F PL ii s D b us) (fzero F) k
    /\ nth i (conv_mc_noncons F P ii s D b us) (fzero F) k = nth i (conv_mc_noncons F PL ii s D b us) (fzero F) k
    /\ conv_sc_cons F P ii s D b u k = conv_sc_cons F PL ii s D b u k
    /\ conv_sc_noncons F P ii s D b u k = conv_sc_noncons F PL ii s D b u k
    /\ gradient_norm F P ii s D b zf u k = gradient_norm F PL ii s D b zf u k
    /\ vorticity_conv F P ii s D b u k = vorticity_conv F PL ii s D b u k
    /\ nth i (projected_conv F P ii s D us) (fzero F) k = nth i (projected_conv F PL ii s D us) (fzero F) k.
Proof.
  intros F D N Kc ii s b HN HK H3 P PL u us zf i k.
  assert (H2 : forall U V x, P U V x = PL U V x) by (intros; apply prod2_alias_free; assumption).
  pose (Z3 := fun (_ _ _ : field F) => fzero F).
  assert (HZ : forall U V W x, Z3 U V W x = Z3 U V W x) by reflexivity.
  splits.
  - first [apply conv_mc_cons_lift; exact H2 | apply (conv_mc_cons_lift F (fun x => x) P PL Z3 Z3 H2 HZ)].
  - first [apply conv_mc_noncons_lift; exact H2 | apply (conv_mc_noncons_lift F (fun x => x) P PL Z3 Z3 H2 HZ)].
  - first [apply conv_sc_cons_lift; exact H2 | apply (conv_sc_cons_lift F (fun x => x) P PL Z3 Z3 H2 HZ)].
  - first [apply conv_sc_noncons_lift; exact H2 | apply (conv_sc_noncons_lift F (fun x => x) P PL Z3 Z3 H2 HZ)].
  - first [apply gradient_norm_lift; exact H2 | apply (gradient_norm_lift F (fun x => x) P PL Z3 Z3 H2 HZ)].
  - first [apply vorticity_conv_lift; exact H2 | apply (vorticity_conv_lift F (fun x => x) P PL Z3 Z3 H2 HZ)].
  - first [apply projected_conv_lift; exact H2 | apply (projected_conv_lift F (fun x => x) P PL Z3 Z3 H2 HZ)].
Qed.
Print Assumptions C03_quadratic_terms_are_documented.

Theorem C03_cubic_terms_are_documented : forall (F : FieldT) (D : nat) (N Kc : Z) (ii s ND : F),
  (0 < N)%Z -> (0 <= Kc)%Z -> (4 * Kc < N)%Z ->
  let M := msk F Kc in
  let P2 := prod2 F D N Kc in let P2L := prod2L F D N Kc in let P3 := prod3 F D N Kc in let P3L := prod3L F D N Kc in
  forall (u v : field F) (c0 c1 c2 c3 b0 b1 b2 sc f kr : F) (zf : bool) (i : nat) (k : idx),
    polynomial F M P2 P3 ND c0 c1 c2 c3 u k = polynomial F M P2L P3L ND c0 c1 c2 c3 u k
    /\ general_nonlinear F M P2 P3 ii s D ND b0 b1 b2 zf u k = general_nonlinear F M P2L P3L ii s D ND b0 b1 b2 zf u k
    /\ cahn_hilliard F P3 ii s D sc u k = cahn_hilliard F P3L ii s D sc u k
    /\ nth i (gray_scott F M P3 ND f kr u v) (fzero F) k = nth i (gray_scott F M P3L ND f kr u v) (fzero F) k.
Proof.
  intros F D N Kc ii s ND HN HK H4 M P2 P2L P3 P3L u v c0 c1 c2 c3 b0 b1 b2 sc f kr zf i k.
  assert (H2 : forall U V x, P2 U V x = P2L U V x) by (intros; apply prod2_alias_free; try assumption; lia).
  assert (H3 : forall U V W x, P3 U V W x = P3L U V W x) by (intros; apply prod3_alias_free; assumption).
  splits.
  - apply polynomial_lift; assumption.
  - apply general_nonlinear_lift; assumption.
  - first [apply cahn_hilliard_lift; assumption | apply (cahn_hilliard_lift F M P2 P2L P3 P3L H2 H3)].
  - first [apply gray_scott_lift; assumption | apply (gray_scott_lift F M P2 P2L P3 P3L H2 H3)].
Qed.
Print Assumptions C03_cubic_terms_are_documented.

(* the model terms ARE the code: every __call__ under exponax/nonlin_fun and the private nonlinear functions of the reaction steppers,
   re-translated from the source on every run (Gen/NonlinFuns.v, same vocabulary M / P2 / P3 / dc as Nonlin/Terms.v, the mask applied
   where the code applies it, factors and sums in the order of the code), equal the hand-written terms of Nonlin/Terms.v for every
   coefficient, every flag value, every state and every mode k, with M, P2, P3 the operators of Nonlin/Conv.v (the laws of the operators
   that the equalities need are proved in Tie/NonlinTie.v).  Premises: the mask keeps the mean mode (0 <= K); for the multi-channel
   conservative convection only (u[None, :] * u[:, None] lists the factors in the other order than the model) the commutativity of the
   circular product, proved for modes k with one entry per axis and 2K < N.  Kolmogorov variants: the term plus the stored forcing array.
   BelousovZhabotinsky (not exported, no term in Nonlin/Terms.v): against the hand-written term of Tie/NonlinTie.v. *)
Theorem C03_code_terms_are_model_terms : forall (F : FieldT) (D : nat) (N Kc : Z) (ii s ND : F), (0 <= Kc)%Z ->
  let M := msk F Kc in let P2 := prod2 F D N Kc in let P3 := prod3 F D N Kc in
  let Z := fzero F in
  forall (b b0 b1 b2 c0 c1 c2 c3 f kr : F) (zf : bool) (u inj : field F) (us injs : list (field F)) (i : nat) (k : idx),
    gen_zero F M P2 P3 ii s D ND u k = Z k
    /\ gen_polynomial_4 F M P2 P3 ii s D ND c0 c1 c2 c3 u k = polynomial F M P2 P3 ND c0 c1 c2 c3 u k
    /\ gen_polynomial_3 F M P2 P3 ii s D ND c0 c1 c2 u k = polynomial F M P2 P3 ND c0 c1 c2 0 u k
    /\ gen_polynomial_2 F M P2 P3 ii s D ND c0 c1 u k = polynomial F M P2 P3 ND c0 c1 0 0 u k
    /\ nth 0 (gen_convection F M P2 P3 ii s D ND b true true us) Z k = conv_sc_cons F P2 ii s D b (nth 0 us Z) k
    /\ nth 0 (gen_convection F M P2 P3 ii s D ND b true false us) Z k = conv_sc_noncons F P2 ii s D b (nth 0 us Z) k
    /\ ((0 < N)%Z -> (2 * Kc < N)%Z -> length k = D ->
        nth i (gen_convection F M P2 P3 ii s D ND b false true us) Z k = nth i (conv_mc_cons F P2 ii s D b us) Z k)
    /\ nth i (gen_convection F M P2 P3 ii s D ND b false false us) Z k = nth i (conv_mc_noncons F P2 ii s D b us) Z k
    /\ gen_gradient_norm F M P2 P3 ii s D ND b zf u k = gradient_norm F P2 ii s D b zf u k
    /\ nth 0 (gen_general_nonlinear F M P2 P3 ii s D ND [b0; b1; b2] zf [u]) Z k = general_nonlinear F M P2 P3 ii s D ND b0 b1 b2 zf u k
    /\ gen_vorticity_conv F M P2 P3 ii s D ND b u k = vorticity_conv F P2 ii s D b u k
    /\ gen_vorticity_conv_kolmogorov F M P2 P3 ii s D ND b inj u k = vorticity_conv F P2 ii s D b u k + inj k
    /\ nth i (gen_leray F M P2 P3 ii s D ND us) Z k = nth i (leray F ii s D us) Z k
    /\ nth i (gen_projected_conv F M P2 P3 ii s D ND us) Z k = nth i (projected_conv F P2 ii s D us) Z k
    /\ ((i < 3)%nat -> nth i (gen_projected_conv_kolmogorov F M P2 P3 ii s D ND injs us) Z k = nth i (projected_conv F P2 ii s D us) Z k + nth i injs Z k)
    /\ nth 0 (gen_cahn_hilliard F M P2 P3 ii s D ND b us) Z k = cahn_hilliard F P3 ii s D b (nth 0 us Z) k
    /\ nth i (gen_gray_scott F M P2 P3 ii s D ND f kr us) Z k = nth i (gray_scott F M P3 ND f kr (nth 0 us Z) (nth 1 us Z)) Z k
    /\ nth i (gen_belousov_zhabotinsky F M P2 P3 ii s D ND us) Z k
       = nth i (belousov_zhabotinsky F M P2 (nth 0 us Z) (nth 1 us Z) (nth 2 us Z)) Z k.
Proof.
  intros F D N Kc ii s ND HK M P2 P3 Z b b0 b1 b2 c0 c1 c2 c3 f kr zf u inj us injs i k.
  assert (Lext : forall a a' b b' k, (forall x, a x = a' x) -> (forall x, b x = b' x) -> P2 a b k = P2 a' b' k) by (intros; apply prod2_ext; assumption).
  assert (Lidem : forall a k, M (M a) k = M a k) by (intros; apply msk_idem).
  assert (Lmean : forall c k, M (gen_const_hat F M P2 P3 ii s D ND c) k = gen_const_hat F M P2 P3 ii s D ND c k) by (intros; apply msk_mean; exact HK).
  assert (L2M : forall a b k, P2 (M a) (M b) k = P2 a b k) by (intros; apply prod2_msk).
  assert (L3M : forall a b c k, P3 (M a) (M b) (M c) k = P3 a b c k) by (intros; apply prod3_msk).
  destruct (polynomial_tie F M P2 P3 ii s D ND Lmean c0 c1 c2 c3 u k) as (Q4 & Q3 & Q2).
  splits.
  - apply zero_tie.
  - exact Q4.
  - exact Q3.
  - exact Q2.
  - apply convection_sc_cons_tie.
  - apply convection_sc_noncons_tie.
  - intros HN H2 Hk. apply convection_mc_cons_tie. intros a c. apply prod2_comm; assumption.
  - apply convection_mc_noncons_tie.
  - apply gradient_norm_tie.
  - apply general_nonlinear_tie; assumption.
  - apply vorticity_conv_tie; assumption.
  - apply vorticity_conv_kolmogorov_tie; assumption.
  - apply leray_tie.
  - apply projected_conv_tie.
  - intros Hi. apply projected_conv_kolmogorov_tie. exact Hi.
  - apply cahn_hilliard_tie; assumption.
  - apply gray_scott_tie; assumption.
  - apply belousov_zhabotinsky_tie; assumption.
Qed.
Print Assumptions C03_code_terms_are_model_terms.

(* non-vacuity: N = 12, K = K(12, 2/3) = 3 satisfies 3K < N; N = 12, K(12, 1/2) = 2 satisfies 4K < N *)
Example C03_ex : dealias_K 2 3 12 = 3%Z /\ dealias_K 1 2 12 = 2%Z /\ (3 * 3 < 12)%Z /\ (4 * 2 < 12)%Z.
Proof. repeat split; reflexivity. Qed.
