(* C04 — grid, FFT and Fourier-coefficient conventions are mutually consistent.
   Integer layout: Layout/Freq.v (hand-written from _spectral.py/_utils.py; exhaustive exact correspondence on every run).
   Transform: DFT/DFT1.v over ANY field with a primitive n-th root of unity w (w' = 1/w); jnp.fft is this transform with
   w = exp(-2 pi i/n) (contract, exercised by the correspondence).  The D-dimensional transform is the iterate of the 1-D one
   along each axis; the statements below are per axis. *)
From Coq Require Import ZArith List Bool Lia.
From EXV Require Import Base.Scalar Base.FieldLemmas Layout.Freq Layout.FreqProofs DFT.DFT1 IC.Normalize DFT.DFTD.
Import ListNotations.
Ltac splits := repeat match goal with |- _ /\ _ => split end.

(* every signed wavenumber of the band occurs at exactly one stored index, and the wavenumber array names it;
   the stored frequency is congruent to the index mod N (so on the grid mode j IS exp(2 pi i fftfreq(j) x / L)) *)
Theorem C04_wavenumber_bijection : forall N : Z, (0 < N)%Z ->
  (forall j, (0 <= j < N)%Z -> (- (N / 2) <= fftfreq N j <= (N - 1) / 2)%Z /\ unfreq N (fftfreq N j) = j
                               /\ ((fftfreq N j - j) mod N = 0)%Z)
  /\ (forall k, (- (N / 2) <= k <= (N - 1) / 2)%Z -> (0 <= unfreq N k < N)%Z /\ fftfreq N (unfreq N k) = k).
Proof.
  intros N HN. destruct (fftfreq_bijection N HN) as [H1 H2]. split.
  - intros j Hj. destruct (H1 j Hj) as [Ha Hb]. split; [exact Ha | split; [exact Hb | apply fftfreq_congr; assumption]].
  - exact H2.
Qed.
Print Assumptions C04_wavenumber_bijection.

(* the inverse transform undoes the forward transform for EVERY state (any field with a primitive root) *)
Theorem C04_round_trip : forall (F : FieldT) (n : nat) (w w' : F),
  (0 < n)%nat -> fpow w n = o1 -> (forall m, (0 < m < n)%nat -> fpow w m <> o1) -> omul w w' = o1 ->
  forall (u : nat -> F) (j : nat), (j < n)%nat -> idft n w' (dft n w u) j = u j.
Proof. intros F n w w' Hn H1 H2 H3 u j Hj. apply dft_inversion; assumption. Qed.
Print Assumptions C04_round_trip.

(* the same in every dimension: the D-fold iterate of the inverse transform undoes the D-fold iterate of the transform at every grid point *)
Theorem C04_round_trip_any_dimension : forall (F : FieldT) (n : nat) (w w' : F),
  (0 < n)%nat -> fpow w n = o1 -> (forall m, (0 < m < n)%nat -> fpow w m <> o1) -> omul w w' = o1 ->
  forall (D : nat) (u : list nat -> F) (j : list nat), length j = D -> Forall (fun b => (b < n)%nat) j ->
  idftI n D w' (dftD n D w u) j = u j.
Proof. intros F n w w' Hn H1 H2 H3 D u j Hl Hj. apply (dftD_inversion F n w w'); try assumption. split; assumption. Qed.
Print Assumptions C04_round_trip_any_dimension.

(* a sampled character c * exp(+2 pi i m j / n) appears in exactly the stored mode m with value n*c, 0 elsewhere
   (a cosine a cos(theta + phi) is the sum of the characters m and -m with c = a e^{i phi}/2 and its conjugate) *)
Theorem C04_single_mode : forall (F : FieldT) (n : nat) (w w' : F),
  (0 < n)%nat -> fpow w n = o1 -> (forall m, (0 < m < n)%nat -> fpow w m <> o1) -> omul w w' = o1 ->
  forall (c : F) (m k : nat), (m < n)%nat -> (k < n)%nat ->
  dft n w (fun j => omul c (fpow w' (j * m))) k = if (k =? m)%nat then omul (fz (Z.of_nat n)) c else o0.
Proof. intros F n w w' Hn H1 H2 H3 c m k Hm Hk. apply dft_single_mode; assumption. Qed.
Print Assumptions C04_single_mode.

(* the Nyquist ("oddball") mask keeps everything for odd N and removes exactly the modes with some |k_c| = N/2 for even N *)
Theorem C04_oddball_mask : forall (D : nat) (N : Z) (idx : list Z),
  (Z.odd N = true -> oddball_mask D N idx = true)
  /\ (Z.even N = true -> oddball_mask D N idx = forallb (fun k => Z.abs k <=? N / 2 - 1)%Z (wnvec D N idx)).
Proof. intros. split; [apply oddball_odd | apply oddball_even]. Qed.
Print Assumptions C04_oddball_mask.

(* both indexing options give arrays of wavenumber_shape whose rfft component lives on the last array axis, and every
   wavenumber component varies along the same array axis as the grid component of the same name *)
Theorem C04_indexing_consistent : forall (xy : bool) (D : nat) (N : Z), (1 <= D <= 3)%nat ->
  map (wn_axis_len xy D N) (seq 0 D) = wavenumber_shape D N
  /\ forall c idx idx', (c < D)%nat -> nth (mesh_axis xy D c) idx 0%Z = nth (mesh_axis xy D c) idx' 0%Z ->
       wavenumber xy D N c idx = wavenumber xy D N c idx'
       /\ (mesh_axis xy D c = (D - 1)%nat <-> c = rfft_component xy D)
       /\ mesh_axis xy D (mesh_axis xy D c) = c.
Proof.
  intros xy D N HD. split; [apply indexing_shape; exact HD|].
  intros c idx idx' Hc H. destruct (indexing_consistent xy D N c idx idx' HD Hc H) as [A B].
  splits; try assumption. apply mesh_axis_involution. exact Hc.
Qed.
Print Assumptions C04_indexing_consistent.

(* wrap_bc appends entry 0 after entry N-1 (periodic closure); grid index j is the point j*L/N, left-inclusive *)
Theorem C04_grid_wrap : forall N : Z, (0 < N)%Z ->
  (forall j, (0 <= j < N)%Z -> wrap_index N j = j) /\ wrap_index N N = 0%Z /\ grid_len false N = N /\ grid_len true N = (N + 1)%Z.
Proof. intros N HN. destruct (wrap_index_spec N 0 HN) as [_ H0]. splits; try reflexivity; try assumption.
  intros j Hj. apply (wrap_index_spec N j HN). exact Hj. Qed.
Print Assumptions C04_grid_wrap.

(* mode slices: the leading-axis indices of a grid are split into a left and a right block, and an entry copied to a finer grid
   keeps its signed wavenumber (shared with C15) *)
Theorem C04_mode_slices : forall n m j : Z, (0 < n)%Z -> (n <= m)%Z -> (0 <= j < n)%Z ->
  ((in_left n n j = true /\ in_right n n j = false) \/ (in_left n n j = false /\ in_right n n j = true))
  /\ (in_left n n j = true -> in_left n m j = true /\ fftfreq m j = fftfreq n j)
  /\ (in_right n n j = true -> in_right n m (j + (m - n)) = true /\ fftfreq m (j + (m - n)) = fftfreq n j).
Proof.
  intros n m j Hn Hm Hj. destruct (slice_same_frequency n m j Hn Hm Hj) as [A B].
  splits; try assumption. apply slices_partition; assumption.
Qed.
Print Assumptions C04_mode_slices.

(* the layout functions of exponax/_spectral.py are re-translated from the source on every run (harness/translate/spectral.py ->
   Gen/SpectralGen.v; a symbolic execution of the function bodies, callees inlined, fail-closed) and equal the hand-written layout
   for every number of axes, grid size, cutoff, stored index and both indexing conventions *)
From EXV Require Import Gen.SpectralGen Tie.SpectralTie.
Theorem C04_code_layout_is_model_layout : forall (K : Ops) (xy : bool) (D : nat) (N cutoff : Z) (idx : list Z),
  gen_wavenumber_shape D N = wavenumber_shape D N
  /\ gen_spatial_shape D N = repeat N D
  /\ (length (gen_space_indices D) = D /\ forall i, (i < D)%nat -> nth i (gen_space_indices D) 0%Z = (Z.of_nat i - Z.of_nat D)%Z)
  /\ (forall c, (c < D)%nat -> gen_build_wavenumbers xy D N c idx = wavenumber xy D N c idx)
  /\ gen_low_pass_filter_mask_axis xy D N cutoff idx = forallb (fun c => (Z.abs (wavenumber xy D N c idx) <=? cutoff)%Z) (seq 0 D)
  /\ gen_low_pass_filter_mask_axis false D N cutoff idx = low_pass_axis D N cutoff idx
  /\ gen_low_pass_filter_mask_radial false D N cutoff idx = low_pass_radial D N cutoff idx
  /\ gen_oddball_filter_mask D N idx = oddball_mask D N idx.
Proof.
  intros K xy D N cutoff idx. splits.
  - reflexivity.
  - reflexivity.
  - apply space_indices_tie.
  - apply space_indices_tie.
  - intros c Hc. apply wavenumbers_tie; exact Hc.
  - apply low_pass_axis_tie_xy.
  - apply low_pass_axis_tie.
  - apply low_pass_radial_tie.
  - apply oddball_tie.
Qed.
Print Assumptions C04_code_layout_is_model_layout.

(* the scaling arrays of the source (all three modes): element * 2^(halvings of the model) = N^D, i.e. element = N^D / 2^halvings;
   the mode slices of the source, read with Python's slice semantics on an axis of any length, are the model's index sets;
   make_grid of the source (exponax/_utils.py) puts x_j = j L / N on every axis (N + 1 points when full), shifted by L / 2 when zero_centered *)
Theorem C04_code_scaling_and_slices_are_model : forall (F : FieldT) (D : nat) (N : Z) (idx : list Z) (mode : Z),
  (mode = 10 \/ mode = 11 \/ mode = 12)%Z ->
  omul (if (mode =? 10)%Z then gen_build_scaling_array_norm_compensation F false D N idx
        else if (mode =? 11)%Z then gen_build_scaling_array_reconstruction F false D N idx
        else gen_build_scaling_array_coef_extraction F false D N idx)
       (fpow (fz 2) (Z.to_nat (scaling_halvings D N (fst (mode_denoms mode)) (snd (mode_denoms mode)) idx))) = fpow (fz N) D
  /\ (forall len j : Z, (2 <= N)%Z -> (0 <= len)%Z ->
        in_py_slice len (gen_modes_slice_left N) j = in_left N len j
        /\ in_py_slice len (gen_modes_slice_right N) j = in_right N len j
        /\ in_py_slice len (gen_modes_slice_last N) j = in_last N len j)
  /\ (forall (pi L : F) (full zero_centered xy : bool) (c : nat),
        gen_make_grid F full zero_centered xy D L N c idx =
        (let j := nth (mesh_axis xy D c) idx 0%Z in
         let x := odiv (omul (fz (fst (grid_num full N j))) L) (fz (snd (grid_num full N j))) in
         if zero_centered then osub x (odiv L (fz 2)) else x)).
Proof.
  intros F D N idx mode Hm. split; [|split].
  - apply scaling_modes_halvings; exact Hm.
  - intros len j HN Hl. splits.
    + apply modes_slice_left_tie; lia.
    + apply modes_slice_right_tie; lia.
    + apply modes_slice_last_tie; lia.
  - intros pi L full zero_centered xy c. apply make_grid_tie.
Qed.
Print Assumptions C04_code_scaling_and_slices_are_model.

(* non-vacuity: i is a primitive 4th root of unity in the Gaussian rationals *)
From EXV Require Import Base.Cplx.
From Coq Require Import Qcanon.
Example C04_ex_primitive_root :
  let w : QcC := @ci QcOps in
  fpow w 4 = @o1 QcC /\ fpow w 1 <> @o1 QcC /\ fpow w 2 <> @o1 QcC /\ fpow w 3 <> @o1 QcC.
Proof.
  cbv zeta. repeat split; try (apply cx_ext; vm_compute; reflexivity);
    intro H; apply (f_equal re) in H; vm_compute in H; discriminate H.
Qed.

(* non-vacuity of the source tie: the regenerated layout evaluated on a 2-D grid with N = 6 - stored index (4, 3) holds the wavenumber
   vector (-2, 3) (ij), the oddball mask removes it (Nyquist on the last axis), the reconstruction scaling there is 6 * 6 = 36 over the rationals *)
From Coq Require Import QArith Qcanon.
Example C04_ex_regenerated_layout :
  gen_build_wavenumbers false 2 6 0 [4; 3]%Z = (-2)%Z /\ gen_build_wavenumbers false 2 6 1 [4; 3]%Z = 3%Z
  /\ gen_oddball_filter_mask 2 6 [4; 3]%Z = false /\ gen_oddball_filter_mask 2 6 [4; 2]%Z = true
  /\ this (gen_build_scaling_array_reconstruction QcField false 2 6 [4; 3]%Z) = (36 # 1)%Q
  /\ this (gen_build_scaling_array_reconstruction QcField false 2 6 [4; 2]%Z) = (18 # 1)%Q.
Proof. repeat split; vm_compute; reflexivity. Qed.
