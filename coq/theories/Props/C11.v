(* C11 — dissipative and dispersive linear steppers never amplify any state.
   Complex numbers over an ordered field F (the order enters as premises: reflexive, transitive, compatible with + and with products of
   non-negatives, squares non-negative).  Symbols: Spectral/Symbols.v (tied to the code by the exact correspondence of C01).
   exp enters only through |exp(dt lambda)|^2 <= 1 for Re(dt lambda) <= 0 and = 1 for Re = 0 (property of the real exponential),
   which is the premise on the propagator E below. *)
From Coq Require Import ZArith QArith List Bool Lia.
From EXV Require Import Base.Scalar Base.FieldLemmas Base.Cplx Spectral.Symbols Spectral.RealSymbols Steppers.NonAmplification
  IC.Normalize DFT.DFTD Metrics.Metrics Metrics.ParsevalRealD Steppers.L2Stability.
Import ListNotations.
Local Open Scope fld_scope.
Ltac splits := repeat match goal with |- _ /\ _ => split end.

Definition OrderLaws (F : FieldT) (le : F -> F -> Prop) : Prop :=
  (forall x, le x x) /\ (forall x y z, le x y -> le y z -> le x z) /\ (forall x y z t, le x y -> le z t -> le (x + z) (y + t))
  /\ (forall x y, le 0 x -> le 0 y -> le 0 (x * y)) /\ (forall x, le 0 (x * x)).

(* real parts of the symbols: advection and dispersion are purely imaginary (norm preserved), diffusion and hyper-diffusion are
   real and non-positive for non-negative coefficients (norm not increased), for real wavenumbers kappa in any dimension *)
Theorem C11_real_parts_of_symbols : forall (F : FieldT) (le : F -> F -> Prop), OrderLaws F le ->
  forall (v kap : list F) (nu mu : F), le 0 nu -> le 0 mu ->
  re (gip_sym (COps F) (map cofr v) 1 (dreal F kap)) = 0 /\ re (gip_sym (COps F) (map cofr v) 3 (dreal F kap)) = 0
  /\ laplace_sym (COps F) 2 (dreal F kap) = cofr (- fsum (map (fun x => x * x) kap))
  /\ laplace_sym (COps F) 4 (dreal F kap) = cofr (fsum (map (fun x => x * x * x * x) kap))
  /\ le 0 (- re (@omul (COps F) (cofr nu) (laplace_sym (COps F) 2 (dreal F kap))))
  /\ le 0 (- re (@omul (COps F) (cofr (- mu)) (laplace_sym (COps F) 4 (dreal F kap)))).
Proof.
  intros F le (H1 & H2 & H3 & H4 & H5) v kap nu mu Hn Hm.
  destruct (gip_real_part F v kap) as [G1 G3]. destruct (laplace_real F kap) as [L2 L4].
  destruct (dissipative_symbols_nonpositive F le H1 H3 H4 H5 nu mu kap Hn Hm) as [D2 D4].
  splits; assumption.
Qed.
Print Assumptions C11_real_parts_of_symbols.

(* ... and the same for the symbols AS REGENERATED FROM THE SOURCE (Gen/LinOps.v, harness/translate/linops.py; tied to Spectral/Symbols.v in
   Tie/LinOpsTie.v): at the derivative operator i kappa of real wavenumbers, over the complex numbers of a formally real field, the source
   symbols of Advection and Dispersion are purely imaginary and that of HyperDiffusion (mu >= 0) has non-positive real part, in any dimension;
   Diffusion with a scalar nu >= 0 (promoted to the diagonal matrix by the constructor text) likewise for D <= 3 *)
From EXV Require Import Gen.LinOps Tie.NonAmplTie.
Theorem C11_code_symbols_do_not_amplify : forall (F : FieldT) (FR : FormallyReal F) (le : F -> F -> Prop), OrderLaws F le ->
  forall (v xi kap : list F) (nu mu : F), le 0 nu -> le 0 mu ->
  re (gen_sym_advection (CField FR) (map cofr v) (dreal F kap)) = 0
  /\ re (gen_sym_dispersion (CField FR) false (map cofr xi) (dreal F kap)) = 0
  /\ le 0 (- re (gen_sym_hyper_diffusion (CField FR) false (cofr mu) (dreal F kap)))
  /\ ((1 <= length kap <= 3)%nat ->
      le 0 (- re (gen_sym_diffusion (CField FR) (gen_ctor_diffusion_diffusivity_scalar (CField FR) (cofr nu) (dreal F kap)) (dreal F kap)))).
Proof.
  intros F FR le (H1 & H2 & H3 & H4 & H5) v xi kap nu mu Hn Hm. splits.
  - apply code_advection_imaginary.
  - apply code_dispersion_imaginary.
  - apply (code_hyper_diffusion_nonpositive F FR le H1 H3 H4 H5); exact Hm.
  - intros Hk. apply (code_diffusion_nonpositive F FR le H1 H3 H4 H5); assumption.
Qed.
Print Assumptions C11_code_symbols_do_not_amplify.

(* no mode grows: |E u|^2 <= |u|^2 when |E|^2 <= 1, equality when |E|^2 = 1; the Parseval-weighted sum over all modes (the squared
   L2 norm of ANY state, Nyquist content and white noise included) does not grow; the real inverse transform only contracts *)
Theorem C11_no_amplification : forall (F : FieldT) (le : F -> F -> Prop), OrderLaws F le ->
  (forall (E u : cx F), le 0 (1 - cnorm2 E) -> le (cnorm2 (cmul E u)) (cnorm2 u))
  /\ (forall (E u : cx F), cnorm2 E = 1 -> cnorm2 (cmul E u) = cnorm2 u)
  /\ (forall (w : list F) (E u : list (cx F)), Forall (fun x => le 0 x) w -> Forall (fun e => le 0 (1 - cnorm2 e)) E ->
        le (fsum (map2 (fun wk p => wk * cnorm2 (cmul (fst p) (snd p))) w (combine E u)))
           (fsum (map2 (fun wk p => wk * cnorm2 (snd p)) w (combine E u))))
  /\ (forall c : cx F, le (cnorm2 (cofr (re c))) (cnorm2 c)).
Proof.
  intros F le (H1 & H2 & H3 & H4 & H5). splits.
  - intros E u H. apply (mode_not_amplified F le H1 H3 H4 H5). exact H.
  - intros E u H. apply mode_norm_preserved. exact H.
  - intros w E u Hw HE. apply (weighted_sum_not_amplified F le H1 H3 H4 H5); assumption.
  - intros c. apply (real_part_contracts F le H1 H3 H5).
Qed.
Print Assumptions C11_no_amplification.

(* wave stepper: with the exact-solution form of a mode (C01_wave_exact), cos^2 + sin^2 = 1, the wave energy |v|^2 + (c rho)^2 |h|^2 is conserved *)
Theorem C11_wave_energy_conserved : forall (F : FieldT) (Cc Ss cr : F) (h v : cx F), Cc * Cc + Ss * Ss = 1 -> cr <> 0 ->
  let h' := cadd (cscal Cc h) (cscal (Ss / cr) v) in
  let v' := cadd (cscal (- (cr * Ss)) h) (cscal Cc v) in
  cnorm2 v' + cr * cr * cnorm2 h' = cnorm2 v + cr * cr * cnorm2 h.
Proof. intros. apply wave_energy_conserved; assumption. Qed.
Print Assumptions C11_wave_energy_conserved.

(* END TO END, every dimension: a step that multiplies every stored mode of a real field by a factor of modulus <= 1 (and returns a real
   field) does not increase the discrete L2 norm; modulus one preserves it.  Mode-wise estimate + Parseval on the stored half spectrum
   (Hermitian symmetry, multiplicities 1/2).  n^(D+1) is the positive constant of Parseval's identity. *)
Theorem C11_l2_norm_not_amplified : forall (F : FieldT) (FR : FormallyReal F) (le : F -> F -> Prop), OrderLaws F le ->
  forall (n : nat) (w : cx F), (0 < n)%nat ->
  @fpow (CField FR) w n = c1 F -> (forall m, (0 < m < n)%nat -> @fpow (CField FR) w m <> c1 F) -> cmul w (cconj w) = c1 F ->
  forall (D : nat) (u v : list nat -> F) (E : list nat -> cx F),
  (forall lead b, In lead (gridD D n) -> (b < n / 2 + 1)%nat ->
     rdftD F n w (S D) v (lead ++ [b]) = cmul (E (lead ++ [b])) (rdftD F n w (S D) u (lead ++ [b]))) ->
  ((forall k, le 0 (1 - cnorm2 (E k))) ->
     le (npts F (S D) n * sumD F (S D) n (fun j => v j * v j)) (npts F (S D) n * sumD F (S D) n (fun j => u j * u j)))
  /\ ((forall k, cnorm2 (E k) = 1) ->
     npts F (S D) n * sumD F (S D) n (fun j => v j * v j) = npts F (S D) n * sumD F (S D) n (fun j => u j * u j)).
Proof.
  intros F FR le (L1 & L2 & L3 & L4 & L5) n w Hn H1 H2 H3 D u v E Hv. split; intros HE.
  - apply (l2_norm_not_amplified F FR le L1 L3 L4 L5 n w Hn H1 H2 H3 D u v E Hv HE).
  - apply (l2_norm_preserved F FR n w Hn H1 H2 H3 D u v E Hv HE).
Qed.
Print Assumptions C11_l2_norm_not_amplified.

(* the premises are satisfiable: the rationals with their usual order *)
From Coq Require Import Qcanon.
Example C11_ex_order_laws : OrderLaws QcField Qcle.
Proof.
  repeat split.
  - apply Qcle_refl.
  - intros x y z. apply Qcle_trans.
  - intros x y z t. apply Qcplus_le_compat.
  - intros x y Hx Hy. change (0 <= x * y)%Qc. unfold Qcle in *.
    change (this (x * y)%Qc) with (Qred (this x * this y)). rewrite Qred_correct.
    change (this 0%Qc) with 0%Q in *. apply Qmult_le_0_compat; assumption.
  - intros x. change (0 <= x * x)%Qc. unfold Qcle.
    change (this (x * x)%Qc) with (Qred (this x * this x)). rewrite Qred_correct. change (this 0%Qc) with 0%Q.
    destruct (this x) as [a b]. unfold Qle, Qmult. cbn. nia.
Qed.
