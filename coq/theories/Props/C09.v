(* C09 — conserved quantities and equilibria survive the discretisation exactly.
   Proved: the spatial mean is the zero mode of the transform; the conservation-form symbols vanish there (any D); the mean-mode
   coefficient of the conservation-form nonlinear terms vanishes for every input; hence every ETDRK order (stage programs translated
   from the source) leaves the mean unchanged; every constant equilibrium (lambda u + N(u) = 0 mode by mode) is a fixed point of
   every ETD tableau.  Also proved (Nonlin/MeanFree.v, band symmetry m -> -m of the dealiased convolution sums, 2K < N): the mean-mode coefficient of the
   NON-conservative single-channel convection and of the 1D default convection vanishes for every state; the 2D vorticity convection has zero
   mean for every state; the Leray-projected 3D rotational form has zero mean on divergence-free states (the premise is necessary).
   Work (Nonlin/Energy.v): with the pairing <a, b> = sum_{k in band} a(-k) b(k) (for spectra of real fields a(-k) = conj a(k), so this is
   N^D times the L^2 inner product) and the dealiased products with 3K < N, the single-channel Burgers-type convection (both forms) does no
   work on its own state, and the 2D vorticity convection does no work against the vorticity (enstrophy) nor against the stream function
   (energy) - for every state.  Proof: triple sums over a + m + c = 0 in the band are symmetric under permuting the slots (reflection of the
   band) and a derivative symbol is additive, phi(a) + phi(m) + phi(c) = 0.
   The Leray-projected 3D rotational form does no work on divergence-free band-limited states (a . (a x b) = 0 for the band triple sums and
   <u, grad p> = -<div u, p> = 0).
   NOT proved here (checked on the real code by the witness oracle): that the real-field pairing of the implementation (irfftn / Parseval with
   half-spectrum weights, C16/C17) is this bilinear pairing, and rounding. *)
From Coq Require Import ZArith QArith List Bool Lia.
From EXV Require Import Base.Scalar Base.FieldLemmas Spectral.Symbols Layout.Freq DFT.DFT1 Nonlin.Conv Nonlin.Terms ETDRK.Phi Gen.ETDRK
  Steppers.Conservation Nonlin.MeanFree Nonlin.Energy.
Import ListNotations.
Local Open Scope fld_scope.
Ltac splits := repeat match goal with |- _ /\ _ => split end.

(* the mean is the zero mode: rfftn(u)(0) = sum of the grid values = N * mean *)
Theorem C09_mean_is_zero_mode : forall (F : FieldT) (n : nat) (w : F) (u : nat -> F), dft n w u 0 = bsum n u.
Proof. intros. apply dft_zero_mode. Qed.
Print Assumptions C09_mean_is_zero_mode.

(* conservation-form linear symbols vanish at the mean mode (any dimension, any coefficients) *)
Theorem C09_symbols_vanish_at_mean_mode : forall (F : FieldT) (d v xi : list F) (A : list (list F)) (nu mu s2 s4 gam c1 x1 : F) (f1 f2 : bool),
  Forall (fun x => x = 0) d ->
  sym_advection F v d = 0 /\ sym_diffusion F A d = 0 /\ sym_advection_diffusion F v A d = 0
  /\ sym_dispersion F f1 xi d = 0 /\ sym_hyper_diffusion F f2 mu d = 0 /\ sym_burgers F nu d = 0
  /\ sym_kdv F f1 f2 nu x1 mu d = 0 /\ sym_ks F s2 s4 d = 0 /\ sym_cahn_hilliard F nu gam c1 d = 0
  /\ sym_navier_stokes F nu 0 d = 0.
Proof. intros. apply dc_symbols_zero. assumption. Qed.
Print Assumptions C09_symbols_vanish_at_mean_mode.

(* mean-mode coefficient of the conservation-form nonlinear terms, for EVERY input and any product operator *)
Theorem C09_nonlinear_terms_have_zero_mean : forall (F : FieldT) (P2 : field F -> field F -> field F)
    (P3 : field F -> field F -> field F -> field F) (ii s b sc : F) (D : nat) (k0 : idx) (u : field F) (us : list (field F)) (i : nat),
  Forall (fun c => c = 0%Z) k0 -> is_zero k0 = true ->
  conv_sc_cons F P2 ii s D b u k0 = 0
  /\ nth i (conv_mc_cons F P2 ii s D b us) (fzero F) k0 = 0
  /\ gradient_norm F P2 ii s D b true u k0 = 0
  /\ cahn_hilliard F P3 ii s D sc u k0 = 0.
Proof.
  intros F P2 P3 ii s b sc D k0 u us i H0 Hz. splits.
  - apply conv_sc_cons_dc; assumption.
  - apply conv_mc_cons_dc; assumption.
  - apply gradient_norm_dc; assumption.
  - apply cahn_hilliard_dc; assumption.
Qed.
Print Assumptions C09_nonlinear_terms_have_zero_mean.

(* the NON-conservative single-channel convection -b sum_c u d_c u, evaluated with the dealiased pseudo-spectral product on N^D points
   with cutoff K (2K < N), has zero mean for every input state, in any dimension *)
Theorem C09_nonconservative_single_channel_zero_mean : forall (F : FieldT) (D : nat) (N Kc : Z) (ii s b : F) (u : field F),
  (0 < N)%Z -> (0 <= Kc)%Z -> (2 * Kc < N)%Z ->
  conv_sc_noncons F (prod2 F D N Kc) ii s D b u (zeros D) = 0.
Proof. intros. apply conv_sc_noncons_dc; assumption. Qed.
Print Assumptions C09_nonconservative_single_channel_zero_mean.

(* the 1D default Burgers / KdV convection (multi-channel form with one channel, non-conservative) *)
Theorem C09_default_1d_convection_zero_mean : forall (F : FieldT) (N Kc : Z) (ii s b : F) (u : field F),
  (0 < N)%Z -> (0 <= Kc)%Z -> (2 * Kc < N)%Z ->
  nth 0 (conv_mc_noncons F (prod2 F 1 N Kc) ii s 1 b [u]) (fzero F) (zeros 1) = 0.
Proof. intros. apply conv_mc_noncons_1d_dc; assumption. Qed.
Print Assumptions C09_default_1d_convection_zero_mean.

(* 2D vorticity convection -b (u . grad w), u = curl^-1 w through ANY mode-wise stream-function multiplier: zero mean for every state *)
Theorem C09_vorticity_convection_zero_mean : forall (F : FieldT) (D : nat) (N Kc : Z) (ii s b : F) (w : field F),
  (0 < N)%Z -> (0 <= Kc)%Z -> (2 * Kc < N)%Z ->
  vorticity_conv F (prod2 F D N Kc) ii s D b w (zeros D) = 0.
Proof. intros. apply vorticity_conv_dc; assumption. Qed.
Print Assumptions C09_vorticity_convection_zero_mean.

(* 3D rotational form u x curl u, Leray-projected: zero mean of every component on divergence-free band-limited states *)
Theorem C09_rotational_convection_zero_mean : forall (F : FieldT) (N Kc : Z) (ii s : F) (u0 u1 u2 : field F),
  (0 < N)%Z -> (0 <= Kc)%Z -> (2 * Kc < N)%Z ->
  (forall m, in_band Kc m = true -> dc F ii s 0 m * u0 m + dc F ii s 1 m * u1 m + dc F ii s 2 m * u2 m = 0) ->
  forall i, (i < 3)%nat -> nth i (projected_conv F (prod2 F 3 N Kc) ii s 3 [u0; u1; u2]) (fzero F) (zeros 3) = 0.
Proof. intros. apply projected_conv_dc; assumption. Qed.
Print Assumptions C09_rotational_convection_zero_mean.

(* ... and for the terms AS REGENERATED FROM THE SOURCE (Gen/NonlinFuns.v, harness/translate/nonlin.py; tied to the term models in
   Tie/NonlinTie.v) with the concrete dealiasing mask and pseudo-spectral products: the source text of the single-channel convection (both
   forms), of the gradient norm with its mean-mode fix and of the 2D vorticity convection has zero mean for EVERY input state, any D / N / cutoff *)
From EXV Require Import Nonlin.ConvProofs Gen.NonlinFuns Tie.NonlinTie Nonlin.MeanFree Nonlin.TermsProofs.
Theorem C09_code_terms_have_zero_mean : forall (F : FieldT) (D : nat) (N Kc : Z) (ii s ND b : F) (u : field F) (us : list (field F)),
  (0 < N)%Z -> (0 <= Kc)%Z -> (2 * Kc < N)%Z ->
  let M := msk F Kc in let P2 := prod2 F D N Kc in let P3 := prod3 F D N Kc in
  nth 0 (gen_convection F M P2 P3 ii s D ND b true true us) (fzero F) (zeros D) = 0
  /\ nth 0 (gen_convection F M P2 P3 ii s D ND b true false us) (fzero F) (zeros D) = 0
  /\ gen_gradient_norm F M P2 P3 ii s D ND b true u (zeros D) = 0
  /\ gen_vorticity_conv F M P2 P3 ii s D ND b u (zeros D) = 0.
Proof.
  intros F D N Kc ii s ND b u us HN HK H2 M P2 P3.
  assert (Hz : Forall (fun c => c = 0%Z) (zeros D) /\ is_zero (zeros D) = true).
  { unfold zeros. split; [apply Forall_forall; intros x Hx; apply repeat_spec in Hx; exact Hx|].
    unfold is_zero. apply forallb_forall. intros x Hx. apply repeat_spec in Hx. subst x. reflexivity. }
  destruct Hz as [Hz1 Hz2]. splits.
  - unfold M, P2, P3. rewrite convection_sc_cons_tie. apply conv_sc_cons_dc; assumption.
  - unfold M, P2, P3. rewrite convection_sc_noncons_tie. apply conv_sc_noncons_dc; assumption.
  - unfold M, P2, P3. rewrite gradient_norm_tie. apply gradient_norm_dc; assumption.
  - assert (Lext : forall a a' c c' k, (forall x, a x = a' x) -> (forall x, c x = c' x) -> P2 a c k = P2 a' c' k) by (intros; apply prod2_ext; assumption).
    assert (Lidem : forall a k, M (M a) k = M a k) by (intros; apply msk_idem).
    assert (L2M : forall a c k, P2 (M a) (M c) k = P2 a c k) by (intros; apply prod2_msk).
    assert (L3M : forall a c e k, P3 (M a) (M c) (M e) k = P3 a c e k) by (intros; apply prod3_msk).
    rewrite vorticity_conv_tie by assumption. apply vorticity_conv_dc; assumption.
Qed.
Print Assumptions C09_code_terms_have_zero_mean.

(* Burgers-type convection does no work on its own (band-limited) state: conservative and non-conservative single-channel forms, any D *)
Theorem C09_burgers_type_convection_does_no_work : forall (F : FieldT) (D : nat) (N Kc : Z) (ii s b : F) (u : field F),
  (0 < N)%Z -> (0 <= Kc)%Z -> (3 * Kc < N)%Z ->
  pairing F D Kc (msk F Kc u) (conv_sc_cons F (prod2 F D N Kc) ii s D b u) = 0
  /\ pairing F D Kc (msk F Kc u) (conv_sc_noncons F (prod2 F D N Kc) ii s D b u) = 0.
Proof. intros. split; [apply conv_sc_cons_no_work | apply conv_sc_noncons_no_work]; assumption. Qed.
Print Assumptions C09_burgers_type_convection_does_no_work.

(* ... and for the SOURCE text (Gen/NonlinFuns.v, tied in Tie/NonlinTie.v): the single-channel convection of the source, both forms, does no
   work on its own band-limited state (3K < N: the 2/3 rule), for every state in any dimension *)
From EXV Require Import Nonlin.Energy.
Theorem C09_code_burgers_type_convection_does_no_work : forall (F : FieldT) (D : nat) (N Kc : Z) (ii s ND b : F) (u : field F),
  (0 < N)%Z -> (0 <= Kc)%Z -> (3 * Kc < N)%Z ->
  let M := msk F Kc in let P2 := prod2 F D N Kc in let P3 := prod3 F D N Kc in
  pairing F D Kc (msk F Kc u) (fun k => nth 0 (gen_convection F M P2 P3 ii s D ND b true true [u]) (fzero F) k) = 0
  /\ pairing F D Kc (msk F Kc u) (fun k => nth 0 (gen_convection F M P2 P3 ii s D ND b true false [u]) (fzero F) k) = 0.
Proof.
  intros F D N Kc ii s ND b u HN HK H3 M P2 P3. unfold M, P2, P3. split.
  - rewrite (pairing_ext_r F D Kc _ _ (conv_sc_cons F (prod2 F D N Kc) ii s D b u)) by (intros k; rewrite convection_sc_cons_tie; reflexivity).
    apply conv_sc_cons_no_work; assumption.
  - rewrite (pairing_ext_r F D Kc _ _ (conv_sc_noncons F (prod2 F D N Kc) ii s D b u)) by (intros k; rewrite convection_sc_noncons_tie; reflexivity).
    apply conv_sc_noncons_no_work; assumption.
Qed.
Print Assumptions C09_code_burgers_type_convection_does_no_work.

(* 2D vorticity convection: no enstrophy work (<w, N(w)> = 0) and no energy work (<psi, N(w)> = 0, psi the stream function used by the term) *)
Theorem C09_vorticity_convection_does_no_work : forall (F : FieldT) (D : nat) (N Kc : Z) (ii s b : F) (w : field F),
  (0 < N)%Z -> (0 <= Kc)%Z -> (3 * Kc < N)%Z ->
  pairing F D Kc (msk F Kc w) (vorticity_conv F (prod2 F D N Kc) ii s D b w) = 0
  /\ pairing F D Kc (fun k => inv_lap_one F ii s D k * msk F Kc w k) (vorticity_conv F (prod2 F D N Kc) ii s D b w) = 0.
Proof. intros. apply (vorticity_conv_no_work F D N Kc); assumption. Qed.
Print Assumptions C09_vorticity_convection_does_no_work.

(* 3D rotational convection u x curl u with Leray projection: no work on divergence-free band-limited states *)
Theorem C09_rotational_convection_does_no_work : forall (F : FieldT) (N Kc : Z) (ii s : F) (u0 u1 u2 : field F),
  (0 < N)%Z -> (0 <= Kc)%Z -> (3 * Kc < N)%Z ->
  (forall m, in_band Kc m = true -> dc F ii s 0 m * u0 m + dc F ii s 1 m * u1 m + dc F ii s 2 m * u2 m = 0) ->
  let Nl := projected_conv F (prod2 F 3 N Kc) ii s 3 [u0; u1; u2] in
  pairing F 3 Kc (msk F Kc u0) (nth 0 Nl (fzero F)) + pairing F 3 Kc (msk F Kc u1) (nth 1 Nl (fzero F))
  + pairing F 3 Kc (msk F Kc u2) (nth 2 Nl (fzero F)) = 0.
Proof. intros. apply projected_conv_no_work; assumption. Qed.
Print Assumptions C09_rotational_convection_does_no_work.

(* every order leaves a mode unchanged where the propagator is 1 and the nonlinear term vanishes for every input *)
Theorem C09_mean_preserved : forall (F : FieldT) (I : Type) (k0 : I) (E Eh c1 c2 c3 c4 c5 c6 : I -> F) (N : (I -> F) -> (I -> F)),
  E k0 = 1 -> (forall v, N v k0 = 0) -> forall u,
  etdrk0_step F E u k0 = u k0 /\ etdrk1_step F E c1 N u k0 = u k0 /\ etdrk2_step F E c1 c2 N u k0 = u k0
  /\ etdrk3_step F E Eh c1 c2 c3 c4 c5 N u k0 = u k0 /\ etdrk4_step F E Eh c1 c2 c3 c4 c5 c6 N u k0 = u k0.
Proof. intros. apply mean_preserved; assumption. Qed.
Print Assumptions C09_mean_preserved.

(* constant equilibria are fixed points of ETD1, ETD2RK, ETD3RK, ETD4RK (for every h; no restriction on the growth rate in exact arithmetic) *)
Theorem C09_equilibria_are_fixed_points : forall (F : FieldT) (I : Type) (h : F) (lam E Eh : I -> F) (N : (I -> F) -> (I -> F)) (ustar : I -> F),
  (forall u v, (forall k, u k = v k) -> forall k, N u k = N v k) ->
  (forall k, lam k * ustar k + N ustar k = 0) ->
  (forall k, h * lam k = 0 -> E k = 1 /\ Eh k = 1) ->
  forall k, let z := fun k => h * lam k in
    etd1 h z E N ustar k = ustar k /\ etd2rk h z E N ustar k = ustar k
    /\ etd3rk h z E Eh N ustar k = ustar k /\ etd4rk h z E Eh N ustar k = ustar k.
Proof.
  intros F I h lam E Eh N ustar Next Heq HE k z. splits.
  - apply (etd1_fixed_point F I h lam E Eh N ustar Heq HE).
  - apply (etd2rk_fixed_point F I h lam E Eh N Next ustar Heq HE).
  - apply (etd3rk_fixed_point F I h lam E Eh N Next ustar Heq HE).
  - apply (etd4rk_fixed_point F I h lam E Eh N Next ustar Heq HE).
Qed.
Print Assumptions C09_equilibria_are_fixed_points.

(* non-vacuity of the divergence-free premise: every stream function phi gives a divergence-free field (d_1 phi, - d_0 phi, 0) *)
Section NonVacuity.
  Variable F : FieldT.
  Add Field FfC09 : (fth F).
  Example C09_divergence_free_states_exist : forall (ii s : F) (phi : field F) (m : idx),
    dc F ii s 0 m * (dc F ii s 1 m * phi m) + dc F ii s 1 m * (- dc F ii s 0 m * phi m) + dc F ii s 2 m * 0 = 0.
  Proof. intros ii s phi m. ring. Qed.
End NonVacuity.
