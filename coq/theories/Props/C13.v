(* C13 — specific, generic, normalized and difficulty interfaces give the same dynamics.
   Subjects: Gen/GenericUtils.v (regenerated from exponax/stepper/generic/_utils.py on every run),
   Spectral/Symbols.v (hand-written symbols of every stepper class, tied to the code by exact correspondence at every
   stored mode), ETDRK/Phi.v (the tableaux, tied to the code by C02).  F is any field of characteristic 0. *)
From Coq Require Import ZArith QArith List Bool Lia.
From EXV Require Import Base.Scalar Base.FieldLemmas Spectral.Symbols Gen.GenericUtils Tie.GenericUtilsTie
  Steppers.Generic ETDRK.Phi ETDRK.Scaling Nonlin.Conv Nonlin.Terms Nonlin.Scales.
Import ListNotations.
Local Open Scope fld_scope.
Ltac splits := repeat match goal with |- _ /\ _ => split end.

(* normalize/denormalize are mutual inverses and follow alpha_j = a_j dt / L^j, beta_1 = b dt / L, beta_2 = b dt / L^2, beta = c dt *)
Theorem C13_normalization_inverses : forall (F : FieldT) (L dt : F) (a : list F) (b : F), L <> 0 -> dt <> 0 ->
  denormalize_coefficients F L dt (normalize_coefficients F L dt a) = a
  /\ normalize_coefficients F L dt (denormalize_coefficients F L dt a) = a
  /\ (forall j, (j < length a)%nat -> nth j (normalize_coefficients F L dt a) 0 = nth j a 0 * dt / fpow L j)
  /\ denormalize_convection_scale F L dt (normalize_convection_scale F L dt b) = b
  /\ normalize_convection_scale F L dt (denormalize_convection_scale F L dt b) = b
  /\ normalize_convection_scale F L dt b = b * dt / L
  /\ denormalize_gradient_norm_scale F L dt (normalize_gradient_norm_scale F L dt b) = b
  /\ normalize_gradient_norm_scale F L dt (denormalize_gradient_norm_scale F L dt b) = b
  /\ normalize_gradient_norm_scale F L dt b = b * dt / (L * L)
  /\ denormalize_polynomial_scales F L dt (normalize_polynomial_scales F L dt a) = a
  /\ normalize_polynomial_scales F L dt (denormalize_polynomial_scales F L dt a) = a.
Proof.
  intros F L dt a b HL Hdt.
  destruct (convection_inverse F L dt HL Hdt b) as (C1 & C2 & C3).
  destruct (gradient_norm_inverse F L dt HL Hdt b) as (G1 & G2 & G3).
  destruct (polynomial_inverse F L dt Hdt a) as (P1 & P2).
  splits; try assumption.
  - apply denormalize_normalize; assumption.
  - apply normalize_denormalize; assumption.
  - intros j Hj. apply normalize_formula. exact Hj.
Qed.
Print Assumptions C13_normalization_inverses.

(* reduce/extract (difficulty) are mutual inverses and follow gamma_0 = alpha_0, gamma_j = alpha_j N^j 2^(j-1) D,
   delta_1 = beta_1 M N D, delta_2 = beta_2 M N^2 D *)
Theorem C13_difficulty_inverses : forall (F : FieldT) (D N M : F) (a : list F) (b b0 b1 b2 : F), D <> 0 -> N <> 0 -> M <> 0 ->
  extract_normalized_coefficients_from_difficulty F D N (reduce_normalized_coefficients_to_difficulty F D N a) = a
  /\ reduce_normalized_coefficients_to_difficulty F D N (extract_normalized_coefficients_from_difficulty F D N a) = a
  /\ (forall j, (j < length a)%nat ->
        nth j (reduce_normalized_coefficients_to_difficulty F D N a) 0
        = match j with O => nth 0 a 0 | S j' => nth j a 0 * fpow N j * fpow (fz 2) j' * D end)
  /\ extract_normalized_convection_scale_from_difficulty F D N M (reduce_normalized_convection_scale_to_difficulty F D N M b) = b
  /\ reduce_normalized_convection_scale_to_difficulty F D N M (extract_normalized_convection_scale_from_difficulty F D N M b) = b
  /\ reduce_normalized_convection_scale_to_difficulty F D N M b = b * M * N * D
  /\ extract_normalized_gradient_norm_scale_from_difficulty F D N M (reduce_normalized_gradient_norm_scale_to_difficulty F D N M b) = b
  /\ reduce_normalized_gradient_norm_scale_to_difficulty F D N M (extract_normalized_gradient_norm_scale_from_difficulty F D N M b) = b
  /\ reduce_normalized_gradient_norm_scale_to_difficulty F D N M b = b * M * (N * N) * D
  /\ extract_normalized_nonlinear_scales_from_difficulty F D N M (reduce_normalized_nonlinear_scales_to_difficulty F D N M [b0; b1; b2]) = [b0; b1; b2]
  /\ reduce_normalized_nonlinear_scales_to_difficulty F D N M (extract_normalized_nonlinear_scales_from_difficulty F D N M [b0; b1; b2]) = [b0; b1; b2].
Proof.
  intros F D N M a b b0 b1 b2 HD HN HM.
  destruct (convection_difficulty_inverse F D N M HD HN HM b) as (C1 & C2 & C3).
  destruct (gradient_norm_difficulty_inverse F D N M HD HN HM b) as (G1 & G2 & G3).
  destruct (nonlinear_difficulty_inverse F D N M HD HN HM b0 b1 b2) as (N1 & N2).
  splits; try assumption.
  - apply extract_reduce; assumption.
  - apply reduce_extract; assumption.
  - intros j Hj. apply reduce_formula. exact Hj.
Qed.
Print Assumptions C13_difficulty_inverses.

(* linear dynamics: dt * symbol_{L,a} = symbol_{1,alpha} at every mode (tp stands for 2 pi, ii for the imaginary unit),
   and a rescaling (L,dt,a_j) -> (sL, t dt, a_j s^j / t) does not change the normalized coefficients *)
Theorem C13_normalized_symbol : forall (F : FieldT) (ii tp L dt s t : F) (a : list F) (k : list Z),
  L <> 0 -> s <> 0 -> t <> 0 -> dt <> 0 ->
  dt * poly_sym F a (dop F ii (tp / L) k) = poly_sym F (normalize_coefficients F L dt a) (dop F ii (tp / 1) k)
  /\ normalize_coefficients F (s * L) (t * dt) (imap (fun j aj => aj * fpow s j / t) a) = normalize_coefficients F L dt a.
Proof.
  intros. split; [apply normalized_symbol_eq | apply rescaling_invariance]; assumption.
Qed.
Print Assumptions C13_normalized_symbol.

(* every ETD tableau depends on (h, N) only through h*N once z = h*lambda is fixed: the step with (h, N) is the step with
   time step 1 and nonlinear term h*N -- so a normalized stepper (L = 1, dt = 1, alpha, beta) reproduces the physical one *)
Theorem C13_only_groups_matter : forall (F : FieldT) (I : Type) (h : F) (z E Eh : I -> F) (N : (I -> F) -> (I -> F)),
  (forall u v, (forall k, u k = v k) -> forall k, N u k = N v k) ->
  forall u k,
    etd1 h z E N u k = etd1 1 z E (fun v k => h * N v k) u k
    /\ etd2rk h z E N u k = etd2rk 1 z E (fun v k => h * N v k) u k
    /\ etd3rk h z E Eh N u k = etd3rk 1 z E Eh (fun v k => h * N v k) u k
    /\ etd4rk h z E Eh N u k = etd4rk 1 z E Eh (fun v k => h * N v k) u k.
Proof.
  intros F I h z E Eh N Next u k. splits.
  - apply etd1_scaling.
  - apply etd2rk_scaling; assumption.
  - apply etd3rk_scaling; assumption.
  - apply etd4rk_scaling; assumption.
Qed.
Print Assumptions C13_only_groups_matter.

(* every concrete stepper has the linear symbol of the generic stepper with the equivalent coefficient list (D = 1,2,3);
   a zeroth-order coefficient c_0 corresponds to a_0 = c_0 / D because the generic symbol counts a_0 once per axis *)
(* the built-in nonlinear terms on a domain of extent L (derivative factor s = 2 pi / L) are the unit-factor terms with the scale b s for
   the terms with one derivative and b s^2 for the gradient norm; together with C13_only_groups_matter (h N enters the tableaux) this is the
   normalisation beta_1 = b dt / L, beta_2 = b dt / L^2 of the normalized steppers - every D, N, band, state, stored mode *)
Theorem C13_nonlinear_scales : forall (F : FieldT) (D : nat) (N Kc : Z) (ii s b : F) (zf : bool) (u : field F) (k : idx),
  conv_sc_cons F (prod2 F D N Kc) ii s D b u k = conv_sc_cons F (prod2 F D N Kc) ii 1 D (b * s) u k
  /\ conv_sc_noncons F (prod2 F D N Kc) ii s D b u k = conv_sc_noncons F (prod2 F D N Kc) ii 1 D (b * s) u k
  /\ gradient_norm F (prod2 F D N Kc) ii s D b zf u k = gradient_norm F (prod2 F D N Kc) ii 1 D (b * s * s) zf u k.
Proof. intros. apply builtin_terms_scale. Qed.
Print Assumptions C13_nonlinear_scales.

(* ... and for the terms AS REGENERATED FROM THE SOURCE (Gen/NonlinFuns.v, tied in Tie/NonlinTie.v): on the source text, the single-channel
   convection with scale b on a domain of extent L (s = 2 pi / L) is the same term with scale b s on the unit-frequency domain, the gradient
   norm likewise with b s^2 - the normalisation beta_1 = b dt / L, beta_2 = b dt / L^2 of the interfaces, for every state and mode *)
From EXV Require Import Gen.NonlinFuns Tie.NonlinTie.
Theorem C13_code_nonlinear_scales : forall (F : FieldT) (D : nat) (N Kc : Z) (ii s ND b : F) (zf : bool) (us : list (field F)) (u : field F) (k : idx),
  let M := msk F Kc in let P2 := prod2 F D N Kc in let P3 := prod3 F D N Kc in
  nth 0 (gen_convection F M P2 P3 ii s D ND b true true us) (fzero F) k = nth 0 (gen_convection F M P2 P3 ii 1 D ND (b * s) true true us) (fzero F) k
  /\ nth 0 (gen_convection F M P2 P3 ii s D ND b true false us) (fzero F) k = nth 0 (gen_convection F M P2 P3 ii 1 D ND (b * s) true false us) (fzero F) k
  /\ gen_gradient_norm F M P2 P3 ii s D ND b zf u k = gen_gradient_norm F M P2 P3 ii 1 D ND (b * s * s) zf u k.
Proof.
  intros F D N Kc ii s ND b zf us u k M P2 P3. unfold M, P2, P3.
  destruct (builtin_terms_scale F D N Kc ii s b zf (nth 0 us (fzero F)) k) as (A & B & _).
  destruct (builtin_terms_scale F D N Kc ii s b zf u k) as (_ & _ & C). splits.
  - rewrite !convection_sc_cons_tie. exact A.
  - rewrite !convection_sc_noncons_tie. exact B.
  - rewrite !gradient_norm_tie. exact C.
Qed.
Print Assumptions C13_code_nonlinear_scales.

Theorem C13_specific_equals_generic : forall (F : FieldT) (d : list F), (1 <= length d <= 3)%nat ->
  forall c nu xi mu s2 s4 drag r c1 a0d a0r a0c,
  sym_advection F (const_vec F c d) d = poly_sym F [0; - c] d
  /\ sym_diffusion F (diag_mat F (const_vec F nu d)) d = poly_sym F [0; 0; nu] d
  /\ sym_advection_diffusion F (const_vec F c d) (diag_mat F (const_vec F nu d)) d = poly_sym F [0; - c; nu] d
  /\ sym_dispersion F false (const_vec F xi d) d = poly_sym F [0; 0; 0; xi] d
  /\ sym_hyper_diffusion F false mu d = poly_sym F [0; 0; 0; 0; - mu] d
  /\ sym_burgers F nu d = poly_sym F [0; 0; nu] d
  /\ sym_kdv F false false nu xi mu d = poly_sym F [0; 0; nu; - xi; - mu] d
  /\ sym_ks F s2 s4 d = poly_sym F [0; 0; - s2; 0; - s4] d
  /\ (fz (Z.of_nat (length d)) * a0d = drag -> sym_navier_stokes F nu drag d = poly_sym F [a0d; 0; nu] d)
  /\ (fz (Z.of_nat (length d)) * a0r = r -> sym_fisher F nu r d = poly_sym F [a0r; 0; nu] d)
  /\ (fz (Z.of_nat (length d)) * a0c = c1 -> sym_allen_cahn F nu c1 d = poly_sym F [a0c; 0; nu] d).
Proof.
  intros F d Hd c nu xi mu s2 s4 drag r c1 a0d a0r a0c. splits.
  - apply advection_generic; exact Hd.
  - apply diffusion_generic; exact Hd.
  - apply advection_diffusion_generic; exact Hd.
  - apply dispersion_generic; exact Hd.
  - apply hyper_diffusion_generic; exact Hd.
  - apply burgers_generic; exact Hd.
  - apply kdv_generic; exact Hd.
  - apply ks_generic; exact Hd.
  - apply navier_stokes_generic; exact Hd.
  - apply fisher_generic; exact Hd.
  - apply allen_cahn_generic; exact Hd.
Qed.
Print Assumptions C13_specific_equals_generic.

(* the constructors of the Normalized* / Difficulty* classes only forward to their base class; the chain of super().__init__ calls is
   re-translated from the source on every run (harness/translate/wiring.py -> Gen/Wiring.v: the tuple of the values that reach the
   General* constructor, keywords in alphabetical order, closed over stepper/generic).  A Normalized class is the General class on the
   unit domain with unit time step and the given coefficients / flags / numerics; a Difficulty class is the Normalized class with the
   coefficients extracted by the conversion functions of Gen/GenericUtils.v (themselves translated, inverses by C13_difficulty_inverses);
   the simple linear difficulty puts its one value behind `order` zeros. *)
From EXV Require Import Gen.Wiring.
Theorem C13_code_constructor_wiring : forall (K : Ops) (D N ord M : Z) (a nl pl : list K) (b g frac R mabs : K) (sc cons : bool),
  let eL := extract_normalized_coefficients_from_difficulty K (fz D) (fz N) in
  gen_wire_NormalizedLinearStepper K D N a = (fz 1, fz 1, a, N, D)
  /\ gen_wire_DifficultyLinearStepper K D N a = gen_wire_NormalizedLinearStepper K D N (eL a)
  /\ gen_wire_DifficultyLinearStepperSimple K D N g ord = gen_wire_DifficultyLinearStepper K D N (repeat (fz 0) (Z.to_nat ord) ++ [g])
  /\ gen_wire_NormalizedConvectionStepper K D N a b sc cons ord frac M R = (R, cons, b, frac, fz 1, fz 1, a, M, N, D, ord, sc)
  /\ gen_wire_DifficultyConvectionStepper K D N a b sc cons mabs ord frac M R
     = gen_wire_NormalizedConvectionStepper K D N (eL a) (extract_normalized_convection_scale_from_difficulty K (fz D) (fz N) mabs b) sc cons ord frac M R
  /\ gen_wire_NormalizedGradientNormStepper K D N a b ord frac M R = (R, frac, fz 1, fz 1, b, a, M, N, D, ord)
  /\ gen_wire_DifficultyGradientNormStepper K D N a b mabs ord frac M R
     = gen_wire_NormalizedGradientNormStepper K D N (eL a) (extract_normalized_gradient_norm_scale_from_difficulty K (fz D) (fz N) mabs b) ord frac M R
  /\ gen_wire_NormalizedNonlinearStepper K D N a nl ord frac M R = (R, frac, fz 1, fz 1, a, nl, M, N, D, ord)
  /\ gen_wire_DifficultyNonlinearStepper K D N a nl mabs ord frac M R
     = gen_wire_NormalizedNonlinearStepper K D N (eL a) (extract_normalized_nonlinear_scales_from_difficulty K (fz D) (fz N) mabs nl) ord frac M R
  /\ gen_wire_NormalizedPolynomialStepper K D N a pl ord frac M R = (R, frac, fz 1, fz 1, a, M, N, D, ord, pl)
  /\ gen_wire_DifficultyPolynomialStepper K D N a pl ord frac M R = gen_wire_NormalizedPolynomialStepper K D N (eL a) pl ord frac M R.
Proof. intros. splits; reflexivity. Qed.
Print Assumptions C13_code_constructor_wiring.

(* `_build_nonlinear_fun` of every stepper class is re-translated from the source on every run (harness/translate/buildnl.py ->
   Gen/BuildNL.v, closed over exponax/stepper; the arguments are the constructor arguments of the stepper, stored unchanged).  A specific
   stepper and its generic counterpart build the SAME nonlinear function from the corresponding arguments: Burgers / KdV / conservative KS
   = general convection, KS = general gradient norm (mean mode removed in both), Navier-Stokes / Kolmogorov vorticity = the two branches
   of the general vorticity stepper, Fisher-KPP / Allen-Cahn / Swift-Hohenberg = the general polynomial stepper with the documented
   coefficient lists; linear steppers build the zero function. *)
From EXV Require Import Steppers.NLConfig Gen.BuildNL.
Theorem C13_code_nonlinear_wiring : forall (K : Ops) (b frac r c3 nu f kr : K) (sc cons : bool) (m : Z) (pl : list K),
  (gen_nl_Burgers K cons b frac sc = gen_nl_GeneralConvectionStepper K cons b frac sc
   /\ gen_nl_KortewegDeVries K cons b frac sc = gen_nl_GeneralConvectionStepper K cons b frac sc
   /\ gen_nl_KuramotoSivashinskyConservative K cons b frac sc = gen_nl_GeneralConvectionStepper K cons b frac sc
   /\ gen_nl_GeneralConvectionStepper K cons b frac sc = NL_ConvectionNonlinearFun cons frac b sc)
  /\ (gen_nl_KuramotoSivashinsky K frac b = gen_nl_GeneralGradientNormStepper K frac b
      /\ gen_nl_GeneralGradientNormStepper K frac b = NL_GradientNormNonlinearFun frac b true)
  /\ (gen_nl_NavierStokesVorticity K frac b = gen_nl_GeneralVorticityConvectionStepper K frac m r true b
      /\ gen_nl_KolmogorovFlowVorticity K b frac m r = gen_nl_GeneralVorticityConvectionStepper K frac m r false b
      /\ gen_nl_NavierStokesVorticity K frac b = NL_VorticityConvection2d b frac
      /\ gen_nl_KolmogorovFlowVorticity K b frac m r = NL_VorticityConvection2dKolmogorov b frac m r)
  /\ (gen_nl_NavierStokesVelocity K frac = NL_ProjectedConvection3d frac
      /\ gen_nl_KolmogorovFlowVelocity K frac m r = NL_ProjectedConvection3dKolmogorov frac m r)
  /\ (gen_nl_FisherKPP K frac r = gen_nl_GeneralPolynomialStepper K frac [fz 0; fz 0; oopp r]
      /\ gen_nl_AllenCahn K frac c3 = gen_nl_GeneralPolynomialStepper K frac [fz 0; fz 0; fz 0; c3]
      /\ gen_nl_SwiftHohenberg K frac pl = gen_nl_GeneralPolynomialStepper K frac pl
      /\ gen_nl_GeneralPolynomialStepper K frac pl = NL_PolynomialNonlinearFun pl frac
      /\ gen_nl_GeneralNonlinearStepper K frac pl = NL_GeneralNonlinearFun frac pl true)
  /\ (gen_nl_CahnHilliard K frac nu c3 = NL_CahnHilliardNonlinearFun frac (omul nu c3)
      /\ gen_nl_GrayScott K frac f kr = NL_GrayScottNonlinearFun frac f kr
      /\ gen_nl_BelousovZhabotinsky K frac = NL_BelousovZhabotinskyNonlinearFun frac)
  /\ (gen_nl_Advection K = NL_ZeroNonlinearFun K /\ gen_nl_Diffusion K = NL_ZeroNonlinearFun K
      /\ gen_nl_AdvectionDiffusion K = NL_ZeroNonlinearFun K /\ gen_nl_Dispersion K = NL_ZeroNonlinearFun K
      /\ gen_nl_HyperDiffusion K = NL_ZeroNonlinearFun K /\ gen_nl_Wave K = NL_ZeroNonlinearFun K
      /\ gen_nl_GeneralLinearStepper K = NL_ZeroNonlinearFun K).
Proof. intros. splits; reflexivity. Qed.
Print Assumptions C13_code_nonlinear_wiring.

(* non-vacuity over the rationals *)
From Coq Require Import Qcanon.
Example C13_ex : map this (normalize_coefficients QcField (Q2Qc 2) (Q2Qc (1 # 4)) [Q2Qc 3; Q2Qc 5; Q2Qc 8])
                 = [3 # 4; 5 # 8; 1 # 2]%Q.
Proof. vm_compute. reflexivity. Qed.
