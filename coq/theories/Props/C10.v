(* C10 — incompressibility is enforced and preserved.
   Models: Spectral/Operators.v (leray_mode, make_incompressible_mode; hand-written from nonlin_fun/_leray.py and
   _spectral.make_incompressible, exact-rational correspondence at every stored mode), Nonlin/Terms.v (projected_conv ends with
   leray), Gen/ETDRK.v (stage programs translated from the source).  d is the list of derivative-operator values at one mode (D = 2, 3). *)
From Coq Require Import ZArith QArith List Bool Lia.
From EXV Require Import Base.Scalar Base.FieldLemmas Base.Cplx Spectral.Symbols Spectral.Operators Spectral.OperatorsProofs Spectral.RealSymbols
  Steppers.DivFree Gen.ETDRK.
Import ListNotations.
Local Open Scope fld_scope.
Ltac splits := repeat match goal with |- _ /\ _ => split end.

(* zero divergence, idempotence, divergence-free fields unchanged, identity at the mean mode *)
Theorem C10_leray_projection : forall (F : FieldT) (d u : list F), (2 <= length d <= 3)%nat -> length u = length d ->
  (lapm F d <> 0 -> divm F d (leray_mode F d u) = 0)
  /\ leray_mode F d (leray_mode F d u) = leray_mode F d u
  /\ (divm F d u = 0 -> leray_mode F d u = u)
  /\ (lapm F d = 0 -> leray_mode F d u = u).
Proof.
  intros F d u Hd Hl. splits.
  - intros Hn. apply leray_div_free; assumption.
  - apply leray_idempotent; assumption.
  - intros Hz. apply leray_fixes_div_free; assumption.
  - intros Hz. apply leray_mean_mode; assumption.
Qed.
Print Assumptions C10_leray_projection.

(* make_incompressible and the Leray projection agree at every mode; the premise (the Laplace symbol vanishes only where d = 0)
   holds for d = i*kappa with real kappa over a formally real field, independently of the domain extent *)
Theorem C10_make_incompressible_is_leray : forall (F : FieldT) (d u : list F), (2 <= length d <= 3)%nat -> length u = length d ->
  (lapm F d = 0 -> Forall (fun x => x = 0) d) -> make_incompressible_mode F d u = leray_mode F d u.
Proof. intros F d u Hd Hl HR. apply make_incompressible_eq_leray; assumption. Qed.
Print Assumptions C10_make_incompressible_is_leray.

Theorem C10_laplace_symbol_premise : forall (F : FieldT), FormallyRealL F -> forall kap : list F,
  lapm (COps F) (dreal F kap) = @o0 (COps F) -> Forall (fun x => x = @o0 (COps F)) (dreal F kap).
Proof. intros F FR kap. apply lap_zero_real. exact FR. Qed.
Print Assumptions C10_laplace_symbol_premise.

(* every ETDRK order maps divergence-free states to divergence-free states when the nonlinear term is divergence free for every
   input (it ends with the Leray projection) and the propagators/coefficients are the same for all channels *)
Theorem C10_steppers_preserve_div_free : forall (F : FieldT) (M : Type) (d : nat -> M -> F) (N : (nat * M -> F) -> (nat * M -> F)),
  (forall v k, div3 F M d (N v) k = 0) ->
  forall (E Eh c1 c2 c3 c4 c5 c6 : nat * M -> F) (E0 Eh0 g1 g2 g3 g4 g5 g6 : M -> F),
  (forall c k, E (c, k) = E0 k) -> (forall c k, Eh (c, k) = Eh0 k) ->
  (forall c k, c1 (c, k) = g1 k) -> (forall c k, c2 (c, k) = g2 k) -> (forall c k, c3 (c, k) = g3 k) ->
  (forall c k, c4 (c, k) = g4 k) -> (forall c k, c5 (c, k) = g5 k) -> (forall c k, c6 (c, k) = g6 k) ->
  forall u, (forall k, div3 F M d u k = 0) -> forall k,
    div3 F M d (etdrk0_step F E u) k = 0
    /\ div3 F M d (etdrk1_step F E c1 N u) k = 0
    /\ div3 F M d (etdrk2_step F E c1 c2 N u) k = 0
    /\ div3 F M d (etdrk3_step F E Eh c1 c2 c3 c4 c5 N u) k = 0
    /\ div3 F M d (etdrk4_step F E Eh c1 c2 c3 c4 c5 c6 N u) k = 0.
Proof.
  intros F M d N HN E Eh c1 c2 c3 c4 c5 c6 E0 Eh0 g1 g2 g3 g4 g5 g6 HE HEh H1 H2 H3 H4 H5 H6 u Hu k. splits.
  - eapply etdrk0_preserves; eassumption.
  - eapply etdrk1_preserves; eassumption.
  - eapply etdrk2_preserves; eassumption.
  - eapply etdrk3_preserves; eassumption.
  - eapply etdrk4_preserves; eassumption.
Qed.
Print Assumptions C10_steppers_preserve_div_free.

(* make_incompressible of the source (exponax/_spectral.py; the arithmetic between fft and ifft is re-translated on every run by
   harness/translate/linops.py -> Gen/OperatorsGen.v, together with build_laplace_operator which it calls) is the model's make_incompressible_mode at every
   mode, for every number of axes; with C10_make_incompressible_is_leray and C10_leray_projection the SOURCE text is divergence free *)
From EXV Require Import Gen.LinOps Gen.OperatorsGen Tie.LinOpsTie Tie.IncompressibleTie.
Theorem C10_code_make_incompressible_is_model : forall (F : FieldT) (d u : list F),
  gen_make_incompressible F d u = make_incompressible_mode F d u
  /\ ((2 <= length d <= 3)%nat -> length u = length d -> (lapm F d = 0 -> Forall (fun x => x = 0) d) -> lapm F d <> 0 ->
      divm F d (gen_make_incompressible F d u) = 0).
Proof.
  intros F d u. split; [apply make_incompressible_tie|].
  intros Hd Hl HR Hn. rewrite make_incompressible_tie, make_incompressible_eq_leray by assumption.
  apply leray_div_free; assumption.
Qed.
Print Assumptions C10_code_make_incompressible_is_model.

(* ... and the SOURCE text of ProjectedConvection3d (Gen/NonlinFuns.v, harness/translate/nonlin.py, tied to the term model in Tie/NonlinTie.v)
   returns, for EVERY input state, mask and product operators, a field whose divergence vanishes at every mode with non-zero Laplace symbol:
   its last operation is the Leray projection, which is leray_mode mode by mode (Tie/LerayTie.v) *)
From EXV Require Import Nonlin.Conv Nonlin.Terms Gen.NonlinFuns Tie.NonlinTie Tie.LerayTie.
Theorem C10_code_projected_convection_is_divergence_free : forall (F : FieldT) (M : field F -> field F) (P2 : field F -> field F -> field F)
    (P3 : field F -> field F -> field F -> field F) (ii s ND : F) (us : list (field F)) (k : idx),
  lapm F (dvec F ii s k) <> 0 ->
  divm F (dvec F ii s k) (map (fun i => nth i (gen_projected_conv F M P2 P3 ii s 3 ND us) (fzero F) k) [0; 1; 2]%nat) = 0.
Proof.
  intros F M P2 P3 ii s ND us k Hn. cbn [map]. rewrite !projected_conv_tie. unfold projected_conv, cross. cbv zeta.
  match goal with |- divm _ _ [nth 0 (leray _ _ _ _ [?a; ?b; ?c]) _ _; _; _] = _ => exact (leray_output_divergence_free F ii s a b c k Hn) end.
Qed.
Print Assumptions C10_code_projected_convection_is_divergence_free.

Example C10_ex_rationals_formally_real : FormallyRealL QcField.
Proof. exact Qc_formally_real_list. Qed.
