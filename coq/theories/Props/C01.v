(* C01 — linear steppers advance band-limited states by the exact PDE solution.
   Chain of statements: (i) the linear symbol the code builds for each class (Spectral/Symbols.v, tied to the code by the
   exact-rational correspondence at every stored mode) is the symbol of the DOCUMENTED operator (Spectral/LinOp.v);
   (ii) order 0 multiplies mode k by exp(dt * lambda_k) (Gen/ETDRK.v, translated from the source) -- which is the exact
   solution operator of u_t = P(d)u on exp(i kappa.x); (iii) hence the semigroup and inverse laws, for ANY dt (no CFL limit),
   any n, any state; (iv) the wave stepper's diagonalisation is the exact harmonic-oscillator solution, mean mode included.
   cexp is the complex exponential, used only through exp(a+b) = exp a exp b, exp 0 = 1.
   That mode k of the rfft layout carries exp(i kappa_k . x) on the grid is C04. *)
From Coq Require Import ZArith QArith List Bool Lia.
From EXV Require Import Base.Scalar Base.FieldLemmas Spectral.Symbols Spectral.LinOp Steppers.Linear Steppers.LinearProofs Gen.ETDRK
  Gen.LinOps Tie.LinOpsTie.
Import ListNotations.
Local Open Scope fld_scope.
Ltac splits := repeat match goal with |- _ /\ _ => split end.

Theorem C01_symbols_are_documented : forall (F : FieldT) (d v xi : list F) (mu : F) (f1 f2 : bool) (a : list F),
  (1 <= length d <= 3)%nat -> length v = length d -> length xi = length d -> (length a <= 5)%nat ->
  sym_advection F v d = symbol_of F (pde_advection F v) d
  /\ sym_dispersion F f1 xi d = symbol_of F (pde_dispersion F f1 xi) d
  /\ sym_hyper_diffusion F f2 mu d = symbol_of F (pde_hyper_diffusion F f2 mu (length d)) d
  /\ poly_sym F a d = symbol_of F (pde_general F a (length d)) d.
Proof.
  intros F d v xi mu f1 f2 a Hd Hv Hxi Ha. splits.
  - apply advection_is_documented; assumption.
  - apply dispersion_is_documented; assumption.
  - apply hyper_diffusion_is_documented; assumption.
  - apply general_is_documented; assumption.
Qed.
Print Assumptions C01_symbols_are_documented.

(* anisotropic diffusion u_t = div(A grad u), every (not necessarily symmetric) matrix A, D = 1, 2, 3 *)
Theorem C01_diffusion_is_documented : forall (F : FieldT) (a11 a12 a13 a21 a22 a23 a31 a32 a33 d1 d2 d3 : F),
  sym_diffusion F [[a11]] [d1] = symbol_of F (pde_diffusion F [[a11]]) [d1]
  /\ sym_diffusion F [[a11; a12]; [a21; a22]] [d1; d2] = symbol_of F (pde_diffusion F [[a11; a12]; [a21; a22]]) [d1; d2]
  /\ sym_diffusion F [[a11; a12; a13]; [a21; a22; a23]; [a31; a32; a33]] [d1; d2; d3]
     = symbol_of F (pde_diffusion F [[a11; a12; a13]; [a21; a22; a23]; [a31; a32; a33]]) [d1; d2; d3].
Proof.
  intros. splits; [apply diffusion_is_documented_1 | apply diffusion_is_documented_2 | apply diffusion_is_documented_3].
Qed.
Print Assumptions C01_diffusion_is_documented.

(* order 0: the code's step is multiplication by exp(dt*lambda_k) with the code's own exponent expression *)
Theorem C01_step_is_propagator : forall (F : FieldT) (cexp : F -> F) (I : Type) (dt : F) (lam u : I -> F) (k : I),
  etdrk0_step F (fun k => cexp (base_exp_arg F dt (lam k))) u k = cexp (dt * lam k) * u k
  /\ linear_step F cexp I dt lam u k = cexp (dt * lam k) * u k.
Proof. intros. split; reflexivity. Qed.
Print Assumptions C01_step_is_propagator.

(* n calls with dt = one call with n*dt; a call with -dt undoes a call with dt *)
Theorem C01_semigroup_and_inverse : forall (F : FieldT) (cexp : F -> F),
  (forall a b, cexp (a + b) = cexp a * cexp b) -> cexp 0 = 1 ->
  forall (I : Type) (lam : I -> F) (dt : F) (u : I -> F) (k : I),
  (forall n : nat, iter_step F I n (linear_step F cexp I dt lam) u k = linear_step F cexp I (fz (Z.of_nat n) * dt) lam u k)
  /\ linear_step F cexp I (- dt) lam (linear_step F cexp I dt lam u) k = u k.
Proof.
  intros F cexp Hadd H0 I lam dt u k. split.
  - intros n. apply semigroup; assumption.
  - apply inverse_step; assumption.
Qed.
Print Assumptions C01_semigroup_and_inverse.

(* wave stepper: each mode is the exact solution of h_tt = -(c rho)^2 h (independent of the normalisation 1/sqrt 2),
   the mean mode drifts with the mean velocity *)
Theorem C01_wave_exact : forall (F : FieldT) (ii s c rho dt Ep Em h v : F),
  ii * ii = - (1) -> fz 2 * (s * s) = 1 -> c <> 0 ->
  (rho <> 0 ->
     wave_mode F ii s c rho dt Ep Em false h v
     = (Ccos F Ep Em * h + Csin F ii Ep Em / (c * rho) * v, - (c * rho) * Csin F ii Ep Em * h + Ccos F Ep Em * v))
  /\ (rho = 0 -> Ep = 1 -> Em = 1 -> wave_mode F ii s c rho dt Ep Em true h v = (h + dt * v, v)).
Proof.
  intros F ii s c rho dt Ep Em h v Hi Hs Hc. split.
  - intros Hr. apply wave_exact; assumption.
  - intros Hr H1 H2. apply wave_exact_dc; assumption.
Qed.
Print Assumptions C01_wave_exact.

(* the whole step_fourier of the Wave stepper (forward transform, order-0 integrator, inverse transform, mean-mode correction) is
   re-translated from the source for one Fourier mode on every run (harness/translate/wave.py -> Gen/WaveGen.v) and IS wave_mode with
   s = 1 / sqrt2, for any value sqrt2 of jnp.sqrt(2) (C01_wave_exact needs 2 s^2 = 1 only); its eigenvalue pair is (i c rho, -i c rho),
   whose exponentials are the Ep, Em of the order-0 integrator *)
From EXV Require Import Gen.WaveGen.
Theorem C01_code_wave_step_is_model : forall (F : FieldT) (ii sqrt2 c rho dt Ep Em h v : F) (is_dc : bool),
  gen_wave_step F ii sqrt2 c rho dt Ep Em is_dc h v = wave_mode F ii (1 / sqrt2) c rho dt Ep Em is_dc h v
  /\ gen_wave_symbol F ii c rho = (wave_symbol F ii c rho 0, wave_symbol F ii c rho 1).
Proof. intros. split; reflexivity. Qed.
Print Assumptions C01_code_wave_step_is_model.

(* (i') the symbols of (i) are not only compared with the code at sample modes: Gen/LinOps.v is regenerated on every run by
   harness/translate/linops.py from the source text of exponax/_spectral.py (build_laplace_operator,
   build_gradient_inner_product_operator) and of EVERY `_build_linear_operator` under exponax/stepper (the translator fails if a
   class defines one that it does not cover; only Wave is excluded, see C01_wave_exact), and the generated per-mode symbols equal
   the hand-written ones for all coefficients, flags and derivative vectors d of any length (any number of spatial axes). *)
Theorem C01_code_symbols_are_model_symbols : forall (F : FieldT) (d : list F),
  (forall order, gen_build_laplace_operator F d order = laplace_sym F order d)
  /\ (forall v order, gen_build_gradient_inner_product_operator F d v order = gip_sym F v order d)
  /\ (forall v, gen_sym_advection F v d = sym_advection F v d)
  /\ (forall A, gen_sym_diffusion F A d = sym_diffusion F A d)
  /\ (forall v A, gen_sym_advection_diffusion F v A d = sym_advection_diffusion F v A d)
  /\ (forall flag xi, gen_sym_dispersion F flag xi d = sym_dispersion F flag xi d)
  /\ (forall flag mu, gen_sym_hyper_diffusion F flag mu d = sym_hyper_diffusion F flag mu d)
  /\ (forall nu, gen_sym_burgers F nu d = sym_burgers F nu d)
  /\ (forall f1 f2 nu xi mu, gen_sym_korteweg_de_vries F f1 f2 nu xi mu d = sym_kdv F f1 f2 nu xi mu d)
  /\ (forall s2 s4, gen_sym_kuramoto_sivashinsky F s2 s4 d = sym_ks F s2 s4 d
                   /\ gen_sym_kuramoto_sivashinsky_conservative F s2 s4 d = sym_ks F s2 s4 d)
  /\ (forall nu drag, gen_sym_navier_stokes_vorticity F nu drag d = sym_navier_stokes F nu drag d
                     /\ gen_sym_kolmogorov_flow_vorticity F nu drag d = sym_navier_stokes F nu drag d
                     /\ gen_sym_navier_stokes_velocity F nu drag d = sym_navier_stokes F nu drag d
                     /\ gen_sym_kolmogorov_flow_velocity F nu drag d = sym_navier_stokes F nu drag d)
  /\ (forall a, gen_sym_general_linear F a d = poly_sym F a d
               /\ gen_sym_general_convection F a d = poly_sym F a d
               /\ gen_sym_general_gradient_norm F a d = poly_sym F a d
               /\ gen_sym_general_vorticity_convection F a d = poly_sym F a d
               /\ gen_sym_general_polynomial F a d = poly_sym F a d
               /\ gen_sym_general_nonlinear F a d = poly_sym F a d)
  /\ (forall nu c1, gen_sym_allen_cahn F nu c1 d = sym_allen_cahn F nu c1 d)
  /\ (forall nu r, gen_sym_fisher_kpp F nu r d = sym_fisher F nu r d)
  /\ (forall nu gam c1, gen_sym_cahn_hilliard F nu gam c1 d = sym_cahn_hilliard F nu gam c1 d)
  /\ (forall nu1 nu2 ch, (ch < 2)%nat -> gen_sym_gray_scott F nu1 nu2 ch d = sym_gray_scott F nu1 nu2 ch d)
  /\ (forall r kc, gen_sym_swift_hohenberg F r kc d = sym_swift_hohenberg F r kc d)
  /\ (forall nus ch, (ch < 3)%nat -> gen_sym_belousov_zhabotinsky F nus ch d = sym_belousov_zhabotinsky F nus ch d).
Proof.
  intros F d. splits; intros.
  - apply laplace_tie.
  - apply gip_tie.
  - apply advection_tie.
  - apply diffusion_tie.
  - apply advection_diffusion_tie.
  - apply dispersion_tie.
  - apply hyper_diffusion_tie.
  - apply burgers_tie.
  - apply kdv_tie.
  - split; [apply ks_tie | apply ks_conservative_tie].
  - apply navier_stokes_tie.
  - apply general_tie.
  - apply allen_cahn_tie.
  - apply fisher_tie.
  - apply cahn_hilliard_tie.
  - apply gray_scott_tie; assumption.
  - apply swift_hohenberg_tie.
  - apply belousov_zhabotinsky_tie; assumption.
Qed.
Print Assumptions C01_code_symbols_are_model_symbols.

(* the coefficients reach the symbol as the constructor argument of the same name, stored unchanged (checked by the translator),
   except for the promotion of a scalar velocity / dispersivity to the constant vector and of a scalar / vector diffusivity to
   the (constant) diagonal matrix, whose source text is translated as well (jnp.diag of a vector is modelled by diag_mat) *)
Theorem C01_code_constructor_promotions_are_model_promotions : forall (F : FieldT) (c : F) (v d : list F),
  gen_ctor_advection_velocity_scalar F c d = const_vec F c d
  /\ gen_ctor_advection_diffusion_velocity_scalar F c d = const_vec F c d
  /\ gen_ctor_dispersion_dispersivity_scalar F c d = const_vec F c d
  /\ gen_ctor_diffusion_diffusivity_scalar F c d = diag_mat F (const_vec F c d)
  /\ gen_ctor_advection_diffusion_diffusivity_scalar F c d = diag_mat F (const_vec F c d)
  /\ gen_ctor_diffusion_diffusivity_vector F v = diag_mat F v
  /\ gen_ctor_advection_diffusion_diffusivity_vector F v = diag_mat F v.
Proof. intros. apply ctor_tie. Qed.
Print Assumptions C01_code_constructor_promotions_are_model_promotions.

(* non-vacuity: hypotheses are satisfiable, e.g. in the Gaussian rationals with a Pythagorean rotation *)
From EXV Require Import Base.Cplx.
From Coq Require Import Qcanon.
Example C01_ex_i_squared : @omul QcC ci ci = @oopp QcC (@o1 QcC).
Proof. apply cx_ext; vm_compute; reflexivity. Qed.
