(* C01 — linear steppers advance band-limited states by the exact PDE solution.
   Chain of statements: (i) the linear symbol the code builds for each class (Spectral/Symbols.v, tied to the code by the
   exact-rational correspondence at every stored mode) is the symbol of the DOCUMENTED operator (Spectral/LinOp.v);
   (ii) order 0 multiplies mode k by exp(dt * lambda_k) (Gen/ETDRK.v, translated from the source) -- which is the exact
   solution operator of u_t = P(d)u on exp(i kappa.x); (iii) hence the semigroup and inverse laws, for ANY dt (no CFL limit),
   any n, any state; (iv) the wave stepper's diagonalisation is the exact harmonic-oscillator solution, mean mode included.
   cexp is the complex exponential, used only through exp(a+b) = exp a exp b, exp 0 = 1.
   That mode k of the rfft layout carries exp(i kappa_k . x) on the grid is C04. *)
From Coq Require Import ZArith QArith List Bool Lia.
From EXV Require Import Base.Scalar Base.FieldLemmas Spectral.Symbols Spectral.LinOp Steppers.Linear Steppers.LinearProofs Gen.ETDRK.
Import ListNotations.
Local Open Scope fld_scope.
Ltac splits := repeat match goal with |- _ /\ _ => split end.

Theorem C01_symbols_are_documented : forall (F : FieldT) (d v xi : list F) (mu : F) (f1 f2 : bool) (a : list F),
  (1 <= length d <= 3)%nat -> length v = length d -> length xi = length d -> (length a <= 5)%nat ->
  sym_advection F v d = symbol_of F (pde_advection F v) d
  /\ sym_dispersion F f1 xi d = symbol_of F (pde_dispersion F f1 xi) d
  /\ sym_hyper_diffusion F f2 mu d = symbol_of F (pde_hyper_diffusion F f2 mu (length d)) d
  /\ poly_sym F a d = symbol_of F (pde_general F a (length d)) d.
Proof.
  intros F d v xi mu f1 f2 a Hd Hv Hxi Ha. splits.
  - apply advection_is_documented; assumption.
  - apply dispersion_is_documented; assumption.
  - apply hyper_diffusion_is_documented; assumption.
  - apply general_is_documented; assumption.
Qed.
Print Assumptions C01_symbols_are_documented.

(* anisotropic diffusion u_t = div(A grad u), every (not necessarily symmetric) matrix A, D = 1, 2, 3 *)
Theorem C01_diffusion_is_documented : forall (F : FieldT) (a11 a12 a13 a21 a22 a23 a31 a32 a33 d1 d2 d3 : F),
  sym_diffusion F [[a11]] [d1] = symbol_of F (pde_diffusion F [[a11]]) [d1]
  /\ sym_diffusion F [[a11; a12]; [a21; a22]] [d1; d2] = symbol_of F (pde_diffusion F [[a11; a12]; [a21; a22]]) [d1; d2]
  /\ sym_diffusion F [[a11; a12; a13]; [a21; a22; a23]; [a31; a32; a33]] [d1; d2; d3]
     = symbol_of F (pde_diffusion F [[a11; a12; a13]; [a21; a22; a23]; [a31; a32; a33]]) [d1; d2; d3].
Proof.
  intros. splits; [apply diffusion_is_documented_1 | apply diffusion_is_documented_2 | apply diffusion_is_documented_3].
Qed.
Print Assumptions C01_diffusion_is_documented.

(* order 0: the code's step is multiplication by exp(dt*lambda_k) with the code's own exponent expression *)
Theorem C01_step_is_propagator : forall (F : FieldT) (cexp : F -> F) (I : Type) (dt : F) (lam u : I -> F) (k : I),
  etdrk0_step F (fun k => cexp (base_exp_arg F dt (lam k))) u k = cexp (dt * lam k) * u k
  /\ linear_step F cexp I dt lam u k = cexp (dt * lam k) * u k.
Proof. intros. split; reflexivity. Qed.
Print Assumptions C01_step_is_propagator.

(* n calls with dt = one call with n*dt; a call with -dt undoes a call with dt *)
Theorem C01_semigroup_and_inverse : forall (F : FieldT) (cexp : F -> F),
  (forall a b, cexp (a + b) = cexp a * cexp b) -> cexp 0 = 1 ->
  forall (I : Type) (lam : I -> F) (dt : F) (u : I -> F) (k : I),
  (forall n : nat, iter_step F I n (linear_step F cexp I dt lam) u k = linear_step F cexp I (fz (Z.of_nat n) * dt) lam u k)
  /\ linear_step F cexp I (- dt) lam (linear_step F cexp I dt lam u) k = u k.
Proof.
  intros F cexp Hadd H0 I lam dt u k. split.
  - intros n. apply semigroup; assumption.
  - apply inverse_step; assumption.
Qed.
Print Assumptions C01_semigroup_and_inverse.

(* wave stepper: each mode is the exact solution of h_tt = -(c rho)^2 h (independent of the normalisation 1/sqrt 2),
   the mean mode drifts with the mean velocity *)
Theorem C01_wave_exact : forall (F : FieldT) (ii s c rho dt Ep Em h v : F),
  ii * ii = - (1) -> fz 2 * (s * s) = 1 -> c <> 0 ->
  (rho <> 0 ->
     wave_mode F ii s c rho dt Ep Em false h v
     = (Ccos F Ep Em * h + Csin F ii Ep Em / (c * rho) * v, - (c * rho) * Csin F ii Ep Em * h + Ccos F Ep Em * v))
  /\ (rho = 0 -> Ep = 1 -> Em = 1 -> wave_mode F ii s c rho dt Ep Em true h v = (h + dt * v, v)).
Proof.
  intros F ii s c rho dt Ep Em h v Hi Hs Hc. split.
  - intros Hr. apply wave_exact; assumption.
  - intros Hr H1 H2. apply wave_exact_dc; assumption.
Qed.
Print Assumptions C01_wave_exact.

(* non-vacuity: hypotheses are satisfiable, e.g. in the Gaussian rationals with a Pythagorean rotation *)
From EXV Require Import Base.Cplx.
From Coq Require Import Qcanon.
Example C01_ex_i_squared : @omul QcC ci ci = @oopp QcC (@o1 QcC).
Proof. apply cx_ext; vm_compute; reflexivity. Qed.
