(* C15 — Fourier interpolation and resolution changes are exact for band-limited states.
   Models: Layout/Resample.v (map_between_resolutions per wavenumber vector; tied to the code by exact correspondence of which modes are
   kept and by float comparison of the resampled spectra), Layout/Freq.v (mode slices), DFT/DFT1.v (interpolation). *)
From Coq Require Import ZArith QArith List Bool Lia.
From EXV Require Import Base.Scalar Base.FieldLemmas Layout.Freq Layout.FreqProofs Layout.Resample Layout.ResampleProofs DFT.DFT1 IC.Normalize DFT.DFTD.
Import ListNotations.
Local Open Scope fld_scope.
Ltac splits := repeat match goal with |- _ /\ _ => split end.

(* trigonometric interpolation is exact: the coefficients read off the transform of the samples of p = sum_m a_m e^{2 pi i m x/L},
   re-summed against the character table chi of ANY query point x (inside or outside the domain: chi is an arbitrary function),
   return p(x) = sum_m a_m chi(m); at a grid point this is the inversion theorem (idft . dft = id for EVERY state, C04_round_trip) *)
Theorem C15_interpolation_exact : forall (F : FieldT) (n : nat) (w w' : F),
  (0 < n)%nat -> fpow w n = 1 -> (forall m, (0 < m < n)%nat -> fpow w m <> 1) -> w * w' = 1 ->
  forall (a chi : nat -> F),
  bsum n (fun k => dft n w (fun j => bsum n (fun m => a m * fpow w' (j * m))) k / fz (Z.of_nat n) * chi k) = bsum n (fun m => a m * chi m).
Proof. intros F n w w' Hn H1 H2 H3 a chi. apply (interpolation_exact F n w w'); assumption. Qed.
Print Assumptions C15_interpolation_exact.

(* the same in every dimension D (D-fold iterated transform): the samples of p on the n^D grid are n^D idftI(a) *)
Theorem C15_interpolation_exact_any_dimension : forall (F : FieldT) (n : nat) (w w' : F),
  (0 < n)%nat -> fpow w n = 1 -> (forall m, (0 < m < n)%nat -> fpow w m <> 1) -> w * w' = 1 ->
  forall (D : nat) (a chi : list nat -> F),
  sumD F D n (fun k => dftD n D w (fun j => npts F D n * idftI n D w' a j) k / npts F D n * chi k) = sumD F D n (fun m => a m * chi m).
Proof. intros F n w w' Hn H1 H2 H3 D a chi. apply (interpolation_exact_D F n w w'); assumption. Qed.
Print Assumptions C15_interpolation_exact_any_dimension.

Theorem C15_interpolant_reproduces_grid_values : forall (F : FieldT) (n : nat) (w w' : F),
  (0 < n)%nat -> fpow w n = 1 -> (forall m, (0 < m < n)%nat -> fpow w m <> 1) -> w * w' = 1 ->
  forall (u : nat -> F) (j : nat), (j < n)%nat -> idft n w' (dft n w u) j = u j.
Proof. intros F n w w' Hn H1 H2 H3 u j Hj. apply dft_inversion; assumption. Qed.
Print Assumptions C15_interpolant_reproduces_grid_values.

(* the copied blocks: every leading-axis index of the smaller grid lies in exactly one of the two slices and keeps its signed
   wavenumber in the larger grid; all four parity combinations, n_new = n_old +- 1 included *)
Theorem C15_mode_blocks : forall n m j : Z, (0 < n)%Z -> (n <= m)%Z -> (0 <= j < n)%Z ->
  ((in_left n n j = true /\ in_right n n j = false) \/ (in_left n n j = false /\ in_right n n j = true))
  /\ (in_left n n j = true -> in_left n m j = true /\ fftfreq m j = fftfreq n j)
  /\ (in_right n n j = true -> in_right n m (j + (m - n)) = true /\ fftfreq m (j + (m - n)) = fftfreq n j).
Proof.
  intros n m j Hn Hm Hj. destruct (slice_same_frequency n m j Hn Hm Hj) as [A B].
  splits; try assumption. apply slices_partition; assumption.
Qed.
Print Assumptions C15_mode_blocks.

(* every resolution change preserves the mean of ANY state; a Nyquist-free band-limited state keeps all its trigonometric-polynomial
   coefficients u_hat(k)/N^D when mapped to a finer grid or to a coarser grid that still resolves it (so the new samples are samples
   of the same function, and mapping back returns the original) *)
Theorem C15_resolution_change : forall (F : FieldT) (n m : Z) (ob : bool) (old : list Z -> F) (k : list Z),
  ((2 <= n)%Z -> (2 <= m)%Z -> Forall (fun c => c = 0%Z) k ->
     resample_coef F n m ob old k / fpow (fz m) (length k) = old k / fpow (fz n) (length k))
  /\ ((0 < n)%Z -> (0 < m)%Z -> nyq_free (Z.min n m) k = true -> (hd 0 (rev k) >= 0)%Z ->
     resample_coef F n m ob old k / fpow (fz m) (length k) = old k / fpow (fz n) (length k)).
Proof.
  intros F n m ob old k. split.
  - intros Hn Hm H. apply mean_preserved; assumption.
  - intros Hn Hm H Hl. apply coefficients_preserved; assumption.
Qed.
Print Assumptions C15_resolution_change.

(* map_between_resolutions of the source: every array statement is compared with its expected text and the decisions (early return,
   the two oddball-mask conditions, the grid whose mode blocks are copied, the scaling modes) are re-translated on every run
   (harness/translate/resample.py -> Gen/ResampleGen.v); they are the decisions of the model, for all grid sizes and wavenumber vectors.
   The callees (scaling arrays, oddball mask, mode slices, shapes) are tied by C04_code_layout_is_model_layout / C04_code_scaling_and_slices_are_model. *)
From EXV Require Import Gen.ResampleGen Tie.ResampleTie.
Theorem C15_code_resampling_decisions_are_model : forall (K : Ops) (n m : Z) (oz : bool) (old : list Z -> K) (k : list Z),
  resample_coef K n m oz old k =
    (if gen_mbr_identity n m then old k
     else if vec_copied (gen_mbr_block_size n m) k
             && (if gen_mbr_mask_old n m oz then odd_ok n k else true)
             && (if gen_mbr_mask_new n m oz then odd_ok m k else true)
          then omul (fpow (odiv (fz m) (fz n)) (length k)) (old k) else o0)
  /\ gen_mbr_scaling_mode_old = 10%Z /\ gen_mbr_scaling_mode_new = 10%Z /\ mode_denoms 10 = (1, 1)%Z
  (* FourierInterpolator divides by the RECONSTRUCTION scaling (half weights on the last axis), all its statements compared as text *)
  /\ gen_interp_scaling_mode = 11%Z /\ mode_denoms 11 = (2, 1)%Z.
Proof.
  intros K n m oz old k. split; [apply resample_coef_tie|]. destruct scaling_modes_tie as (A & B & C). repeat split; assumption || reflexivity.
Qed.
Print Assumptions C15_code_resampling_decisions_are_model.

Example C15_ex : resample_keeps 6 9 true [-2; 2]%Z = true /\ resample_keeps 6 9 true [-3; 1]%Z = false /\ resample_keeps 9 6 true [4; 1]%Z = false.
Proof. repeat split; reflexivity. Qed.
