(* C16 — error metrics are consistent quadratures of the documented norms.
   Model: Metrics/Metrics.v (hand-written from exponax/metrics/{_spatial,_fourier,_derivative,_correlation,_utils}.py; the arrays it uses
   are the layout functions of Layout/Freq.v (tied by C04) and the rejection guards of Gen/Guards.v (translated from the source on every run)).
   Tie: exact-rational correspondence of MSE/nMSE/sMSE, fourier_MSE/fourier_nMSE (bands, derivative orders), H1_MSE/H1_nMSE, correlation^2,
   mean_metric, the scaling array and the band mask (harness/props/c16.py).
   Scope of the model: inner exponent 2; the outer exponent is an arbitrary function [root] (identity = MSE-type; a square root = RMSE-type,
   whose laws appear as premises).  MODELLING GAP: the absolute 1e-5 floor that fourier_aggregator applies to the rfftn coefficients is not in the
   model; all statements about Fourier metrics are about spectra that the floor leaves untouched.
   F is any field of characteristic 0 (the reals of the implementation); order-dependent statements take an order [le] with the ordered-field
   laws as a premise ([OrderedField], satisfiable: C16_ex_ordered_Qc). *)
From Coq Require Import ZArith QArith Qcanon List Bool Lia.
From EXV Require Import Base.Scalar Base.FieldLemmas Base.Cplx Layout.Freq Gen.Guards DFT.DFT1 Metrics.Metrics Metrics.MetricsProofs IC.Normalize DFT.DFTD DFT.ParsevalD Metrics.ParsevalRealD.
Import ListNotations.
Local Open Scope fld_scope.

(* ------------------------------------------------------------------------------------------------ *)
(* (a) frequency bands *)

(* the mask built from the two low-pass masks is the documented box: low <= max_i |k_i| <= high (None = 0 resp. N/2+1) *)
Theorem C16_band_mask_is_box : forall (D : nat) (N : Z) (low high : option Z) (idx : list Z),
  (1 <= D)%nat -> (low <> None \/ high <> None) ->
  (band_mask D N low high idx = true <-> (band_lo low <= kinf (wnvec D N idx) <= band_hi N high)%Z).
Proof. exact band_mask_box. Qed.
Print Assumptions C16_band_mask_is_box.

(* consecutive bands [lo, h0], [h0+1, h1], ..., [.., h_m] (each l_{i+1} = h_i + 1; empty bands allowed) add up to the band [lo, h_m]:
   for every derivative order, every spectrum, the un-rooted Fourier aggregate (fourier_MSE per channel) *)
Theorem C16_band_additive : forall (F : FieldT) (D : nat) (N : Z) (L tau : F) (dord : option nat) (spec : list (cx F))
  (lo h0 : Z) (hs : list Z), (1 <= D)%nat -> chain lo (h0 :: hs) ->
  fsum (map (fun b => fourier_agg F (idK F) D N L tau (Some (fst b)) (Some (snd b)) dord spec) (consecutive lo (h0 :: hs)))
  = fourier_agg F (idK F) D N L tau (Some lo) (Some (last hs h0)) dord spec.
Proof. intros. apply fourier_agg_band_partition; assumption. Qed.
Print Assumptions C16_band_additive.

(* ... and a band that contains [0, N/2] is the whole spectrum: bands covering everything add up to the un-banded metric *)
Theorem C16_bands_cover_everything : forall (F : FieldT) (D : nat) (N : Z) (L tau : F) (dord : option nat) (spec : list (cx F))
  (h0 : Z) (hs : list Z), (1 <= D)%nat -> (0 < N)%Z -> chain 0%Z (h0 :: hs) -> (N / 2 <= last hs h0)%Z ->
  fsum (map (fun b => fourier_agg F (idK F) D N L tau (Some (fst b)) (Some (snd b)) dord spec) (consecutive 0%Z (h0 :: hs)))
  = fourier_agg F (idK F) D N L tau None None dord spec.
Proof.
  intros F D N L tau dord spec h0 hs HD HN Hc Hl.
  rewrite (fourier_agg_band_partition F D N L tau dord spec HD hs 0%Z h0 Hc).
  apply fourier_agg_full_band; [exact HD | exact HN | lia | exact Hl].
Qed.
Print Assumptions C16_bands_cover_everything.

(* ------------------------------------------------------------------------------------------------ *)
(* (b) channels: the metric of concatenated channel lists is the sum of the metrics of the parts (every mode, every outer exponent);
   [oadd2] adds the values and propagates a rejection *)
Theorem C16_channel_additive : forall (F : FieldT) (root : F -> F) (D : nat) (N : Z) (L tau : F) (low high : option Z) (dord : option nat) (mode : Z),
  (forall (u1 u2 r1 r2 : list (list F)), length u1 = length r1 ->
     spatial_norm F root D N L mode (u1 ++ u2) (Some (r1 ++ r2))
     = oadd2 F (spatial_norm F root D N L mode u1 (Some r1)) (spatial_norm F root D N L mode u2 (Some r2)))
  /\ (forall (u1 u2 : list (list F)),
     spatial_norm F root D N L mode (u1 ++ u2) None
     = oadd2 F (spatial_norm F root D N L mode u1 None) (spatial_norm F root D N L mode u2 None))
  /\ (forall (U1 U2 R1 R2 : list (list (cx F))), length U1 = length R1 ->
     fourier_norm F root D N L tau low high dord mode (U1 ++ U2) (Some (R1 ++ R2))
     = oadd2 F (fourier_norm F root D N L tau low high dord mode U1 (Some R1)) (fourier_norm F root D N L tau low high dord mode U2 (Some R2)))
  /\ (forall (U1 U2 : list (list (cx F))),
     fourier_norm F root D N L tau low high dord mode (U1 ++ U2) None
     = oadd2 F (fourier_norm F root D N L tau low high dord mode U1 None) (fourier_norm F root D N L tau low high dord mode U2 None)).
Proof.
  intros. unfold spatial_norm, fourier_norm. cbn [is_none]. repeat split; intros.
  - apply norm_gen_app; assumption.
  - apply norm_gen_app_noref.
  - apply norm_gen_app; assumption.
  - apply norm_gen_app_noref.
Qed.
Print Assumptions C16_channel_additive.

(* ------------------------------------------------------------------------------------------------ *)
(* (c) dependence on the domain extent: the un-rooted p = 2 aggregates scale with L^D; a derivative of order m contributes (1/L)^(2m) *)
Theorem C16_L_scaling : forall (F : FieldT) (D : nat) (N : Z) (L L' tau : F), L <> 0 -> L' <> 0 -> @fz F N <> 0 ->
  (forall u : list F, spatial_agg F (idK F) D N L u = fpow (L / L') D * spatial_agg F (idK F) D N L' u)
  /\ (forall low high dord (spec : list (cx F)),
      fourier_agg F (idK F) D N L tau low high dord spec
      = fpow (L / L') D * fpow (L' / L) (2 * match dord with None => 0 | Some m => m end)
        * fourier_agg F (idK F) D N L' tau low high dord spec).
Proof.
  intros F D N L L' tau HL HL' HN. split; intros.
  - apply spatial_agg_L_scaling; assumption.
  - apply fourier_agg_L_scaling; assumption.
Qed.
Print Assumptions C16_L_scaling.

(* ------------------------------------------------------------------------------------------------ *)
(* (d) metric axioms *)
Definition scale_state (F : FieldT) (c : F) (u : list (list F)) : list (list F) := map (map (omul c)) u.
Definition scale_spec (F : FieldT) (c : F) (U : list (list (cx F))) : list (list (cx F)) := map (map (cscal c)) U.

(* absolute mode: scaling both states by c multiplies the metric by a, where a is how [root] responds to the factor c^2:
   a = c^2 for the un-rooted quantities (MSE, fourier_MSE: degree 2), a = |c| for a square root (RMSE-type: degree 1).
   H1_* is the sum of two such metrics and inherits the law. *)
Theorem C16_homogeneous_absolute : forall (F : FieldT) (root : F -> F) (c a : F), (forall x, root (c * c * x) = a * root x) ->
  forall (D : nat) (N : Z) (L tau : F) (low high : option Z) (dord : option nat),
  (forall u r, spatial_norm F root D N L 0 (scale_state F c u) (Some (scale_state F c r)) = option_map (omul a) (spatial_norm F root D N L 0 u (Some r)))
  /\ (forall u, spatial_norm F root D N L 0 (scale_state F c u) None = option_map (omul a) (spatial_norm F root D N L 0 u None))
  /\ (forall U R, fourier_norm F root D N L tau low high dord 0 (scale_spec F c U) (Some (scale_spec F c R))
                  = option_map (omul a) (fourier_norm F root D N L tau low high dord 0 U (Some R)))
  /\ (forall U, fourier_norm F root D N L tau low high dord 0 (scale_spec F c U) None
                = option_map (omul a) (fourier_norm F root D N L tau low high dord 0 U None)).
Proof.
  intros F root c a Hr D N L tau low high dord. unfold spatial_norm, fourier_norm, scale_state, scale_spec. cbn [is_none].
  repeat split; intros.
  - apply norm_gen_scal_absolute; [intros; apply spatial_agg_scal; exact Hr | intros; apply vsub_scal | intros; reflexivity].
  - apply norm_gen_scal_noref. intros; apply spatial_agg_scal; exact Hr.
  - apply norm_gen_scal_absolute; [intros; apply fourier_agg_scal; exact Hr | intros; apply ssub_scal | intros; reflexivity].
  - apply norm_gen_scal_noref. intros; apply fourier_agg_scal; exact Hr.
Qed.
Print Assumptions C16_homogeneous_absolute.

Theorem C16_homogeneous_MSE : forall (F : FieldT) (c : F) (D : nat) (N : Z) (L : F) u r,
  MSE F D N L (scale_state F c u) (Some (scale_state F c r)) = option_map (omul (c * c)) (MSE F D N L u (Some r)).
Proof.
  intros. unfold MSE.
  destruct (C16_homogeneous_absolute F (idK F) c (c * c) (fun x => eq_refl) D N L L None None None) as [H _]. apply H.
Qed.
Print Assumptions C16_homogeneous_MSE.

(* normalized and symmetric modes are scale-free (c <> 0, non-vanishing denominators) *)
Theorem C16_scale_free : forall (F : FieldT) (root : F -> F) (c a : F), (forall x, root (c * c * x) = a * root x) -> a <> 0 ->
  forall (D : nat) (N : Z) (L tau : F) (low high : option Z) (dord : option nat),
  (forall u r, (forall p, In p (combine u r) -> spatial_agg F root D N L (snd p) <> 0) ->
     spatial_norm F root D N L 1 (scale_state F c u) (Some (scale_state F c r)) = spatial_norm F root D N L 1 u (Some r))
  /\ (forall u r, (forall p, In p (combine u r) -> spatial_agg F root D N L (fst p) + spatial_agg F root D N L (snd p) <> 0) ->
     spatial_norm F root D N L 2 (scale_state F c u) (Some (scale_state F c r)) = spatial_norm F root D N L 2 u (Some r))
  /\ (forall U R, (forall p, In p (combine U R) -> fourier_agg F root D N L tau low high dord (snd p) <> 0) ->
     fourier_norm F root D N L tau low high dord 1 (scale_spec F c U) (Some (scale_spec F c R))
     = fourier_norm F root D N L tau low high dord 1 U (Some R)).
Proof.
  intros F root c a Hr Ha D N L tau low high dord. unfold spatial_norm, fourier_norm, scale_state, scale_spec. cbn [is_none].
  repeat split; intros.
  - apply (norm_gen_scal_invariant F _ _ _ (map (omul c)) a); [intros; apply spatial_agg_scal; exact Hr | intros; apply vsub_scal|].
    intros p Hp. apply comb_normalized; [exact Ha | apply H; exact Hp].
  - apply (norm_gen_scal_invariant F _ _ _ (map (omul c)) a); [intros; apply spatial_agg_scal; exact Hr | intros; apply vsub_scal|].
    intros p Hp. apply comb_symmetric; [exact Ha | apply H; exact Hp].
  - apply (norm_gen_scal_invariant F _ _ _ (map (cscal c)) a); [intros; apply fourier_agg_scal; exact Hr | intros; apply ssub_scal|].
    intros p Hp. apply comb_fourier_normalized; [exact Ha | apply H; exact Hp].
Qed.
Print Assumptions C16_scale_free.

(* zero for identical inputs: every mode, every outer exponent with root 0 = 0 *)
Theorem C16_zero_for_identical_inputs : forall (F : FieldT) (root : F -> F), root 0 = 0 ->
  forall (D : nat) (N : Z) (L tau : F) (low high : option Z) (dord : option nat) (mode : Z),
  (forall u, spatial_norm F root D N L mode u (Some u) = Some 0)
  /\ (forall U, fourier_norm F root D N L tau low high dord mode U (Some U) = Some 0)
  /\ (forall U, H1_norm F root D N L tau low high mode U (Some U) = Some 0).
Proof.
  intros F root H0 D N L tau low high dord mode.
  assert (HF : forall dord U, fourier_norm F root D N L tau low high dord mode U (Some U) = Some 0).
  { intros d U. unfold fourier_norm. cbn [is_none].
    apply norm_gen_identical; [intros x; apply fourier_agg_self; exact H0 | intros; apply comb_fourier_zero]. }
  repeat split; intros.
  - unfold spatial_norm. cbn [is_none].
    apply norm_gen_identical; [intros x; apply spatial_agg_self; exact H0 | intros; apply comb_spatial_zero].
  - apply HF.
  - unfold H1_norm. rewrite !HF. cbn [oadd2]. f_equal. apply (F_R (fth F)).(Radd_0_l).
Qed.
Print Assumptions C16_zero_for_identical_inputs.

(* symmetric under exchanging prediction and reference: the absolute and the symmetric mode (not the normalized one) *)
Theorem C16_symmetric : forall (F : FieldT) (root : F -> F) (D : nat) (N : Z) (L tau : F) (low high : option Z) (dord : option nat) (mode : Z),
  (mode =? 1)%Z = false ->
  (forall u r, spatial_norm F root D N L mode u (Some r) = spatial_norm F root D N L mode r (Some u))
  /\ (forall U R, fourier_norm F root D N L tau low high dord mode U (Some R) = fourier_norm F root D N L tau low high dord mode R (Some U)).
Proof.
  intros F root D N L tau low high dord mode Hm. unfold spatial_norm, fourier_norm. cbn [is_none]. split; intros.
  - apply norm_gen_symmetric; [intros; apply spatial_agg_sym | intros; apply comb_spatial_swap; exact Hm].
  - apply norm_gen_symmetric; [intros; apply fourier_agg_sym | intros; unfold combine_fourier; rewrite Hm; reflexivity].
Qed.
Print Assumptions C16_symmetric.

(* positive otherwise (ordered field, L/N > 0): the mean-square aggregate of two different states of equal length is > 0 *)
Theorem C16_positive : forall (F : FieldT) (le : F -> F -> Prop), OrderedField F le ->
  forall (D : nat) (N : Z) (L : F) (u r : list F), le 0 (L / fz N) -> L / fz N <> 0 -> length u = length r -> u <> r ->
  le 0 (spatial_agg F (idK F) D N L (vsub F u r)) /\ spatial_agg F (idK F) D N L (vsub F u r) <> 0.
Proof. intros F le OF D N L u r H1 H2 H3 H4. exact (spatial_agg_positive F le OF (idK F) D N L u r H1 H2 H3 H4). Qed.
Print Assumptions C16_positive.

(* option validation: the call is rejected exactly when a mode that needs a reference is used without one (Gen/Guards.v) *)
Theorem C16_option_validation : forall (F : FieldT) (root : F -> F) (D : nat) (N : Z) (L tau : F) low high dord (mode : Z) u U,
  (forall r, spatial_norm F root D N L mode u (Some r) <> None)
  /\ (spatial_norm F root D N L mode u None = None <-> (mode = 1 \/ mode = 2)%Z)
  /\ (forall R, fourier_norm F root D N L tau low high dord mode U (Some R) <> None)
  /\ (fourier_norm F root D N L tau low high dord mode U None = None <-> mode = 1%Z).
Proof.
  intros. unfold spatial_norm, fourier_norm, norm_gen, spatial_norm_raises, fourier_norm_raises. cbn [is_none andb orb].
  repeat split; try discriminate.
  - destruct (Z.eqb_spec mode 1) as [E|E]; cbn; [intros _; left; exact E|].
    destruct (Z.eqb_spec mode 2) as [E2|E2]; cbn; [intros _; right; exact E2 | discriminate].
  - intros [->| ->]; reflexivity.
  - destruct (Z.eqb_spec mode 1) as [E|E]; [intros _; exact E | discriminate].
  - intros ->. reflexivity.
Qed.
Print Assumptions C16_option_validation.

(* ------------------------------------------------------------------------------------------------ *)
(* (e) Parseval *)

(* conjugation-free Parseval identity in any field with a primitive n-th root of unity w (w' its inverse) *)
Theorem C16_parseval_bilinear : forall (F : FieldT) (n : nat) (w w' : F), (0 < n)%nat -> fpow w n = 1 ->
  (forall m, (0 < m < n)%nat -> fpow w m <> 1) -> w * w' = 1 ->
  forall u v : nat -> F, bsum n (fun k => dft n w u k * dft n w' v k) = fz (Z.of_nat n) * bsum n (fun j => u j * v j).
Proof. exact parseval_bilinear. Qed.
Print Assumptions C16_parseval_bilinear.

(* ... and in every dimension D, for the D-fold iterate of the 1-D transform (the rfftn contract): sum over the full n^D spectrum *)
Theorem C16_parseval_bilinear_any_dimension : forall (F : FieldT) (n : nat) (w w' : F), (0 < n)%nat -> fpow w n = 1 ->
  (forall m, (0 < m < n)%nat -> fpow w m <> 1) -> w * w' = 1 ->
  forall (D : nat) (u v : list nat -> F),
  sumD F D n (fun k => dftD n D w u k * dftD n D w' v k) = npts F D n * sumD F D n (fun j => u j * v j).
Proof. intros F n w w' Hn H1 H2 H3 D u v. apply (parseval_bilinear_D F n w w'); assumption. Qed.
Print Assumptions C16_parseval_bilinear_any_dimension.

(* real sequences: over a formally real field F, with a primitive n-th root w of modulus 1 in F[i], the half spectrum (k = 0..n/2) weighted with
   the multiplicities 1 (k = 0; k = n/2 for even n) and 2 (all other k, INCLUDING k = (n-1)/2 for odd n) carries n times the energy *)
Theorem C16_parseval_half_spectrum : forall (F : FieldT) (FR : FormallyReal F) (n : nat) (w : cx F), (0 < n)%nat ->
  @fpow (CField FR) w n = c1 F -> (forall m, (0 < m < n)%nat -> @fpow (CField FR) w m <> c1 F) -> cmul w (cconj w) = c1 F ->
  forall u : nat -> F,
  bsum (n / 2 + 1) (fun k => half_mult F n k * cnorm2 (rdft F n w u k)) = fz (Z.of_nat n) * bsum n (fun j => u j * u j).
Proof. intros F FR n w Hn H1 H2 H3 u. exact (parseval_half_spectrum F FR n w Hn H1 H2 H3 u). Qed.
Print Assumptions C16_parseval_half_spectrum.

(* real fields in every dimension: the stored half spectrum of the (D+1)-dimensional transform - EVERY leading-axis index, last-axis index
   0..n/2, multiplicity 1 where the last-axis wavenumber is self-conjugate (0; n/2 for even n) and 2 elsewhere - carries n^(D+1) times the energy *)
Theorem C16_parseval_half_spectrum_any_dimension : forall (F : FieldT) (FR : FormallyReal F) (n : nat) (w : cx F), (0 < n)%nat ->
  @fpow (CField FR) w n = c1 F -> (forall m, (0 < m < n)%nat -> @fpow (CField FR) w m <> c1 F) -> cmul w (cconj w) = c1 F ->
  forall (D : nat) (u : list nat -> F),
  sumD F D n (fun lead => bsum (n / 2 + 1) (fun b => half_mult F n b * cnorm2 (rdftD F n w (S D) u (lead ++ [b]))))
  = npts F (S D) n * sumD F (S D) n (fun j => u j * u j).
Proof. intros F FR n w Hn H1 H2 H3 D u. exact (parseval_half_spectrum_D F FR n w Hn H1 H2 H3 D u). Qed.
Print Assumptions C16_parseval_half_spectrum_any_dimension.

(* FULL STATEMENT (not proved in this generality):
     forall D N (u : state on the N^D grid),  fourier_agg root D N L tau None None None (rfftn u) = spatial_agg root D N L u.
   Proved below for D = 1, every n >= 1 (odd and even), every outer exponent, for the model's own weights (scaling_recon), index set
   (half_indices) and volume factor.  For D >= 2 the full-spectrum identity IS proved (C16_parseval_bilinear_any_dimension, DFT/ParsevalD.v: applying C16_parseval_bilinear
   along each axis of the iterated transform gives sum over the full spectrum U(k) V'(k) = N^D sum u v); the folding of the full spectrum onto the stored half for D >= 2 is proved as well
   (C16_parseval_half_spectrum_any_dimension); what is missing is only the identification of the model's own index list / weights
   (half_indices, scaling_recon) with that half-spectrum sum for D >= 2: the spectrum of a real field is Hermitian, U(-k) = conj U(k), so the stored half
   (last-axis wavenumber 0..N/2) together with its mirror image covers the full spectrum, the stored modes whose last-axis wavenumber is
   self-conjugate (0, and N/2 for even N) being their own mirror column - weight 1 - and all others - weight 2; this is exactly
   N^D / scaling_recon (reconstruction mode: denominator 2 only on the last axis, only off the mean/Nyquist modes).  The witness oracle checks
   the D = 2, 3 cases on the implementation against a full-spectrum quadrature. *)
Theorem C16_parseval_partial : forall (F : FieldT) (FR : FormallyReal F) (n : nat) (w : cx F), (0 < n)%nat ->
  @fpow (CField FR) w n = c1 F -> (forall m, (0 < m < n)%nat -> @fpow (CField FR) w m <> c1 F) -> cmul w (cconj w) = c1 F ->
  forall (root : F -> F) (L tau : F) (u : nat -> F),
  fourier_agg F root 1 (Z.of_nat n) L tau None None None (map (rdft F n w u) (seq 0 (n / 2 + 1)))
  = spatial_agg F root 1 (Z.of_nat n) L (map u (seq 0 n)).
Proof. intros F FR n w Hn H1 H2 H3 root L tau u. exact (parseval_metric_1d F FR n w Hn H1 H2 H3 root L tau u). Qed.
Print Assumptions C16_parseval_partial.

(* ------------------------------------------------------------------------------------------------ *)
(* (f) Sobolev: the derivative_order = 1 aggregate is the sum over the axes of the plain aggregates of the spectral derivative
   (coefficients multiplied by i 2 pi k_d / L), for every spectrum, band and outer exponent; hence H1 = plain + sum_d metric(d_d u).
   (With the physical-space ex.derivative instead, the identity needs odd N or a Nyquist-free pair: irfftn drops the imaginary part of the
   Nyquist coefficient of an odd derivative.  That hypothesis is part of the witness test, not of this spectral statement.) *)
Theorem C16_sobolev_split : forall (F : FieldT) (root : F -> F) (D : nat) (N : Z) (L tau : F) (low high : option Z) (spec : list (cx F)),
  fourier_agg F root D N L tau low high None spec + fourier_agg F root D N L tau low high (Some 1%nat) spec
  = fourier_agg F root D N L tau low high None spec
    + fsum (map (fun d => fourier_agg F root D N L tau low high None (deriv_spec F tau L D N d spec)) (seq 0 D)).
Proof. intros. f_equal. apply fourier_agg_sobolev. Qed.
Print Assumptions C16_sobolev_split.

(* closed form of the un-rooted H1 aggregate: every retained mode is weighted with 1 + |2 pi k / L|^2 *)
Theorem C16_H1_closed_form : forall (F : FieldT) (D : nat) (N : Z) (L tau : F) (low high : option Z) (spec : list (cx F)),
  fourier_agg F (idK F) D N L tau low high None spec + fourier_agg F (idK F) D N L tau low high (Some 1%nat) spec
  = vol F D N L * fsum (map (fun p => if band_mask D N low high (fst p)
                                      then (1 + kappa2 F tau L D N (fst p)) * (cnorm2 (cmul (snd p) (c1 F)) / scaling_recon F D N (fst p)) else 0)
                            (with_idx F D N spec)).
Proof. intros. apply H1_closed_form. Qed.
Print Assumptions C16_H1_closed_form.

(* ------------------------------------------------------------------------------------------------ *)
(* (g) correlation *)
Theorem C16_cauchy_schwarz : forall (F : FieldT) (le : F -> F -> Prop), OrderedField F le ->
  forall u v : list F, length u = length v ->
  le (sqr F (dot F u v)) (sumsq F u * sumsq F v)
  /\ forall al : F, sqr F (dot F u (map (omul al) u)) = sumsq F u * sumsq F (map (omul al) u).
Proof.
  intros F le OF u v Hl. split; [apply (cauchy_schwarz F le OF); exact Hl | intros al; apply cauchy_schwarz_equality].
Qed.
Print Assumptions C16_cauchy_schwarz.

(* per channel: the correlation computed with a root that squares to the two sums lies in [-1, 1]; its square is (sum u v)^2 / (sum u^2 sum v^2) *)
Theorem C16_correlation_bounds : forall (F : FieldT) (le : F -> F -> Prop), OrderedField F le ->
  forall (root : F -> F) (u v : list F), length u = length v ->
  root (sumsq F u) * root (sumsq F u) = sumsq F u -> root (sumsq F v) * root (sumsq F v) = sumsq F v ->
  root (sumsq F u) <> 0 -> root (sumsq F v) <> 0 ->
  sqr F (corr_channel F root u v) = corr2_channel F u v
  /\ le (- (1)) (corr_channel F root u v) /\ le (corr_channel F root u v) 1.
Proof.
  intros F le OF root u v Hl H1 H2 Hn1 Hn2. split.
  - apply (corr_channel_sq F root u v H1 H2 Hn1 Hn2).
  - apply (corr_channel_bounds F le OF root u v Hl H1 H2 Hn1 Hn2).
Qed.
Print Assumptions C16_correlation_bounds.

(* = +1 / -1 for positively / negatively proportional fields ([root] the non-negative square root on non-negative arguments) *)
Theorem C16_correlation_proportional : forall (F : FieldT) (le : F -> F -> Prop), OrderedField F le ->
  forall (root : F -> F), (forall x, le 0 x -> le 0 (root x) /\ root x * root x = x) ->
  forall (al : F) (u : list F), sumsq F u <> 0 -> al <> 0 ->
  (le 0 al -> corr_channel F root u (map (omul al) u) = 1) /\ (le al 0 -> corr_channel F root u (map (omul al) u) = - (1))
  /\ corr2_channel F u (map (omul al) u) = 1.
Proof.
  intros F le OF root Hroot al u Hu Ha.
  destruct (corr_channel_proportional F le OF root al u Hroot Hu) as [Hp Hm].
  split; [intros H; apply Hp; assumption | split; [intros H; apply Hm; assumption|]].
  apply (corr2_proportional F al u Ha Hu).
Qed.
Print Assumptions C16_correlation_proportional.

(* the mode logic of spatial_norm / fourier_norm (executed for every mode string with and without reference), the spatial aggregator and the
   (mode, inner exponent, outer exponent) tables of the named metrics are re-translated from the source on every run
   (harness/translate/metrics.py -> Gen/MetricsGen.v; H1_*, mean_metric and correlation are compared with their expected text).  They are the
   model's: the combination per channel and the rejected calls for every mode; the aggregator with inner exponent 2 for ANY real power
   function with |x|^2 = x x (the outer power is the model's `root`); MAE / MSE / RMSE-type metrics use the exponents (1, 1), (2, 1), (2, 1/2) *)
From EXV Require Import Gen.MetricsGen Tie.MetricsTie.
Ltac splits := repeat match goal with |- _ /\ _ => split end.
Theorem C16_code_norms_are_model_norms : forall (F : FieldT) (mode : Z) (d s r : F) (ref_none : bool),
  gen_combine_spatial F mode d s r = combine_spatial F mode d s r
  /\ gen_combine_fourier F mode d s r = combine_fourier F mode d s r
  /\ gen_spatial_norm_raises ref_none mode = spatial_norm_raises ref_none mode
  /\ gen_fourier_norm_raises ref_none mode = fourier_norm_raises ref_none mode
  /\ (forall (powr : F -> F -> F) (absf root : F -> F) (outer : F) (D : nat) (N : Z) (L : F) (u : list F),
        (forall x, powr (absf x) (fz 2) = omul x x) -> (forall y, powr y outer = root y) ->
        gen_spatial_aggregator F powr absf D N L (fz 2) outer u = spatial_agg F root D N L u)
  /\ (nth 0 gen_table_spatial (0%Z, 0%Q, 0%Q) = (0%Z, (1 # 1)%Q, (1 # 1)%Q) /\ nth 3 gen_table_spatial (0%Z, 0%Q, 0%Q) = (0%Z, (2 # 1)%Q, (1 # 1)%Q)
      /\ nth 6 gen_table_spatial (0%Z, 0%Q, 0%Q) = (0%Z, (2 # 1)%Q, (1 # 2)%Q) /\ nth 4 gen_table_spatial (0%Z, 0%Q, 0%Q) = (1%Z, (2 # 1)%Q, (1 # 1)%Q)
      /\ nth 5 gen_table_spatial (0%Z, 0%Q, 0%Q) = (2%Z, (2 # 1)%Q, (1 # 1)%Q) /\ length gen_table_spatial = 9%nat)
  /\ (nth 2 gen_table_fourier (0%Z, 0%Q, 0%Q) = (0%Z, (2 # 1)%Q, (1 # 1)%Q) /\ nth 3 gen_table_fourier (0%Z, 0%Q, 0%Q) = (1%Z, (2 # 1)%Q, (1 # 1)%Q)
      /\ length gen_table_fourier = 6%nat /\ gen_H1_derivative_orders = [None; Some 1%Z]).
Proof.
  intros F mode d s r ref_none. destruct tables_tie as (T1 & T2 & T3). splits.
  - apply combine_spatial_tie.
  - apply combine_fourier_tie.
  - apply spatial_raises_tie.
  - apply fourier_raises_tie.
  - intros powr absf root outer D N L u H2 Hr. apply spatial_aggregator_tie; assumption.
  - rewrite T1; reflexivity.
  - rewrite T1; reflexivity.
  - rewrite T1; reflexivity.
  - rewrite T1; reflexivity.
  - rewrite T1; reflexivity.
  - rewrite T1; reflexivity.
  - rewrite T2; reflexivity.
  - rewrite T2; reflexivity.
  - rewrite T2; reflexivity.
  - exact T3.
Qed.
Print Assumptions C16_code_norms_are_model_norms.

(* ------------------------------------------------------------------------------------------------ *)
(* non-vacuity of the hypotheses *)
Example C16_ex_ordered_Qc : OrderedField QcField Qcle.
Proof. exact Qc_ordered. Qed.

(* i is a primitive 4th root of unity of modulus 1 in the Gaussian rationals: the premises of the Parseval theorems hold for n = 4 *)
Example C16_ex_root_of_unity :
  let w : cx QcField := @ci QcOps in
  @fpow (CField Qc_formally_real) w 4 = c1 QcField
  /\ (forall m, (0 < m < 4)%nat -> @fpow (CField Qc_formally_real) w m <> c1 QcField)
  /\ cmul w (cconj w) = c1 QcField.
Proof.
  cbv zeta. split; [|split].
  - apply cx_ext; vm_compute; reflexivity.
  - intros m Hm H. destruct m as [|[|[|[|m]]]]; try lia;
      apply (f_equal (@re QcField)) in H; vm_compute in H; discriminate H.
  - apply cx_ext; vm_compute; reflexivity.
Qed.

(* a concrete instance of the Parseval theorem of the model, computed: n = 4, u = (1, -2, 1/2, 3), L = 2 *)
Example C16_ex_parseval_instance :
  let u := fun j : nat => nth j [Q2Qc 1; Q2Qc (-2); Q2Qc (1 # 2); Q2Qc 3] (Q2Qc 0) in
  fourier_agg QcField (idK QcField) 1 4 (Q2Qc 2) (Q2Qc 6) None None None (map (rdft QcField 4 (@ci QcOps) u) (seq 0 3))
  = spatial_agg QcField (idK QcField) 1 4 (Q2Qc 2) (map u (seq 0 4)).
Proof. vm_compute. reflexivity. Qed.
