(* C05 — spectral differential operators are exact on band-limited fields.
   Models: Spectral/Symbols.v (laplace_sym, gip_sym), Spectral/Operators.v (deriv_mode, poisson_mode), hand-written from
   _spectral.py / _poisson.py and tied to the code by the exact-rational correspondence at every stored mode.
   A Nyquist-free trigonometric polynomial is a finite combination of characters exp(i kappa.x); differentiation acts on each
   character by multiplication with (i kappa_c)^m (symbol calculus) -- the operators below are exactly these multipliers. *)
From Coq Require Import ZArith QArith List Bool Lia.
From EXV Require Import Base.Scalar Base.FieldLemmas Base.Cplx Spectral.Symbols Spectral.Operators Spectral.OperatorsProofs Spectral.RealSymbols
  Gen.Guards.
Import ListNotations.
Local Open Scope fld_scope.

(* derivative of order m along axis c multiplies mode k by (d_c)^m; the output has one entry per axis (the gradient axis) *)
Theorem C05_derivative_multiplier : forall (F : FieldT) (m : nat) (d : list F) (u : F) (c : nat),
  length (deriv_mode F m d u) = length d /\ (c < length d)%nat -> nth c (deriv_mode F m d u) 0 = fpow (nth c d 0) m * u.
Proof.
  intros F m d u c [_ Hc]. unfold deriv_mode.
  revert c Hc. induction d as [|x d IH]; intros c Hc; cbn [length] in Hc; [lia|].
  destruct c as [|c]; cbn [map nth]; [reflexivity | apply IH; lia].
Qed.
Print Assumptions C05_derivative_multiplier.

(* Laplace (even order 2n) and gradient-inner-product (odd order 2n+1) operators equal their analytic symbols, for any i with i^2 = -1 *)
Theorem C05_operator_symbols : forall (F : FieldT) (ii : F), ii * ii = - (1) ->
  forall (n : nat) (v kap : list F),
  ((0 < n)%nat -> laplace_sym F (2 * n) (dk F ii kap) = fpow (- (1)) n * fsum (map (fun x => fpow x (2 * n)) kap))
  /\ gip_sym F v (2 * n + 1) (dk F ii kap) = ii * fpow (- (1)) n * fsum (map2 (fun vc x => vc * fpow x (2 * n + 1)) v kap)
  /\ laplace_sym F 0 (dk F ii kap) = 1.
Proof.
  intros F ii Hi n v kap. split; [|split].
  - intros Hn. apply laplace_symbol; assumption.
  - apply gip_symbol; assumption.
  - reflexivity.
Qed.
Print Assumptions C05_operator_symbols.

(* orders of the wrong parity are refused (Gen/Guards.v, translated from the source) *)
Theorem C05_parity_guards : forall order : Z,
  (laplace_order_raises order = true <-> (order mod 2 <> 0)%Z) /\ (forall D, gip_raises order D [D] = true <-> (order mod 2 <> 1)%Z).
Proof.
  intros order. split.
  - unfold laplace_order_raises. rewrite negb_true_iff, Z.eqb_neq. reflexivity.
  - intros D. unfold gip_raises. destruct (Z.eqb_spec (order mod 2) 1) as [E|E]; cbn.
    + split; [|contradiction]. cbn. rewrite Z.eqb_refl. discriminate.
    + split; [intros _; exact E | reflexivity].
Qed.
Print Assumptions C05_parity_guards.

(* Poisson: at every mode with non-zero operator symbol lam the result u solves lam * u = - f; where the symbol vanishes u = 0 *)
Theorem C05_poisson_solves : forall (F : FieldT) (lam f : F),
  (lam <> 0 -> lam * poisson_mode F lam f = - f) /\ (lam = 0 -> poisson_mode F lam f = 0).
Proof. intros. apply poisson_solves. Qed.
Print Assumptions C05_poisson_solves.

(* ... and over a formally real field with real wavenumbers the order-2 symbol vanishes exactly at the mean mode:
   the solution is the zero-mean field whose Laplacian is minus the zero-mean part of f *)
Theorem C05_symbol_vanishes_only_at_mean_mode : forall (F : FieldT), FormallyRealL F -> forall kap : list F,
  lapm (COps F) (dreal F kap) = @o0 (COps F) <-> Forall (fun x => x = 0) kap.
Proof. intros F FR kap. apply lap_zero_iff. exact FR. Qed.
Print Assumptions C05_symbol_vanishes_only_at_mean_mode.

Example C05_ex_rationals_formally_real : FormallyRealL QcField.
Proof. exact Qc_formally_real_list. Qed.

(* the derivative operator of the source (build_derivative_operator -> build_scaled_wavenumbers -> build_wavenumbers, re-translated on
   every run by harness/translate/spectral.py): component c at stored index idx is the purely imaginary number i (2 pi / L) k_c with
   k_c the signed integer wavenumber of the layout (Layout/Freq.v), for every number of axes, both indexing conventions, any pi *)
From EXV Require Import Layout.Freq Gen.SpectralGen Tie.SpectralTie.
Theorem C05_code_derivative_operator_is_model : forall (F : FieldT) (pi L : F) (xy : bool) (D : nat) (N : Z) (c : nat) (idx : list Z),
  (c < D)%nat ->
  gen_build_derivative_operator F pi xy D L N c idx = (0, (fz 2 * pi / L) * fz (wavenumber xy D N c idx))
  /\ gen_build_scaled_wavenumbers F pi xy D L N c idx = (fz 2 * pi / L) * fz (wavenumber xy D N c idx).
Proof.
  intros F pi L xy D N c idx Hc. split.
  - apply derivative_operator_tie; exact Hc.
  - apply scaled_wavenumbers_tie; exact Hc.
Qed.
Print Assumptions C05_code_derivative_operator_is_model.

(* the Poisson solver of the source (Poisson.__init__ / step_fourier, re-translated on every run by harness/translate/linops.py together
   with build_laplace_operator) is the model's poisson_mode with the Laplace symbol of the requested (even) order, at every mode *)
From EXV Require Import Gen.LinOps Gen.OperatorsGen Tie.LinOpsTie Tie.PoissonTie.
Theorem C05_code_poisson_is_model : forall (F : FieldT) (d : list F) (order : nat) (f : F),
  gen_poisson_step_fourier F (gen_poisson_inv_operator F d order) f = poisson_mode F (laplace_sym F order d) f
  /\ gen_build_laplace_operator F d order = laplace_sym F order d.
Proof. intros F d order f. split; [apply poisson_tie | apply laplace_tie]. Qed.
Print Assumptions C05_code_poisson_is_model.
