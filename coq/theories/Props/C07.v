(* C07 — steppers are differentiable with correct derivatives (PARTIAL: the algebraic part is proved here; JAX's AD rules,
   reverse mode through lax.scan, NaN-safety of guarded divisions and the contour-integral coefficients are checked on the
   real code by harness/props/c07.py for every exported stepper class).

   Model: every model function takes [K : Ops] only, so it can be evaluated on DUAL NUMBERS [DualOps F] (Base/Dual.v): a value and
   an infinitesimal part with the product / quotient / chain rules of forward-mode AD.  The theorems say that the eps-part of the
   model evaluated at (u + eps v) is the algebraic directional derivative, for every field F of characteristic 0, every N, D, mode,
   state u, direction v and step count n:
     (a) sum / product / quotient / power rules; soundness for every polynomial expression (structural induction); chain rule
         through compositions and through the n-fold iterate (repeat / rollout entries);
     (b) linear steppers (mode-wise multiplication by exp(dt lambda_k); the wave step): the Jacobian is the map itself, also after
         n steps; central differences are exact; derivative with respect to dt and to the symbol;
     (c) the pseudo-spectral products prod2 / prod3 are bi- / trilinear; D prod2(U,U)[V] = prod2(U,V) + prod2(V,U); central
         differences of a quadratic map are EXACT and for a cubic map the remainder is exactly h^2 T(v,v,v);
     (d) reverse mode at the algebraic level: a diagonal multiplier is self-adjoint for the pairing sum_k v_k w_k, n-fold iterates
         too, and adjoints compose in reverse order;
     (e) ETD1, ETD2RK, ETD3RK, ETD4RK (ETDRK/Phi.v): derivative with respect to the state given the derivative DN of the
         nonlinear term, stage by stage; instance: the Burgers-type step with the modelled convection term.
   The same dual-number evaluation is extracted and compared with jax.jvp of the real code (Exec/EntryC07.v). *)
From Coq Require Import ZArith QArith Qcanon List Bool Lia.
From EXV Require Import Base.Scalar Base.FieldLemmas Base.Cplx Base.Dual Base.DualProofs AD.Deriv AD.DerivProofs Utils.Rollout Utils.RolloutProofs
  Spectral.Symbols Layout.Freq Steppers.Linear Nonlin.Conv Nonlin.Terms ETDRK.Phi.
Import ListNotations.
Local Open Scope fld_scope.
Ltac splits := repeat match goal with |- _ /\ _ => split end.

(* ---- (a) the rules of forward mode ---- *)
Theorem C07_dual_rules : forall (F : FieldT) (a b : DualOps F) (n : nat) (l : list (DualOps F)),
  eps (a + b) = eps a + eps b /\ eps (a - b) = eps a - eps b
  /\ val (a * b) = val a * val b /\ eps (a * b) = eps a * val b + val a * eps b
  /\ eps (a / b) = (eps a * val b - val a * eps b) / (val b * val b)
  /\ (val b <> 0 -> b * (a / b) = a /\ forall q, b * q = a -> q = a / b)
  /\ val (fpow a n) = fpow (val a) n /\ eps (fpow a (S n)) = fz (Z.of_nat (S n)) * fpow (val a) n * eps a
  /\ val (fsum l) = fsum (map val l) /\ eps (fsum l) = fsum (map eps l).
Proof.
  intros F a b n l. splits; try reflexivity.
  - intros Hb. split; [apply ddiv_ok; exact Hb | intros q Hq; apply ddiv_unique; assumption].
  - apply val_fpow.
  - apply eps_fpow.
  - apply val_fsum.
  - apply eps_fsum.
Qed.
Print Assumptions C07_dual_rules.

(* the dual numbers form a commutative ring containing F as constants (derivative 0), so every model term is evaluated in a ring *)
Theorem C07_dual_ring : forall F : FieldT,
  ring_theory (@o0 (DualOps F)) (@o1 (DualOps F)) (@oadd (DualOps F)) (@omul (DualOps F)) (@osub (DualOps F)) (@oopp (DualOps F)) eq
  /\ (forall z : Z, @fz (DualOps F) z = dconst (fz z)) /\ (forall q : Q, @fq (DualOps F) q = dconst (fq q))
  /\ (forall x y : F, @odiv (DualOps F) (dconst x) (dconst y) = dconst (x / y)).
Proof. intros F. splits; [apply dual_ring_theory | apply dual_fz | apply dual_fq | apply dconst_div]. Qed.
Print Assumptions C07_dual_ring.

(* soundness: for every polynomial expression e in any number of variables, evaluating e on (x + eps v) gives the value of e at x
   and its formal directional derivative (sum, product and power rules), which is linear in the direction *)
Theorem C07_dual_sound : forall (F : FieldT) (e : pexpr F) (x v w : nat -> F) (h : F),
  peval (K' := DualOps F) dconst (fun i => mkdual (x i) (v i)) e = mkdual (peval (K' := F) (fun c => c) x e) (pderiv F x v e)
  /\ pderiv F x (fun i => v i + w i) e = pderiv F x v e + pderiv F x w e
  /\ pderiv F x (fun i => h * v i) e = h * pderiv F x v e.
Proof. intros. splits; [apply dual_sound | apply pderiv_add | apply pderiv_scal]. Qed.
Print Assumptions C07_dual_sound.

(* chain rule: composition, and the n-fold iterate = repeat = every entry of a rollout (C14): the derivative is the product of the
   one-step Jacobians along the trajectory *)
Theorem C07_chain_rule_rollout : forall (F : FieldT) (I : Type)
  (fD : (I -> DualOps F) -> (I -> DualOps F)) (f : (I -> F) -> (I -> F)) (Df : (I -> F) -> (I -> F) -> (I -> F)),
  dual_deriv F I fD f Df -> ext_fun I fD ->
  forall (n : nat) (u v : I -> F) (k : I),
    repeat_fn fD n (lift u v) k = mkdual (repeat_fn f n u k) (Diter F I n f Df u v k)
    /\ (forall i, (i < n)%nat ->
          exists tD t, nth_error (rollout fD n false (lift u v)) i = Some tD /\ nth_error (rollout f n false u) i = Some t
                       /\ tD k = mkdual (t k) (Diter F I (S i) f Df u v k)).
Proof.
  intros F I fD f Df Hf Ef n u v k. split.
  - rewrite !repeat_spec. apply dual_iter; assumption.
  - intros i Hi. exists (iter (S i) fD (lift u v)), (iter (S i) f u). splits.
    + apply rollout_nth. exact Hi.
    + apply rollout_nth. exact Hi.
    + apply dual_iter; assumption.
Qed.
Print Assumptions C07_chain_rule_rollout.

Theorem C07_chain_rule_compose : forall (F : FieldT) (I : Type) fD f Df gD g Dg,
  dual_deriv F I fD f Df -> dual_deriv F I gD g Dg -> ext_fun I gD ->
  dual_deriv F I (fun p => gD (fD p)) (fun u => g (f u)) (fun u v => Dg (f u) (Df u v)).
Proof. intros. apply dual_chain; assumption. Qed.
Print Assumptions C07_chain_rule_compose.

(* ---- (b) linear steppers: step (u + eps v) = step u + eps step v; n steps too; central differences exact ---- *)
Theorem C07_linear_jacobian_is_the_map : forall (F : FieldT) (I : Type) (cexp : F -> F) (lam : I -> F) (dt : F) (n : nat) (u v : I -> F) (k : I),
  let step := linear_step F cexp I dt lam in
  let stepD := linear_step (DualOps F) (dlift cexp cexp) I (dconst dt) (dconstf lam) in
  stepD (lift u v) k = mkdual (step u k) (step v k)
  /\ repeat_fn stepD n (lift u v) k = mkdual (repeat_fn step n u k) (repeat_fn step n v k)
  /\ (forall h, h <> 0 -> cdiff step u h v k = step v k).
Proof.
  intros F I cexp lam dt n u v k step stepD. splits.
  - apply linear_step_dual.
  - rewrite !repeat_spec. apply iter_linear_step_dual.
  - intros h Hh. apply linear_fd_exact; [apply linear_step_linear | exact Hh].
Qed.
Print Assumptions C07_linear_jacobian_is_the_map.

(* derivative of the propagator with respect to dt and to the symbol (hence to every coefficient the symbol depends on),
   with exp lifted by exp' = exp; the lifted exp satisfies the exponential law again *)
Theorem C07_propagator_dt_and_symbol_derivative : forall (F : FieldT) (I : Type) (cexp : F -> F) (lam dlam u : I -> F) (dt : F) (k : I),
  linear_step (DualOps F) (dlift cexp cexp) I (dvar dt) (dconstf lam) (dconstf u) k
    = mkdual (linear_step F cexp I dt lam u k) (lam k * linear_step F cexp I dt lam u k)
  /\ linear_step (DualOps F) (dlift cexp cexp) I (dconst dt) (lift lam dlam) (dconstf u) k
    = mkdual (linear_step F cexp I dt lam u k) (dt * dlam k * linear_step F cexp I dt lam u k)
  /\ ((forall x y, cexp (x + y) = cexp x * cexp y) -> cexp 0 = 1 ->
      (forall a b : DualOps F, dexp F cexp (a + b) = dexp F cexp a * dexp F cexp b) /\ dexp F cexp 0 = 1).
Proof.
  intros F I cexp lam dlam u dt k. splits.
  - apply linear_step_dual_dt.
  - apply linear_step_dual_symbol.
  - intros Ha H0. split; [intros a b; apply (dexp_add F cexp Ha) | apply (dexp_0 F cexp H0)].
Qed.
Print Assumptions C07_propagator_dt_and_symbol_derivative.

(* the wave step (diagonalisation, guarded division by |k|, mean-mode drift) is linear in (h, v): Jacobian = the step *)
Theorem C07_wave_jacobian_is_the_map : forall (F : FieldT) (ii s c rho dt Ep Em : F) (is_dc : bool) (h dh v dv : F),
  ii <> 0 -> c <> 0 ->
  wave_mode (DualOps F) (dconst ii) (dconst s) (dconst c) (dconst rho) (dconst dt) (dconst Ep) (dconst Em) is_dc (mkdual h dh) (mkdual v dv)
  = (mkdual (fst (wave_mode F ii s c rho dt Ep Em is_dc h v)) (fst (wave_mode F ii s c rho dt Ep Em is_dc dh dv)),
     mkdual (snd (wave_mode F ii s c rho dt Ep Em is_dc h v)) (snd (wave_mode F ii s c rho dt Ep Em is_dc dh dv))).
Proof. intros. apply wave_mode_dual; assumption. Qed.
Print Assumptions C07_wave_jacobian_is_the_map.

(* derivative of the linear symbols with respect to the coefficients: generic coefficient lists (linear in the list), Burgers,
   Kuramoto-Sivashinsky, and Swift-Hohenberg (quadratic in the critical number) *)
Theorem C07_symbol_coefficient_derivatives : forall (F : FieldT) (d : list F),
  (forall a da, length a = length da ->
     poly_sym (DualOps F) (map2 mkdual a da) (map dconst d) = mkdual (poly_sym F a d) (poly_sym F da d))
  /\ (forall nu dnu, sym_burgers (DualOps F) (mkdual nu dnu) (map dconst d) = mkdual (sym_burgers F nu d) (dnu * laplace_sym F 2 d))
  /\ (forall s2 ds2 s4 ds4, sym_ks (DualOps F) (mkdual s2 ds2) (mkdual s4 ds4) (map dconst d)
        = mkdual (sym_ks F s2 s4 d) (- ds2 * laplace_sym F 2 d - ds4 * laplace_sym F 4 d))
  /\ (forall r dr kc dkc, sym_swift_hohenberg (DualOps F) (mkdual r dr) (mkdual kc dkc) (map dconst d)
        = mkdual (sym_swift_hohenberg F r kc d) (dr - fz 2 * (kc + laplace_sym F 2 d) * dkc)).
Proof.
  intros F d. splits.
  - intros. apply poly_sym_dual. assumption.
  - intros. apply sym_burgers_dual.
  - intros. apply sym_ks_dual.
  - intros. apply sym_swift_hohenberg_dual.
Qed.
Print Assumptions C07_symbol_coefficient_derivatives.

(* ---- (c) quadratic and cubic maps ---- *)
Theorem C07_quadratic_fd_exact : forall (F : FieldT) (I : Type) (B : (I -> F) -> (I -> F) -> (I -> F)),
  bilinear B -> forall (u v : I -> F) (h : F) (k : I),
    quad F I B (pert u h v) k = quad F I B u k + h * Dquad F I B u v k + h * h * quad F I B v k
    /\ (h <> 0 -> cdiff (quad F I B) u h v k = Dquad F I B u v k).
Proof. intros F I B HB u v h k. split; [apply quad_expand | apply quad_fd_exact]; assumption. Qed.
Print Assumptions C07_quadratic_fd_exact.

Theorem C07_cubic_fd_remainder : forall (F : FieldT) (I : Type) (T : (I -> F) -> (I -> F) -> (I -> F) -> (I -> F)),
  trilinear T -> forall (u v : I -> F) (h : F) (k : I), h <> 0 ->
    cdiff (cub F I T) u h v k = Dcub F I T u v k + h * h * cub F I T v k.
Proof. intros F I T HT u v h k Hh. apply cub_fd_remainder; assumption. Qed.
Print Assumptions C07_cubic_fd_remainder.

(* the pseudo-spectral products of the code are bi-/trilinear, and their dual evaluation is the product rule;
   hence central differences of U |-> prod2(U,U) are exact and those of U |-> prod3(U,U,U) have remainder h^2 prod3(V,V,V) *)
Theorem C07_pseudo_spectral_products : forall (F : FieldT) (D : nat) (N Kc : Z),
  bilinear (prod2 F D N Kc) /\ trilinear (prod3 F D N Kc)
  /\ (forall (U V U' V' : field F) (k : idx),
        prod2 (DualOps F) D N Kc (lift U V) (lift U' V') k
        = mkdual (prod2 F D N Kc U U' k) (prod2 F D N Kc V U' k + prod2 F D N Kc U V' k))
  /\ (forall (U V : field F) (h : F) (k : idx), h <> 0 ->
        cdiff (fun W => prod2 F D N Kc W W) U h V k = prod2 F D N Kc U V k + prod2 F D N Kc V U k)
  /\ (forall (U V : field F) (h : F) (k : idx), h <> 0 ->
        cdiff (fun W => prod3 F D N Kc W W W) U h V k
        = prod3 F D N Kc V U U k + prod3 F D N Kc U V U k + prod3 F D N Kc U U V k + h * h * prod3 F D N Kc V V V k).
Proof.
  intros F D N Kc. splits.
  - apply prod2_bilinear.
  - apply prod3_trilinear.
  - intros. apply prod2_dual.
  - intros U V h k Hh. apply (quad_fd_exact F idx (prod2 F D N Kc) (prod2_bilinear F D N Kc) U h V k Hh).
  - intros U V h k Hh. apply (cub_fd_remainder F idx (prod3 F D N Kc) (prod3_trilinear F D N Kc) U h V k Hh).
Qed.
Print Assumptions C07_pseudo_spectral_products.

(* the modelled single-channel conservative convection term -b/2 (sum_c d_c)(u^2): derivative with respect to the state
   (the term with the product replaced by prod2(U,V) + prod2(V,U)) and with respect to the scale b (the term is linear in b) *)
Theorem C07_convection_term_derivative : forall (F : FieldT) (D : nat) (N Kc : Z) (ii s b db : F) (Dx : nat) (U V : field F) (k : idx),
  conv_sc_cons (DualOps F) (prod2 (DualOps F) D N Kc) (dconst ii) (dconst s) Dx (dconst b) (lift U V) k
    = mkdual (conv_sc_cons F (prod2 F D N Kc) ii s Dx b U k)
             (conv_sc_cons F (fun A _ => Dquad F idx (prod2 F D N Kc) A V) ii s Dx b U k)
  /\ conv_sc_cons (DualOps F) (prod2 (DualOps F) D N Kc) (dconst ii) (dconst s) Dx (mkdual b db) (dconstf U) k
    = mkdual (conv_sc_cons F (prod2 F D N Kc) ii s Dx b U k) (conv_sc_cons F (prod2 F D N Kc) ii s Dx db U k).
Proof. intros. split; [apply conv_sc_cons_dual | apply conv_sc_cons_dual_scale]. Qed.
Print Assumptions C07_convection_term_derivative.

(* ---- (d) reverse mode at the algebraic level ---- *)
Theorem C07_adjoint_diagonal : forall (F : FieldT) (I : Type) (l : list I) (E v w : I -> F) (n : nat),
  pairing l (diag E v) w = pairing l v (diag E w)
  /\ pairing l (iter n (diag E) v) w = pairing l v (iter n (diag E) w)
  /\ (forall A A' C C' : (I -> F) -> (I -> F),
        (forall x y, pairing l (A x) y = pairing l x (A' y)) -> (forall x y, pairing l (C x) y = pairing l x (C' y)) ->
        pairing l (A (C v)) w = pairing l v (C' (A' w))).
Proof.
  intros F I l E v w n. splits.
  - apply diag_self_adjoint.
  - apply iter_diag_self_adjoint.
  - intros A A' C C' HA HC. apply adjoint_compose; assumption.
Qed.
Print Assumptions C07_adjoint_diagonal.

(* ---- (e) the ETD tableaux: derivative with respect to the state, given the derivative DN of the nonlinear term ----
   full statement of this part of the property: also the derivative with respect to dt and to the coefficients, which enter through
   z = dt*lambda, E = exp z and the phi-functions evaluated by a contour integral; that part is NOT proved (no complex analysis in
   the installed libraries) and is checked on the real code against central differences for every class and order. *)
Theorem C07_etdrk_state_derivative_partial : forall (F : FieldT) (I : Type) (h : F) (z E Eh : I -> F)
  (N : (I -> F) -> (I -> F)) (ND : (I -> DualOps F) -> (I -> DualOps F)) (DN : (I -> F) -> (I -> F) -> (I -> F)),
  dual_deriv F I ND N DN -> ext_fun I ND ->
  let hD := (dconst h : DualOps F) in let zD := dconstf z in let ED := dconstf E in let EhD := dconstf Eh in
  dual_deriv F I (etd1 hD zD ED ND) (etd1 h z E N) (fun u v k => E k * v k + h * (phi1 (z k) (E k) * DN u v k))
  /\ dual_deriv F I (etd2rk hD zD ED ND) (etd2rk h z E N) (Detd2rk F I h z E N DN)
  /\ dual_deriv F I (etd3rk hD zD ED EhD ND) (etd3rk h z E Eh N) (Detd3rk F I h z E Eh N DN)
  /\ dual_deriv F I (etd4rk hD zD ED EhD ND) (etd4rk h z E Eh N) (Detd4rk F I h z E Eh N DN).
Proof.
  intros F I h z E Eh N ND DN HN EN hD zD ED EhD. splits.
  - apply (etd1_dual F I h z E N ND DN HN).
  - apply etd2rk_dual; assumption.
  - apply etd3rk_dual; assumption.
  - apply etd4rk_dual; assumption.
Qed.
Print Assumptions C07_etdrk_state_derivative_partial.

(* instance (hypotheses of (e) are met by a modelled term): the ETD1 and ETD2RK Burgers-type steps, and their n-fold iterates *)
Theorem C07_burgers_step_jacobian : forall (F : FieldT) (D : nat) (N Kc : Z) (ii s b h : F) (Dx : nat) (z E : field F) (n : nat),
  let NL := conv_sc_cons F (prod2 F D N Kc) ii s Dx b in
  let NLD := conv_sc_cons (DualOps F) (prod2 (DualOps F) D N Kc) (dconst ii) (dconst s) Dx (dconst b) in
  let DNL := fun U V => conv_sc_cons F (fun A _ => Dquad F idx (prod2 F D N Kc) A V) ii s Dx b U in
  dual_deriv F idx (etd1 (dconst h : DualOps F) (dconstf z) (dconstf E) NLD) (etd1 h z E NL) (Detd1 F idx h z E DNL)
  /\ dual_deriv F idx (etd2rk (dconst h : DualOps F) (dconstf z) (dconstf E) NLD) (etd2rk h z E NL) (Detd2rk F idx h z E NL DNL)
  /\ dual_deriv F idx (iter n (etd1 (dconst h : DualOps F) (dconstf z) (dconstf E) NLD)) (iter n (etd1 h z E NL))
                      (Diter F idx n (etd1 h z E NL) (Detd1 F idx h z E DNL)).
Proof.
  intros F D N Kc ii s b h Dx z E n NL NLD DNL. splits.
  - apply burgers_etd1_dual.
  - apply burgers_etd2rk_dual.
  - apply dual_iter; [apply burgers_etd1_dual|].
    intros p q H k. unfold etd1. rewrite H. f_equal. f_equal. f_equal. apply conv_sc_cons_ext. exact H.
Qed.
Print Assumptions C07_burgers_step_jacobian.

(* ---- non-vacuity: concrete dual numbers over the rationals ---- *)
(* d/dx (x^3 - 2x) at x = 3 is 25 *)
Example C07_ex_poly :
  let x : DualOps QcField := @dvar QcField (Q2Qc 3) in
  (fpow x 3 - fz 2 * x) = (mkdual (Q2Qc 21) (Q2Qc 25) : DualOps QcField).
Proof. apply dual_ext; vm_compute; reflexivity. Qed.
(* quotient rule: d/dx (1/x) at x = 2 is -1/4 *)
Example C07_ex_quot :
  ((1 : DualOps QcField) / @dvar QcField (Q2Qc 2)) = (mkdual (Q2Qc (1 # 2)) (Q2Qc (-1 # 4)) : DualOps QcField).
Proof. apply dual_ext; vm_compute; reflexivity. Qed.
(* a bilinear map exists at every size: prod2 (C07_pseudo_spectral_products); a nonlinear term meeting the hypotheses of
   C07_etdrk_state_derivative_partial exists: the convection term (C07_burgers_step_jacobian) *)
