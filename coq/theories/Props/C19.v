(* C19 — Steps stay finite and precision-faithful across stiffness and dtype.   PARTIAL.
   Subject: Gen/ETDRK.v (regenerated on every run from exponax/etdrk/*.py) and ETDRK/Contour.v.
   What an exact-arithmetic model can say, and what is proved here for every field of characteristic 0
   (complex numbers over any formally real field for the statements about the axes):
     (a) the coefficient closed forms divide by nothing but powers of lr = z + r w_j; run with a partial division
         (x/0 = error) the generated integrands return a value iff lr <> 0;
     (b) lr <> 0 for every real symbol z (M even) and every purely imaginary symbol z (4 | M, the code's M = 16),
         because the contour points are the half-shifted roots, w_j^M = -1 (C02_contour_half_shifted);
     (c) the stage programs of orders 0-4 map the zero state to zero when N(0) = 0, for ARBITRARY coefficient arrays
         (finite or not in floating point: this is the algebraic identity), and to the stated combination of the
         forcing otherwise; with the closed-form coefficients and a state-independent forcing f the result is
         h phi_1(z) f, the exact forced solution, at every order;
     (d) lambda = 0: partial, see C19_lambda_zero_partial.
   What it cannot say (decided on the real code by harness/props/c19.py in a float32 and a float64 process):
   overflow of intermediates such as lr^3 or exp(lr) for |z| up to 1e15, XLA's complex division / exp / integer power,
   dtype promotion, and the float32-vs-float64 distance of a step.  The statement of DESIGN.md `coef_bounded`
   (|c_{p,j}| <= B(|z|) over R for Re z <= 0) is NOT proved: it needs |exp(lr)| <= exp(r), i.e. real analysis.
   All theorems are closed under the global context (no axioms).  Coq's classical reals appear ONLY in two non-vacuity Examples at
   the end (a primitive 8th root of unity and the complex exponential exist in R(i)); Examples are not obligations. *)
From Coq Require Import ZArith QArith Qcanon List Bool Lia.
From EXV Require Import Base.Scalar Base.FieldLemmas Base.Cplx DFT.DFT1 ETDRK.Phi ETDRK.Contour ETDRK.ContourProofs Gen.ETDRK.
Import ListNotations.
Local Open Scope fld_scope.
Ltac splits := repeat match goal with |- _ /\ _ => split end.

(* (a) every integrand is numerator(lr, e, eh) * (1/lr)^m with a polynomial numerator: only lr is ever inverted *)
Theorem C19_closed_forms_defined : forall (F : FieldT) (lr e eh : F), lr <> 0 ->
  etdrk1_integrand_1 F lr e eh = num_e1 F lr e * inv_pow F lr 1
  /\ etdrk2_integrand_1 F lr e eh = num_e1 F lr e * inv_pow F lr 1
  /\ etdrk2_integrand_2 F lr e eh = num_e2 F lr e * inv_pow F lr 2
  /\ etdrk3_integrand_1 F lr e eh = num_e1 F lr eh * inv_pow F lr 1
  /\ etdrk3_integrand_2 F lr e eh = num_e1 F lr e * inv_pow F lr 1
  /\ etdrk3_integrand_3 F lr e eh = num_a3 F lr e * inv_pow F lr 3
  /\ etdrk3_integrand_4 F lr e eh = fz 4 * num_b3 F lr e * inv_pow F lr 3
  /\ etdrk3_integrand_5 F lr e eh = num_c3 F lr e * inv_pow F lr 3
  /\ etdrk4_integrand_1 F lr e eh = num_e1 F lr eh * inv_pow F lr 1
  /\ etdrk4_integrand_2 F lr e eh = num_e1 F lr eh * inv_pow F lr 1
  /\ etdrk4_integrand_3 F lr e eh = num_e1 F lr eh * inv_pow F lr 1
  /\ etdrk4_integrand_4 F lr e eh = num_a3 F lr e * inv_pow F lr 3
  /\ etdrk4_integrand_5 F lr e eh = num_b3 F lr e * inv_pow F lr 3
  /\ etdrk4_integrand_6 F lr e eh = num_c3 F lr e * inv_pow F lr 3.
Proof.
  intros F lr e eh H. splits;
    [ apply cf_1_1 | apply cf_2_1 | apply cf_2_2 | apply cf_3_1 | apply cf_3_2 | apply cf_3_3 | apply cf_3_4 | apply cf_3_5
    | apply cf_4_1 | apply cf_4_2 | apply cf_4_3 | apply cf_4_4 | apply cf_4_5 | apply cf_4_6 ]; exact H.
Qed.
Print Assumptions C19_closed_forms_defined.

(* (a') the generated integrands executed with partial division: defined (and equal to the field value) iff lr <> 0 *)
Theorem C19_no_division_by_zero : forall (F : FieldT) (lr e eh : F),
  (lr <> 0 -> map (fun g => g (Some lr) (Some e) (Some eh)) (all_integrands (OptOps F))
              = map (fun g => Some (g lr e eh)) (all_integrands F))
  /\ (lr = 0 -> map (fun g => g (Some lr) (Some e) (Some eh)) (all_integrands (OptOps F))
              = map (fun _ => None) (all_integrands F)).
Proof.
  intros F lr e eh. split.
  - apply integrands_defined.
  - intros ->. apply integrands_undefined_at_zero.
Qed.
Print Assumptions C19_no_division_by_zero.

(* (b) general symbols: a contour point can vanish only if z^M = - r^M  (w^M = -1, M even): M isolated bad points *)
Theorem C19_contour_den_zero_only_if : forall (F : FieldT) (z r w : F) (n : nat),
  fpow w (2 * n) = - (1) -> z + r * w = 0 -> fpow z (2 * n) = - fpow r (2 * n).
Proof. exact lr_zero_even. Qed.
Print Assumptions C19_contour_den_zero_only_if.

(* (b) the contour points of the code are M-th roots of -1: w_j = exp(root_arg i pi j M), j = 1..M, for ANY function exp with the
   exponential law and exp(i pi) = -1 (jnp.exp on complex arguments, contract).  This is what ties the hypothesis w^M = -1 of
   the statements below to exponax/etdrk/_utils.roots_of_unity: un-shifting the roots breaks this theorem. *)
Theorem C19_contour_points_are_roots_of_minus_one : forall (F : FieldT) (cexp : F -> F) (ii pi : F),
  (forall a b, cexp (a + b) = cexp a * cexp b) -> cexp 0 = 1 -> cexp (ii * pi) = - (1) ->
  forall j M : nat, (0 < M)%nat -> (1 <= j)%nat ->
    fpow (cexp (root_arg F ii pi (fz (Z.of_nat j)) (fz (Z.of_nat M)))) M = - (1).
Proof. intros F cexp ii pi H1 H2 H3. exact (roots_half_shifted F cexp H1 H2 ii pi H3). Qed.
Print Assumptions C19_contour_points_are_roots_of_minus_one.

(* (b) core statement: z real, r real and non-zero, w^M = -1 with M even  ==>  z + r w <> 0;
       z purely imaginary, 4 | M ==> the same.  (C F = complex numbers over a formally real field F) *)
Theorem C19_contour_den_nonzero_real : forall (F : FieldT) (FR : FormallyReal F) (z r w : CField FR) (n : nat),
  im (z : cx F) = 0 -> im (r : cx F) = 0 -> r <> 0 -> fpow w (2 * n) = - (1) -> z + r * w <> 0.
Proof. exact contour_den_nonzero_real. Qed.
Print Assumptions C19_contour_den_nonzero_real.

Theorem C19_contour_den_nonzero_imag : forall (F : FieldT) (FR : FormallyReal F) (z r w : CField FR) (n : nat),
  re (z : cx F) = 0 -> im (r : cx F) = 0 -> r <> 0 -> fpow w (4 * n) = - (1) -> z + r * w <> 0.
Proof. exact contour_den_nonzero_imag. Qed.
Print Assumptions C19_contour_den_nonzero_imag.

(* (b) on the generated code: real dt, real radius, real lambda (dissipative operators: diffusion, hyper-diffusion, drag, KS,
   Swift-Hohenberg, ...) or purely imaginary lambda (advection, dispersion): the contour point lr of every order is non-zero
   for ANY w with w^M = -1 *)
Theorem C19_lr_nonzero_on_axes : forall (F : FieldT) (FR : FormallyReal F) (dt lam r w : CField FR) (n : nat),
  im (dt : cx F) = 0 -> im (r : cx F) = 0 -> r <> 0 ->
  (im (lam : cx F) = 0 /\ fpow w (2 * n) = - (1)) \/ (re (lam : cx F) = 0 /\ fpow w (4 * n) = - (1)) ->
  etdrk1_lr (CField FR) r w (etdrk1_Ldt (CField FR) dt lam) <> 0
  /\ etdrk2_lr (CField FR) r w (etdrk2_Ldt (CField FR) dt lam) <> 0
  /\ etdrk3_lr (CField FR) r w (etdrk3_Ldt (CField FR) dt lam) <> 0
  /\ etdrk4_lr (CField FR) r w (etdrk4_Ldt (CField FR) dt lam) <> 0.
Proof.
  intros F FR dt lam r w n Hdt Hr Hr0 [[H1 H2]|[H1 H2]].
  - exact (gen_lr_nonzero_real F FR dt lam r w Hdt Hr Hr0 n H1 H2).
  - exact (gen_lr_nonzero_imag F FR dt lam r w Hdt Hr Hr0 n H1 H2).
Qed.
Print Assumptions C19_lr_nonzero_on_axes.

(* (a)+(b) end to end: on both axes all fourteen coefficient integrands are evaluated without a division by zero *)
Theorem C19_coefficients_defined_on_axes : forall (F : FieldT) (FR : FormallyReal F) (dt lam r w e eh : CField FR) (n : nat),
  im (dt : cx F) = 0 -> im (r : cx F) = 0 -> r <> 0 ->
  (im (lam : cx F) = 0 /\ fpow w (2 * n) = - (1)) \/ (re (lam : cx F) = 0 /\ fpow w (4 * n) = - (1)) ->
  let lr := etdrk4_lr (CField FR) r w (etdrk4_Ldt (CField FR) dt lam) in
  map (fun g => g (Some lr) (Some e) (Some eh)) (all_integrands (OptOps (CField FR)))
  = map (fun g => Some (g lr e eh)) (all_integrands (CField FR)).
Proof.
  intros F FR dt lam r w e eh n Hdt Hr Hr0 H.
  exact (coefficients_defined_on_axes F FR dt lam r w Hdt Hr Hr0 n e eh H).
Qed.
Print Assumptions C19_coefficients_defined_on_axes.

(* (c) unforced equations: N(0) = 0 ==> one step of every order maps the zero state to the zero state, for ARBITRARY
   coefficient arrays E, Eh, c1..c6 and any N that is a function of the state's values *)
Theorem C19_zero_state : forall (F : FieldT) (I : Type) (E Eh c1 c2 c3 c4 c5 c6 : I -> F) (N : (I -> F) -> (I -> F)),
  (forall u v, (forall k, u k = v k) -> forall k, N u k = N v k) ->
  (forall k, N (zero_st F) k = 0) ->
  forall k,
    etdrk0_step F E (zero_st F) k = 0
    /\ etdrk1_step F E c1 N (zero_st F) k = 0
    /\ etdrk2_step F E c1 c2 N (zero_st F) k = 0
    /\ etdrk3_step F E Eh c1 c2 c3 c4 c5 N (zero_st F) k = 0
    /\ etdrk4_step F E Eh c1 c2 c3 c4 c5 c6 N (zero_st F) k = 0.
Proof.
  intros F I E Eh c1 c2 c3 c4 c5 c6 N Next N0 k. splits.
  - apply step0_zero.
  - apply step1_zero; assumption.
  - apply step2_zero; assumption.
  - apply step3_zero; assumption.
  - apply step4_zero; assumption.
Qed.
Print Assumptions C19_zero_state.

(* (c) forced equations: N(0) = f.  The zero state goes to the combination forced_p (ETDRK/Contour.v) of the coefficient arrays,
   the forcing and N evaluated at the intermediate stages (which are themselves built from f only):
     forced1 = c1 f;   forced2 = c1 f + c2 (N a - f), a = c1 f;   forced3 = c3 f + c4 N a + c5 N b, b = c2 (2 N a - f);
     forced4 = c4 f + 2 c5 (N a + N b) + c6 N c, b = c2 N a, c = Eh c1 f + c3 (2 N b - f) *)
Theorem C19_zero_state_forced : forall (F : FieldT) (I : Type) (E Eh c1 c2 c3 c4 c5 c6 f : I -> F) (N : (I -> F) -> (I -> F)),
  (forall u v, (forall k, u k = v k) -> forall k, N u k = N v k) ->
  (forall k, N (zero_st F) k = f k) ->
  forall k,
    etdrk1_step F E c1 N (zero_st F) k = forced1 F c1 f k
    /\ etdrk2_step F E c1 c2 N (zero_st F) k = forced2 F c1 c2 f N k
    /\ etdrk3_step F E Eh c1 c2 c3 c4 c5 N (zero_st F) k = forced3 F c1 c2 c3 c4 c5 f N k
    /\ etdrk4_step F E Eh c1 c2 c3 c4 c5 c6 N (zero_st F) k = forced4 F Eh c1 c2 c3 c4 c5 c6 f N k.
Proof.
  intros F I E Eh c1 c2 c3 c4 c5 c6 f N Next N0 k. splits.
  - apply step1_forced; assumption.
  - apply (step2_forced F I E c1 c2 N Next f N0).
  - apply (step3_forced F I E Eh c1 c2 c3 c4 c5 N Next f N0).
  - apply (step4_forced F I E Eh c1 c2 c3 c4 c5 c6 N Next f N0).
Qed.
Print Assumptions C19_zero_state_forced.

(* (c) state-independent forcing N u = f with the code's closed-form coefficients h * integrand(z, exp z, exp(z/2)), z <> 0:
   every order returns h phi_1(z) f, the exact solution of u' = lambda u + f after one step from u = 0 (a finite non-zero state) *)
Theorem C19_constant_forcing_exact : forall (F : FieldT) (I : Type) (h : F) (z E Eh f : I -> F),
  (forall k, z k <> 0) ->
  let coef (g : F -> F -> F -> F) : I -> F := fun k => h * g (z k) (E k) (Eh k) in
  forall k,
    etdrk1_step F E (coef (etdrk1_integrand_1 F)) (const_nl F f) (zero_st F) k = h * phi1 (z k) (E k) * f k
    /\ etdrk2_step F E (coef (etdrk2_integrand_1 F)) (coef (etdrk2_integrand_2 F)) (const_nl F f) (zero_st F) k
       = h * phi1 (z k) (E k) * f k
    /\ etdrk3_step F E Eh (coef (etdrk3_integrand_1 F)) (coef (etdrk3_integrand_2 F)) (coef (etdrk3_integrand_3 F))
         (coef (etdrk3_integrand_4 F)) (coef (etdrk3_integrand_5 F)) (const_nl F f) (zero_st F) k
       = h * phi1 (z k) (E k) * f k
    /\ etdrk4_step F E Eh (coef (etdrk4_integrand_1 F)) (coef (etdrk4_integrand_2 F)) (coef (etdrk4_integrand_3 F))
         (coef (etdrk4_integrand_4 F)) (coef (etdrk4_integrand_5 F)) (coef (etdrk4_integrand_6 F)) (const_nl F f) (zero_st F) k
       = h * phi1 (z k) (E k) * f k.
Proof. intros F I h z E Eh f Hz coef k. exact (forced_exact F I h z E Eh f Hz k). Qed.
Print Assumptions C19_constant_forcing_exact.

(* (d) lambda = 0.  FULL STATEMENT (not provable in an exact-arithmetic model without analysis):
     "for z = 0 the contour mean (1/M) sum_j integrand_{p,j}(r w_j, exp(r w_j), exp(r w_j/2)) equals the phi_k(0) = 1/k!
      combination of the tableau up to a remainder <= C r^M / M!".
   It needs the power series of exp (the integrands are entire functions g(x) = sum_m a_m x^m with a_0 the 1/k! combination),
   which an abstract field does not have.  What IS algebraic, and proved:
     1. the phi functions are characterised, limit-free, by z phi_1 = e - 1, z phi_2 = phi_1 - 1, z phi_3 = phi_2 - 1/2; for
        z <> 0 these equations have the unique solution used by the tableaux, and at (z, e) = (0, 1) they are satisfied by 1/k!;
     2. with E = Eh = 1 and the tableau weights taken at phi_k = 1/k! the generated stage programs ARE forward Euler, Heun,
        Kutta-3 and the classical RK4 (the consistency requirement at a mean mode / for a pure ODE);
     3. the M-point contour mean evaluates every polynomial of degree < M exactly at the centre, for any radius and any
        shift of the roots: only the Taylor tail of order >= M = 16 of an integrand can contribute to the error at z = 0.
   The remaining analytic step (a_0 of each integrand = the 1/k! combination; tail <= r^16/16! ~ 5e-14) is left to the float
   check (harness/props/c19.py `coef` at z = 0 against the 1/k! combinations: tolerance 1e-9 relative, observed 2e-14, in the
   double-precision session; 2e-3 of the natural size in the single-precision session). *)
Theorem C19_lambda_zero_partial : forall (F : FieldT),
  (forall z e : F, z <> 0 ->
     (z * phi1 z e = e - 1 /\ z * phi2 z e = phi1 z e - 1 /\ z * phi3 z e = phi2 z e - 1 / fz 2)
     /\ forall q1 q2 q3 : F, z * q1 = e - 1 -> z * q2 = q1 - 1 -> z * q3 = q2 - 1 / fz 2 ->
          q1 = phi1 z e /\ q2 = phi2 z e /\ q3 = phi3 z e)
  /\ ((0 : F) * phi1_0 F = 1 - 1 /\ (0 : F) * phi2_0 F = phi1_0 F - 1 /\ (0 : F) * phi3_0 F = phi2_0 F - 1 / fz 2)
  /\ (forall (I : Type) (h : F) (N : (I -> F) -> (I -> F)),
        (forall u v, (forall k, u k = v k) -> forall k, N u k = N v k) ->
        let one : I -> F := fun _ => 1 in
        let cst (x : F) : I -> F := fun _ => h * x in
        let p1 := phi1_0 F in let p2 := phi2_0 F in let p3 := phi3_0 F in
        forall u k,
          etdrk0_step F one u k = u k
          /\ etdrk1_step F one (cst p1) N u k = rk1 F h N u k
          /\ etdrk2_step F one (cst p1) (cst p2) N u k = rk2 F h N u k
          /\ etdrk3_step F one one (cst (p1 / fz 2)) (cst p1) (cst (p1 - fz 3 * p2 + fz 4 * p3))
               (cst (fz 4 * p2 - fz 8 * p3)) (cst (- p2 + fz 4 * p3)) N u k = rk3 F h N u k
          /\ etdrk4_step F one one (cst (p1 / fz 2)) (cst (p1 / fz 2)) (cst (p1 / fz 2)) (cst (p1 - fz 3 * p2 + fz 4 * p3))
               (cst ((fz 2 * p2 - fz 4 * p3) / fz 2)) (cst (- p2 + fz 4 * p3)) N u k = rk4 F h N u k).
Proof.
  intros F. splits.
  - intros z e Hz. split; [apply phi_recurrence; exact Hz | intros; apply phi_recurrence_unique; assumption].
  - apply phi_recurrence_at_zero.
  - apply phi_recurrence_at_zero.
  - apply phi_recurrence_at_zero.
  - intros I h N Next one cst p1 p2 p3 u k. splits.
    + apply step0_one.
    + apply step1_rk.
    + apply step2_rk; assumption.
    + apply step3_rk; assumption.
    + apply step4_rk; assumption.
Qed.
Print Assumptions C19_lambda_zero_partial.

(* (d) 3.: exactness of the contour mean on polynomials of degree < M (w a primitive M-th root of unity, s any shift) *)
Theorem C19_contour_mean_polynomial_partial : forall (F : FieldT) (M : nat) (r s w : F),
  (0 < M)%nat -> fpow w M = 1 -> (forall m, (0 < m < M)%nat -> fpow w m <> 1) ->
  forall (n : nat) (a : nat -> F), (0 < n <= M)%nat ->
    contour_mean F M r s w (poly F n a) = a 0%nat.
Proof. intros F M r s w HM Hw Hp n a [Hn1 Hn2]. apply mean_poly; assumption. Qed.
Print Assumptions C19_contour_mean_polynomial_partial.

(* ---- non-vacuity ---- *)
(* Gaussian rationals: w = i is a half-shifted root for M = 2 (i^2 = -1); real z = -3/2, r = 1 *)
Example C19_ex_real_axis :
  let z : QcC := mkcx (Q2Qc (-3 # 2)) 0%Qc in let r : QcC := mkcx 1%Qc 0%Qc in let w : QcC := ci in
  im (z : cx QcField) = 0 /\ im (r : cx QcField) = 0 /\ r <> 0 /\ fpow w (2 * 1) = - (1).
Proof.
  cbv zeta. splits; try reflexivity.
  intro H. apply (f_equal re) in H. cbn in H. discriminate H.
Qed.
(* a nonlinear term with N(0) = 0 that respects pointwise equality: N u k = u k * u k *)
Example C19_ex_unforced : let N := fun (u : nat -> QcField) k => u k * u k in
  (forall u v, (forall k, u k = v k) -> forall k, N u k = N v k) /\ (forall k, N (zero_st QcField) k = 0).
Proof.
  cbv zeta. split.
  - intros u v H k. rewrite H. reflexivity.
  - intros k. reflexivity.
Qed.
(* a primitive root for the contour-mean statement: w = i, M = 4 in the Gaussian rationals *)
Example C19_ex_primitive_root : let w : QcC := ci in
  fpow w 4 = 1 /\ forall m, (0 < m < 4)%nat -> fpow w m <> 1.
Proof.
  cbv zeta. split.
  - apply cx_ext; apply Qc_is_canon; reflexivity.
  - intros m Hm H. assert (E : m = 1%nat \/ m = 2%nat \/ m = 3%nat) by lia.
    destruct E as [-> | [-> | ->]]; apply (f_equal (fun c : cx Qc => (this (re c), this (im c)))) in H; cbn in H; discriminate H.
Qed.
(* The hypothesis w^(4n) = -1 of the imaginary-axis statements needs a primitive 8th root of unity, i.e. sqrt 2 in F: no witness
   over the rationals.  Over C = R(i) (Base/RealInst.v; Coq's classical reals, used for this Example only):
   w = (sqrt 2 / 2)(1 + i), purely imaginary z = 3i, r = 1 *)
From EXV Require Import Base.RealInst.
From Coq Require Import Reals.
Example C19_ex_imag_axis :
  let z : RC := mkcx 0%R 3%R in let r : RC := mkcx 1%R 0%R in
  re (z : cx RField) = 0 /\ im (r : cx RField) = 0 /\ r <> 0 /\ fpow w8 (4 * 1) = - (1).
Proof.
  cbv zeta. splits; try reflexivity.
  - intro H. apply (f_equal re) in H. cbn in H. exact (R1_neq_R0 H).
  - exact w8_pow4.
Qed.
(* the hypotheses of C19_contour_points_are_roots_of_minus_one (an exponential with exp(i pi) = -1; no model over the Gaussian
   rationals, where -1 has no roots of every order) are met by exp(x + i y) = e^x (cos y + i sin y) on R(i) *)
Example C19_ex_exponential :
  (forall a b : RC, rcexp (a + b) = rcexp a * rcexp b) /\ rcexp 0 = 1 /\ rcexp ((ci : RC) * rc_pi) = - (1).
Proof. splits; [exact rcexp_add | exact rcexp_0 | exact rcexp_ipi]. Qed.
