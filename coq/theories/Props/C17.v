(* C17 — radial spectrum: every mode lands in its documented bin with Parseval weights.
   Model: Spectral/Spectrum.v (hand-written from get_spectrum in _spectral.py; exact correspondence of whole spectra on every run). *)
From Coq Require Import ZArith QArith List Bool Lia.
From EXV Require Import Base.Scalar Base.FieldLemmas Layout.Freq Spectral.Spectrum Spectral.SpectrumProofs Nonlin.Conv.
Import ListNotations.
Ltac splits := repeat match goal with |- _ /\ _ => split end.

(* bin b collects exactly the modes with (2b-1)^2 <= 4|k|^2 < (2b+1)^2, i.e. b = round(|k|) with half-open bins [b-1/2, b+1/2);
   bins are disjoint; a mode inside the Nyquist sphere |k| < N/2 + 1/2 lies in exactly one of the bins 0..N/2; modes outside lie in none *)
Theorem C17_bins : forall (N b b' : Z) (k : list Z), (0 <= N)%Z -> (0 <= b)%Z -> (0 <= b')%Z ->
  (in_bin b k = true <-> ((b = 0 \/ (2 * b - 1) * (2 * b - 1) <= 4 * norm2 k) /\ 4 * norm2 k < (2 * b + 1) * (2 * b + 1))%Z)
  /\ (in_bin b k = true -> in_bin b' k = true -> b = b')
  /\ ((4 * norm2 k < (2 * (N / 2) + 1) * (2 * (N / 2) + 1))%Z -> exists c, (0 <= c <= N / 2)%Z /\ in_bin c k = true)
  /\ ((b <= N / 2)%Z -> ((2 * (N / 2) + 1) * (2 * (N / 2) + 1) <= 4 * norm2 k)%Z -> in_bin b k = false).
Proof.
  intros N b b' k HN Hb Hb'. splits.
  - apply in_bin_iff. exact Hb.
  - apply bins_disjoint; assumption.
  - apply bin_exists. exact HN.
  - intros H1 H2. apply (bin_outside N); [lia | exact H2].
Qed.
Print Assumptions C17_bins.

(* 4|k|^2 is never an odd square: the floating-point comparison of |k| with b +- 1/2 cannot sit on a bin boundary *)
Theorem C17_bin_margin : forall (b : Z) (k : list Z), (4 * norm2 k <> (2 * b + 1) * (2 * b + 1))%Z.
Proof. exact bin_margin. Qed.
Print Assumptions C17_bin_margin.

(* amplitude spectrum: the stored mode of a cos(k.x + phase) (|u_hat| = N^D a/2, or N^D a at a self-conjugate last-axis wavenumber) reads a;
   power spectrum: the weights are the Parseval weights, wgt |u_hat|^2 / (2 N^2D) with wgt = 2 unless the last-axis wavenumber is self-conjugate,
   so the sum over the stored half spectrum is mean(u^2)/2 *)
Theorem C17_weights : forall (F : FieldT) (N : Z) (ND : F) (k : list Z) (a : F), ND <> o0 ->
  amplitude_q F N ND k (if axis_plain N (last k 0%Z) true then omul ND a else odiv (omul ND a) (fz 2)) = a
  /\ power_q F N ND k a = odiv (omul (if axis_plain N (last k 0%Z) true then o1 else fz 2) (omul a a)) (omul (fz 2) (omul ND ND)).
Proof. intros F N ND k a H. split; [apply amplitude_of_stored_mode | apply power_is_parseval_weight]; exact H. Qed.
Print Assumptions C17_weights.

Example C17_ex : in_bin 5 [3; 4]%Z = true /\ in_bin 4 [3; 4]%Z = false /\ in_bin 2 [1; 1; 1]%Z = true /\ in_bin 0 [0; 0]%Z = true.
Proof. repeat split; reflexivity. Qed.

(* the bins 0..N/2 together carry every stored mode inside the Nyquist sphere exactly once and nothing else: the binned spectrum summed over
   all bins is the total of the per-mode quantities inside the sphere (sum binning; any list of stored modes, any D, any channel) *)
Theorem C17_bins_total : forall (F : FieldT) (N : Z) (qs : list (list Z * F)), (0 <= N)%Z ->
  fsum (map (fun b => bin_sum F b qs) (zrange 0 (N / 2))) = fsum (map (fun p => if inside N (fst p) then snd p else o0) qs).
Proof. intros. apply bins_total. assumption. Qed.
Print Assumptions C17_bins_total.

(* get_spectrum of the source: its structure (transform, the two scaling arrays, the scan over build_wavenumbers(1, N)[0, :] with a vmap
   over channels, nansum / nanmean over the mask lower <= |k| < upper) is compared with the expected text, and what decides the values is
   re-translated on every run (harness/translate/spectrum.py -> Gen/SpectrumGen.v): the per-mode quantity is the model's (power and
   amplitude), the scaling arrays are the reconstruction and norm-compensation ones, and with bin spacing dk = 1 the limits of bin b are
   b -+ 1/2, i.e. twice the limits are the integers 2b -+ 1 whose squares in_bin compares with 4|k|^2 *)
From EXV Require Import Gen.SpectrumGen.
Theorem C17_code_quantity_and_bins_are_model : forall (F : FieldT) (N : Z) (ND : F) (k : list Z) (a : F) (b : Z),
  gen_spec_quantity F true a (recon_scale F N ND k) ND = power_q F N ND k a
  /\ gen_spec_quantity F false a (recon_scale F N ND k) ND = amplitude_q F N ND k a
  /\ gen_spec_mode_r = 11%Z /\ gen_spec_mode_c = 10%Z
  /\ omul (fz 2) (gen_spec_lower F (fz b) (fz 1)) = fz (2 * b - 1)
  /\ omul (fz 2) (gen_spec_upper F (fz b) (fz 1)) = fz (2 * b + 1).
Proof.
  intros F N ND k a b. splits; try reflexivity.
  - apply doubled_lower.
  - apply doubled_upper.
Qed.
Print Assumptions C17_code_quantity_and_bins_are_model.
