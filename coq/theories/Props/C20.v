(* C20 — malformed states and unsupported configurations are rejected, not accepted.
   Subject: Gen/Guards.v, regenerated on every run from the `if ...: raise` guards of exponax
   (BaseStepper/RepeatedStepper/Poisson __call__, spectral operator constructors, dimension-restricted steppers and
   nonlinear terms, option validation of generators and metrics, stack_sub_trajectories).
   Every predicate is true exactly when the code raises.  Shapes are arbitrary lists of integers, D, N, C arbitrary. *)
From Coq Require Import ZArith List Bool Lia.
From EXV Require Import Gen.Guards.
Import ListNotations.
Local Open Scope Z_scope.

Lemma shape_eqb_eq a b : shape_eqb a b = true <-> a = b.
Proof.
  revert b; induction a as [|x a IH]; intros [|y b]; cbn; try (split; congruence).
  rewrite andb_true_iff, Z.eqb_eq, IH. split; [intros [-> ->]; reflexivity | intros H; injection H; auto].
Qed.

Lemma spatial_shape_spec d n : gen_spatial_shape d n = repeat n (Z.to_nat d).
Proof.
  unfold gen_spatial_shape, rep. induction (Z.to_nat d) as [|k IH]; [reflexivity|]. cbn. f_equal. exact IH.
Qed.

Lemma wavenumber_shape_spec d n :
  gen_wavenumber_shape d n = repeat n (Z.to_nat (d - 1)) ++ [n / 2 + 1].
Proof.
  unfold gen_wavenumber_shape, rep. f_equal.
  induction (Z.to_nat (d - 1)) as [|k IH]; [reflexivity|]. cbn. f_equal. exact IH.
Qed.

(* a stepper call is accepted iff the state has exactly the shape (C, N, ..., N) with D spatial axes:
   wrong channel count, extra batch axis, missing axis, unequal axis lengths are all rejected *)
Theorem C20_stepper_call_accepts_iff : forall (C D N : Z) (shape : list Z),
  base_call_raises C D N shape = false <-> shape = C :: repeat N (Z.to_nat D).
Proof.
  intros. unfold base_call_raises. rewrite negb_false_iff, shape_eqb_eq, spatial_shape_spec. reflexivity.
Qed.
Print Assumptions C20_stepper_call_accepts_iff.

Theorem C20_repeated_stepper_call_accepts_iff : forall (C D N : Z) (shape : list Z),
  repeated_call_raises C D N shape = false <-> shape = C :: repeat N (Z.to_nat D).
Proof.
  intros. unfold repeated_call_raises. rewrite negb_false_iff, shape_eqb_eq, spatial_shape_spec. reflexivity.
Qed.
Print Assumptions C20_repeated_stepper_call_accepts_iff.

(* Poisson: any channel count, but exactly D spatial axes of length N after the leading axis *)
Theorem C20_poisson_call_accepts_iff : forall (D N : Z) (shape : list Z),
  poisson_call_raises D N shape = false <-> tl shape = repeat N (Z.to_nat D).
Proof.
  intros. unfold poisson_call_raises. rewrite negb_false_iff, shape_eqb_eq, spatial_shape_spec.
  destruct shape; reflexivity.
Qed.
Print Assumptions C20_poisson_call_accepts_iff.

(* operators refuse derivative orders of the wrong parity *)
Lemma odd_mod o : Z.odd o = true <-> o mod 2 = 1.
Proof.
  rewrite Zodd_mod. unfold Zeq_bool.
  destruct (Z.compare_spec (o mod 2) 1); split; intros; try congruence; try lia.
Qed.

Theorem C20_operator_parity : forall order : Z,
  (laplace_order_raises order = true <-> Z.odd order = true)
  /\ (forall D v, gip_raises order D v = false <-> (Z.odd order = true /\ v = [D])).
Proof.
  intros order. pose proof (Z.mod_pos_bound order 2 ltac:(lia)) as Hb. split.
  - unfold laplace_order_raises. rewrite negb_true_iff, Z.eqb_neq, odd_mod. lia.
  - intros D v. unfold gip_raises. rewrite odd_mod.
    destruct (Z.eqb_spec (order mod 2) 1) as [E|E]; cbn.
    + rewrite negb_false_iff, shape_eqb_eq. split; [intros ->; split; [exact E | reflexivity] | intros [_ H]; exact H].
    + split; [discriminate | intros [H _]; contradiction].
Qed.
Print Assumptions C20_operator_parity.

(* dimension-restricted steppers and nonlinear terms refuse every other dimension *)
Theorem C20_dimension_guards : forall D : Z,
  (ns_vorticity_raises D = true <-> D <> 2) /\ (kolmogorov_vorticity_raises D = true <-> D <> 2)
  /\ (general_vorticity_raises D = true <-> D <> 2) /\ (vorticity_conv_raises D = true <-> D <> 2)
  /\ (ns_velocity_raises D = true <-> D <> 3) /\ (kolmogorov_velocity_raises D = true <-> D <> 3)
  /\ (projected_conv_raises D = true <-> D <> 3).
Proof.
  intros D.
  unfold ns_vorticity_raises, kolmogorov_vorticity_raises, general_vorticity_raises, vorticity_conv_raises,
    ns_velocity_raises, kolmogorov_velocity_raises, projected_conv_raises.
  rewrite !negb_true_iff, !Z.eqb_neq. tauto.
Qed.
Print Assumptions C20_dimension_guards.

(* channel-count guards of the nonlinear terms and make_incompressible (channels must equal the number of spatial axes) *)
Theorem C20_channel_guards : forall (D : Z) (shape : list Z),
  (convection_cons_raises D shape = true <-> nth 0 shape 0 <> D)
  /\ (convection_noncons_raises D shape = true <-> nth 0 shape 0 <> D)
  /\ (gray_scott_raises shape = true <-> nth 0 shape 0 <> 2)
  /\ (make_incompressible_raises shape = true <-> nth 0 shape 0 <> Z.of_nat (length (tl shape)))
  /\ (forall len, general_nonlin_raises len = true <-> Z.of_nat (Z.to_nat len) <> 3)
  /\ (forall len, general_nonlin_stepper_raises len = true <-> Z.of_nat (Z.to_nat len) <> 3).
Proof.
  intros D shape.
  unfold convection_cons_raises, convection_noncons_raises, gray_scott_raises, make_incompressible_raises,
    general_nonlin_raises, general_nonlin_stepper_raises.
  repeat match goal with |- _ /\ _ => split end; try intros len;
    rewrite ?negb_true_iff, ?Z.eqb_neq, ?repeat_length; try tauto.
Qed.
Print Assumptions C20_channel_guards.

(* option validation: generators and metrics refuse exactly the documented-invalid combinations *)
Theorem C20_option_guards : forall (zero_mean std_one max_one ref_none : bool) (mode D : Z) (offset_zero : bool),
  (ic_options_raise zero_mean std_one max_one = true <-> (zero_mean = false /\ std_one = true) \/ (std_one = true /\ max_one = true))
  /\ (spatial_norm_raises ref_none mode = true <-> ref_none = true /\ (mode = 1 \/ mode = 2))
  /\ (fourier_norm_raises ref_none mode = true <-> ref_none = true /\ mode = 1)
  /\ (random_sine_raises D offset_zero std_one max_one = true <->
        D <> 1 \/ (offset_zero = false /\ std_one = true) \/ (std_one = true /\ max_one = true))
  /\ (forall D_none N_none shape, ifft_raises D D_none N_none shape = true <->
        N_none = true /\ (if D_none then Z.of_nat (length shape) - 1 else D) < 2).
Proof.
  intros. unfold ic_options_raise, spatial_norm_raises, fourier_norm_raises, random_sine_raises, ifft_raises.
  repeat match goal with |- _ /\ _ => split end.
  - destruct zero_mean, std_one, max_one; cbn; intuition congruence.
  - destruct ref_none; cbn; destruct (Z.eqb_spec mode 1), (Z.eqb_spec mode 2); cbn; intuition (try congruence; try lia).
  - destruct ref_none; cbn; destruct (Z.eqb_spec mode 1); cbn; intuition congruence.
  - destruct (Z.eqb_spec D 1), offset_zero, std_one, max_one; cbn; intuition (try congruence; try lia).
  - intros D_none N_none shape. destruct N_none; cbn; [|intuition congruence].
    rewrite negb_true_iff. rewrite Z.geb_leb, Z.leb_gt. intuition.
Qed.
Print Assumptions C20_option_guards.

(* sub-trajectory stacking refuses leaves of different length and windows longer than the trajectory *)
Theorem C20_stack_sub_guard : forall (sub_len : Z) (lens : list Z),
  stack_sub_raises sub_len lens = false <->
  (exists T, lens <> [] /\ Forall (fun x => x = T) lens /\ sub_len <= T).
Proof.
  intros sub_len lens. unfold stack_sub_raises, all_eqb. destruct lens as [|T r]; cbn.
  - split; [discriminate | intros (T & H & _); congruence].
  - rewrite orb_false_iff, negb_false_iff, forallb_forall. rewrite Z.gtb_ltb, Z.ltb_ge. split.
    + intros [H1 H2]. exists T. split; [discriminate|]. split; [|exact H2].
      constructor; [reflexivity|]. apply Forall_forall. intros x Hx. symmetry. apply Z.eqb_eq. apply H1. exact Hx.
    + intros (T' & _ & HF & Hle). inversion HF as [|? ? E HF']; subst. split; [|exact Hle].
      intros x Hx. apply Z.eqb_eq. rewrite Forall_forall in HF'. symmetry. apply HF'. exact Hx.
Qed.
Print Assumptions C20_stack_sub_guard.

(* non-vacuity / concrete instances *)
Example C20_ex_accept : base_call_raises 2 3 8 [2; 8; 8; 8] = false. Proof. reflexivity. Qed.
Example C20_ex_reject_batch : base_call_raises 2 3 8 [5; 2; 8; 8; 8] = true. Proof. reflexivity. Qed.
Example C20_ex_reject_unequal : base_call_raises 1 2 8 [1; 8; 9] = true. Proof. reflexivity. Qed.
Example C20_ex_poisson_batch : poisson_call_raises 2 8 [4; 3; 8; 8] = true. Proof. reflexivity. Qed.
