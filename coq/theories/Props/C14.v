(* C14 — rollout, repeat and the wrapper steppers equal the naive loop.
   Model: Utils/Rollout.v (hand-written from exponax/_utils.py, _repeated_stepper.py,
   _forced_stepper.py; tied to the code by the exact correspondence suites of harness/props/c14.py and, for
   rollout / repeat / the wrappers, by re-translation from the source, see C14_code_utilities_are_model_utilities).
   All statements hold for every state type A (pytrees included: a pytree state is one value),
   every stepper function f, every n. *)
From Coq Require Import List Arith Bool.
From EXV Require Import Utils.Rollout Utils.RolloutProofs.
Import ListNotations.

(* entry i of a rollout is the (i+1)-fold application; the rollout has n entries *)
Theorem C14_rollout_entries : forall (A : Type) (f : A -> A) (n : nat) (u0 : A) (i : nat),
  i < n -> nth_error (rollout f n false u0) i = Some (iter (S i) f u0).
Proof. exact rollout_nth. Qed.
Print Assumptions C14_rollout_entries.

Theorem C14_rollout_length : forall (A : Type) (f : A -> A) (n : nat) (b : bool) (u0 : A),
  length (rollout f n b u0) = if b then S n else n.
Proof. exact rollout_length. Qed.
Print Assumptions C14_rollout_length.

(* include_init prepends the initial state and shifts everything by one *)
Theorem C14_rollout_include_init : forall (A : Type) (f : A -> A) (n : nat) (u0 : A),
  rollout f n true u0 = u0 :: rollout f n false u0 /\
  forall i, i <= n -> nth_error (rollout f n true u0) i = Some (iter i f u0).
Proof. intros A f n u0. split; [apply rollout_init | intros i; apply rollout_init_nth]. Qed.
Print Assumptions C14_rollout_include_init.

Theorem C14_rollout_zero_steps : forall (A : Type) (f : A -> A) (u0 : A),
  rollout f 0 false u0 = [] /\ rollout f 0 true u0 = [u0].
Proof. exact rollout_zero. Qed.
Print Assumptions C14_rollout_zero_steps.

(* repeat returns the n-fold application = the last rollout entry *)
Theorem C14_repeat : forall (A : Type) (f : A -> A) (n : nat) (u0 : A),
  repeat_fn f n u0 = iter n f u0 /\ repeat_fn f n u0 = last (rollout f n true u0) u0.
Proof. intros. split; [apply repeat_spec | apply repeat_is_last_of_rollout]. Qed.
Print Assumptions C14_repeat.

(* auxiliary inputs: consumed in order (entry k has seen aux[0..k]) ... *)
Theorem C14_aux_in_order : forall (A X : Type) (f : A -> X -> A) (n : nat) (b : bool) (u0 : A) (xs : list X),
  length xs = n ->
  rollout_aux f n b false u0 (AuxSeq xs)
  = Some ((if b then [u0] else []) ++ map (fun k => fold_left f (firstn (S k) xs) u0) (seq 0 n))
  /\ repeat_aux f n false u0 (AuxSeq xs) = Some (fold_left f xs u0).
Proof. intros. split; [apply rollout_aux_seq | apply repeat_aux_seq]; assumption. Qed.
Print Assumptions C14_aux_in_order.

(* ... or held constant *)
Theorem C14_aux_constant : forall (A X : Type) (f : A -> X -> A) (n : nat) (b : bool) (u0 : A) (x : X),
  rollout_aux f n b true u0 (AuxConst x) = Some (rollout (fun u => f u x) n b u0)
  /\ repeat_aux f n true u0 (AuxConst x) = Some (iter n (fun u => f u x) u0).
Proof. intros. split; [apply rollout_aux_const | apply repeat_aux_const]. Qed.
Print Assumptions C14_aux_constant.

(* a stacked aux of the wrong length is rejected, not truncated or padded *)
Theorem C14_aux_wrong_length_rejected : forall (A X : Type) (f : A -> X -> A) (n : nat) (b : bool) (u0 : A) (xs : list X),
  length xs <> n -> rollout_aux f n b false u0 (AuxSeq xs) = None.
Proof. exact rollout_aux_seq_rejects. Qed.
Print Assumptions C14_aux_wrong_length_rejected.

(* sub-trajectory stacking: every contiguous window, in order, T-m+1 of them; m > T rejected *)
Theorem C14_windows : forall (A : Type) (trj : list A) (m : nat),
  (m <= length trj ->
     stack_sub trj m = Some (map (fun i => firstn m (skipn i trj)) (seq 0 (length trj - m + 1))))
  /\ (length trj < m -> stack_sub trj m = None).
Proof. intros. split; [apply stack_sub_spec | apply stack_sub_rejects]. Qed.
Print Assumptions C14_windows.

Theorem C14_window_entries : forall (A : Type) (trj : list A) (m : nat) (ws : list (list A)) (i j : nat),
  stack_sub trj m = Some ws -> i < length trj - m + 1 -> j < m ->
  exists w, nth_error ws i = Some w /\ length w = m /\ nth_error w j = nth_error trj (i + j).
Proof. exact stack_sub_window. Qed.
Print Assumptions C14_window_entries.

(* RepeatedStepper: ifft . (step_fourier)^n . fft equals n applications of ifft . step_fourier . fft
   on every state whose spectra survive the rfftn . irfftn round trip ([Good], closed under the step) *)
Theorem C14_repeated_stepper : forall (S Sh : Type) (fwd : S -> Sh) (bwd : Sh -> S) (sf : Sh -> Sh)
    (Good : Sh -> Prop),
  (forall u, Good (fwd u)) -> (forall y, Good y -> Good (sf y)) -> (forall y, Good y -> fwd (bwd y) = y) ->
  forall n u, 0 < n -> repeated_step fwd bwd sf n u = iter n (base_step fwd bwd sf) u.
Proof.
  intros S Sh fwd bwd sf Good H1 H2 H3 n u Hn.
  destruct (repeated_stepper_spec fwd bwd sf Good H1 H2 H3 n u) as [H|H]; [exact H | subst; inversion Hn].
Qed.
Print Assumptions C14_repeated_stepper.

(* rollout, repeat (with and without auxiliary input), stack_sub_trajectories (on the list of leaves of the trajectory pytree) and the two
   wrapper steppers are re-translated from the source on every run
   (harness/translate/utilsfn.py -> Gen/UtilsGen.v: statement-by-statement into the option monad, fail-closed) and equal the
   hand-written model for every state type, step function, n, flag value and auxiliary argument; without aux nothing is rejected *)
From EXV Require Import Base.Scalar Gen.UtilsGen Tie.UtilsTie.
Theorem C14_code_utilities_are_model_utilities : forall (A X : Type) (f : A -> A) (g : A -> X -> A) (n : nat)
    (include_init constant_aux : bool) (u0 : A) (a : auxarg X),
  gen_rollout f n include_init constant_aux u0 = Some (rollout f n include_init u0)
  /\ gen_repeat f n constant_aux u0 = Some (repeat_fn f n u0)
  /\ gen_rollout_aux g n include_init constant_aux u0 a = rollout_aux g n include_init constant_aux u0 a
  /\ gen_repeat_aux g n constant_aux u0 a = repeat_aux g n constant_aux u0 a
  /\ (forall (leaves : list (list A)) (sub_len : nat), gen_stack_sub_trajectories leaves sub_len = stack_sub_tree leaves sub_len).
Proof.
  intros A X f g n include_init constant_aux u0 a. repeat split.
  - apply rollout_tie.
  - apply repeat_tie.
  - apply rollout_aux_tie.
  - apply repeat_aux_tie.
  - apply stack_sub_tie.
Qed.
Print Assumptions C14_code_utilities_are_model_utilities.

(* RepeatedStepper.step / step_fourier of the source are the model's (its dt is the inner dt times the number of sub-steps);
   ForcedStepper.step / step_fourier of the source hand u + dt * f to the inner step, at every array element *)
Theorem C14_code_wrappers_are_model_wrappers : forall (S Sh : Type) (fwd : S -> Sh) (bwd : Sh -> S) (sf : Sh -> Sh) (n : nat) (u : S)
    (K : Ops) (dt x f : K) (m : BinNums.Z),
  gen_repeated_step fwd bwd sf n u = Some (repeated_step fwd bwd sf n u)
  /\ gen_repeated_step_fourier sf n (fwd u) = Some (repeat_fn sf n (fwd u))
  /\ gen_repeated_dt K dt m = omul dt (fz m)
  /\ gen_forced_step_input K dt x f = oadd x (omul dt f)
  /\ gen_forced_step_fourier_input K dt x f = oadd x (omul dt f).
Proof.
  intros S Sh fwd bwd sf n u K dt x f m. destruct (repeated_step_tie _ _ fwd bwd sf n u) as [H1 H2].
  repeat split; try assumption; reflexivity.
Qed.
Print Assumptions C14_code_wrappers_are_model_wrappers.

(* non-vacuity: concrete instances *)
Example C14_ex_rollout : rollout (fun u => 2 * u + 1) 4 true 5 = [5; 11; 23; 47; 95].
Proof. reflexivity. Qed.
Example C14_ex_windows : stack_sub [1; 2; 3; 4] 2 = Some [[1; 2]; [2; 3]; [3; 4]].
Proof. reflexivity. Qed.
Example C14_ex_repeated :
  repeated_step (fun u : nat => u) (fun y : nat => y) S 3 4 = iter 3 (base_step (fun u => u) (fun y => y) S) 4.
Proof. reflexivity. Qed.
