(* C08 — steppers commute with the symmetries of the periodic box.
   Translation by whole grid cells = multiplication of mode k by a character chi(k) (shift theorem); every model operation commutes with
   this twist, for ALL states.  Models: DFT/DFT1.v, Nonlin/Conv.v, Nonlin/Terms.v, Gen/ETDRK.v (translated), Spectral/Symbols.v. *)
From Coq Require Import ZArith QArith List Bool Lia.
From EXV Require Import Base.Scalar Base.FieldLemmas Spectral.Symbols Layout.Freq DFT.DFT1 Nonlin.Conv Nonlin.Terms Gen.ETDRK Steppers.Symmetry Nonlin.Permute.
From Coq Require Import Permutation.
Import ListNotations.
Local Open Scope fld_scope.
Ltac splits := repeat match goal with |- _ /\ _ => split end.

(* shift theorem: rolling a state by s grid cells multiplies mode k by w'^(s k) *)
Theorem C08_shift_theorem : forall (F : FieldT) (n : nat) (w w' : F),
  (0 < n)%nat -> fpow w n = 1 -> (forall m, (0 < m < n)%nat -> fpow w m <> 1) -> w * w' = 1 ->
  forall (u : nat -> F) (s k : nat), (s < n)%nat ->
  dft n w (fun j => u ((j + s) mod n)%nat) k = fpow w' (s * k) * dft n w u k.
Proof. intros F n w w' Hn H1 H2 H3 u s k Hs. apply (dft_shift F n w w'); assumption. Qed.
Print Assumptions C08_shift_theorem.

(* the pseudo-spectral products commute with the character twist, hence so do the nonlinear terms (representatives: both single-channel
   convection forms and the gradient norm; the other terms are the same combinators of P2/P3 and diagonal multipliers) *)
Theorem C08_products_and_terms_commute_with_translations : forall (F : FieldT) (D : nat) (N Kc : Z) (chi : idx -> F),
  (forall k m, chi m * chi (wrapD N (subi k m)) = chi k) ->
  (forall k m1 m2, chi m1 * (chi m2 * chi (wrapD N (subi (subi k m1) m2))) = chi k) ->
  forall (U V W : field F) (ii s b : F) (zf : bool) (k : idx),
  prod2 F D N Kc (twist F chi U) (twist F chi V) k = chi k * prod2 F D N Kc U V k
  /\ prod3 F D N Kc (twist F chi U) (twist F chi V) (twist F chi W) k = chi k * prod3 F D N Kc U V W k
  /\ conv_sc_cons F (prod2 F D N Kc) ii s D b (twist F chi U) k = chi k * conv_sc_cons F (prod2 F D N Kc) ii s D b U k
  /\ conv_sc_noncons F (prod2 F D N Kc) ii s D b (twist F chi U) k = chi k * conv_sc_noncons F (prod2 F D N Kc) ii s D b U k
  /\ ((is_zero k = true -> chi k = 1) ->
       gradient_norm F (prod2 F D N Kc) ii s D b zf (twist F chi U) k = chi k * gradient_norm F (prod2 F D N Kc) ii s D b zf U k).
Proof.
  intros F D N Kc chi H2 H3 U V W ii s b zf k. splits.
  - apply prod2_twist; assumption.
  - apply prod3_twist; assumption.
  - apply conv_sc_cons_twist; assumption.
  - apply conv_sc_noncons_twist; assumption.
  - intros H0. apply gradient_norm_twist; assumption.
Qed.
Print Assumptions C08_products_and_terms_commute_with_translations.

(* every ETDRK order (stage programs translated from the source) commutes with any mode-wise multiplier the nonlinear term commutes with *)
Theorem C08_steps_commute_with_translations : forall (F : FieldT) (I : Type) (tau E Eh c1 c2 c3 c4 c5 c6 : I -> F) (N : (I -> F) -> (I -> F)),
  (forall u v, (forall k, u k = v k) -> forall k, N u k = N v k) ->
  (forall u k, N (tw F I tau u) k = tau k * N u k) ->
  forall u k,
    etdrk0_step F E (tw F I tau u) k = tau k * etdrk0_step F E u k
    /\ etdrk1_step F E c1 N (tw F I tau u) k = tau k * etdrk1_step F E c1 N u k
    /\ etdrk2_step F E c1 c2 N (tw F I tau u) k = tau k * etdrk2_step F E c1 c2 N u k
    /\ etdrk3_step F E Eh c1 c2 c3 c4 c5 N (tw F I tau u) k = tau k * etdrk3_step F E Eh c1 c2 c3 c4 c5 N u k
    /\ etdrk4_step F E Eh c1 c2 c3 c4 c5 c6 N (tw F I tau u) k = tau k * etdrk4_step F E Eh c1 c2 c3 c4 c5 c6 N u k.
Proof.
  intros F I tau E Eh c1 c2 c3 c4 c5 c6 N Next Heq u k. splits.
  - apply etdrk0_equivariant.
  - apply etdrk1_equivariant; assumption.
  - apply etdrk2_equivariant; assumption.
  - apply etdrk3_equivariant; assumption.
  - apply etdrk4_equivariant; assumption.
Qed.
Print Assumptions C08_steps_commute_with_translations.

(* isotropy: the generic symbol is invariant under permutations of the axes; a state constant along all but one axis sees the 1-D
   symbol with the zeroth-order coefficient multiplied by D (the documented '1.grad^0') *)
Theorem C08_isotropy_and_embedding : forall (F : FieldT) (a0 : F) (a : list F) (x y z : F), (length a <= 4)%nat ->
  poly_sym F (a0 :: a) [x; y] = poly_sym F (a0 :: a) [y; x]
  /\ poly_sym F (a0 :: a) [x; y; z] = poly_sym F (a0 :: a) [y; z; x] /\ poly_sym F (a0 :: a) [x; y; z] = poly_sym F (a0 :: a) [y; x; z]
  /\ poly_sym F (a0 :: a) [x; 0] = poly_sym F (fz 2 * a0 :: a) [x] /\ poly_sym F (a0 :: a) [0; x] = poly_sym F (fz 2 * a0 :: a) [x]
  /\ poly_sym F (a0 :: a) [x; 0; 0] = poly_sym F (fz 3 * a0 :: a) [x] /\ poly_sym F (a0 :: a) [0; x; 0] = poly_sym F (fz 3 * a0 :: a) [x]
  /\ poly_sym F (a0 :: a) [0; 0; x] = poly_sym F (fz 3 * a0 :: a) [x].
Proof.
  intros F a0 a x y z H.
  assert (H5 : (length (a0 :: a) <= 5)%nat) by (cbn; lia).
  destruct (poly_sym_perm3 F (a0 :: a) x y z H5) as [P1 P2].
  destruct (poly_sym_embed F a0 a x H) as (E1 & E2 & E3 & E4 & E5).
  splits; try assumption. apply poly_sym_swap2. exact H5.
Qed.
Print Assumptions C08_isotropy_and_embedding.

(* axis permutations: re-labelling the axes of the spectrum (sigma = permi p, p any permutation of the axes) commutes with the pseudo-spectral
   product and with the isotropic scalar terms (both single-channel convection forms, the gradient norm with and without the mean fix):
   the term of the permuted field is the permuted term - every D, N, band, every state, every stored mode *)
Theorem C08_terms_commute_with_axis_permutations : forall (F : FieldT) (D : nat) (N Kc : Z) (p : list nat) (ii s b : F) (zf : bool),
  (0 < N)%Z -> (0 <= Kc)%Z -> Permutation p (seq 0 D) ->
  forall (u v : field F) (k : idx), length k = D ->
  prod2 F D N Kc (relabel F p u) (relabel F p v) k = prod2 F D N Kc u v (permi p k)
  /\ conv_sc_cons F (prod2 F D N Kc) ii s D b (relabel F p u) k = conv_sc_cons F (prod2 F D N Kc) ii s D b u (permi p k)
  /\ conv_sc_noncons F (prod2 F D N Kc) ii s D b (relabel F p u) k = conv_sc_noncons F (prod2 F D N Kc) ii s D b u (permi p k)
  /\ gradient_norm F (prod2 F D N Kc) ii s D b zf (relabel F p u) k = gradient_norm F (prod2 F D N Kc) ii s D b zf u (permi p k).
Proof.
  intros F D N Kc p ii s b zf HN HK Hp u v k Hl. splits.
  - apply prod2_relabel; assumption.
  - apply conv_sc_cons_relabel; assumption.
  - apply conv_sc_noncons_relabel; assumption.
  - apply gradient_norm_relabel; assumption.
Qed.
Print Assumptions C08_terms_commute_with_axis_permutations.

(* ... and for the single-channel terms AS REGENERATED FROM THE SOURCE (Gen/NonlinFuns.v, harness/translate/nonlin.py, tied in Tie/NonlinTie.v)
   with the concrete mask and pseudo-spectral product: the source text of the single-channel convection (both forms) and of the gradient norm
   commutes with every re-labelling of the axes, in any dimension *)
From EXV Require Import Gen.NonlinFuns Tie.NonlinTie.
Theorem C08_code_terms_commute_with_axis_permutations : forall (F : FieldT) (D : nat) (N Kc : Z) (p : list nat) (ii s ND b : F) (zf : bool),
  (0 < N)%Z -> (0 <= Kc)%Z -> Permutation p (seq 0 D) ->
  forall (u : field F) (k : idx), length k = D ->
  let M := msk F Kc in let P2 := prod2 F D N Kc in let P3 := prod3 F D N Kc in
  nth 0 (gen_convection F M P2 P3 ii s D ND b true true [relabel F p u]) (fzero F) k
    = nth 0 (gen_convection F M P2 P3 ii s D ND b true true [u]) (fzero F) (permi p k)
  /\ nth 0 (gen_convection F M P2 P3 ii s D ND b true false [relabel F p u]) (fzero F) k
    = nth 0 (gen_convection F M P2 P3 ii s D ND b true false [u]) (fzero F) (permi p k)
  /\ gen_gradient_norm F M P2 P3 ii s D ND b zf (relabel F p u) k = gen_gradient_norm F M P2 P3 ii s D ND b zf u (permi p k).
Proof.
  intros F D N Kc p ii s ND b zf HN HK Hp u k Hl M P2 P3. unfold M, P2, P3. splits.
  - rewrite !convection_sc_cons_tie. cbn [nth]. apply conv_sc_cons_relabel; assumption.
  - rewrite !convection_sc_noncons_tie. cbn [nth]. apply conv_sc_noncons_relabel; assumption.
  - rewrite !gradient_norm_tie. apply gradient_norm_relabel; assumption.
Qed.
Print Assumptions C08_code_terms_commute_with_axis_permutations.

(* vector-valued (multi-channel) convection, both forms: when u' is the velocity field seen in the permuted frame - channel i of u' at the
   re-labelled wavenumber is channel p_i of u - the term of u' is the term of u in the permuted frame: channels are permuted along with the axes *)
Theorem C08_vector_convection_commutes_with_axis_permutations : forall (F : FieldT) (D : nat) (N Kc : Z) (p : list nat) (ii s b : F),
  (0 < N)%Z -> (0 <= Kc)%Z -> Permutation p (seq 0 D) ->
  forall (u u' : list (field F)) (i : nat) (k : idx), permuted_frame F D p u u' -> (i < D)%nat -> length k = D ->
  nth i (conv_mc_cons F (prod2 F D N Kc) ii s D b u') (fzero F) (permi p k) = nth (nth i p 0%nat) (conv_mc_cons F (prod2 F D N Kc) ii s D b u) (fzero F) k
  /\ nth i (conv_mc_noncons F (prod2 F D N Kc) ii s D b u') (fzero F) (permi p k)
     = nth (nth i p 0%nat) (conv_mc_noncons F (prod2 F D N Kc) ii s D b u) (fzero F) k.
Proof.
  intros F D N Kc p ii s b HN HK Hp u u' i k HF Hi Hl. split.
  - apply conv_mc_cons_frame; assumption.
  - apply conv_mc_noncons_frame; assumption.
Qed.
Print Assumptions C08_vector_convection_commutes_with_axis_permutations.

(* non-vacuity: in 2D with the axis swap p = [1; 0], u' = (u_1 o sigma, u_0 o sigma) is the field in the permuted frame *)
Example C08_permuted_frame_exists : forall (F : FieldT) (u0 u1 : field F),
  permuted_frame F 2 [1; 0]%nat [u0; u1] [relabel F [1; 0]%nat u1; relabel F [1; 0]%nat u0].
Proof.
  intros F u0 u1. split; [reflexivity | split; [reflexivity|]]. intros i x Hi Hx.
  destruct x as [|a [|b [|]]]; try discriminate. destruct i as [|[|i]]; [reflexivity | reflexivity | lia].
Qed.
