(* C12 — forcing terms inject exactly the documented field.
   Models: Nonlin/Injection.v (hand-written from the two Kolmogorov nonlinear functions; exact correspondence of the whole
   injection arrays), ETDRK/Phi.v + ETDRK/Forcing.v (tableaux; tied to the code by C02), Nonlin/Terms.v (vorticity convection). *)
From Coq Require Import ZArith QArith List Bool Lia.
From EXV Require Import Base.Scalar Base.FieldLemmas Layout.Freq DFT.DFT1 Nonlin.Conv Nonlin.ConvProofs Nonlin.Terms Nonlin.TermsProofs
  Nonlin.Injection ETDRK.Phi ETDRK.Forcing Nonlin.Laminar3D.
Import ListNotations.
Local Open Scope fld_scope.
Ltac splits := repeat match goal with |- _ /\ _ => split end.

(* 2D vorticity forcing: exactly the stored mode (0, k) carries N^2/2 * a with a = -k (2 pi/L) gamma, i.e. the transform of
   -k (2 pi / L) gamma cos(k (2 pi / L) x_1); 3D velocity forcing: channel 0 carries N^3/2 * (-i gamma) at (0,+k,0) and N^3/2 * (+i gamma) at
   (0,-k,0), i.e. the transform of gamma sin(k (2 pi / L) x_1); other channels and all other modes are zero.  (0 < k < N/2) *)
Theorem C12_injection_is_documented : forall (F : FieldT) (ii s gamma : F) (N kinj : Z) (k : list Z) (ch : nat),
  (0 < kinj)%Z /\ (2 * kinj < N)%Z ->
  injection2d F s gamma N kinj k
  = (if ((nth 0 k 0 =? 0) && (nth 1 k 0 =? kinj))%Z then fz N * (fz N / fz 2) * (- (s * fz kinj) * gamma) else 0)
  /\ injection3d F ii gamma N kinj ch k
  = match ch with
    | O => if ((nth 0 k 0 =? 0) && (nth 1 k 0 =? kinj) && (nth 2 k 0 =? 0))%Z then fz N * (fz N / fz 2) * fz N * (- ii * gamma)
           else if ((nth 0 k 0 =? 0) && (nth 1 k 0 =? - kinj) && (nth 2 k 0 =? 0))%Z then fz N * (fz N / fz 2) * fz N * (ii * gamma)
           else 0
    | _ => 0
    end.
Proof.
  intros F ii s gamma N kinj k ch Hk. split.
  - apply (injection2d_spec F s gamma N kinj Hk).
  - apply (injection3d_spec F ii gamma N kinj Hk).
Qed.
Print Assumptions C12_injection_is_documented.

(* the forcing arrays of the source: the constructors of VorticityConvection2dKolmogorov / ProjectedConvection3dKolmogorov are executed
   symbolically on every run (harness/translate/spectral.py -> gen_injection2d / gen_injection3d in Gen/InjectionGen.v, with the derivative
   operator build_derivative_operator(D, L, N) that BaseStepper hands to _build_nonlinear_fun, callees inlined) and ARE the model's arrays at the
   signed wavenumber vector of every stored index - every N, forcing mode, scale and extent; (re, im) against any imaginary unit ii.
   With C12_injection_is_documented the SOURCE injects exactly the documented field. *)
From EXV Require Import Gen.SpectralGen Gen.InjectionGen Tie.InjectionTie.
Theorem C12_code_injection_is_model_injection : forall (F : FieldT) (pi ii L gamma : F) (N kinj : Z) (ch : nat) (idx : list Z),
  gen_injection2d F pi L gamma N kinj idx = injection2d F (fz 2 * pi / L) gamma N kinj (wnvec 2 N idx)
  /\ injection3d F ii gamma N kinj ch (wnvec 3 N idx)
     = fst (gen_injection3d F L gamma N kinj ch idx) + ii * snd (gen_injection3d F L gamma N kinj ch idx).
Proof.
  intros F pi ii L gamma N kinj ch idx. split.
  - apply injection2d_tie.
  - apply injection3d_tie.
Qed.
Print Assumptions C12_code_injection_is_model_injection.

(* the transform of a real harmonic c e^{i theta} + c' e^{-i theta} puts n*c on mode m and n*c' on mode n-m
   (cos: c = c' = a/2; sin: c = a/(2i) = -i a/2, c' = +i a/2) -- the link between the arrays above and the documented fields *)
Theorem C12_transform_of_a_harmonic : forall (F : FieldT) (n : nat) (w w' : F),
  (0 < n)%nat -> fpow w n = 1 -> (forall m, (0 < m < n)%nat -> fpow w m <> 1) -> w * w' = 1 ->
  forall (c c' : F) (m k : nat), (0 < m < n)%nat -> (2 * m <> n)%nat -> (k < n)%nat ->
  dft n w (fun j => c * fpow w' (j * m) + c' * fpow w' (j * (n - m))) k
  = if (k =? m)%nat then fz (Z.of_nat n) * c else if (k =? n - m)%nat then fz (Z.of_nat n) * c' else 0.
Proof. intros F n w w' Hn H1 H2 H3 c c' m k Hm H2m Hk. apply (dft_two_characters F n w w'); assumption. Qed.
Print Assumptions C12_transform_of_a_harmonic.

(* on the laminar subspace (vorticity depending on x_1 only) the 2D convection term vanishes identically *)
Theorem C12_convection_vanishes_on_laminar_states : forall (F : FieldT) (N Kc : Z) (ii s b : F) (w : field F),
  (forall k, nth 0 k 0%Z <> 0%Z -> w k = 0) ->
  forall k, vorticity_conv F (prod2 F 2 N Kc) ii s 2 b w k = 0.
Proof. intros F N Kc ii s b w Hw k. apply vorticity_conv_laminar. exact Hw. Qed.
Print Assumptions C12_convection_vanishes_on_laminar_states.

(* 3D: on the laminar subspace of the Kolmogorov velocity flow (u = (u_0(x_1), 0, 0): channel 0 supported on the axis k = (0, j, 0)) the
   Leray-projected rotational convection vanishes identically - u x curl u is a gradient there and the projection removes it *)
Theorem C12_rotational_convection_vanishes_on_laminar_states : forall (F : FieldT) (N Kc : Z) (ii s : F) (u0 : field F) (i : nat) (k : list Z),
  (0 < N)%Z -> (0 <= Kc)%Z -> (2 * Kc < N)%Z -> ii <> 0 -> s <> 0 ->
  (forall x, nth 0 x 0%Z <> 0%Z \/ nth 2 x 0%Z <> 0%Z -> u0 x = 0) ->
  (i < 3)%nat -> length k = 3%nat ->
  nth i (projected_conv F (prod2 F 3 N Kc) ii s 3 [u0; fzero F; fzero F]) (fzero F) k = 0.
Proof. intros. apply projected_conv_laminar; assumption. Qed.
Print Assumptions C12_rotational_convection_vanishes_on_laminar_states.

(* ... and for the SOURCE text of the two Kolmogorov nonlinear functions (Gen/NonlinFuns.v, tied in Tie/NonlinTie.v): on the laminar
   subspace the source returns exactly its forcing array (the convection part vanishes), in 2D for every state supported on k_0 = 0 and in 3D
   for every velocity (u_0(x_1), 0, 0) *)
From EXV Require Import Gen.NonlinFuns Tie.NonlinTie Tie.LaminarTie.
Theorem C12_code_terms_reduce_to_the_forcing_on_laminar_states : forall (F : FieldT) (N Kc : Z) (ii s ND b : F) (w u0 inj : field F)
    (injs : list (field F)) (i : nat) (k : list Z),
  (0 < N)%Z -> (0 <= Kc)%Z -> (2 * Kc < N)%Z -> ii <> 0 -> s <> 0 ->
  ((forall x, nth 0 x 0%Z <> 0%Z -> w x = 0) ->
     gen_vorticity_conv_kolmogorov F (msk F Kc) (prod2 F 2 N Kc) (prod3 F 2 N Kc) ii s 2 ND b inj w k = inj k)
  /\ ((forall x, nth 0 x 0%Z <> 0%Z \/ nth 2 x 0%Z <> 0%Z -> u0 x = 0) -> (i < 3)%nat -> length k = 3%nat ->
     nth i (gen_projected_conv_kolmogorov F (msk F Kc) (prod2 F 3 N Kc) (prod3 F 3 N Kc) ii s 3 ND injs [u0; fzero F; fzero F]) (fzero F) k
     = nth i injs (fzero F) k).
Proof. intros. apply laminar_source_terms; assumption. Qed.
Print Assumptions C12_code_terms_reduce_to_the_forcing_on_laminar_states.

(* when the nonlinear term returns the forcing f on the laminar subspace, every tableau is u' = E u + h phi1(z) f there ... *)
Theorem C12_forced_step : forall (F : FieldT) (I : Type) (h : F) (z E Eh f : I -> F) (N : (I -> F) -> (I -> F)),
  (forall v, Sub F I f v -> forall k, N v k = f k) ->
  forall u, Sub F I f u -> forall k,
    etd1 h z E N u k = E k * u k + h * phi1 (z k) (E k) * f k
    /\ etd2rk h z E N u k = E k * u k + h * phi1 (z k) (E k) * f k
    /\ etd3rk h z E Eh N u k = E k * u k + h * phi1 (z k) (E k) * f k
    /\ etd4rk h z E Eh N u k = E k * u k + h * phi1 (z k) (E k) * f k.
Proof.
  intros F I h z E Eh f N HN u Hu k. splits.
  - apply etd1_forced; assumption.
  - apply etd2rk_forced; assumption.
  - apply etd3rk_forced; assumption.
  - apply etd4rk_forced; assumption.
Qed.
Print Assumptions C12_forced_step.

(* ... and n such steps from rest give f (E^n - 1)/lambda: with E = exp(h lambda) the exact laminar solution of u' = lambda u + f at t = n h *)
Theorem C12_laminar_solution : forall (F : FieldT) (lam h E f : F) (n : nat), lam <> 0 -> h <> 0 ->
  lam_iter F lam h E f n = f * (fpow E n - 1) / lam.
Proof. intros. apply laminar_solution; assumption. Qed.
Print Assumptions C12_laminar_solution.

(* ForcedStepper: zero forcing = the unforced stepper; forcing f = the unforced step of u + dt f *)
Theorem C12_forced_stepper : forall (F : FieldT) (I : Type) (dt : F) (step : (I -> F) -> (I -> F)),
  (forall u v, (forall k, u k = v k) -> forall k, step u k = step v k) ->
  forall u f k, forced_step F I dt step u (fun _ => 0) k = step u k
             /\ forced_step F I dt step u f k = step (fun j => u j + dt * f j) k.
Proof. intros F I dt step Hext u f k. split; [apply forced_zero; exact Hext | reflexivity]. Qed.
Print Assumptions C12_forced_stepper.

(* non-vacuity of the source tie: the regenerated 2D forcing array evaluated over the rationals (pi := 1, L = 2, gamma = 1, N = 8, forcing
   mode 2): -(2 pi / L) k gamma N (N / 2) = -64 at the stored index (0, 2), 0 next to it *)
From Coq Require Import Qcanon.
Example C12_ex_regenerated_injection :
  this (gen_injection2d QcField (Q2Qc 1) (Q2Qc 2) (Q2Qc 1) 8 2 [0; 2]%Z) = (-64 # 1)%Q
  /\ this (gen_injection2d QcField (Q2Qc 1) (Q2Qc 2) (Q2Qc 1) 8 2 [1; 2]%Z) = (0 # 1)%Q.
Proof. split; vm_compute; reflexivity. Qed.
