(* C02 — ETDRK steppers realise the order-p exponential Runge-Kutta scheme exactly.
   Subject: Gen/ETDRK.v, regenerated on every run from exponax/etdrk/_etdrk_{0..4}.py, _base_etdrk.py, _utils.py and
   the order dispatch of _base_stepper.py.  Specification: ETDRK/Phi.v (Cox-Matthews tableaux in phi-function form).
   F is ANY field of characteristic 0 (the complex numbers in particular): the statements therefore cover real, imaginary
   and general complex symbols z = dt*lambda <> 0, arbitrarily stiff; e, eh stand for exp z, exp (z/2).
   Not proved here (stated in DESIGN.md): the quadrature error of the 16-point contour mean (measured by the correspondence
   against phi-functions, including z = 0 exactly) and the O(dt^p) convergence theorem of Hochbruck-Ostermann (cited; its
   hypotheses - the scheme is the tableau with exact phi coefficients - are what is proved). *)
From Coq Require Import ZArith QArith List Bool.
From EXV Require Import Base.Scalar Base.FieldLemmas ETDRK.Phi ETDRK.Order Gen.ETDRK Tie.ETDRKTie.
Import ListNotations.
Local Open Scope fld_scope.
Ltac splits := repeat match goal with |- _ /\ _ => split end.

(* every coefficient integrand of the code is the phi-function expression of the tableau *)
Theorem C02_coefficients_are_phi : forall (F : FieldT) (z e eh : F), z <> 0 ->
  etdrk1_integrand_1 F z e eh = phi1 z e
  /\ etdrk2_integrand_1 F z e eh = phi1 z e /\ etdrk2_integrand_2 F z e eh = phi2 z e
  /\ etdrk3_integrand_1 F z e eh = phi1 (half z) eh / fz 2 /\ etdrk3_integrand_2 F z e eh = phi1 z e
  /\ etdrk3_integrand_3 F z e eh = phi1 z e - fz 3 * phi2 z e + fz 4 * phi3 z e
  /\ etdrk3_integrand_4 F z e eh = fz 4 * phi2 z e - fz 8 * phi3 z e
  /\ etdrk3_integrand_5 F z e eh = - phi2 z e + fz 4 * phi3 z e
  /\ etdrk4_integrand_1 F z e eh = phi1 (half z) eh / fz 2
  /\ etdrk4_integrand_2 F z e eh = phi1 (half z) eh / fz 2
  /\ etdrk4_integrand_3 F z e eh = phi1 (half z) eh / fz 2
  /\ etdrk4_integrand_4 F z e eh = phi1 z e - fz 3 * phi2 z e + fz 4 * phi3 z e
  /\ fz 2 * etdrk4_integrand_5 F z e eh = fz 2 * phi2 z e - fz 4 * phi3 z e
  /\ etdrk4_integrand_6 F z e eh = - phi2 z e + fz 4 * phi3 z e.
Proof.
  intros F z e eh Hz.
  splits;
    [ apply etdrk1_c1 | apply etdrk2_c1 | apply etdrk2_c2 | apply etdrk3_c1 | apply etdrk3_c2 | apply etdrk3_c3
    | apply etdrk3_c4 | apply etdrk3_c5 | apply etdrk4_c1 | rewrite etdrk4_c2; apply etdrk4_c1
    | rewrite etdrk4_c3; apply etdrk4_c1 | apply etdrk4_c4 | apply etdrk4_c5 | apply etdrk4_c6 ]; exact Hz.
Qed.
Print Assumptions C02_coefficients_are_phi.

(* one step of order p = the ETDp tableau applied to the stepper's own nonlinear term N (any N that is a function of
   the state's values), at every mode k, with coefficients h * integrand(z k, exp (z k), exp (z k/2)) *)
Theorem C02_step_is_tableau : forall (F : FieldT) (I : Type) (h : F) (z E Eh : I -> F)
    (N : (I -> F) -> (I -> F)),
  (forall u v, (forall k, u k = v k) -> forall k, N u k = N v k) ->
  (forall k, z k <> 0) ->
  let coef (f : F -> F -> F -> F) : I -> F := fun k => h * f (z k) (E k) (Eh k) in
  forall u k,
    etdrk1_step F E (coef (etdrk1_integrand_1 F)) N u k = etd1 h z E N u k
    /\ etdrk2_step F E (coef (etdrk2_integrand_1 F)) (coef (etdrk2_integrand_2 F)) N u k = etd2rk h z E N u k
    /\ etdrk3_step F E Eh (coef (etdrk3_integrand_1 F)) (coef (etdrk3_integrand_2 F)) (coef (etdrk3_integrand_3 F))
         (coef (etdrk3_integrand_4 F)) (coef (etdrk3_integrand_5 F)) N u k = etd3rk h z E Eh N u k
    /\ etdrk4_step F E Eh (coef (etdrk4_integrand_1 F)) (coef (etdrk4_integrand_2 F)) (coef (etdrk4_integrand_3 F))
         (coef (etdrk4_integrand_4 F)) (coef (etdrk4_integrand_5 F)) (coef (etdrk4_integrand_6 F)) N u k
       = etd4rk h z E Eh N u k.
Proof.
  intros F I h z E Eh N Next Hz coef u k. splits.
  - apply step1_tableau; assumption.
  - apply (step2_tableau F I h z E Eh N Next Hz).
  - apply step3_tableau; assumption.
  - apply step4_tableau; assumption.
Qed.
Print Assumptions C02_step_is_tableau.

(* order 0 is the pure linear propagation *)
Theorem C02_order0_is_linear : forall (F : FieldT) (I : Type) (E u : I -> F) (k : I),
  etdrk0_step F E u k = E k * u k.
Proof. intros. reflexivity. Qed.
Print Assumptions C02_order0_is_linear.

(* the exponentials are exp(dt*lambda) and exp(dt*lambda/2); contour points are z + r*w with z = dt*lambda *)
Theorem C02_exponent_arguments : forall (F : FieldT) (dt lam r w lr : F),
  base_exp_arg F dt lam = dt * lam /\ etdrk3_half_exp_arg F dt lam = half (dt * lam)
  /\ etdrk4_half_exp_arg F dt lam = half (dt * lam)
  /\ etdrk1_lr F r w (etdrk1_Ldt F dt lam) = dt * lam + r * w /\ etdrk2_lr F r w (etdrk2_Ldt F dt lam) = dt * lam + r * w
  /\ etdrk3_lr F r w (etdrk3_Ldt F dt lam) = dt * lam + r * w /\ etdrk4_lr F r w (etdrk4_Ldt F dt lam) = dt * lam + r * w
  /\ etdrk3_half_arg F lr = half lr /\ etdrk4_half_arg F lr = half lr.
Proof.
  intros F dt lam r w lr.
  destruct (exp_args F dt lam) as (H1 & H2 & H3 & H4 & H5 & H6 & H7).
  rewrite H4, H5, H6, H7.
  destruct (contour_points F r w (dt * lam) lr) as (G1 & G2 & G3 & G4 & G5 & G6).
  splits; assumption.
Qed.
Print Assumptions C02_exponent_arguments.

(* the contour points are the half-shifted roots of unity: w_j = exp(i*pi*(2j-1)/M), hence w_j^M = -1 *)
Theorem C02_contour_half_shifted : forall (F : FieldT) (ii pi j M : F), M <> 0 ->
  fz 2 * M * root_arg F ii pi j M = (ii * pi) * (fz 2 * (fz 2 * j - 1)).
Proof. exact root_arg_half_shift. Qed.
Print Assumptions C02_contour_half_shifted.

(* no coefficient is reduced to its real part (the complex-symbol defect F1 repaired by /repo commit 1577368) *)
Theorem C02_no_real_part : forallb (fun t => negb (snd t)) etdrk_takes_real = true.
Proof. reflexivity. Qed.
Print Assumptions C02_no_real_part.

(* order dispatch of BaseStepper: order k -> ETDRKk for k = 0..4, anything else is refused *)
Theorem C02_dispatch : forall order : Z,
  order_dispatch order = if (0 <=? order)%Z && (order <=? 4)%Z then Some (Z.to_nat order) else None.
Proof.
  intros [|p|p]; try reflexivity.
  do 3 (destruct p as [p|p|]; try reflexivity).
Qed.
Print Assumptions C02_dispatch.

(* order conditions inherited from the tableaux: weights sum to phi_1, sum b_i c_i = phi_2, stage rows consistent *)
Theorem C02_order_conditions : forall (F : FieldT) (z e eh : F), z <> 0 ->
  let p1 := phi1 z e in let p2 := phi2 z e in let p3 := phi3 z e in
  (p1 - p2) + p2 = p1
  /\ (p1 - fz 3 * p2 + fz 4 * p3) + (fz 4 * p2 - fz 8 * p3) + (- p2 + fz 4 * p3) = p1
  /\ (p1 - fz 3 * p2 + fz 4 * p3) + (fz 2 * p2 - fz 4 * p3) + (fz 2 * p2 - fz 4 * p3) + (- p2 + fz 4 * p3) = p1
  /\ (fz 4 * p2 - fz 8 * p3) / fz 2 + (- p2 + fz 4 * p3) * 1 = p2
  /\ (fz 2 * p2 - fz 4 * p3) / fz 2 + (fz 2 * p2 - fz 4 * p3) / fz 2 + (- p2 + fz 4 * p3) * 1 = p2
  /\ (e = eh * eh -> let q := phi1 (half z) eh / fz 2 in (eh * q - q) + 0 + fz 2 * q = 1 * p1)
  /\ (p1 = (e - 1) / z /\ p2 = (e - 1 - z) / (z * z) /\ p3 = (e - 1 - z - z * z / fz 2) / (z * z * z)).
Proof.
  intros F z e eh Hz p1 p2 p3. splits.
  - apply etd2_weights.
  - apply etd3_weights.
  - apply etd4_weights.
  - apply etd3_bc.
  - apply etd4_bc.
  - apply etd4_row4. exact Hz.
  - apply (phi_closed_forms F z e Hz).
  - apply (phi_closed_forms F z e Hz).
  - apply (phi_closed_forms F z e Hz).
Qed.
Print Assumptions C02_order_conditions.

(* non-vacuity: the hypotheses are met in the Gaussian rationals, e.g. z = -3/2 + 2i *)
From EXV Require Import Base.Cplx.
From Coq Require Import Qcanon.
Example C02_ex_nonvacuous :
  let z : QcC := mkcx (Q2Qc (-3 # 2)) (Q2Qc 2) in z <> @o0 QcC.
Proof. cbv zeta. intro H. apply (f_equal re) in H. cbn in H. discriminate H. Qed.
