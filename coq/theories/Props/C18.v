(* C18 — initial-condition generators honour their documented contract.
   Model: IC/Normalize.v (hand-written from exponax/ic/*.py); formula-level parts regenerated from the source on every run
   (Gen/ICGen.v, Gen/Guards.v) and identified with the model in Tie/ICTie.v; exact correspondence and the witness oracle on the
   real code in harness/props/c18.py.
   Every statement is for an arbitrary field of characteristic 0 ([FieldT]); where max / min / abs appear, for an arbitrary
   order oracle [leb] satisfying [OrderedF] (a premise); sqrt and power enter as functions with the stated premise only.
   Not modelled (correspondence / witness only): the PRNG (determinism in the key), float rounding, finiteness. *)
From Coq Require Import ZArith QArith Qcanon List Bool Field Ring Lia.
From EXV Require Import Base.Scalar Base.FieldLemmas DFT.DFT1 Layout.Freq IC.Normalize IC.NormalizeProofs IC.GeneratorsProofs
  Gen.ICGen Gen.Guards Tie.ICTie.
Import ListNotations.
Local Open Scope fld_scope.

(* ---- zero_mean: after subtracting the mean the sum (hence the mean) is 0; later divisions keep it 0 ---- *)
Theorem C18_zero_mean : forall (F : FieldT) (leb : F -> F -> bool) (fsqrt : F -> F) (std_one max_one : bool) (l : list F),
  l <> [] ->
  fsum (normalize_ic F leb fsqrt true false false l) = 0 /\
  mean F (normalize_ic F leb fsqrt true std_one max_one l) = 0.
Proof.
  intros F leb fsqrt so mo l H. split; [exact (center_sum F l H)|].
  unfold normalize_ic, normalize_with. fold (center F l).
  destruct so, mo; cbv zeta; repeat apply (div_mean_zero F); apply (center_mean F l H).
Qed.
Print Assumptions C18_zero_mean.

(* ---- std_one: population variance 1 (premise: fsqrt returns a square root of the non-zero variance of the centred field) ---- *)
Theorem C18_std_one : forall (F : FieldT) (leb : F -> F -> bool) (fsqrt : F -> F) (l : list F),
  let v := variance F (center F l) in
  fsqrt v * fsqrt v = v -> v <> 0 ->
  variance F (normalize_ic F leb fsqrt true true false l) = 1 /\ mean F (normalize_ic F leb fsqrt true true false l) = 0.
Proof.
  intros F leb fsqrt l v Hs Hv.
  assert (Hl : l <> []) by (intro E; subst l; apply Hv; apply (variance_nil F)).
  split.
  - exact (std_one_variance F (center F l) (fsqrt v) Hs Hv).
  - apply (div_mean_zero F). apply (center_mean F l Hl).
Qed.
Print Assumptions C18_std_one.

(* ---- max_one: the maximum of |.| is 1: every |entry| <= 1 and some |entry| = 1 ---- *)
Theorem C18_max_one : forall (F : FieldT) (leb : F -> F -> bool) (fsqrt : F -> F), OrderedF F leb ->
  forall (zero_mean : bool) (l : list F),
  let l1 := if zero_mean then center F l else l in
  maxabs F leb l1 <> 0 ->
  let r := normalize_ic F leb fsqrt zero_mean false true l in
  maxabs F leb r = 1 /\ (forall x, In x r -> leb (fabs F leb x) 1 = true) /\ (exists x, In x r /\ fabs F leb x = 1).
Proof.
  intros F leb fsqrt OF zm l l1 Hm r.
  assert (Er : r = div_all F l1 (maxabs F leb l1)) by (unfold r, l1, normalize_ic, normalize_with; destruct zm; reflexivity).
  assert (H1 : maxabs F leb r = 1) by (rewrite Er; apply (max_one_spec F leb OF); exact Hm).
  split; [exact H1|]. split.
  - intros x Hx. rewrite <- H1. apply (maxabs_bound F leb OF). exact Hx.
  - assert (Hr : r <> []).
    { rewrite Er. unfold div_all. destruct l1; [|discriminate]. exfalso. apply Hm. reflexivity. }
    destruct (maxabs_attained F leb r Hr) as [x [Hx Ex]]. exists x. split; [exact Hx | rewrite Ex; exact H1].
Qed.
Print Assumptions C18_max_one.

(* ---- ClampingICGenerator: affine map min -> lo, max -> hi, both limits attained, order preserving ---- *)
Theorem C18_clamp : forall (F : FieldT) (leb : F -> F -> bool), OrderedF F leb ->
  forall (lo hi : F) (l : list F), lmax F leb l <> lmin F leb l ->
  let mn := lmin F leb l in let mx := lmax F leb l in
  let g := fun x => (x - mn) / (mx - mn) * (hi - lo) + lo in
  clamp F leb lo hi l = map g l /\ length (clamp F leb lo hi l) = length l /\
  g mn = lo /\ g mx = hi /\ In lo (clamp F leb lo hi l) /\ In hi (clamp F leb lo hi l) /\
  (leb lo hi = true ->
     lmin F leb (clamp F leb lo hi l) = lo /\ lmax F leb (clamp F leb lo hi l) = hi /\
     forall x y, leb x y = true -> leb (g x) (g y) = true).
Proof.
  intros F leb OF lo hi l Hne mn mx g.
  assert (Hl : l <> []) by (intro E; subst l; apply Hne; reflexivity).
  assert (Hd : mx - mn <> 0) by (intro E; apply Hne; apply (fsub_eq0 F); exact E).
  assert (Ef : clamp F leb lo hi l = map g l) by (rewrite (clamp_formula F leb OF lo hi l Hl); reflexivity).
  assert (G1 : g mn = lo) by (apply (clamp_point_min F); exact Hd).
  assert (G2 : g mx = hi) by (apply (clamp_point_max F); exact Hd).
  split; [exact Ef|]. split; [apply (clamp_length F)|]. split; [exact G1|]. split; [exact G2|].
  split; [|split].
  - rewrite Ef, <- G1. apply in_map. apply (lmin_in F leb l Hl).
  - rewrite Ef, <- G2. apply in_map. apply (lmax_in F leb l Hl).
  - intros Hlh. split; [apply (clamp_min F leb OF); assumption|]. split; [apply (clamp_max F leb OF); assumption|].
    apply (clamp_point_mono F leb OF mn (mx - mn) lo hi); [apply (range_nonneg F leb OF l Hl) | exact Hd | exact Hlh].
Qed.
Print Assumptions C18_clamp.

(* ---- ScaledIC / ScaledICGenerator ---- *)
Theorem C18_scaled : forall (F : FieldT) (s : F) (l : list F),
  scaled F s l = map (fun x => x * s) l /\ length (scaled F s l) = length l /\
  (forall i d, nth i (scaled F s l) (d * s) = nth i l d * s) /\ mean F (scaled F s l) = mean F l * s.
Proof.
  intros F s l. split; [reflexivity|]. split; [apply map_length|]. split; [intros; apply (scaled_nth F) | apply (scaled_mean F)].
Qed.
Print Assumptions C18_scaled.

(* "works best with max_one=True": a max_one field scaled by s has maximum |s| *)
Theorem C18_scaled_max_one : forall (F : FieldT) (leb : F -> F -> bool) (fsqrt : F -> F), OrderedF F leb ->
  forall (s : F) (zero_mean : bool) (l : list F),
  maxabs F leb (if zero_mean then center F l else l) <> 0 ->
  maxabs F leb (scaled F s (normalize_ic F leb fsqrt zero_mean false true l)) = fabs F leb s.
Proof.
  intros F leb fsqrt OF s zm l Hm. apply (maxabs_scaled_unit F leb OF).
  destruct (C18_max_one F leb fsqrt OF zm l Hm) as [H _]. exact H.
Qed.
Print Assumptions C18_scaled_max_one.

(* ---- RandomTruncatedFourierSeries: the mean of the inverse transform is the DC coefficient / N^D (every D, every N with a
        primitive N-th root of unity w'), so a DC coefficient offset * N^D gives mean = offset ---- *)
Theorem C18_offset_mean : forall (F : FieldT) (n : nat) (w' : F),
  (0 < n)%nat -> fpow w' n = 1 -> (forall m, (0 < m < n)%nat -> fpow w' m <> 1) ->
  forall (D : nat),
  (forall U : list nat -> F, meanD F D n (idftD F D n w' U) = U (zero_idx D) / npts F D n) /\
  (forall (noise_hat : list nat -> F) (keep : list nat -> bool) (offset : F),
     meanD F D n (idftD F D n w' (tfs_spectrum F noise_hat keep offset D n)) = offset).
Proof.
  intros F n w' Hn H1 H2 D. split.
  - intros U. apply (mean_idftD F n w' Hn H1 H2).
  - intros. apply (tfs_mean F n w' Hn H1 H2).
Qed.
Print Assumptions C18_offset_mean.

(* the defect repaired in /repo 06b7e6b (DC := offset): the mean would be offset / N^D *)
Theorem C18_offset_defect_mean : forall (F : FieldT) (n : nat) (w' : F),
  (0 < n)%nat -> fpow w' n = 1 -> (forall m, (0 < m < n)%nat -> fpow w' m <> 1) ->
  forall (D : nat) (noise_hat : list nat -> F) (keep : list nat -> bool) (offset : F),
  meanD F D n (idftD F D n w' (fun k => if is_dc k then tfs_dc_defect F offset D n else if keep k then noise_hat k else 0))
  = offset / npts F D n.
Proof. intros F n w' Hn H1 H2 D nh keep offset. apply (tfs_mean_defect F n w' Hn H1 H2). Qed.
Print Assumptions C18_offset_defect_mean.

(* in one dimension idftD is the inverse DFT of DFT/DFT1.v (which inverts the forward transform, dft_inversion) *)
Theorem C18_idftD_is_idft : forall (F : FieldT) (n : nat) (w' : F) (U : list nat -> F) (j : nat),
  idftD F 1 n w' U [j] = idft n w' (fun k => U [k]) j.
Proof. intros F n w' U j. apply idftD_1. Qed.
Print Assumptions C18_idftD_is_idft.

(* ---- Fourier content confined to the cutoff: outside the cube |k_c| <= cutoff (and off the mean mode) the spectrum is 0,
        inside it is the white-noise spectrum ---- *)
Theorem C18_band_limit : forall (F : FieldT) (D n : nat) (cutoff : Z) (noise_hat : list nat -> F) (offset : F) (k : list nat),
  is_dc k = false ->
  let sp := tfs_spectrum F noise_hat (tfs_keep D n cutoff) offset D n in
  ((exists c, In c (wnvec D (Z.of_nat n) (map Z.of_nat k)) /\ (cutoff < Z.abs c)%Z) -> sp k = 0) /\
  ((forall c, In c (wnvec D (Z.of_nat n) (map Z.of_nat k)) -> (Z.abs c <= cutoff)%Z) -> sp k = noise_hat k).
Proof.
  intros F D n cutoff nh offset k Hdc sp. split.
  - intros [c [Hc Hlt]]. apply tfs_band; [exact Hdc|]. unfold tfs_keep.
    destruct (low_pass_axis D (Z.of_nat n) cutoff (map Z.of_nat k)) eqn:E; [|reflexivity].
    pose proof (proj1 (low_pass_axis_spec _ _ _ _) E c Hc). lia.
  - intros H. apply tfs_inside; [exact Hdc|]. unfold tfs_keep. apply (proj2 (low_pass_axis_spec _ _ _ _)). exact H.
Qed.
Print Assumptions C18_band_limit.

(* ---- GaussianRandomField: amplitude 1 at the mean mode, |k|^(-alpha/2) at EVERY other stored mode (in particular on the
        plane of last-axis index 0 and at the indices of negative leading wavenumbers); squared: |k|^(-alpha) ---- *)
Theorem C18_grf_amplitude : forall (F : FieldT) (powf : F -> F -> F) (nrm : list Z -> F) (D : nat) (N : Z) (alpha : F) (idx : list Z),
  (is_zero_idx idx = true -> grf_amplitude F powf nrm D N alpha idx = 1) /\
  (forall c, nth c idx 0%Z <> 0%Z -> grf_amplitude F powf nrm D N alpha idx = powf (nrm (wnvec D N idx)) (- alpha / two)) /\
  (forall noise_hat, grf_hat F powf nrm D N alpha noise_hat idx = noise_hat idx * grf_amplitude F powf nrm D N alpha idx) /\
  ((let x := nrm (wnvec D N idx) in let e := - alpha / two in powf x e * powf x e = powf x (e + e)) -> is_zero_idx idx = false ->
     grf_amplitude F powf nrm D N alpha idx * grf_amplitude F powf nrm D N alpha idx = powf (nrm (wnvec D N idx)) (- alpha)).
Proof.
  intros F powf nrm D N alpha idx. split; [apply grf_mean_mode|]. split.
  - intros c Hc. apply grf_other_modes. apply (is_zero_idx_false idx c Hc).
  - split; [reflexivity|]. intros Hp Hz. apply (grf_power_spectrum F powf nrm); assumption.
Qed.
Print Assumptions C18_grf_amplitude.

(* the rational form run by the correspondence (alpha = 2 m, scaled wavenumbers s k) is the squared amplitude *)
Theorem C18_grf_even_exponent : forall (F : FieldT) (powf : F -> F -> F) (nrm : list Z -> F) (s : F)
    (D : nat) (N : Z) (m : nat) (idx : list Z),
  let x := nrm (wnvec D N idx) in let alpha := fz (Z.of_nat (2 * m)) in
  (let e := - alpha / two in powf x e * powf x e = powf x (e + e)) ->      (* law of exponents *)
  x * x = s * s * fz (norm2 (wnvec D N idx)) ->                             (* nrm is the Euclidean norm of s * k *)
  powf x (- alpha) = oinv (fpow (x * x) m) ->                               (* integer powers *)
  let a := grf_amplitude F powf nrm D N alpha idx in
  a * a = grf_amp_sq_even F s m D N idx.
Proof. intros F powf nrm s D N m idx. apply (grf_amp_sq_even_ok F powf nrm s D N m idx). Qed.
Print Assumptions C18_grf_even_exponent.

(* ---- shapes: exactly one channel and (N,)*D for every single-field generator and every nesting of the wrappers around it;
        the multi-channel wrapper has one channel per sub-generator ---- *)
Theorem C18_shape_single : forall (N : Z) (g : gen), single g = true -> ctor_ok g = true ->
  exists D, gen_dims g = Some D /\ gen_shape N g = Some (1%Z :: spatial D N).
Proof. exact single_shape. Qed.
Print Assumptions C18_shape_single.

Theorem C18_shape_multi : forall (N D : Z) (gs : list gen), gs <> [] ->
  Forall (fun g => single g = true /\ ctor_ok g = true /\ gen_dims g = Some D) gs ->
  gen_shape N (GMulti gs) = Some (Z.of_nat (length gs) :: spatial D N).
Proof. exact multi_shape. Qed.
Print Assumptions C18_shape_multi.

(* Discontinuity: the mask built from x[0:1] has one channel in every dimension (grid of shape D :: spatial) *)
Theorem C18_shape_discontinuity : forall (D : Z) (sp : list Z) (nlim : nat), (1 <= D)%Z -> (Z.of_nat nlim <= D)%Z ->
  disc_shape (D :: sp) nlim = Some (1%Z :: sp) /\ disc_shape_defect (D :: sp) nlim = Some (D :: sp).
Proof. intros D sp nlim H1 H2. split; [apply disc_shape_one_channel | apply disc_shape_defect_D_channels]; assumption. Qed.
Print Assumptions C18_shape_discontinuity.

(* ---- function form = sampled form: by definition for the base class, preserved by the two wrappers that override both ---- *)
Theorem C18_fun_eq_sampled : forall (Key Grid Field : Type) (mk_grid : Z -> Grid) (scale_field : Field -> Field)
    (split : Key -> nat -> list Key) (cat : list Field -> Field),
  (forall f, agrees Key Grid Field mk_grid (base_call Key Grid Field mk_grid f) f) /\
  (forall s f, agrees Key Grid Field mk_grid s f ->
     agrees Key Grid Field mk_grid (scaled_call Key Field scale_field s) (scaled_fun Key Grid Field scale_field f)) /\
  (forall sf : list (sampler Key Field * funform Key Grid Field),
     Forall (fun p => agrees Key Grid Field mk_grid (fst p) (snd p)) sf ->
     agrees Key Grid Field mk_grid (multi_call Key Field split cat (map fst sf)) (multi_fun Key Grid Field split cat (map snd sf))).
Proof.
  intros. split; [apply base_agrees|]. split; [apply scaled_agrees | apply multi_agrees].
Qed.
Print Assumptions C18_fun_eq_sampled.

(* ---- option validation: the rejected combinations are exactly the documented ones ---- *)
Theorem C18_option_validation : forall (zero_mean std_one max_one : bool),
  (ic_options_raise zero_mean std_one max_one = true <-> (zero_mean = false /\ std_one = true) \/ (std_one = true /\ max_one = true)) /\
  (forall g, In g [grf_raises; diffused_noise_raises; discontinuities_raises; random_discontinuities_raises; tfs_raises] ->
     g zero_mean std_one max_one = ic_options_raise zero_mean std_one max_one).
Proof.
  intros a b c. split.
  - destruct a, b, c; cbn; intuition congruence.
  - intros g Hg. cbn in Hg. repeat (destruct Hg as [<-|Hg]; [reflexivity|]). contradiction.
Qed.
Print Assumptions C18_option_validation.

(* RandomTruncatedFourierSeries: zero_mean is "offset_range == (0.0, 0.0)", so any other range with std_one is rejected *)
Theorem C18_option_validation_tfs : forall (offset_zero std_one max_one : bool),
  tfs_raises offset_zero std_one max_one = true <-> (offset_zero = false /\ std_one = true) \/ (std_one = true /\ max_one = true).
Proof. intros a b c. destruct a, b, c; cbn; intuition congruence. Qed.
Print Assumptions C18_option_validation_tfs.

Theorem C18_option_validation_sine : forall (D : Z) (offset_zero std_one max_one : bool) (na nw np : Z),
  (0 <= na)%Z -> (0 <= nw)%Z -> (0 <= np)%Z ->
  (random_sine_raises D offset_zero std_one max_one = true
     <-> D <> 1%Z \/ (offset_zero = false /\ std_one = true) \/ (std_one = true /\ max_one = true)) /\
  (sine_waves_raises offset_zero std_one max_one na nw np = true
     <-> (offset_zero = false /\ std_one = true) \/ (std_one = true /\ max_one = true) \/ na <> nw \/ nw <> np).
Proof.
  intros D a b c na nw np H1 H2 H3. split.
  - unfold random_sine_raises. destruct (Z.eqb_spec D 1); destruct a, b, c; cbn; intuition congruence.
  - unfold sine_waves_raises. rewrite !repeat_length, !Z2Nat.id by assumption.
    destruct (Z.eqb_spec na nw), (Z.eqb_spec nw np); destruct a, b, c; cbn; intuition congruence.
Qed.
Print Assumptions C18_option_validation_sine.

Theorem C18_call_guards : forall (so mo oc : bool) (pos_len : Z) (x : list Z),
  (sine_waves_call_raises so mo x = true <-> nth 0 x 0%Z <> 1%Z) /\
  (gaussian_blob_call_raises oc pos_len x = true <-> nth 0 x 0%Z <> pos_len).
Proof.
  intros. unfold sine_waves_call_raises, gaussian_blob_call_raises. split.
  - destruct (Z.eqb_spec (nth 0 x 0%Z) 1); cbn; intuition congruence.
  - destruct (Z.eqb_spec (nth 0 x 0%Z) pos_len); cbn; intuition congruence.
Qed.
Print Assumptions C18_call_guards.

(* ---- the code is the model (formula-level parts regenerated from /repo on every run) ---- *)
Theorem C18_code_is_model : forall (F : FieldT),
  (forall fm fs fa zm so mo ic, gen_normalize_ic F fm fs fa zm so mo ic = normalize_with F fm fs fa zm so mo ic) /\
  (forall fm fs fa zm so mo ic, gen_disc_normalize F fm fs fa zm so mo ic = normalize_with F fm fs fa zm so mo ic) /\
  (forall fm fs fa so mo ic, gen_sine_normalize F fm fs fa so mo ic = normalize_with F fm fs fa false so mo ic) /\
  (forall leb lo hi ic, clamp F leb lo hi ic
     = map (fun x => gen_clamp_point F x (lmin F leb ic) (lmax F leb (map (fun y => y - lmin F leb ic) ic)) lo hi) ic) /\
  (forall s ic, scaled F s ic = map (fun u => gen_scaled_call_point F u s) ic /\ scaled F s ic = map (fun u => gen_scaled_fun_point F u s) ic) /\
  (forall offset D n, gen_tfs_dc F offset (npts F D n) = tfs_dc F offset D n) /\
  (forall oz so mo, gen_tfs_dc_flat_index = 0%nat /\ gen_tfs_axis_separate = true /\ gen_tfs_norm_flags oz so mo = (oz, so, mo)) /\
  (forall alpha : F, gen_grf_exponent F alpha = grf_exponent F alpha) /\
  (forall zm so mo, gen_grf_mean_mode_flat_index = 0%nat /\ gen_grf_mean_mode_amplitude F = fz 1 /\
                    gen_grf_norm_flags zm so mo = (zm, so, mo) /\ gen_diffused_norm_flags zm so mo = (zm, so, mo)) /\
  (forall xshape nlim, gen_disc_shape xshape nlim = disc_shape xshape nlim) /\
  (gen_multi_concat_axis = 0%Z /\ gen_multi_same_key_split = true /\ gen_base_call_is_fun_on_grid = true).
Proof.
  intros F.
  split; [apply tie_normalize_ic|]. split; [apply tie_disc_normalize|]. split; [apply tie_sine_normalize|].
  split; [apply tie_clamp|]. split; [apply tie_scaled|]. split; [apply tie_tfs_dc|]. split; [apply tie_tfs_options|].
  split; [apply tie_grf_exponent|]. split; [apply tie_grf_options|]. split; [apply tie_disc_shape | apply tie_structure].
Qed.
Print Assumptions C18_code_is_model.

(* ------------------------------------------------------------------------------------------- *)
(* The premises are satisfiable: Qc with its order. *)
Example C18_ex_ordered : OrderedF QcField Qc_leb.
Proof. exact Qc_ordered. Qed.

Definition qcl (l : list Q) : list QcField := map Q2Qc l.

(* zero mean, and std_one with fsqrt the identity at 1: the field [1; 3] has centred variance 1 *)
Example C18_ex_std_one :
  let l := qcl [1; 3]%Q in
  variance QcField (center QcField l) = Q2Qc 1 /\ Q2Qc 1 <> Q2Qc 0 /\
  map this (normalize_ic QcField Qc_leb (fun x => x) true true false l) = [(-1) # 1; 1 # 1]%Q.
Proof. cbv zeta. split; [apply Qc_is_canon; vm_compute; reflexivity|]. split; [discriminate | vm_compute; reflexivity]. Qed.

Example C18_ex_max_one :
  map this (normalize_ic QcField Qc_leb (fun x => x) true false true (qcl [1; 2; 6]%Q)) = [(-2) # 3; (-1) # 3; 1 # 1]%Q
  /\ this (maxabs QcField Qc_leb (center QcField (qcl [1; 2; 6]%Q))) = (3 # 1)%Q.
Proof. split; vm_compute; reflexivity. Qed.

Example C18_ex_clamp :
  map this (clamp QcField Qc_leb (Q2Qc (1 # 2)) (Q2Qc 2) (qcl [3; (-1) # 1; 1; 7]%Q)) = [5 # 4; 1 # 2; 7 # 8; 2 # 1]%Q
  /\ lmax QcField Qc_leb (qcl [3; (-1) # 1; 1; 7]%Q) <> lmin QcField Qc_leb (qcl [3; (-1) # 1; 1; 7]%Q).
Proof. split; [vm_compute; reflexivity | intro H; apply (f_equal this) in H; vm_compute in H; discriminate H]. Qed.

(* a primitive 2nd root of unity in Qc: w' = -1; the 2-D 2x2 inverse transform of a spectrum with DC = offset * 4 has mean offset,
   the defective DC = offset gives offset / 4 *)
Example C18_ex_primitive_root :
  let w' : QcField := Q2Qc ((-1) # 1) in fpow w' 2 = 1 /\ forall m, (0 < m < 2)%nat -> fpow w' m <> 1.
Proof.
  cbv zeta. split; [apply Qc_is_canon; vm_compute; reflexivity|].
  intros m Hm. assert (m = 1%nat) by lia. subst m. intro H. apply (f_equal this) in H. vm_compute in H. discriminate H.
Qed.

Example C18_ex_offset :
  let w' : QcField := Q2Qc ((-1) # 1) in
  let nh := fun k : list nat => Q2Qc (Z.of_nat (length k + hd 0%nat k + 3 * nth 1 k 0%nat) # 1) in
  this (meanD QcField 2 2 (idftD QcField 2 2 w' (tfs_spectrum QcField nh (fun _ => true) (Q2Qc (3 # 4)) 2 2))) = (3 # 4)%Q /\
  this (meanD QcField 2 2 (idftD QcField 2 2 w'
          (fun k => if is_dc k then tfs_dc_defect QcField (Q2Qc (3 # 4)) 2 2 else nh k))) = (3 # 16)%Q.
Proof. cbv zeta. split; vm_compute; reflexivity. Qed.

(* shapes of concrete generator terms *)
Example C18_ex_shapes :
  gen_shape 5 (GClamp (GScaled (GBase K_GRF 3))) = Some [1; 5; 5; 5]%Z /\
  gen_shape 4 (GMulti [GBase K_TFS 2; GScaled (GBase K_DISC 2); GClamp (GBase K_BLOBS 2)]) = Some [3; 4; 4]%Z /\
  gen_shape 4 (GBase K_SINE 2) = None /\
  disc_shape [3; 6; 6; 6]%Z 3 = Some [1; 6; 6; 6]%Z /\ disc_shape_defect [3; 6; 6; 6]%Z 3 = Some [3; 6; 6; 6]%Z.
Proof. repeat split. Qed.

(* the premises of the even-exponent form are met: Qc, 1-D, N = 8, stored index 3, s = 1/2, alpha = 2 *)
Definition qc (q : Q) : QcField := Q2Qc q.
Definition ex_nrm (k : list Z) : QcField := qc (1 # 2) * fz (Z.abs (hd 0%Z k)).
Definition ex_powf (x e : QcField) : QcField :=
  if oeqb e (qc ((-1) # 1)) then oinv x else if oeqb e (qc ((-2) # 1)) then oinv (x * x) else qc 1.
Example C18_ex_grf_premises :
  let x := ex_nrm (wnvec 1 8 [3%Z]) in let alpha : QcField := fz (Z.of_nat (2 * 1)) in
  (let e := - alpha / two in ex_powf x e * ex_powf x e = ex_powf x (e + e)) /\
  x * x = qc (1 # 2) * qc (1 # 2) * fz (norm2 (wnvec 1 8 [3%Z])) /\
  ex_powf x (- alpha) = oinv (fpow (x * x) 1) /\
  this (grf_amp_sq_even QcField (qc (1 # 2)) 1 1 8 [3%Z]) = (4 # 9)%Q.
Proof. cbv zeta. repeat split; try (apply Qc_is_canon; vm_compute; reflexivity). Qed.
