(* C06 — results are invariant under jit, vmap and scan composition.   PARTIAL (see the end of this header).

   Full statement: for every public stepper class, compiling a stepper or any rollout of it (eqx.filter_jit), mapping it
   over a batch of states (jax.vmap), or constructing a batch of steppers over a parameter grid (eqx.filter_vmap) gives the
   same numbers as the eager, one-at-a-time evaluation; each batch member's result depends only on that member; and mapping a
   rollout equals rolling out the mapped stepper with batch and time axes exchanged.

   What is proved here.
   (1) The combinator laws, for every state type A (pytrees included), every stepper f : A -> A, every parameterised family
       step : P -> A -> A, every n, every batch — under the contracts of the JAX transformations stated in
       Utils/Combinators.v (vmap f = map f, jit f = f, scan = fold (Utils/Rollout.v), swapaxes = transpose).
   (2) About the code itself: the table Gen/Branches.v, regenerated from the exponax sources on every run by
       harness/translate/branches.py, lists every Python-level test reachable from every exported stepper class; no test on a
       call path (__call__/step/step_fourier, the ETDRK step_fourier methods, the nonlinear functions' __call__ and their
       helpers) is value-dependent, and every value-dependent test on a constructor path is guarded by
       isinstance(<operand>, (int, float)), so that a traced value never reaches it.

   What is NOT proved (the partial part): that jax.jit / jax.vmap / eqx.filter_vmap / jax.lax.scan satisfy these contracts on
   the exponax steppers (tracer leaks, concretisation inside library calls, XLA fusion changing rounding, weak-type promotion)
   and that the guarded constructor branches choose numerically equivalent variants.  That part is decided on the real code by
   the correspondence and witness sweeps of harness/props/c06.py (every exported class x {eager, filter_jit} x {single, vmap,
   filter_vmap over every float/array constructor parameter} x rollout/repeat nesting orders). *)
From Coq Require Import String List Arith Bool.
From EXV Require Import Utils.Rollout Utils.RolloutProofs Utils.Combinators Utils.CombinatorsProofs.
From EXV Require Import Utils.BranchTable Utils.BranchTableProofs Gen.Branches.
Import ListNotations.

(* ------------------------------------------------------------------------------------------------------------- *)
(* (a) batch independence: member i of the mapped result is f of member i, whatever the other members are *)
Theorem C06_batch_independence : forall (A B : Type) (f : A -> B) (us : list A) (i : nat),
  nth_error (vmap f us) i = option_map f (nth_error us i) /\
  length (vmap f us) = length us /\
  forall vs, nth_error us i = nth_error vs i -> nth_error (vmap f us) i = nth_error (vmap f vs) i.
Proof.
  intros A B f us i. split; [apply vmap_nth|]. split; [apply vmap_length|].
  intros vs H. apply vmap_member_only. exact H.
Qed.
Print Assumptions C06_batch_independence.

(* replacing one member of the batch replaces exactly that member of the result *)
Theorem C06_change_one_member : forall (A B : Type) (f : A -> B) (i : nat) (x : A) (us : list A),
  vmap f (upd i x us) = upd i (f x) (vmap f us) /\
  (forall j, i <> j -> nth_error (vmap f (upd i x us)) j = nth_error (vmap f us) j) /\
  (i < length us -> nth_error (vmap f (upd i x us)) i = Some (f x)).
Proof.
  intros A B f i x us. split; [apply vmap_upd|]. split.
  - intros j H. rewrite vmap_upd. apply upd_nth_other. exact H.
  - intros H. rewrite vmap_upd. apply upd_nth_same. rewrite vmap_length. exact H.
Qed.
Print Assumptions C06_change_one_member.

(* (b) mapping a rollout = rolling out the mapped stepper with batch and time axes exchanged *)
Theorem C06_rollout_vmap_commute : forall (A : Type) (f : A -> A) (n : nat) (include_init : bool) (us : list A),
  vmap (rollout f n include_init) us = transpose (length us) (rollout (vmap f) n include_init us).
Proof. exact rollout_vmap_commute. Qed.
Print Assumptions C06_rollout_vmap_commute.

(* [transpose] is the exchange of the two leading axes: entry (j, t) of the result is entry (t, j) of the argument *)
Theorem C06_transpose_exchanges_axes : forall (A : Type) (w : nat) (rows : list (list A)) (j t : nat),
  Forall (fun r => length r = w) rows ->
  at2 (transpose w rows) j t = at2 rows t j /\ length (transpose w rows) = w.
Proof. intros A w rows j t H. split; [apply transpose_at2 | apply transpose_length]; exact H. Qed.
Print Assumptions C06_transpose_exchanges_axes.

(* the same, entry by entry and without [transpose]: (member j, time t) on the left is (time t, member j) on the right,
   and it is the (t+1)-fold application of f to member j alone *)
Theorem C06_rollout_vmap_entries : forall (A : Type) (f : A -> A) (n : nat) (include_init : bool) (us : list A) (j t : nat),
  at2 (vmap (rollout f n include_init) us) j t = at2 (rollout (vmap f) n include_init us) t j /\
  (t < n -> at2 (rollout (vmap f) n false us) t j = option_map (iter (S t) f) (nth_error us j)).
Proof. intros. split; [apply rollout_vmap_entry | apply rollout_vmap_member]. Qed.
Print Assumptions C06_rollout_vmap_entries.

(* (c) the same for repeat *)
Theorem C06_repeat_vmap_commute : forall (A : Type) (f : A -> A) (n : nat) (us : list A),
  vmap (repeat_fn f n) us = repeat_fn (vmap f) n us /\
  forall i, nth_error (repeat_fn (vmap f) n us) i = option_map (iter n f) (nth_error us i).
Proof.
  intros A f n us. split; [apply repeat_vmap_commute|].
  intros i. rewrite <- repeat_vmap_commute, vmap_nth.
  destruct (nth_error us i); [cbn; rewrite repeat_spec|]; reflexivity.
Qed.
Print Assumptions C06_repeat_vmap_commute.

(* (d) a batch of steppers over a parameter grid is the batch of the one-at-a-time steppers *)
Theorem C06_stepper_family : forall (A P : Type) (step : P -> A -> A) (ps : list P) (u : A) (i : nat),
  family_apply step ps u = map (fun p => step p u) ps /\
  nth_error (family_apply step ps u) i = option_map (fun p => step p u) (nth_error ps i).
Proof. intros. split; [apply family_apply_spec | apply family_apply_nth]. Qed.
Print Assumptions C06_stepper_family.

(* ... also when every member has its own state, and through rollout (axes exchanged) and repeat *)
Theorem C06_stepper_family_rollout : forall (A P : Type) (step : P -> A -> A) (n : nat) (include_init : bool)
    (ps : list P) (us : list A),
  length ps = length us ->
  vmap2 (fun p u => rollout (step p) n include_init u) ps us
    = transpose (length us) (rollout (vmap2 step ps) n include_init us) /\
  vmap2 (fun p u => repeat_fn (step p) n u) ps us = repeat_fn (vmap2 step ps) n us /\
  forall i, nth_error (vmap2 step ps us) i =
            match nth_error ps i, nth_error us i with Some p, Some u => Some (step p u) | _, _ => None end.
Proof.
  intros A P step n b ps us H. split; [apply family_rollout_commute; exact H|].
  split; [apply family_repeat_commute; exact H | intros i; apply vmap2_nth].
Qed.
Print Assumptions C06_stepper_family_rollout.

(* jit is transparent and scan is the loop: a compiled rollout of a compiled stepper is the naive eager loop *)
Theorem C06_jit_scan_transparent : forall (A : Type) (f : A -> A) (n : nat) (u0 : A),
  jit (rollout (jit f) n false) u0 = map (fun k => iter (S k) f u0) (seq 0 n) /\
  jit (rollout (jit f) n true) u0 = u0 :: map (fun k => iter (S k) f u0) (seq 0 n) /\
  jit (repeat_fn (jit f) n) u0 = iter n f u0 /\
  forall us, jit (vmap (jit f)) us = map f us.
Proof.
  intros A f n u0. unfold jit. split; [apply rollout_unfold|].
  split; [rewrite rollout_init, rollout_unfold; reflexivity|].
  split; [apply repeat_spec | reflexivity].
Qed.
Print Assumptions C06_jit_scan_transparent.

(* ------------------------------------------------------------------------------------------------------------- *)
(* the generated branch table *)
Theorem C06_call_path_branches_static : forall b, In b branches -> b_call b = true -> b_vd b = false.
Proof. apply call_static_sound. vm_compute. reflexivity. Qed.
Print Assumptions C06_call_path_branches_static.

Theorem C06_ctor_value_branches_guarded : forall b, In b branches -> b_call b = false -> b_vd b = true -> b_guarded b = true.
Proof. apply ctor_guarded_sound. vm_compute. reflexivity. Qed.
Print Assumptions C06_ctor_value_branches_guarded.

(* in terms of the (class, location, value_dependent) table: every value-dependent entry is a guarded constructor branch *)
Theorem C06_branch_table_value_dependent_entries : forall c l,
  In (c, l, true) branch_table ->
  exists b, In b branches /\ b_cls b = c /\ b_loc b = l /\ b_call b = false /\ b_guarded b = true.
Proof.
  intros c l H. unfold branch_table in H. apply in_map_iff in H. destruct H as [b [E Hb]].
  unfold triple_of in E. injection E as E1 E2 E3. exists b.
  assert (Hc : b_call b = false).
  { destruct (b_call b) eqn:Hc; [|reflexivity].
    rewrite (C06_call_path_branches_static b Hb Hc) in E3. discriminate. }
  repeat split; try assumption. apply (C06_ctor_value_branches_guarded b Hb Hc E3).
Qed.
Print Assumptions C06_branch_table_value_dependent_entries.

(* the table is not vacuous: every exported class has recorded tests on its call path and on its constructor path, and
   no index of the generated file dangles *)
Theorem C06_every_class_covered : forall c, In c stepper_classes ->
  (exists b, In b branches /\ b_cls b = c /\ b_call b = true) /\
  (exists b, In b branches /\ b_cls b = c /\ b_call b = false) /\
  (exists ids, In (c, ids) class_tests /\ forall i, In i ids -> i < length tests).
Proof.
  intros c Hc. split; [|split].
  - revert c Hc. apply covered_sound. vm_compute. reflexivity.
  - revert c Hc. apply covered_sound. vm_compute. reflexivity.
  - assert (H : forallb (fun c => existsb (fun ct => String.eqb (fst ct) c && forallb (fun i => Nat.ltb i (length tests)) (snd ct))
                                           class_tests) stepper_classes = true) by (vm_compute; reflexivity).
    rewrite forallb_forall in H. specialize (H c Hc). apply existsb_exists in H. destruct H as [[c' ids] [Hin E]].
    apply andb_true_iff in E. destruct E as [E1 E2]. apply String.eqb_eq in E1. cbn [fst snd] in *. subst c'.
    exists ids. split; [exact Hin|]. intros i Hi. rewrite forallb_forall in E2. apply Nat.ltb_lt. apply E2. exact Hi.
Qed.
Print Assumptions C06_every_class_covered.

(* ------------------------------------------------------------------------------------------------------------- *)
(* The property under the contracts (partial: the contracts themselves are checked on the real code, not proved):
   a batch of steppers over a parameter grid, rolled out under jit and vmap in either nesting order, equals the eager
   one-at-a-time loops, member by member. *)
Theorem C06_invariance_under_contracts_partial : forall (A P : Type) (step : P -> A -> A) (n : nat) (ps : list P) (us : list A),
  length ps = length us ->
  forall j t, t < n ->
    at2 (jit (rollout (jit (vmap2 step ps)) n false) us) t j
    = match nth_error ps j, nth_error us j with Some p, Some u => Some (iter (S t) (step p) u) | _, _ => None end
    /\ at2 (jit (vmap2 (fun p u => rollout (step p) n false u) ps) us) j t
       = at2 (jit (rollout (jit (vmap2 step ps)) n false) us) t j.
Proof.
  intros A P step n ps us H j t Ht. unfold jit.
  assert (E : at2 (rollout (vmap2 step ps) n false us) t j
              = match nth_error ps j, nth_error us j with Some p, Some u => Some (iter (S t) (step p) u) | _, _ => None end).
  { unfold at2. rewrite rollout_nth by exact Ht. rewrite (iter_vmap2 step (S t) ps us H). apply vmap2_nth. }
  split; [exact E|].
  rewrite (family_rollout_commute step n false ps us H).
  apply transpose_at2.
  rewrite rollout_unfold. apply Forall_forall. intros r Hr. apply in_map_iff in Hr. destruct Hr as [k [<- _]].
  rewrite (iter_vmap2 step (S k) ps us H). apply vmap2_length. exact H.
Qed.
Print Assumptions C06_invariance_under_contracts_partial.

(* non-vacuity *)
Example C06_ex_commute :
  vmap (rollout (fun u => 2 * u + 1) 3 true) [5; 7] = [[5; 11; 23; 47]; [7; 15; 31; 63]]
  /\ rollout (vmap (fun u => 2 * u + 1)) 3 true [5; 7] = [[5; 7]; [11; 15]; [23; 31]; [47; 63]]
  /\ transpose 2 [[5; 7]; [11; 15]; [23; 31]; [47; 63]] = [[5; 11; 23; 47]; [7; 15; 31; 63]].
Proof. repeat split; reflexivity. Qed.
Example C06_ex_empty_time_axis : transpose 3 (rollout (vmap S) 0 false [1; 2; 3]) = [[]; []; []].
Proof. reflexivity. Qed.
Example C06_ex_family :
  vmap2 (fun p u => rollout (fun x => p * x) 2 false u) [2; 3] [1; 10] = [[2; 4]; [30; 90]]
  /\ transpose 2 (rollout (vmap2 (fun p x => p * x) [2; 3]) 2 false [1; 10]) = [[2; 4]; [30; 90]].
Proof. split; reflexivity. Qed.
Example C06_ex_table : Nat.leb 36 (length stepper_classes) && Nat.leb 300 (length branches) = true.
Proof. vm_compute. reflexivity. Qed.
