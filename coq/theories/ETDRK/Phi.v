(* Independent specification of the exponential Runge-Kutta schemes ETD1, ETD2RK, ETD3RK, ETD4RK of
   Cox & Matthews (J. Comput. Phys. 176, 2002) in phi-function form (Hochbruck & Ostermann, Acta Numerica 2010),
   written from the papers, not from the code.  K is any field; per mode k: z k = dt*lambda_k,
   E k = exp (z k), Eh k = exp (z k / 2) are given (the theorems do not need the exponential law). *)
From Coq Require Import ZArith QArith List.
From EXV Require Import Base.Scalar.
Local Open Scope fld_scope.

Section Phi.
  Variable K : Ops.
  (* phi_0 = e^z, phi_{k+1}(z) = (phi_k(z) - 1/k!)/z *)
  Definition phi0 (z e : K) : K := e.
  Definition phi1 (z e : K) : K := (phi0 z e - 1) / z.
  Definition phi2 (z e : K) : K := (phi1 z e - 1) / z.
  Definition phi3 (z e : K) : K := (phi2 z e - 1 / fz 2) / z.
  Definition half (z : K) : K := z / fz 2.

  Section Tableaux.
    Variable I : Type.
    Variable h : K.                       (* time step *)
    Variables z E Eh : I -> K.            (* z = h*lambda, E = e^z, Eh = e^{z/2} *)
    Variable N : (I -> K) -> (I -> K).    (* nonlinear term in Fourier space *)
    Let p1 k := phi1 (z k) (E k).
    Let p2 k := phi2 (z k) (E k).
    Let p3 k := phi3 (z k) (E k).
    Let p1h k := phi1 (half (z k)) (Eh k).          (* phi_1(z/2) *)

    (* ETD1 (exponential Euler) *)
    Definition etd1 (u : I -> K) : I -> K :=
      fun k => E k * u k + h * (p1 k * N u k).

    (* ETD2RK: c = (0,1), a21 = phi1, b = (phi1 - phi2, phi2) *)
    Definition etd2rk (u : I -> K) : I -> K :=
      let a := fun k => E k * u k + h * (p1 k * N u k) in
      fun k => E k * u k + h * ((p1 k - p2 k) * N u k + p2 k * N a k).

    (* ETD3RK: c = (0,1/2,1), a21 = phi1(z/2)/2, a31 = -phi1, a32 = 2 phi1,
       b = (phi1 - 3 phi2 + 4 phi3, 4 phi2 - 8 phi3, -phi2 + 4 phi3) *)
    Definition etd3rk (u : I -> K) : I -> K :=
      let a := fun k => Eh k * u k + h * (p1h k / fz 2 * N u k) in
      let b := fun k => E k * u k + h * (- p1 k * N u k + fz 2 * p1 k * N a k) in
      fun k => E k * u k
               + h * ((p1 k - fz 3 * p2 k + fz 4 * p3 k) * N u k
                      + (fz 4 * p2 k - fz 8 * p3 k) * N a k
                      + (- p2 k + fz 4 * p3 k) * N b k).

    (* ETD4RK: c = (0,1/2,1/2,1); a, b with phi1(z/2)/2; third stage from a;
       b = (phi1 - 3 phi2 + 4 phi3, 2 phi2 - 4 phi3, 2 phi2 - 4 phi3, -phi2 + 4 phi3) *)
    Definition etd4rk (u : I -> K) : I -> K :=
      let a := fun k => Eh k * u k + h * (p1h k / fz 2 * N u k) in
      let b := fun k => Eh k * u k + h * (p1h k / fz 2 * N a k) in
      let c := fun k => Eh k * a k + h * (p1h k / fz 2 * (fz 2 * N b k - N u k)) in
      fun k => E k * u k
               + h * ((p1 k - fz 3 * p2 k + fz 4 * p3 k) * N u k
                      + (fz 2 * p2 k - fz 4 * p3 k) * (N a k + N b k)
                      + (- p2 k + fz 4 * p3 k) * N c k).
  End Tableaux.
End Phi.
Arguments etd1 {K I}. Arguments etd2rk {K I}. Arguments etd3rk {K I}. Arguments etd4rk {K I}.
Arguments phi1 {K} z e. Arguments phi2 {K} z e. Arguments phi3 {K} z e. Arguments half {K} z.
