(* The ETD tableaux depend on (h, lambda, N) only through z = h*lambda (with E = e^z, Eh = e^{z/2}) and h*N:
   a stepper with (h, N) equals the stepper with time step 1 and nonlinear term h*N.  This is the scheme-level
   reason why only the non-dimensional groups alpha_j = a_j dt / L^j, beta = b dt / L^m matter (C13). *)
From Coq Require Import ZArith QArith List Bool Field Ring.
From EXV Require Import Base.Scalar Base.FieldLemmas ETDRK.Phi.
Local Open Scope fld_scope.

Section Scaling.
  Variable F : FieldT.
  Add Field Ff : (fth F).
  Variable I : Type.
  Variable h : F.
  Variables z E Eh : I -> F.
  Variable N : (I -> F) -> (I -> F).
  Hypothesis N_ext : forall u v, (forall k, u k = v k) -> forall k, N u k = N v k.
  Let hN : (I -> F) -> (I -> F) := fun v k => h * N v k.

  Lemma hN_ext u v : (forall k, u k = v k) -> forall k, hN u k = hN v k.
  Proof. intros H k. unfold hN. rewrite (N_ext u v H). reflexivity. Qed.

  Lemma etd1_scaling u k : etd1 h z E N u k = etd1 1 z E hN u k.
  Proof. unfold etd1, hN. ring. Qed.

  Lemma etd2rk_scaling u k : etd2rk h z E N u k = etd2rk 1 z E hN u k.
  Proof.
    unfold etd2rk, hN. cbv beta zeta.
    set (a := fun k0 => E k0 * u k0 + h * (phi1 (z k0) (E k0) * N u k0)).
    assert (Ha : forall j, N (fun k0 => E k0 * u k0 + 1 * (phi1 (z k0) (E k0) * (h * N u k0))) j = N a j).
    { apply N_ext. intros j. unfold a. ring. }
    rewrite Ha. ring.
  Qed.

  Lemma etd3rk_scaling u k : etd3rk h z E Eh N u k = etd3rk 1 z E Eh hN u k.
  Proof.
    unfold etd3rk, hN. cbv beta zeta.
    set (a := fun k0 => Eh k0 * u k0 + h * (phi1 (half (z k0)) (Eh k0) / fz 2 * N u k0)).
    assert (Ha : forall j, N (fun k0 => Eh k0 * u k0 + 1 * (phi1 (half (z k0)) (Eh k0) / fz 2 * (h * N u k0))) j = N a j).
    { apply N_ext. intros j. unfold a. ring. }
    set (b := fun k0 => E k0 * u k0 + h * (- phi1 (z k0) (E k0) * N u k0 + fz 2 * phi1 (z k0) (E k0) * N a k0)).
    assert (Hb : forall j, N (fun k0 => E k0 * u k0 + 1 * (- phi1 (z k0) (E k0) * (h * N u k0) + fz 2 * phi1 (z k0) (E k0)
                 * (h * N (fun k1 => Eh k1 * u k1 + 1 * (phi1 (half (z k1)) (Eh k1) / fz 2 * (h * N u k1))) k0))) j = N b j).
    { apply N_ext. intros j. unfold b. rewrite Ha. ring. }
    rewrite Ha, Hb. ring.
  Qed.

  Lemma etd4rk_scaling u k : etd4rk h z E Eh N u k = etd4rk 1 z E Eh hN u k.
  Proof.
    unfold etd4rk, hN. cbv beta zeta.
    set (a := fun k0 => Eh k0 * u k0 + h * (phi1 (half (z k0)) (Eh k0) / fz 2 * N u k0)).
    assert (Ha0 : forall j, Eh j * u j + 1 * (phi1 (half (z j)) (Eh j) / fz 2 * (h * N u j)) = a j).
    { intros j. unfold a. ring. }
    assert (Ha : forall j, N (fun k0 => Eh k0 * u k0 + 1 * (phi1 (half (z k0)) (Eh k0) / fz 2 * (h * N u k0))) j = N a j).
    { apply N_ext. exact Ha0. }
    set (b := fun k0 => Eh k0 * u k0 + h * (phi1 (half (z k0)) (Eh k0) / fz 2 * N a k0)).
    assert (Hb : forall j, N (fun k0 => Eh k0 * u k0 + 1 * (phi1 (half (z k0)) (Eh k0) / fz 2
                 * (h * N (fun k1 => Eh k1 * u k1 + 1 * (phi1 (half (z k1)) (Eh k1) / fz 2 * (h * N u k1))) k0))) j = N b j).
    { apply N_ext. intros j. unfold b. rewrite Ha. ring. }
    set (c := fun k0 => Eh k0 * (Eh k0 * u k0 + h * (phi1 (half (z k0)) (Eh k0) / fz 2 * N u k0))
                        + h * (phi1 (half (z k0)) (Eh k0) / fz 2 * (fz 2 * N b k0 - N u k0))).
    assert (Hc : forall j, N (fun k0 => Eh k0 * (Eh k0 * u k0 + 1 * (phi1 (half (z k0)) (Eh k0) / fz 2 * (h * N u k0)))
                 + 1 * (phi1 (half (z k0)) (Eh k0) / fz 2 * (fz 2 * (h * N (fun k1 => Eh k1 * u k1 + 1 * (phi1 (half (z k1)) (Eh k1) / fz 2
                 * (h * N (fun k2 => Eh k2 * u k2 + 1 * (phi1 (half (z k2)) (Eh k2) / fz 2 * (h * N u k2))) k1))) k0) - h * N u k0))) j = N c j).
    { apply N_ext. intros j. unfold c. rewrite Hb. clear Ha0 Ha Hb. ring. }
    rewrite Ha, Hb, Hc. clear Ha0 Ha Hb Hc. clearbody a b c. generalize (N c k) (N b k) (N a k) (N u k). intros n1 n2 n3 n4. ring.
  Qed.
End Scaling.
