(* C12: response of the ETD tableaux to a forcing.  On the laminar subspace (mode-wise multiples of the forcing f)
   the convection term vanishes, so the nonlinear term returns f for every stage state; every tableau then reduces to
   u' = E u + h phi1(z) f (weights telescope), and n steps from rest give the exact laminar solution f (e^{n z} - 1)/lambda. *)
From Coq Require Import ZArith QArith List Bool Field Ring Lia.
From EXV Require Import Base.Scalar Base.FieldLemmas ETDRK.Phi.
Local Open Scope fld_scope.

Section Forcing.
  Variable F : FieldT.
  Add Field Ff : (fth F).
  Variable I : Type.
  Variable h : F.
  Variables z E Eh : I -> F.
  Variable f : I -> F.
  Variable N : (I -> F) -> (I -> F).
  Definition Sub (v : I -> F) : Prop := exists c : I -> F, forall k, v k = c k * f k.
  Hypothesis N_on_sub : forall v, Sub v -> forall k, N v k = f k.
  Hypothesis z_nz : forall k, z k <> 0.
  Let two_nz : @fz F 2 <> 0. Proof. apply fz_neq0. discriminate. Qed.

  Lemma sub_ext (v w : I -> F) : (forall k, v k = w k) -> Sub w -> Sub v.
  Proof. intros H [c Hc]. exists c. intros k. rewrite H. apply Hc. Qed.
  Lemma sub_lin2 (a b : I -> F) (v g : I -> F) : Sub v -> Sub g -> Sub (fun k => a k * v k + b k * g k).
  Proof. intros [c Hc] [e He]. exists (fun k => a k * c k + b k * e k). intros k. rewrite Hc, He. ring. Qed.
  Lemma sub_N (w : I -> F) : Sub w -> Sub (N w).
  Proof. intros Hw. exists (fun _ => 1). intros k. rewrite (N_on_sub w Hw). ring. Qed.

  Variable u : I -> F.
  Hypothesis u_sub : Sub u.

  Theorem etd1_forced k : etd1 h z E N u k = E k * u k + h * phi1 (z k) (E k) * f k.
  Proof. unfold etd1. rewrite (N_on_sub u u_sub). ring. Qed.

  Theorem etd2rk_forced k : etd2rk h z E N u k = E k * u k + h * phi1 (z k) (E k) * f k.
  Proof.
    unfold etd2rk. cbv zeta.
    assert (Sa : Sub (fun k0 => E k0 * u k0 + h * (phi1 (z k0) (E k0) * N u k0))).
    { apply (sub_ext _ (fun k0 => E k0 * u k0 + (h * phi1 (z k0) (E k0)) * N u k0)); [intros; ring|].
      apply sub_lin2; [exact u_sub | apply sub_N; exact u_sub]. }
    rewrite (N_on_sub _ Sa), (N_on_sub u u_sub). ring.
  Qed.

  Theorem etd3rk_forced k : etd3rk h z E Eh N u k = E k * u k + h * phi1 (z k) (E k) * f k.
  Proof.
    unfold etd3rk. cbv zeta.
    set (a := fun k0 => Eh k0 * u k0 + h * (phi1 (half (z k0)) (Eh k0) / fz 2 * N u k0)).
    assert (Sa : Sub a).
    { apply (sub_ext _ (fun k0 => Eh k0 * u k0 + (h * (phi1 (half (z k0)) (Eh k0) / fz 2)) * N u k0)); [intros; unfold a; ring|].
      apply sub_lin2; [exact u_sub | apply sub_N; exact u_sub]. }
    set (b := fun k0 => E k0 * u k0 + h * (- phi1 (z k0) (E k0) * N u k0 + fz 2 * phi1 (z k0) (E k0) * N a k0)).
    assert (Sb : Sub b).
    { apply (sub_ext _ (fun k0 => 1 * (E k0 * u k0 + (h * - phi1 (z k0) (E k0)) * N u k0) + (h * (fz 2 * phi1 (z k0) (E k0))) * N a k0)); [intros; unfold b; ring|].
      apply sub_lin2; [apply sub_lin2; [exact u_sub | apply sub_N; exact u_sub] | apply sub_N; exact Sa]. }
    rewrite (N_on_sub _ Sa), (N_on_sub _ Sb), (N_on_sub u u_sub). cbn [fz fpos]. ring.
  Qed.

  Theorem etd4rk_forced k : etd4rk h z E Eh N u k = E k * u k + h * phi1 (z k) (E k) * f k.
  Proof.
    unfold etd4rk. cbv zeta.
    set (q := fun k0 => phi1 (half (z k0)) (Eh k0) / fz 2).
    set (a := fun k0 => Eh k0 * u k0 + h * (q k0 * N u k0)).
    assert (Sa : Sub a).
    { apply (sub_ext _ (fun k0 => Eh k0 * u k0 + (h * q k0) * N u k0)); [intros; unfold a; ring|].
      apply sub_lin2; [exact u_sub | apply sub_N; exact u_sub]. }
    set (b := fun k0 => Eh k0 * u k0 + h * (q k0 * N a k0)).
    assert (Sb : Sub b).
    { apply (sub_ext _ (fun k0 => Eh k0 * u k0 + (h * q k0) * N a k0)); [intros; unfold b; ring|].
      apply sub_lin2; [exact u_sub | apply sub_N; exact Sa]. }
    set (c := fun k0 => Eh k0 * (Eh k0 * u k0 + h * (q k0 * N u k0)) + h * (q k0 * (fz 2 * N b k0 - N u k0))).
    assert (Sc : Sub c).
    { apply (sub_ext _ (fun k0 => 1 * ((Eh k0 * Eh k0) * u k0 + (Eh k0 * h * q k0 - h * q k0) * N u k0) + (h * q k0 * fz 2) * N b k0)); [intros; unfold c; ring|].
      apply sub_lin2; [apply sub_lin2; [exact u_sub | apply sub_N; exact u_sub] | apply sub_N; exact Sb]. }
    rewrite (N_on_sub _ Sa), (N_on_sub _ Sb), (N_on_sub _ Sc), (N_on_sub u u_sub). cbn [fz fpos]. ring.
  Qed.
End Forcing.

(* n steps of u' = E u + g from rest, and the laminar closed form *)
Section Laminar.
  Variable F : FieldT.
  Add Field Ff2 : (fth F).
  Variables lam h E f : F.
  Hypothesis lam_nz : lam <> 0.
  Hypothesis h_nz : h <> 0.
  Fixpoint lam_iter (n : nat) : F := match n with O => 0 | S m => E * lam_iter m + h * phi1 (h * lam) E * f end.

  (* u_n = f (E^n - 1)/lambda: with E = exp(h lambda) this is the exact solution of u' = lambda u + f, u(0) = 0, at t = n h *)
  Theorem laminar_solution n : lam_iter n = f * (fpow E n - 1) / lam.
  Proof.
    induction n as [|n IH]; cbn [lam_iter fpow].
    - field. exact lam_nz.
    - rewrite IH. unfold phi1, phi0. field. split; assumption.
  Qed.
End Laminar.

(* ForcedStepper: step(u, f) = inner step of u + dt f *)
Section ForcedStepper.
  Variable F : FieldT.
  Add Field Ff3 : (fth F).
  Variable I : Type.
  Variable dt : F.
  Variable step : (I -> F) -> (I -> F).
  Hypothesis step_ext : forall u v, (forall k, u k = v k) -> forall k, step u k = step v k.
  Definition forced_step (u f : I -> F) : I -> F := step (fun k => u k + dt * f k).
  Theorem forced_zero u k : forced_step u (fun _ => 0) k = step u k.
  Proof. unfold forced_step. apply step_ext. intros j. ring. Qed.
  Theorem forced_spec u f k : forced_step u f k = step (fun j => u j + dt * f j) k.
  Proof. reflexivity. Qed.
End ForcedStepper.
