(* C19 lemmas: closed forms divide only by powers of lr; lr <> 0 on the real and imaginary axes; zero state; lambda = 0. *)
From Coq Require Import ZArith QArith List Bool Field Ring Lia Arith.
From EXV Require Import Base.Scalar Base.FieldLemmas Base.Cplx DFT.DFT1 ETDRK.Phi ETDRK.Order ETDRK.Contour Gen.ETDRK Tie.ETDRKTie.
Import ListNotations.
Local Open Scope fld_scope.

(* ------------------------------------------------------------------------------------------------ *)
(* (a) closed forms                                                                                  *)
Section ClosedForms.
  Variable F : FieldT.
  Add Field Ff : (fth F).
  Notation K := (fops F).

  Ltac cf := intros; unfold inv_pow, num_e1, num_e2, num_a3, num_b3, num_c3; cbn [fz fpos fpow]; field; assumption.

  (* every integrand = numerator * (1/lr)^m : the only inverse ever taken is that of lr *)
  Lemma cf_1_1 lr e eh : lr <> 0 -> etdrk1_integrand_1 F lr e eh = num_e1 F lr e * inv_pow F lr 1.
  Proof. unfold etdrk1_integrand_1. cf. Qed.
  Lemma cf_2_1 lr e eh : lr <> 0 -> etdrk2_integrand_1 F lr e eh = num_e1 F lr e * inv_pow F lr 1.
  Proof. unfold etdrk2_integrand_1. cf. Qed.
  Lemma cf_2_2 lr e eh : lr <> 0 -> etdrk2_integrand_2 F lr e eh = num_e2 F lr e * inv_pow F lr 2.
  Proof. unfold etdrk2_integrand_2. cf. Qed.
  Lemma cf_3_1 lr e eh : lr <> 0 -> etdrk3_integrand_1 F lr e eh = num_e1 F lr eh * inv_pow F lr 1.
  Proof. unfold etdrk3_integrand_1. cf. Qed.
  Lemma cf_3_2 lr e eh : lr <> 0 -> etdrk3_integrand_2 F lr e eh = num_e1 F lr e * inv_pow F lr 1.
  Proof. unfold etdrk3_integrand_2. cf. Qed.
  Lemma cf_3_3 lr e eh : lr <> 0 -> etdrk3_integrand_3 F lr e eh = num_a3 F lr e * inv_pow F lr 3.
  Proof. unfold etdrk3_integrand_3. cf. Qed.
  Lemma cf_3_4 lr e eh : lr <> 0 -> etdrk3_integrand_4 F lr e eh = fz 4 * num_b3 F lr e * inv_pow F lr 3.
  Proof. unfold etdrk3_integrand_4. cf. Qed.
  Lemma cf_3_5 lr e eh : lr <> 0 -> etdrk3_integrand_5 F lr e eh = num_c3 F lr e * inv_pow F lr 3.
  Proof. unfold etdrk3_integrand_5. cf. Qed.
  Lemma cf_4_1 lr e eh : lr <> 0 -> etdrk4_integrand_1 F lr e eh = num_e1 F lr eh * inv_pow F lr 1.
  Proof. unfold etdrk4_integrand_1. cf. Qed.
  Lemma cf_4_2 lr e eh : lr <> 0 -> etdrk4_integrand_2 F lr e eh = num_e1 F lr eh * inv_pow F lr 1.
  Proof. unfold etdrk4_integrand_2. cf. Qed.
  Lemma cf_4_3 lr e eh : lr <> 0 -> etdrk4_integrand_3 F lr e eh = num_e1 F lr eh * inv_pow F lr 1.
  Proof. unfold etdrk4_integrand_3. cf. Qed.
  Lemma cf_4_4 lr e eh : lr <> 0 -> etdrk4_integrand_4 F lr e eh = num_a3 F lr e * inv_pow F lr 3.
  Proof. unfold etdrk4_integrand_4. cf. Qed.
  Lemma cf_4_5 lr e eh : lr <> 0 -> etdrk4_integrand_5 F lr e eh = num_b3 F lr e * inv_pow F lr 3.
  Proof. unfold etdrk4_integrand_5. cf. Qed.
  Lemma cf_4_6 lr e eh : lr <> 0 -> etdrk4_integrand_6 F lr e eh = num_c3 F lr e * inv_pow F lr 3.
  Proof. unfold etdrk4_integrand_6. cf. Qed.

  (* ---- the same generated code run with partial division (x / 0 = error) ---- *)
  Notation O := (OptOps F).

  Lemma opt_fpos p : @fpos O p = Some (@fpos F p).
  Proof. induction p as [p IH|p IH|]; cbn [fpos]; try rewrite IH; reflexivity. Qed.
  Lemma opt_fz a : @fz O a = Some (@fz F a).
  Proof. destruct a; cbn [fz]; try rewrite opt_fpos; reflexivity. Qed.
  Lemma opt_fpow (x : F) n : @fpow O (Some x) n = Some (fpow x n).
  Proof. induction n as [|n IH]; cbn [fpow]; try rewrite IH; reflexivity. Qed.
  Lemma opt_div_some (x y : F) : y <> 0 -> @odiv O (Some x) (Some y) = Some (x / y).
  Proof. intros Hy. cbn. apply (feqb_false F) in Hy. rewrite Hy. reflexivity. Qed.
  Lemma opt_div_zero (x : F) : @odiv O (Some x) (Some 0) = None.
  Proof. cbn. rewrite (feqb_refl F). reflexivity. Qed.

  (* evaluate an integrand of Gen/ETDRK.v in OptOps: Some (value in F) when lr <> 0, the error value when lr = 0 *)
  Ltac ev_some Hlr :=
    cbv beta delta [etdrk1_integrand_1 etdrk2_integrand_1 etdrk2_integrand_2 etdrk3_integrand_1 etdrk3_integrand_2
                    etdrk3_integrand_3 etdrk3_integrand_4 etdrk3_integrand_5 etdrk4_integrand_1 etdrk4_integrand_2
                    etdrk4_integrand_3 etdrk4_integrand_4 etdrk4_integrand_5 etdrk4_integrand_6];
    rewrite ?opt_fz, ?opt_fpow;
    cbn [OptOps oadd omul osub oopp lift1 lift2];
    apply opt_div_some; try apply fpow_neq0; exact Hlr.
  Ltac ev_none :=
    cbv beta delta [etdrk1_integrand_1 etdrk2_integrand_1 etdrk2_integrand_2 etdrk3_integrand_1 etdrk3_integrand_2
                    etdrk3_integrand_3 etdrk3_integrand_4 etdrk3_integrand_5 etdrk4_integrand_1 etdrk4_integrand_2
                    etdrk4_integrand_3 etdrk4_integrand_4 etdrk4_integrand_5 etdrk4_integrand_6];
    rewrite ?opt_fz, ?opt_fpow;
    cbn [OptOps oadd omul osub oopp lift1 lift2];
    rewrite ?(fpow_0 F) by lia; apply opt_div_zero.

  Lemma integrands_defined lr e eh : lr <> 0 ->
    map (fun g => g (Some lr) (Some e) (Some eh)) (all_integrands O)
    = map (fun g => Some (g lr e eh)) (all_integrands F).
  Proof.
    intros Hlr. unfold all_integrands. cbn [map].
    repeat (apply f_equal2; [ev_some Hlr|]). reflexivity.
  Qed.

  Lemma integrands_undefined_at_zero e eh :
    map (fun g => g (Some 0) (Some e) (Some eh)) (all_integrands O) = map (fun _ => None) (all_integrands F).
  Proof.
    unfold all_integrands. cbn [map].
    repeat (apply f_equal2; [ev_none|]). reflexivity.
  Qed.

  (* a contour point can vanish only if z^M = (-r)^M * w^M; with w^M = -1 and M even: z^M = - r^M *)
  Lemma lr_zero_only_if (z r w : F) M : z + r * w = 0 -> fpow z M = fpow (- r) M * fpow w M.
  Proof.
    intros H. rewrite <- fpow_mul_base. f_equal.
    transitivity (z + r * w - r * w); [ring | rewrite H; ring].
  Qed.
End ClosedForms.

(* ------------------------------------------------------------------------------------------------ *)
(* (b) contour denominators on the real and imaginary axes (complex numbers over a formally real field) *)
Section Denominators.
  Variable F : FieldT.
  Hypothesis FR : FormallyReal F.
  Add Field Fg : (fth F).
  Notation C := (CField FR).

  (* -1 is not a square in a formally real field *)
  Lemma neg1_not_square (x : F) : x * x <> - (1).
  Proof.
    intros H. destruct (FR x 1) as [_ H1]; [rewrite H; ring | exact (f_1_neq_0 F H1)].
  Qed.

  Lemma cpow_real (x : F) n : @fpow C (cofr x) n = cofr (fpow x n).
  Proof.
    induction n as [|n IH]; cbn [fpow]; [reflexivity|]. rewrite IH. apply cx_ext; cbn; ring.
  Qed.

  Lemma cx_real_eta (w : cx F) : im w = 0 -> w = cofr (re w).
  Proof. intros H. apply cx_ext; cbn; [reflexivity | exact H]. Qed.

  Lemma even_pow_square (x : F) n : fpow x (2 * n) = fpow x n * fpow x n.
  Proof. replace (2 * n)%nat with (n + n)%nat by lia. apply fpow_add. Qed.

  (* a real number is never an M-th root of -1 for even M *)
  Lemma real_not_root_of_neg1 (w : C) n : im (w : cx F) = 0 -> fpow w (2 * n) <> - (1).
  Proof.
    intros Hw H. rewrite (cx_real_eta w Hw), cpow_real in H.
    apply (f_equal re) in H. cbn [re cofr fops CField COps oopp o1 copp c1] in H. rewrite even_pow_square in H.
    exact (neg1_not_square _ H).
  Qed.

  (* a purely imaginary number is never an M-th root of -1 when 4 | M *)
  Lemma imag_not_root_of_neg1 (w : C) n : re (w : cx F) = 0 -> fpow w (4 * n) <> - (1).
  Proof.
    intros Hw H.
    assert (Hsq : w * w = (cofr (- (im (w : cx F) * im (w : cx F))) : C)).
    { apply cx_ext; cbn; rewrite Hw; ring. }
    replace (4 * n)%nat with (2 * (2 * n))%nat in H by lia.
    rewrite (fpow_mul C w 2 (2 * n)) in H.
    replace (fpow w 2) with (w * w) in H by (cbn [fpow]; apply cx_ext; cbn; ring).
    rewrite Hsq, cpow_real in H.
    apply (f_equal re) in H. cbn [re cofr fops CField COps oopp o1 copp c1] in H. rewrite even_pow_square in H.
    exact (neg1_not_square _ H).
  Qed.

  Lemma real_nonzero_re (r : C) : im (r : cx F) = 0 -> r <> 0 -> re (r : cx F) <> 0.
  Proof. intros Hi Hr H. apply Hr. apply cx_ext; cbn; assumption. Qed.

  (* z real, r real and non-zero, w^M = -1 with M even: z + r w <> 0 *)
  Lemma contour_den_nonzero_real (z r w : C) n :
    im (z : cx F) = 0 -> im (r : cx F) = 0 -> r <> 0 -> fpow w (2 * n) = - (1) -> z + r * w <> 0.
  Proof.
    intros Hz Hr Hr0 Hw H.
    apply (real_not_root_of_neg1 w n); [|exact Hw].
    apply (f_equal im) in H. cbn in H. rewrite Hz, Hr in H.
    assert (H' : re (r : cx F) * im (w : cx F) = 0) by (rewrite <- H; ring).
    destruct (fmul_eq0 F _ _ H') as [E|E]; [|exact E].
    exfalso. exact (real_nonzero_re r Hr Hr0 E).
  Qed.

  (* z purely imaginary, r real and non-zero, w^M = -1 with 4 | M: z + r w <> 0 *)
  Lemma contour_den_nonzero_imag (z r w : C) n :
    re (z : cx F) = 0 -> im (r : cx F) = 0 -> r <> 0 -> fpow w (4 * n) = - (1) -> z + r * w <> 0.
  Proof.
    intros Hz Hr Hr0 Hw H.
    apply (imag_not_root_of_neg1 w n); [|exact Hw].
    apply (f_equal re) in H. cbn in H. rewrite Hz, Hr in H.
    assert (H' : re (r : cx F) * re (w : cx F) = 0) by (rewrite <- H; ring).
    destruct (fmul_eq0 F _ _ H') as [E|E]; [|exact E].
    exfalso. exact (real_nonzero_re r Hr Hr0 E).
  Qed.

  (* distance of a real centre from the contour: |z + r w|^2 = (z + r Re w)^2 + (r Im w)^2 *)
  Lemma contour_den_norm_real (z r w : C) : im (z : cx F) = 0 -> im (r : cx F) = 0 ->
    cnorm2 ((z + r * w : C) : cx F)
    = (re (z : cx F) + re (r : cx F) * re (w : cx F)) * (re (z : cx F) + re (r : cx F) * re (w : cx F))
      + (re (r : cx F) * im (w : cx F)) * (re (r : cx F) * im (w : cx F)).
  Proof. intros Hz Hr. unfold cnorm2. cbn. rewrite Hz, Hr. ring. Qed.

  (* dt real and lambda real (resp. imaginary) give a real (resp. imaginary) z = lambda*dt *)
  Lemma Ldt_real (dt lam : C) : im (dt : cx F) = 0 -> im (lam : cx F) = 0 -> im ((lam * dt : C) : cx F) = 0.
  Proof. intros H1 H2. cbn. rewrite H1, H2. ring. Qed.
  Lemma Ldt_imag (dt lam : C) : im (dt : cx F) = 0 -> re (lam : cx F) = 0 -> re ((lam * dt : C) : cx F) = 0.
  Proof. intros H1 H2. cbn. rewrite H1, H2. ring. Qed.
End Denominators.

(* ------------------------------------------------------------------------------------------------ *)
(* (c) the zero state, for arbitrary coefficient arrays                                              *)
Section ZeroState.
  Variable F : FieldT.
  Add Field Fh : (fth F).
  Variable I : Type.
  Variables E Eh c1 c2 c3 c4 c5 c6 : I -> F.
  Variable N : (I -> F) -> (I -> F).
  Hypothesis N_ext : forall u v, (forall k, u k = v k) -> forall k, N u k = N v k.
  Variable f : I -> F.
  Hypothesis N0 : forall k, N (zero_st F) k = f k.       (* the forcing: what N makes of the zero state *)

  Ltac nrw v H tac :=
    match goal with
    | |- context [N ?g _] =>
        lazymatch g with v => fail | _ => idtac end;
        assert (H : forall j', N g j' = N v j') by (apply N_ext; intros ?; tac);
        rewrite ?H
    end.

  Lemma step0_zero k : etdrk0_step F E (zero_st F) k = 0.
  Proof. unfold etdrk0_step, zero_st. ring. Qed.

  Lemma step1_forced k : etdrk1_step F E c1 N (zero_st F) k = forced1 F c1 f k.
  Proof. unfold etdrk1_step, forced1. rewrite N0. unfold zero_st. ring. Qed.

  Lemma step2_forced k : etdrk2_step F E c1 c2 N (zero_st F) k = forced2 F c1 c2 f N k.
  Proof.
    unfold etdrk2_step, forced2. cbv beta zeta.
    nrw (fst_a F c1 f) Ha ltac:(unfold fst_a; rewrite N0; unfold zero_st; ring).
    rewrite N0. unfold zero_st. ring.
  Qed.

  Lemma step3_forced k : etdrk3_step F E Eh c1 c2 c3 c4 c5 N (zero_st F) k = forced3 F c1 c2 c3 c4 c5 f N k.
  Proof.
    unfold etdrk3_step, forced3. cbv beta zeta.
    nrw (fst_a F c1 f) Ha ltac:(unfold fst_a; rewrite N0; unfold zero_st; ring).
    nrw (fst_b3 F c1 c2 f N) Hb ltac:(unfold fst_b3; rewrite ?Ha, N0; unfold zero_st; ring).
    rewrite N0. unfold zero_st. ring.
  Qed.

  Lemma step4_forced k :
    etdrk4_step F E Eh c1 c2 c3 c4 c5 c6 N (zero_st F) k = forced4 F Eh c1 c2 c3 c4 c5 c6 f N k.
  Proof.
    unfold etdrk4_step, forced4. cbv beta zeta.
    nrw (fst_a F c1 f) Ha ltac:(unfold fst_a; rewrite N0; unfold zero_st; ring).
    nrw (fst_b4 F c1 c2 f N) Hb ltac:(unfold fst_b4; rewrite ?Ha; unfold zero_st; ring).
    nrw (fst_c4 F Eh c1 c2 c3 f N) Hc ltac:(unfold fst_c4; rewrite ?Ha, ?Hb, N0; unfold zero_st; ring).
    rewrite N0. unfold zero_st. ring.
  Qed.
End ZeroState.

Section ZeroStateCor.
  Variable F : FieldT.
  Add Field Fi : (fth F).
  Variable I : Type.
  Variables E Eh c1 c2 c3 c4 c5 c6 : I -> F.

  (* unforced: N 0 = 0  ==>  step 0 = 0, whatever the coefficient arrays are *)
  Section Unforced.
    Variable N : (I -> F) -> (I -> F).
    Hypothesis N_ext : forall u v, (forall k, u k = v k) -> forall k, N u k = N v k.
    Hypothesis N0 : forall k, N (zero_st F) k = 0.

    Let Nz (g : I -> F) : (forall k, g k = 0) -> forall k, N g k = 0.
    Proof. intros Hg k. rewrite (N_ext g (zero_st F)); [apply N0 | exact Hg]. Qed.

    Lemma step1_zero k : etdrk1_step F E c1 N (zero_st F) k = 0.
    Proof. rewrite (step1_forced F I E c1 N (fun _ => 0) N0). unfold forced1. ring. Qed.
    Lemma step2_zero k : etdrk2_step F E c1 c2 N (zero_st F) k = 0.
    Proof.
      rewrite (step2_forced F I E c1 c2 N N_ext (fun _ => 0) N0). unfold forced2.
      rewrite Nz; [ring | intros j; unfold fst_a; ring].
    Qed.
    Lemma step3_zero k : etdrk3_step F E Eh c1 c2 c3 c4 c5 N (zero_st F) k = 0.
    Proof.
      rewrite (step3_forced F I E Eh c1 c2 c3 c4 c5 N N_ext (fun _ => 0) N0). unfold forced3.
      assert (Ha : forall j, N (fst_a F c1 (fun _ => 0)) j = 0) by (apply Nz; intros j; unfold fst_a; ring).
      rewrite Ha, Nz; [ring | intros j; unfold fst_b3; rewrite Ha; ring].
    Qed.
    Lemma step4_zero k : etdrk4_step F E Eh c1 c2 c3 c4 c5 c6 N (zero_st F) k = 0.
    Proof.
      rewrite (step4_forced F I E Eh c1 c2 c3 c4 c5 c6 N N_ext (fun _ => 0) N0). unfold forced4.
      assert (Ha : forall j, N (fst_a F c1 (fun _ => 0)) j = 0) by (apply Nz; intros j; unfold fst_a; ring).
      assert (Hb : forall j, N (fst_b4 F c1 c2 (fun _ => 0) N) j = 0) by (apply Nz; intros j; unfold fst_b4; rewrite Ha; ring).
      rewrite Ha, Hb, Nz; [ring | intros j; unfold fst_c4; rewrite Hb; ring].
    Qed.
  End Unforced.

  (* state-independent forcing N u = f: the result is (sum of the weights) * f *)
  Variable f : I -> F.
  Lemma step1_const k : etdrk1_step F E c1 (const_nl F f) (zero_st F) k = c1 k * f k.
  Proof. reflexivity || (unfold etdrk1_step, const_nl, zero_st; ring). Qed.
  Lemma step2_const k : etdrk2_step F E c1 c2 (const_nl F f) (zero_st F) k = c1 k * f k.
  Proof. unfold etdrk2_step, const_nl, zero_st. ring. Qed.
  Lemma step3_const k :
    etdrk3_step F E Eh c1 c2 c3 c4 c5 (const_nl F f) (zero_st F) k = (c3 k + c4 k + c5 k) * f k.
  Proof. unfold etdrk3_step, const_nl, zero_st. ring. Qed.
  Lemma step4_const k :
    etdrk4_step F E Eh c1 c2 c3 c4 c5 c6 (const_nl F f) (zero_st F) k = (c4 k + fz 2 * c5 k + fz 2 * c5 k + c6 k) * f k.
  Proof. unfold etdrk4_step, const_nl, zero_st. cbn [fz fpos]. ring. Qed.
End ZeroStateCor.

(* with the closed-form coefficients h * integrand(z, e, eh), z <> 0, a state-independent forcing f gives
   h * phi_1(z) * f at every order: the exact solution of u' = lambda u + f from u = 0 (when e = exp z) *)
Section ForcedExact.
  Variable F : FieldT.
  Add Field Fj : (fth F).
  Variable I : Type.
  Variable h : F.
  Variables z E Eh f : I -> F.
  Hypothesis z_nz : forall k, z k <> 0.
  Let coef (g : F -> F -> F -> F) : I -> F := fun k => h * g (z k) (E k) (Eh k).

  Lemma forced_exact k :
    etdrk1_step F E (coef (etdrk1_integrand_1 F)) (const_nl F f) (zero_st F) k = h * phi1 (z k) (E k) * f k
    /\ etdrk2_step F E (coef (etdrk2_integrand_1 F)) (coef (etdrk2_integrand_2 F)) (const_nl F f) (zero_st F) k
       = h * phi1 (z k) (E k) * f k
    /\ etdrk3_step F E Eh (coef (etdrk3_integrand_1 F)) (coef (etdrk3_integrand_2 F)) (coef (etdrk3_integrand_3 F))
         (coef (etdrk3_integrand_4 F)) (coef (etdrk3_integrand_5 F)) (const_nl F f) (zero_st F) k
       = h * phi1 (z k) (E k) * f k
    /\ etdrk4_step F E Eh (coef (etdrk4_integrand_1 F)) (coef (etdrk4_integrand_2 F)) (coef (etdrk4_integrand_3 F))
         (coef (etdrk4_integrand_4 F)) (coef (etdrk4_integrand_5 F)) (coef (etdrk4_integrand_6 F)) (const_nl F f) (zero_st F) k
       = h * phi1 (z k) (E k) * f k.
  Proof.
    pose proof (z_nz k) as Hz.
    rewrite step1_const, step2_const, step3_const, step4_const. unfold coef.
    rewrite etdrk1_c1, etdrk2_c1, etdrk3_c3, etdrk3_c4, etdrk3_c5, etdrk4_c4, etdrk4_c6 by exact Hz.
    pose proof (etdrk4_c5 F (z k) (E k) (Eh k) Hz) as H5.
    repeat split; try ring.
    - cbn [fz fpos]. ring.
    - transitivity (h * ((phi1 (z k) (E k) - fz 3 * phi2 (z k) (E k) + fz 4 * phi3 (z k) (E k))
                         + (fz 2 * etdrk4_integrand_5 F (z k) (E k) (Eh k)) + (fz 2 * etdrk4_integrand_5 F (z k) (E k) (Eh k))
                         + (- phi2 (z k) (E k) + fz 4 * phi3 (z k) (E k))) * f k); [ring|].
      rewrite H5. cbn [fz fpos]. ring.
  Qed.
End ForcedExact.

(* ------------------------------------------------------------------------------------------------ *)
(* (d) lambda = 0                                                                                    *)
Section LambdaZero.
  Variable F : FieldT.
  Add Field Fk : (fth F).
  Let two_nz : @fz F 2 <> 0. Proof. apply fz_neq0. discriminate. Qed.
  Let six_nz : @fz F 6 <> 0. Proof. apply fz_neq0. discriminate. Qed.
  Let three_nz : (1 + (1 + 1) : F) <> 0.
  Proof. intro H. apply (fz_neq0 F 3); [discriminate|]. cbn [fz fpos]. rewrite <- H. ring. Qed.
  Let three_nz' : ((1 + 1) + 1 : F) <> 0.
  Proof. intro H. apply three_nz. rewrite <- H. ring. Qed.
  Ltac nz1 := first [assumption | exact two_nz | exact six_nz | exact (two_neq0 F) | exact three_nz | exact three_nz'
                     | exact (fchar0 F _)].
  Ltac nz := repeat split; repeat first [nz1 | apply (fmul_neq0 F)].

  (* limit-free characterisation of the phi functions: z phi_{k+1} = phi_k - 1/k!  (for z <> 0 it determines them) *)
  Lemma phi_recurrence (z e : F) : z <> 0 ->
    z * phi1 z e = e - 1 /\ z * phi2 z e = phi1 z e - 1 /\ z * phi3 z e = phi2 z e - 1 / fz 2.
  Proof. intros Hz. unfold phi3, phi2, phi1, phi0. cbn [fz fpos]. repeat split; field; nz. Qed.

  Lemma phi_recurrence_unique (z e q1 q2 q3 : F) : z <> 0 ->
    z * q1 = e - 1 -> z * q2 = q1 - 1 -> z * q3 = q2 - 1 / fz 2 ->
    q1 = phi1 z e /\ q2 = phi2 z e /\ q3 = phi3 z e.
  Proof.
    intros Hz H1 H2 H3.
    assert (E1 : q1 = phi1 z e).
    { apply (fmul_cancel_l F z); [exact Hz|]. rewrite H1. unfold phi1, phi0. field. exact Hz. }
    assert (E2 : q2 = phi2 z e).
    { apply (fmul_cancel_l F z); [exact Hz|]. rewrite H2, E1. unfold phi2. field. exact Hz. }
    assert (E3 : q3 = phi3 z e).
    { apply (fmul_cancel_l F z); [exact Hz|]. rewrite H3, E2. unfold phi3. cbn [fz fpos]. field. nz. }
    repeat split; assumption.
  Qed.

  (* at z = 0, e = 1 the recurrences are satisfied by the values 1/k! (they no longer determine them: that the
     coefficient functions extend continuously with these values is analysis, see Props/C19.v) *)
  Lemma phi_recurrence_at_zero :
    (0 : F) * phi1_0 F = 1 - 1 /\ (0 : F) * phi2_0 F = phi1_0 F - 1 /\ (0 : F) * phi3_0 F = phi2_0 F - 1 / fz 2.
  Proof. unfold phi1_0, phi2_0, phi3_0. repeat split; field; nz. Qed.

  (* with E = Eh = 1 and the tableau weights evaluated at phi_k = 1/k!, the stage programs of the code are the
     classical Runge-Kutta methods of the same order *)
  Section RKlimit.
    Variable I : Type.
    Variable h : F.
    Variable N : (I -> F) -> (I -> F).
    Hypothesis N_ext : forall u v, (forall k, u k = v k) -> forall k, N u k = N v k.
    Let one : I -> F := fun _ => 1.
    Let cst (x : F) : I -> F := fun _ => h * x.
    Let p1 := phi1_0 F. Let p2 := phi2_0 F. Let p3 := phi3_0 F.

    Ltac nrw v H tac :=
      match goal with
      | |- context [N ?g _] =>
          lazymatch g with v => fail | _ => idtac end;
          assert (H : forall j', N g j' = N v j') by (apply N_ext; intros ?; tac);
          rewrite ?H
      end.
    Ltac unf := unfold cst, one, p1, p2, p3, phi1_0, phi2_0, phi3_0; cbn [fz fpos].

    Lemma step0_one (u : I -> F) k : etdrk0_step F one u k = u k.
    Proof. unfold etdrk0_step, one. ring. Qed.

    Lemma step1_rk u k : etdrk1_step F one (cst p1) N u k = rk1 F h N u k.
    Proof. unfold etdrk1_step, rk1. unf. ring. Qed.

    Lemma step2_rk u k : etdrk2_step F one (cst p1) (cst p2) N u k = rk2 F h N u k.
    Proof.
      unfold etdrk2_step, rk2. cbv beta zeta.
      set (a := fun k0 : I => u k0 + h * N u k0).
      nrw a Ha ltac:(unfold a; unf; ring).
      unf. field. nz.
    Qed.

    Lemma step3_rk u k :
      etdrk3_step F one one (cst (p1 / fz 2)) (cst p1) (cst (p1 - fz 3 * p2 + fz 4 * p3)) (cst (fz 4 * p2 - fz 8 * p3))
        (cst (- p2 + fz 4 * p3)) N u k = rk3 F h N u k.
    Proof.
      unfold etdrk3_step, rk3. cbv beta zeta.
      set (a := fun k0 : I => u k0 + h / fz 2 * N u k0).
      nrw a Ha ltac:(unfold a; unf; field; nz).
      set (b := fun k0 : I => u k0 + h * (fz 2 * N a k0 - N u k0)).
      nrw b Hb ltac:(unfold b; rewrite ?Ha; unf; ring).
      unf. field. nz.
    Qed.

    Lemma step4_rk u k :
      etdrk4_step F one one (cst (p1 / fz 2)) (cst (p1 / fz 2)) (cst (p1 / fz 2)) (cst (p1 - fz 3 * p2 + fz 4 * p3))
        (cst ((fz 2 * p2 - fz 4 * p3) / fz 2)) (cst (- p2 + fz 4 * p3)) N u k = rk4 F h N u k.
    Proof.
      unfold etdrk4_step, rk4. cbv beta zeta.
      set (a := fun k0 : I => u k0 + h / fz 2 * N u k0).
      nrw a Ha ltac:(unfold a; unf; field; nz).
      set (b := fun k0 : I => u k0 + h / fz 2 * N a k0).
      nrw b Hb ltac:(unfold b; rewrite ?Ha; unf; field; nz).
      set (c := fun k0 : I => u k0 + h * N b k0).
      nrw c Hc ltac:(unfold c; rewrite ?Ha, ?Hb; unf; field; nz).
      unf. field. nz.
    Qed.
  End RKlimit.

  (* the M-point contour mean reproduces the value at the centre of every polynomial of degree < M exactly
     (so only the Taylor tail of order >= M of the integrands contributes to the quadrature error at lambda = 0) *)
  Section Mean.
    Variable M : nat.
    Variables r s w : F.
    Hypothesis M_pos : (0 < M)%nat.
    Hypothesis w_M : fpow w M = 1.
    Hypothesis w_prim : forall m, (0 < m < M)%nat -> fpow w m <> 1.

    Lemma mean_monomial m : (m < M)%nat ->
      contour_mean F M r s w (fun x => fpow x m) = if (m =? 0)%nat then 1 else 0.
    Proof.
      intros Hm. unfold contour_mean, contour_pt.
      rewrite (bsum_ext F M _ (fun j => fpow (r * s) m * fpow w (j * m))).
      2:{ intros j _. rewrite (fpow_mul F w j m). rewrite <- fpow_mul_base. f_equal. ring. }
      rewrite bsum_scal, (orthogonality F M w M_pos w_M w_prim m).
      pose proof (n_nz F M M_pos) as HM.
      rewrite Nat.mod_small by exact Hm.
      destruct (Nat.eqb_spec m 0) as [->|Hne].
      - cbn [fpow]. field. exact HM.
      - field. exact HM.
    Qed.

    Lemma mean_poly n (a : nat -> F) : (n <= M)%nat -> (0 < n)%nat ->
      contour_mean F M r s w (poly F n a) = a 0%nat.
    Proof.
      intros Hn Hpos. unfold contour_mean, poly.
      pose proof (n_nz F M M_pos) as HM.
      rewrite bsum_swap.
      rewrite (bsum_ext F n _ (fun m => a m * (contour_mean F M r s w (fun x => fpow x m) * fz (Z.of_nat M)))).
      2:{ intros m Hm. rewrite bsum_scal. unfold contour_mean. f_equal. field. exact HM. }
      rewrite (bsum_single F n 0%nat).
      - rewrite mean_monomial by lia. cbn [Nat.eqb]. field. exact HM.
      - exact Hpos.
      - intros m Hm Hne. rewrite mean_monomial by lia.
        destruct (Nat.eqb_spec m 0); [contradiction | ring].
    Qed.
  End Mean.
End LambdaZero.

(* ------------------------------------------------------------------------------------------------ *)
(* statements about the generated lr / Ldt definitions                                               *)
Section GenLr.
  Variable F : FieldT.
  Add Field Fl : (fth F).

  Lemma lr_zero_even (z r w : F) n : fpow w (2 * n) = - (1) -> z + r * w = 0 -> fpow z (2 * n) = - fpow r (2 * n).
  Proof. intros Hw H. rewrite (lr_zero_only_if F z r w (2 * n) H), Hw, fpow_opp_even. ring. Qed.

  Lemma gen_lr_eq (dt lam r w : F) :
    etdrk1_lr F r w (etdrk1_Ldt F dt lam) = lam * dt + r * w /\ etdrk2_lr F r w (etdrk2_Ldt F dt lam) = lam * dt + r * w
    /\ etdrk3_lr F r w (etdrk3_Ldt F dt lam) = lam * dt + r * w /\ etdrk4_lr F r w (etdrk4_Ldt F dt lam) = lam * dt + r * w.
  Proof.
    unfold etdrk1_lr, etdrk2_lr, etdrk3_lr, etdrk4_lr, etdrk1_Ldt, etdrk2_Ldt, etdrk3_Ldt, etdrk4_Ldt.
    repeat split; ring.
  Qed.
End GenLr.

Section GenLrAxes.
  Variable F : FieldT.
  Hypothesis FR : FormallyReal F.
  Notation C := (CField FR).
  Variables dt lam r w : C.
  Hypothesis dt_real : im (dt : cx F) = 0.
  Hypothesis r_real : im (r : cx F) = 0.
  Hypothesis r_nz : r <> 0.

  Let all_lr_nz : Prop :=
    etdrk1_lr C r w (etdrk1_Ldt C dt lam) <> 0 /\ etdrk2_lr C r w (etdrk2_Ldt C dt lam) <> 0
    /\ etdrk3_lr C r w (etdrk3_Ldt C dt lam) <> 0 /\ etdrk4_lr C r w (etdrk4_Ldt C dt lam) <> 0.

  Lemma gen_lr_nonzero_real n : im (lam : cx F) = 0 -> fpow w (2 * n) = - (1) -> all_lr_nz.
  Proof.
    intros Hlam Hw. unfold all_lr_nz.
    destruct (gen_lr_eq C dt lam r w) as (E1 & E2 & E3 & E4). rewrite E1, E2, E3, E4.
    assert (H : lam * dt + r * w <> 0).
    { apply (contour_den_nonzero_real F FR _ r w n); try assumption. apply Ldt_real; assumption. }
    repeat split; exact H.
  Qed.

  Lemma gen_lr_nonzero_imag n : re (lam : cx F) = 0 -> fpow w (4 * n) = - (1) -> all_lr_nz.
  Proof.
    intros Hlam Hw. unfold all_lr_nz.
    destruct (gen_lr_eq C dt lam r w) as (E1 & E2 & E3 & E4). rewrite E1, E2, E3, E4.
    assert (H : lam * dt + r * w <> 0).
    { apply (contour_den_nonzero_imag F FR _ r w n); try assumption. apply Ldt_imag; assumption. }
    repeat split; exact H.
  Qed.

  (* end to end: on the two axes every coefficient integrand of every order is evaluated without dividing by zero *)
  Lemma coefficients_defined_on_axes n (e eh : C) :
    (im (lam : cx F) = 0 /\ fpow w (2 * n) = - (1)) \/ (re (lam : cx F) = 0 /\ fpow w (4 * n) = - (1)) ->
    let lr := etdrk4_lr C r w (etdrk4_Ldt C dt lam) in
    map (fun g => g (Some lr) (Some e) (Some eh)) (all_integrands (OptOps C))
    = map (fun g => Some (g lr e eh)) (all_integrands C).
  Proof.
    intros H lr. apply integrands_defined. subst lr.
    destruct H as [[H1 H2]|[H1 H2]].
    - apply (gen_lr_nonzero_real n H1 H2).
    - apply (gen_lr_nonzero_imag n H1 H2).
  Qed.
End GenLrAxes.

(* ------------------------------------------------------------------------------------------------ *)
(* the generated contour points are M-th roots of -1 (for any exponential with exp(i pi) = -1)      *)
Section HalfShift.
  Variable F : FieldT.
  Add Field Fm : (fth F).
  Variable cexp : F -> F.
  Hypothesis cexp_add : forall a b, cexp (a + b) = cexp a * cexp b.
  Hypothesis cexp_0 : cexp 0 = 1.
  Variables ii pi : F.
  Hypothesis euler : cexp (ii * pi) = - (1).

  Lemma fz_succ n : @fz F (Z.of_nat (S n)) = 1 + fz (Z.of_nat n).
  Proof. rewrite Nat2Z.inj_succ. unfold Z.succ. rewrite fz_add. cbn [fz fpos]. ring. Qed.

  Lemma cexp_nat n x : fpow (cexp x) n = cexp (fz (Z.of_nat n) * x).
  Proof.
    induction n as [|n IH].
    - cbn [fpow Z.of_nat fz]. replace (0 * x) with (0 : F) by ring. symmetry. exact cexp_0.
    - cbn [fpow]. rewrite IH, <- cexp_add. f_equal. rewrite fz_succ. ring.
  Qed.

  Lemma fpow_neg1_odd n : fpow (- (1) : F) (2 * n + 1) = - (1).
  Proof.
    rewrite fpow_add, fpow_mul. cbn [fpow]. replace (- (1) * (- (1) * 1)) with (1 : F) by ring.
    rewrite fpow_1. ring.
  Qed.

  Lemma roots_half_shifted (j M : nat) : (0 < M)%nat -> (1 <= j)%nat ->
    fpow (cexp (root_arg F ii pi (fz (Z.of_nat j)) (fz (Z.of_nat M)))) M = - (1).
  Proof.
    intros HM Hj. rewrite cexp_nat.
    assert (HMnz : @fz F (Z.of_nat M) <> 0) by (apply fz_neq0; lia).
    replace (fz (Z.of_nat M) * root_arg F ii pi (fz (Z.of_nat j)) (fz (Z.of_nat M)))
      with (fz (Z.of_nat (2 * (j - 1) + 1)) * (ii * pi)).
    - rewrite <- cexp_nat, euler. apply fpow_neg1_odd.
    - replace (Z.of_nat (2 * (j - 1) + 1)) with (2 * Z.of_nat j - 1)%Z by lia.
      rewrite fz_sub, fz_mul. unfold root_arg, fq. cbn [fz fpos Qnum Qden]. field.
      split; [exact (two_neq0 F) | exact HMnz].
  Qed.
End HalfShift.
