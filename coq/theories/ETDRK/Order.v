(* Order conditions satisfied by the phi-tableaux of ETDRK/Phi.v (hence, through Tie/ETDRKTie.v, by the code):
   the weights telescope to phi_1 (stiff order 1), sum b_i c_i = phi_2 (stiff order 2), and every internal
   stage row sums to c_i phi_1(c_i z). *)
From Coq Require Import ZArith QArith List Bool Field Ring.
From EXV Require Import Base.Scalar Base.FieldLemmas ETDRK.Phi.
Local Open Scope fld_scope.

Section Order.
  Variable F : FieldT.
  Add Field Ff : (fth F).
  Variables z e eh : F.
  Hypothesis z_nz : z <> 0.
  Let p1 := phi1 z e. Let p2 := phi2 z e. Let p3 := phi3 z e.
  Let two_nz : @fz F 2 <> 0. Proof. apply fz_neq0. discriminate. Qed.

  (* weights: b_1 + ... + b_s = phi_1 *)
  Lemma etd2_weights : (p1 - p2) + p2 = p1.
  Proof. ring. Qed.
  Lemma etd3_weights : (p1 - fz 3 * p2 + fz 4 * p3) + (fz 4 * p2 - fz 8 * p3) + (- p2 + fz 4 * p3) = p1.
  Proof. cbn [fz fpos]. ring. Qed.
  Lemma etd4_weights :
    (p1 - fz 3 * p2 + fz 4 * p3) + (fz 2 * p2 - fz 4 * p3) + (fz 2 * p2 - fz 4 * p3) + (- p2 + fz 4 * p3) = p1.
  Proof. cbn [fz fpos]. ring. Qed.

  (* sum b_i c_i = phi_2, nodes c = (0,1), (0,1/2,1), (0,1/2,1/2,1) *)
  Lemma etd2_bc : p2 * 1 = p2.
  Proof. ring. Qed.
  Lemma etd3_bc : (fz 4 * p2 - fz 8 * p3) / fz 2 + (- p2 + fz 4 * p3) * 1 = p2.
  Proof. cbn [fz fpos]. field. exact (two_neq0 F). Qed.
  Lemma etd4_bc : (fz 2 * p2 - fz 4 * p3) / fz 2 + (fz 2 * p2 - fz 4 * p3) / fz 2 + (- p2 + fz 4 * p3) * 1 = p2.
  Proof. cbn [fz fpos]. field. exact (two_neq0 F). Qed.

  (* internal stages: row sums are c_i * phi_1(c_i z) *)
  Lemma etd3_row3 : - p1 + fz 2 * p1 = 1 * p1.
  Proof. cbn [fz fpos]. ring. Qed.
  (* ETD4RK third stage c = Eh*a + (phi1(z/2)/2) (2 N(b) - N(u)), a = Eh*u + (phi1(z/2)/2) N(u):
     coefficients of N(u), N(a), N(b) are  Eh*q - q, 0, 2q  with q = phi1(z/2)/2; they sum to phi_1(z) when e = eh^2 *)
  Lemma etd4_row4 : e = eh * eh ->
    let q := phi1 (half z) eh / fz 2 in (eh * q - q) + 0 + fz 2 * q = 1 * p1.
  Proof.
    intros He. subst p1. unfold phi1, phi0, half. rewrite He. cbn [fz fpos]. field.
    split; [exact z_nz | exact (two_neq0 F)].
  Qed.

  (* the recurrence phi_{k+1} = (phi_k - 1/k!)/z in closed form *)
  Lemma phi_closed_forms :
    p1 = (e - 1) / z /\ p2 = (e - 1 - z) / (z * z) /\ p3 = (e - 1 - z - z * z / fz 2) / (z * z * z).
  Proof.
    subst p1 p2 p3. unfold phi3, phi2, phi1, phi0. cbn [fz fpos].
    repeat split; field; repeat split; try exact z_nz; exact (two_neq0 F).
  Qed.
End Order.
