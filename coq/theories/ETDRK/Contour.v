(* C19 model: what the Kassam-Trefethen contour evaluation of the ETDRK coefficients divides by, and what the stage
   programs do to the zero state.  Mirrors exponax/etdrk/_etdrk_{1,2,3,4}.py:
     roots = exp(2 pi i (j - 1/2)/M), j = 1..M        (_utils.roots_of_unity; half-shifted roots: w_j^M = -1)
     lr    = circle_radius * root + L_dt               (scan_body; Gen.etdrk{p}_lr)
     c_j   = dt * mean_j  numerator_j(lr, exp lr, exp(lr/2)) / lr^m    (Gen.etdrk{p}_integrand_j)
   The integrands and the stage programs themselves are NOT re-written here: they are the generated Gen/ETDRK.v.
   This file only adds (1) the numerators / exponents the closed forms are claimed to have, (2) a partial-division
   lifting [OptOps] of any scalar structure in which x / 0 is an error, so that "no division by zero happens" is a
   statement about the generated code run in that structure, (3) the classical Runge-Kutta schemes the ETD tableaux
   must reduce to at lambda = 0, written from the textbook (Hairer-Norsett-Wanner I, II.1), (4) the discrete contour mean.
   Contracts assumed of JAX: jnp.exp is total; complex division x / y is an IEEE operation that yields nan/inf only
   for y = 0 or on overflow (the latter is outside an exact model and decided by harness/props/c19.py). *)
From Coq Require Import ZArith QArith List Bool.
From EXV Require Import Base.Scalar Base.Cplx DFT.DFT1 Gen.ETDRK.
Import ListNotations.
Local Open Scope fld_scope.

(* ---- (2) scalars with an error value: division by zero (and anything computed from an error) is None ---- *)
Section OptOps.
  Variable K : Ops.
  Definition lift1 (f : K -> K) (a : option K) : option K := match a with Some x => Some (f x) | None => None end.
  Definition lift2 (f : K -> K -> K) (a b : option K) : option K :=
    match a, b with Some x, Some y => Some (f x y) | _, _ => None end.
  Definition odiv_opt (a b : option K) : option K :=
    match a, b with Some x, Some y => if oeqb y 0 then None else Some (x / y) | _, _ => None end.
  Definition oinv_opt (a : option K) : option K :=
    match a with Some y => if oeqb y 0 then None else Some (oinv y) | None => None end.
  Definition oeqb_opt (a b : option K) : bool :=
    match a, b with Some x, Some y => oeqb x y | None, None => true | _, _ => false end.
  Definition OptOps : Ops :=
    mkOps (Some 0) (Some 1) (lift2 oadd) (lift2 omul) (lift2 osub) (lift1 oopp) odiv_opt oinv_opt oeqb_opt.
End OptOps.

Section Contour.
  Variable K : Ops.

  (* ---- (1) numerators of the closed forms; the integrand is numerator * (1/lr)^m ---- *)
  Definition num_e1 (lr e : K) : K := e - 1.                                            (* m = 1 *)
  Definition num_e2 (lr e : K) : K := e - 1 - lr.                                       (* m = 2 *)
  Definition num_a3 (lr e : K) : K := fz (-4) - lr + e * (fz 4 - fz 3 * lr + lr * lr).  (* m = 3 *)
  Definition num_b3 (lr e : K) : K := fz 2 + lr + e * (fz (-2) + lr).                   (* m = 3 *)
  Definition num_c3 (lr e : K) : K := fz (-4) - fz 3 * lr - lr * lr + e * (fz 4 - lr).  (* m = 3 *)
  Definition inv_pow (lr : K) (m : nat) : K := fpow (oinv lr) m.

  (* ---- the zero state and a state-independent forcing ---- *)
  Definition zero_st (I : Type) : I -> K := fun _ => 0.
  Definition const_nl (I : Type) (f : I -> K) : (I -> K) -> (I -> K) := fun _ => f.

  (* what the stage programs make of the zero state when N(0) = f (f = 0: unforced), in terms of the coefficient arrays *)
  Section Forced.
    Variable I : Type.
    Variables Eh c1 c2 c3 c4 c5 c6 f : I -> K.
    Variable N : (I -> K) -> (I -> K).
    Definition fst_a : I -> K := fun k => c1 k * f k.                                   (* first stage, all orders *)
    Definition fst_b3 : I -> K := fun k => c2 k * (fz 2 * N fst_a k - f k).             (* ETDRK3 second stage *)
    Definition fst_b4 : I -> K := fun k => c2 k * N fst_a k.                            (* ETDRK4 second stage *)
    Definition fst_c4 : I -> K := fun k => Eh k * (c1 k * f k) + c3 k * (fz 2 * N fst_b4 k - f k).   (* ETDRK4 third stage *)
    Definition forced1 : I -> K := fun k => c1 k * f k.
    Definition forced2 : I -> K := fun k => c1 k * f k + c2 k * (N fst_a k - f k).
    Definition forced3 : I -> K := fun k => c3 k * f k + c4 k * N fst_a k + c5 k * N fst_b3 k.
    Definition forced4 : I -> K := fun k => c4 k * f k + c5 k * fz 2 * (N fst_a k + N fst_b4 k) + c6 k * N fst_c4 k.
  End Forced.

  (* ---- (3) classical explicit Runge-Kutta schemes for u' = N(u), step h ---- *)
  Section RK.
    Variable I : Type.
    Variable h : K.
    Variable N : (I -> K) -> (I -> K).
    (* forward Euler *)
    Definition rk1 (u : I -> K) : I -> K := fun k => u k + h * N u k.
    (* Heun's second-order method (explicit trapezoidal rule) *)
    Definition rk2 (u : I -> K) : I -> K :=
      let a := fun k => u k + h * N u k in
      fun k => u k + h / fz 2 * (N u k + N a k).
    (* Kutta's third-order method: c = (0,1/2,1), a31 = -1, a32 = 2, b = (1/6, 2/3, 1/6) *)
    Definition rk3 (u : I -> K) : I -> K :=
      let a := fun k => u k + h / fz 2 * N u k in
      let b := fun k => u k + h * (fz 2 * N a k - N u k) in
      fun k => u k + h / fz 6 * (N u k + fz 4 * N a k + N b k).
    (* the classical fourth-order method: b = (1/6, 1/3, 1/3, 1/6) *)
    Definition rk4 (u : I -> K) : I -> K :=
      let a := fun k => u k + h / fz 2 * N u k in
      let b := fun k => u k + h / fz 2 * N a k in
      let c := fun k => u k + h * N b k in
      fun k => u k + h / fz 6 * (N u k + fz 2 * N a k + fz 2 * N b k + N c k).
  End RK.

  (* phi_k(0) = 1/k! *)
  Definition phi1_0 : K := 1.
  Definition phi2_0 : K := 1 / fz 2.
  Definition phi3_0 : K := 1 / fz 6.

  (* ---- (4) the contour mean over M points w_j = s * w^j (w a primitive M-th root of unity, s the half shift) ---- *)
  Definition contour_pt (r s w : K) (j : nat) : K := r * (s * fpow w j).
  Definition contour_mean (M : nat) (r s w : K) (g : K -> K) : K :=
    bsum M (fun j => g (contour_pt r s w j)) / fz (Z.of_nat M).
  (* polynomial sum_{m < n} a_m x^m *)
  Definition poly (n : nat) (a : nat -> K) (x : K) : K := bsum n (fun m => a m * fpow x m).
End Contour.

Arguments forced1 K {I}. Arguments forced2 K {I}. Arguments forced3 K {I}. Arguments forced4 K {I}.
Arguments fst_a K {I}. Arguments fst_b3 K {I}. Arguments fst_b4 K {I}. Arguments fst_c4 K {I}.
Arguments zero_st K {I}. Arguments const_nl K {I}.
Arguments rk1 K {I}. Arguments rk2 K {I}. Arguments rk3 K {I}. Arguments rk4 K {I}.

(* the fourteen coefficient integrands of Gen/ETDRK.v, in the order (p, j) = (1,1) (2,1) (2,2) (3,1..5) (4,1..6) *)
Definition all_integrands (Kx : Ops) : list (Kx -> Kx -> Kx -> Kx) :=
  [etdrk1_integrand_1 Kx; etdrk2_integrand_1 Kx; etdrk2_integrand_2 Kx; etdrk3_integrand_1 Kx; etdrk3_integrand_2 Kx;
   etdrk3_integrand_3 Kx; etdrk3_integrand_4 Kx; etdrk3_integrand_5 Kx; etdrk4_integrand_1 Kx; etdrk4_integrand_2 Kx;
   etdrk4_integrand_3 Kx; etdrk4_integrand_4 Kx; etdrk4_integrand_5 Kx; etdrk4_integrand_6 Kx].
