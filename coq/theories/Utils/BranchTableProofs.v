From Coq Require Import String List Bool.
From EXV Require Import Utils.BranchTable.
Import ListNotations.

Lemma call_static_sound (tbl : list branch) :
  forallb call_static tbl = true -> forall b, In b tbl -> b_call b = true -> b_vd b = false.
Proof.
  intros H b Hb Hc. rewrite forallb_forall in H. specialize (H b Hb).
  unfold call_static in H. rewrite Hc in H. destruct (b_vd b); [discriminate | reflexivity].
Qed.

Lemma ctor_guarded_sound (tbl : list branch) :
  forallb ctor_guarded tbl = true ->
  forall b, In b tbl -> b_call b = false -> b_vd b = true -> b_guarded b = true.
Proof.
  intros H b Hb Hc Hv. rewrite forallb_forall in H. specialize (H b Hb).
  unfold ctor_guarded in H. rewrite Hc, Hv in H. exact H.
Qed.

Lemma covered_sound (tbl : list branch) (call : bool) (cs : list string) :
  forallb (covered tbl call) cs = true ->
  forall c, In c cs -> exists b, In b tbl /\ b_cls b = c /\ b_call b = call.
Proof.
  intros H c Hc. rewrite forallb_forall in H. specialize (H c Hc).
  unfold covered in H. apply existsb_exists in H. destruct H as [b [Hb E]].
  apply andb_true_iff in E. destruct E as [E1 E2].
  exists b. split; [exact Hb|]. split; [apply String.eqb_eq; exact E1 | apply Bool.eqb_prop; exact E2].
Qed.

Lemma triple_table_sound (tbl : list branch) :
  forallb call_static tbl = true ->
  forall c l v, In (c, l, v) (map triple_of (filter b_call tbl)) -> v = false.
Proof.
  intros H c l v Hin. apply in_map_iff in Hin. destruct Hin as [b [E Hb]].
  apply filter_In in Hb. destruct Hb as [Hb Hc].
  unfold triple_of in E. inversion E; subst. apply (call_static_sound tbl H b Hb Hc).
Qed.
