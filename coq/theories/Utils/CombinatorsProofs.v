From Coq Require Import List Arith Bool Lia.
From EXV Require Import Utils.Rollout Utils.RolloutProofs Utils.Combinators.
Import ListNotations.
Set Implicit Arguments.

(* ---------------------------------------------------------------------------------------- *)
Section TransposeLemmas.
  Variable A : Type.

  Lemma zip_cons_map X (g : X -> A) (h : X -> list A) (xs : list X) :
    zip_cons (map g xs) (map h xs) = map (fun x => g x :: h x) xs.
  Proof. induction xs as [|x xs IH]; [reflexivity|]. cbn. rewrite IH. reflexivity. Qed.

  (* the transposition lemma behind every "axes exchanged" statement: a table whose row k is
     [map (g k) xs] has as its columns the lists [map (fun k => g k x) ks] *)
  Lemma transpose_rows_of_map X K (g : K -> X -> A) (xs : list X) (ks : list K) :
    transpose (length xs) (map (fun k => map (g k) xs) ks) = map (fun x => map (fun k => g k x) ks) xs.
  Proof.
    induction ks as [|k ks IH]; cbn [map transpose].
    - induction xs as [|x xs IHx]; [reflexivity|]. cbn. rewrite IHx. reflexivity.
    - rewrite IH. apply zip_cons_map.
  Qed.

  Lemma zip_cons_nth_error (r : list A) cols j :
    nth_error (zip_cons r cols) j =
    match nth_error r j, nth_error cols j with Some x, Some c => Some (x :: c) | _, _ => None end.
  Proof.
    revert cols j. induction r as [|x r IH]; intros cols j.
    - cbn. destruct j; reflexivity.
    - destruct cols as [|c cols].
      + cbn. destruct j; cbn; [reflexivity|]. destruct (nth_error r j); destruct j; reflexivity.
      + destruct j; cbn; [reflexivity|]. apply IH.
  Qed.

  Lemma zip_cons_length (r : list A) cols : length (zip_cons r cols) = Nat.min (length r) (length cols).
  Proof.
    revert cols. induction r as [|x r IH]; intros cols; [reflexivity|].
    destruct cols; [reflexivity|]. cbn. rewrite IH. reflexivity.
  Qed.

  Lemma transpose_length w (rows : list (list A)) :
    Forall (fun r => length r = w) rows -> length (transpose w rows) = w.
  Proof.
    induction 1 as [|r rows Hr _ IH]; cbn [transpose].
    - apply repeat_length.
    - rewrite zip_cons_length, IH, Hr. apply Nat.min_id.
  Qed.

  Lemma nth_error_nil_none X (j : nat) : nth_error (@nil X) j = None.
  Proof. destruct j; reflexivity. Qed.

  (* entry (j, t) of the transpose is entry (t, j) of the table *)
  Lemma transpose_at2 w (rows : list (list A)) j t :
    Forall (fun r => length r = w) rows -> at2 (transpose w rows) j t = at2 rows t j.
  Proof.
    intros H. revert t. induction H as [|r rows Hr Hrows IH]; intros t.
    - unfold at2. cbn [transpose]. rewrite (nth_error_nil_none (list A) t).
      destruct (nth_error (repeat [] w) j) as [c|] eqn:E; [|reflexivity].
      apply nth_error_In in E. apply List.repeat_spec in E. subst c. apply (nth_error_nil_none A).
    - pose proof (transpose_length Hrows) as Hl.
      assert (L : at2 (transpose w (r :: rows)) j t =
                  match nth_error r j, nth_error (transpose w rows) j with
                  | Some x, Some c => nth_error (x :: c) t | _, _ => None end).
      { unfold at2. cbn [transpose]. rewrite zip_cons_nth_error.
        destruct (nth_error r j); [destruct (nth_error (transpose w rows) j)|]; reflexivity. }
      rewrite L. clear L.
      destruct (nth_error r j) as [x|] eqn:Er.
      + assert (Hj : j < w) by (rewrite <- Hr; apply nth_error_Some; congruence).
        destruct (nth_error (transpose w rows) j) as [c|] eqn:Ec.
        2:{ apply nth_error_None in Ec. lia. }
        destruct t as [|t]; cbn [nth_error].
        * unfold at2. cbn [nth_error]. symmetry. exact Er.
        * change (at2 (r :: rows) (S t) j) with (at2 rows t j). rewrite <- IH. unfold at2. rewrite Ec. reflexivity.
      + assert (Hj : w <= j) by (rewrite <- Hr; apply nth_error_None; exact Er).
        destruct t as [|t].
        * unfold at2. cbn [nth_error]. symmetry. exact Er.
        * change (at2 (r :: rows) (S t) j) with (at2 rows t j). rewrite <- IH. unfold at2.
          assert (Ec : nth_error (transpose w rows) j = None) by (apply nth_error_None; lia).
          rewrite Ec. reflexivity.
  Qed.
End TransposeLemmas.

(* ---------------------------------------------------------------------------------------- *)
Section VmapLaws.
  Variables A B : Type.

  (* (a) batch independence *)
  Lemma vmap_nth (f : A -> B) us i : nth_error (vmap f us) i = option_map f (nth_error us i).
  Proof. unfold vmap. apply nth_error_map. Qed.

  Lemma vmap_length (f : A -> B) us : length (vmap f us) = length us.
  Proof. apply map_length. Qed.

  Lemma vmap_member_only (f : A -> B) us vs i :
    nth_error us i = nth_error vs i -> nth_error (vmap f us) i = nth_error (vmap f vs) i.
  Proof. intros H. rewrite !vmap_nth, H. reflexivity. Qed.

  Lemma vmap_upd (f : A -> B) i x us : vmap f (upd i x us) = upd i (f x) (vmap f us).
  Proof.
    unfold vmap. revert i. induction us as [|u us IH]; intros i; [destruct i; reflexivity|].
    destruct i; cbn; [reflexivity|]. rewrite IH. reflexivity.
  Qed.

  Lemma upd_nth_other (i j : nat) (x : A) us : i <> j -> nth_error (upd i x us) j = nth_error us j.
  Proof.
    revert i j. induction us as [|u us IH]; intros i j H; [destruct i; reflexivity|].
    destruct i, j; cbn; try reflexivity; [lia|]. apply IH. lia.
  Qed.

  Lemma upd_nth_same (i : nat) (x : A) us : i < length us -> nth_error (upd i x us) i = Some x.
  Proof.
    revert i. induction us as [|u us IH]; intros i H; [cbn in H; lia|].
    destruct i; cbn; [reflexivity|]. apply IH. cbn in H. lia.
  Qed.
End VmapLaws.

Section VmapRollout.
  Variable A : Type.

  Lemma iter_vmap (f : A -> A) k us : iter k (vmap f) us = vmap (iter k f) us.
  Proof.
    unfold vmap. induction k as [|k IH]; cbn [iter].
    - symmetry. apply map_id.
    - rewrite IH, map_map. reflexivity.
  Qed.

  Lemma rollout_vmap_unfold (f : A -> A) n us :
    rollout (vmap f) n false us = map (fun k => map (iter (S k) f) us) (seq 0 n).
  Proof. rewrite rollout_unfold. apply map_ext. intros k. apply (iter_vmap f (S k)). Qed.

  (* (b) mapping a rollout = rolling out the mapped stepper, batch and time axes exchanged *)
  Lemma rollout_vmap_commute (f : A -> A) n (b : bool) us :
    vmap (rollout f n b) us = transpose (length us) (rollout (vmap f) n b us).
  Proof.
    assert (E : vmap (rollout f n false) us = transpose (length us) (rollout (vmap f) n false us)).
    { rewrite rollout_vmap_unfold, (transpose_rows_of_map (fun k u => iter (S k) f u)).
      unfold vmap. apply map_ext. intros u. apply rollout_unfold. }
    destruct b; [|exact E].
    rewrite rollout_init. cbn [transpose]. rewrite <- E. unfold vmap.
    rewrite <- (map_id us) at 2. rewrite zip_cons_map. apply map_ext. intros u. apply rollout_init.
  Qed.

  Lemma rollout_vmap_rows (f : A -> A) n (b : bool) us :
    Forall (fun r => length r = length us) (rollout (vmap f) n b us).
  Proof.
    assert (E : Forall (fun r => length r = length us) (rollout (vmap f) n false us)).
    { rewrite rollout_vmap_unfold. apply Forall_forall. intros r Hr.
      apply in_map_iff in Hr. destruct Hr as [k [<- _]]. apply map_length. }
    destruct b; [|exact E]. rewrite rollout_init. constructor; [reflexivity | exact E].
  Qed.

  (* the same statement entry by entry: member j at time t on the left is time t, member j on the right *)
  Lemma rollout_vmap_entry (f : A -> A) n (b : bool) us j t :
    at2 (vmap (rollout f n b) us) j t = at2 (rollout (vmap f) n b us) t j.
  Proof. rewrite rollout_vmap_commute. apply transpose_at2. apply rollout_vmap_rows. Qed.

  (* every entry of the batched rollout depends only on its own member *)
  Lemma rollout_vmap_member (f : A -> A) n us t j :
    t < n -> at2 (rollout (vmap f) n false us) t j = option_map (iter (S t) f) (nth_error us j).
  Proof.
    intros Ht. unfold at2. rewrite rollout_nth by exact Ht.
    rewrite (iter_vmap f (S t)). apply vmap_nth.
  Qed.

  (* (c) the same for repeat (no time axis is produced, so no transposition) *)
  Lemma repeat_vmap_commute (f : A -> A) n us : vmap (repeat_fn f n) us = repeat_fn (vmap f) n us.
  Proof.
    rewrite repeat_spec, iter_vmap. unfold vmap. apply map_ext. intros u. apply repeat_spec.
  Qed.
End VmapRollout.

(* ---------------------------------------------------------------------------------------- *)
Section Family.
  Variables A P : Type.

  (* (d) a batch of steppers over a parameter grid = the one-at-a-time steppers *)
  Lemma family_apply_spec (step : P -> A -> A) ps u : family_apply step ps u = map (fun p => step p u) ps.
  Proof. unfold family_apply. apply map_map. Qed.

  Lemma family_apply_nth (step : P -> A -> A) ps u i :
    nth_error (family_apply step ps u) i = option_map (fun p => step p u) (nth_error ps i).
  Proof. rewrite family_apply_spec. apply nth_error_map. Qed.

  Lemma vmap2_nth B (f : P -> A -> B) ps us i :
    nth_error (vmap2 f ps us) i =
    match nth_error ps i, nth_error us i with Some p, Some u => Some (f p u) | _, _ => None end.
  Proof.
    unfold vmap2. revert us i. induction ps as [|p ps IH]; intros us i.
    - cbn. destruct i; reflexivity.
    - destruct us as [|u us].
      + cbn. destruct i; cbn; [reflexivity|]. destruct (nth_error ps i); destruct i; reflexivity.
      + destruct i; cbn; [reflexivity|]. apply IH.
  Qed.

  Lemma vmap2_length B (f : P -> A -> B) ps us : length ps = length us -> length (vmap2 f ps us) = length us.
  Proof. intros H. unfold vmap2. rewrite map_length, combine_length, H. apply Nat.min_id. Qed.

  Lemma vmap2_compose B (g : P -> A -> B) (h : P -> A -> A) ps us :
    vmap2 g ps (vmap2 h ps us) = vmap2 (fun p u => g p (h p u)) ps us.
  Proof.
    unfold vmap2. revert us. induction ps as [|p ps IH]; intros us; [reflexivity|].
    destruct us as [|u us]; [reflexivity|]. cbn. rewrite IH. reflexivity.
  Qed.

  Lemma vmap2_snd ps (us : list A) : length ps = length us -> vmap2 (fun (_ : P) u => u) ps us = us.
  Proof.
    unfold vmap2. revert us. induction ps as [|p ps IH]; intros us H; destruct us as [|u us]; try discriminate; [reflexivity|].
    cbn. rewrite IH by (cbn in H; lia). reflexivity.
  Qed.

  Lemma iter_vmap2 (step : P -> A -> A) k ps us :
    length ps = length us -> iter k (vmap2 step ps) us = vmap2 (fun p u => iter k (step p) u) ps us.
  Proof.
    intros H. induction k as [|k IH]; cbn [iter].
    - symmetry. apply vmap2_snd. exact H.
    - rewrite IH. apply vmap2_compose.
  Qed.

  Lemma family_rollout_commute (step : P -> A -> A) n (b : bool) ps us :
    length ps = length us ->
    vmap2 (fun p u => rollout (step p) n b u) ps us = transpose (length us) (rollout (vmap2 step ps) n b us).
  Proof.
    intros H.
    assert (Hc : length (combine ps us) = length us) by (rewrite combine_length, H; apply Nat.min_id).
    assert (E : vmap2 (fun p u => rollout (step p) n false u) ps us
                = transpose (length us) (rollout (vmap2 step ps) n false us)).
    { rewrite rollout_unfold.
      rewrite (map_ext (fun k => iter (S k) (vmap2 step ps) us)
                       (fun k => map (fun pu => iter (S k) (step (fst pu)) (snd pu)) (combine ps us)))
        by (intros k; apply (iter_vmap2 step (S k)); exact H).
      rewrite <- Hc, (transpose_rows_of_map (fun k (pu : P * A) => iter (S k) (step (fst pu)) (snd pu))).
      unfold vmap2. apply map_ext. intros pu. apply rollout_unfold. }
    destruct b; [|exact E].
    rewrite rollout_init. cbn [transpose]. rewrite <- E. unfold vmap2.
    rewrite <- (vmap2_snd ps us H) at 2. unfold vmap2. rewrite zip_cons_map. apply map_ext. intros pu. apply rollout_init.
  Qed.

  Lemma family_repeat_commute (step : P -> A -> A) n ps us :
    length ps = length us ->
    vmap2 (fun p u => repeat_fn (step p) n u) ps us = repeat_fn (vmap2 step ps) n us.
  Proof.
    intros H. rewrite repeat_spec, iter_vmap2 by exact H. unfold vmap2. apply map_ext. intros pu. apply repeat_spec.
  Qed.
End Family.
