(* Data model of the generated branch table (Gen/Branches.v, written by harness/translate/branches.py).
   One record per Python-level test (`if`/`elif`/`while`/`assert`/conditional expression/comprehension filter/
   operand of a value-level `and`/`or`/`not`/concretising builtin) that is reachable from an exported stepper class:
   - [b_cls]     the exported stepper class from which it is reachable,
   - [b_loc]     "<path>:<defining class or module>.<function>:<line>: <test text>",
   - [b_call]    true when it lies on the call path (__call__/step/step_fourier, the ETDRK step_fourier methods,
                 the nonlinear functions' __call__ and what they call), false on the constructor path,
   - [b_vd]      true when the syntactic rule classifies it as value-dependent (it compares, or takes the truth value
                 of, a float-typed constructor argument or array data),
   - [b_guarded] true when every value-dependent atom of the test is preceded, in the same conjunction or in an
                 enclosing `if`, by `isinstance(<that operand>, (int, float))`: a traced value never reaches the comparison.
   No proofs in this file. *)
From Coq Require Import String List Bool.
Import ListNotations.

Record branch := mk_branch { b_cls : string; b_loc : string; b_call : bool; b_vd : bool; b_guarded : bool }.

Definition triple_of (b : branch) : string * string * bool := (b_cls b, b_loc b, b_vd b).

(* no value-dependent test on the call path *)
Definition call_static (b : branch) : bool := negb (b_call b && b_vd b).
(* a value-dependent test on the constructor path is guarded *)
Definition ctor_guarded (b : branch) : bool := b_call b || negb (b_vd b) || b_guarded b.
(* class [c] has at least one recorded test on the given path *)
Definition covered (tbl : list branch) (call : bool) (c : string) : bool :=
  existsb (fun b => String.eqb (b_cls b) c && Bool.eqb (b_call b) call) tbl.

(* The generated file stores each distinct test once and, per class, the indices of the tests reachable from it.
   A dangling index expands to a value-dependent, unguarded call-path entry, so that it cannot pass the checks. *)
Definition missing_test : string * bool * bool * bool := ("<missing test>"%string, true, true, false).
Definition expand_branches (tests : list (string * bool * bool * bool)) (class_tests : list (string * list nat)) : list branch :=
  flat_map (fun ct =>
              map (fun i => let t := nth i tests missing_test in
                            mk_branch (fst ct) (fst (fst (fst t))) (snd (fst (fst t))) (snd (fst t)) (snd t))
                  (snd ct))
           class_tests.
