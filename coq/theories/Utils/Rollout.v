(* Model of exponax/_utils.py: rollout, repeat, stack_sub_trajectories, and of the
   wrapper steppers (RepeatedStepper, ForcedStepper).  No proofs in this file.

   Contracts of the JAX primitives used by the code (modelled, not verified):
   - jax.lax.scan f init xs (length = n) threads the carry through [xs] in order and
     stacks the per-step outputs along a new leading axis; with xs = None it runs n times;
     it rejects an [xs] whose leading length is not n.
   - stacking along a new leading axis is modelled as a list (index 0 first);
     jnp.concatenate([expand_dims init 0, history], 0) is [init :: history];
     jnp.repeat (expand_dims x 0) n 0 is [repeat x n];
     jtu.tree_map applies this leafwise, so a pytree state is one value of type A.
   - jax.lax.dynamic_slice_in_dim leaf i len 0 is [firstn len (skipn i' leaf)] where the start
     index is clamped: i' = min i (length leaf - len). *)
From Coq Require Import List Arith Bool Lia.
Import ListNotations.
Set Implicit Arguments.

Section Scan.
  Variables A X Y : Type.
  Fixpoint scan (f : A -> X -> A * Y) (c : A) (xs : list X) : A * list Y :=
    match xs with
    | [] => (c, [])
    | x :: r => let '(c', y) := f c x in let '(cf, ys) := scan f c' r in (cf, y :: ys)
    end.
End Scan.

Fixpoint iter {A} (n : nat) (f : A -> A) (u : A) : A :=
  match n with O => u | S m => f (iter m f u) end.

Section Rollout.
  Variables A X : Type.

  (* takes_aux = False *)
  Definition rollout (f : A -> A) (n : nat) (include_init : bool) (u0 : A) : list A :=
    let scan_fn := fun u (_ : unit) => let u' := f u in (u', u') in
    let trj := snd (scan scan_fn u0 (repeat tt n)) in
    if include_init then u0 :: trj else trj.

  Definition repeat_fn (f : A -> A) (n : nat) (u0 : A) : A :=
    let scan_fn := fun u (_ : unit) => let u' := f u in (u', tt) in
    fst (scan scan_fn u0 (repeat tt n)).

  (* takes_aux = True.  [aux] is one value when constant_aux, a stacked sequence otherwise;
     a sequence whose length differs from n is rejected by scan (None). *)
  Inductive auxarg := AuxConst (x : X) | AuxSeq (xs : list X).

  Definition aux_seq (n : nat) (constant_aux : bool) (a : auxarg) : option (list X) :=
    match constant_aux, a with
    | true, AuxConst x => Some (repeat x n)
    | false, AuxSeq xs => if Nat.eqb (length xs) n then Some xs else None
    | _, _ => None
    end.

  Definition rollout_aux (f : A -> X -> A) (n : nat) (include_init constant_aux : bool)
             (u0 : A) (a : auxarg) : option (list A) :=
    match aux_seq n constant_aux a with
    | None => None
    | Some xs =>
        let scan_fn := fun u x => let u' := f u x in (u', u') in
        let trj := snd (scan scan_fn u0 xs) in
        Some (if include_init then u0 :: trj else trj)
    end.

  Definition repeat_aux (f : A -> X -> A) (n : nat) (constant_aux : bool)
             (u0 : A) (a : auxarg) : option A :=
    match aux_seq n constant_aux a with
    | None => None
    | Some xs =>
        let scan_fn := fun u x => let u' := f u x in (u', tt) in
        Some (fst (scan scan_fn u0 xs))
    end.

  (* stack_sub_trajectories on one leaf; the pytree version applies it leafwise after
     checking that all leaves have the same leading length. *)
  Definition dynamic_slice (l : list A) (i len : nat) : list A :=
    firstn len (skipn (Nat.min i (length l - len)) l).

  Definition stack_sub (trj : list A) (sub_len : nat) : option (list (list A)) :=
    let T := length trj in
    if Nat.ltb T sub_len then None
    else Some (map (fun i => dynamic_slice trj i sub_len) (seq 0 (T - sub_len + 1))).

  Definition all_same (l : list nat) : bool :=
    match l with [] => true | x :: r => forallb (Nat.eqb x) r end.

  Definition stack_sub_tree (leaves : list (list A)) (sub_len : nat) : option (list (list (list A))) :=
    match leaves with
    | [] => None
    | l0 :: _ =>
      if all_same (map (@length A) leaves) then
        if Nat.ltb (length l0) sub_len then None
        else Some (map (fun leaf => match stack_sub leaf sub_len with Some w => w | None => [] end) leaves)
      else None
    end.
End Rollout.

(* RepeatedStepper.step = ifft . repeat(step_fourier, n) . fft ;  ForcedStepper.step u f = step (u + dt f) *)
Section Wrappers.
  Variables S Sh : Type.            (* physical states, spectral states *)
  Variable fwd : S -> Sh. Variable bwd : Sh -> S.
  Variable step_fourier : Sh -> Sh.
  Definition base_step (u : S) : S := bwd (step_fourier (fwd u)).
  Definition repeated_step (n : nat) (u : S) : S := bwd (repeat_fn step_fourier n (fwd u)).
End Wrappers.
