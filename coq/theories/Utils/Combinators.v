(* Model of the JAX transformation combinators as they are used around exponax steppers
   (README "Vectorized batching"; exponax/_utils.py rollout/repeat; eqx.filter_jit / jax.vmap / eqx.filter_vmap
   applied to BaseStepper.__call__ and to the stepper constructors).  No proofs in this file.

   Contracts of the JAX primitives (modelled, not verified; exercised on the real code by harness/props/c06.py):
   - jax.vmap f / eqx.filter_vmap f maps f over the leading axis: a stacked batch is a list, [vmap f = map f];
     with two mapped arguments the batch members are paired position by position ([vmap2 f ps us], both of one length).
   - a batch of steppers built by eqx.filter_vmap(make)(ps) is the list [map make ps]: array leaves are stacked,
     static fields are shared.
   - jax.jit f / eqx.filter_jit f computes the same function: [jit f = f].
   - jax.lax.scan is a fold that stacks its outputs (Utils/Rollout.v: scan, rollout, repeat_fn).
   - jnp.swapaxes(x, 0, 1) of a (T, B, ...) array is [transpose B x]: entry (j, t) of the result is entry (t, j) of x;
     for T = 0 the result has shape (B, 0, ...), which is why [transpose] takes the width B. *)
From Coq Require Import List Arith Bool.
From EXV Require Import Utils.Rollout.
Import ListNotations.
Set Implicit Arguments.

Section Combinators.
  Variables A B P : Type.

  Definition vmap (f : A -> B) (us : list A) : list B := map f us.
  Definition jit (f : A -> B) : A -> B := f.

  (* two mapped arguments (in_axes = (0, 0)) *)
  Definition vmap2 (f : P -> A -> B) (ps : list P) (us : list A) : list B :=
    map (fun pu => f (fst pu) (snd pu)) (combine ps us).

  (* a batch of steppers over a parameter grid, all applied to one (broadcast) state *)
  Definition family_apply (step : P -> A -> B) (ps : list P) (u : A) : list B :=
    map (fun s => s u) (map step ps).

  (* replace member i of a batch *)
  Fixpoint upd (i : nat) (x : A) (us : list A) : list A :=
    match us, i with
    | [], _ => []
    | _ :: r, O => x :: r
    | u :: r, S j => u :: upd j x r
    end.
End Combinators.

Section Transpose.
  Variable A : Type.

  (* prepend the entries of one row to the columns collected so far *)
  Fixpoint zip_cons (r : list A) (cols : list (list A)) : list (list A) :=
    match r, cols with
    | x :: r', c :: cols' => (x :: c) :: zip_cons r' cols'
    | _, _ => []
    end.

  (* rows of width w  ->  w columns *)
  Fixpoint transpose (w : nat) (rows : list (list A)) : list (list A) :=
    match rows with
    | [] => repeat [] w
    | r :: rows' => zip_cons r (transpose w rows')
    end.

  (* entry (i, j) of a table, [None] outside *)
  Definition at2 (m : list (list A)) (i j : nat) : option A :=
    match nth_error m i with Some r => nth_error r j | None => None end.
End Transpose.
