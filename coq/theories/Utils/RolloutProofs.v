From Coq Require Import List Arith Bool Lia.
From EXV Require Import Utils.Rollout.
Import ListNotations.
Set Implicit Arguments.

Section ScanLemmas.
  Variables A X : Type.

  Lemma scan_emit_carry (f : A -> X -> A) (u : A) (xs : list X) :
    scan (fun u x => let u' := f u x in (u', u')) u xs
    = (fold_left f xs u, map (fun k => fold_left f (firstn (S k) xs) u) (seq 0 (length xs))).
  Proof.
    revert u. induction xs as [|x r IH]; intros u; [reflexivity|].
    cbn [scan fold_left length]. rewrite IH. cbn [seq map firstn fold_left].
    f_equal. f_equal. rewrite <- seq_shift, map_map. reflexivity.
  Qed.

  Lemma scan_emit_unit (f : A -> X -> A) (u : A) (xs : list X) :
    fst (scan (fun u x => let u' := f u x in (u', tt)) u xs) = fold_left f xs u.
  Proof.
    revert u. induction xs as [|x r IH]; intros u; [reflexivity|].
    cbn [scan fold_left]. specialize (IH (f u x)).
    destruct (scan (fun u0 x0 => let u' := f u0 x0 in (u', tt)) (f u x) r) as [cf ys]. exact IH.
  Qed.

  Lemma fold_left_const_iter (f : A -> A) (n : nat) (u : A) :
    fold_left (fun u (_ : unit) => f u) (repeat tt n) u = iter n f u.
  Proof.
    revert u. induction n as [|n IH]; intros u; [reflexivity|].
    cbn [repeat fold_left]. rewrite IH. clear IH.
    induction n as [|n IH]; [reflexivity|]. cbn [iter]. rewrite IH. reflexivity.
  Qed.

  Lemma firstn_repeat {B} (x : B) k n : k <= n -> firstn k (repeat x n) = repeat x k.
  Proof.
    revert n; induction k as [|k IH]; intros n H; [reflexivity|].
    destruct n; [lia|]. cbn. rewrite IH by lia. reflexivity.
  Qed.
End ScanLemmas.

Section RolloutSpec.
  Variable A : Type.

  Lemma rollout_unfold (f : A -> A) n u0 :
    rollout f n false u0 = map (fun k => iter (S k) f u0) (seq 0 n).
  Proof.
    unfold rollout.
    rewrite (scan_emit_carry (fun u (_ : unit) => f u)). cbn [snd].
    rewrite repeat_length. apply map_ext_in. intros k Hk. apply in_seq in Hk.
    rewrite firstn_repeat by lia. apply fold_left_const_iter.
  Qed.

  Theorem rollout_length f n (b : bool) (u0 : A) :
    length (rollout f n b u0) = if b then S n else n.
  Proof.
    destruct b; unfold rollout; rewrite (scan_emit_carry (fun u (_ : unit) => f u)); cbn [snd length];
      rewrite map_length, seq_length, repeat_length; reflexivity.
  Qed.

  Theorem rollout_nth f n (u0 : A) i :
    i < n -> nth_error (rollout f n false u0) i = Some (iter (S i) f u0).
  Proof.
    intros Hi. rewrite rollout_unfold.
    rewrite nth_error_map, nth_error_nth' with (d := 0) by (rewrite seq_length; exact Hi).
    rewrite seq_nth by exact Hi. reflexivity.
  Qed.

  Theorem rollout_init f n (u0 : A) : rollout f n true u0 = u0 :: rollout f n false u0.
  Proof. reflexivity. Qed.

  Theorem rollout_init_nth f n (u0 : A) i :
    i <= n -> nth_error (rollout f n true u0) i = Some (iter i f u0).
  Proof.
    intros Hi. rewrite rollout_init. destruct i as [|i]; [reflexivity|].
    cbn [nth_error]. apply rollout_nth. lia.
  Qed.

  Theorem rollout_zero f (u0 : A) : rollout f 0 false u0 = [] /\ rollout f 0 true u0 = [u0].
  Proof. split; reflexivity. Qed.

  Theorem repeat_spec f n (u0 : A) : repeat_fn f n u0 = iter n f u0.
  Proof.
    unfold repeat_fn. rewrite (scan_emit_unit (fun u (_ : unit) => f u)). apply fold_left_const_iter.
  Qed.

  Theorem repeat_is_last_of_rollout f n (u0 : A) :
    repeat_fn f n u0 = last (rollout f n true u0) u0.
  Proof.
    rewrite repeat_spec, rollout_init, rollout_unfold.
    destruct n as [|n]; [reflexivity|].
    rewrite seq_S, map_app. cbn [map Nat.add].
    change (u0 :: map (fun k => iter (S k) f u0) (seq 0 n) ++ [iter (S n) f u0])
      with ((u0 :: map (fun k => iter (S k) f u0) (seq 0 n)) ++ [iter (S n) f u0]).
    rewrite last_last. reflexivity.
  Qed.
End RolloutSpec.

Section RolloutAuxSpec.
  Variables A X : Type.

  Theorem rollout_aux_seq (f : A -> X -> A) n (b : bool) (u0 : A) (xs : list X) :
    length xs = n ->
    rollout_aux f n b false u0 (AuxSeq xs)
    = Some ((if b then [u0] else []) ++ map (fun k => fold_left f (firstn (S k) xs) u0) (seq 0 n)).
  Proof.
    intros Hl. unfold rollout_aux, aux_seq. rewrite Hl, Nat.eqb_refl.
    rewrite scan_emit_carry. cbn [snd]. rewrite Hl. destruct b; reflexivity.
  Qed.

  Theorem rollout_aux_seq_rejects (f : A -> X -> A) n (b : bool) (u0 : A) (xs : list X) :
    length xs <> n -> rollout_aux f n b false u0 (AuxSeq xs) = None.
  Proof.
    intros Hl. unfold rollout_aux, aux_seq. apply Nat.eqb_neq in Hl. rewrite Hl. reflexivity.
  Qed.

  Theorem rollout_aux_const (f : A -> X -> A) n (b : bool) (u0 : A) (x : X) :
    rollout_aux f n b true u0 (AuxConst x)
    = Some (rollout (fun u => f u x) n b u0).
  Proof.
    unfold rollout_aux, aux_seq. cbv zeta. f_equal.
    assert (E : snd (scan (fun u x0 => (f u x0, f u x0)) u0 (repeat x n))
                = snd (scan (fun u (_ : unit) => (f u x, f u x)) u0 (repeat tt n))).
    { clear. revert u0. induction n as [|n IH]; intros u0; [reflexivity|].
      cbn [repeat scan]. specialize (IH (f u0 x)).
      destruct (scan (fun u x0 => (f u x0, f u x0)) (f u0 x) (repeat x n)) as [c1 y1].
      destruct (scan (fun u (_ : unit) => (f u x, f u x)) (f u0 x) (repeat tt n)) as [c2 y2].
      cbn [snd] in *. rewrite IH. reflexivity. }
    unfold rollout. cbv zeta. rewrite E. reflexivity.
  Qed.

  Theorem repeat_aux_seq (f : A -> X -> A) n (u0 : A) (xs : list X) :
    length xs = n -> repeat_aux f n false u0 (AuxSeq xs) = Some (fold_left f xs u0).
  Proof.
    intros Hl. unfold repeat_aux, aux_seq. rewrite Hl, Nat.eqb_refl. rewrite scan_emit_unit. reflexivity.
  Qed.

  Theorem repeat_aux_const (f : A -> X -> A) n (u0 : A) (x : X) :
    repeat_aux f n true u0 (AuxConst x) = Some (iter n (fun u => f u x) u0).
  Proof.
    unfold repeat_aux, aux_seq. rewrite scan_emit_unit. f_equal.
    revert u0. induction n as [|n IH]; intros u0; [reflexivity|].
    cbn [repeat fold_left]. rewrite IH. clear IH.
    induction n as [|n IH]; [reflexivity|]. cbn [iter]. rewrite IH. reflexivity.
  Qed.
End RolloutAuxSpec.

Section Windows.
  Variable A : Type.

  Lemma nth_error_firstn_lt (l : list A) m j : j < m -> nth_error (firstn m l) j = nth_error l j.
  Proof.
    revert m j. induction l as [|a l IH]; intros m j H.
    - rewrite firstn_nil. reflexivity.
    - destruct m; [lia|]. destruct j; [reflexivity|]. cbn. apply IH. lia.
  Qed.

  Lemma nth_error_skipn_add (l : list A) i j : nth_error (skipn i l) j = nth_error l (i + j).
  Proof.
    revert l. induction i as [|i IH]; intros l; [reflexivity|].
    destruct l as [|a l]; [destruct j; reflexivity|]. cbn. apply IH.
  Qed.

  Theorem stack_sub_spec (trj : list A) m :
    m <= length trj ->
    stack_sub trj m = Some (map (fun i => firstn m (skipn i trj)) (seq 0 (length trj - m + 1))).
  Proof.
    intros H. unfold stack_sub. destruct (Nat.ltb_spec (length trj) m) as [H'|_]; [lia|].
    f_equal. apply map_ext_in. intros i Hi. apply in_seq in Hi. unfold dynamic_slice.
    rewrite Nat.min_l by lia. reflexivity.
  Qed.

  Theorem stack_sub_rejects (trj : list A) m : length trj < m -> stack_sub trj m = None.
  Proof. intros H. unfold stack_sub. destruct (Nat.ltb_spec (length trj) m); [reflexivity | lia]. Qed.

  Theorem stack_sub_window (trj : list A) m ws i j :
    stack_sub trj m = Some ws -> i < length trj - m + 1 -> j < m ->
    exists w, nth_error ws i = Some w /\ length w = m /\ nth_error w j = nth_error trj (i + j).
  Proof.
    intros Hs Hi Hj. destruct (Nat.ltb_spec (length trj) m) as [H'|H'].
    - rewrite stack_sub_rejects in Hs by exact H'. discriminate.
    - rewrite stack_sub_spec in Hs by exact H'. injection Hs as <-.
      exists (firstn m (skipn i trj)). split; [|split].
      + rewrite nth_error_map, nth_error_nth' with (d := 0) by (rewrite seq_length; exact Hi).
        rewrite seq_nth by exact Hi. reflexivity.
      + rewrite firstn_length, skipn_length. lia.
      + rewrite nth_error_firstn_lt by exact Hj. apply nth_error_skipn_add.
  Qed.

  Theorem stack_sub_count (trj : list A) m ws :
    stack_sub trj m = Some ws -> length ws = length trj - m + 1.
  Proof.
    intros Hs. destruct (Nat.ltb_spec (length trj) m) as [H'|H'].
    - rewrite stack_sub_rejects in Hs by exact H'. discriminate.
    - rewrite stack_sub_spec in Hs by exact H'. injection Hs as <-. rewrite map_length, seq_length. reflexivity.
  Qed.
End Windows.

Section WrapperSpec.
  Variables S Sh : Type.
  Variable fwd : S -> Sh. Variable bwd : Sh -> S. Variable sf : Sh -> Sh.
  (* [Good] = the set of spectra on which rfftn . irfftn is the identity (Hermitian spectra of
     Nyquist-compatible states); it must be closed under the inner Fourier step. *)
  Variable Good : Sh -> Prop.
  Hypothesis fwd_good : forall u, Good (fwd u).
  Hypothesis sf_good : forall y, Good y -> Good (sf y).
  Hypothesis round_trip : forall y, Good y -> fwd (bwd y) = y.

  Lemma iter_good n y : Good y -> Good (iter n sf y).
  Proof. intros H; induction n; cbn [iter]; auto. Qed.

  Theorem repeated_stepper_spec n u :
    repeated_step fwd bwd sf n u = iter n (base_step fwd bwd sf) u \/ n = 0.
  Proof.
    destruct n as [|n]; [right; reflexivity|left].
    unfold repeated_step. rewrite repeat_spec.
    induction n as [|n IH]; [reflexivity|].
    cbn [iter] in *. unfold base_step at 1. rewrite <- IH.
    rewrite round_trip; [reflexivity|]. apply sf_good. apply iter_good. apply fwd_good.
  Qed.

  Theorem repeated_stepper_zero u : repeated_step fwd bwd sf 0 u = bwd (fwd u).
  Proof. unfold repeated_step. rewrite repeat_spec. reflexivity. Qed.
End WrapperSpec.
