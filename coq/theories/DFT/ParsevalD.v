(* Parseval in every dimension (conjugation-free form): for the D-fold iterates of the 1-D transform with the root w and with its inverse w',
   the sum over the full n^D spectrum of U(k) V'(k) is n^D times the sum over the grid of u(j) v(j).  For a real field V'(k) = conj V(k)
   (Metrics/MetricsProofs.v, dft_conj), so this is sum |U|^2 = n^D sum |u|^2. *)
From Coq Require Import ZArith QArith List Bool Field Ring Lia Arith.
From EXV Require Import Base.Scalar Base.FieldLemmas DFT.DFT1 Layout.Freq IC.Normalize IC.GeneratorsProofs DFT.DFTD Metrics.Metrics Metrics.MetricsProofs.
Import ListNotations.
Local Open Scope fld_scope.

Section ParsevalD.
  Variable F : FieldT.
  Add Field Ffpd : (fth F).
  Notation K := (fops F).
  Variable n : nat.
  Variables w w' : K.
  Hypothesis n_pos : (0 < n)%nat.
  Hypothesis w_n : fpow w n = 1.
  Hypothesis w_prim : forall m, (0 < m < n)%nat -> fpow w m <> 1.
  Hypothesis w_inv : w * w' = 1.

  Theorem parseval_bilinear_D D (u v : list nat -> K) :
    sumD K D n (fun k => dftD n D w u k * dftD n D w' v k) = npts K D n * sumD K D n (fun j => u j * v j).
  Proof.
    revert u v. induction D as [|D IH]; intros u v.
    - rewrite !(sumD_0 F n). unfold npts. cbn [dftD fpow]. ring.
    - rewrite !(sumD_S F n). cbn [dftD].
      (* exchange the sums: leading axis innermost, 1-D Parseval there *)
      rewrite <- (sumD_bsum_swap F n D (fun k b => dft n w (fun a => dftD n D w (fun r => u (a :: r)) k) b * dft n w' (fun a => dftD n D w' (fun r => v (a :: r)) k) b)).
      rewrite (sumD_ext F n D _ (fun k => fz (Z.of_nat n) * bsum n (fun a => dftD n D w (fun r => u (a :: r)) k * dftD n D w' (fun r => v (a :: r)) k))).
      2:{ intros k _. apply (parseval_bilinear F n w w' n_pos w_n w_prim w_inv). }
      rewrite (sumD_scal F n). rewrite (sumD_bsum_swap F n D).
      rewrite (bsum_ext F n _ (fun a => npts K D n * sumD K D n (fun r => u (a :: r) * v (a :: r)))) by (intros a _; apply IH).
      rewrite bsum_scal. unfold npts. cbn [fpow]. ring.
  Qed.
End ParsevalD.
