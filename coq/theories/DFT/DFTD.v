(* The D-dimensional discrete Fourier transform as the D-fold iterate of the 1-D transform (the contract under which rfftn / irfftn are
   used: C04), with its inversion and convolution theorems for EVERY dimension D, every n with a primitive n-th root of unity and every
   field: the transform of a pointwise product on the n^D grid is n^-D times the circular convolution of the transforms.
   Proofs by induction on D from the 1-D theorems of DFT/DFT1.v. *)
From Coq Require Import ZArith QArith List Bool Field Ring Lia Arith.
From EXV Require Import Base.Scalar Base.FieldLemmas DFT.DFT1 Layout.Freq IC.Normalize IC.GeneratorsProofs.
Import ListNotations.
Local Open Scope fld_scope.

Section Defs.
  Variable K : Ops.
  Variable n : nat.
  (* iterate of the 1-D transform along the leading axis *)
  Fixpoint dftD (D : nat) (w : K) (u : list nat -> K) (k : list nat) : K :=
    match D, k with
    | S D', b :: k' => dft n w (fun a => dftD D' w (fun r => u (a :: r)) k') b
    | _, _ => u []
    end.
  Fixpoint idftI (D : nat) (w' : K) (U : list nat -> K) (j : list nat) : K :=
    match D, j with
    | S D', a :: j' => idft n w' (fun b => idftI D' w' (fun r => U (b :: r)) j') a
    | _, _ => U []
    end.
  (* component-wise (k - m) mod n *)
  Fixpoint subD (k m : list nat) : list nat :=
    match k, m with
    | b :: k', a :: m' => ((b + n - a) mod n)%nat :: subD k' m'
    | _, _ => []
    end.
  Definition cconvD (D : nat) (U V : list nat -> K) (k : list nat) : K := sumD K D n (fun m => U m * V (subD k m)).
End Defs.
Arguments dftD {K} n D w u k. Arguments idftI {K} n D w' U j. Arguments cconvD {K} n D U V k.

Section DFTD.
  Variable F : FieldT.
  Add Field Ffd : (fth F).
  Notation K := (fops F).
  Variable n : nat.
  Variables w w' : K.
  Hypothesis n_pos : (0 < n)%nat.
  Hypothesis w_n : fpow w n = 1.
  Hypothesis w_prim : forall m, (0 < m < n)%nat -> fpow w m <> 1.
  Hypothesis w_inv : w * w' = 1.

  Definition in_grid (D : nat) (k : list nat) : Prop := length k = D /\ Forall (fun b => (b < n)%nat) k.

  Lemma dftD_ext D (u v : list nat -> K) k : (forall j, u j = v j) -> dftD n D w u k = dftD n D w v k.
  Proof.
    revert u v k. induction D as [|D IH]; intros u v k H; cbn [dftD]; [apply H|].
    destruct k as [|b k]; [apply H|]. unfold dft. apply bsum_ext. intros a _. f_equal. apply IH. intros r. apply H.
  Qed.

  Lemma idftI_ext D (U V : list nat -> K) j : (forall k, U k = V k) -> idftI n D w' U j = idftI n D w' V j.
  Proof.
    revert U V j. induction D as [|D IH]; intros U V j H; cbn [idftI]; [apply H|].
    destruct j as [|a j]; [apply H|]. unfold idft. f_equal. apply bsum_ext. intros b _. f_equal. apply IH. intros r. apply H.
  Qed.

  Lemma dft_ext_all (u v : nat -> K) b : (forall a, u a = v a) -> dft n w u b = dft n w v b.
  Proof. intros H. unfold dft. apply bsum_ext. intros a _. rewrite H. reflexivity. Qed.
  Lemma idft_ext_all (U V : nat -> K) a : (forall b, U b = V b) -> idft n w' U a = idft n w' V a.
  Proof. intros H. unfold idft. f_equal. apply bsum_ext. intros b _. rewrite H. reflexivity. Qed.
  Lemma dft_scal_r (u : nat -> K) c b : dft n w (fun a => u a * c) b = dft n w u b * c.
  Proof. unfold dft. rewrite <- bsum_scal_r. apply bsum_ext. intros; ring. Qed.
  Lemma fsum_map_scal_r {A} (l : list A) (c : K) (f : A -> K) : fsum (map (fun a => f a * c) l) = fsum (map f l) * c.
  Proof. induction l as [|a l IH]; cbn [map fsum]; [ring | rewrite IH; ring]. Qed.
  Lemma sumD_scal_r D (f : list nat -> K) c : sumD K D n (fun m => f m * c) = sumD K D n f * c.
  Proof. unfold sumD. apply fsum_map_scal_r. Qed.
  Lemma sumD_bsum_swap D (f : list nat -> nat -> K) :
    sumD K D n (fun m => bsum n (fun a => f m a)) = bsum n (fun a => sumD K D n (fun m => f m a)).
  Proof. unfold sumD, bsum. apply fsum_map_swap. Qed.

  (* the 1-D transform is linear over sums indexed by the remaining axes *)
  Lemma dft_sumD D (G : nat -> list nat -> K) b :
    dft n w (fun a => sumD K D n (fun m => G a m)) b = sumD K D n (fun m => dft n w (fun a => G a m) b).
  Proof.
    unfold dft, sumD, bsum.
    rewrite (fsum_map_ext F _ _ (fun a => fsum (map (fun m => G a m * fpow w (a * b)) (gridD D n)))).
    2:{ intros a _. rewrite fsum_map_scal_r. reflexivity. }
    apply fsum_map_swap.
  Qed.

  Lemma idft_bsum (c : nat -> K) (G : nat -> nat -> K) a :
    idft n w' (fun b => bsum n (fun a0 => c a0 * G a0 b)) a = bsum n (fun a0 => c a0 * idft n w' (G a0) a).
  Proof.
    unfold idft. rewrite (bsum_ext F n _ (fun b => bsum n (fun a0 => c a0 * (G a0 b * fpow w' (a * b))))).
    2:{ intros b _. rewrite <- bsum_scal_r. apply bsum_ext. intros; ring. }
    rewrite bsum_swap. rewrite fdiv_def, <- bsum_scal_r. apply bsum_ext. intros a0 _. rewrite bsum_scal. rewrite fdiv_def. ring.
  Qed.

  Lemma idftI_bsum D (c : nat -> K) (G : nat -> list nat -> K) j :
    idftI n D w' (fun r => bsum n (fun a0 => c a0 * G a0 r)) j = bsum n (fun a0 => c a0 * idftI n D w' (G a0) j).
  Proof.
    revert G j. induction D as [|D IH]; intros G j; cbn [idftI]; [reflexivity|].
    destruct j as [|a j]; [reflexivity|].
    rewrite (idft_ext_all (fun b => idftI n D w' (fun r => bsum n (fun a0 => c a0 * G a0 (b :: r))) j)
                          (fun b => bsum n (fun a0 => c a0 * idftI n D w' (fun r => G a0 (b :: r)) j))).
    - apply idft_bsum.
    - intros b. apply IH.
  Qed.

  (* inversion in D dimensions *)
  Theorem dftD_inversion D (u : list nat -> K) j : in_grid D j -> idftI n D w' (dftD n D w u) j = u j.
  Proof.
    revert u j. induction D as [|D IH]; intros u j [Hl Hj].
    - destruct j; [reflexivity | discriminate].
    - destruct j as [|a j]; [discriminate|]. inversion Hj as [|? ? Ha Hj']; subst. cbn [idftI].
      rewrite (idft_ext_all (fun b => idftI n D w' (fun r => dftD n (S D) w u (b :: r)) j) (dft n w (fun a0 => u (a0 :: j)))).
      + apply (dft_inversion F n w w' n_pos w_n w_prim w_inv). exact Ha.
      + intros b. cbn [dftD]. unfold dft at 1.
        rewrite (idftI_ext D _ (fun r => bsum n (fun a0 => fpow w (a0 * b) * dftD n D w (fun r0 => u (a0 :: r0)) r))).
        2:{ intros r. unfold dft. apply bsum_ext. intros; ring. }
        rewrite idftI_bsum. unfold dft. apply bsum_ext. intros a0 _.
        rewrite IH by (split; [cbn in Hl; lia | exact Hj']). ring.
  Qed.

  (* convolution theorem in D dimensions *)
  Theorem dftD_convolution D (u v : list nat -> K) k : in_grid D k ->
    dftD n D w (fun j => u j * v j) k = cconvD n D (dftD n D w u) (dftD n D w v) k / npts K D n.
  Proof.
    revert u v k. induction D as [|D IH]; intros u v k [Hl Hk].
    - destruct k; [|discriminate]. unfold cconvD, npts. rewrite (sumD_0 F n). cbn [dftD subD fpow]. field. apply (f_1_neq_0 F).
    - destruct k as [|b k]; [discriminate|]. inversion Hk as [|? ? Hb Hk']; subst.
      assert (Hg : in_grid D k) by (split; [cbn in Hl; lia | exact Hk']).
      cbn [dftD].
      (* inner axes by the induction hypothesis *)
      rewrite (dft_ext_all (fun a => dftD n D w (fun r => u (a :: r) * v (a :: r)) k)
                           (fun a => cconvD n D (dftD n D w (fun r => u (a :: r))) (dftD n D w (fun r => v (a :: r))) k / npts K D n)).
      2:{ intros a. apply (IH (fun r => u (a :: r)) (fun r => v (a :: r)) k Hg). }
      unfold cconvD at 1.
      rewrite (dft_ext_all _ (fun a => sumD K D n (fun m => (dftD n D w (fun r => u (a :: r)) m * dftD n D w (fun r => v (a :: r)) (subD n k m)) * oinv (npts K D n)))).
      2:{ intros a. rewrite fdiv_def. unfold sumD. rewrite <- fsum_map_scal_r. reflexivity. }
      rewrite dft_sumD.
      (* leading axis by the 1-D convolution theorem *)
      rewrite (sumD_ext F n D _ (fun m => cconv n (fun a => dftD n (S D) w u (a :: m)) (fun a => dftD n (S D) w v (a :: subD n k m)) b
                                          / fz (Z.of_nat n) * oinv (npts K D n))).
      2:{ intros m _.
          rewrite dft_scal_r. rewrite (dft_convolution F n w w' n_pos w_n w_prim w_inv _ _ b Hb). reflexivity. }
      unfold cconvD. rewrite (sumD_S F n D). cbn [subD]. unfold cconv.
      rewrite (sumD_ext F n D _ (fun m => bsum n (fun a => dftD n (S D) w u (a :: m) * dftD n (S D) w v (((b + n - a) mod n)%nat :: subD n k m))
                                          * (oinv (fz (Z.of_nat n)) * oinv (npts K D n)))).
      2:{ intros m _. rewrite fdiv_def. ring. }
      rewrite sumD_scal_r. rewrite (sumD_bsum_swap D).
      set (X := bsum n (fun a => sumD K D n (fun m => dftD n (S D) w u (a :: m) * dftD n (S D) w v (((b + n - a) mod n)%nat :: subD n k m)))).
      change (X * (oinv (fz (Z.of_nat n)) * oinv (npts K D n)) = X / npts K (S D) n).
      clearbody X. unfold npts. cbn [fpow]. pose proof (n_nz F n n_pos) as Hn. pose proof (fpow_neq0 F _ D Hn) as Hp.
      field. split; assumption.
  Qed.

  (* ---- the other composition: dft . idft = id ---- *)
  Lemma w'_prim : forall m, (0 < m < n)%nat -> fpow w' m <> 1.
  Proof.
    intros m Hm E. apply (w_prim m Hm).
    transitivity (fpow w m * fpow w' m); [rewrite E; ring|]. rewrite <- fpow_mul_base, w_inv. apply fpow_1.
  Qed.
  Lemma w'_inv : w' * w = 1. Proof. rewrite <- w_inv. ring. Qed.

  Lemma dft_idft (U : nat -> K) k : (k < n)%nat -> dft n w (idft n w' U) k = U k.
  Proof.
    intros Hk. rewrite <- (dft_inversion F n w' w n_pos (w'_n F n w w' w_n w_inv) w'_prim w'_inv U k Hk).
    unfold idft, dft. rewrite fdiv_def, <- bsum_scal_r. apply bsum_ext. intros j _.
    rewrite fdiv_def. rewrite <- !bsum_scal_r. apply bsum_ext. intros m _. rewrite (Nat.mul_comm j k), (Nat.mul_comm j m). ring.
  Qed.

  Lemma dftD_ext_grid D (u v : list nat -> K) k : length k = D -> (forall j, in_grid D j -> u j = v j) -> dftD n D w u k = dftD n D w v k.
  Proof.
    revert u v k. induction D as [|D IH]; intros u v k Hl H; cbn [dftD]; [apply H; split; [reflexivity | constructor]|].
    destruct k as [|b k]; [discriminate|].
    unfold dft. apply bsum_ext. intros a Ha. f_equal. apply IH; [cbn in Hl; lia|]. intros r [Hlr Hr]. apply H. split; [cbn; lia | constructor; assumption].
  Qed.

  Lemma dftD_bsum D (c : nat -> K) (G : nat -> list nat -> K) k :
    dftD n D w (fun r => bsum n (fun a0 => c a0 * G a0 r)) k = bsum n (fun a0 => c a0 * dftD n D w (G a0) k).
  Proof.
    revert G k. induction D as [|D IH]; intros G k; cbn [dftD]; [reflexivity|].
    destruct k as [|b k]; [reflexivity|].
    rewrite (dft_ext_all _ (fun a => bsum n (fun a0 => c a0 * dftD n D w (fun r => G a0 (a :: r)) k))) by (intros a; apply IH).
    unfold dft. rewrite (bsum_ext F n _ (fun a => bsum n (fun a0 => c a0 * (dftD n D w (fun r => G a0 (a :: r)) k * fpow w (a * b))))).
    2:{ intros a _. rewrite <- bsum_scal_r. apply bsum_ext. intros; ring. }
    rewrite bsum_swap. apply bsum_ext. intros a0 _. rewrite bsum_scal. reflexivity.
  Qed.

  Theorem dftD_idftI D (U : list nat -> K) k : in_grid D k -> dftD n D w (idftI n D w' U) k = U k.
  Proof.
    revert U k. induction D as [|D IH]; intros U k [Hl Hk].
    - destruct k; [reflexivity | discriminate].
    - destruct k as [|b k]; [discriminate|]. inversion Hk as [|? ? Hb Hk']; subst. cbn [dftD].
      rewrite (dft_ext_all _ (idft n w' (fun b0 => U (b0 :: k)))).
      + apply dft_idft. exact Hb.
      + intros a. cbn [idftI].
        rewrite (dftD_ext D _ (fun r => bsum n (fun b0 => (fpow w' (a * b0) * oinv (fz (Z.of_nat n))) * idftI n D w' (fun r0 => U (b0 :: r0)) r))).
        2:{ intros r. unfold idft. rewrite fdiv_def, <- bsum_scal_r. apply bsum_ext. intros; ring. }
        rewrite dftD_bsum. unfold idft. rewrite fdiv_def, <- bsum_scal_r. apply bsum_ext. intros b0 _.
        rewrite IH by (split; [cbn in Hl; lia | exact Hk']). ring.
  Qed.

  Lemma dftD_scal D c (u : list nat -> K) k : dftD n D w (fun j => c * u j) k = c * dftD n D w u k.
  Proof.
    revert u k. induction D as [|D IH]; intros u k; cbn [dftD]; [reflexivity|]. destruct k as [|b k]; [reflexivity|].
    rewrite (dft_ext_all _ (fun a => dftD n D w (fun r => u (a :: r)) k * c)) by (intros a; rewrite IH; ring).
    rewrite dft_scal_r. ring.
  Qed.

  (* trigonometric interpolation in D dimensions: the samples of p = sum_m a_m e^{2 pi i m.x/L} on the grid are n^D idftI(a); the coefficients
     read off their transform, re-summed against ANY character table chi (an arbitrary query point), return sum_m a_m chi(m) *)
  Theorem interpolation_exact_D D (a chi : list nat -> K) :
    sumD K D n (fun k => dftD n D w (fun j => npts K D n * idftI n D w' a j) k / npts K D n * chi k) = sumD K D n (fun m => a m * chi m).
  Proof.
    apply (sumD_ext F n D). intros k Hk. apply in_gridD in Hk; [|exact n_pos].
    rewrite dftD_scal. rewrite (dftD_idftI D a k Hk). pose proof (fpow_neq0 F _ D (n_nz F n n_pos)) as Hp. unfold npts. field. exact Hp.
  Qed.
End DFTD.
