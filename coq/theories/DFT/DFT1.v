(* The discrete Fourier transform over an abstract field with a primitive n-th root of unity:
   orthogonality, inversion, single-mode spectrum, shift theorem, convolution theorem (1-D; the D-dimensional
   transform is the iterate along each axis, DFT/DFTD.v).  jnp.fft computes this transform with w = exp(-2 pi i / n)
   (contract, exercised by the correspondence of C04). *)
From Coq Require Import ZArith QArith List Bool Field Ring Lia Arith.
From EXV Require Import Base.Scalar Base.FieldLemmas.
Import ListNotations.
Local Open Scope fld_scope.

Section DFTdefs.
  Variable K : Ops.
  Definition bsum (n : nat) (f : nat -> K) : K := fsum (map f (seq 0 n)).
  Definition dft (n : nat) (w : K) (u : nat -> K) (k : nat) : K := bsum n (fun j => u j * fpow w (j * k)).
  (* inverse: w' = 1/w *)
  Definition idft (n : nat) (w' : K) (U : nat -> K) (j : nat) : K :=
    bsum n (fun k => U k * fpow w' (j * k)) / fz (Z.of_nat n).
  (* circular convolution of two spectra *)
  Definition cconv (n : nat) (U V : nat -> K) (k : nat) : K :=
    bsum n (fun m => U m * V ((k + n - m) mod n)%nat).
End DFTdefs.
Arguments bsum {K} n f. Arguments dft {K} n w u k. Arguments idft {K} n w' U j. Arguments cconv {K} n U V k.

Section DFT1.
  Variable F : FieldT.
  Add Field Ff : (fth F).
  Implicit Types f g : nat -> F.
  Implicit Types c : F.

  Lemma bsum_ext n f g : (forall j, (j < n)%nat -> f j = g j) -> bsum n f = bsum n g.
  Proof. intros H. unfold bsum. apply fsum_map_ext. intros j Hj. apply in_seq in Hj. apply H. lia. Qed.
  Lemma bsum_add n f g : bsum n (fun j => f j + g j) = bsum n f + bsum n g.
  Proof. unfold bsum. apply fsum_map_add. Qed.
  Lemma bsum_scal n c f : bsum n (fun j => c * f j) = c * bsum n f.
  Proof. unfold bsum. apply fsum_map_scal. Qed.
  Lemma bsum_scal_r n c f : bsum n (fun j => f j * c) = bsum n f * c.
  Proof. rewrite (bsum_ext n _ (fun j => c * f j)) by (intros; ring). rewrite bsum_scal. ring. Qed.
  Lemma bsum_zero n : bsum n (fun _ => (0 : F)) = 0.
  Proof. unfold bsum. apply fsum_map_zero. Qed.
  Lemma bsum_swap n m (f : nat -> nat -> F) :
    bsum n (fun a => bsum m (fun b => f a b)) = bsum m (fun b => bsum n (fun a => f a b)).
  Proof. unfold bsum. apply fsum_map_swap. Qed.
  Lemma bsum_S n f : bsum (S n) f = bsum n f + f n.
  Proof. unfold bsum. rewrite seq_S, map_app, fsum_app. cbn [map fsum Nat.add]. ring. Qed.
  Lemma bsum_const n c : bsum n (fun _ => c) = fz (Z.of_nat n) * c.
  Proof.
    induction n as [|n IH]; [cbn; ring|]. rewrite bsum_S, IH, Nat2Z.inj_succ. unfold Z.succ. rewrite fz_add. cbn [fz fpos]. ring.
  Qed.
  (* only the term j0 survives *)
  Lemma bsum_single n j0 f : (j0 < n)%nat -> (forall j, (j < n)%nat -> j <> j0 -> f j = 0) -> bsum n f = f j0.
  Proof.
    revert j0. induction n as [|n IH]; intros j0 Hj H; [lia|]. rewrite bsum_S.
    destruct (Nat.eq_dec j0 n) as [->|Hne].
    - rewrite (bsum_ext n f (fun _ => 0)) by (intros j Hj'; apply H; lia). rewrite bsum_zero. ring.
    - rewrite (IH j0) by (try lia; intros j Hj' Hn; apply H; lia). rewrite (H n) by lia. ring.
  Qed.

  Lemma seq_shift_add (len a : nat) : map (fun j => (j + a)%nat) (seq 0 len) = seq a len.
  Proof.
    revert a. induction len as [|len IH]; intros a; [reflexivity|]. cbn [seq map]. f_equal.
    rewrite <- seq_shift, map_map. rewrite <- (IH (S a)). apply map_ext. intros; lia.
  Qed.

  Lemma geom (a : F) n : (a - 1) * bsum n (fun k => fpow a k) = fpow a n - 1.
  Proof. induction n as [|n IH]; [cbn; ring|]. rewrite bsum_S. cbn [fpow]. transitivity ((a - 1) * bsum n (fun k => fpow a k) + (a - 1) * fpow a n); [ring|]. rewrite IH. ring. Qed.

  Lemma dft_zero_mode m (v : F) (u : nat -> F) : dft m v u 0 = bsum m u.
  Proof. unfold dft. apply bsum_ext. intros j _. rewrite Nat.mul_0_r. cbn [fpow]. ring. Qed.

  Variable n : nat.
  Variables w w' : F.
  Hypothesis n_pos : (0 < n)%nat.
  Hypothesis w_n : fpow w n = 1.
  Hypothesis w_prim : forall m, (0 < m < n)%nat -> fpow w m <> 1.
  Hypothesis w_inv : w * w' = 1.

  Lemma n_nz : @fz F (Z.of_nat n) <> 0.
  Proof. apply fz_neq0. lia. Qed.

  Lemma w_mod m : fpow w m = fpow w (m mod n).
  Proof.
    rewrite (Nat.div_mod m n) at 1 by lia. rewrite fpow_add, fpow_mul, w_n, fpow_1. ring.
  Qed.

  Lemma w'_n : fpow w' n = 1.
  Proof.
    transitivity (fpow (w * w') n * 1); [rewrite fpow_mul_base, w_n; ring|]. rewrite w_inv, fpow_1. ring.
  Qed.
  Lemma w'_mod m : fpow w' m = fpow w' (m mod n).
  Proof. rewrite (Nat.div_mod m n) at 1 by lia. rewrite fpow_add, fpow_mul, w'_n, fpow_1. ring. Qed.
  Lemma w_w' m : fpow w m * fpow w' m = 1.
  Proof. rewrite <- fpow_mul_base, w_inv. apply fpow_1. Qed.
  Lemma fmul_comm_w j k : fpow w' (j * k) * fpow w (j * k) = fpow w (j * k) * fpow w' (j * k).
  Proof. ring. Qed.

  (* orthogonality of the characters *)
  Theorem orthogonality m : bsum n (fun j => fpow w (j * m)) = if (m mod n =? 0)%nat then fz (Z.of_nat n) else 0.
  Proof.
    rewrite (bsum_ext n _ (fun j => fpow (fpow w (m mod n)) j)).
    2:{ intros j Hj. rewrite Nat.mul_comm, fpow_mul. rewrite (w_mod m) at 1. reflexivity. }
    destruct (Nat.eqb_spec (m mod n) 0) as [E|E].
    - rewrite E. cbn [fpow]. rewrite (bsum_ext n _ (fun _ => 1)) by (intros; apply fpow_1). rewrite bsum_const. ring.
    - assert (Hm : (0 < m mod n < n)%nat) by (pose proof (Nat.mod_upper_bound m n); lia).
      pose proof (geom (fpow w (m mod n)) n) as Hg.
      assert (H1 : fpow (fpow w (m mod n)) n = 1) by (rewrite <- fpow_mul, Nat.mul_comm, fpow_mul, w_n; apply fpow_1).
      rewrite H1 in Hg. replace (1 - 1) with (0 : F) in Hg by ring.
      apply (fmul_eq0 F) in Hg. destruct Hg as [Hg|Hg]; [|exact Hg].
      exfalso. apply (w_prim (m mod n) Hm). apply (fsub_eq0 F). exact Hg.
  Qed.

  Lemma w'_orthogonality m : bsum n (fun j => fpow w' (j * m)) = if (m mod n =? 0)%nat then fz (Z.of_nat n) else 0.
  Proof.
    (* w'^(j m) = w^(j (n - m mod n)) *)
    rewrite (bsum_ext n _ (fun j => fpow w (j * (n - m mod n)))).
    2:{ intros j Hj. apply (fmul_cancel_l F (fpow w (j * (m mod n)))).
        - apply fpow_neq0. intro H. apply (f_1_neq_0 F). rewrite <- w_inv, H. ring.
        - rewrite <- fpow_add. replace (j * (m mod n) + j * (n - m mod n))%nat with (n * j)%nat
            by (pose proof (Nat.mod_upper_bound m n); nia).
          rewrite (fpow_mul F w n j), w_n, fpow_1.
          rewrite (Nat.mul_comm j m), (fpow_mul F w' m j), (w'_mod m), <- (fpow_mul F w' (m mod n) j), (Nat.mul_comm (m mod n) j). apply w_w'. }
    rewrite orthogonality.
    pose proof (Nat.mod_upper_bound m n ltac:(lia)).
    destruct (Nat.eqb_spec (m mod n) 0) as [E|E].
    - rewrite E, Nat.sub_0_r, Nat.mod_same by lia. reflexivity.
    - rewrite Nat.mod_small by lia. destruct (Nat.eqb_spec (n - m mod n) 0); [lia | reflexivity].
  Qed.

  (* inversion: idft . dft = id on the grid *)
  Theorem dft_inversion (u : nat -> F) j : (j < n)%nat -> idft n w' (dft n w u) j = u j.
  Proof.
    intros Hj. unfold idft, dft.
    rewrite (bsum_ext n _ (fun k => bsum n (fun l => u l * (fpow w (l * k) * fpow w' (j * k))))).
    2:{ intros k Hk. rewrite <- bsum_scal_r. apply bsum_ext. intros; ring. }
    rewrite bsum_swap.
    rewrite (bsum_ext n _ (fun l => u l * bsum n (fun k => fpow w (l * k) * fpow w' (j * k)))).
    2:{ intros l Hl. rewrite bsum_scal. reflexivity. }
    rewrite (bsum_single n j).
    - (* l = j: sum_k 1 = n *)
      rewrite (bsum_ext n _ (fun _ => 1)) by (intros; apply w_w'). rewrite bsum_const. field. apply n_nz.
    - exact Hj.
    - intros l Hl Hne.
      (* w^(l k) w'^(j k) = w^((l + n - j) k) *)
      rewrite (bsum_ext n _ (fun k => fpow w (k * (l + n - j)))).
      2:{ intros k Hk. apply (fmul_cancel_l F (fpow w (j * k))).
          - apply fpow_neq0. intro H. apply (f_1_neq_0 F). rewrite <- w_inv, H. ring.
          - transitivity (fpow w (l * k) * (fpow w (j * k) * fpow w' (j * k))); [ring|]. rewrite w_w'.
            rewrite <- fpow_add. replace (j * k + k * (l + n - j))%nat with (l * k + n * k)%nat by nia.
            rewrite fpow_add, (fpow_mul F w n k), w_n, fpow_1. ring. }
      rewrite orthogonality.
      destruct (Nat.eqb_spec ((l + n - j) mod n) 0) as [E|E]; [|ring].
      exfalso. apply Hne.
      apply Nat.div_exact in E; [|lia]. 
      destruct ((l + n - j) / n)%nat as [|[|q]] eqn:Q; nia.
  Qed.

  (* a single character u_j = c * w'^(j m) (i.e. c exp(+2 pi i j m / n)) has spectrum n*c at k = m and 0 elsewhere *)
  Theorem dft_single_mode (c : F) m k : (m < n)%nat -> (k < n)%nat ->
    dft n w (fun j => c * fpow w' (j * m)) k = if (k =? m)%nat then fz (Z.of_nat n) * c else 0.
  Proof.
    intros Hm Hk. unfold dft.
    rewrite (bsum_ext n _ (fun j => c * fpow w (j * (k + n - m)))).
    2:{ intros j Hj. apply (fmul_cancel_l F (fpow w (j * m))).
        - apply fpow_neq0. intro H. apply (f_1_neq_0 F). rewrite <- w_inv, H. ring.
        - transitivity (c * fpow w (j * k) * (fpow w (j * m) * fpow w' (j * m))); [ring|]. rewrite w_w'.
          transitivity (c * (fpow w (j * m) * fpow w (j * (k + n - m)))); [|ring].
          rewrite <- fpow_add. replace (j * m + j * (k + n - m))%nat with (j * k + n * j)%nat by nia.
          rewrite fpow_add, (fpow_mul F w n j), w_n, fpow_1. ring. }
    rewrite bsum_scal, orthogonality.
    destruct (Nat.eqb_spec k m) as [->|Hne].
    - replace (m + n - m)%nat with n by lia. rewrite Nat.mod_same by lia. cbn. ring.
    - destruct (Nat.eqb_spec ((k + n - m) mod n) 0) as [E|E]; [|ring].
      exfalso. apply Hne. apply Nat.div_exact in E; [|lia].
      destruct ((k + n - m) / n)%nat as [|[|q]] eqn:Q; nia.
  Qed.

  (* shift theorem: rolling a periodic signal by s multiplies mode k by w'^(s k) *)
  Theorem dft_shift (u : nat -> F) s k : (s < n)%nat ->
    dft n w (fun j => u ((j + s) mod n)%nat) k = fpow w' (s * k) * dft n w u k.
  Proof.
    intros Hs. unfold dft.
    (* reindex j -> (j + s) mod n: split the sum at n - s *)
    assert (Hsplit : forall g : nat -> F, bsum n g = bsum (n - s) g + bsum s (fun j => g (j + (n - s))%nat)).
    { intros g. unfold bsum. replace n with ((n - s) + s)%nat at 1 by lia. rewrite seq_app, map_app, fsum_app.
      f_equal. cbn [Nat.add]. rewrite <- (seq_shift_add s (n - s)). rewrite map_map. apply fsum_map_ext. intros; f_equal; lia. }
    rewrite (Hsplit (fun j => u ((j + s) mod n)%nat * fpow w (j * k))).
    assert (Hsplit2 : forall g : nat -> F, bsum n g = bsum s g + bsum (n - s) (fun j => g (j + s)%nat)).
    { intros g. unfold bsum. replace n with (s + (n - s))%nat at 1 by lia. rewrite seq_app, map_app, fsum_app.
      f_equal. cbn [Nat.add]. rewrite <- (seq_shift_add (n - s) s). rewrite map_map. apply fsum_map_ext. intros; f_equal; lia. }
    rewrite (Hsplit2 (fun j => u j * fpow w (j * k))).
    transitivity (fpow w' (s * k) * bsum (n - s) (fun j => u (j + s)%nat * fpow w ((j + s) * k))
                  + fpow w' (s * k) * bsum s (fun j => u j * fpow w (j * k))); [|ring].
    rewrite <- !bsum_scal. f_equal.
    - apply bsum_ext. intros j Hj. rewrite Nat.mod_small by lia.
      rewrite Nat.mul_add_distr_r, fpow_add. transitivity (u (j + s)%nat * fpow w (j * k) * (fpow w (s * k) * fpow w' (s * k))); [rewrite w_w'; ring | ring].
    - apply bsum_ext. intros j Hj. replace ((j + (n - s) + s) mod n)%nat with j
        by (replace (j + (n - s) + s)%nat with (j + 1 * n)%nat by lia; rewrite Nat.mod_add by lia; rewrite Nat.mod_small by lia; reflexivity).
      transitivity (u j * (fpow w ((j + (n - s)) * k) * (fpow w (s * k) * fpow w' (s * k)))); [rewrite w_w'; ring|].
      transitivity (u j * fpow w' (s * k) * (fpow w ((j + (n - s)) * k) * fpow w (s * k))); [ring|].
      rewrite <- fpow_add. replace ((j + (n - s)) * k + s * k)%nat with (j * k + n * k)%nat by nia.
      rewrite fpow_add, (fpow_mul F w n k), w_n, fpow_1. ring.
  Qed.
  Lemma dft_add (u v : nat -> F) k : dft n w (fun j => u j + v j) k = dft n w u k + dft n w v k.
  Proof. unfold dft. rewrite <- bsum_add. apply bsum_ext. intros; ring. Qed.

  (* a real harmonic c e^{+i theta_j} + c' e^{-i theta_j} (theta_j = 2 pi m j / n, 0 < m < n, 2m <> n): n*c at mode m, n*c' at mode n - m *)
  Theorem dft_two_characters (c c' : F) m k : (0 < m < n)%nat -> (2 * m <> n)%nat -> (k < n)%nat ->
    dft n w (fun j => c * fpow w' (j * m) + c' * fpow w' (j * (n - m))) k
    = if (k =? m)%nat then fz (Z.of_nat n) * c else if (k =? n - m)%nat then fz (Z.of_nat n) * c' else 0.
  Proof.
    intros Hm H2 Hk. rewrite dft_add, !dft_single_mode by lia.
    destruct (Nat.eqb_spec k m), (Nat.eqb_spec k (n - m)); try lia; ring.
  Qed.

  (* the transform of a trigonometric polynomial sum_m a_m e^{+2 pi i m j / n} is n * a: dft . (n idft) = n id *)
  Theorem dft_of_trig_poly (a : nat -> F) k : (k < n)%nat ->
    dft n w (fun j => bsum n (fun m => a m * fpow w' (j * m))) k = fz (Z.of_nat n) * a k.
  Proof.
    intros Hk. unfold dft.
    rewrite (bsum_ext n _ (fun j => bsum n (fun m => a m * (fpow w' (j * m) * fpow w (j * k))))).
    2:{ intros j Hj. rewrite <- bsum_scal_r. apply bsum_ext. intros; ring. }
    rewrite bsum_swap.
    rewrite (bsum_ext n _ (fun m => a m * bsum n (fun j => fpow w' (j * m) * fpow w (j * k)))).
    2:{ intros m Hm. rewrite bsum_scal. reflexivity. }
    rewrite (bsum_single n k).
    - rewrite (bsum_ext n _ (fun _ => 1)) by (intros j Hj; rewrite (fmul_comm_w j k); apply w_w'). rewrite bsum_const. ring.
    - exact Hk.
    - intros m Hm Hne.
      rewrite (bsum_ext n _ (fun j => fpow w (j * (k + n - m)))).
      2:{ intros j Hj. apply (fmul_cancel_l F (fpow w (j * m))).
          - apply fpow_neq0. intro H. apply (f_1_neq_0 F). rewrite <- w_inv, H. ring.
          - transitivity (fpow w (j * k) * (fpow w (j * m) * fpow w' (j * m))); [ring|]. rewrite w_w'.
            rewrite <- fpow_add. replace (j * m + j * (k + n - m))%nat with (j * k + n * j)%nat by nia.
            rewrite fpow_add, (fpow_mul F w n j), w_n, fpow_1. ring. }
      rewrite orthogonality.
      destruct (Nat.eqb_spec ((k + n - m) mod n) 0) as [E|E]; [|ring].
      exfalso. apply Hne. apply Nat.div_exact in E; [|lia].
      destruct ((k + n - m) / n)%nat as [|[|q]] eqn:Q; nia.
  Qed.

  (* trigonometric interpolation is exact: reading the coefficients off the transform and re-summing against ANY character table chi
     (chi m = e^{2 pi i m x / L} at an arbitrary query point x) returns the polynomial's value sum_m a_m chi m *)
  Theorem interpolation_exact (a chi : nat -> F) :
    bsum n (fun k => dft n w (fun j => bsum n (fun m => a m * fpow w' (j * m))) k / fz (Z.of_nat n) * chi k)
    = bsum n (fun m => a m * chi m).
  Proof.
    apply bsum_ext. intros k Hk. rewrite dft_of_trig_poly by exact Hk. field. apply n_nz.
  Qed.

  (* dft depends on the index only modulo n *)
  Lemma dft_mod (u : nat -> F) k : dft n w u k = dft n w u (k mod n).
  Proof.
    unfold dft. apply bsum_ext. intros j Hj. f_equal.
    rewrite (Nat.mul_comm j k), (fpow_mul F w k j), (w_mod k), <- (fpow_mul F w (k mod n) j), (Nat.mul_comm (k mod n) j). reflexivity.
  Qed.

  (* convolution theorem: the transform of a pointwise product is the circular convolution of the transforms / n *)
  Theorem dft_convolution (u v : nat -> F) k : (k < n)%nat ->
    dft n w (fun j => u j * v j) k = cconv n (dft n w u) (dft n w v) k / fz (Z.of_nat n).
  Proof.
    intros Hk. unfold cconv.
    transitivity (bsum n (fun j => idft n w' (dft n w u) j * v j * fpow w (j * k))).
    { unfold dft at 1. apply bsum_ext. intros j Hj. rewrite dft_inversion by exact Hj. reflexivity. }
    unfold idft.
    transitivity (bsum n (fun m => dft n w u m * bsum n (fun j => v j * (fpow w' (j * m) * fpow w (j * k)))) / fz (Z.of_nat n)).
    { rewrite (bsum_ext n _ (fun j => bsum n (fun m => dft n w u m * (v j * (fpow w' (j * m) * fpow w (j * k)))) / fz (Z.of_nat n))).
      2:{ intros j Hj.
          transitivity (bsum n (fun m => dft n w u m * fpow w' (j * m) * (v j * fpow w (j * k))) / fz (Z.of_nat n)).
          - rewrite bsum_scal_r. field. apply n_nz.
          - f_equal. apply bsum_ext. intros; ring. }
      transitivity (bsum n (fun j => bsum n (fun m => dft n w u m * (v j * (fpow w' (j * m) * fpow w (j * k))))) / fz (Z.of_nat n)).
      { rewrite fdiv_def. rewrite <- bsum_scal_r. apply bsum_ext. intros j Hj. rewrite fdiv_def. reflexivity. }
      rewrite bsum_swap. f_equal. apply bsum_ext. intros m Hm. rewrite bsum_scal. reflexivity. }
    f_equal. apply bsum_ext. intros m Hm. f_equal.
    rewrite <- dft_mod. unfold dft. apply bsum_ext. intros j Hj. f_equal.
    (* w'^(j m) w^(j k) = w^(j (k + n - m)) *)
    apply (fmul_cancel_l F (fpow w (j * m))).
    - apply fpow_neq0. intro H. apply (f_1_neq_0 F). rewrite <- w_inv, H. ring.
    - transitivity (fpow w (j * k) * (fpow w (j * m) * fpow w' (j * m))); [ring|]. rewrite w_w'.
      rewrite <- fpow_add. replace (j * m + j * (k + n - m))%nat with (j * k + n * j)%nat by nia.
      rewrite fpow_add, (fpow_mul F w n j), w_n, fpow_1. ring.
  Qed.
End DFT1.
