(* Link between the two index conventions: the FFT contract speaks about the full grid {0..n-1}^D of stored indices (DFT/DFTD.v), the
   product model of Nonlin/Conv.v sums over signed wavenumber vectors of the retained band.  For band-masked spectra the D-dimensional
   circular convolution over the full grid IS the band sum cconv2 (stored index b <-> signed wavenumber fftfreq b), hence - with the
   convolution theorem - rfftn(irfftn U * irfftn V), masked, is the model's prod2 U V.  Any D, any n = N, any cutoff with 2K < N. *)
From Coq Require Import ZArith QArith List Bool Field Ring Lia Arith Permutation ZifyBool.
From EXV Require Import Base.Scalar Base.FieldLemmas DFT.DFT1 Layout.Freq Layout.FreqProofs IC.Normalize IC.GeneratorsProofs DFT.DFTD
  Nonlin.Conv Nonlin.ConvProofs Nonlin.MeanFree Nonlin.Energy.
Import ListNotations.
Ltac Zify.zify_post_hook ::= Z.to_euclidean_division_equations.

Section Index.
  Variable n : nat.
  Hypothesis n_pos : (0 < n)%nat.
  Notation N := (Z.of_nat n).
  Variable Kc : Z.
  Hypothesis K_nonneg : (0 <= Kc)%Z.
  Hypothesis K_small : (2 * Kc < N)%Z.

  Definition sg (b : nat) : Z := fftfreq N (Z.of_nat b).
  Definition sgn (k : list nat) : idx := map sg k.
  Definition ung (x : Z) : nat := Z.to_nat (unfreq N x).

  Lemma ung_sg b : (b < n)%nat -> ung (sg b) = b.
  Proof. intros Hb. unfold ung, sg, fftfreq, unfreq. destruct (Z.of_nat b <=? (N - 1) / 2)%Z eqn:E; destruct (0 <=? _)%Z eqn:E2; lia. Qed.
  Lemma sg_ung x : (Z.abs x <= Kc)%Z -> (ung x < n)%nat /\ sg (ung x) = x.
  Proof.
    intros Hx. unfold ung, sg, fftfreq, unfreq. destruct (0 <=? x)%Z eqn:E.
    - rewrite Z2Nat.id by lia. destruct (x <=? (N - 1) / 2)%Z eqn:E2; lia.
    - rewrite Z2Nat.id by lia. destruct (x + N <=? (N - 1) / 2)%Z eqn:E2; lia.
  Qed.

  Lemma sg_sub a b : (a < n)%nat -> (b < n)%nat -> sg ((b + n - a) mod n) = wrap1 N (sg b - sg a).
  Proof.
    intros Ha Hb. unfold wrap1, sg. f_equal.
    assert (E : Z.of_nat ((b + n - a) mod n) = ((Z.of_nat b - Z.of_nat a) mod N)%Z).
    { rewrite Nat2Z.inj_mod, Nat2Z.inj_sub, Nat2Z.inj_add by lia.
      replace (Z.of_nat b + N - Z.of_nat a)%Z with ((Z.of_nat b - Z.of_nat a) + 1 * N)%Z by ring. apply Z.mod_add. lia. }
    rewrite E. unfold fftfreq.
    destruct (Z.of_nat b <=? (N - 1) / 2)%Z, (Z.of_nat a <=? (N - 1) / 2)%Z.
    - reflexivity.
    - replace (Z.of_nat b - (Z.of_nat a - N))%Z with ((Z.of_nat b - Z.of_nat a) + 1 * N)%Z by ring. symmetry. apply Z.mod_add. lia.
    - replace (Z.of_nat b - N - Z.of_nat a)%Z with ((Z.of_nat b - Z.of_nat a) + (-1) * N)%Z by ring. symmetry. apply Z.mod_add. lia.
    - f_equal. ring.
  Qed.

  Lemma sgn_subD k m : length k = length m -> Forall (fun b => (b < n)%nat) k -> Forall (fun b => (b < n)%nat) m ->
    sgn (subD n k m) = wrapD N (subi (sgn k) (sgn m)).
  Proof.
    revert m. induction k as [|b k IH]; intros [|a m] Hl Hk Hm; cbn in *; try discriminate; try reflexivity.
    inversion Hk; inversion Hm; subst. f_equal; [apply sg_sub; assumption | apply IH; [lia | assumption | assumption]].
  Qed.

  Lemma subD_grid k m : length k = length m -> Forall (fun b => (b < n)%nat) (subD n k m) /\ length (subD n k m) = length k.
  Proof.
    revert m. induction k as [|b k IH]; intros [|a m] Hl; cbn in *; try discriminate; try (split; [constructor | reflexivity]).
    destruct (IH m ltac:(lia)) as [H1 H2]. split; [constructor; [apply Nat.mod_upper_bound; lia | exact H1] | lia].
  Qed.

  Lemma in_gridD_iff D k : In k (gridD D n) <-> (length k = D /\ Forall (fun b => (b < n)%nat) k).
  Proof.
    revert k. induction D as [|D IH]; intros k; cbn [gridD].
    - split; [intros [<-|[]]; split; [reflexivity | constructor] | intros [Hl _]; destruct k; [left; reflexivity | discriminate]].
    - rewrite in_flat_map. split.
      + intros (a & Ha & Hk). apply in_map_iff in Hk. destruct Hk as (r & <- & Hr). apply IH in Hr. destruct Hr as [Hl Hf].
        apply in_seq in Ha. split; [cbn; lia | constructor; [lia | exact Hf]].
      + intros [Hl Hf]. destruct k as [|a r]; [discriminate|]. inversion Hf; subst. exists a. split; [apply in_seq; lia|].
        apply in_map. apply IH. split; [cbn in Hl; lia | assumption].
  Qed.

  Lemma NoDup_gridD D : NoDup (gridD D n).
  Proof.
    induction D as [|D IH]; cbn [gridD]; [constructor; [intros [] | constructor]|].
    assert (Hnd := seq_NoDup n 0). revert Hnd. generalize (seq 0 n). intros l Hnd.
    induction Hnd as [|c l Hc Hnd IHl]; cbn [flat_map]; [constructor|].
    apply NoDup_app_disj; [| exact IHl |].
    - apply FinFun.Injective_map_NoDup; [intros a b H; injection H; auto | exact IH].
    - intros x Hx Hx'. apply in_map_iff in Hx. destruct Hx as (r & <- & _). apply in_flat_map in Hx'. destruct Hx' as (c' & Hc' & Hx').
      apply in_map_iff in Hx'. destruct Hx' as (r' & E & _). injection E as -> _. contradiction.
  Qed.

  Lemma in_band_sgn_iff k : in_band Kc (sgn k) = true <-> Forall (fun b => (Z.abs (sg b) <= Kc)%Z) k.
  Proof.
    unfold in_band, sgn. rewrite forallb_forall, Forall_forall. split.
    - intros H b Hb. specialize (H (sg b) (in_map sg k b Hb)). lia.
    - intros H x Hx. apply in_map_iff in Hx. destruct Hx as (b & <- & Hb). specialize (H b Hb). lia.
  Qed.

  (* the band is the image under sgn of the grid points whose signed wavenumber lies in the band *)
  Lemma band_is_image D : Permutation (map sgn (filter (fun m => in_band Kc (sgn m)) (gridD D n))) (bandD D Kc).
  Proof.
    apply NoDup_Permutation.
    - apply NoDup_map_in; [|apply NoDup_filter, NoDup_gridD].
      intros x y Hx Hy E. apply filter_In in Hx, Hy. destruct Hx as [Hx _], Hy as [Hy _]. apply in_gridD_iff in Hx, Hy.
      destruct Hx as [Hlx Hfx], Hy as [Hly Hfy]. clear Hlx Hly. revert y Hfy E. induction Hfx as [|a x Ha Hfx IH]; intros [|b y] Hfy E; cbn in E; try discriminate; [reflexivity|].
      inversion Hfy; subst. injection E as E1 E2. f_equal; [rewrite <- (ung_sg a Ha), <- (ung_sg b) by assumption; rewrite E1; reflexivity | apply IH; assumption].
    - apply NoDup_bandD.
    - intros x. rewrite in_map_iff, (in_bandD D Kc x K_nonneg). split.
      + intros (m & <- & Hm). apply filter_In in Hm. destruct Hm as [Hm Hb]. apply in_gridD_iff in Hm. destruct Hm as [Hl _].
        split; [unfold sgn; rewrite map_length; exact Hl | exact Hb].
      + intros [Hl Hb]. exists (map ung x).
        assert (Hx : Forall (fun c => (Z.abs c <= Kc)%Z) x) by (apply in_band_Forall; exact Hb).
        assert (E : sgn (map ung x) = x).
        { unfold sgn. rewrite map_map. rewrite <- (map_id x) at 2. apply map_ext_in. intros c Hc. rewrite Forall_forall in Hx. apply sg_ung. apply Hx. exact Hc. }
        split; [exact E|]. apply filter_In. split; [|rewrite E; exact Hb].
        apply in_gridD_iff. split; [rewrite map_length; exact Hl|]. rewrite Forall_forall in *. intros b Hbm. apply in_map_iff in Hbm.
        destruct Hbm as (c & <- & Hc). apply sg_ung. apply Hx. exact Hc.
  Qed.
End Index.

Section Link.
  Variable F : FieldT.
  Add Field Ffbl : (fth F).
  Local Open Scope fld_scope.
  Variable n : nat.
  Hypothesis n_pos : (0 < n)%nat.
  Notation N := (Z.of_nat n).
  Variable Kc : Z.
  Hypothesis K_nonneg : (0 <= Kc)%Z.
  Hypothesis K_small : (2 * Kc < N)%Z.
  Notation K := (fops F).

  (* a signed-index spectrum, masked, viewed on the stored grid *)
  Definition on_grid (U : field F) : list nat -> K := fun m => msk F Kc U (sgn n m).

  Theorem cconvD_is_cconv2 D (U V : field F) k : length k = D -> Forall (fun b => (b < n)%nat) k ->
    cconvD n D (on_grid U) (on_grid V) k = cconv2 F D N Kc U V (sgn n k).
  Proof.
    intros Hl Hk. unfold cconvD, cconv2, sumD, on_grid.
    rewrite (fsum_map_ext F _ _ (fun m => msk F Kc U (sgn n m) * msk F Kc V (wrapD N (subi (sgn n k) (sgn n m))))).
    2:{ intros m Hm. apply (in_gridD_iff n n_pos) in Hm. destruct Hm as [Hlm Hfm]. rewrite (sgn_subD n n_pos k m) by (try assumption; lia). reflexivity. }
    rewrite (fsum_filter F (fun m => in_band Kc (sgn n m))).
    2:{ intros m _ E. unfold msk at 1. rewrite E. ring. }
    rewrite <- (fsum_perm F (fun x => msk F Kc U x * msk F Kc V (wrapD N (subi (sgn n k) x))) _ _ (band_is_image n n_pos Kc K_nonneg K_small D)).
    rewrite map_map. reflexivity.
  Qed.

  (* ---- the chain: FFT contract => convolution theorem => band sum => prod2 ---- *)
  Variables w w' : K.
  Hypothesis w_n : fpow w n = 1.
  Hypothesis w_prim : forall m, (0 < m < n)%nat -> fpow w m <> 1.
  Hypothesis w_inv : w * w' = 1.

  Lemma cconvD_ext_grid D (A A' B B' : list nat -> K) k : length k = D ->
    (forall m, in_grid n D m -> A m = A' m) -> (forall m, in_grid n D m -> B m = B' m) -> cconvD n D A B k = cconvD n D A' B' k.
  Proof.
    intros Hl HA HB. unfold cconvD. apply (sumD_ext F n D). intros m Hm. apply (in_gridD_iff n n_pos) in Hm. destruct Hm as [Hlm Hfm].
    rewrite HA by (split; assumption). rewrite HB; [reflexivity|].
    destruct (subD_grid n n_pos k m ltac:(lia)) as [H1 H2]. split; [lia | exact H1].
  Qed.

  (* rfftn(irfftn U * irfftn V), restricted to the band, is the model's pseudo-spectral product: for band-masked spectra U, V given on signed
     wavenumbers, u = irfftn U and v = irfftn V on the n^D grid, and every stored index k *)
  Theorem fft_product_is_prod2 D (U V : field F) k : in_grid n D k ->
    let u := idftI n D w' (on_grid U) in
    let v := idftI n D w' (on_grid V) in
    (if in_band Kc (sgn n k) then dftD n D w (fun j => u j * v j) k else 0) = prod2 F D N Kc U V (sgn n k).
  Proof.
    intros Hk u v. unfold prod2, msk at 1. destruct (in_band Kc (sgn n k)); [|reflexivity].
    rewrite (dftD_convolution F n w w' n_pos w_n w_prim w_inv D u v k Hk).
    destruct Hk as [Hl Hf].
    rewrite (cconvD_ext_grid D _ (on_grid U) _ (on_grid V) k Hl).
    - rewrite (cconvD_is_cconv2 D U V k Hl Hf). unfold nfac, npts.
      pose proof (fpow_neq0 F _ D (n_nz F n n_pos)) as Hp. field. exact Hp.
    - intros m Hm. apply (dftD_idftI F n w w' n_pos w_n w_prim w_inv). exact Hm.
    - intros m Hm. apply (dftD_idftI F n w w' n_pos w_n w_prim w_inv). exact Hm.
  Qed.
End Link.
