(* C13: how the built-in nonlinear terms depend on the domain extent.  The derivative operator carries the factor s = 2 pi / L; a term with
   one derivative is linear in s, the gradient norm quadratic, the polynomial terms independent, so the physical term with scale b on the
   domain L equals the unit-domain term with the scale b s (resp. b s^2): exactly the normalisation beta_1 = b dt / L, beta_2 = b dt / L^2 of
   the normalized steppers once multiplied by the step dt (C13_only_groups_matter).  For every product operator P2/P3, every D, every state. *)
From Coq Require Import ZArith QArith List Bool Field Ring Lia.
From EXV Require Import Base.Scalar Base.FieldLemmas Spectral.Symbols Layout.Freq Nonlin.Conv Nonlin.Terms.
Import ListNotations.

Section Scales.
  Variable F : FieldT.
  Add Field Ffsc : (fth F).
  Local Open Scope fld_scope.
  Variable P2 : field F -> field F -> field F.
  (* the products are bilinear in scalars (true of prod2: Nonlin/ConvProofs, AD/DerivProofs) *)
  Hypothesis P2_scal_l : forall c U V k, P2 (fun x => c * U x) V k = c * P2 U V k.
  Hypothesis P2_scal_r : forall c U V k, P2 U (fun x => c * V x) k = c * P2 U V k.
  Hypothesis P2_ext : forall U U' V V' k, (forall x, U x = U' x) -> (forall x, V x = V' x) -> P2 U V k = P2 U' V' k.
  Variables (ii s : F) (D : nat).

  Lemma dc_scale c k : dc F ii s c k = s * dc F ii 1 c k.
  Proof. unfold dc. ring. Qed.

  Theorem conv_sc_cons_scale b u k : conv_sc_cons F P2 ii s D b u k = conv_sc_cons F P2 ii 1 D (b * s) u k.
  Proof.
    unfold conv_sc_cons, fscal, fmulp, fsumf. rewrite !map_map.
    rewrite (fsum_map_ext F _ _ (fun c => s * dc F ii 1 c k)) by (intros; apply dc_scale). rewrite fsum_map_scal. ring.
  Qed.

  Theorem conv_sc_noncons_scale b u k : conv_sc_noncons F P2 ii s D b u k = conv_sc_noncons F P2 ii 1 D (b * s) u k.
  Proof.
    unfold conv_sc_noncons, fscal, fsumf. rewrite !map_map.
    rewrite (fsum_map_ext F _ _ (fun c => s * P2 u (fmulp F (dc F ii 1 c) u) k)).
    - rewrite fsum_map_scal. ring.
    - intros c _. rewrite <- P2_scal_r. apply P2_ext; [reflexivity|]. intros x. unfold fmulp. rewrite dc_scale. ring.
  Qed.

  Theorem gradient_norm_scale b zf u k : gradient_norm F P2 ii s D b zf u k = gradient_norm F P2 ii 1 D (b * s * s) zf u k.
  Proof.
    unfold gradient_norm. cbv zeta. unfold fscal.
    assert (E : fsumf F (map (fun c => P2 (fmulp F (dc F ii s c) u) (fmulp F (dc F ii s c) u)) (axes D)) k
                = s * s * fsumf F (map (fun c => P2 (fmulp F (dc F ii 1 c) u) (fmulp F (dc F ii 1 c) u)) (axes D)) k).
    { unfold fsumf. rewrite !map_map. rewrite <- fsum_map_scal. apply fsum_map_ext. intros c _.
      transitivity (P2 (fun x => s * fmulp F (dc F ii 1 c) u x) (fun x => s * fmulp F (dc F ii 1 c) u x) k).
      - apply P2_ext; intros x; unfold fmulp; rewrite dc_scale; ring.
      - rewrite P2_scal_l, P2_scal_r. ring. }
    destruct zf; [destruct (is_zero k); [ring|] |]; rewrite E; ring.
  Qed.

  (* the polynomial terms (Nonlin/Terms.v polynomial) do not take the derivative operator at all: they are independent of the domain extent by construction *)
End Scales.

(* the hypotheses hold for the pseudo-spectral product of the code *)
Section Prod2Scal.
  Variable F : FieldT.
  Add Field Ffsc2 : (fth F).
  Local Open Scope fld_scope.
  Variables (D : nat) (N Kc : Z).
  Lemma prod2_scal_l c (U V : field F) k : prod2 F D N Kc (fun x => c * U x) V k = c * prod2 F D N Kc U V k.
  Proof.
    assert (E : cconv2 F D N Kc (fun x => c * U x) V k = c * cconv2 F D N Kc U V k).
    { unfold cconv2. rewrite <- fsum_map_scal. apply fsum_map_ext. intros m _. unfold msk. destruct (in_band Kc m); ring. }
    unfold prod2, msk. destruct (in_band Kc k); [rewrite E|]; ring.
  Qed.
  Lemma prod2_scal_r c (U V : field F) k : prod2 F D N Kc U (fun x => c * V x) k = c * prod2 F D N Kc U V k.
  Proof.
    assert (E : cconv2 F D N Kc U (fun x => c * V x) k = c * cconv2 F D N Kc U V k).
    { unfold cconv2. rewrite <- fsum_map_scal. apply fsum_map_ext. intros m _. unfold msk. destruct (in_band Kc (wrapD N (subi k m))); ring. }
    unfold prod2, msk. destruct (in_band Kc k); [rewrite E|]; ring.
  Qed.
  Lemma prod2_ext_all (U U' V V' : field F) k : (forall x, U x = U' x) -> (forall x, V x = V' x) -> prod2 F D N Kc U V k = prod2 F D N Kc U' V' k.
  Proof.
    intros HU HV.
    assert (E : cconv2 F D N Kc U V k = cconv2 F D N Kc U' V' k).
    { unfold cconv2. apply fsum_map_ext. intros m _. unfold msk. rewrite HU, HV. reflexivity. }
    unfold prod2, msk. rewrite E. reflexivity.
  Qed.

  Variables (ii s : F).
  Theorem builtin_terms_scale (b : F) (zf : bool) (u : field F) (k : idx) :
    conv_sc_cons F (prod2 F D N Kc) ii s D b u k = conv_sc_cons F (prod2 F D N Kc) ii 1 D (b * s) u k
    /\ conv_sc_noncons F (prod2 F D N Kc) ii s D b u k = conv_sc_noncons F (prod2 F D N Kc) ii 1 D (b * s) u k
    /\ gradient_norm F (prod2 F D N Kc) ii s D b zf u k = gradient_norm F (prod2 F D N Kc) ii 1 D (b * s * s) zf u k.
  Proof.
    split; [|split].
    - apply conv_sc_cons_scale.
    - apply conv_sc_noncons_scale; [apply prod2_scal_r | apply prod2_ext_all].
    - apply gradient_norm_scale; [apply prod2_scal_l | apply prod2_scal_r | apply prod2_ext_all].
  Qed.
End Prod2Scal.
