(* C09: the convective terms do no work on band-limited states.
   The pairing <a, b> = sum_{k in band} a(-k) b(k) is (N^D times) the L^2 inner product of the real fields.  With the alias-free product
   (3K < N) the work of a quadratic term is a sum over triples a + m + c = 0 in the band,
       T(f, g, h) = sum_{a, m in band} f(a) g(m) h(-a-m),
   which is symmetric under permuting its three slots (reflection m -> -a-m of the band).  A derivative symbol phi is additive and odd, so
   phi(a) + phi(m) + phi(-a-m) = 0 and T(phi f, g, h) + T(f, phi g, h) + T(f, g, phi h) = 0: integration by parts in Fourier space. *)
From Coq Require Import ZArith QArith List Bool Field Ring Lia Permutation.
From EXV Require Import Base.Scalar Base.FieldLemmas Spectral.Symbols Layout.Freq Nonlin.Conv Nonlin.ConvProofs Nonlin.Terms Nonlin.MeanFree.
Import ListNotations.

(* reflection m -> -a - m *)
Definition refl (a m : idx) : idx := subi (negi a) m.

Section Refl.
  Local Open Scope Z_scope.
  Lemma refl_length a m : length a = length m -> length (refl a m) = length m.
  Proof. unfold refl, subi, negi. revert m. induction a as [|x a IH]; intros [|y m] H; cbn in *; try discriminate; try reflexivity. f_equal. apply IH. lia. Qed.
  Lemma refl_invol a m : length a = length m -> refl a (refl a m) = m.
  Proof. unfold refl, subi, negi. revert m. induction a as [|x a IH]; intros [|y m] H; cbn in *; try discriminate; try reflexivity. f_equal; [lia | apply IH; lia]. Qed.
  Lemma refl_comm a m : length a = length m -> refl a m = refl m a.
  Proof. unfold refl, subi, negi. revert m. induction a as [|x a IH]; intros [|y m] H; cbn in *; try discriminate; try reflexivity. f_equal; [lia | apply IH; lia]. Qed.
  Lemma refl_nth a m c : length a = length m -> nth c (refl a m) 0 = - nth c a 0 - nth c m 0.
  Proof.
    unfold refl, subi, negi. revert m c. induction a as [|x a IH]; intros [|y m] c H; cbn in *; try discriminate.
    - destruct c; reflexivity.
    - destruct c as [|c]; [reflexivity | apply IH; lia].
  Qed.
  Lemma refl_negi_zero a : refl a (negi a) = repeat 0 (length a).
  Proof. unfold refl, subi, negi. induction a as [|x a IH]; cbn; [reflexivity|]. f_equal; [lia | exact IH]. Qed.

  Lemma NoDup_map_in {A B} (f : A -> B) (l : list A) :
    (forall x y, In x l -> In y l -> f x = f y -> x = y) -> NoDup l -> NoDup (map f l).
  Proof.
    intros Hinj H. induction H as [|a l Ha H IH]; cbn [map]; constructor.
    - rewrite in_map_iff. intros (x & E & Hx). apply Hinj in E; [subst; contradiction | right; exact Hx | left; reflexivity].
    - apply IH. intros x y Hx Hy. apply Hinj; right; assumption.
  Qed.

  (* the part of the band whose reflection stays in the band is mapped onto itself *)
  Lemma refl_band_perm D Kc a : 0 <= Kc -> length a = D ->
    let L := filter (fun m => in_band Kc (refl a m)) (bandD D Kc) in Permutation (map (refl a) L) L.
  Proof.
    intros HK Ha L.
    assert (HL : forall m, In m L <-> (length m = D /\ in_band Kc m = true /\ in_band Kc (refl a m) = true)).
    { intros m. unfold L. rewrite filter_In, in_bandD by exact HK. tauto. }
    apply NoDup_Permutation.
    - apply NoDup_map_in; [|apply NoDup_filter, NoDup_bandD].
      intros x y Hx Hy E. apply HL in Hx, Hy. rewrite <- (refl_invol a x), <- (refl_invol a y), E by lia. reflexivity.
    - apply NoDup_filter, NoDup_bandD.
    - intros x. rewrite in_map_iff. split.
      + intros (m & <- & Hm). apply HL in Hm. destruct Hm as (Hl & Hb & Hr). apply HL. rewrite refl_length, refl_invol by lia. tauto.
      + intros Hx. apply HL in Hx. destruct Hx as (Hl & Hb & Hr). exists (refl a x). split; [apply refl_invol; lia|].
        apply HL. rewrite refl_length, refl_invol by lia. tauto.
  Qed.
End Refl.

Section Energy.
  Variable F : FieldT.
  Add Field Ffe : (fth F).
  Local Open Scope fld_scope.
  Variables (D : nat) (N Kc : Z).
  Hypothesis N_pos : (0 < N)%Z.
  Hypothesis K_nonneg : (0 <= Kc)%Z.
  Hypothesis K_small : (3 * Kc < N)%Z.
  Let K2 : (2 * Kc < N)%Z. Proof. lia. Qed.
  Notation B := (bandD D Kc).

  Definition masked (f : field F) : Prop := forall k, in_band Kc k = false -> f k = 0.
  Lemma masked_msk f : masked (msk F Kc f).
  Proof. intros k H. unfold msk. rewrite H. reflexivity. Qed.
  Lemma masked_mul (p f : field F) : masked f -> masked (fun k => p k * f k).
  Proof. intros H k Hk. rewrite (H k Hk). ring. Qed.

  Lemma fsum_filter {A} (p : A -> bool) (f : A -> F) (l : list A) :
    (forall x, In x l -> p x = false -> f x = 0) -> fsum (map f l) = fsum (map f (filter p l)).
  Proof.
    induction l as [|x l IH]; intros H; cbn [map filter fsum]; [reflexivity|].
    rewrite IH by (intros y Hy; apply H; right; exact Hy).
    destruct (p x) eqn:E; cbn [map fsum]; [reflexivity|]. rewrite (H x (or_introl eq_refl) E). ring.
  Qed.

  (* sum over the band re-indexed by the reflection m -> -a-m (both factors vanish off the band) *)
  Lemma refl_sum a (g h : field F) : In a B -> masked g -> masked h ->
    fsum (map (fun m => g m * h (refl a m)) B) = fsum (map (fun m => g (refl a m) * h m) B).
  Proof.
    intros Ha Hg Hh. apply (in_bandD D Kc a K_nonneg) in Ha. destruct Ha as [Hla _].
    rewrite (fsum_filter (fun m => in_band Kc (refl a m)) (fun m => g m * h (refl a m))).
    2: { intros m _ E. rewrite (Hh _ E). ring. }
    rewrite (fsum_filter (fun m => in_band Kc (refl a m)) (fun m => g (refl a m) * h m)).
    2: { intros m _ E. rewrite (Hg _ E). ring. }
    pose proof (refl_band_perm D Kc a K_nonneg Hla) as HP. cbv zeta in HP.
    set (L := filter (fun m => in_band Kc (refl a m)) B) in *.
    rewrite <- (fsum_perm F (fun m => g m * h (refl a m)) _ _ HP). rewrite map_map.
    apply fsum_map_ext. intros m Hm. unfold L in Hm. apply filter_In in Hm. destruct Hm as [Hm _].
    apply (in_bandD D Kc m K_nonneg) in Hm. destruct Hm as [Hlm _]. rewrite refl_invol by lia. reflexivity.
  Qed.

  (* the triple sum *)
  Definition T3 (f g h : field F) : F := fsum (map (fun a => fsum (map (fun m => f a * g m * h (refl a m)) B)) B).

  Lemma T3_ext f f' g g' h h' : (forall k, in_band Kc k = true -> f k = f' k) -> (forall k, in_band Kc k = true -> g k = g' k) -> (forall k, h k = h' k) ->
    T3 f g h = T3 f' g' h'.
  Proof.
    intros Hf Hg Hh. unfold T3. apply fsum_map_ext. intros a Ha. apply fsum_map_ext. intros m Hm.
    apply (in_bandD D Kc _ K_nonneg) in Ha, Hm. rewrite (Hf a), (Hg m), Hh by tauto. reflexivity.
  Qed.

  Lemma T3_swap12 f g h : T3 f g h = T3 g f h.
  Proof.
    unfold T3. rewrite fsum_map_swap. apply fsum_map_ext. intros m Hm. apply fsum_map_ext. intros a Ha.
    apply (in_bandD D Kc _ K_nonneg) in Ha, Hm. rewrite (refl_comm a m) by lia. ring.
  Qed.

  Lemma T3_swap23 f g h : masked g -> masked h -> T3 f g h = T3 f h g.
  Proof.
    intros Hg Hh. unfold T3. apply fsum_map_ext. intros a Ha.
    transitivity (f a * fsum (map (fun m => g m * h (refl a m)) B)).
    - rewrite <- fsum_map_scal. apply fsum_map_ext. intros; ring.
    - rewrite (refl_sum a g h Ha Hg Hh). rewrite <- fsum_map_scal. apply fsum_map_ext. intros; ring.
  Qed.

  Lemma T3_add1 f f' g h : T3 (fun k => f k + f' k) g h = T3 f g h + T3 f' g h.
  Proof. unfold T3. rewrite <- fsum_map_add. apply fsum_map_ext. intros a _. rewrite <- fsum_map_add. apply fsum_map_ext. intros; ring. Qed.
  Lemma T3_scal1 c f g h : T3 (fun k => c * f k) g h = c * T3 f g h.
  Proof. unfold T3. rewrite <- fsum_map_scal. apply fsum_map_ext. intros a _. rewrite <- fsum_map_scal. apply fsum_map_ext. intros; ring. Qed.

  (* derivative symbols: additive and odd on index vectors of length D *)
  Definition additive (phi : field F) : Prop := forall a m, length a = D -> length m = D -> phi a + phi m + phi (refl a m) = 0.

  Lemma dc_additive ii s c : additive (dc F ii s c).
  Proof. intros a m Ha Hm. unfold dc. rewrite refl_nth by lia. rewrite !fz_sub_local. ring. Qed.
End Energy.
