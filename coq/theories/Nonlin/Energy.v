(* C09: the convective terms do no work on band-limited states.
   The pairing <a, b> = sum_{k in band} a(-k) b(k) is (N^D times) the L^2 inner product of the real fields.  With the alias-free product
   (3K < N) the work of a quadratic term is a sum over triples a + m + c = 0 in the band,
       T(f, g, h) = sum_{a, m in band} f(a) g(m) h(-a-m),
   which is symmetric under permuting its three slots (reflection m -> -a-m of the band).  A derivative symbol phi is additive and odd, so
   phi(a) + phi(m) + phi(-a-m) = 0 and T(phi f, g, h) + T(f, phi g, h) + T(f, g, phi h) = 0: integration by parts in Fourier space. *)
From Coq Require Import ZArith QArith List Bool Field Ring Lia Permutation.
From EXV Require Import Base.Scalar Base.FieldLemmas Spectral.Symbols Layout.Freq Nonlin.Conv Nonlin.ConvProofs Nonlin.Terms Nonlin.MeanFree.
Import ListNotations.

(* reflection m -> -a - m *)
Definition refl (a m : idx) : idx := subi (negi a) m.

Section Refl.
  Local Open Scope Z_scope.
  Lemma refl_length a m : length a = length m -> length (refl a m) = length m.
  Proof. unfold refl, subi, negi. revert m. induction a as [|x a IH]; intros [|y m] H; cbn in *; try discriminate; try reflexivity. f_equal. apply IH. lia. Qed.
  Lemma refl_invol a m : length a = length m -> refl a (refl a m) = m.
  Proof. unfold refl, subi, negi. revert m. induction a as [|x a IH]; intros [|y m] H; cbn in *; try discriminate; try reflexivity. f_equal; [lia | apply IH; lia]. Qed.
  Lemma refl_comm a m : length a = length m -> refl a m = refl m a.
  Proof. unfold refl, subi, negi. revert m. induction a as [|x a IH]; intros [|y m] H; cbn in *; try discriminate; try reflexivity. f_equal; [lia | apply IH; lia]. Qed.
  Lemma refl_nth a m c : length a = length m -> nth c (refl a m) 0 = - nth c a 0 - nth c m 0.
  Proof.
    unfold refl, subi, negi. revert m c. induction a as [|x a IH]; intros [|y m] c H; cbn in *; try discriminate.
    - destruct c; reflexivity.
    - destruct c as [|c]; [reflexivity | apply IH; lia].
  Qed.
  Lemma refl_negi_zero a : refl a (negi a) = repeat 0 (length a).
  Proof. unfold refl, subi, negi. induction a as [|x a IH]; cbn; [reflexivity|]. f_equal; [lia | exact IH]. Qed.

  Lemma NoDup_map_in {A B} (f : A -> B) (l : list A) :
    (forall x y, In x l -> In y l -> f x = f y -> x = y) -> NoDup l -> NoDup (map f l).
  Proof.
    intros Hinj H. induction H as [|a l Ha H IH]; cbn [map]; constructor.
    - rewrite in_map_iff. intros (x & E & Hx). apply Hinj in E; [subst; contradiction | right; exact Hx | left; reflexivity].
    - apply IH. intros x y Hx Hy. apply Hinj; right; assumption.
  Qed.

  (* the part of the band whose reflection stays in the band is mapped onto itself *)
  Lemma refl_band_perm D Kc a : 0 <= Kc -> length a = D ->
    let L := filter (fun m => in_band Kc (refl a m)) (bandD D Kc) in Permutation (map (refl a) L) L.
  Proof.
    intros HK Ha L.
    assert (HL : forall m, In m L <-> (length m = D /\ in_band Kc m = true /\ in_band Kc (refl a m) = true)).
    { intros m. unfold L. rewrite filter_In, in_bandD by exact HK. tauto. }
    apply NoDup_Permutation.
    - apply NoDup_map_in; [|apply NoDup_filter, NoDup_bandD].
      intros x y Hx Hy E. apply HL in Hx, Hy. rewrite <- (refl_invol a x), <- (refl_invol a y), E by lia. reflexivity.
    - apply NoDup_filter, NoDup_bandD.
    - intros x. rewrite in_map_iff. split.
      + intros (m & <- & Hm). apply HL in Hm. destruct Hm as (Hl & Hb & Hr). apply HL. rewrite refl_length, refl_invol by lia. tauto.
      + intros Hx. apply HL in Hx. destruct Hx as (Hl & Hb & Hr). exists (refl a x). split; [apply refl_invol; lia|].
        apply HL. rewrite refl_length, refl_invol by lia. tauto.
  Qed.
End Refl.

Section Energy.
  Variable F : FieldT.
  Add Field Ffe : (fth F).
  Local Open Scope fld_scope.
  Variables (D : nat) (N Kc : Z).
  Hypothesis N_pos : (0 < N)%Z.
  Hypothesis K_nonneg : (0 <= Kc)%Z.
  Hypothesis K_small : (3 * Kc < N)%Z.
  Let K2 : (2 * Kc < N)%Z. Proof. lia. Qed.
  Notation B := (bandD D Kc).

  Definition masked (f : field F) : Prop := forall k, in_band Kc k = false -> f k = 0.
  Lemma masked_msk f : masked (msk F Kc f).
  Proof. intros k H. unfold msk. rewrite H. reflexivity. Qed.
  Lemma masked_mul (p f : field F) : masked f -> masked (fun k => p k * f k).
  Proof. intros H k Hk. rewrite (H k Hk). ring. Qed.

  Lemma fsum_filter {A} (p : A -> bool) (f : A -> F) (l : list A) :
    (forall x, In x l -> p x = false -> f x = 0) -> fsum (map f l) = fsum (map f (filter p l)).
  Proof.
    induction l as [|x l IH]; intros H; cbn [map filter fsum]; [reflexivity|].
    rewrite IH by (intros y Hy; apply H; right; exact Hy).
    destruct (p x) eqn:E; cbn [map fsum]; [reflexivity|]. rewrite (H x (or_introl eq_refl) E). ring.
  Qed.

  (* sum over the band re-indexed by the reflection m -> -a-m (both factors vanish off the band) *)
  Lemma refl_sum a (g h : field F) : In a B -> masked g -> masked h ->
    fsum (map (fun m => g m * h (refl a m)) B) = fsum (map (fun m => g (refl a m) * h m) B).
  Proof.
    intros Ha Hg Hh. apply (in_bandD D Kc a K_nonneg) in Ha. destruct Ha as [Hla _].
    rewrite (fsum_filter (fun m => in_band Kc (refl a m)) (fun m => g m * h (refl a m))).
    2: { intros m _ E. rewrite (Hh _ E). ring. }
    rewrite (fsum_filter (fun m => in_band Kc (refl a m)) (fun m => g (refl a m) * h m)).
    2: { intros m _ E. rewrite (Hg _ E). ring. }
    pose proof (refl_band_perm D Kc a K_nonneg Hla) as HP. cbv zeta in HP.
    set (L := filter (fun m => in_band Kc (refl a m)) B) in *.
    rewrite <- (fsum_perm F (fun m => g m * h (refl a m)) _ _ HP). rewrite map_map.
    apply fsum_map_ext. intros m Hm. unfold L in Hm. apply filter_In in Hm. destruct Hm as [Hm _].
    apply (in_bandD D Kc m K_nonneg) in Hm. destruct Hm as [Hlm _]. rewrite refl_invol by lia. reflexivity.
  Qed.

  (* the triple sum *)
  Definition T3 (f g h : field F) : F := fsum (map (fun a => fsum (map (fun m => f a * g m * h (refl a m)) B)) B).

  Lemma T3_ext f f' g g' h h' : (forall k, in_band Kc k = true -> f k = f' k) -> (forall k, in_band Kc k = true -> g k = g' k) -> (forall k, h k = h' k) ->
    T3 f g h = T3 f' g' h'.
  Proof.
    intros Hf Hg Hh. unfold T3. apply fsum_map_ext. intros a Ha. apply fsum_map_ext. intros m Hm.
    apply (in_bandD D Kc _ K_nonneg) in Ha, Hm. rewrite (Hf a), (Hg m), Hh by tauto. reflexivity.
  Qed.

  Lemma T3_swap12 f g h : T3 f g h = T3 g f h.
  Proof.
    unfold T3. rewrite fsum_map_swap. apply fsum_map_ext. intros m Hm. apply fsum_map_ext. intros a Ha.
    apply (in_bandD D Kc _ K_nonneg) in Ha, Hm. rewrite (refl_comm a m) by lia. ring.
  Qed.

  Lemma T3_swap23 f g h : masked g -> masked h -> T3 f g h = T3 f h g.
  Proof.
    intros Hg Hh. unfold T3. apply fsum_map_ext. intros a Ha.
    transitivity (f a * fsum (map (fun m => g m * h (refl a m)) B)).
    - rewrite <- fsum_map_scal. apply fsum_map_ext. intros; ring.
    - rewrite (refl_sum a g h Ha Hg Hh). rewrite <- fsum_map_scal. apply fsum_map_ext. intros; ring.
  Qed.

  Lemma T3_add1 f f' g h : T3 (fun k => f k + f' k) g h = T3 f g h + T3 f' g h.
  Proof. unfold T3. rewrite <- fsum_map_add. apply fsum_map_ext. intros a _. rewrite <- fsum_map_add. apply fsum_map_ext. intros; ring. Qed.
  Lemma T3_scal1 c f g h : T3 (fun k => c * f k) g h = c * T3 f g h.
  Proof. unfold T3. rewrite <- fsum_map_scal. apply fsum_map_ext. intros a _. rewrite <- fsum_map_scal. apply fsum_map_ext. intros; ring. Qed.

  (* derivative symbols: additive and odd on index vectors of length D *)
  Definition additive (phi : field F) : Prop := forall a m, length a = D -> length m = D -> phi a + phi m + phi (refl a m) = 0.

  Lemma dc_additive ii s c : additive (dc F ii s c).
  Proof. intros a m Ha Hm. unfold dc. rewrite refl_nth by lia. rewrite !fz_sub, fz_opp. ring. Qed.

  Lemma fsumf_additive (l : list (field F)) : Forall additive l -> additive (fsumf F l).
  Proof.
    intros H a m Ha Hm. unfold fsumf. rewrite <- !fsum_map_add.
    rewrite (fsum_map_ext F _ _ (fun _ => 0)); [apply fsum_map_zero|].
    intros f Hf. rewrite Forall_forall in H. apply (H f Hf); assumption.
  Qed.

  (* integration by parts: moving a derivative symbol through the three slots *)
  Lemma T3_by_parts phi f g h : additive phi ->
    T3 (fun k => phi k * f k) g h + T3 f (fun k => phi k * g k) h + T3 f g (fun k => phi k * h k) = 0.
  Proof.
    intros Hphi. unfold T3. rewrite <- !fsum_map_add. rewrite (fsum_map_ext F _ _ (fun _ => 0)); [apply fsum_map_zero|].
    intros a Ha. rewrite <- !fsum_map_add. rewrite (fsum_map_ext F _ _ (fun _ => 0)); [apply fsum_map_zero|].
    intros m Hm. apply (in_bandD D Kc _ K_nonneg) in Ha, Hm.
    transitivity ((phi a + phi m + phi (refl a m)) * (f a * g m * h (refl a m))); [ring|].
    rewrite (Hphi a m) by tauto. ring.
  Qed.

  Let three_nz : @fz F 3 <> 0. Proof. apply fz_neq0. discriminate. Qed.

  (* the fully symmetric case: sum over triples of phi(one slot) u u u vanishes *)
  Lemma T3_cubic_zero phi u : additive phi -> masked u ->
    T3 (fun k => phi k * u k) u u = 0 /\ T3 u u (fun k => phi k * u k) = 0.
  Proof.
    intros Hphi Hu. pose proof (T3_by_parts phi u u u Hphi) as H.
    assert (Hpu : masked (fun k => phi k * u k)) by (apply masked_mul; exact Hu).
    assert (E2 : T3 u (fun k => phi k * u k) u = T3 (fun k => phi k * u k) u u) by apply T3_swap12.
    assert (E3 : T3 u u (fun k => phi k * u k) = T3 (fun k => phi k * u k) u u).
    { rewrite (T3_swap23 u u (fun k => phi k * u k) Hu Hpu). exact E2. }
    rewrite E2, E3 in H.
    assert (H3 : fz 3 * T3 (fun k => phi k * u k) u u = 0) by (cbn [fz fpos]; rewrite <- H; ring).
    apply (fmul_eq0 F) in H3. destruct H3 as [H3|H3]; [contradiction|]. split; [exact H3 | rewrite E3; exact H3].
  Qed.

  (* pairing <f, g> = sum_k f(-k) g(k) over the band *)
  Definition pairing (f g : field F) : F := fsum (map (fun k => f (negi k) * g k) B).

  Lemma pairing_prod2 (f U V : field F) : pairing f (prod2 F D N Kc U V) = nfac F D N * T3 f (msk F Kc U) (msk F Kc V).
  Proof.
    unfold pairing, T3. rewrite (band_reindex F D Kc K_nonneg). rewrite <- fsum_map_scal. apply fsum_map_ext. intros a Ha.
    apply (in_bandD D Kc _ K_nonneg) in Ha. destruct Ha as [Hla Hba].
    rewrite negi_invol, (prod2_alias_free F D N Kc N_pos K_nonneg U V (negi a) K_small). unfold prod2L, msk at 1.
    rewrite in_band_negi, Hba. unfold lconv2. rewrite <- !fsum_map_scal. apply fsum_map_ext. intros m _. unfold refl. ring.
  Qed.

  Lemma pairing_scal_r c f g : pairing f (fun k => c * g k) = c * pairing f g.
  Proof. unfold pairing. rewrite <- fsum_map_scal. apply fsum_map_ext. intros; ring. Qed.
  Lemma pairing_add_r f g g' : pairing f (fun k => g k + g' k) = pairing f g + pairing f g'.
  Proof. unfold pairing. rewrite <- fsum_map_add. apply fsum_map_ext. intros; ring. Qed.
  Lemma pairing_fadd f g g' : pairing f (fadd F g g') = pairing f g + pairing f g'.
  Proof. unfold fadd. apply pairing_add_r. Qed.
  Lemma pairing_mul_r (p f g : field F) : pairing f (fun k => p k * g k) = pairing (fun k => p (negi k) * f k) g.
  Proof. unfold pairing. apply fsum_map_ext. intros k _. rewrite negi_invol. ring. Qed.
  Lemma pairing_ext_r f g g' : (forall k, g k = g' k) -> pairing f g = pairing f g'.
  Proof. intros H. unfold pairing. apply fsum_map_ext. intros k _. rewrite H. reflexivity. Qed.

  Variables (ii s : F).

  Lemma pairing_fsumf f (l : list (field F)) : pairing f (fsumf F l) = fsum (map (pairing f) l).
  Proof.
    induction l as [|g l IH]; cbn [map fsum].
    - unfold pairing, fsumf. cbn [map fsum]. rewrite (fsum_map_ext F _ _ (fun _ => 0)); [apply fsum_map_zero | intros; ring].
    - rewrite <- IH. rewrite <- pairing_add_r. apply pairing_ext_r. intros k. reflexivity.
  Qed.

  Lemma T3_swap13 f g h : masked f -> masked h -> T3 f g h = T3 h g f.
  Proof. intros Hf Hh. rewrite (T3_swap12 f g h), (T3_swap23 g f h Hf Hh). apply T3_swap12. Qed.
  Lemma T3_scal2 c f g h : T3 f (fun k => c * g k) h = c * T3 f g h.
  Proof. rewrite T3_swap12, T3_scal1, (T3_swap12 g f h). reflexivity. Qed.

  Lemma msk_mul (p u : field F) k : msk F Kc (fmulp F p u) k = p k * msk F Kc u k.
  Proof. unfold msk, fmulp. destruct (in_band Kc k); ring. Qed.

  (* ---- Burgers-type convection, single channel ---- *)
  Definition phi_sum : field F := fsumf F (map (dc F ii s) (axes D)).
  Lemma phi_sum_additive : additive phi_sum.
  Proof. apply fsumf_additive. apply Forall_forall. intros f Hf. apply in_map_iff in Hf. destruct Hf as (c & <- & _). apply dc_additive. Qed.
  Lemma phi_sum_odd k : phi_sum (negi k) = - phi_sum k.
  Proof.
    unfold phi_sum, fsumf. rewrite !map_map. transitivity (fsum (map (fun c => - (1) * dc F ii s c k) (axes D))).
    - apply fsum_map_ext. intros c _. rewrite dc_negi. ring.
    - rewrite fsum_map_scal. ring.
  Qed.

  (* conservative form -b/2 (1.grad)(u^2): no work on u, for every state (the products mask their inputs) *)
  Theorem conv_sc_cons_no_work (b : F) (u : field F) :
    pairing (msk F Kc u) (conv_sc_cons F (prod2 F D N Kc) ii s D b u) = 0.
  Proof.
    unfold conv_sc_cons.
    change (pairing (msk F Kc u) (fun k => - b * (half F * (phi_sum k * prod2 F D N Kc u u k))) = 0).
    rewrite (pairing_scal_r (- b)), (pairing_scal_r (half F)), (pairing_mul_r phi_sum), pairing_prod2.
    rewrite (T3_ext _ (fun k => - (1) * (phi_sum k * msk F Kc u k)) _ (msk F Kc u) _ (msk F Kc u)); try reflexivity.
    - rewrite T3_scal1. destruct (T3_cubic_zero phi_sum (msk F Kc u) phi_sum_additive (masked_msk u)) as [H _]. rewrite H. ring.
    - intros k _. rewrite phi_sum_odd. ring.
  Qed.

  (* non-conservative form -b u (1.grad) u *)
  Theorem conv_sc_noncons_no_work (b : F) (u : field F) :
    pairing (msk F Kc u) (conv_sc_noncons F (prod2 F D N Kc) ii s D b u) = 0.
  Proof.
    unfold conv_sc_noncons.
    change (pairing (msk F Kc u) (fun k => - b * fsumf F (map (fun c => prod2 F D N Kc u (fmulp F (dc F ii s c) u)) (axes D)) k) = 0).
    rewrite (pairing_scal_r (- b)), pairing_fsumf, map_map.
    rewrite (fsum_map_ext F _ _ (fun _ => 0)); [rewrite fsum_map_zero; ring|].
    intros c _. rewrite pairing_prod2.
    rewrite (T3_ext _ (msk F Kc u) _ (msk F Kc u) _ (fun k => dc F ii s c k * msk F Kc u k)); try reflexivity.
    - destruct (T3_cubic_zero (dc F ii s c) (msk F Kc u) (dc_additive ii s c) (masked_msk u)) as [_ H]. rewrite H. ring.
    - intros k. apply msk_mul.
  Qed.

  (* ---- 2D vorticity convection: enstrophy and energy ---- *)
  Lemma T3_sym_deriv phi f g : additive phi -> masked f -> masked g ->
    fz 2 * T3 f g (fun k => phi k * f k) = - T3 f (fun k => phi k * g k) f.
  Proof.
    intros Hphi Hf Hg. pose proof (T3_by_parts phi f g f Hphi) as H.
    rewrite (T3_swap13 (fun k => phi k * f k) g f (masked_mul phi f Hf) Hf) in H.
    cbn [fz fpos]. transitivity (- T3 f (fun k => phi k * g k) f + (T3 f g (fun k => phi k * f k) + T3 f (fun k => phi k * g k) f + T3 f g (fun k => phi k * f k))); [ring | rewrite H; ring].
  Qed.

  Let two_nz : @fz F 2 <> 0. Proof. apply fz_neq0. discriminate. Qed.

  Section Vorticity.
    Variable lam : field F.          (* stream-function multiplier, e.g. where(lap == 0, 1, 1/lap) *)
    Variable w : field F.
    Let d0 := dc F ii s 0.
    Let d1 := dc F ii s 1.
    Let mw := msk F Kc w.
    Let psi := fun k => lam k * mw k.          (* masked stream function *)
    Let Hmw : masked mw. Proof. apply masked_msk. Qed.
    Let Hpsi : masked psi. Proof. apply masked_mul. exact Hmw. Qed.

    Definition vort_term : field F :=
      fadd F (prod2 F D N Kc (fmulp F d1 (fmulp F lam w)) (fmulp F d0 w))
             (prod2 F D N Kc (fscal F (- (1)) (fmulp F d0 (fmulp F lam w))) (fmulp F d1 w)).

    Lemma pairing_vort f : pairing f vort_term
      = nfac F D N * (T3 f (fun k => d1 k * psi k) (fun k => d0 k * mw k) - T3 f (fun k => d0 k * psi k) (fun k => d1 k * mw k)).
    Proof.
      unfold vort_term, fadd.
      rewrite pairing_add_r, !pairing_prod2.
      rewrite (T3_ext f f (msk F Kc (fmulp F d1 (fmulp F lam w))) (fun k => d1 k * psi k) (msk F Kc (fmulp F d0 w)) (fun k => d0 k * mw k)); try reflexivity.
      2: { intros k _. rewrite msk_mul, msk_mul. reflexivity. }
      2: { intros k. apply msk_mul. }
      rewrite (T3_ext f f (msk F Kc (fscal F (- (1)) (fmulp F d0 (fmulp F lam w)))) (fun k => - (1) * (d0 k * psi k)) (msk F Kc (fmulp F d1 w)) (fun k => d1 k * mw k)); try reflexivity.
      2: { intros k _. unfold msk, fscal, fmulp, psi, mw, msk. destruct (in_band Kc k); ring. }
      2: { intros k. apply msk_mul. }
      rewrite T3_scal2. ring.
    Qed.

    (* enstrophy: <w, u.grad w> = 0 *)
    Theorem vorticity_no_enstrophy_work : pairing mw vort_term = 0.
    Proof.
      rewrite pairing_vort.
      pose proof (T3_sym_deriv d0 mw (fun k => d1 k * psi k) (dc_additive ii s 0) Hmw (masked_mul d1 psi Hpsi)) as H0.
      pose proof (T3_sym_deriv d1 mw (fun k => d0 k * psi k) (dc_additive ii s 1) Hmw (masked_mul d0 psi Hpsi)) as H1.
      cbv beta in H0, H1.
      assert (E : T3 mw (fun k => d0 k * (d1 k * psi k)) mw = T3 mw (fun k => d1 k * (d0 k * psi k)) mw).
      { apply T3_ext; try reflexivity. intros; ring. }
      rewrite E in H0.
      assert (H : fz 2 * (T3 mw (fun k => d1 k * psi k) (fun k => d0 k * mw k) - T3 mw (fun k => d0 k * psi k) (fun k => d1 k * mw k)) = 0).
      { transitivity (fz 2 * T3 mw (fun k => d1 k * psi k) (fun k => d0 k * mw k) - fz 2 * T3 mw (fun k => d0 k * psi k) (fun k => d1 k * mw k)); [ring|].
        rewrite H0, H1. ring. }
      apply (fmul_eq0 F) in H. destruct H as [H|H]; [contradiction|]. rewrite H. ring.
    Qed.

    (* energy: <psi, u.grad w> = 0 *)
    Theorem vorticity_no_energy_work : pairing psi vort_term = 0.
    Proof.
      rewrite pairing_vort.
      pose proof (T3_by_parts d0 psi (fun k => d1 k * psi k) mw (dc_additive ii s 0)) as H0.
      pose proof (T3_by_parts d1 psi (fun k => d0 k * psi k) mw (dc_additive ii s 1)) as H1.
      cbv beta in H0, H1.
      assert (E : T3 psi (fun k => d0 k * (d1 k * psi k)) mw = T3 psi (fun k => d1 k * (d0 k * psi k)) mw).
      { apply T3_ext; try reflexivity. intros; ring. }
      rewrite E in H0. rewrite (T3_swap12 (fun k => d0 k * psi k) (fun k => d1 k * psi k) mw) in H0.
      transitivity (nfac F D N * ((T3 (fun k => d1 k * psi k) (fun k => d0 k * psi k) mw + T3 psi (fun k => d1 k * (d0 k * psi k)) mw + T3 psi (fun k => d1 k * psi k) (fun k => d0 k * mw k))
                                  - (T3 (fun k => d1 k * psi k) (fun k => d0 k * psi k) mw + T3 psi (fun k => d1 k * (d0 k * psi k)) mw + T3 psi (fun k => d0 k * psi k) (fun k => d1 k * mw k)))); [ring|].
      rewrite H0, H1. ring.
    Qed.
  End Vorticity.

  (* the model term of Nonlin/Terms.v is -b times vort_term with lam = where(lap == 0, 1, 1/lap) *)
  Theorem vorticity_conv_no_work (b : F) (w : field F) :
    let lam := inv_lap_one F ii s D in
    pairing (msk F Kc w) (vorticity_conv F (prod2 F D N Kc) ii s D b w) = 0
    /\ pairing (fun k => lam k * msk F Kc w k) (vorticity_conv F (prod2 F D N Kc) ii s D b w) = 0.
  Proof.
    intros lam. unfold vorticity_conv. cbv zeta.
    change (pairing (msk F Kc w) (fun k => - b * vort_term lam w k) = 0 /\ pairing (fun k => lam k * msk F Kc w k) (fun k => - b * vort_term lam w k) = 0).
    rewrite !pairing_scal_r, vorticity_no_enstrophy_work, vorticity_no_energy_work. split; ring.
  Qed.
End Energy.

(* ---- 3D rotational form u x curl u, Leray-projected: no work on divergence-free band-limited states ---- *)
Section Rot3Energy.
  Variable F : FieldT.
  Add Field Ffr : (fth F).
  Local Open Scope fld_scope.
  Variables (N Kc : Z).
  Hypothesis N_pos : (0 < N)%Z.
  Hypothesis K_nonneg : (0 <= Kc)%Z.
  Hypothesis K_small : (3 * Kc < N)%Z.
  Variables (ii s : F).
  Notation P2 := (prod2 F 3 N Kc).
  Notation pr := (pairing F 3 Kc).
  Notation T := (T3 F 3 Kc).
  Notation d := (dc F ii s).

  (* a . (a x b) = 0 at the level of band triple sums: for ANY second vector b *)
  Lemma triple_product_zero (a0 a1 a2 b0 b1 b2 : field F) :
    let c := cross F P2 [a0; a1; a2] [b0; b1; b2] in
    pr (msk F Kc a0) (nth 0 c (fzero F)) + pr (msk F Kc a1) (nth 1 c (fzero F)) + pr (msk F Kc a2) (nth 2 c (fzero F)) = 0.
  Proof.
    cbv zeta. unfold cross. cbn [nth]. unfold fadd, fscal.
    rewrite !(pairing_add_r F 3 Kc), !(pairing_scal_r F 3 Kc), !(pairing_prod2 F 3 N Kc N_pos K_nonneg K_small).
    rewrite (T3_swap12 F 3 Kc K_nonneg (msk F Kc a1) (msk F Kc a0) (msk F Kc b2)).
    rewrite (T3_swap12 F 3 Kc K_nonneg (msk F Kc a2) (msk F Kc a1) (msk F Kc b0)).
    rewrite (T3_swap12 F 3 Kc K_nonneg (msk F Kc a0) (msk F Kc a2) (msk F Kc b1)).
    ring.
  Qed.

  (* <f, grad p> = - <div f, p> = 0 for divergence-free f *)
  Lemma pairing_grad_zero (f0 f1 f2 p : field F) :
    (forall m, in_band Kc m = true -> d 0 m * f0 m + d 1 m * f1 m + d 2 m * f2 m = 0) ->
    pr f0 (fmulp F (d 0) p) + pr f1 (fmulp F (d 1) p) + pr f2 (fmulp F (d 2) p) = 0.
  Proof.
    intros Hdiv. unfold pairing, fmulp. rewrite <- !fsum_map_add. rewrite (fsum_map_ext F _ _ (fun _ => 0)); [apply fsum_map_zero|].
    intros k Hk. apply (in_bandD 3 Kc k K_nonneg) in Hk. destruct Hk as [_ Hb].
    assert (Hn : in_band Kc (negi k) = true) by (rewrite in_band_negi; exact Hb).
    pose proof (Hdiv (negi k) Hn) as H. rewrite !dc_negi in H.
    transitivity (- p k * (- d 0 k * f0 (negi k) + - d 1 k * f1 (negi k) + - d 2 k * f2 (negi k))); [ring | rewrite H; ring].
  Qed.

  Theorem projected_conv_no_work (u0 u1 u2 : field F) :
    (forall m, in_band Kc m = true -> d 0 m * u0 m + d 1 m * u1 m + d 2 m * u2 m = 0) ->
    let Nl := projected_conv F P2 ii s 3 [u0; u1; u2] in
    pr (msk F Kc u0) (nth 0 Nl (fzero F)) + pr (msk F Kc u1) (nth 1 Nl (fzero F)) + pr (msk F Kc u2) (nth 2 Nl (fzero F)) = 0.
  Proof.
    intros Hdiv. cbv zeta. unfold projected_conv.
    set (w := curl F ii s [u0; u1; u2]).
    assert (Hw : exists w0 w1 w2, w = [w0; w1; w2]) by (unfold w, curl, cross; eauto).
    destruct Hw as (w0 & w1 & w2 & Ew). rewrite Ew.
    pose proof (triple_product_zero u0 u1 u2 w0 w1 w2) as HT. cbv zeta in HT.
    set (c := cross F P2 [u0; u1; u2] [w0; w1; w2]) in *.
    assert (Hc : exists c0 c1 c2, c = [c0; c1; c2]) by (unfold c, cross; eauto).
    destruct Hc as (c0 & c1 & c2 & Ec). rewrite Ec in *. cbn [nth] in HT.
    unfold leray, axes. cbv zeta. cbn [seq map2 nth].
    rewrite !(pairing_fadd F 3 Kc).
    set (q := fscal F (- (1)) (fmulp F (inv_lap_zero F ii s 3) (fsumf F [fmulp F (dc F ii s 0) c0; fmulp F (dc F ii s 1) c1; fmulp F (dc F ii s 2) c2]))).
    pose proof (pairing_grad_zero (msk F Kc u0) (msk F Kc u1) (msk F Kc u2) q) as HG.
    assert (Hm : forall m, in_band Kc m = true -> d 0 m * msk F Kc u0 m + d 1 m * msk F Kc u1 m + d 2 m * msk F Kc u2 m = 0).
    { intros m Hb. unfold msk. rewrite Hb. apply Hdiv. exact Hb. }
    specialize (HG Hm).
    transitivity ((pr (msk F Kc u0) c0 + pr (msk F Kc u1) c1 + pr (msk F Kc u2) c2)
                  + (pr (msk F Kc u0) (fmulp F (d 0) q) + pr (msk F Kc u1) (fmulp F (d 1) q) + pr (msk F Kc u2) (fmulp F (d 2) q))); [ring|].
    rewrite HT, HG. ring.
  Qed.
End Rot3Energy.
