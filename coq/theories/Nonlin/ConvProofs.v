From Coq Require Import ZArith QArith List Bool Lia ZifyBool Field Ring.
From EXV Require Import Base.Scalar Base.FieldLemmas Spectral.Symbols Layout.Freq Nonlin.Conv.
Import ListNotations.
Ltac Zify.zify_post_hook ::= Z.to_euclidean_division_equations.

Section Wrap.
  Local Open Scope Z_scope.
  (* x ranges over sums/differences of band indices, |x| <= B; the grid resolves B + Kc < N *)
  Lemma mod_cases N x : 0 < N -> - N < x < N -> (0 <= x /\ x mod N = x) \/ (x < 0 /\ x mod N = x + N).
  Proof.
    intros HN Hx. destruct (Z_le_gt_dec 0 x) as [H|H]; [left|right]; split; try lia.
    - apply Z.mod_small. lia.
    - symmetry. apply (Z.mod_unique x N (-1) (x + N)); lia.
  Qed.

  Lemma wrap1_small N x : 0 < N -> 2 * Z.abs x < N -> wrap1 N x = x.
  Proof.
    unfold wrap1, fftfreq. intros HN Hx. destruct (mod_cases N x HN ltac:(lia)) as [[H0 ->]|[H0 ->]].
    - destruct (x <=? (N - 1) / 2) eqn:E; lia.
    - destruct (x + N <=? (N - 1) / 2) eqn:E; lia.
  Qed.

  Lemma wrap1_alias N Kc B x : 0 < N -> 0 <= Kc -> Z.abs x <= B -> B + Kc < N -> Kc < Z.abs x -> Kc < Z.abs (wrap1 N x).
  Proof.
    unfold wrap1, fftfreq. intros HN HK HB HBK Hx. destruct (mod_cases N x HN ltac:(lia)) as [[H0 ->]|[H0 ->]].
    - destruct (x <=? (N - 1) / 2) eqn:E; lia.
    - destruct (x + N <=? (N - 1) / 2) eqn:E; lia.
  Qed.

  Lemma in_band_wrap N Kc B (x : idx) : 0 < N -> 0 <= Kc -> 2 * Kc < N -> B + Kc < N ->
    Forall (fun c => Z.abs c <= B) x ->
    (in_band Kc x = true -> wrapD N x = x) /\ (in_band Kc x = false -> in_band Kc (wrapD N x) = false).
  Proof.
    intros HN HK H2K HBK HF. induction HF as [|c x Hc HF IH]; cbn [in_band forallb wrapD map].
    - split; [reflexivity | discriminate].
    - destruct IH as [IH1 IH2]. split.
      + rewrite andb_true_iff. intros [H1 H2]. f_equal; [apply wrap1_small; lia | apply IH1; exact H2].
      + rewrite andb_false_iff. intros [H|H].
        * rewrite (proj2 (Z.leb_gt _ _)); [reflexivity|]. apply (wrap1_alias N Kc B c); lia.
        * change (forallb (fun c0 => Z.abs c0 <=? Kc) (map (wrap1 N) x)) with (in_band Kc (wrapD N x)).
          rewrite (IH2 H). apply andb_false_r.
  Qed.

  Lemma subi_bound Kc B (k m : idx) :
    Forall (fun c => Z.abs c <= B) k -> in_band Kc m = true -> Forall (fun c => Z.abs c <= B + Kc) (subi k m).
  Proof.
    intros HF. revert m. induction HF as [|c k Hc HF IH]; intros m Hm; destruct m as [|d m]; cbn [subi map2]; try constructor.
    - cbn [in_band forallb] in Hm. apply andb_true_iff in Hm. lia.
    - apply IH. cbn [in_band forallb] in Hm. apply andb_true_iff in Hm. tauto.
  Qed.

  Lemma in_band_Forall Kc (k : idx) : in_band Kc k = true -> Forall (fun c => Z.abs c <= Kc) k.
  Proof.
    induction k as [|c k IH]; cbn [in_band forallb]; intros H; constructor; apply andb_true_iff in H.
    - lia.
    - apply IH. tauto.
  Qed.

  Lemma bandD_in_band D Kc m : In m (bandD D Kc) -> in_band Kc m = true.
  Proof.
    revert m. induction D as [|D IH]; cbn [bandD]; intros m Hm.
    - destruct Hm as [<-|[]]. reflexivity.
    - apply in_flat_map in Hm. destruct Hm as (c & Hc & Hm). apply in_map_iff in Hm. destruct Hm as (r & <- & Hr).
      cbn [in_band forallb]. apply andb_true_iff. split; [|apply IH; exact Hr].
      assert (Hz : forall n lo x, In x (zrange_from lo n) -> lo <= x < lo + Z.of_nat n).
      { induction n as [|n IHn]; intros lo x Hx; cbn [zrange_from] in Hx; [destruct Hx|]. destruct Hx as [<-|Hx]; [lia|]. apply IHn in Hx. lia. }
      apply Hz in Hc. lia.
  Qed.
End Wrap.

Section AliasFree.
  Variable F : FieldT.
  Add Field Ff : (fth F).
  Local Open Scope fld_scope.
  Variables (D : nat) (N Kc : Z).
  Hypothesis N_pos : (0 < N)%Z.
  Hypothesis K_nonneg : (0 <= Kc)%Z.

  (* the masked factor evaluated at the wrapped index equals the masked factor at the un-wrapped index *)
  Lemma msk_wrap B (V : field F) (x : idx) : (B + Kc < N)%Z -> (2 * Kc < N)%Z ->
    Forall (fun c => (Z.abs c <= B)%Z) x -> msk F Kc V (wrapD N x) = msk F Kc V x.
  Proof.
    intros HB H2 HF. destruct (in_band_wrap N Kc B x N_pos K_nonneg H2 HB HF) as [H1 H0].
    unfold msk. destruct (in_band Kc x) eqn:E.
    - rewrite (H1 eq_refl), E. reflexivity.
    - rewrite (H0 eq_refl). reflexivity.
  Qed.

  Lemma msk_ext (f g : field F) (k : idx) : (in_band Kc k = true -> f k = g k) -> msk F Kc f k = msk F Kc g k.
  Proof. intros H. unfold msk. destruct (in_band Kc k); [apply H; reflexivity | reflexivity]. Qed.

  (* quadratic terms: with 3 Kc < N (Orszag 2/3 rule) no alias falls into the retained band *)
  Theorem prod2_alias_free (U V : field F) (k : idx) : (3 * Kc < N)%Z -> prod2 F D N Kc U V k = prod2L F D N Kc U V k.
  Proof.
    intros H3. unfold prod2, prod2L. apply msk_ext. intros Ek.
    f_equal. unfold cconv2, lconv2. apply fsum_map_ext. intros m Hm. f_equal.
    apply (msk_wrap (Kc + Kc)); try lia.
    apply subi_bound; [apply in_band_Forall; exact Ek | apply bandD_in_band with (D := D); exact Hm].
  Qed.

  (* cubic terms: with 4 Kc < N (the 1/2 rule) *)
  Theorem prod3_alias_free (U V W : field F) (k : idx) : (4 * Kc < N)%Z -> prod3 F D N Kc U V W k = prod3L F D N Kc U V W k.
  Proof.
    intros H4. unfold prod3, prod3L. apply msk_ext. intros Ek.
    f_equal. unfold cconv3, lconv3. apply fsum_map_ext. intros m1 Hm1. apply fsum_map_ext. intros m2 Hm2. f_equal. f_equal.
    apply (msk_wrap (Kc + Kc + Kc)); try lia.
    apply subi_bound; [|apply bandD_in_band with (D := D); exact Hm2].
    apply subi_bound; [apply in_band_Forall; exact Ek | apply bandD_in_band with (D := D); exact Hm1].
  Qed.

  (* bilinearity at zero: a factor that vanishes identically kills the product *)
  Lemma prod2_zero_r (U V : field F) (k : idx) : (forall x, V x = 0) -> prod2 F D N Kc U V k = 0.
  Proof.
    intros H. unfold prod2, msk at 1. destruct (in_band Kc k); [|reflexivity].
    unfold cconv2. rewrite (fsum_map_ext F _ _ (fun _ => 0)).
    - rewrite fsum_map_zero. ring.
    - intros m _. unfold msk. destruct (in_band Kc (wrapD N (subi k m))); [rewrite H|]; ring.
  Qed.
  Lemma prod2_zero_l (U V : field F) (k : idx) : (forall x, U x = 0) -> prod2 F D N Kc U V k = 0.
  Proof.
    intros H. unfold prod2, msk at 1. destruct (in_band Kc k); [|reflexivity].
    unfold cconv2. rewrite (fsum_map_ext F _ _ (fun _ => 0)).
    - rewrite fsum_map_zero. ring.
    - intros m _. unfold msk at 1. destruct (in_band Kc m); [rewrite H|]; ring.
  Qed.

  (* results vanish outside the retained band *)
  Theorem prod_out_of_band (U V W : field F) (k : idx) : in_band Kc k = false ->
    prod2 F D N Kc U V k = 0 /\ prod3 F D N Kc U V W k = 0.
  Proof. intros H. unfold prod2, prod3, msk. rewrite H. split; reflexivity. Qed.
End AliasFree.
