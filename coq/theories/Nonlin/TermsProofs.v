(* Every built-in nonlinear term, evaluated pseudo-spectrally on the N-grid, equals the documented alias-free operator:
   the term definitions use the products only through P2 / P3, so the alias-free theorem for the products lifts to every term. *)
From Coq Require Import ZArith QArith List Bool Lia Field Ring.
From EXV Require Import Base.Scalar Base.FieldLemmas Spectral.Symbols Layout.Freq Nonlin.Conv Nonlin.ConvProofs Nonlin.Terms.
Import ListNotations.
Local Open Scope fld_scope.

Section Lift.
  Variable F : FieldT.
  Variable M : field F -> field F.
  Variables P2 P2' : field F -> field F -> field F.
  Variables P3 P3' : field F -> field F -> field F -> field F.
  Hypothesis H2 : forall U V k, P2 U V k = P2' U V k.
  Hypothesis H3 : forall U V W k, P3 U V W k = P3' U V W k.
  Variables (ii s : F) (D : nat) (ND : F).

  Ltac t := unfold fscal, fmulp, fadd, fsumf; repeat (f_equal; try (apply fsum_map_ext; intros)); rewrite ?H2, ?H3; try reflexivity.

  Lemma map2_ext_in {A B C} (f g : A -> B -> C) l1 l2 : (forall a b, f a b = g a b) -> map2 f l1 l2 = map2 g l1 l2.
  Proof. intros H. revert l2. induction l1 as [|a l1 IH]; intros [|b l2]; cbn; try reflexivity. rewrite H, IH. reflexivity. Qed.

  Lemma fsumf_map2_ext (f g : nat -> field F -> field F) l1 l2 k :
    (forall c u, f c u k = g c u k) -> fsumf F (map2 f l1 l2) k = fsumf F (map2 g l1 l2) k.
  Proof.
    intros H. unfold fsumf. f_equal. revert l2. induction l1 as [|a l1 IH]; intros [|b l2]; cbn; try reflexivity.
    rewrite H, IH. reflexivity.
  Qed.

  Lemma fsumf_map_ext {A} (f g : A -> field F) l k : (forall a, f a k = g a k) -> fsumf F (map f l) k = fsumf F (map g l) k.
  Proof. intros H. unfold fsumf. f_equal. induction l as [|a l IH]; cbn; [reflexivity|]. rewrite H, IH. reflexivity. Qed.

  Lemma conv_sc_cons_lift b u k : conv_sc_cons F P2 ii s D b u k = conv_sc_cons F P2' ii s D b u k.
  Proof. unfold conv_sc_cons, fscal, fmulp. rewrite H2. reflexivity. Qed.
  Lemma conv_sc_noncons_lift b u k : conv_sc_noncons F P2 ii s D b u k = conv_sc_noncons F P2' ii s D b u k.
  Proof. unfold conv_sc_noncons, fscal. f_equal. apply fsumf_map_ext. intros c. apply H2. Qed.
  Lemma gradient_norm_lift b z u k : gradient_norm F P2 ii s D b z u k = gradient_norm F P2' ii s D b z u k.
  Proof.
    unfold gradient_norm, fscal. cbv zeta. f_equal. f_equal.
    destruct z; [destruct (is_zero k); [reflexivity|]|]; apply fsumf_map_ext; intros c; apply H2.
  Qed.
  Lemma polynomial_lift c0 c1 c2 c3 u k :
    polynomial F M P2 P3 ND c0 c1 c2 c3 u k = polynomial F M P2' P3' ND c0 c1 c2 c3 u k.
  Proof. unfold polynomial. rewrite H2, H3. reflexivity. Qed.
  Lemma general_nonlinear_lift b0 b1 b2 z u k :
    general_nonlinear F M P2 P3 ii s D ND b0 b1 b2 z u k = general_nonlinear F M P2' P3' ii s D ND b0 b1 b2 z u k.
  Proof.
    unfold general_nonlinear, fadd. rewrite polynomial_lift, conv_sc_cons_lift, gradient_norm_lift. reflexivity.
  Qed.
  Lemma vorticity_conv_lift b w k : vorticity_conv F P2 ii s D b w k = vorticity_conv F P2' ii s D b w k.
  Proof. unfold vorticity_conv, fscal, fadd. cbv zeta. rewrite !H2. reflexivity. Qed.
  Lemma cahn_hilliard_lift sc u k : cahn_hilliard F P3 ii s D sc u k = cahn_hilliard F P3' ii s D sc u k.
  Proof. unfold cahn_hilliard, fscal, fmulp. rewrite H3. reflexivity. Qed.
  Lemma gray_scott_lift f kr u0 u1 i k :
    nth i (gray_scott F M P3 ND f kr u0 u1) (fzero F) k = nth i (gray_scott F M P3' ND f kr u0 u1) (fzero F) k.
  Proof. unfold gray_scott. destruct i as [|[|i]]; cbn [nth]; rewrite ?H3; reflexivity. Qed.

  Lemma nth_map_ext {A} (f g : A -> field F) (l : list A) i k :
    (forall a, f a k = g a k) -> nth i (map f l) (fzero F) k = nth i (map g l) (fzero F) k.
  Proof.
    intros H. revert i. induction l as [|a l IH]; intros [|i]; cbn [map nth]; try reflexivity; [apply H | apply IH].
  Qed.

  Lemma conv_mc_cons_lift b u i k :
    nth i (conv_mc_cons F P2 ii s D b u) (fzero F) k = nth i (conv_mc_cons F P2' ii s D b u) (fzero F) k.
  Proof.
    unfold conv_mc_cons. apply nth_map_ext. intros ui. unfold fscal. f_equal. f_equal.
    apply fsumf_map2_ext. intros c uj. unfold fmulp. rewrite H2. reflexivity.
  Qed.
  Lemma conv_mc_noncons_lift b u i k :
    nth i (conv_mc_noncons F P2 ii s D b u) (fzero F) k = nth i (conv_mc_noncons F P2' ii s D b u) (fzero F) k.
  Proof.
    unfold conv_mc_noncons. apply nth_map_ext. intros ui. unfold fscal. f_equal.
    apply fsumf_map2_ext. intros c uj. apply H2.
  Qed.

  Lemma cross_lift a b i k : nth i (cross F P2 a b) (fzero F) k = nth i (cross F P2' a b) (fzero F) k.
  Proof. unfold cross. destruct i as [|[|[|i]]]; cbn [nth]; unfold fadd, fscal; rewrite ?H2; reflexivity. Qed.

  (* Leray acts mode by mode: it maps pointwise-equal inputs to pointwise-equal outputs *)
  Lemma fsumf_map2_ptw (f : nat -> field F -> field F) ax (u v : list (field F)) k :
    length u = length v -> (forall i, nth i u (fzero F) k = nth i v (fzero F) k) ->
    (forall c a b, a k = b k -> f c a k = f c b k) ->
    fsumf F (map2 f ax u) k = fsumf F (map2 f ax v) k.
  Proof.
    intros Hl H Hf. unfold fsumf. f_equal. revert u v Hl H.
    induction ax as [|c ax IH]; intros [|a u] [|b v] Hl H; cbn in Hl; try discriminate; cbn [map2 map]; try reflexivity.
    f_equal; [apply Hf; exact (H 0%nat) | apply IH; [lia | intros j; exact (H (S j))]].
  Qed.

  Lemma nth_map2_ptw (f g : nat -> field F -> field F) ax (u v : list (field F)) k :
    length u = length v -> (forall i, nth i u (fzero F) k = nth i v (fzero F) k) ->
    (forall c a b, a k = b k -> f c a k = g c b k) ->
    forall i, nth i (map2 f ax u) (fzero F) k = nth i (map2 g ax v) (fzero F) k.
  Proof.
    intros Hl H Hf. revert u v Hl H.
    induction ax as [|c ax IH]; intros [|a u] [|b v] Hl H i; cbn in Hl; try discriminate; cbn [map2]; try reflexivity.
    destruct i as [|i]; cbn [nth]; [apply Hf; exact (H 0%nat) | apply IH; [lia | intros j; exact (H (S j))]].
  Qed.

  Lemma leray_ext (u v : list (field F)) k : length u = length v ->
    (forall i, nth i u (fzero F) k = nth i v (fzero F) k) ->
    forall i, nth i (leray F ii s D u) (fzero F) k = nth i (leray F ii s D v) (fzero F) k.
  Proof.
    intros Hl H. unfold leray. cbv zeta. apply nth_map2_ptw; [exact Hl | exact H|].
    intros c a b Hab. unfold fadd, fmulp, fscal. rewrite Hab. f_equal. f_equal. f_equal. f_equal.
    apply fsumf_map2_ptw; [exact Hl | exact H|]. intros c' a' b' H'. unfold fmulp. rewrite H'. reflexivity.
  Qed.

  Lemma projected_conv_lift u i k :
    nth i (projected_conv F P2 ii s D u) (fzero F) k = nth i (projected_conv F P2' ii s D u) (fzero F) k.
  Proof. unfold projected_conv. apply leray_ext; [reflexivity | intros j; apply cross_lift]. Qed.
End Lift.

(* C12: on the laminar subspace of the 2D Kolmogorov flow (vorticity depending on x_1 only: spectrum supported on k_0 = 0)
   the convection term vanishes identically *)
Section Laminar2D.
  Variable F : FieldT.
  Add Field Ffl : (fth F).
  Variables (N Kc : Z) (ii s b : F).
  Variable w : field F.
  Hypothesis w_support : forall k, nth 0 k 0%Z <> 0%Z -> w k = 0.

  Theorem vorticity_conv_laminar k : vorticity_conv F (prod2 F 2 N Kc) ii s 2 b w k = 0.
  Proof.
    unfold vorticity_conv. cbv zeta. unfold fscal, fadd.
    rewrite (prod2_zero_r F 2 N Kc _ (fmulp F (dc F ii s 0) w)).
    2:{ intros x. unfold fmulp, dc. destruct (Z.eq_dec (nth 0 x 0%Z) 0) as [E|E]; [rewrite E; cbn [fz]; ring | rewrite (w_support x E); ring]. }
    rewrite (prod2_zero_l F 2 N Kc (fun k0 => - (1) * fmulp F (dc F ii s 0) (fmulp F (inv_lap_one F ii s 2) w) k0)).
    2:{ intros x. unfold fmulp, dc. destruct (Z.eq_dec (nth 0 x 0%Z) 0) as [E|E]; [rewrite E; cbn [fz]; ring | rewrite (w_support x E); ring]. }
    ring.
  Qed.
End Laminar2D.
