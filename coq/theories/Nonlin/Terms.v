(* The built-in nonlinear terms in Fourier space, hand-written from exponax/nonlin_fun/*.py and the reaction steppers,
   parametrised by the product operators P2 (quadratic) and P3 (cubic) and by the masking operator M:
     code:        P2 = prod2, P3 = prod3   (pseudo-spectral products on the N-grid, circular convolution)
     documented:  P2 = prod2L, P3 = prod3L (alias-free products of the band-truncated fields, truncated to the band)
   Signs, factors 1/2, axes and channel pairings follow the docstrings:
     convection (conservative)      N_i = - b/2 sum_j d_j (u_i u_j)
     convection (non-conservative)  N_i = - b sum_j u_j d_j u_i
     single channel (conservative)  N   = - b/2 (sum_c d_c) u^2          (non-conservative: - b u sum_c d_c u)
     gradient norm                  N   = - b/2 sum_c (d_c u)^2  [mean removed when zero_mode_fix]
     polynomial                     N   = sum_p c_p u^p          (p <= 3 modelled)
     vorticity convection (2D)      N   = - b (u d_0 w + v d_1 w),  (u, v) = (d_1 psi, - d_0 psi),  psi = Lap^-1 w
     projected convection (3D)      N   = P(u x (curl u)),  P = Leray projection
     Cahn-Hilliard                  N   = s Lap (u^3);   Gray-Scott  N = (f (1 - u0) - u0 u1^2, -(f + k) u1 + u0 u1^2).
   Tied to the code by the exact-rational correspondence of harness/props/c03.py.  No proofs in this file. *)
From Coq Require Import ZArith QArith List Bool.
From EXV Require Import Base.Scalar Spectral.Symbols Layout.Freq Nonlin.Conv.
Import ListNotations.
Local Open Scope fld_scope.

Section Terms.
  Variable K : Ops.
  Notation fld := (field K).
  Variable M : fld -> fld.                    (* dealiasing mask *)
  Variable P2 : fld -> fld -> fld.            (* fft(ifft U * ifft V) *)
  Variable P3 : fld -> fld -> fld -> fld.
  Variables (ii s : K).                       (* imaginary unit, 2 pi / L *)
  Variable D : nat.
  Variable ND : K.                            (* N^D: rfftn of the constant 1 at the mean mode *)

  Definition dc (c : nat) : fld := fun k => ii * (s * fz (nth c k 0%Z)).       (* derivative operator, axis c *)
  Definition fmulp (a b : fld) : fld := fun k => a k * b k.
  Definition fscal (x : K) (a : fld) : fld := fun k => x * a k.
  Definition fadd (a b : fld) : fld := fun k => a k + b k.
  Definition fzero : fld := fun _ => 0.
  Definition fsumf (l : list fld) : fld := fun k => fsum (map (fun f => f k) l).
  Definition axes : list nat := seq 0 D.
  Definition half : K := 1 / fz 2.
  Definition lap : fld := fun k => fsum (map (fun c => dc c k * dc c k) axes).
  Definition delta0 : fld := fun k => if is_zero k then 1 else 0.

  (* ConvectionNonlinearFun, 4 variants; u : list of channels *)
  Definition conv_mc_cons (b : K) (u : list fld) : list fld :=
    map (fun ui => fscal (- b) (fscal half (fsumf (map2 (fun c uj => fmulp (dc c) (P2 ui uj)) axes u)))) u.
  Definition conv_mc_noncons (b : K) (u : list fld) : list fld :=
    map (fun ui => fscal (- b) (fsumf (map2 (fun c uj => P2 uj (fmulp (dc c) ui)) axes u))) u.
  Definition conv_sc_cons (b : K) (u : fld) : fld :=
    fscal (- b) (fscal half (fmulp (fsumf (map dc axes)) (P2 u u))).
  Definition conv_sc_noncons (b : K) (u : fld) : fld :=
    fscal (- b) (fsumf (map (fun c => P2 u (fmulp (dc c) u)) axes)).
  (* GradientNormNonlinearFun *)
  Definition gradient_norm (b : K) (zero_fix : bool) (u : fld) : fld :=
    let g := fsumf (map (fun c => P2 (fmulp (dc c) u) (fmulp (dc c) u)) axes) in
    let g' := if zero_fix then (fun k => if is_zero k then 0 else g k) else g in
    fscal (- b) (fscal half g').
  (* PolynomialNonlinearFun, coefficients c0..c3 *)
  Definition polynomial (c0 c1 c2 c3 : K) (u : fld) : fld :=
    fun k => c0 * ND * delta0 k + c1 * M (M u) k + c2 * P2 u u k + c3 * P3 u u u k.
  (* GeneralNonlinearFun: b0 u^2 - b1 (single-channel conservative convection with scale -b1) - b2 (gradient norm with scale -b2) *)
  Definition general_nonlinear (b0 b1 b2 : K) (zero_fix : bool) (u : fld) : fld :=
    fadd (fadd (polynomial 0 0 b0 0 u) (conv_sc_cons (- b1) u)) (gradient_norm (- b2) zero_fix u).
  (* VorticityConvection2d (axes 0, 1) *)
  Definition inv_lap_one : fld := fun k => if oeqb (lap k) 0 then 1 else 1 / lap k.     (* where(lap == 0, 1, 1/lap) *)
  Definition vorticity_conv (b : K) (w : fld) : fld :=
    let psi := fmulp inv_lap_one w in
    let uh := fmulp (dc 1) psi in
    let vh := fscal (- (1)) (fmulp (dc 0) psi) in
    fscal (- b) (fadd (P2 uh (fmulp (dc 0) w)) (P2 vh (fmulp (dc 1) w))).
  (* Leray: u + d (-(invlap0) (d . u)), invlap0 = where(lap != 0, 1/lap, 0) *)
  Definition inv_lap_zero : fld := fun k => if oeqb (lap k) 0 then 0 else 1 / lap k.
  Definition leray (u : list fld) : list fld :=
    let div := fsumf (map2 (fun c uc => fmulp (dc c) uc) axes u) in
    let p := fscal (- (1)) (fmulp inv_lap_zero div) in
    map2 (fun c uc => fadd uc (fmulp (dc c) p)) axes u.
  (* ProjectedConvection3d: u x (d x u), then Leray *)
  Definition cross (P : fld -> fld -> fld) (a b : list fld) : list fld :=
    let g l i := nth i l fzero in
    [ fadd (P (g a 1%nat) (g b 2%nat)) (fscal (- (1)) (P (g a 2%nat) (g b 1%nat)));
      fadd (P (g a 2%nat) (g b 0%nat)) (fscal (- (1)) (P (g a 0%nat) (g b 2%nat)));
      fadd (P (g a 0%nat) (g b 1%nat)) (fscal (- (1)) (P (g a 1%nat) (g b 0%nat))) ].
  Definition curl (u : list fld) : list fld := cross fmulp [dc 0; dc 1; dc 2] u.
  Definition projected_conv (u : list fld) : list fld := leray (cross P2 u (curl u)).
  (* reaction terms *)
  Definition cahn_hilliard (sc : K) (u : fld) : fld := fscal sc (fmulp lap (P3 u u u)).
  Definition gray_scott (f kr : K) (u0 u1 : fld) : list fld :=
    [ fun k => f * ND * delta0 k - f * M (M u0) k - P3 u0 u1 u1 k;
      fun k => - (f + kr) * M (M u1) k + P3 u0 u1 u1 k ].
End Terms.
