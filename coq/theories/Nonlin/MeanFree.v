(* C09: the mean-mode coefficient of the NON-conservative single-channel convection u (1.grad) u vanishes for every input:
   sum over the band of U(m) d_c(-m) U(-m) is antisymmetric under m -> -m (integration by parts in Fourier space). *)
From Coq Require Import ZArith QArith List Bool Field Ring Lia Permutation.
From EXV Require Import Base.Scalar Base.FieldLemmas Spectral.Symbols Layout.Freq Nonlin.Conv Nonlin.ConvProofs Nonlin.Terms.
Import ListNotations.

Definition negi (k : idx) : idx := map Z.opp k.

Section Band.
  Local Open Scope Z_scope.
  Lemma negi_invol k : negi (negi k) = k.
  Proof. unfold negi. rewrite map_map. rewrite <- (map_id k) at 2. apply map_ext. intros; lia. Qed.

  Lemma in_zrange_from lo n x : In x (zrange_from lo n) <-> lo <= x < lo + Z.of_nat n.
  Proof.
    revert lo. induction n as [|n IH]; intros lo; cbn [zrange_from In]; [lia|]. rewrite IH. lia.
  Qed.
  Lemma in_zrange lo hi x : In x (zrange lo hi) <-> lo <= x <= hi.
  Proof. unfold zrange. rewrite in_zrange_from. lia. Qed.
  Lemma NoDup_zrange_from lo n : NoDup (zrange_from lo n).
  Proof.
    revert lo. induction n as [|n IH]; intros lo; cbn [zrange_from]; constructor; [|apply IH].
    rewrite in_zrange_from. lia.
  Qed.

  Lemma in_bandD D Kc k : 0 <= Kc -> In k (bandD D Kc) <-> (length k = D /\ in_band Kc k = true).
  Proof.
    intros HK. revert k. induction D as [|D IH]; intros k; cbn [bandD].
    - split.
      + intros [<-|[]]. split; reflexivity.
      + intros [Hl _]. destruct k; [left; reflexivity | discriminate].
    - rewrite in_flat_map. split.
      + intros (c & Hc & Hk). apply in_map_iff in Hk. destruct Hk as (r & <- & Hr). apply IH in Hr. destruct Hr as [Hl Hb].
        apply in_zrange in Hc. cbn [length in_band forallb]. split; [lia|]. apply andb_true_iff. split; [lia | exact Hb].
      + intros [Hl Hb]. destruct k as [|c r]; [discriminate|]. cbn [length in_band forallb] in *. apply andb_true_iff in Hb. destruct Hb as [Hc Hr].
        exists c. split; [apply in_zrange; lia|]. apply in_map. apply IH. split; [lia | exact Hr].
  Qed.

  Lemma NoDup_app_disj {A} (l l' : list A) : NoDup l -> NoDup l' -> (forall x, In x l -> ~ In x l') -> NoDup (l ++ l').
  Proof.
    intros H H' Hd. induction H as [|a l Ha H IH]; cbn [app]; [exact H'|]. constructor.
    - rewrite in_app_iff. intros [Hi|Hi]; [contradiction | apply (Hd a); [left; reflexivity | exact Hi]].
    - apply IH. intros x Hx. apply Hd. right. exact Hx.
  Qed.

  Lemma NoDup_bandD D Kc : NoDup (bandD D Kc).
  Proof.
    induction D as [|D IH]; cbn [bandD]; [constructor; [intros [] | constructor]|].
    unfold zrange. generalize (- Kc) (Z.to_nat (Kc - - Kc + 1)). intros lo n.
    assert (Hnd := NoDup_zrange_from lo n). revert Hnd. generalize (zrange_from lo n). intros l Hnd.
    induction Hnd as [|c l Hc Hnd IHl]; cbn [flat_map]; [constructor|].
    apply NoDup_app_disj; [| exact IHl |].
    - apply FinFun.Injective_map_NoDup; [intros a b H; injection H; auto | exact IH].
    - intros x Hx Hx'. apply in_map_iff in Hx. destruct Hx as (r & <- & _). apply in_flat_map in Hx'. destruct Hx' as (c' & Hc' & Hx').
      apply in_map_iff in Hx'. destruct Hx' as (r' & E & _). injection E as -> _. contradiction.
  Qed.

  Lemma in_band_negi Kc k : in_band Kc (negi k) = in_band Kc k.
  Proof. unfold in_band, negi. induction k as [|c k IH]; cbn [map forallb]; [reflexivity|]. rewrite IH. f_equal. lia. Qed.

  (* the band is symmetric under k -> -k *)
  Theorem bandD_symmetric D Kc : 0 <= Kc -> Permutation (map negi (bandD D Kc)) (bandD D Kc).
  Proof.
    intros HK. apply NoDup_Permutation.
    - apply FinFun.Injective_map_NoDup; [|apply NoDup_bandD]. intros a b H. rewrite <- (negi_invol a), <- (negi_invol b), H. reflexivity.
    - apply NoDup_bandD.
    - intros k. rewrite in_map_iff. rewrite !in_bandD by exact HK. split.
      + intros (m & <- & Hm). apply in_bandD in Hm; [|exact HK]. destruct Hm as [Hl Hb]. unfold negi at 1. rewrite map_length, in_band_negi. split; assumption.
      + intros [Hl Hb]. exists (negi k). split; [apply negi_invol|]. apply in_bandD; [exact HK|]. unfold negi at 1. rewrite map_length, in_band_negi. split; assumption.
  Qed.
End Band.

Section MeanFree.
  Variable F : FieldT.
  Add Field Ff : (fth F).
  Local Open Scope fld_scope.

  Lemma fsum_perm {A} (f : A -> F) (l l' : list A) : Permutation l l' -> fsum (map f l) = fsum (map f l').
  Proof. induction 1 as [|x l l' H IH|x y l|l l' l'' H1 IH1 H2 IH2]; cbn [map fsum]; try rewrite IH; try ring. rewrite IH1. exact IH2. Qed.

  Variables (D : nat) (N Kc : Z).
  Hypothesis N_pos : (0 < N)%Z.
  Hypothesis K_nonneg : (0 <= Kc)%Z.
  Hypothesis K_small : (2 * Kc < N)%Z.

  (* sums over the band may be re-indexed by m -> -m *)
  Lemma band_reindex (f : idx -> F) : fsum (map f (bandD D Kc)) = fsum (map (fun m => f (negi m)) (bandD D Kc)).
  Proof.
    rewrite <- (fsum_perm f _ _ (bandD_symmetric D Kc K_nonneg)). rewrite map_map. reflexivity.
  Qed.

  Definition zeros : idx := repeat 0%Z D.

  Lemma subi_zeros m : length m = D -> subi zeros m = negi m.
  Proof.
    unfold zeros, subi, negi. revert m. induction D as [|d IH]; intros [|c m] H; cbn in *; try discriminate; try reflexivity.
    f_equal. apply IH. lia.
  Qed.

  Lemma wrapD_band m : in_band Kc m = true -> wrapD N m = m.
  Proof.
    intros H. unfold wrapD. rewrite <- (map_id m) at 2. apply map_ext_in. intros c Hc. apply wrap1_small; [exact N_pos|].
    unfold in_band in H. rewrite forallb_forall in H. specialize (H c Hc). lia.
  Qed.

  Variables (ii s : F).
  Lemma dc_negi c m : dc F ii s c (negi m) = - dc F ii s c m.
  Proof.
    unfold dc, negi. assert (H : nth c (map Z.opp m) 0%Z = (- nth c m 0)%Z).
    { revert c. induction m as [|x m IH]; intros [|c]; cbn; try reflexivity. apply IH. }
    rewrite H, fz_opp. ring.
  Qed.

  (* a summand that is odd under m -> -m sums to zero over the (symmetric) band *)
  Lemma odd_sum_zero (g : idx -> F) : (forall m, In m (bandD D Kc) -> g (negi m) = - g m) -> fsum (map g (bandD D Kc)) = 0.
  Proof.
    intros Hodd. set (S := fsum (map g (bandD D Kc))).
    assert (H : S = - S).
    { transitivity (fsum (map (fun m => - (1) * g m) (bandD D Kc))).
      - unfold S. rewrite band_reindex. apply fsum_map_ext. intros m Hm. rewrite (Hodd m Hm). ring.
      - rewrite fsum_map_scal. fold S. ring. }
    assert (H2 : fz 2 * S = 0) by (cbn [fz fpos]; transitivity (S + S); [ring | rewrite H at 1; ring]).
    apply (fmul_eq0 F) in H2. destruct H2 as [H2|H2]; [|exact H2]. exfalso. revert H2. apply fz_neq0. discriminate.
  Qed.

  (* S_c = sum_m u(m) d_c(-m) u(-m) over the band vanishes *)
  Lemma antisym_sum (u : field F) c :
    fsum (map (fun m => msk F Kc u m * msk F Kc (fmulp F (dc F ii s c) u) (negi m)) (bandD D Kc)) = 0.
  Proof.
    set (S := fsum (map (fun m => msk F Kc u m * msk F Kc (fmulp F (dc F ii s c) u) (negi m)) (bandD D Kc))).
    assert (H : S = - S).
    { transitivity (fsum (map (fun m => - (1) * (msk F Kc u m * msk F Kc (fmulp F (dc F ii s c) u) (negi m))) (bandD D Kc))).
      - unfold S. rewrite band_reindex. apply fsum_map_ext. intros m Hm. rewrite negi_invol. unfold msk, fmulp. rewrite !in_band_negi.
        destruct (in_band Kc m); [rewrite dc_negi; ring | ring].
      - rewrite fsum_map_scal. fold S. ring. }
    assert (H2 : fz 2 * S = 0) by (cbn [fz fpos]; transitivity (S + S); [ring | rewrite H at 1; ring]).
    apply (fmul_eq0 F) in H2. destruct H2 as [H2|H2]; [|exact H2]. exfalso. revert H2. apply fz_neq0. discriminate.
  Qed.

  (* the non-conservative single-channel convection term has zero mean for EVERY input state (any D) *)
  Theorem conv_sc_noncons_dc (b : F) (u : field F) : conv_sc_noncons F (prod2 F D N Kc) ii s D b u zeros = 0.
  Proof.
    unfold conv_sc_noncons, fscal, fsumf. rewrite map_map.
    assert (Hz : forall c, prod2 F D N Kc u (fmulp F (dc F ii s c) u) zeros = 0).
    { intros c. unfold prod2, msk at 1.
      assert (Hb : in_band Kc zeros = true) by (unfold zeros, in_band; induction D; cbn; [reflexivity | rewrite IHn; lia]).
      rewrite Hb. unfold cconv2.
      rewrite (fsum_map_ext F _ _ (fun m => msk F Kc u m * msk F Kc (fmulp F (dc F ii s c) u) (negi m))).
      - rewrite antisym_sum. ring.
      - intros m Hm. apply (in_bandD D Kc m K_nonneg) in Hm. destruct Hm as [Hl Hbm].
        rewrite (subi_zeros m Hl), wrapD_band by (rewrite in_band_negi; exact Hbm). reflexivity. }
    rewrite (fsum_map_ext F _ _ (fun _ => 0)) by (intros c _; apply Hz). rewrite fsum_map_zero. ring.
  Qed.

  (* zero-mode coefficient of a pseudo-spectral product: N^-D sum_m U(m) V(-m) over the band *)
  Lemma prod2_zero_mode (U V : field F) :
    prod2 F D N Kc U V zeros = nfac F D N * fsum (map (fun m => msk F Kc U m * msk F Kc V (negi m)) (bandD D Kc)).
  Proof.
    unfold prod2, msk at 1.
    assert (Hb : in_band Kc zeros = true) by (unfold zeros, in_band; induction D; cbn; [reflexivity | rewrite IHn; lia]).
    rewrite Hb. unfold cconv2. f_equal. apply fsum_map_ext. intros m Hm.
    apply (in_bandD D Kc m K_nonneg) in Hm. destruct Hm as [Hl Hbm].
    rewrite (subi_zeros m Hl), wrapD_band by (rewrite in_band_negi; exact Hbm). reflexivity.
  Qed.

  (* 2D vorticity convection -b (u d_0 w + v d_1 w), (u, v) = (d_1 psi, -d_0 psi): the two products cancel term by term at the mean mode,
     for every vorticity state and every stream-function multiplier (in particular where(lap == 0, 1, 1/lap)) *)
  Theorem vorticity_conv_dc (b : F) (w : field F) : vorticity_conv F (prod2 F D N Kc) ii s D b w zeros = 0.
  Proof.
    unfold vorticity_conv, fscal, fadd. cbv zeta. rewrite !prod2_zero_mode.
    set (psi := fmulp F (inv_lap_one F ii s D) w).
    set (f1 := fun m => msk F Kc (fmulp F (dc F ii s 1) psi) m * msk F Kc (fmulp F (dc F ii s 0) w) (negi m)).
    set (f2 := fun m => msk F Kc (fun k => - (1) * fmulp F (dc F ii s 0) psi k) m * msk F Kc (fmulp F (dc F ii s 1) w) (negi m)).
    assert (H : fsum (map f1 (bandD D Kc)) + fsum (map f2 (bandD D Kc)) = 0).
    { rewrite <- fsum_map_add. rewrite (fsum_map_ext F _ _ (fun _ => 0)); [apply fsum_map_zero|].
      intros m _. unfold f1, f2, msk, fmulp. rewrite in_band_negi. destruct (in_band Kc m); [rewrite !dc_negi; ring | ring]. }
    transitivity (- b * (nfac F D N * (fsum (map f1 (bandD D Kc)) + fsum (map f2 (bandD D Kc))))); [ring | rewrite H; ring].
  Qed.

  (* rotational form u x (curl u), one component, with abstract odd derivative symbols da, db, dc along a cyclic triple of axes:
     on divergence-free band-limited input the summand is -da(m) (u(m).u(-m)), odd under m -> -m *)
  Lemma rot_component_dc (da db dcc ua ub uc : field F) :
    (forall m, da (negi m) = - da m) -> (forall m, db (negi m) = - db m) -> (forall m, dcc (negi m) = - dcc m) ->
    (forall m, in_band Kc m = true -> da m * ua m + db m * ub m + dcc m * uc m = 0) ->
    fadd F (prod2 F D N Kc ub (fadd F (fmulp F da ub) (fscal F (- (1)) (fmulp F db ua))))
           (fscal F (- (1)) (prod2 F D N Kc uc (fadd F (fmulp F dcc ua) (fscal F (- (1)) (fmulp F da uc))))) zeros = 0.
  Proof.
    intros Oa Ob Oc Hdiv.
    change (prod2 F D N Kc ub (fadd F (fmulp F da ub) (fscal F (- (1)) (fmulp F db ua))) zeros
            + - (1) * prod2 F D N Kc uc (fadd F (fmulp F dcc ua) (fscal F (- (1)) (fmulp F da uc))) zeros = 0).
    rewrite !prod2_zero_mode.
    set (E := fun m => ua m * ua (negi m) + ub m * ub (negi m) + uc m * uc (negi m)).
    set (g := fun m => if in_band Kc m then - da m * E m else 0).
    set (f1 := fun m => msk F Kc ub m * msk F Kc (fadd F (fmulp F da ub) (fscal F (- (1)) (fmulp F db ua))) (negi m)).
    set (f2 := fun m => msk F Kc uc m * msk F Kc (fadd F (fmulp F dcc ua) (fscal F (- (1)) (fmulp F da uc))) (negi m)).
    assert (H : fsum (map f1 (bandD D Kc)) + - (1) * fsum (map f2 (bandD D Kc)) = 0).
    { rewrite <- fsum_map_scal, <- fsum_map_add. rewrite (fsum_map_ext F _ _ g).
      - apply odd_sum_zero. intros m _. unfold g. rewrite in_band_negi. destruct (in_band Kc m); [|ring].
        unfold E. rewrite negi_invol, Oa. ring.
      - intros m Hm. apply (in_bandD D Kc m K_nonneg) in Hm. destruct Hm as [_ Hb].
        unfold f1, f2, g, msk, fadd, fscal, fmulp. rewrite in_band_negi, Hb, Oa, Ob, Oc. unfold E.
        pose proof (Hdiv m Hb) as Hd.
        transitivity (- da m * (ua m * ua (negi m) + ub m * ub (negi m) + uc m * uc (negi m))
                      + ua (negi m) * (da m * ua m + db m * ub m + dcc m * uc m)); [ring | rewrite Hd; ring]. }
    transitivity (nfac F D N * (fsum (map f1 (bandD D Kc)) + - (1) * fsum (map f2 (bandD D Kc)))); [ring | rewrite H; ring].
  Qed.
End MeanFree.

(* 1D default (multi-channel, non-conservative) Burgers / KdV convection -b u d_x u: zero mean for every state *)
Theorem conv_mc_noncons_1d_dc (F : FieldT) (N Kc : Z) (ii s b : F) (u : field F) :
  (0 < N)%Z -> (0 <= Kc)%Z -> (2 * Kc < N)%Z ->
  nth 0 (conv_mc_noncons F (prod2 F 1 N Kc) ii s 1 b [u]) (fzero F) (zeros 1) = o0.
Proof.
  intros HN HK H2. change (nth 0 (conv_mc_noncons F (prod2 F 1 N Kc) ii s 1 b [u]) (fzero F) (zeros 1))
    with (conv_sc_noncons F (prod2 F 1 N Kc) ii s 1 b u (zeros 1)).
  apply conv_sc_noncons_dc; assumption.
Qed.

(* 3D Navier-Stokes in rotational form, Leray-projected: every component has zero mean on divergence-free band-limited states
   (the premise is necessary: on non-solenoidal input the mean of u x curl u is sum_m u(-m) (m . u(m)) <> 0 in general) *)
Section Rot3.
  Variable F : FieldT.
  Add Field Ff3 : (fth F).
  Local Open Scope fld_scope.
Theorem projected_conv_dc (N Kc : Z) (ii s : F) (u0 u1 u2 : field F) :
  (0 < N)%Z -> (0 <= Kc)%Z -> (2 * Kc < N)%Z ->
  (forall m, in_band Kc m = true -> dc F ii s 0 m * u0 m + dc F ii s 1 m * u1 m + dc F ii s 2 m * u2 m = 0) ->
  forall i, (i < 3)%nat -> nth i (projected_conv F (prod2 F 3 N Kc) ii s 3 [u0; u1; u2]) (fzero F) (zeros 3) = 0.
Proof.
  intros HN HK H2 Hdiv i Hi.
  assert (Hz : forall c, dc F ii s c (zeros 3) = 0).
  { intros c. unfold dc, zeros. destruct c as [|[|[|[|c]]]]; cbn [repeat nth fz]; ring. }
  pose proof (fun c => dc_negi F ii s c) as Odd.
  assert (Hl : forall v0 v1 v2 : field F, nth i (leray F ii s 3 [v0; v1; v2]) (fzero F) (zeros 3) = nth i [v0; v1; v2] (fzero F) (zeros 3)).
  { intros v0 v1 v2. unfold leray, axes. cbv zeta. cbn [seq map2].
    destruct i as [|[|[|i]]]; [| | | lia]; cbn [nth]; unfold fadd at 1, fmulp at 1; rewrite Hz; ring. }
  unfold projected_conv, cross. rewrite Hl. unfold curl, cross.
  destruct i as [|[|[|i]]]; [| | | lia]; cbn [nth].
  - apply (rot_component_dc F 3 N Kc HN HK H2 (dc F ii s 0) (dc F ii s 1) (dc F ii s 2) u0 u1 u2); auto.
  - apply (rot_component_dc F 3 N Kc HN HK H2 (dc F ii s 1) (dc F ii s 2) (dc F ii s 0) u1 u2 u0); auto.
    intros m Hm. rewrite <- (Hdiv m Hm). ring.
  - apply (rot_component_dc F 3 N Kc HN HK H2 (dc F ii s 2) (dc F ii s 0) (dc F ii s 1) u2 u0 u1); auto.
    intros m Hm. rewrite <- (Hdiv m Hm). ring.
Qed.
End Rot3.
