(* Pseudo-spectral products in Fourier space.  A band-limited field is a function from signed wavenumber vectors
   (idx = list Z, one entry per axis) to coefficients; the dealiasing mask keeps |k_c| <= Kc on every axis.
   The code multiplies in physical space on the N-grid: by the convolution theorem (DFT/DFT1.v, iterated along each axis)
   rfftn(irfftn U * irfftn V) = N^-D * CIRCULAR convolution of U and V (indices wrap modulo N on every axis).
   The documented (continuous) product of two trigonometric polynomials is the LINEAR convolution (no wrap). *)
From Coq Require Import ZArith QArith List Bool.
From EXV Require Import Base.Scalar Spectral.Symbols Layout.Freq.
Import ListNotations.
Local Open Scope fld_scope.

Definition idx := list Z.
Definition wrap1 (N x : Z) : Z := fftfreq N (x mod N).          (* representative of x mod N in the signed band *)
Definition wrapD (N : Z) (x : idx) : idx := map (wrap1 N) x.
Definition in_band (Kc : Z) (x : idx) : bool := forallb (fun c => Z.abs c <=? Kc)%Z x.
Definition subi (a b : idx) : idx := map2 Z.sub a b.
Fixpoint zrange_from (lo : Z) (n : nat) : list Z := match n with O => [] | S m => lo :: zrange_from (lo + 1) m end.
Definition zrange (lo hi : Z) : list Z := zrange_from lo (Z.to_nat (hi - lo + 1)).
Fixpoint bandD (D : nat) (Kc : Z) : list idx :=
  match D with O => [[]] | S d => flat_map (fun c => map (cons c) (bandD d Kc)) (zrange (- Kc) Kc) end.
Definition is_zero (x : idx) : bool := forallb (Z.eqb 0) x.

Section Conv.
  Variable K : Ops.
  Definition field := idx -> K.
  Definition msk (Kc : Z) (U : field) : field := fun x => if in_band Kc x then U x else 0.
  (* sums over the band; inputs are masked inside, as self.ifft does *)
  Definition cconv2 (D : nat) (N Kc : Z) (U V : field) : field :=
    fun k => fsum (map (fun m => msk Kc U m * msk Kc V (wrapD N (subi k m))) (bandD D Kc)).
  Definition lconv2 (D : nat) (Kc : Z) (U V : field) : field :=
    fun k => fsum (map (fun m => msk Kc U m * msk Kc V (subi k m)) (bandD D Kc)).
  Definition cconv3 (D : nat) (N Kc : Z) (U V W : field) : field :=
    fun k => fsum (map (fun m1 => fsum (map (fun m2 =>
       msk Kc U m1 * (msk Kc V m2 * msk Kc W (wrapD N (subi (subi k m1) m2)))) (bandD D Kc))) (bandD D Kc)).
  Definition lconv3 (D : nat) (Kc : Z) (U V W : field) : field :=
    fun k => fsum (map (fun m1 => fsum (map (fun m2 =>
       msk Kc U m1 * (msk Kc V m2 * msk Kc W (subi (subi k m1) m2))) (bandD D Kc))) (bandD D Kc)).
  (* N^-D and N^-2D *)
  Definition nfac (D : nat) (N : Z) : K := 1 / fpow (fz N) D.
  (* self.fft(self.ifft(U) * self.ifft(V)) and the triple product, as the code evaluates them *)
  Definition prod2 (D : nat) (N Kc : Z) (U V : field) : field :=
    msk Kc (fun k => nfac D N * cconv2 D N Kc U V k).
  Definition prod3 (D : nat) (N Kc : Z) (U V W : field) : field :=
    msk Kc (fun k => nfac D N * nfac D N * cconv3 D N Kc U V W k).
  (* the alias-free (documented) products of the band-truncated fields, truncated to the band *)
  Definition prod2L (D : nat) (N Kc : Z) (U V : field) : field :=
    msk Kc (fun k => nfac D N * lconv2 D Kc U V k).
  Definition prod3L (D : nat) (N Kc : Z) (U V W : field) : field :=
    msk Kc (fun k => nfac D N * nfac D N * lconv3 D Kc U V W k).
End Conv.
